(* C06 — the repaired library ([repo]: the fix: commits of D19/D60, D61, D63 applied): wherever an entry is rebound or a
   names / batch-size metadatum is assigned under lock, the node erases its own cache and the caches of its registered lock
   parents (TensorDictBase._erase_cache_upwards).  With that, the writes permitted under lock keep the invariant too: the full
   statement holds for every history over trees of TensorDicts. *)
From Coq Require Import ZArith List String Bool Arith Lia.
Import ListNotations.
From TD Require Import Model.C06_Cache Proofs.C06_PathP Proofs.C06_ViewP Proofs.C06_KeyP Proofs.C06_CacheP Proofs.C06_EraseP Proofs.C06_ReadP Proofs.C06_StepP.
Open Scope string_scope.
Open Scope list_scope.

(* ---------------------------------------------------------------- the single ops *)
Lemma leaves_under_set_leaf : forall s p l x, is_prefix x p = false -> leaves_under (set_leaf s p l) x = leaves_under s x.
Proof.
  intros s p l x H. unfold leaves_under, set_leaf. cbn [leaves].
  assert (Z : strip x p = None) by (unfold is_prefix in H; destruct (strip x p); [discriminate|reflexivity]).
  destruct (existsb (fun ql => path_eqb (fst ql) p) (leaves s)).
  - induction (leaves s) as [|ql r IH]; [reflexivity|]. cbn [map flat_map]. rewrite IH. f_equal.
    destruct (path_eqb (fst ql) p) eqn:E; [|reflexivity]. apply path_eqb_eq in E. cbn [fst snd]. rewrite E, Z. reflexivity.
  - rewrite flat_map_app. cbn. rewrite Z. cbn. now rewrite app_nil_r.
Qed.

(* an entry of owner p0 is rebound (non-tensor promotion, make_memmap and friends) *)
Lemma rebind_good : forall U s p l o,
  Good U s -> find_node s (parent_of p) = Some o -> flag_locked o = true -> p <> [] ->
  (forall n, In n (nodes s) -> n_path n <> p) ->
  Good U (erase_touched (set_leaf s p l) (fun x => path_eqb x (parent_of p))).
Proof.
  intros U s p l o G F L Np Nn. destruct (find_node_in s _ o F) as [Ho Po].
  apply (erase_touched_good U s (set_leaf s p l) (fun x => x) (fun x => path_eqb x (parent_of p))); auto.
  - cbn. now rewrite map_id.
  - intros; apply id_keeps.
  - intros n Hn Ln C. apply leaves_under_set_leaf.
    destruct (is_prefix (n_path n) p) eqn:P; [|reflexivity]. exfalso.
    destruct (prefix_split _ _ P) as [P'|P']; [exact (Nn n Hn P')|].
    apply proper_prefix_parent in P'. rewrite <- Po in P'. rewrite (C o Ho) in P'; [discriminate|]. rewrite Po. apply path_eqb_refl.
  - intros y Hy Ty. apply path_eqb_eq in Ty. assert (y = o) by (apply (nodup_path_inj (nodes s)); auto; [apply (g_nodup U s G)|congruence]). now subst.
Qed.

(* ... by an owner that is not locked: nothing above it is locked either (lock closure), so no memoised entry shows it *)
Lemma unlocked_rebind_good : forall U s p l o,
  Good U s -> find_node s (parent_of p) = Some o -> flag_locked o = false ->
  (forall n, In n (nodes s) -> n_path n <> p) ->
  Good U (set_leaf s p l).
Proof.
  intros U s p l o G F L Nn. destruct (find_node_in s _ o F) as [Ho Po].
  constructor; try (cbn [nodes set_leaf]; apply G).
  intros n e Hn He. cbn [nodes set_leaf] in Hn.
  assert (Ln : flag_locked n = true).
  { destruct (flag_locked n) eqn:Ln; [reflexivity|]. rewrite (g_ue U s G n Hn Ln) in He. contradiction. }
  eapply entry_ok_view; [reflexivity| |apply (g_inv U s G n e Hn He)].
  unfold view_of. rewrite leaves_under_set_leaf; [reflexivity|].
  destruct (is_prefix (n_path n) p) eqn:P; [|reflexivity]. exfalso.
  destruct (prefix_split _ _ P) as [P'|P']; [exact (Nn n Hn P')|].
  apply proper_prefix_parent in P'. rewrite <- Po in P'. assert (flag_locked o = true) by (eapply (g_lc U s G n o); eauto). congruence.
Qed.

Lemma no_node_at : forall U s p, Good U s -> is_node_path s p = false -> forall n, In n (nodes s) -> n_path n <> p.
Proof.
  intros U s p G H n Hn E. unfold is_node_path in H. rewrite <- E, (find_node_of_in s n (g_nodup U s G) Hn) in H. discriminate.
Qed.

Lemma with_meta_keeps : forall x m, keeps (fun y => with_meta y m) x.
Proof. intros. repeat split. Qed.

Lemma set_names_shape : forall p names, exists g,
  (forall n, keeps g n) /\ (forall n, names_touched p names (n_path n) = false -> g n = n)
  /\ forall s, nodes (set_names s p names) = map g (nodes s) /\ leaves (set_names s p names) = leaves s.
Proof.
  intros p names. unfold set_names, names_touched. destruct (names_value names) as [l|].
  - exists (fun x => if is_prefix p (n_path x)
                     then with_meta x {| m_bs := m_bs (n_meta x);
                                         m_names := norm_names (l ++ skipn (List.length l) (names_list (n_meta x)));
                                         m_dev := m_dev (n_meta x) |}
                     else x).
    split; [|split; [|intros s; split; reflexivity]].
    + intros n. unfold keeps. cbn beta. destruct (is_prefix p (n_path n)); repeat split; reflexivity.
    + intros n P. now rewrite P.
  - exists (fun x => if path_eqb (n_path x) p || is_child p (n_path x)
                     then with_meta x {| m_bs := m_bs (n_meta x); m_names := None; m_dev := m_dev (n_meta x) |} else x).
    split; [|split; [|intros s; split; reflexivity]].
    + intros n. unfold keeps. cbn beta. destruct (path_eqb (n_path n) p || is_child p (n_path n)); repeat split; reflexivity.
    + intros n P. now rewrite P.
Qed.

Lemma keeps_comp : forall g1 g2 n, keeps g1 n -> keeps g2 (g1 n) -> keeps (fun x => g2 (g1 x)) n.
Proof. intros g1 g2 n [a1 [a2 [a3 [a4 [a5 a6]]]]] [b1 [b2 [b3 [b4 [b5 b6]]]]]. repeat split; congruence. Qed.

Lemma locked_at_in : forall U s n, Good U s -> In n (nodes s) -> locked_at s (n_path n) = flag_locked n.
Proof. intros U s n G Hn. unfold locked_at. now rewrite (find_node_of_in s n (g_nodup U s G) Hn). Qed.

(* metadata rewrites: the touched nodes that are locked erase upwards; the touched nodes that are not locked have no locked
   node above them (lock closure), so nobody memoised anything that shows them *)
Lemma rewrite_good : forall U s s1 g T,
  Good U s ->
  nodes s1 = map g (nodes s) ->
  (forall n, In n (nodes s) ->
             (forall y, In y (nodes s) -> T (n_path y) = true -> is_prefix (n_path n) (n_path y) = false) ->
             leaves_under s1 (n_path n) = leaves_under s (n_path n)) ->
  (forall n, keeps g n) -> (forall n, T (n_path n) = false -> g n = n) ->
  Good U (erase_touched s1 (fun x => T x && locked_at s x)).
Proof.
  intros U s s1 g T G Hn Hlv Hk Hout.
  set (T' := fun y => T y && negb (existsb (fun a => flag_locked a && is_prefix (n_path a) y) (nodes s)) || T y && locked_at s y).
  (* rewriting an unlocked node without locked ancestors is invisible to every memoised entry: treat it as not touched for
     the purpose of erasing, in two steps *)
  assert (Main : forall n e, In n (nodes s) -> In e (n_cache n) ->
                 erased s1 (fun x => T x && locked_at s x) (g n) = false ->
                 forall y, In y (nodes s) -> T (n_path y) = true -> is_prefix (n_path n) (n_path y) = false).
  { intros n e Hn0 He Er y Hy Ty. destruct (is_prefix (n_path n) (n_path y)) eqn:P; [|reflexivity]. exfalso.
    assert (Ln : flag_locked n = true).
    { destruct (flag_locked n) eqn:L; [reflexivity|]. rewrite (g_ue U s G n Hn0 L) in He. contradiction. }
    assert (Ly : flag_locked y = true) by (eapply (g_lc U s G n y); eauto).
    unfold erased in Er. apply orb_false_iff in Er. destruct Er as [E1 E2]. destruct (Hk n) as [Gp _]. rewrite Gp in *.
    destruct (prefix_split _ _ P) as [P'|P'].
    - rewrite P', Ty, (locked_at_in U s y G Hy), Ly in E1. discriminate.
    - assert (R : In (n_path n) (n_parents y)) by (eapply (g_pc U s G n y); eauto).
      assert (X : existsb (fun y0 => (T (n_path y0) && locked_at s (n_path y0)) && path_mem (n_path n) (n_parents y0)) (nodes s1) = true).
      { apply existsb_exists. exists (g y). split; [rewrite Hn; now apply in_map|].
        destruct (Hk y) as [Yp [_ [_ [_ [Ypa _]]]]]. rewrite Yp, Ypa, Ty, (locked_at_in U s y G Hy), Ly. cbn. now apply path_mem_in. }
      congruence. }
  rewrite erase_touched_eq.
  set (Tl := fun x => T x && locked_at s x).
  set (f := fun n => if erased s1 Tl (g n) then with_cache (g n) [] else g n).
  assert (E : nodes (upd_nodes s1 (fun x => if erased s1 Tl x then with_cache x [] else x)) = map f (nodes s)).
  { unfold upd_nodes. cbn [nodes]. rewrite Hn, map_map. reflexivity. }
  assert (In' : forall n', In n' (nodes (upd_nodes s1 (fun x => if erased s1 Tl x then with_cache x [] else x))) -> exists n, In n (nodes s) /\ n' = f n).
  { intros n' H. rewrite E in H. apply in_map_iff in H. destruct H as [n [<- H]]. now exists n. }
  assert (K : forall n, n_path (f n) = n_path n /\ flag_locked (f n) = flag_locked n /\ n_parents (f n) = n_parents n
                        /\ n_flag (f n) = n_flag n /\ n_kind (f n) = n_kind n /\ info (f n) = info (g n)).
  { intros n. destruct (Hk n) as [G1 [G2 [G3 [G4 [G5 G6]]]]]. unfold f, flag_locked.
    destruct (erased s1 Tl (g n)); cbn; rewrite ?G1, ?G3, ?G4, ?G5; repeat split; reflexivity. }
  constructor.
  - rewrite E, map_map. erewrite map_ext; [apply (g_nodup U s G)|]. intros n. apply (K n).
  - intros n' H. destruct (In' n' H) as [n [Hn0 ->]]. destruct (K n) as [_ [_ [_ [Kf [Kk _]]]]]. rewrite Kf, Kk. now apply (g_td U s G).
  - intros n' x' H H' L P. destruct (In' n' H) as [n [Hn0 ->]], (In' x' H') as [x [Hx0 ->]].
    destruct (K n) as [Kp [Kl _]], (K x) as [Kp' [Kl' _]]. rewrite Kl in L. rewrite Kl'. rewrite Kp, Kp' in P. eapply (g_lc U s G n x); eauto.
  - intros n' x' H H' L P. destruct (In' n' H) as [n [Hn0 ->]], (In' x' H') as [x [Hx0 ->]].
    destruct (K n) as [Kp [Kl _]], (K x) as [Kp' [_ [Kpa _]]]. rewrite Kl in L. rewrite Kp, Kp' in P. rewrite Kp, Kpa. eapply (g_pc U s G n x); eauto.
  - intros n' H L. destruct (In' n' H) as [n [Hn0 ->]]. destruct (K n) as [_ [Kl _]]. rewrite Kl in L.
    unfold f. destruct (erased s1 Tl (g n)); [reflexivity|].
    destruct (Hk n) as [_ [_ [_ [_ [_ Gc]]]]]. rewrite Gc. now apply (g_ue U s G).
  - intros n' e H He. destruct (In' n' H) as [n [Hn0 ->]]. destruct (Hk n) as [Gp [_ [_ [_ [_ Gc]]]]].
    unfold f in He |- *. destruct (erased s1 Tl (g n)) eqn:Er; [contradiction|]. rewrite Gc in He.
    assert (C := Main n e Hn0 He Er).
    eapply entry_ok_view; [exact Gp| |apply (g_inv U s G n e Hn0 He)].
    unfold view_of.
    assert (N : nodes_under (upd_nodes s1 (fun x => if erased s1 Tl x then with_cache x [] else x)) (n_path n) = nodes_under s (n_path n)).
    { unfold nodes_under. rewrite E. rewrite flat_map_map.
      apply (nodes_under_rewrite (nodes s) f g (n_path n) T); auto.
      intros y Hy. destruct (K y) as [Kp [_ [_ [_ [_ Ki]]]]]. now split. }
    assert (Lv : leaves_under (upd_nodes s1 (fun x => if erased s1 Tl x then with_cache x [] else x)) (n_path n) = leaves_under s (n_path n)).
    { change (leaves_under s1 (n_path n) = leaves_under s (n_path n)). now apply Hlv. }
    rewrite N, Lv. now rewrite (has_lazy_td s (n_path n) (good_all_td U s G)).
Qed.

(* metadata only: the entries are where they were *)
Lemma meta_good : forall U s s1 g T,
  Good U s ->
  nodes s1 = map g (nodes s) -> leaves s1 = leaves s ->
  (forall n, keeps g n) -> (forall n, T (n_path n) = false -> g n = n) ->
  Good U (erase_touched s1 (fun x => T x && locked_at s x)).
Proof.
  intros U s s1 g T G Hn Hlv Hk Hout. apply (rewrite_good U s s1 g T); auto.
  intros n _ _. unfold leaves_under. now rewrite Hlv.
Qed.

(* ---------------------------------------------------------------- memmap_() of a subtree (D7 repaired) *)
(* the entries that memmap_ rebinds lie at or below p: a node that has no node of p's subtree at or below it does not see them *)
Lemma leaves_under_rebind_below : forall (L : list (path * leaf)) (c : path * leaf -> bool) (h : path * leaf -> leaf) p x,
  (forall ql, c ql = true -> is_prefix p (fst ql) = true) ->
  is_prefix x p = false -> is_prefix p x = false ->
  flat_map (fun ql => match strip x (fst ql) with Some r => [(r, snd ql)] | None => [] end)
           (map (fun ql => if c ql then (fst ql, h ql) else ql) L)
  = flat_map (fun ql => match strip x (fst ql) with Some r => [(r, snd ql)] | None => [] end) L.
Proof.
  intros L c h p x Hc H1 H2. induction L as [|ql L IH]; [reflexivity|]. cbn [map flat_map]. rewrite IH. f_equal.
  destruct (c ql) eqn:C; [|reflexivity]. cbn [fst snd].
  now rewrite (strip_none_incomparable x p (fst ql) H1 H2 (Hc ql C)).
Qed.

Definition mm_lock_f (p : path) (n : node) : node :=
  if is_prefix p (n_path n) then with_lock n (n_flag n) (n_parents n) true (n_cache n) else n.
Definition mm_meta_f (p : path) (n : node) : node :=
  if is_prefix p (n_path n) then with_meta n {| m_bs := m_bs (n_meta n); m_names := m_names (n_meta n); m_dev := 1 |} else n.

Lemma mm_f_keeps : forall p n, keeps (fun x => mm_meta_f p (mm_lock_f p x)) n.
Proof.
  intros p n. unfold keeps, mm_meta_f, mm_lock_f. destruct (is_prefix p (n_path n)) eqn:P; cbn; rewrite ?P; repeat split; reflexivity.
Qed.

(* Any Good state, any node p (locked or not, with locked or unlocked nodes below): the nodes of the subtree that were locked
   erase upwards (D61) — which reaches every locked node above them, all registered — the others had no locked node above
   them; then the lock graph is built from p as lock_() builds it (D7). *)
Lemma memmap_good : forall U hk s p base, Good U s -> Good U (fst (step repo hk s (OMemmap p base))).
Proof.
  intros U hk s p base G. cbn [step]. destruct (find_node s p) as [n0|] eqn:F; [|exact G].
  cbn [fix_memmap fix_lockgraph repo fst]. apply lock_structure.
  destruct (find_node_in s p n0 F) as [Hn0 Pn0].
  apply (rewrite_good U s _ (fun x => mm_meta_f p (mm_lock_f p x)) (fun x => is_prefix p x)); auto.
  - cbn [nodes upd_nodes]. rewrite map_map. reflexivity.
  - intros n Hn C. unfold leaves_under. cbn [leaves upd_nodes].
    assert (H1 : is_prefix (n_path n) p = false) by (rewrite <- Pn0; apply (C n0 Hn0); rewrite Pn0; apply is_prefix_refl).
    assert (H2 : is_prefix p (n_path n) = false).
    { destruct (is_prefix p (n_path n)) eqn:P; [|reflexivity]. exfalso. assert (X := C n Hn P). rewrite is_prefix_refl in X. discriminate. }
    apply (leaves_under_rebind_below (leaves s) _ _ p (n_path n)); auto.
    intros ql Hc. apply andb_prop in Hc. destruct Hc as [Hc _]. apply andb_prop in Hc. now destruct Hc.
  - intros n. apply mm_f_keeps.
  - intros n P. unfold mm_meta_f, mm_lock_f. rewrite P. cbn. now rewrite P.
Qed.

(* in a state that satisfies the invariant, unlock_() of a node that lies strictly below a locked node is refused: the locked
   node is among its registered parents *)
Lemma unlock_below_locked_refused : forall fx U s q nq np,
  Good U s -> In nq (nodes s) -> n_path nq = q -> In np (nodes s) -> flag_locked np = true -> proper_prefix (n_path np) q = true ->
  snd (unlock_ fx s q) = RaisedLock.
Proof.
  intros fx U s q nq np G Hq Pq Hp Lp PP. unfold unlock_.
  assert (Fq : find_node s q = Some nq) by (rewrite <- Pq; apply find_node_of_in; [apply (g_nodup U s G)|assumption]).
  rewrite Fq.
  assert (Reg : In (n_path np) (n_parents nq)) by (eapply (g_pc U s G np nq); eauto; now rewrite Pq).
  assert (NP : is_prefix q (n_path np) = false).
  { destruct (is_prefix q (n_path np)) eqn:E; [|reflexivity]. exfalso.
    apply is_prefix_iff in E. destruct E as [t E]. apply proper_prefix_iff in PP. destruct PP as [a [r PP]].
    rewrite PP in E. rewrite <- app_assoc in E. rewrite <- (app_nil_r (n_path np)) in E at 1. apply app_inv_head in E. discriminate. }
  assert (B : unlock_blocked (propagate_unlock s q) q = true).
  { unfold unlock_blocked. apply existsb_exists. exists (punlock_f q nq). split.
    - unfold propagate_unlock, upd_nodes. cbn. apply in_map_iff. exists nq. split; [reflexivity|assumption].
    - destruct (punlock_f_keeps q nq) as [A _]. rewrite A, Pq, is_prefix_refl. cbn.
      apply existsb_exists. exists (n_path np). split.
      + unfold punlock_f. rewrite Pq, is_prefix_refl. exact Reg.
      + assert (FN : find_node (upd_nodes s (punlock_f q)) (n_path np) = Some (punlock_f q np)).
        { rewrite find_node_upd; [|intros; apply punlock_f_keeps]. rewrite (find_node_of_in s np (g_nodup U s G) Hp). reflexivity. }
        change (match find_node (upd_nodes s (punlock_f q)) (n_path np) with Some a => flag_locked a | None => false end = true).
        rewrite FN. unfold punlock_f. rewrite NP. exact Lp. }
  rewrite B. reflexivity.
Qed.

Lemma memmap_nodes : forall hk s p base n0, find_node s p = Some n0 ->
  exists F, nodes (fst (step repo hk s (OMemmap p base))) = map F (nodes s)
            /\ (forall n, n_path (F n) = n_path n)
            /\ (forall n, is_prefix p (n_path n) = true -> flag_locked (F n) = true).
Proof.
  intros hk s p base n0 F0. cbn [step]. rewrite F0. cbn [fix_memmap fix_lockgraph repo fst].
  rewrite propagate_lock_eq, erase_touched_eq. cbn [nodes upd_nodes]. rewrite !map_map.
  eexists. split; [reflexivity|]. cbn beta.
  assert (K : forall n (b : bool),
            n_path (if b then with_cache (mm_meta_f p (mm_lock_f p n)) [] else mm_meta_f p (mm_lock_f p n)) = n_path n).
  { intros n b. unfold mm_meta_f, mm_lock_f. destruct b, (is_prefix p (n_path n)) eqn:P; cbn; rewrite ?P; reflexivity. }
  split.
  - intros n. rewrite (proj1 (plock_f_keeps _ _ _)). apply (K n).
  - intros n P. rewrite plock_f_flag. rewrite (K n). now rewrite P.
Qed.

(* D62 repaired, in general: after memmap_() of node p — in any state that satisfies the invariant, whatever was locked
   before — unlock_() of any node strictly below p is refused *)
Theorem memmap_nested_unlock_refused : forall U hk s p base q,
  Good U s -> is_node_path s p = true -> is_node_path s q = true -> proper_prefix p q = true ->
  snd (step repo hk (fst (step repo hk s (OMemmap p base))) (OUnlock q)) = RaisedLock.
Proof.
  intros U hk s p base q G Hp Hq PP.
  assert (G' := memmap_good U hk s p base G).
  unfold is_node_path in Hp, Hq. destruct (find_node s p) as [n0|] eqn:F0; [|discriminate]. destruct (find_node s q) as [m0|] eqn:Fq; [|discriminate].
  destruct (memmap_nodes hk s p base n0 F0) as [F [En [Kp Kl]]].
  destruct (find_node_in s p n0 F0) as [Hn0 Pn0], (find_node_in s q m0 Fq) as [Hm0 Pm0].
  cbn [step]. change (snd (unlock_ repo (fst (step repo hk s (OMemmap p base))) q) = RaisedLock).
  apply (unlock_below_locked_refused repo U _ q (F m0) (F n0) G').
  - rewrite En. now apply in_map.
  - now rewrite Kp.
  - rewrite En. now apply in_map.
  - apply Kl. rewrite Pn0. apply is_prefix_refl.
  - now rewrite Kp, Pn0.
Qed.

(* ---------------------------------------------------------------- make_memmap* with a nested key (D69 repaired) *)
(* a new node, without cache, at a path where (and below which) there is nothing; every locked node above it is registered in
   it and holds no entry (it has just erased): the invariant goes on *)
Lemma append_node_good : forall U s0 nn b,
  Good U s0 -> n_kind nn = NTD -> n_flag nn = Some b -> n_cache nn = [] ->
  (forall n, In n (nodes s0) -> is_prefix (n_path nn) (n_path n) = false) ->
  (forall a, In a (nodes s0) -> flag_locked a = true -> proper_prefix (n_path a) (n_path nn) = true ->
             b = true /\ In (n_path a) (n_parents nn) /\ n_cache a = []) ->
  Good U {| nodes := nodes s0 ++ [nn]; leaves := leaves s0; store := store s0 |}.
Proof.
  intros U s0 nn b G K Fl C Below Above.
  assert (Lnn : flag_locked nn = b) by (unfold flag_locked; now rewrite Fl).
  assert (Inn : forall n, In n (nodes s0 ++ [nn]) -> In n (nodes s0) \/ n = nn).
  { intros n H. apply in_app_or in H. destruct H as [H|[H|[]]]; auto. }
  assert (Proper : forall n, In n (nodes s0) -> is_prefix (n_path n) (n_path nn) = true -> proper_prefix (n_path n) (n_path nn) = true).
  { intros n Hn P. destruct (prefix_split _ _ P) as [E|E]; [|exact E]. exfalso.
    assert (X := Below n Hn). rewrite E, is_prefix_refl in X. discriminate. }
  constructor; cbn [nodes].
  - rewrite map_app. cbn. apply NoDup_app_one; [apply (g_nodup U s0 G)|].
    intros Hin. apply in_map_iff in Hin. destruct Hin as [y [E Hy]]. assert (X := Below y Hy). rewrite E, is_prefix_refl in X. discriminate.
  - intros n H. destruct (Inn n H) as [H0| ->]; [now apply (g_td U s0 G)|]. split; [exact K|rewrite Fl; discriminate].
  - intros n x Hn Hx L P. destruct (Inn n Hn) as [Hn0| ->], (Inn x Hx) as [Hx0| ->].
    + eapply (g_lc U s0 G n x); eauto.
    + rewrite Lnn. destruct (Above n Hn0 L (Proper n Hn0 P)) as [B _]. exact B.
    + exfalso. rewrite (Below x Hx0) in P. discriminate.
    + exact L.
  - intros n x Hn Hx L P. destruct (Inn n Hn) as [Hn0| ->], (Inn x Hx) as [Hx0| ->].
    + eapply (g_pc U s0 G n x); eauto.
    + now destruct (Above n Hn0 L P) as [_ [R _]].
    + exfalso. apply proper_is_prefix in P. rewrite (Below x Hx0) in P. discriminate.
    + rewrite proper_prefix_irrefl in P. discriminate.
  - intros n H L. destruct (Inn n H) as [H0| ->]; [now apply (g_ue U s0 G)|exact C].
  - intros n e H He. destruct (Inn n H) as [Hn0| ->]; [|rewrite C in He; contradiction].
    assert (Ln : flag_locked n = true).
    { destruct (flag_locked n) eqn:Ln; [reflexivity|]. rewrite (g_ue U s0 G n Hn0 Ln) in He. contradiction. }
    destruct (is_prefix (n_path n) (n_path nn)) eqn:P.
    + exfalso. destruct (Above n Hn0 Ln (Proper n Hn0 P)) as [_ [_ Ce]]. rewrite Ce in He. contradiction.
    + eapply entry_ok_view; [reflexivity| |apply (g_inv U s0 G n e Hn0 He)].
      apply (view_irrelevant s0 _ (n_path n) (n_path nn) P (Below n Hn0)).
      * unfold skel. cbn [nodes]. rewrite map_app, filter_app. cbn. rewrite is_prefix_refl. cbn. now rewrite app_nil_r.
      * reflexivity.
      * eapply good_all_td; eauto.
      * intros y Hy. cbn [nodes] in Hy. destruct (Inn y Hy) as [Hy0| ->]; [now destruct (g_td U s0 G y Hy0)|exact K].
Qed.

Lemma erase_owner_shape : forall s (o : node), exists f,
  nodes (erase_touched s (fun x => path_eqb x (n_path o))) = map f (nodes s)
  /\ (forall n, n_path (f n) = n_path n /\ n_flag (f n) = n_flag n)
  /\ (forall n, erased s (fun x => path_eqb x (n_path o)) n = true -> n_cache (f n) = []).
Proof.
  intros s o. rewrite erase_touched_eq. eexists. split; [reflexivity|]. cbn beta. split.
  - intros n. destruct (erased s _ n); split; reflexivity.
  - intros n E. now rewrite E.
Qed.

Lemma attach_good : forall U s p uid o,
  Good U s -> find_node s (parent_of p) = Some o ->
  (forall n, In n (nodes s) -> is_prefix p (n_path n) = false) ->
  Good U (attach_node repo s p uid o).
Proof.
  intros U s p uid o G F Below. destruct (find_node_in s _ o F) as [Ho Po].
  unfold attach_node. cbn [fix_rebind fix_attach repo andb].
  destruct (flag_locked o) eqn:L.
  - (* the owner is locked: it has erased upwards; the new node is locked under the owner and the owner's lock parents *)
    assert (G0 : Good U (erase_touched s (fun x => path_eqb x (n_path o)))).
    { apply (erase_touched_good U s s (fun x => x) (fun x => path_eqb x (n_path o))); auto.
      - now rewrite map_id.
      - intros; apply id_keeps.
      - intros y Hy Ty. apply path_eqb_eq in Ty. assert (y = o) by (apply (nodup_path_inj (nodes s)); auto; apply (g_nodup U s G)). now subst. }
    destruct (erase_owner_shape s o) as [f [En [Kf Ef]]].
    assert (Kp : forall n, n_path (f n) = n_path n /\ flag_locked (f n) = flag_locked n).
    { intros n. unfold flag_locked. destruct (Kf n) as [A B]. rewrite A, B; split; reflexivity. }
    apply (append_node_good U _ _ true G0); try reflexivity.
    + intros x Hx. rewrite En in Hx. apply in_map_iff in Hx. destruct Hx as [n [<- Hn]]. rewrite (proj1 (Kp n)). now apply Below.
    + intros x Hx Lx Px. rewrite En in Hx. apply in_map_iff in Hx. destruct Hx as [n [<- Hn]].
      destruct (Kp n) as [Kpn Kln]. rewrite Kpn in *. rewrite Kln in Lx. cbn [n_path n_parents new_node] in *.
      assert (Pa : is_prefix (n_path n) (n_path o) = true) by (rewrite Po; now apply proper_prefix_parent).
      split; [reflexivity|]. destruct (prefix_split _ _ Pa) as [E|E].
      * assert (n = o) by (apply (nodup_path_inj (nodes s)); auto; apply (g_nodup U s G)). subst n. split.
        -- apply in_or_app. right. now left.
        -- apply Ef. unfold erased. now rewrite path_eqb_refl.
      * assert (R : In (n_path n) (n_parents o)) by (eapply (g_pc U s G n o); eauto). split.
        -- apply in_or_app. now left.
        -- apply Ef. unfold erased. apply orb_true_iff. right. apply existsb_exists. exists o. split; [assumption|].
           rewrite path_eqb_refl. cbn. now apply path_mem_in.
  - (* the owner is not locked: nothing above it is (lock closure) *)
    apply (append_node_good U s _ false G); try reflexivity.
    + exact Below.
    + intros a Ha La Pa. exfalso. cbn [n_path new_node] in Pa.
      assert (is_prefix (n_path a) (n_path o) = true) by (rewrite Po; now apply proper_prefix_parent).
      assert (flag_locked o = true) by (eapply (g_lc U s G a o); eauto). congruence.
Qed.

Lemma parent_of_app_one : forall (p : path) k, parent_of (p ++ [k]) = p.
Proof. intros. unfold parent_of. apply removelast_last. Qed.

Lemma make_memmap_nested_good : forall U hk s p uid k l,
  Good U s -> Good U (fst (step repo hk s (OMakeMemmapNested p uid k l))).
Proof.
  intros U hk s p uid k l G. cbn [step].
  destruct (find_node s (parent_of p)) as [o|] eqn:F; [|exact G]. destruct p as [|x0 p0]; [exact G|]. set (p := x0 :: p0) in *.
  destruct (negb (n_memmap o)); [exact G|]. destruct (has_leaf s p); [exact G|].
  destruct (negb (is_node_path s p) && _) eqn:Tree; [exact G|].
  set (s1 := if is_node_path s p then s else attach_node repo s p uid o).
  assert (G1 : Good U s1).
  { unfold s1. destruct (is_node_path s p) eqn:Ex; [exact G|]. apply attach_good; auto.
    intros n Hn. cbn [negb andb] in Tree. apply orb_false_iff in Tree. destruct Tree as [T _].
    destruct (is_prefix p (n_path n)) eqn:P; [|reflexivity]. exfalso.
    assert (X : existsb (fun x => is_prefix p (n_path x)) (nodes s) = true) by (apply existsb_exists; now exists n). congruence. }
  destruct (find_node s1 p) as [x|] eqn:Fx; [|exact G1].
  destruct (is_node_path s1 (p ++ [k]) || has_leaf s1 (p ++ [k])) eqn:Ex; [exact G1|].
  apply orb_false_iff in Ex. destruct Ex as [Ex _].
  rewrite parent_of_app_one. cbn [fix_rebind repo andb].
  assert (Fx' : find_node s1 (parent_of (p ++ [k])) = Some x) by now rewrite parent_of_app_one.
  assert (Ne : p ++ [k] <> []) by (intros E; apply app_eq_nil in E; destruct E; discriminate).
  destruct (flag_locked x) eqn:L; cbn [fst].
  - replace (fun y => path_eqb y p) with (fun y => path_eqb y (parent_of (p ++ [k]))) by (now rewrite parent_of_app_one).
    eapply rebind_good; eauto. eapply no_node_at; eauto.
  - eapply (unlocked_rebind_good U s1 (p ++ [k]) l x); eauto. eapply no_node_at; eauto.
Qed.

(* ---------------------------------------------------------------- every write permitted under lock *)
(* the ops of the full statement; memmap_() of any node is among them now that it locks through the lock graph (D7 repaired) *)
Definition permitted_op (U : list obj) (o : op) : Prop :=
  match o with
  | OPromote _ _ | OMakeMemmap _ _ | OMakeMemmapNested _ _ _ _ | OSetNames _ _ | OSetBatchSize _ _ | OMemmap _ _ => True
  | o => clean_op U o
  end.

Theorem step_good_repaired : forall U hk s o,
  objs_consistent U -> Good U s -> permitted_op U o -> Good U (fst (step repo hk s o)).
Proof.
  intros U hk s o HU G C.
  destruct o; cbn [permitted_op] in C; try (now apply step_good_any); try contradiction; cbn [step].
  - (* OPromote *)
    destruct (find_leaf s p) as [old|] eqn:FL; [|exact G]. destruct (find_node s (parent_of p)) as [n|] eqn:F; [|exact G].
    destruct (l_kind old); try exact G. destruct (n_memmap n); [exact G|].
    destruct (is_node_path s p) eqn:Ex; [exact G|]. cbn [fix_rebind repo andb].
    destruct (flag_locked n) eqn:L; cbn [fst].
    + destruct p as [|x p]; [unfold is_node_path in Ex; cbn in F; rewrite F in Ex; discriminate|].
      eapply rebind_good; eauto; [discriminate|]. eapply no_node_at; eauto.
    + eapply (unlocked_rebind_good U s p l n); eauto. eapply no_node_at; eauto.
  - (* OMakeMemmap *)
    destruct (find_node s (parent_of p)) as [n|] eqn:F; [|exact G]. destruct p as [|x p]; [exact G|].
    destruct (negb (n_memmap n)); [exact G|].
    destruct (is_node_path s (x :: p) || match find_leaf s (x :: p) with Some _ => true | None => false end) eqn:Ex; [exact G|].
    apply orb_false_iff in Ex. destruct Ex as [Ex _].
    cbn [fix_rebind repo andb]. destruct (flag_locked n) eqn:L; cbn [fst].
    + eapply rebind_good; eauto; [discriminate|]. eapply no_node_at; eauto.
    + eapply (unlocked_rebind_good U s (x :: p) l n); eauto. eapply no_node_at; eauto.
  - (* OMakeMemmapNested *)
    exact (make_memmap_nested_good U hk s p uid k l G).
  - (* OMemmap *)
    exact (memmap_good U hk s p base G).
  - (* OSetNames *)
    destruct (find_node s p) as [n|] eqn:F; [|exact G]. destruct (find_node_in s p n F) as [Hn _].
    destruct (g_td U s G n Hn) as [T _]. rewrite T. cbn [fix_meta repo fst].
    destruct (set_names_shape p names) as [g [Kg [Og Eg]]].
    apply (meta_good U s _ g (names_touched p names)); auto; apply Eg.
  - (* OSetBatchSize *)
    destruct (find_node s p) as [n|] eqn:F; [|exact G]. destruct (find_node_in s p n F) as [Hn _].
    destruct (g_td U s G n Hn) as [T _]. rewrite T. cbn [fix_meta repo fst].
    set (g1 := fun x => if path_eqb (n_path x) p then with_meta x {| m_bs := bs; m_names := None; m_dev := m_dev (n_meta x) |} else x).
    assert (K1 : forall x, keeps g1 x) by (intros x; unfold keeps, g1; destruct (path_eqb (n_path x) p); repeat split; reflexivity).
    destruct (m_names (n_meta n)) as [l|].
    + destruct (set_names_shape p (Some (firstn (List.length bs) l))) as [g2 [K2 [O2 E2]]].
      apply (meta_good U s _ (fun x => g2 (g1 x)) (fun x => path_eqb x p || names_touched p (Some (firstn (List.length bs) l)) x)); auto.
      * rewrite (proj1 (E2 _)). cbn [nodes upd_nodes]. now rewrite map_map.
      * intros x. apply keeps_comp; [apply K1|apply K2].
      * intros x H. apply orb_false_iff in H. destruct H as [H1 H2]. unfold g1. rewrite H1. apply O2.
        destruct (K1 x) as [Pp _]. exact H2.
    + apply (meta_good U s _ g1 (fun x => path_eqb x p || false)); auto.
      intros x H. rewrite orb_false_r in H. unfold g1. now rewrite H.
Qed.

Theorem run_good_repaired : forall U hk ops s,
  objs_consistent U -> Good U s -> Forall (permitted_op U) ops -> Good U (run repo hk s ops).
Proof.
  intros U hk ops. induction ops as [|o ops IH]; intros s HU G F; [exact G|].
  inversion F; subst. rewrite run_cons. apply IH; auto. now apply step_good_repaired.
Qed.

(* cache_sound: every read of every history of permitted operations returns what a fresh computation returns *)
Theorem cache_sound_repaired : forall U hk s ops,
  objs_consistent U -> Good U s -> Forall (permitted_op U) ops ->
  forall pre p m a k post, ops = pre ++ ORead p m a k :: post ->
  forall acc v b, snd (read hk (run repo hk s pre) p m a k) = Some (acc, v, b) ->
  exists n, find_node (run repo hk s pre) p = Some n /\ v = fresh (run repo hk s pre) n m a k.
Proof.
  intros U hk s ops HU G F pre p m a k post E acc v b R. subst ops.
  apply Forall_app in F. destruct F as [Fpre Fpost]. inversion Fpost as [|? ? C _]; subst.
  assert (G1 : Good U (run repo hk s pre)) by now apply run_good_repaired.
  cbn in C. destruct (read_spec U hk _ p m a k HU G1 C) as [_ [_ S]]. destruct (S acc v b R) as [n [Fn [Ev _]]]. now exists n.
Qed.
