(* C06 — with the proposed repairs switched on (erase the caches that can see a rebound entry / a changed metadatum: the node,
   its ancestors, its subtree) the rebinding and metadata writes keep the invariant too: the full statement holds for every
   history over trees of TensorDicts that does not call memmap_ on a locked tree (D7 / D61 belong to the lock graph). *)
From Coq Require Import ZArith List String Bool Arith Lia.
Import ListNotations.
From TD Require Import Model.C06_Cache Proofs.C06_PathP Proofs.C06_ViewP Proofs.C06_KeyP Proofs.C06_CacheP Proofs.C06_ReadP Proofs.C06_StepP.
Open Scope string_scope.
Open Scope list_scope.

Definition erase_f (p0 : path) (n : node) : node :=
  if is_prefix (n_path n) p0 || is_prefix p0 (n_path n) then with_cache n [] else n.

Lemma erase_around_eq : forall s p0, erase_around s p0 = upd_nodes s (erase_f p0).
Proof. reflexivity. Qed.

Lemma erase_f_keeps : forall p0 n, n_path (erase_f p0 n) = n_path n /\ info (erase_f p0 n) = info n.
Proof. intros. unfold erase_f. destruct (is_prefix (n_path n) p0 || is_prefix p0 (n_path n)); split; reflexivity. Qed.

Lemma erase_f_fields : forall p0 n, flag_locked (erase_f p0 n) = flag_locked n /\ n_parents (erase_f p0 n) = n_parents n
                                   /\ n_flag (erase_f p0 n) = n_flag n /\ n_kind (erase_f p0 n) = n_kind n.
Proof. intros. unfold erase_f. destruct (is_prefix (n_path n) p0 || is_prefix p0 (n_path n)); repeat split; reflexivity. Qed.

Lemma skel_filter_out : forall p (h : node -> node) (l : list node),
  (forall y, n_path (h y) = n_path y) -> (forall y, is_prefix p (n_path y) = false -> info (h y) = info y) ->
  filter (fun pi : path * ninfo => negb (is_prefix p (fst pi))) (map (fun n => (n_path (h n), info (h n))) l)
  = filter (fun pi : path * ninfo => negb (is_prefix p (fst pi))) (map (fun n => (n_path n, info n)) l).
Proof.
  intros p h l Hp Hi. induction l as [|y l IH]; [reflexivity|]. cbn [map filter fst]. rewrite Hp.
  destruct (is_prefix p (n_path y)) eqn:Py; cbn [negb]; [exact IH|]. rewrite IH, (Hi y Py). reflexivity.
Qed.

(* a state s1 that differs from a good state s only in node metadata / entries at or below p, followed by erasing around p0
   where everything comparable with p is comparable with p0 *)
Lemma erase_after_change_good : forall U s s1 p p0 (g : node -> node),
  Good U s ->
  nodes s1 = map g (nodes s) ->
  (forall n, n_path (g n) = n_path n /\ n_uid (g n) = n_uid n /\ n_kind (g n) = n_kind n /\ n_flag (g n) = n_flag n
             /\ n_parents (g n) = n_parents n /\ n_cache (g n) = n_cache n) ->
  (forall n, is_prefix p (n_path n) = false -> g n = n) ->
  filter (keep_l p) (leaves s1) = filter (keep_l p) (leaves s) ->
  (forall x, is_prefix x p0 = false -> is_prefix p0 x = false -> is_prefix x p = false /\ is_prefix p x = false) ->
  Good U (erase_around s1 p0).
Proof.
  intros U s s1 p p0 g G Hn Hg Hout Hl Hcmp. rewrite erase_around_eq.
  set (f := fun n => erase_f p0 (g n)).
  assert (E : nodes (upd_nodes s1 (erase_f p0)) = map f (nodes s)) by (unfold upd_nodes; cbn; rewrite Hn, map_map; reflexivity).
  assert (In' : forall n', In n' (nodes (upd_nodes s1 (erase_f p0))) -> exists n, In n (nodes s) /\ n' = f n).
  { intros n' H. rewrite E in H. apply in_map_iff in H. destruct H as [n [<- H]]. now exists n. }
  assert (K : forall n, n_path (f n) = n_path n /\ flag_locked (f n) = flag_locked n /\ n_parents (f n) = n_parents n
                        /\ n_flag (f n) = n_flag n /\ n_kind (f n) = n_kind n).
  { intros n. unfold f. destruct (erase_f_keeps p0 (g n)) as [A _], (erase_f_fields p0 (g n)) as [B [C [D D']]].
    destruct (Hg n) as [G1 [G2 [G3 [G4 [G5 G6]]]]]. unfold flag_locked in *.
    split; [congruence|]. split; [rewrite B, G4; reflexivity|]. split; [congruence|]. split; congruence. }
  assert (TD1 : all_td (upd_nodes s1 (erase_f p0))).
  { intros n' H. destruct (In' n' H) as [n [Hn0 ->]]. destruct (K n) as [_ [_ [_ [_ Kk]]]]. rewrite Kk. now destruct (g_td U s G n Hn0). }
  constructor.
  - unfold upd_nodes. cbn [nodes]. rewrite Hn, !map_map. erewrite map_ext; [apply (g_nodup U s G)|]. intros n. apply (K n).
  - intros n' H. destruct (In' n' H) as [n [Hn0 ->]]. destruct (K n) as [_ [_ [_ [Kf Kk]]]]. rewrite Kf, Kk. now apply (g_td U s G).
  - intros n' x' H H' L P. destruct (In' n' H) as [n [Hn0 ->]], (In' x' H') as [x [Hx0 ->]].
    destruct (K n) as [Kp [Kl _]], (K x) as [Kp' [Kl' _]]. rewrite Kl in L. rewrite Kl'. rewrite Kp, Kp' in P. eapply (g_lc U s G n x); eauto.
  - intros n' x' H H' L P. destruct (In' n' H) as [n [Hn0 ->]], (In' x' H') as [x [Hx0 ->]].
    destruct (K n) as [Kp [Kl _]], (K x) as [Kp' [_ [Kpa _]]]. rewrite Kl in L. rewrite Kp, Kp' in P. rewrite Kp, Kpa. eapply (g_pc U s G n x); eauto.
  - intros n' H L. destruct (In' n' H) as [n [Hn0 ->]]. destruct (K n) as [_ [Kl _]]. rewrite Kl in L.
    unfold f, erase_f. destruct (is_prefix (n_path (g n)) p0 || is_prefix p0 (n_path (g n))); [reflexivity|].
    destruct (Hg n) as [_ [_ [_ [_ [_ Gc]]]]]. rewrite Gc. now apply (g_ue U s G).
  - intros n' e H He. destruct (In' n' H) as [n [Hn0 ->]]. destruct (Hg n) as [Gp [_ [_ [_ [_ Gc]]]]].
    unfold f, erase_f in He |- *. rewrite Gp in *.
    destruct (is_prefix (n_path n) p0 || is_prefix p0 (n_path n)) eqn:Er; [contradiction|].
    apply orb_false_iff in Er. destruct Er as [E1 E2]. destruct (Hcmp (n_path n) E1 E2) as [C1 C2].
    rewrite Gc in He. eapply entry_ok_view; [exact Gp| |apply (g_inv U s G n e Hn0 He)].
    apply (view_irrelevant s _ (n_path n) p C1 C2); [| |eapply good_all_td; eauto|exact TD1].
    + unfold skel, upd_nodes. cbn [nodes]. rewrite Hn, !map_map.
      apply (skel_filter_out p (fun x => erase_f p0 (g x))).
      * intros y. apply (K y).
      * intros y Py. rewrite (Hout y Py). apply erase_f_keeps.
    + exact Hl.
Qed.

Lemma cmp_parent : forall p x, is_prefix x (parent_of p) = false -> is_prefix (parent_of p) x = false -> is_prefix x p = false /\ is_prefix p x = false.
Proof.
  intros p x H1 H2. split.
  - destruct (is_prefix x p) eqn:E; [|reflexivity]. destruct (prefix_split _ _ E) as [->|E'].
    + rewrite parent_prefix in H2. discriminate.
    + apply proper_prefix_parent in E'. congruence.
  - destruct (is_prefix p x) eqn:E; [|reflexivity].
    assert (is_prefix (parent_of p) x = true) by (eapply is_prefix_trans; [apply parent_prefix|exact E]). congruence.
Qed.

Lemma cmp_self : forall p x, is_prefix x p = false -> is_prefix p x = false -> is_prefix x p = false /\ is_prefix p x = false.
Proof. auto. Qed.

(* node rewrites that keep everything but the metadata, and only at or below p *)
Definition nice (p : path) (g : node -> node) : Prop :=
  (forall n, n_path (g n) = n_path n /\ n_uid (g n) = n_uid n /\ n_kind (g n) = n_kind n /\ n_flag (g n) = n_flag n
             /\ n_parents (g n) = n_parents n /\ n_cache (g n) = n_cache n)
  /\ (forall n, is_prefix p (n_path n) = false -> g n = n).

Lemma nice_comp : forall p g1 g2, nice p g1 -> nice p g2 -> nice p (fun x => g2 (g1 x)).
Proof.
  intros p g1 g2 [A1 B1] [A2 B2]. split.
  - intros n. destruct (A1 n) as [a1 [a2 [a3 [a4 [a5 a6]]]]], (A2 (g1 n)) as [b1 [b2 [b3 [b4 [b5 b6]]]]]. repeat split; congruence.
  - intros n P. rewrite (B1 n P). now apply B2.
Qed.

Lemma is_child_prefix : forall p q, is_child p q = true -> is_prefix p q = true.
Proof. intros p q H. unfold is_child in H. unfold is_prefix. destruct (strip p q); [reflexivity|discriminate]. Qed.

Lemma set_names_nice : forall p names, exists g, nice p g /\ forall s, nodes (set_names s p names) = map g (nodes s) /\ leaves (set_names s p names) = leaves s.
Proof.
  intros p names. unfold set_names.
  destruct (match names with Some l => norm_names l | None => None end) as [l|].
  - eexists. split; [|intros s; split; reflexivity]. split.
    + intros n. destruct (is_prefix p (n_path n)); repeat split; reflexivity.
    + intros n P. now rewrite P.
  - eexists. split; [|intros s; split; reflexivity]. split.
    + intros n. destruct (path_eqb (n_path n) p || is_child p (n_path n)); repeat split; reflexivity.
    + intros n P. destruct (path_eqb (n_path n) p || is_child p (n_path n)) eqn:E; [|reflexivity]. exfalso.
      apply orb_true_iff in E. destruct E as [E|E].
      * apply path_eqb_eq in E. rewrite E, is_prefix_refl in P. discriminate.
      * apply is_child_prefix in E. congruence.
Qed.

Definition fixed (fx : fixes) : Prop := fix_rebind fx = true /\ fix_meta fx = true.

(* the writes of the full statement, except memmap_ on a tree *)
Definition permitted_op (U : list obj) (o : op) : Prop :=
  match o with
  | OPromote _ _ | OMakeMemmap _ _ | OSetNames _ _ | OSetBatchSize _ _ => True
  | OMemmap _ _ => False
  | o => clean_op U o
  end.

Lemma set_leaf_nodes : forall s p l, nodes (set_leaf s p l) = nodes s.
Proof. reflexivity. Qed.

Theorem step_good_fixed : forall fx U hk s o,
  fixed fx -> objs_consistent U -> Good U s -> permitted_op U o -> Good U (fst (step fx hk s o)).
Proof.
  intros fx U hk s o [FR FM] HU G C.
  destruct o; cbn [permitted_op] in C; try (now apply step_good_any); try contradiction; cbn [step].
  - (* OPromote *)
    destruct (find_leaf s p) as [old|]; [|exact G]. destruct (find_node s (parent_of p)) as [n|]; [|exact G].
    destruct (l_kind old); try exact G. destruct (n_memmap n); [exact G|]. rewrite FR. cbn [fst].
    apply (erase_after_change_good U s (set_leaf s p l) p (parent_of p) (fun n => n)); auto.
    + cbn. now rewrite map_id.
    + intros. repeat split; reflexivity.
    + cbn. apply keep_l_set_leaf.
    + apply cmp_parent.
  - (* OMakeMemmap *)
    destruct (find_node s (parent_of p)) as [n|]; [|exact G]. destruct p as [|x p]; [exact G|].
    destruct (negb (n_memmap n)); [exact G|].
    destruct (is_node_path s (x :: p) || match find_leaf s (x :: p) with Some _ => true | None => false end); [exact G|].
    rewrite FR. cbn [fst].
    apply (erase_after_change_good U s (set_leaf s (x :: p) l) (x :: p) (parent_of (x :: p)) (fun n => n)); auto.
    + cbn. now rewrite map_id.
    + intros. repeat split; reflexivity.
    + cbn [leaves set_leaf]. apply keep_l_set_leaf.
    + apply cmp_parent.
  - (* OSetNames *)
    destruct (find_node s p) as [n|] eqn:F; [|exact G]. destruct (find_node_in s p n F) as [Hn _].
    destruct (g_td U s G n Hn) as [T _]. rewrite T, FM. cbn [fst].
    destruct (set_names_nice p names) as [g [Ng Eg]].
    apply (erase_after_change_good U s _ p p g); auto; try apply Ng; try apply Eg.
  - (* OSetBatchSize *)
    destruct (find_node s p) as [n|] eqn:F; [|exact G]. destruct (find_node_in s p n F) as [Hn _].
    destruct (g_td U s G n Hn) as [T _]. rewrite T, FM. cbn [fst].
    set (g1 := fun x => if path_eqb (n_path x) p then with_meta x {| m_bs := bs; m_names := None; m_dev := m_dev (n_meta x) |} else x).
    assert (N1 : nice p g1).
    { split.
      - intros x. unfold g1. destruct (path_eqb (n_path x) p); repeat split; reflexivity.
      - intros x Px. unfold g1. destruct (path_eqb (n_path x) p) eqn:E; [|reflexivity]. apply path_eqb_eq in E. rewrite E, is_prefix_refl in Px. discriminate. }
    destruct (m_names (n_meta n)) as [l|].
    + destruct (set_names_nice p (Some (firstn (List.length bs) l))) as [g2 [N2 E2]].
      apply (erase_after_change_good U s _ p p (fun x => g2 (g1 x))); auto; try apply (nice_comp p g1 g2 N1 N2);
        try (rewrite (proj1 (E2 _)); cbn [nodes upd_nodes]; now rewrite map_map); try (now rewrite (proj2 (E2 _))).
    + apply (erase_after_change_good U s _ p p g1); auto; apply N1.
Qed.

Theorem run_good_fixed : forall fx U hk ops s,
  fixed fx -> objs_consistent U -> Good U s -> Forall (permitted_op U) ops -> Good U (run fx hk s ops).
Proof.
  intros fx U hk ops. induction ops as [|o ops IH]; intros s FX HU G F; [exact G|].
  inversion F; subst. rewrite run_cons. apply IH; auto. now apply step_good_fixed.
Qed.

(* cache_sound with the repairs: every read of every such history returns what a fresh computation returns *)
Theorem cache_sound_fixed : forall fx U hk s ops,
  fixed fx -> objs_consistent U -> Good U s -> Forall (permitted_op U) ops ->
  forall pre p m a k post, ops = pre ++ ORead p m a k :: post ->
  forall acc v b, snd (read hk (run fx hk s pre) p m a k) = Some (acc, v, b) ->
  exists n, find_node (run fx hk s pre) p = Some n /\ v = fresh (run fx hk s pre) n m a k.
Proof.
  intros fx U hk s ops FX HU G F pre p m a k post E acc v b R. subst ops.
  apply Forall_app in F. destruct F as [Fpre Fpost]. inversion Fpost as [|? ? C _]; subst.
  assert (G1 : Good U (run fx hk s pre)) by now apply run_good_fixed.
  cbn in C. destruct (read_spec U hk _ p m a k HU G1 C) as [_ [_ S]]. destruct (S acc v b R) as [n [Fn [Ev _]]]. now exists n.
Qed.
