From Coq Require Import ZArith List String Bool Lia Permutation.
Import ListNotations.
From TD Require Import Model.C17_Inverse.
Open Scope string_scope.
Open Scope Z_scope.

(* ------------------------------------------------------------------ spellings denote the same inverse *)
Lemma transpose_spellings a b sh n :
  reverse "transpose" {| pos := [VInt a; VInt b]; kw := [] |} sh n = CTranspose a b
  /\ reverse "transpose" {| pos := []; kw := [("dim0", VInt a); ("dim1", VInt b)] |} sh n = CTranspose a b
  /\ reverse "transpose" {| pos := []; kw := [("dim1", VInt b); ("dim0", VInt a)] |} sh n = CTranspose a b
  /\ reverse "transpose" {| pos := [VInt a]; kw := [("dim1", VInt b)] |} sh n = CTranspose a b.
Proof. repeat split; reflexivity. Qed.

Lemma keys_spellings sep sh n :
  reverse "flatten_keys" {| pos := [VStr sep]; kw := [] |} sh n = CUnflattenKeys sep
  /\ reverse "flatten_keys" {| pos := []; kw := [("separator", VStr sep)] |} sh n = CUnflattenKeys sep
  /\ reverse "flatten_keys" {| pos := []; kw := [] |} sh n = CUnflattenKeys "."
  /\ reverse "unflatten_keys" {| pos := [VStr sep]; kw := [] |} sh n = CFlattenKeys sep
  /\ reverse "unflatten_keys" {| pos := []; kw := [("separator", VStr sep)] |} sh n = CFlattenKeys sep
  /\ reverse "unflatten_keys" {| pos := []; kw := [] |} sh n = CFlattenKeys ".".
Proof. repeat split; reflexivity. Qed.

Lemma flatten_spellings a b sh n :
  let r := reverse "flatten" {| pos := [VInt a; VInt b]; kw := [] |} sh n in
  reverse "flatten" {| pos := [VInt a]; kw := [("end_dim", VInt b)] |} sh n = r
  /\ reverse "flatten" {| pos := []; kw := [("start_dim", VInt a); ("end_dim", VInt b)] |} sh n = r
  /\ reverse "flatten" {| pos := []; kw := [("end_dim", VInt b); ("start_dim", VInt a)] |} sh n = r
  /\ reverse "flatten" {| pos := []; kw := [] |} sh n = reverse "flatten" {| pos := [VInt 0; VInt (-1)]; kw := [] |} sh n
  /\ reverse "flatten" {| pos := [VInt a]; kw := [] |} sh n = reverse "flatten" {| pos := [VInt a; VInt (-1)]; kw := [] |} sh n.
Proof. repeat split; reflexivity. Qed.

Lemma unflatten_spellings d sz sh n :
  let r := reverse "unflatten" {| pos := [VInt d; VInts sz]; kw := [] |} sh n in
  reverse "unflatten" {| pos := [VInt d]; kw := [("unflattened_size", VInts sz)] |} sh n = r
  /\ reverse "unflatten" {| pos := []; kw := [("dim", VInt d); ("unflattened_size", VInts sz)] |} sh n = r
  /\ r = (if zlen sz =? 1 then CIdentity else CFlatten (norm d (zlen sh)) (norm d (zlen sh) + zlen sz - 1)).
Proof. repeat split; reflexivity. Qed.

Lemma squeeze_spellings d sh n :
  reverse "unsqueeze" {| pos := [VInt d]; kw := [] |} sh n = CSqueeze d
  /\ reverse "unsqueeze" {| pos := []; kw := [("dim", VInt d)] |} sh n = CSqueeze d
  /\ reverse "squeeze" {| pos := []; kw := [("dim", VInt d)] |} sh n = reverse "squeeze" {| pos := [VInt d]; kw := [] |} sh n
  /\ reverse "squeeze" {| pos := [VInt d]; kw := [] |} sh n = (if n =? zlen sh then CIdentity else CUnsqueeze d).
Proof. repeat split; reflexivity. Qed.

Lemma permute_spellings dims sh n :
  reverse "permute" {| pos := [VInts dims]; kw := [] |} sh n
  = CPermute (inv_perm (map (fun d => if d >=? 0 then d else n + d) dims))
  /\ reverse "permute" {| pos := []; kw := [("dims", VInts dims)] |} sh n
  = CPermute (inv_perm (map (fun d => if d >=? 0 then d else n + d) dims)).
Proof. split; reflexivity. Qed.

(* ------------------------------------------------------------------ list surgery lemmas *)
Lemma set_nth_length {X} (l : list X) i x : List.length (set_nth l i x) = List.length l.
Proof. revert i; induction l as [|y r IH]; intros [|i]; cbn; auto. Qed.

Lemma nth_set_nth_same {X} (l : list X) i x d : (i < List.length l)%nat -> nth i (set_nth l i x) d = x.
Proof. revert i; induction l as [|y r IH]; intros [|i] H; cbn in *; try lia; auto. apply IH. lia. Qed.

Lemma nth_set_nth_other {X} (l : list X) i j x d : i <> j -> nth j (set_nth l i x) d = nth j l d.
Proof.
  revert i j; induction l as [|y r IH]; intros [|i] [|j] H; cbn; try reflexivity; try congruence.
  apply IH. congruence.
Qed.

Lemma set_nth_same_val {X} (l : list X) i d : set_nth l i (nth i l d) = l.
Proof. revert i; induction l as [|y r IH]; intros [|i]; cbn; try reflexivity. now rewrite IH. Qed.

Lemma list_ext_nth {X} (l1 l2 : list X) d :
  List.length l1 = List.length l2 -> (forall i, (i < List.length l1)%nat -> nth i l1 d = nth i l2 d) -> l1 = l2.
Proof.
  revert l2; induction l1 as [|x r IH]; intros [|y r2] Hl H; cbn in *; try discriminate; [reflexivity|].
  f_equal; [apply (H 0%nat); lia|]. apply IH; [lia|]. intros i Hi. apply (H (S i)). lia.
Qed.

Lemma nth_map_in {X Y} (f : X -> Y) (l : list X) i dx dy : (i < List.length l)%nat -> nth i (map f l) dy = f (nth i l dx).
Proof. revert i; induction l as [|x r IH]; intros [|i] H; cbn in *; try lia; auto. apply IH. lia. Qed.

(* transposing twice with the same (possibly negative) dims restores the shape — any list, any rank *)
Theorem transpose_involutive sh a b sh' :
  sh_transpose sh a b = Some sh' -> sh_transpose sh' a b = Some sh.
Proof.
  unfold sh_transpose. destruct (in_range a (zlen sh) && in_range b (zlen sh)) eqn:E; [|discriminate].
  intros H. injection H as <-.
  set (a' := Z.to_nat (norm a (zlen sh))). set (b' := Z.to_nat (norm b (zlen sh))).
  assert (Hl : zlen (set_nth (set_nth sh a' (nth b' sh 0)) b' (nth a' sh 0)) = zlen sh).
  { unfold zlen. now rewrite !set_nth_length. }
  rewrite Hl, E. fold a' b'. f_equal.
  apply andb_prop in E. destruct E as [Ea Eb]. unfold in_range, norm, zlen in *.
  assert (Ha : (a' < List.length sh)%nat) by (subst a'; unfold norm, zlen; destruct (a <? 0) eqn:?; lia).
  assert (Hb : (b' < List.length sh)%nat) by (subst b'; unfold norm, zlen; destruct (b <? 0) eqn:?; lia).
  apply (list_ext_nth _ _ 0); [now rewrite !set_nth_length|].
  intros i Hi. rewrite !set_nth_length in Hi.
  destruct (Nat.eq_dec a' b') as [Eab|Nab].
  - rewrite <- Eab in *.
    destruct (Nat.eq_dec i a') as [->|Ni].
    + rewrite !nth_set_nth_same by (rewrite ?set_nth_length; lia). reflexivity.
    + rewrite !nth_set_nth_other by congruence. reflexivity.
  - destruct (Nat.eq_dec i b') as [->|Nib].
    + rewrite nth_set_nth_same by (rewrite ?set_nth_length; lia).
      rewrite (nth_set_nth_other _ b' a') by congruence.
      rewrite nth_set_nth_same by lia. reflexivity.
    + rewrite (nth_set_nth_other _ b' i) by congruence.
      destruct (Nat.eq_dec i a') as [->|Nia].
      * rewrite nth_set_nth_same by (rewrite ?set_nth_length; lia).
        rewrite nth_set_nth_same by (rewrite ?set_nth_length; lia). reflexivity.
      * rewrite !nth_set_nth_other by congruence. reflexivity.
Qed.

(* ------------------------------------------------------------------ permute: argsort of a permutation inverts it *)
Lemma index_of_spec x l : forall i, In x l ->
  (i <= index_of x l i < i + zlen l) /\ nth (Z.to_nat (index_of x l i - i)) l (-1) = x.
Proof.
  induction l as [|y r IH]; intros i H; [destruct H|]. cbn [index_of]. unfold zlen in *. cbn [List.length].
  destruct (y =? x) eqn:E.
  - apply Z.eqb_eq in E. subst. rewrite Z.sub_diag. cbn. split; [lia|reflexivity].
  - destruct H as [->|H]; [rewrite Z.eqb_refl in E; discriminate|].
    destruct (IH (i + 1) H) as [Hr Hn]. split; [lia|].
    replace (Z.to_nat (index_of x r (i + 1) - i)) with (S (Z.to_nat (index_of x r (i + 1) - (i + 1)))) by lia.
    exact Hn.
Qed.

(* element-level statement: permuting any list by dims and then by argsort(dims) gives the list back *)
Theorem permute_inverse (sh dims : list Z) :
  Permutation dims (map Z.of_nat (seq 0 (List.length sh))) ->
  sh_permute (sh_permute sh dims) (inv_perm dims) = sh.
Proof.
  intros P.
  assert (Hlen : List.length dims = List.length sh).
  { apply Permutation_length in P. now rewrite map_length, seq_length in P. }
  unfold sh_permute, inv_perm. rewrite map_map.
  apply (list_ext_nth _ _ 0); [now rewrite map_length, seq_length|].
  intros i Hi. rewrite map_length, seq_length in Hi.
  rewrite (nth_map_in _ _ _ 0%nat) by (rewrite seq_length; lia).
  rewrite seq_nth by lia. cbn [plus].
  assert (Hin : In (Z.of_nat i) dims).
  { eapply Permutation_in; [apply Permutation_sym; exact P|]. apply in_map. apply in_seq. lia. }
  destruct (index_of_spec (Z.of_nat i) dims 0 Hin) as [Hr Hn]. rewrite Z.sub_0_r in Hn.
  unfold nthZ. unfold zlen in Hr.
  rewrite (nth_map_in _ _ _ (-1)) by lia.
  rewrite Hn. now rewrite Nat2Z.id.
Qed.

(* ------------------------------------------------------------------ flatten / unflatten *)
Lemma skipn_skipn' {X} (l : list X) a b : skipn a (skipn b l) = skipn (b + a) l.
Proof.
  revert l; induction b as [|b IH]; intros l; cbn [skipn plus]; [reflexivity|].
  destruct l as [|x r]; [now rewrite !skipn_nil|]. apply IH.
Qed.

Theorem flatten_unflatten sh a b :
  0 <= a <= b -> b < zlen sh ->
  sh_unflatten (sh_flatten sh a b) a (firstn (Z.to_nat (b + 1 - a)) (skipn (Z.to_nat a) sh)) = sh.
Proof.
  intros Hab Hb. unfold sh_unflatten, sh_flatten, zlen in *.
  set (na := Z.to_nat a). set (k := Z.to_nat (b + 1 - a)).
  assert (Hna : (na <= List.length sh)%nat) by lia.
  rewrite firstn_app, firstn_firstn, Nat.min_id, firstn_length, Nat.min_l by lia.
  rewrite Nat.sub_diag. cbn [firstn]. rewrite app_nil_r.
  replace (Z.to_nat (a + 1)) with (S na) by lia.
  rewrite skipn_app, firstn_length, Nat.min_l by lia.
  rewrite (skipn_all2 (firstn na sh)) by (rewrite firstn_length; lia).
  replace (S na - na)%nat with 1%nat by lia. cbn [skipn app].
  replace (Z.to_nat (b + 1)) with (na + k)%nat by lia.
  rewrite <- (firstn_skipn na sh) at 4. f_equal.
  rewrite <- (firstn_skipn k (skipn na sh)) at 2. f_equal.
  now rewrite skipn_skipn'.
Qed.

Theorem unflatten_flatten sh d sz :
  0 <= d < zlen sh -> sz <> [] ->
  sh_flatten (sh_unflatten sh d sz) d (d + zlen sz - 1)
  = (firstn (Z.to_nat d) sh ++ [prodZ sz] ++ skipn (Z.to_nat (d + 1)) sh)%list.
Proof.
  intros Hd Hsz. unfold sh_unflatten, sh_flatten, zlen in *.
  set (nd := Z.to_nat d).
  assert (Hnd : (nd < List.length sh)%nat) by lia.
  assert (Hls : (0 < List.length sz)%nat) by (destruct sz; [congruence|cbn; lia]).
  rewrite firstn_app, firstn_firstn, Nat.min_id, firstn_length, Nat.min_l by lia.
  rewrite Nat.sub_diag. cbn [firstn]. rewrite app_nil_r.
  replace (Z.to_nat (d + Z.of_nat (List.length sz) - 1 + 1 - d)) with (List.length sz) by lia.
  rewrite skipn_app, firstn_length, Nat.min_l by lia.
  rewrite (skipn_all2 (firstn nd sh)) by (rewrite firstn_length; lia).
  rewrite Nat.sub_diag. cbn [skipn app].
  rewrite firstn_app, firstn_all, Nat.sub_diag. cbn [firstn]. rewrite app_nil_r.
  f_equal. f_equal.
  replace (Z.to_nat (d + Z.of_nat (List.length sz) - 1 + 1)) with (nd + List.length sz)%nat by lia.
  rewrite skipn_app, firstn_length, Nat.min_l by lia.
  rewrite (skipn_all2 (firstn nd sh)) by (rewrite firstn_length; lia).
  replace (nd + List.length sz - nd)%nat with (List.length sz) by lia. cbn [app].
  rewrite skipn_app, skipn_all, Nat.sub_diag. reflexivity.
Qed.

(* ------------------------------------------------------------------ squeeze / unsqueeze *)
Theorem unsqueeze_squeeze sh d : 0 <= d <= zlen sh -> sh_squeeze (sh_unsqueeze sh d) d = sh.
Proof.
  intros Hd. unfold sh_squeeze, sh_unsqueeze, nthZ, zlen in *. set (nd := Z.to_nat d).
  assert (Hnd : (nd <= List.length sh)%nat) by lia.
  rewrite app_nth2 by (rewrite firstn_length; lia).
  rewrite firstn_length, Nat.min_l, Nat.sub_diag by lia. cbn [app nth]. cbn [Z.eqb Pos.eqb].
  rewrite firstn_app, firstn_firstn, Nat.min_id, firstn_length, Nat.min_l by lia.
  rewrite Nat.sub_diag. cbn [firstn]. rewrite app_nil_r.
  replace (Z.to_nat (d + 1)) with (S nd) by lia.
  rewrite skipn_app, firstn_length, Nat.min_l by lia.
  rewrite (skipn_all2 (firstn nd sh)) by (rewrite firstn_length; lia).
  replace (S nd - nd)%nat with 1%nat by lia. cbn [skipn app]. apply firstn_skipn.
Qed.

Theorem squeeze_unsqueeze sh d : 0 <= d < zlen sh ->
  (nthZ sh d 0 = 1 -> sh_unsqueeze (sh_squeeze sh d) d = sh) /\ (nthZ sh d 0 <> 1 -> sh_squeeze sh d = sh).
Proof.
  intros Hd. unfold sh_squeeze, sh_unsqueeze, zlen in *. split; intros H.
  - rewrite H. cbn [Z.eqb Pos.eqb]. set (nd := Z.to_nat d) in *.
    assert (Hnd : (nd < List.length sh)%nat) by lia.
    rewrite firstn_app, firstn_firstn, Nat.min_id, firstn_length, Nat.min_l by lia.
    rewrite Nat.sub_diag. cbn [firstn]. rewrite app_nil_r.
    rewrite skipn_app, firstn_length, Nat.min_l by lia.
    rewrite (skipn_all2 (firstn nd sh)) by (rewrite firstn_length; lia).
    rewrite Nat.sub_diag. cbn [skipn app].
    replace (Z.to_nat (d + 1)) with (S nd) by lia.
    rewrite <- (firstn_skipn nd sh) at 3. f_equal.
    unfold nthZ in H. fold nd in H.
    clear -H Hnd. revert sh H Hnd. induction nd as [|n IH]; intros [|x r] H Hl; cbn in *; try lia.
    + now subst.
    + apply IH; [exact H|lia].
  - destruct (nthZ sh d 0 =? 1) eqn:E; [apply Z.eqb_eq in E; congruence|reflexivity].
Qed.

(* ------------------------------------------------------------------ queue discipline *)
Section QueueP.
  Context {Op : Type}.
  Theorem exit_enter (o : @obj Op) : exit_ok (enter o) = Some (last_op o, o).
  Proof.
    unfold exit_ok, enter. cbn [queue last_op]. rewrite rev_app_distr. cbn [rev app].
    rewrite rev_involutive. destruct o; reflexivity.
  Qed.

  (* block inside block on the same object: inverses are popped in LIFO order and the queue is restored *)
  Theorem nested_blocks (o : @obj Op) :
    match exit_ok (enter (enter o)) with
    | Some (x1, o1) => x1 = last_op o /\ exit_ok o1 = Some (last_op o, o)
    | None => False
    end.
  Proof.
    rewrite exit_enter. split; [reflexivity|]. apply exit_enter.
  Qed.
End QueueP.

(* ------------------------------------------------------------------ write-back *)
(* locked original: same keys, same storages (in place); the content of every key of inv is inv's *)
Theorem writeback_locked out inv r :
  writeback true out inv = Some r ->
  map fst r = map fst out
  /\ map (fun kv => fst (snd kv)) r = map (fun kv => fst (snd kv)) out
  /\ (forall k s c, In (k, (s, c)) r ->
        match lookup inv k with Some (_, c') => c = c' | None => In (k, (s, c)) out end).
Proof.
  unfold writeback, update_inplace.
  destruct (existsb _ inv || _); [|discriminate]. intros H. injection H as <-.
  repeat split.
  - rewrite map_map. apply map_ext. intros [k [s c]]. cbn. destruct (lookup inv k) as [[s' c']|]; reflexivity.
  - rewrite map_map. apply map_ext. intros [k [s c]]. cbn. destruct (lookup inv k) as [[s' c']|]; reflexivity.
  - intros k s c Hin. apply in_map_iff in Hin. destruct Hin as [[k0 [s0 c0]] [E Hin]]. cbn in E.
    destruct (lookup inv k0) as [[s' c']|] eqn:El; injection E as <- <- <-; rewrite El; [reflexivity|exact Hin].
Qed.

(* a key of the modified object that the locked original does not have: never added; refused only when the two objects
   have no key in common *)
Theorem writeback_locked_new_key out inv k v r :
  In (k, v) inv -> lookup out k = None -> writeback true out inv = Some r -> lookup r k = None.
Proof.
  intros Hin Hl H. destruct (writeback_locked _ _ _ H) as [Hk _].
  assert (G : forall e, lookup e k = None <-> ~ In k (map fst e)).
  { induction e as [|[k' v'] e IH]; cbn; [tauto|]. destruct (String.eqb k' k) eqn:E.
    - apply String.eqb_eq in E. subst. split; [discriminate|intros X; exfalso; apply X; now left].
    - apply String.eqb_neq in E. rewrite IH. tauto. }
  apply G. rewrite Hk. now apply G.
Qed.

Theorem writeback_locked_disjoint out inv : inv <> [] ->
  (forall kv, In kv inv -> lookup out (fst kv) = None) -> writeback true out inv = None.
Proof.
  intros Hne H. unfold writeback, update_inplace.
  replace (existsb (fun kv => has_key out (fst kv)) inv) with false.
  - destruct inv; [congruence|reflexivity].
  - symmetry. apply not_true_iff_false. intros F. apply existsb_exists in F. destruct F as [kv [Hin F]].
    unfold has_key in F. now rewrite (H kv Hin) in F.
Qed.

(* unlocked original: keys of the original are kept in order, new keys of inv are admitted after them *)
Theorem writeback_unlocked out inv :
  exists r, writeback false out inv = Some r
  /\ map fst r = (map fst out ++ map fst (filter (fun kv => match lookup out (fst kv) with Some _ => false | None => true end) inv))%list
  /\ (forall k v, In (k, v) inv -> lookup out k = None -> In (k, v) r).
Proof.
  eexists. split; [reflexivity|]. unfold update_rebind. split.
  - rewrite map_app, map_map. f_equal. apply map_ext. intros [k v]. cbn. destruct (lookup inv k); reflexivity.
  - intros k v Hin Hl. apply in_or_app. right. apply filter_In. split; [exact Hin|]. cbn. now rewrite Hl.
Qed.
