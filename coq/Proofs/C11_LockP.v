(* C11 — "a locked node's descendants are locked" is an invariant of every history step (so the __getstate__ / __setstate__
   path, which re-locks top-down, gives back exactly the object) *)
From Coq Require Import ZArith List Bool Arith Lia String.
Import ListNotations.
From TD Require Import Model.C11_Layout Model.C11_Tree Proofs.C11_LayoutP Proofs.C11_TreeP Proofs.C11_AuxP Proofs.C11_PickleP Proofs.C11_HistP.
Open Scope nat_scope.

(* ------------------------------------------------------------------ forest operations *)
Lemma put_leaf_locks k l : forall f,
  (lock_closed_f f = true -> lock_closed_f (put_leaf f k l) = true) /\
  (all_locked_f f = true -> all_locked_f (put_leaf f k l) = true).
Proof.
  induction f as [|k' l' v r [IH1 IH2]|k' p bs r [IH1 IH2]|k' t r [IH1 IH2]]; cbn [put_leaf lock_closed_f all_locked_f];
    try (destruct (String.eqb k k'); cbn [lock_closed_f all_locked_f]; split; auto).
  - split; auto.
  - intros H. apply andb_true_iff in H as [_ H]. exact H.
  - intros H. apply andb_true_iff in H as [_ H]. exact H.
  - intros H. apply andb_true_iff in H as [H1 H]. rewrite H1. auto.
  - intros H. apply andb_true_iff in H as [H1 H]. rewrite H1. auto.
Qed.

Lemma put_leaf_v_locks k l v : forall f,
  (lock_closed_f f = true -> lock_closed_f (put_leaf_v f k l v) = true) /\
  (all_locked_f f = true -> all_locked_f (put_leaf_v f k l v) = true).
Proof.
  induction f as [|k' l' v' r [IH1 IH2]|k' p bs r [IH1 IH2]|k' t r [IH1 IH2]]; cbn [put_leaf_v lock_closed_f all_locked_f];
    try (destruct (String.eqb k k'); cbn [lock_closed_f all_locked_f]; split; auto).
  - split; auto.
  - intros H. apply andb_true_iff in H as [_ H]. exact H.
  - intros H. apply andb_true_iff in H as [_ H]. exact H.
  - intros H. apply andb_true_iff in H as [H1 H]. rewrite H1. auto.
  - intros H. apply andb_true_iff in H as [H1 H]. rewrite H1. auto.
Qed.

Lemma del_key_locks k : forall f,
  (lock_closed_f f = true -> lock_closed_f (del_key f k) = true) /\
  (all_locked_f f = true -> all_locked_f (del_key f k) = true).
Proof.
  induction f as [|k' l' v r [IH1 IH2]|k' p bs r [IH1 IH2]|k' t r [IH1 IH2]]; cbn [del_key lock_closed_f all_locked_f];
    try (destruct (String.eqb k k'); cbn [lock_closed_f all_locked_f]; split; auto).
  - split; auto.
  - intros H. apply andb_true_iff in H as [_ H]. exact H.
  - intros H. apply andb_true_iff in H as [_ H]. exact H.
  - intros H. apply andb_true_iff in H as [H1 H]. rewrite H1. auto.
  - intros H. apply andb_true_iff in H as [H1 H]. rewrite H1. auto.
Qed.

Lemma take_key_locks k k' : forall f e, take_key f k k' = Some e ->
  (lock_closed_f f = true -> lock_closed_f e = true) /\ (all_locked_f f = true -> all_locked_f e = true).
Proof.
  induction f as [|k0 l' v r IH|k0 p bs r IH|k0 t r IH]; intros e He; cbn [take_key lock_closed_f all_locked_f] in *; try discriminate.
  - destruct (String.eqb k k0); [injection He as <-; cbn; auto|auto].
  - destruct (String.eqb k k0); [injection He as <-; cbn; auto|auto].
  - destruct (String.eqb k k0).
    + injection He as <-. cbn [lock_closed_f all_locked_f]. split; intros H; apply andb_true_iff in H as [H1 _]; now rewrite H1.
    + destruct (IH e He) as [I1 I2]. split; intros H; apply andb_true_iff in H as [_ H]; auto.
Qed.

Lemma fapp_locks : forall a b,
  (lock_closed_f a = true -> lock_closed_f b = true -> lock_closed_f (fapp a b) = true) /\
  (all_locked_f a = true -> all_locked_f b = true -> all_locked_f (fapp a b) = true).
Proof.
  induction a as [|k' l' v r IH|k' p bs r IH|k' t r IH]; intros b; cbn [fapp lock_closed_f all_locked_f]; try (apply IH).
  - auto.
  - destruct (IH b) as [I1 I2]. split; intros H Hb; apply andb_true_iff in H as [H1 H]; rewrite H1; auto.
Qed.

Lemma put_sub_closed k s : forall f, lock_closed_t s = true -> lock_closed_f f = true -> lock_closed_f (put_sub f k s) = true.
Proof.
  intros f Hs. induction f as [|k' l' v r IH|k' p bs r IH|k' t r IH]; cbn [put_sub lock_closed_f]; intros H.
  - now rewrite Hs.
  - destruct (String.eqb k k'); cbn [lock_closed_f]; [now rewrite Hs|auto].
  - destruct (String.eqb k k'); cbn [lock_closed_f]; [now rewrite Hs|auto].
  - apply andb_true_iff in H as [H1 H]. destruct (String.eqb k k'); cbn [lock_closed_f]; [now rewrite Hs|rewrite H1; auto].
Qed.

Lemma write_leaf_locks k b : forall f f' w, write_leaf f k b = Some (f', w) ->
  (lock_closed_f f = true -> lock_closed_f f' = true) /\ (all_locked_f f = true -> all_locked_f f' = true).
Proof.
  induction f as [|k' l' v r IH|k' p bs r IH|k' t r IH]; intros f' w Hw; cbn [write_leaf] in Hw; try discriminate.
  - destruct (String.eqb k k').
    + destruct (_ =? _); [|discriminate]. injection Hw as <- <-. cbn. auto.
    + destruct (write_leaf r k b) as [[r' w']|]; [|discriminate]. injection Hw as <- <-. cbn. apply (IH r' w' eq_refl).
  - destruct (String.eqb k k'); [discriminate|].
    destruct (write_leaf r k b) as [[r' w']|]; [|discriminate]. injection Hw as <- <-. cbn. apply (IH r' w' eq_refl).
  - destruct (String.eqb k k'); [discriminate|].
    destruct (write_leaf r k b) as [[r' w']|]; [|discriminate]. injection Hw as <- <-. cbn [lock_closed_f all_locked_f].
    destruct (IH r' w' eq_refl) as [I1 I2].
    split; intros H; apply andb_true_iff in H as [H1 H]; rewrite H1; auto.
Qed.

Lemma setlock_true : (forall t, all_locked_t (setlock_t true t) = true) /\ (forall f, all_locked_f (setlock_f true f) = true).
Proof.
  apply tree_forest_ind; cbn [setlock_t setlock_f all_locked_t all_locked_f set_locked m_locked]; intros; auto.
  now rewrite H, H0.
Qed.

Lemma all_locked_closed : (forall t, all_locked_t t = true -> lock_closed_t t = true) /\ (forall f, all_locked_f f = true -> lock_closed_f f = true).
Proof.
  apply tree_forest_ind; cbn [all_locked_t all_locked_f lock_closed_t lock_closed_f]; intros; auto.
  - apply andb_true_iff in H0 as [H1 H2]. now rewrite H1, H2, (H H2).
  - apply andb_true_iff in H1 as [H1 H2]. now rewrite (H H1), (H0 H2).
Qed.

Lemma setlock_false : (forall t, lock_closed_t (setlock_t false t) = true) /\ (forall f, lock_closed_f (setlock_f false f) = true).
Proof.
  apply tree_forest_ind; cbn [setlock_t setlock_f lock_closed_t lock_closed_f set_locked m_locked]; intros; auto.
  now rewrite H, H0.
Qed.

(* names never touch the lock flags *)
Lemma erase_names_locks t : lock_closed_t (erase_names t) = lock_closed_t t /\ all_locked_t (erase_names t) = all_locked_t t.
Proof. destruct t. split; reflexivity. Qed.
Lemma erase_sub_names_locks : forall f,
  lock_closed_f (erase_sub_names f) = lock_closed_f f /\ all_locked_f (erase_sub_names f) = all_locked_f f.
Proof.
  induction f as [|k' l' v r [I1 I2]|k' p bs r [I1 I2]|k' t r [I1 I2]]; cbn [erase_sub_names lock_closed_f all_locked_f]; auto.
  destruct (erase_names_locks t) as [E1 E2]. now rewrite E1, E2, I1, I2.
Qed.
Lemma set_names_locks :
  (forall t n, lock_closed_t (set_names_t n t) = lock_closed_t t /\ all_locked_t (set_names_t n t) = all_locked_t t) /\
  (forall f n, lock_closed_f (set_names_f n f) = lock_closed_f f /\ all_locked_f (set_names_f n f) = all_locked_f f).
Proof.
  apply tree_forest_ind; cbn [set_names_t set_names_f lock_closed_t lock_closed_f all_locked_t all_locked_f].
  - intros m f IH n. destruct (all_none n); cbn [lock_closed_t all_locked_t with_names m_locked].
    + destruct (erase_sub_names_locks f) as [E1 E2]. now rewrite E1, E2.
    + destruct (IH n) as [E1 E2]. now rewrite E1, E2.
  - auto.
  - intros k l v r IH n. apply IH.
  - intros k p bs r IH n. apply IH.
  - intros k t IHt r IHr n. destruct (IHt (n ++ skipn (List.length n) (m_names (meta t)))%list) as [E1 E2].
    destruct (IHr n) as [E3 E4]. now rewrite E1, E2, E3, E4.
Qed.
Lemma adopt_names_closed m s : lock_closed_t (adopt_names m s) = lock_closed_t s.
Proof. unfold adopt_names. destruct (all_none (m_names m)); [reflexivity|apply (proj1 set_names_locks)]. Qed.

(* ------------------------------------------------------------------ at_path *)
Definition good_g {X} (g : bool -> tree -> option (tree * X)) : Prop :=
  forall a n n' x, lock_closed_t n = true -> (a = true -> all_locked_t n = true) -> g a n = Some (n', x) ->
    lock_closed_t n' = true /\ (a = true -> all_locked_t n' = true).

Lemma at_path_closed {X} (g : bool -> tree -> option (tree * X)) : good_g g -> forall path, good_g (at_path path g).
Proof.
  intros Hg. induction path as [|k p IH]; [exact Hg|].
  intros a [m f] n' x Hc Ha Hw. cbn [at_path] in Hw.
  destruct (at_path_f f k (at_path p g (a || m_locked m))) as [[f' x']|] eqn:Ef; [|discriminate]. injection Hw as <- <-.
  cbn [lock_closed_t all_locked_t] in *. apply andb_true_iff in Hc as [Hm Hf].
  assert (Hall : a || m_locked m = true -> all_locked_f f = true).
  { intros H. apply orb_true_iff in H as [H|H].
    - specialize (Ha H). now apply andb_true_iff in Ha as [_ Ha].
    - now rewrite H in Hm. }
  assert (Hres : lock_closed_f f' = true /\ (a || m_locked m = true -> all_locked_f f' = true)).
  { clear Hm Ha. revert f' Ef Hf Hall. generalize (a || m_locked m) as a'. intros a'.
    induction f as [|k' l' v r IHf|k' q bs r IHf|k' t r IHf]; intros f' Ef Hf Hall; cbn [at_path_f] in Ef; try discriminate.
    - destruct (String.eqb k k'); [discriminate|].
      destruct (at_path_f r k _) as [[r' y]|] eqn:Er; [|discriminate]. injection Ef as <- <-.
      cbn [lock_closed_f all_locked_f] in *. apply (IHf r' eq_refl Hf Hall).
    - destruct (String.eqb k k'); [discriminate|].
      destruct (at_path_f r k _) as [[r' y]|] eqn:Er; [|discriminate]. injection Ef as <- <-.
      cbn [lock_closed_f all_locked_f] in *. apply (IHf r' eq_refl Hf Hall).
    - cbn [lock_closed_f all_locked_f] in *. apply andb_true_iff in Hf as [Ht Hr].
      destruct (String.eqb k k').
      + destruct (at_path p g a' t) as [[t' y]|] eqn:Et; [|discriminate]. injection Ef as <- <-.
        assert (Hat : a' = true -> all_locked_t t = true).
        { intros H. specialize (Hall H). now apply andb_true_iff in Hall as [Hall _]. }
        destruct (IH a' t t' y Ht Hat Et) as [C1 C2].
        cbn [lock_closed_f all_locked_f]. rewrite C1, Hr. split; [reflexivity|].
        intros H. rewrite (C2 H). specialize (Hall H). now apply andb_true_iff in Hall as [_ Hall].
      + destruct (at_path_f r k _) as [[r' y]|] eqn:Er; [|discriminate]. injection Ef as <- <-.
        assert (Hall' : a' = true -> all_locked_f r = true).
        { intros H. specialize (Hall H). now apply andb_true_iff in Hall as [_ Hall]. }
        destruct (IHf r' eq_refl Hr Hall') as [C1 C2].
        cbn [lock_closed_f all_locked_f]. rewrite Ht, C1. split; [reflexivity|].
        intros H. rewrite (C2 H). specialize (Hall H). apply andb_true_iff in Hall as [Hall _]. now rewrite Hall. }
  destruct Hres as [R1 R2]. split.
  - rewrite R1, andb_true_r. destruct (m_locked m) eqn:El; [apply R2; apply orb_true_r|reflexivity].
  - intros H. specialize (Ha H). apply andb_true_iff in Ha as [Ha _]. rewrite Ha. cbn. apply R2. now rewrite H.
Qed.

(* ------------------------------------------------------------------ every step *)
Definition op_closed (o : op) : bool := match o with ONewSub _ _ s => lock_closed_t s | _ => true end.

Ltac structural m :=
  let El := fresh "El" in
  destruct (m_locked m) eqn:El; cbn [orb] in *; try discriminate.

Lemma step_tree_closed t o t' w : op_closed o = true -> lock_closed_t t = true ->
  step_tree t o = Some (t', w) -> lock_closed_t t' = true.
Proof.
  intros Ho Hc Hs.
  assert (Hroot : false = true -> all_locked_t t = true) by discriminate.
  destruct o as [path k l|path k b|path k|path k k'|path k s|path|path|names|path k1 k2|path k1 k2|tofile]; cbn [step_tree] in Hs.
  - refine (proj1 (at_path_closed _ _ path false t t' w Hc Hroot Hs)).
    intros a [m f] n' x Hn Ha Hg. unfold no_w in Hg. structural m. injection Hg as <- <-.
    cbn [lock_closed_t all_locked_t] in *. rewrite El in *. apply andb_true_iff in Hn as [_ Hn].
    rewrite (proj1 (put_leaf_locks k l f) Hn). split; [reflexivity|].
    intros Hx. specialize (Ha Hx). discriminate.
  - refine (proj1 (at_path_closed _ _ path false t t' w Hc Hroot Hs)).
    intros a [m f] n' x Hn Ha Hg. destruct (write_leaf f k b) as [[f' w']|] eqn:Ew; [|discriminate]. injection Hg as <- <-.
    destruct (write_leaf_locks k b f f' w' Ew) as [W1 W2].
    cbn [lock_closed_t all_locked_t] in *. apply andb_true_iff in Hn as [Hm Hn]. rewrite (W1 Hn), andb_true_r.
    split.
    + destruct (m_locked m); [apply W2; exact Hm|reflexivity].
    + intros Hx. specialize (Ha Hx). apply andb_true_iff in Ha as [A1 A2]. now rewrite A1, (W2 A2).
  - refine (proj1 (at_path_closed _ _ path false t t' w Hc Hroot Hs)).
    intros a [m f] n' x Hn Ha Hg. unfold no_w in Hg. structural m. destruct (negb (has_key f k)); [discriminate|]. injection Hg as <- <-.
    cbn [lock_closed_t all_locked_t] in *. rewrite El in *. apply andb_true_iff in Hn as [_ Hn].
    rewrite (proj1 (del_key_locks k f) Hn). split; [reflexivity|]. intros Hx. specialize (Ha Hx). discriminate.
  - refine (proj1 (at_path_closed _ _ path false t t' w Hc Hroot Hs)).
    intros a [m f] n' x Hn Ha Hg. unfold no_w in Hg. structural m.
    destruct (negb (has_key f k) || has_key f k'); [discriminate|].
    destruct (take_key f k k') as [e|] eqn:Et; [|discriminate]. injection Hg as <- <-.
    cbn [lock_closed_t all_locked_t] in *. rewrite El in *. apply andb_true_iff in Hn as [_ Hn].
    rewrite (proj1 (fapp_locks _ _) (proj1 (del_key_locks k f) Hn) (proj1 (take_key_locks k k' f e Et) Hn)).
    split; [reflexivity|]. intros Hx. specialize (Ha Hx). discriminate.
  - refine (proj1 (at_path_closed _ _ path false t t' w Hc Hroot Hs)).
    intros a [m f] n' x Hn Ha Hg. unfold no_w in Hg. structural m. injection Hg as <- <-.
    cbn [lock_closed_t all_locked_t op_closed] in *. rewrite El in *. apply andb_true_iff in Hn as [_ Hn].
    rewrite put_sub_closed; [|now rewrite adopt_names_closed|exact Hn].
    split; [reflexivity|]. intros Hx. specialize (Ha Hx). discriminate.
  - refine (proj1 (at_path_closed _ _ path false t t' w Hc Hroot Hs)).
    intros a n n' x Hn Ha Hg. unfold no_w in Hg. cbn in Hg. injection Hg as <- <-.
    split; [apply (proj1 all_locked_closed), (proj1 setlock_true)|intros _; apply (proj1 setlock_true)].
  - refine (proj1 (at_path_closed _ _ path false t t' w Hc Hroot Hs)).
    intros a n n' x Hn Ha Hg. unfold no_w in Hg. destruct a; [discriminate|]. cbn in Hg. injection Hg as <- <-.
    split; [apply (proj1 setlock_false)|discriminate].
  - destruct t as [m f]. unfold no_w in Hs. destruct (_ =? _); [|discriminate]. cbn [option_map] in Hs. injection Hs as E1 _. rewrite <- E1.
    transitivity (lock_closed_t (Node m f)); [apply (proj1 (proj1 set_names_locks (Node m f) names))|exact Hc].
  - refine (proj1 (at_path_closed _ _ path false t t' w Hc Hroot Hs)).
    intros a [m f] n' x Hn Ha Hg. unfold no_w in Hg. structural m.
    destruct (find_lv f k1) as [[l1 v1]|]; [|discriminate]. destruct (find_lv f k2) as [[l2 v2]|]; [|discriminate].
    injection Hg as <- <-.
    cbn [lock_closed_t all_locked_t] in *. rewrite El in *. apply andb_true_iff in Hn as [_ Hn].
    rewrite (proj1 (put_leaf_v_locks k2 l1 v1 _) (proj1 (put_leaf_v_locks k1 l2 v2 f) Hn)). split; [reflexivity|].
    intros Hx. specialize (Ha Hx). discriminate.
  - refine (proj1 (at_path_closed _ _ path false t t' w Hc Hroot Hs)).
    intros a [m f] n' x Hn Ha Hg. unfold no_w in Hg. structural m.
    destruct (find_lv f k2) as [[l2 v2]|]; [|discriminate]. injection Hg as <- <-.
    cbn [lock_closed_t all_locked_t] in *. rewrite El in *. apply andb_true_iff in Hn as [_ Hn].
    rewrite (proj1 (put_leaf_v_locks k1 l2 v2 f) Hn). split; [reflexivity|].
    intros Hx. specialize (Ha Hx). discriminate.
  - injection Hs as <- <-. exact Hc.
Qed.

(* consolidate() keeps every lock flag (fix: D110) *)
Lemma view_locks A np tofile storage :
  (forall t s t' e, view_t A np tofile storage t s = Ok (t', e) ->
     lock_closed_t t' = lock_closed_t t /\ all_locked_t t' = all_locked_t t) /\
  (forall f s f' e, view_f A np tofile storage f s = Ok (f', e) ->
     lock_closed_f f' = lock_closed_f f /\ all_locked_f f' = all_locked_f f).
Proof.
  apply tree_forest_ind; cbn [view_t view_f].
  - intros m f IH s t' e H. destruct (view_f A np tofile storage f s) as [[f' e']|] eqn:E; [|discriminate].
    injection H as <- <-. destruct (IH s f' e' E) as [I1 I2].
    cbn [lock_closed_t all_locked_t out_meta m_locked]. now rewrite I1, I2.
  - intros s f' e H. injection H as <- <-. auto.
  - intros k l v r IH s f' e H.
    destruct (decode_leaf _ _ _ _ _) as [l'| |]; try discriminate.
    destruct (view_f A np tofile storage r _) as [[r' e']|] eqn:E; [|discriminate]. injection H as <- <-.
    cbn [lock_closed_f all_locked_f]. apply (IH _ _ _ E).
  - intros k p bs r IH s f' e H.
    destruct (view_f A np tofile storage r s) as [[r' e']|] eqn:E; [|discriminate]. injection H as <- <-.
    cbn [lock_closed_f all_locked_f]. apply (IH _ _ _ E).
  - intros k t IHt r IHr s f' e H.
    destruct (view_t A np tofile storage t s) as [[t' mid]|] eqn:Et; [|discriminate].
    destruct (view_f A np tofile storage r mid) as [[r' e']|] eqn:Er; [|discriminate]. injection H as <- <-.
    destruct (IHt _ _ _ Et) as [I1 I2], (IHr _ _ _ Er) as [I3 I4].
    cbn [lock_closed_f all_locked_f]. now rewrite I1, I2, I3, I4.
Qed.

Lemma step_closed st o : op_closed o = true -> lock_closed_t (cur st) = true -> lock_closed_t (cur (fst (step st o))) = true.
Proof.
  intros Ho Hc. unfold step.
  destruct o; try (destruct (step_tree (cur st) _) as [[t' w]|] eqn:E;
                   [cbn [fst cur]; eapply step_tree_closed; [exact Ho|exact Hc|exact E]|exact Hc]).
  unfold consolidate. destruct (snap st); [exact Hc|].
  unfold consolidate_tree.
  destruct (view_t _ _ _ _ (cur st) 0) as [[t' e]|] eqn:E; cbn [fst cur]; [|exact Hc].
  now rewrite (proj1 (proj1 (view_locks _ _ _ _) _ _ _ _ E)).
Qed.

(* lock closure is an invariant of EVERY history (consolidate included) *)
Lemma run_closed : forall ops st, forallb op_closed ops = true ->
  lock_closed_t (cur st) = true -> lock_closed_t (cur (run st ops)) = true.
Proof.
  induction ops as [|o r IH]; intros st Ho Hc; cbn [run fold_left forallb] in *; [exact Hc|].
  apply andb_true_iff in Ho as [Ho Hr]. apply IH; [exact Hr|now apply step_closed].
Qed.

Lemma run_closed_noncons : forall ops st, forallb op_closed ops = true -> existsb is_cons ops = false ->
  lock_closed_t (cur st) = true -> lock_closed_t (cur (run st ops)) = true.
Proof. intros ops st Ho _ Hc. now apply run_closed. Qed.

(* EVERY history without consolidate(), from any lock-closed tensordict, inserting lock-closed nested tensordicts:
   pickle / deepcopy give back the object as it is at the moment of the call *)
Theorem pickle_unconsolidated_all t ops :
  lock_closed_t t = true -> forallb op_closed ops = true -> existsb is_cons ops = false ->
  let st := run {| cur := t; snap := None |} ops in pickle_roundtrip st = Ok st.
Proof.
  intros Hc Ho Hn st. apply pickle_unconsolidated; [exact Hn|].
  apply (run_closed_noncons ops {| cur := t; snap := None |} Ho Hn Hc).
Qed.

(* fix: D12 -- EVERY history (consolidations, in-place and structural mutations, locks, names in any order): whenever the
   snapshot is absent or no longer current at the moment of the call, the copy is the object itself (nothing shared with
   the old storage) *)
Theorem pickle_history_stale t ops :
  lock_closed_t t = true -> forallb op_closed ops = true ->
  let st := run {| cur := t; snap := None |} ops in
  (match snap st with None => True | Some sn => snapshot_current st sn = false end) ->
  pickle_roundtrip st = Ok {| cur := unview_t (cur st); snap := None |} \/
  (snap st = None /\ pickle_roundtrip st = Ok st).
Proof.
  intros Hc Ho st Hs.
  pose proof (run_closed ops {| cur := t; snap := None |} Ho Hc) as Hl. fold st in Hl.
  destruct (snap st) as [sn|] eqn:E.
  - left. rewrite (pickle_stale_snapshot st sn E Hs). now rewrite (proj1 relock_closed _ Hl).
  - right. split; [reflexivity|]. unfold pickle_roundtrip. rewrite E, (proj1 relock_closed _ Hl).
    destruct st as [c s]. cbn in *. now subst.
Qed.
