(* C02 proofs, part 2: the class K of calls (C02_FrameP.lifting) for the operations that go through
   _fast_apply(call_on_nested=True), and its three closure properties.  Two kinds of members:
   Kt_*  the call as the user makes it on the root: ANY arguments torch accepts for the batch shape (negative dims,
         every permutation, every legal target shape ...) inside tensordict's documented domain and outside the recorded
         defects (the hypotheses of each constructor say exactly which inputs are excluded);
   Kn_*  the normalised calls tensordict then makes on the entries (non-negative dims, arguments extended by the
         entry's own trailing dims). *)
From Coq Require Import ZArith List Bool Lia ZifyBool String.
Import ListNotations.
From TD Require Import Spec.PySlice Spec.C02_TorchShape Model.C02_ShapeOps Proofs.C02_FrameP Proofs.C02_InferP.
Open Scope Z_scope.
Ltac Zify.zify_post_hook ::= Z.to_euclidean_division_equations.

(* ------------------------------------------------------------------ more list facts *)
Lemma In_firstn {A} (l : list A) i x : In x (firstn i l) -> In x l.
Proof. revert i. induction l as [|y l IH]; intros [|i]; cbn; try tauto. intros [H|H]; [left; exact H|right; eapply IH; exact H]. Qed.
Lemma In_skipn {A} (l : list A) i x : In x (skipn i l) -> In x l.
Proof. revert i. induction l as [|y l IH]; intros [|i]; cbn; try tauto. intros H. right. eapply IH. exact H. Qed.
Lemma nth_firstn {A} (l : list A) i k d : (k < i)%nat -> nth k (firstn i l) d = nth k l d.
Proof. revert i k. induction l as [|y l IH]; intros [|i] [|k] H; cbn; try reflexivity; try lia. apply IH. lia. Qed.
Lemma nth_skipn {A} (l : list A) i k d : nth k (skipn i l) d = nth (i + k) l d.
Proof. revert i k. induction l as [|y l IH]; intros [|i] k; cbn; try reflexivity; [destruct k; reflexivity|]. apply IH. Qed.

Lemma nonneg_nth s i : nonneg s -> 0 <= nthZ s i.
Proof.
  intros H. unfold nthZ. destruct (Nat.lt_ge_cases i (List.length s)) as [Hi|Hi].
  - unfold nonneg in H. rewrite Forall_forall in H. apply H. apply nth_In. exact Hi.
  - rewrite nth_overflow by lia. lia.
Qed.

Lemma nonneg_firstn s i : nonneg s -> nonneg (firstn i s).
Proof. unfold nonneg. intros H. rewrite Forall_forall in *. intros x Hx. apply H. eapply In_firstn. exact Hx. Qed.
Lemma nonneg_skipn s i : nonneg s -> nonneg (skipn i s).
Proof. unfold nonneg. intros H. rewrite Forall_forall in *. intros x Hx. apply H. eapply In_skipn. exact Hx. Qed.

Lemma nonneg_cons x s : nonneg (x :: s) <-> 0 <= x /\ nonneg s.
Proof. unfold nonneg. split; intros H; [inversion H; subst; tauto|constructor; tauto]. Qed.

Lemma nonneg_remove s i : nonneg s -> nonneg (remove_nth i s).
Proof. intros H. unfold remove_nth. apply nonneg_app. split; [apply nonneg_firstn|apply nonneg_skipn]; exact H. Qed.
Lemma nonneg_insert s i x : 0 <= x -> nonneg s -> nonneg (insert_nth i x s).
Proof.
  intros Hx H. unfold insert_nth. apply nonneg_app. split; [apply nonneg_firstn; exact H|].
  apply nonneg_cons. split; [exact Hx|apply nonneg_skipn; exact H].
Qed.
Lemma nonneg_set s i x : 0 <= x -> nonneg s -> nonneg (set_nth i x s).
Proof.
  intros Hx H. unfold set_nth. apply nonneg_app. split; [apply nonneg_firstn; exact H|].
  apply nonneg_cons. split; [exact Hx|apply nonneg_skipn; exact H].
Qed.

Lemma prodZ_nonneg s : nonneg s -> 0 <= prodZ s.
Proof.
  unfold prodZ. induction s as [|x s IH]; cbn [fold_right]; intros H; [lia|].
  apply nonneg_cons in H. destruct H as [Hx Hs]. specialize (IH Hs). nia.
Qed.

Lemma correct_neg_dim_wrap d n i : wrap_dim d n = Ok i -> correct_neg_dim d n = Done i.
Proof.
  unfold wrap_dim, correct_neg_dim.
  destruct ((d <? - Z.of_nat n) || (Z.of_nat n <=? d)) eqn:E; [discriminate|]. intros H. injection H as <-.
  destruct (d <? 0) eqn:E2.
  - destruct ((Z.of_nat n + d <? 0) || (Z.of_nat n <=? Z.of_nat n + d)) eqn:E3; [lia|]. f_equal. f_equal. lia.
  - destruct ((d <? 0) || (Z.of_nat n <=? d)) eqn:E3; [lia|]. reflexivity.
Qed.

Lemma correct_neg_dim_nat i n : (i < n)%nat -> correct_neg_dim (Z.of_nat i) n = Done i.
Proof. intros H. apply correct_neg_dim_wrap. apply wrap_dim_nat. exact H. Qed.

Lemma names_list_length nm bs : names_wf nm bs -> List.length (names_list nm (List.length bs)) = List.length bs.
Proof. destruct nm as [l|]; cbn; intros H; [exact H|apply repeat_length]. Qed.

Lemma swap_nth_app_l bs tl i j : (i < List.length bs)%nat -> (j < List.length bs)%nat ->
  swap_nth (bs ++ tl) i j = swap_nth bs i j ++ tl.
Proof.
  intros Hi Hj. unfold swap_nth. rewrite !nthZ_app_l by lia.
  rewrite (set_nth_app_l bs tl i) by lia. rewrite set_nth_app_l; [reflexivity|]. rewrite set_nth_length; lia.
Qed.

Lemma set_nth_nth_default {A} (l : list A) i x d k :
  (i < List.length l)%nat -> nth k (set_nth i x l) d = if Nat.eqb k i then x else nth k l d.
Proof.
  intros Hi. unfold set_nth. destruct (Nat.eqb k i) eqn:E.
  - apply Nat.eqb_eq in E. subst. rewrite app_nth2; rewrite firstn_length; [|lia].
    replace (i - Nat.min i (List.length l))%nat with 0%nat by lia. reflexivity.
  - apply Nat.eqb_neq in E. destruct (Nat.lt_ge_cases k i) as [Hk|Hk].
    + rewrite app_nth1 by (rewrite firstn_length; lia). apply nth_firstn. exact Hk.
    + rewrite app_nth2 by (rewrite firstn_length; lia). rewrite firstn_length.
      replace (k - Nat.min i (List.length l))%nat with (S (k - S i)) by lia. cbn [nth].
      rewrite nth_skipn. f_equal. lia.
Qed.

Lemma list_ext_nth {A} (a b : list A) d :
  List.length a = List.length b -> (forall k, (k < List.length a)%nat -> nth k a d = nth k b d) -> a = b.
Proof.
  revert b. induction a as [|x a IH]; intros [|y b] Hl Hn; cbn in Hl; try discriminate; [reflexivity|].
  f_equal; [exact (Hn 0%nat ltac:(cbn; lia))|]. apply IH; [lia|]. intros k Hk. exact (Hn (S k) ltac:(cbn; lia)).
Qed.

Lemma swap_nth_sym s i j : (i < List.length s)%nat -> (j < List.length s)%nat -> swap_nth s i j = swap_nth s j i.
Proof.
  intros Hi Hj. unfold swap_nth. apply (list_ext_nth _ _ 0).
  - rewrite !set_nth_length; rewrite ?set_nth_length; lia.
  - intros k Hk. unfold nthZ.
    rewrite !set_nth_nth_default by (rewrite ?set_nth_length; lia).
    destruct (Nat.eqb k j) eqn:E1, (Nat.eqb k i) eqn:E2; try reflexivity.
    apply Nat.eqb_eq in E1, E2. subst. reflexivity.
Qed.

Lemma swap_nth_same s i : (i < List.length s)%nat -> swap_nth s i i = s.
Proof.
  intros Hi. unfold swap_nth. apply (list_ext_nth _ _ 0).
  - rewrite !set_nth_length; rewrite ?set_nth_length; lia.
  - intros k Hk. unfold nthZ. rewrite !set_nth_nth_default by (rewrite ?set_nth_length; lia).
    destruct (Nat.eqb k i) eqn:E; [apply Nat.eqb_eq in E; subst|]; reflexivity.
Qed.

Lemma nonneg_swap s i j : nonneg s -> nonneg (swap_nth s i j).
Proof. intros H. unfold swap_nth. apply nonneg_set; [apply nonneg_nth; exact H|]. apply nonneg_set; [apply nonneg_nth; exact H|exact H]. Qed.

(* ------------------------------------------------------------------ the class *)
Definition is_perm (p : list nat) : Prop := nodupb p = true /\ Forall (fun i => (i < List.length p)%nat) p.

Definition no1 (bs : list Z) : list Z := filter (fun x => negb (x =? 1)) bs.

Definition flat (bs : list Z) (i j : nat) : list Z :=
  firstn i bs ++ prodZ (firstn (S j - i) (skipn i bs)) :: skipn (S j) bs.

Definition expand_ok (bs bs' : list Z) : Prop := nonneg bs' /\ t_expand bs bs' = Ok bs'.

Inductive K : sop -> list Z -> list Z -> list Z -> Prop :=
| Kt_permute dims bs bs' : t_permute bs dims = Ok bs' -> K (OPermute dims) bs bs' []
| Kn_permute p bs tl : is_perm p -> (List.length p <= List.length bs)%nat ->
    K (OPermute (map Z.of_nat p ++ rangeZ (List.length p) (List.length bs + List.length tl)))
      bs (map (nthZ bs) p ++ skipn (List.length p) bs) tl
| Kt_transpose a b bs bs' : bs <> [] -> t_transpose bs a b = Ok bs' -> K (OTranspose a b) bs bs' []
| Kn_transpose i j bs tl : (i < j)%nat -> (j < List.length bs)%nat ->
    K (OTranspose (Z.of_nat i) (Z.of_nat j)) bs (swap_nth bs i j) tl
| Kt_squeeze d bs bs' : bs <> [] -> t_squeeze_dim bs d = Ok bs' -> K (OSqueeze (Some d)) bs bs' []
| Kn_squeeze i bs tl : (i < List.length bs)%nat -> nthZ bs i = 1 -> K (OSqueeze (Some (Z.of_nat i))) bs (remove_nth i bs) tl
| Kt_squeeze_all bs bs' : t_squeeze_all bs = Ok bs' -> K (OSqueeze None) bs bs' []
| Kn_sqchild bs tl :
    K (OSqueezeAllChild (no1 bs) (List.length bs) (singletons_desc bs)) bs (no1 bs) tl
| Kn_sqdims bs mid tl :
    K (OSqueezeDims (singletons_desc bs)) (bs ++ mid) (no1 bs ++ mid) tl
| Kt_unsqueeze d bs bs' : t_unsqueeze bs d = Ok bs' -> K (OUnsqueeze d) bs bs' []
| Kn_unsqueeze i bs tl : (i <= List.length bs)%nat -> K (OUnsqueeze (Z.of_nat i)) bs (insert_nth i 1 bs) tl
| Kt_expand shape bs bs' : t_expand bs shape = Ok bs' -> K (OExpand shape) bs bs' []
| Kn_expand bs bs' tl : expand_ok bs bs' -> K (OExpand (bs' ++ tl)) bs bs' tl
| Kt_view shape bs bs' : t_view bs shape = Ok bs' -> K (OView shape) bs bs' []
| Kn_view bs bs' tl : prodZ bs = prodZ bs' -> nonneg bs' -> K (OView (bs' ++ tl)) bs bs' tl
| Kt_reshape shape bs bs' : t_reshape bs shape = Ok bs' -> K (OReshape shape) bs bs' []
| Kn_reshape bs bs' tl : prodZ bs = prodZ bs' -> nonneg bs' -> K (OReshape (bs' ++ tl)) bs bs' tl
| Kt_flatten a b bs bs' i j : bs <> [] -> wrap_dim a (List.length bs) = Ok i -> wrap_dim b (List.length bs) = Ok j ->
    (i < j)%nat -> bs' = flat bs i j -> K (OFlatten a b) bs bs' []
| Kn_flatten i j bs tl : (i < j)%nat -> (j < List.length bs)%nat ->
    K (OFlatten (Z.of_nat i) (Z.of_nat j)) bs (flat bs i j) tl
| Kt_unflatten d sizes bs bs' : t_unflatten bs d sizes = Ok bs' -> K (OUnflatten d sizes) bs bs' []
| Kn_unflatten i sizes bs tl : (i < List.length bs)%nat -> sizes <> [] -> nonneg sizes -> prodZ sizes = nthZ bs i ->
    K (OUnflatten (Z.of_nat i) sizes) bs (firstn i bs ++ sizes ++ skipn (S i) bs) tl
| Kt_repeat reps bs bs' : t_repeat bs reps = Ok bs' -> List.length reps = List.length bs ->
    K (ORepeat reps) bs bs' []
| Kn_repeat reps bs tl : List.length reps = List.length bs -> nonneg (map2_mul bs reps) ->
    K (ORepeat (reps ++ repeat 1 (List.length tl))) bs (map2_mul bs reps) tl
| Kt_repint r d bs bs' : bs <> [] -> t_repeat_interleave bs r (Some d) = Ok bs' -> K (ORepInt r d) bs bs' []
| Kn_repint r i bs tl : 0 <= r -> (i < List.length bs)%nat ->
    K (ORepInt r (Z.of_nat i)) bs (set_nth i (nthZ bs i * r) bs) tl.

(* ------------------------------------------------------------------ transpose *)
Lemma transpose_norm bs a b bs' : bs <> [] -> t_transpose bs a b = Ok bs' ->
  exists i j, wrap_dim a (List.length bs) = Ok i /\ wrap_dim b (List.length bs) = Ok j /\ bs' = swap_nth bs i j.
Proof.
  intros Hne. unfold t_transpose. rewrite !wrap_dim_scalar_pos by (destruct bs; [congruence|cbn; lia]).
  destruct (wrap_dim a _) as [i|] eqn:Ea; [|discriminate]. destruct (wrap_dim b _) as [j|] eqn:Eb; [|discriminate].
  cbn [bind]. destruct bs; [congruence|]. intros H. injection H as <-. eauto.
Qed.

Lemma Kleaf_n_transpose i j bs tl : (i < j)%nat -> (j < List.length bs)%nat ->
  leaf_op (OTranspose (Z.of_nat i) (Z.of_nat j)) (bs ++ tl) = Done (swap_nth bs i j ++ tl).
Proof.
  intros Hi Hj. cbn [leaf_op]. unfold t_transpose.
  rewrite !wrap_dim_scalar_pos by (rewrite app_length; lia).
  rewrite !wrap_dim_nat by (rewrite app_length; lia). cbn [bind].
  destruct (bs ++ tl) eqn:E; [destruct bs; cbn in *; [lia|discriminate]|]. rewrite <- E.
  rewrite swap_nth_app_l by lia. reflexivity.
Qed.

Lemma node_transpose_nat i j bs nm : (i < j)%nat -> (j < List.length bs)%nat ->
  exists nm', node_step (OTranspose (Z.of_nat i) (Z.of_nat j)) bs nm =
              Done (SStep (swap_nth bs i j) nm' (fun _ => OTranspose (Z.of_nat i) (Z.of_nat j)))
              /\ (names_wf nm bs -> names_wf nm' (swap_nth bs i j)).
Proof.
  intros Hi Hj. cbn [node_step].
  destruct (Z.of_nat i <? 0) eqn:E1; [lia|]. destruct (Z.of_nat j <? 0) eqn:E2; [lia|].
  destruct ((Z.of_nat i <? 0) || (Z.of_nat j <? 0) || (Z.of_nat (List.length bs) <=? Z.of_nat i)
            || (Z.of_nat (List.length bs) <=? Z.of_nat j)) eqn:E3; [lia|].
  rewrite Z.min_l, Z.max_r by lia. rewrite !Nat2Z.id.
  destruct (Nat.eqb i j) eqn:E4; [apply Nat.eqb_eq in E4; lia|].
  eexists. split; [reflexivity|]. intros Hw. destruct nm as [l|]; cbn [has_names names_wf]; [|exact I].
  cbn [names_list]. cbn in Hw. unfold swap_nth. rewrite !set_nth_length; rewrite ?set_nth_length; lia.
Qed.

(* ------------------------------------------------------------------ squeeze(dim) / unsqueeze *)
Lemma squeeze_norm bs d bs' : bs <> [] -> t_squeeze_dim bs d = Ok bs' ->
  exists i, wrap_dim d (List.length bs) = Ok i /\ bs' = (if nthZ bs i =? 1 then remove_nth i bs else bs).
Proof.
  intros Hne. unfold t_squeeze_dim. rewrite wrap_dim_scalar_pos by (destruct bs; [congruence|cbn; lia]).
  destruct (wrap_dim d _) as [i|] eqn:Ea; [|discriminate]. cbn [bind]. destruct bs; [congruence|].
  intros H. injection H as <-. eauto.
Qed.

Lemma Kleaf_n_squeeze i bs tl : (i < List.length bs)%nat -> nthZ bs i = 1 ->
  leaf_op (OSqueeze (Some (Z.of_nat i))) (bs ++ tl) = Done (remove_nth i bs ++ tl).
Proof.
  intros Hi H1. cbn [leaf_op]. unfold t_squeeze_dim. rewrite wrap_dim_scalar_pos by (rewrite app_length; lia).
  rewrite wrap_dim_nat by (rewrite app_length; lia). cbn [bind].
  destruct (bs ++ tl) eqn:E; [destruct bs; cbn in *; [lia|discriminate]|]. rewrite <- E.
  rewrite nthZ_app_l by lia. rewrite H1. cbn. rewrite remove_nth_app_l by lia. reflexivity.
Qed.

Lemma node_squeeze_nat i bs nm : (i < List.length bs)%nat -> nthZ bs i = 1 ->
  exists nm', node_step (OSqueeze (Some (Z.of_nat i))) bs nm =
              Done (SStep (remove_nth i bs) nm' (fun _ => OSqueeze (Some (Z.of_nat i))))
              /\ (names_wf nm bs -> names_wf nm' (remove_nth i bs)).
Proof.
  intros Hi H1. cbn [node_step]. rewrite correct_neg_dim_nat by lia. cbn [bindo]. rewrite H1. cbn.
  eexists. split; [reflexivity|]. intros Hw. destruct nm as [l|]; cbn [has_names names_wf]; [|exact I].
  cbn [names_list]. cbn in Hw. rewrite !remove_nth_length; lia.
Qed.

Lemma unsqueeze_norm bs d bs' : t_unsqueeze bs d = Ok bs' ->
  exists i, wrap_dim d (S (List.length bs)) = Ok i /\ bs' = insert_nth i 1 bs.
Proof.
  unfold t_unsqueeze. destruct (wrap_dim d _) as [i|] eqn:Ea; [|discriminate]. cbn [bind].
  intros H. injection H as <-. eauto.
Qed.

Lemma Kleaf_n_unsqueeze i bs tl : (i <= List.length bs)%nat ->
  leaf_op (OUnsqueeze (Z.of_nat i)) (bs ++ tl) = Done (insert_nth i 1 bs ++ tl).
Proof.
  intros Hi. cbn [leaf_op]. unfold t_unsqueeze. rewrite wrap_dim_nat by (rewrite app_length; lia). cbn [bind lift].
  rewrite insert_nth_app_l by lia. reflexivity.
Qed.

Lemma node_unsqueeze_nat i bs nm : (i <= List.length bs)%nat ->
  exists nm', node_step (OUnsqueeze (Z.of_nat i)) bs nm =
              Done (SStep (insert_nth i 1 bs) nm' (fun _ => OUnsqueeze (Z.of_nat i)))
              /\ (names_wf nm bs -> names_wf nm' (insert_nth i 1 bs)).
Proof.
  intros Hi. cbn [node_step]. destruct (Z.of_nat i <? 0) eqn:E1; [lia|].
  destruct ((Z.of_nat (List.length bs) <? Z.of_nat i) || (Z.of_nat i <? 0)) eqn:E2; [lia|]. rewrite Nat2Z.id.
  eexists. split; [reflexivity|]. intros Hw. destruct nm as [l|]; cbn [has_names names_wf]; [|exact I].
  cbn [names_list]. cbn in Hw. rewrite !insert_nth_length; lia.
Qed.

(* the root call with a raw (possibly negative) dim: tensordict's normalisation agrees with torch's *)
Lemma node_unsqueeze_raw d bs nm i : wrap_dim d (S (List.length bs)) = Ok i ->
  node_step (OUnsqueeze d) bs nm = node_step (OUnsqueeze (Z.of_nat i)) bs nm.
Proof.
  intros H. apply wrap_dim_ok in H. destruct H as [Hi Hd]. cbn [node_step].
  destruct (d <? 0) eqn:E1; destruct (Z.of_nat i <? 0) eqn:E2; try lia.
  - replace (Z.of_nat (List.length bs) + d + 1) with (Z.of_nat i) by lia. reflexivity.
  - replace d with (Z.of_nat i) by lia. reflexivity.
Qed.

(* ------------------------------------------------------------------ expand *)
Lemma expand_tail_nonneg old tgt r : nonneg tgt -> expand_tail old tgt = Ok r ->
  r = tgt /\ List.length old = List.length tgt /\
  existsb (fun p => negb (fst p =? 1) && negb (snd p =? fst p)) (combine old tgt) = false.
Proof.
  revert tgt r. induction old as [|o old IH]; intros [|t tgt] r Hn H; cbn [expand_tail] in H; try discriminate.
  - injection H as <-. cbn. auto.
  - apply nonneg_cons in Hn. destruct Hn as [Ht Hn].
    destruct (expand_tail old tgt) as [r0|] eqn:E; [|discriminate]. cbn [bind] in H.
    destruct (IH _ _ Hn E) as [-> [Hl He]].
    destruct (t =? -1) eqn:E1; [lia|]. cbn [combine existsb fst snd]. rewrite He, orb_false_r.
    destruct (t =? o) eqn:E2.
    + injection H as <-. apply Z.eqb_eq in E2. split; [congruence|]. split; [cbn [List.length]; lia|].
      cbn. apply andb_false_r.
    + destruct ((o =? 1) && (0 <=? t)) eqn:E3; [|discriminate]. injection H as <-.
      apply andb_true_iff in E3. destruct E3 as [E3 _]. rewrite E3. cbn. split; [reflexivity|]. split; [lia|reflexivity].
Qed.

Lemma expand_tail_same tl : nonneg tl -> expand_tail tl tl = Ok tl.
Proof.
  induction tl as [|x tl IH]; intros Hn; [reflexivity|]. apply nonneg_cons in Hn. destruct Hn as [Hx Hn].
  cbn [expand_tail]. rewrite (IH Hn). cbn [bind]. destruct (x =? -1) eqn:E; [lia|]. rewrite Z.eqb_refl. reflexivity.
Qed.

Lemma expand_tail_app a b tl r : nonneg tl -> expand_tail a b = Ok r -> expand_tail (a ++ tl) (b ++ tl) = Ok (r ++ tl).
Proof.
  intros Hn. revert b r. induction a as [|o a IH]; intros [|t b] r H; cbn [expand_tail] in H; try discriminate.
  - injection H as <-. cbn [app]. apply expand_tail_same. exact Hn.
  - destruct (expand_tail a b) as [r0|] eqn:E; [|discriminate]. cbn [bind] in H.
    cbn [app expand_tail]. rewrite (IH _ _ E). cbn [bind].
    destruct (t =? -1); [injection H as <-; reflexivity|].
    destruct (t =? o); [injection H as <-; reflexivity|].
    destruct ((o =? 1) && (0 <=? t)); [injection H as <-; reflexivity|discriminate].
Qed.

Lemma forallb_nonneg l : forallb (fun x => 0 <=? x) l = true <-> nonneg l.
Proof.
  unfold nonneg. rewrite forallb_forall, Forall_forall. split; intros H x Hx; specialize (H x Hx); lia.
Qed.

Lemma t_expand_inv bs tgt r : t_expand bs tgt = Ok r ->
  (List.length bs <= List.length tgt)%nat /\
  exists r0, expand_tail bs (skipn (List.length tgt - List.length bs) tgt) = Ok r0 /\
             r = firstn (List.length tgt - List.length bs) tgt ++ r0 /\
             nonneg (firstn (List.length tgt - List.length bs) tgt).
Proof.
  unfold t_expand. destruct (List.length tgt <? List.length bs)%nat eqn:E; [discriminate|].
  destruct (forallb _ _) eqn:E2; [|discriminate].
  destruct (expand_tail _ _) as [r0|] eqn:E3; [|discriminate]. cbn [bind]. intros H. injection H as <-.
  split; [apply Nat.ltb_ge in E; exact E|]. exists r0. split; [reflexivity|]. split; [reflexivity|].
  apply forallb_nonneg. exact E2.
Qed.

Lemma t_expand_nonneg bs tgt r : nonneg tgt -> t_expand bs tgt = Ok r -> r = tgt.
Proof.
  intros Hn H. apply t_expand_inv in H. destruct H as [Hl [r0 [He [-> _]]]].
  apply expand_tail_nonneg in He; [|apply nonneg_skipn; exact Hn]. destruct He as [-> _]. apply firstn_skipn.
Qed.

Lemma t_expand_app bs bs' tl : nonneg tl -> nonneg bs' -> t_expand bs bs' = Ok bs' ->
  t_expand (bs ++ tl) (bs' ++ tl) = Ok (bs' ++ tl).
Proof.
  intros Hn Hn' H. apply t_expand_inv in H. destruct H as [Hl [r0 [He [Hr Hlead]]]].
  unfold t_expand. rewrite !app_length.
  destruct (List.length bs' + List.length tl <? List.length bs + List.length tl)%nat eqn:E;
    [apply Nat.ltb_lt in E; lia|].
  replace (List.length bs' + List.length tl - (List.length bs + List.length tl))%nat
    with (List.length bs' - List.length bs)%nat by lia.
  rewrite firstn_app_l, skipn_app_l by lia.
  assert (Hf : forallb (fun x => 0 <=? x) (firstn (List.length bs' - List.length bs) bs') = true)
    by (apply forallb_nonneg; exact Hlead).
  rewrite Hf. rewrite (expand_tail_app _ _ _ _ Hn He). cbn [bind]. rewrite app_assoc, <- Hr. reflexivity.
Qed.

Lemma expand_ok_app bs bs' tl : nonneg tl -> expand_ok bs bs' -> expand_ok (bs ++ tl) (bs' ++ tl).
Proof.
  intros Hn [Hn' H]. split; [apply nonneg_app; tauto|]. apply t_expand_app; assumption.
Qed.

Lemma lastn_app {A} (a b : list A) : lastn (List.length b) (a ++ b) = b.
Proof.
  unfold lastn. rewrite app_length. replace (List.length a + List.length b - List.length b)%nat with (List.length a) by lia.
  rewrite skipn_app, skipn_all, Nat.sub_diag. reflexivity.
Qed.

Lemma existsb_app {A} (f : A -> bool) a b : existsb f (a ++ b) = existsb f a || existsb f b.
Proof. induction a as [|x a IH]; cbn; [reflexivity|]. rewrite IH. apply orb_assoc. Qed.

Lemma combine_app {A B} (a1 a2 : list A) (b1 b2 : list B) : List.length a1 = List.length b1 ->
  combine (a1 ++ a2) (b1 ++ b2) = combine a1 b1 ++ combine a2 b2.
Proof.
  revert b1. induction a1 as [|x a1 IH]; intros [|y b1] H; cbn in H; try discriminate; [reflexivity|].
  cbn. rewrite IH by lia. reflexivity.
Qed.

Lemma existsb_same tl : existsb (fun p : Z * Z => negb (fst p =? 1) && negb (snd p =? fst p)) (combine tl tl) = false.
Proof. induction tl as [|x tl IH]; cbn; [reflexivity|]. rewrite IH, Z.eqb_refl. cbn. rewrite andb_false_r. reflexivity. Qed.

Lemma resolve_id (bs tail : list Z) : nonneg tail ->
  map (fun p : Z * Z => if snd p =? -1 then fst p else snd p) (combine bs tail) = map snd (combine bs tail).
Proof.
  intros Hn. apply map_ext_in. intros [o t] Hin. cbn [fst snd]. apply in_combine_r in Hin.
  unfold nonneg in Hn. rewrite Forall_forall in Hn. specialize (Hn _ Hin). destruct (t =? -1) eqn:E; [lia|reflexivity].
Qed.

Lemma map_snd_combine {A B} (a : list A) (b : list B) : List.length a = List.length b -> map snd (combine a b) = b.
Proof. revert b. induction a as [|x a IH]; intros [|y b] H; cbn in *; try discriminate; [reflexivity|]. f_equal. apply IH. lia. Qed.

Lemma node_expand_ok bs bs' nm : expand_ok bs bs' ->
  exists nm', node_step (OExpand bs') bs nm =
    Done (SStep bs' nm' (fun csh => let k := (List.length csh - List.length bs)%nat in
                                    OExpand (match k with O => bs' | _ => bs' ++ lastn k csh end)))
    /\ (names_wf nm bs -> names_wf nm' bs').
Proof.
  intros [Hn H]. apply t_expand_inv in H. destruct H as [Hl [r0 [He _]]].
  apply expand_tail_nonneg in He; [|apply nonneg_skipn; exact Hn]. destruct He as [_ [_ He]].
  cbn [node_step]. destruct (List.length bs' <? List.length bs)%nat eqn:E; [apply Nat.ltb_lt in E; lia|].
  change fixed_C02f with true. cbv iota.
  rewrite resolve_id by (apply nonneg_skipn; exact Hn).
  rewrite map_snd_combine by (rewrite skipn_length; lia). rewrite firstn_skipn.
  rewrite He. eexists. split; [reflexivity|]. intros Hw. destruct nm as [l|]; cbn [has_names names_wf]; [|exact I].
  cbn [names_list]. cbn in Hw. rewrite app_length, repeat_length. lia.
Qed.

Lemma Knode_expand_child bs' (csh base tl2 : list Z) : csh = base ++ tl2 ->
  OExpand (match (List.length csh - List.length base)%nat with
           | O => bs' | _ => bs' ++ lastn (List.length csh - List.length base)%nat csh end) = OExpand (bs' ++ tl2).
Proof.
  intros ->. rewrite app_length. replace (List.length base + List.length tl2 - List.length base)%nat
    with (List.length tl2) by lia.
  destruct tl2 as [|x tl2]; [cbn; rewrite app_nil_r; reflexivity|].
  cbn [List.length]. rewrite <- (lastn_app base (x :: tl2)) at 2. reflexivity.
Qed.

Lemma expand_tail_resolve old tgt r : nonneg old -> expand_tail old tgt = Ok r ->
  map (fun p : Z * Z => if snd p =? -1 then fst p else snd p) (combine old tgt) = r /\ nonneg r /\ expand_tail old r = Ok r.
Proof.
  revert tgt r. induction old as [|o old IH]; intros [|t tgt] r Hn H; cbn [expand_tail] in H; try discriminate.
  - injection H as <-. cbn. repeat split; constructor.
  - apply nonneg_cons in Hn. destruct Hn as [Ho Hn].
    destruct (expand_tail old tgt) as [r0|] eqn:E; [|discriminate]. cbn [bind] in H.
    destruct (IH _ _ Hn E) as [Hm [Hnr Hi]]. cbn [combine map fst snd expand_tail]. rewrite Hm.
    destruct (t =? -1) eqn:E1.
    + injection H as <-. split; [reflexivity|]. split; [apply nonneg_cons; tauto|]. rewrite Hi. cbn [bind].
      destruct (o =? -1) eqn:E2; [reflexivity|]. rewrite Z.eqb_refl. reflexivity.
    + destruct (t =? o) eqn:E2.
      * injection H as <-. apply Z.eqb_eq in E2. subst t. split; [reflexivity|]. split; [apply nonneg_cons; tauto|].
        rewrite Hi. cbn [bind]. rewrite E1, Z.eqb_refl. reflexivity.
      * destruct ((o =? 1) && (0 <=? t)) eqn:E3; [|discriminate]. injection H as <-.
        apply andb_true_iff in E3. destruct E3 as [E3 E4]. split; [reflexivity|]. split; [apply nonneg_cons; split; [lia|exact Hnr]|].
        rewrite Hi. cbn [bind]. rewrite E1, E2, E3, E4. reflexivity.
Qed.

(* a legal expand: tensordict resolves the target to torch's result shape, and from there behaves as for that shape *)
Lemma t_expand_result bs shape bs' : t_expand bs shape = Ok bs' -> nonneg bs ->
  expand_ok bs bs' /\ forall nm, node_step (OExpand shape) bs nm = node_step (OExpand bs') bs nm.
Proof.
  intros H Hn. apply t_expand_inv in H. destruct H as [Hl [r0 [He [-> Hlead]]]].
  destruct (expand_tail_resolve _ _ _ Hn He) as [Hm [Hnr Hi]].
  assert (Hlr : List.length r0 = List.length bs).
  { apply expand_tail_nonneg in Hi; [|exact Hnr]. destruct Hi as [_ [Hl2 _]]. lia. }
  set (k := (List.length shape - List.length bs)%nat) in *.
  assert (Hlk : List.length (firstn k shape) = k) by (rewrite firstn_length; lia).
  assert (Hlen : List.length (firstn k shape ++ r0) = List.length shape) by (rewrite app_length, Hlk, Hlr; lia).
  assert (Hfk : firstn k (firstn k shape ++ r0) = firstn k shape).
  { rewrite firstn_app_l by lia. rewrite firstn_firstn, Nat.min_id. reflexivity. }
  assert (Hsk : skipn k (firstn k shape ++ r0) = r0).
  { rewrite skipn_app_l by lia. rewrite (skipn_all2 (firstn k shape)) by (rewrite Hlk; lia). reflexivity. }
  split.
  - split; [apply nonneg_app; split; assumption|]. unfold t_expand. rewrite Hlen.
    destruct (List.length shape <? List.length bs)%nat eqn:E; [apply Nat.ltb_lt in E; lia|]. fold k.
    rewrite !Hfk, !Hsk.
    assert (Hf : forallb (fun x => 0 <=? x) (firstn k shape) = true) by (apply forallb_nonneg; exact Hlead).
    rewrite Hf, Hi. reflexivity.
  - intros nm. cbn [node_step]. rewrite Hlen. fold k. change fixed_C02f with true. cbv iota.
    rewrite Hm. rewrite !Hfk, !Hsk.
    rewrite (resolve_id bs r0 Hnr), map_snd_combine by lia. rewrite !Hsk. reflexivity.
Qed.

(* ------------------------------------------------------------------ view / reshape / squeeze() *)
Lemma filter_nonneg_id l : nonneg l -> filter (fun x => negb (x =? -1)) l = l /\ filter (fun x => x =? -1) l = []
                                      /\ forallb (fun x => -1 <=? x) l = true.
Proof.
  induction l as [|x l IH]; intros H; [cbn; auto|]. apply nonneg_cons in H. destruct H as [Hx H].
  destruct (IH H) as [E1 [E2 E3]]. cbn. destruct (x =? -1) eqn:E; [lia|]. cbn. rewrite E1, E2, E3.
  destruct (-1 <=? x) eqn:E4; [auto|lia].
Qed.

Lemma infer_size_nonneg tgt total : nonneg tgt -> infer_size tgt total = if prodZ tgt =? total then Ok tgt else Reject.
Proof.
  intros H. destruct (filter_nonneg_id _ H) as [E1 [E2 E3]]. unfold infer_size, count_neg1. rewrite E1, E2, E3. reflexivity.
Qed.

Lemma t_view_app bs bs' tl : prodZ bs = prodZ bs' -> nonneg (bs' ++ tl) -> t_view (bs ++ tl) (bs' ++ tl) = Ok (bs' ++ tl).
Proof.
  intros Hp Hn. unfold t_view, numel. rewrite infer_size_nonneg by exact Hn. rewrite !prodZ_app, Hp, Z.eqb_refl. reflexivity.
Qed.

Lemma t_view_nonneg bs shape bs' : nonneg shape -> t_view bs shape = Ok bs' -> bs' = shape /\ prodZ bs = prodZ shape.
Proof.
  intros Hn. unfold t_view, numel. rewrite infer_size_nonneg by exact Hn.
  destruct (prodZ shape =? prodZ bs) eqn:E; [|discriminate]. intros H. injection H as <-. split; [reflexivity|lia].
Qed.

Lemma existsb_neg_nonneg l : nonneg l -> existsb (fun x => x <? 0) l = false.
Proof.
  induction l as [|x l IH]; intros H; [reflexivity|]. apply nonneg_cons in H. destruct H as [Hx H]. cbn. rewrite (IH H).
  destruct (x <? 0) eqn:E; [lia|reflexivity].
Qed.

Lemma skipn_app_exact {A} (a b : list A) : skipn (List.length a) (a ++ b) = b.
Proof. rewrite skipn_app, skipn_all, Nat.sub_diag. reflexivity. Qed.

(* the node step of view / view( *sizes ) / reshape on explicit (non-negative) sizes *)
Lemma node_view_nonneg (mk : list Z -> sop) (mk' : list Z -> sop) sh bs nm :
  (forall s b n, node_step (mk s) b n =
     let* sh := (if existsb (fun x => x <? 0) s then infer_size_impl s (td_numel b) else Done s) in
     if list_eqb sh b then Done SSelf else Done (SStep sh None (fun csh => mk' (sh ++ skipn (List.length b) csh)))) ->
  nonneg sh ->
  (node_step (mk sh) bs nm = Done SSelf /\ sh = bs) \/
  (node_step (mk sh) bs nm = Done (SStep sh None (fun csh => mk' (sh ++ skipn (List.length bs) csh))) /\ sh <> bs).
Proof.
  intros Hdef Hn. rewrite Hdef. rewrite existsb_neg_nonneg by exact Hn. cbn [bindo].
  destruct (list_eqb sh bs) eqn:E.
  - left. split; [reflexivity|apply list_eqb_eq; exact E].
  - right. split; [reflexivity|apply list_eqb_neq; exact E].
Qed.

Lemma squeeze_pairs_fst bs nl : List.length nl = List.length bs ->
  map fst (squeeze_pairs bs nl) = filter (fun x => negb (x =? 1)) bs.
Proof.
  unfold squeeze_pairs. revert nl. induction bs as [|x bs IH]; intros [|y nl] H; cbn in H; try discriminate; [reflexivity|].
  cbn. destruct (x =? 1); cbn; [apply IH; lia|f_equal; apply IH; lia].
Qed.

Lemma prodZ_filter1 bs : prodZ (filter (fun x => negb (x =? 1)) bs) = prodZ bs.
Proof.
  unfold prodZ. induction bs as [|x bs IH]; [reflexivity|]. cbn. destruct (x =? 1) eqn:E; cbn; rewrite IH; lia.
Qed.

Lemma nonneg_filter f l : nonneg l -> nonneg (filter f l).
Proof. unfold nonneg. rewrite !Forall_forall. intros H x Hx. apply filter_In in Hx. apply H. tauto. Qed.

(* the target of a legal view / reshape as tensordict computes it: torch's result *)
Lemma view_target bs shape bs' : nonneg bs -> t_view bs shape = Ok bs' ->
  (if existsb (fun x => x <? 0) shape then infer_size_impl shape (td_numel bs) else Done shape) = Done bs'
  /\ nonneg bs' /\ prodZ bs = prodZ bs'.
Proof.
  intros Hn Ht. unfold t_view, numel in Ht.
  destruct (infer_size_ok shape (prodZ bs) bs' (prodZ_nonneg bs Hn) Ht) as [H1 [H2 _]].
  split; [|split; [exact H1|lia]].
  destruct (existsb (fun x => x <? 0) shape) eqn:E.
  - change (td_numel bs) with (prodZ bs). rewrite infer_equiv, Ht. reflexivity.
  - assert (Hns : nonneg shape).
    { unfold nonneg. rewrite Forall_forall. intros x Hx. destruct (x <? 0) eqn:Ex; [|lia].
      assert (existsb (fun y => y <? 0) shape = true) by (apply existsb_exists; exists x; tauto). congruence. }
    rewrite infer_size_nonneg in Ht by exact Hns. destruct (prodZ shape =? prodZ bs); [|discriminate]. injection Ht as <-. reflexivity.
Qed.

Lemma node_view_any (mk mk' : list Z -> sop) shape bs bs' nm :
  (forall s b n, node_step (mk s) b n =
     let* sh := (if existsb (fun x => x <? 0) s then infer_size_impl s (td_numel b) else Done s) in
     if list_eqb sh b then Done SSelf else Done (SStep sh None (fun csh => mk' (sh ++ skipn (List.length b) csh)))) ->
  nonneg bs -> t_view bs shape = Ok bs' ->
  (node_step (mk shape) bs nm = Done SSelf /\ bs' = bs) \/
  (node_step (mk shape) bs nm = Done (SStep bs' None (fun csh => mk' (bs' ++ skipn (List.length bs) csh)))).
Proof.
  intros Hdef Hn Ht. rewrite Hdef. destruct (view_target bs shape bs' Hn Ht) as [-> _]. cbn [bindo].
  destruct (list_eqb bs' bs) eqn:E; [left; split; [reflexivity|apply list_eqb_eq; exact E]|right; reflexivity].
Qed.

Lemma unflatten_norm_any bs d sizes bs' : nonneg bs -> t_unflatten bs d sizes = Ok bs' ->
  exists i sz, wrap_dim d (List.length bs) = Ok i /\ sz <> [] /\ nonneg sz /\ prodZ sz = nthZ bs i /\
               bs' = firstn i bs ++ sz ++ skipn (S i) bs /\
               (if existsb (fun x => x <? 0) sizes then infer_size_impl sizes (nthZ bs i) else Done sizes) = Done sz.
Proof.
  intros Hn. unfold t_unflatten. destruct (wrap_dim d _) as [i|] eqn:E; [|discriminate]. cbn [bind].
  destruct sizes as [|s0 sizes]; [discriminate|].
  destruct (infer_size (s0 :: sizes) (nthZ bs i)) as [sz|] eqn:Ei; [|discriminate]. cbn [bind]. intros H. injection H as <-.
  destruct (infer_size_ok _ _ _ (nonneg_nth bs i Hn) Ei) as [H1 [H2 H3]].
  exists i, sz. split; [reflexivity|]. split; [destruct sz; [discriminate|discriminate]|]. split; [exact H1|]. split; [exact H2|]. split; [reflexivity|].
  destruct (existsb (fun x => x <? 0) (s0 :: sizes)) eqn:Ee.
  - rewrite infer_equiv, Ei. reflexivity.
  - assert (Hns : nonneg (s0 :: sizes)).
    { unfold nonneg. rewrite Forall_forall. intros x Hx. destruct (x <? 0) eqn:Ex; [|lia].
      assert (existsb (fun y => y <? 0) (s0 :: sizes) = true) by (apply existsb_exists; exists x; tauto). congruence. }
    rewrite infer_size_nonneg in Ei by exact Hns. destruct (prodZ (s0 :: sizes) =? nthZ bs i); [|discriminate]. injection Ei as <-. reflexivity.
Qed.

(* ------------------------------------------------------------------ flatten / unflatten *)
Lemma py_slice_in {A} (l : list A) a b : (a <= b)%nat -> (b <= List.length l)%nat ->
  py_slice l (Z.of_nat a) (Z.of_nat b) = firstn (b - a) (skipn a l).
Proof.
  intros Hab Hb. unfold py_slice, py_indices, adjust, len.
  destruct (Z.of_nat a <? 0) eqn:E1; [lia|]. destruct (Z.of_nat b <? 0) eqn:E2; [lia|].
  destruct (Z.of_nat a >=? Z.of_nat (List.length l)) eqn:E3; destruct (Z.of_nat b >=? Z.of_nat (List.length l)) eqn:E4;
    cbn [Z.ltb]; cbv zeta.
  all: repeat match goal with |- context [if 1 <? 0 then _ else _] => change (1 <? 0) with false; cbv iota end.
  - assert (a = List.length l) by lia. assert (b = List.length l) by lia. subst a b.
    rewrite Z.ltb_irrefl, Nat.sub_diag. reflexivity.
  - lia.
  - assert (b = List.length l) by lia. subst b.
    destruct (Z.of_nat a <? Z.of_nat (List.length l)) eqn:E5; [|lia].
    f_equal; [lia|f_equal; lia].
  - destruct (Z.of_nat a <? Z.of_nat b) eqn:E5.
    + f_equal; [lia|f_equal; lia].
    + assert (a = b) by lia. subst. rewrite Nat.sub_diag. reflexivity.
Qed.

Lemma py_from_in {A} (l : list A) a : (a <= List.length l)%nat -> py_from l (Z.of_nat a) = skipn a l.
Proof.
  intros H. unfold py_from, len. rewrite py_slice_in by lia. apply firstn_all2. rewrite skipn_length. lia.
Qed.

Lemma py_upto_in {A} (l : list A) b : (b <= List.length l)%nat -> py_upto l (Z.of_nat b) = firstn b l.
Proof. intros H. unfold py_upto. change 0 with (Z.of_nat 0). rewrite py_slice_in by lia. rewrite Nat.sub_0_r. reflexivity. Qed.

Lemma flat_app bs tl i j : (i < j)%nat -> (j < List.length bs)%nat -> flat (bs ++ tl) i j = flat bs i j ++ tl.
Proof.
  intros Hi Hj. unfold flat. rewrite firstn_app_l by lia. rewrite (skipn_app_l bs tl i) by lia.
  rewrite (firstn_app_l (skipn i bs)) by (rewrite skipn_length; lia). rewrite skipn_app_l by lia.
  rewrite <- app_assoc. reflexivity.
Qed.

Lemma Kleaf_n_flatten i j bs tl : (i < j)%nat -> (j < List.length bs)%nat ->
  leaf_op (OFlatten (Z.of_nat i) (Z.of_nat j)) (bs ++ tl) = Done (flat bs i j ++ tl).
Proof.
  intros Hi Hj. cbn [leaf_op]. unfold t_flatten. rewrite !wrap_dim_scalar_pos by (rewrite app_length; lia).
  rewrite !wrap_dim_nat by (rewrite app_length; lia). cbn [bind].
  destruct (bs ++ tl) eqn:E; [destruct bs; cbn in *; [lia|discriminate]|]. rewrite <- E.
  destruct (j <? i)%nat eqn:E1; [apply Nat.ltb_lt in E1; lia|].
  destruct (Nat.eqb i j) eqn:E2; [apply Nat.eqb_eq in E2; lia|]. cbn [lift]. fold (flat (bs ++ tl) i j).
  rewrite flat_app by lia. reflexivity.
Qed.

Lemma filter_outside {A} (l : list A) i j k : (i <= j)%nat ->
  map snd (filter (fun p => (Z.of_nat (fst p) <? Z.of_nat i) || (Z.of_nat j <? Z.of_nat (fst p)))
                  (combine (seq k (List.length l)) l))
  = firstn (i - k) l ++ skipn (S j - k) l.
Proof.
  intros Hij. revert k. induction l as [|x l IH]; intros k.
  - cbn. rewrite firstn_nil, skipn_nil. reflexivity.
  - cbn [List.length seq combine filter fst].
    destruct ((Z.of_nat k <? Z.of_nat i) || (Z.of_nat j <? Z.of_nat k)) eqn:E.
    + cbn [map snd]. rewrite IH. destruct (Nat.lt_ge_cases k i) as [Hk|Hk].
      * replace (i - k)%nat with (S (i - S k)) by lia. replace (S j - k)%nat with (S (S j - S k)) by lia. reflexivity.
      * replace (i - k)%nat with 0%nat by lia. replace (i - S k)%nat with 0%nat by lia.
        replace (S j - k)%nat with 0%nat by lia. replace (S j - S k)%nat with 0%nat by lia. reflexivity.
    + rewrite IH. replace (i - k)%nat with 0%nat by lia. replace (i - S k)%nat with 0%nat by lia.
      replace (S j - k)%nat with (S (S j - S k)) by lia. reflexivity.
Qed.

Lemma py_insert_in {A} (l : list A) i x : (i <= List.length l)%nat -> py_insert l (Z.of_nat i) x = insert_nth i x l.
Proof.
  intros H. unfold py_insert, len. destruct (Z.of_nat i <? 0) eqn:E; [lia|]. rewrite Z.min_l by lia. rewrite Nat2Z.id. reflexivity.
Qed.

Lemma flat_length bs i j : (i < j)%nat -> (j < List.length bs)%nat -> List.length (flat bs i j) = (List.length bs - (j - i))%nat.
Proof.
  intros Hi Hj. unfold flat. rewrite app_length. cbn [List.length]. rewrite firstn_length, skipn_length. lia.
Qed.

Lemma node_flatten_nat i j bs nm : (i < j)%nat -> (j < List.length bs)%nat ->
  exists nm', node_step (OFlatten (Z.of_nat i) (Z.of_nat j)) bs nm =
              Done (SStep (flat bs i j) nm' (fun _ => OFlatten (Z.of_nat i) (Z.of_nat j)))
              /\ (names_wf nm bs -> names_wf nm' (flat bs i j)).
Proof.
  intros Hi Hj. cbn [node_step]. change fixed_S5 with true. cbn [andb].
  destruct (Z.of_nat i <? 0) eqn:E1; [lia|]. destruct (Z.of_nat j <? 0) eqn:E2; [lia|]. cbv iota. rewrite ?E1, ?E2.
  destruct (Z.of_nat (List.length bs) <=? Z.of_nat i) eqn:E01; [lia|].
  destruct (Z.of_nat (List.length bs) <=? Z.of_nat j) eqn:E02; [lia|].
  cbn [andb orb]. destruct (Z.of_nat j <=? Z.of_nat i) eqn:E3; [lia|].
  replace (Z.of_nat j + 1) with (Z.of_nat (S j)) by lia.
  rewrite py_slice_in, py_from_in, py_upto_in by lia.
  assert (Hbs : (if 0 <? Z.of_nat i then firstn i bs ++ prodZ (firstn (S j - i) (skipn i bs)) :: skipn (S j) bs
                 else prodZ (firstn (S j - i) (skipn i bs)) :: skipn (S j) bs) = flat bs i j).
  { unfold flat. destruct (0 <? Z.of_nat i) eqn:E4; [reflexivity|]. assert (i = 0)%nat by lia. subst. reflexivity. }
  rewrite Hbs. eexists. split; [reflexivity|]. intros Hw. destruct nm as [l|]; cbn [has_names names_wf]; [|exact I].
  cbn [names_list]. cbn in Hw. rewrite <- Hw at 1. rewrite filter_outside by lia. rewrite Nat.sub_0_r.
  rewrite py_insert_in by (rewrite app_length, firstn_length; lia).
  rewrite insert_nth_length by (rewrite app_length, firstn_length; lia).
  rewrite app_length, firstn_length, skipn_length, flat_length by lia. lia.
Qed.

Lemma unflat_app (bs tl : list Z) i sizes : (i < List.length bs)%nat ->
  firstn i (bs ++ tl) ++ sizes ++ skipn (S i) (bs ++ tl) = (firstn i bs ++ sizes ++ skipn (S i) bs) ++ tl.
Proof. intros Hi. rewrite firstn_app_l, skipn_app_l by lia. rewrite <- !app_assoc. reflexivity. Qed.

Lemma Kleaf_n_unflatten i sizes bs tl : (i < List.length bs)%nat -> sizes <> [] -> nonneg sizes -> prodZ sizes = nthZ bs i ->
  leaf_op (OUnflatten (Z.of_nat i) sizes) (bs ++ tl) = Done ((firstn i bs ++ sizes ++ skipn (S i) bs) ++ tl).
Proof.
  intros Hi Hne Hn Hp. cbn [leaf_op]. unfold t_unflatten. rewrite wrap_dim_nat by (rewrite app_length; lia). cbn [bind].
  destruct sizes as [|s0 sizes]; [congruence|]. rewrite infer_size_nonneg by exact Hn.
  rewrite nthZ_app_l by lia. rewrite Hp, Z.eqb_refl. cbn [bind lift]. rewrite unflat_app by lia. reflexivity.
Qed.

Lemma ins_length {A} (x : A) nd k l : (nd <= List.length l)%nat ->
  List.length ((fix ins (k : nat) (l : list A) := match k with O => l | S k' => ins k' (insert_nth nd x l) end) k l)
  = (k + List.length l)%nat.
Proof.
  revert l. induction k as [|k IH]; intros l H; [reflexivity|]. rewrite IH by (rewrite insert_nth_length; lia).
  rewrite insert_nth_length by lia. lia.
Qed.

Lemma node_unflatten_nat i sizes bs nm : (i < List.length bs)%nat -> sizes <> [] -> nonneg sizes ->
  exists nm', node_step (OUnflatten (Z.of_nat i) sizes) bs nm =
              Done (SStep (firstn i bs ++ sizes ++ skipn (S i) bs) nm' (fun _ => OUnflatten (Z.of_nat i) sizes))
              /\ (names_wf nm bs -> names_wf nm' (firstn i bs ++ sizes ++ skipn (S i) bs)).
Proof.
  intros Hi Hne Hnns. cbn [node_step]. rewrite correct_neg_dim_nat by lia. cbn [bindo].
  rewrite existsb_neg_nonneg by exact Hnns. rewrite andb_false_r. cbn [bindo].
  assert (Hbs : (if (0 <? i)%nat then firstn i bs ++ sizes ++ skipn (S i) bs else sizes ++ skipn 1 bs)
                = firstn i bs ++ sizes ++ skipn (S i) bs).
  { destruct (0 <? i)%nat eqn:E; [reflexivity|]. apply Nat.ltb_ge in E. assert (i = 0)%nat by lia. subst. reflexivity. }
  rewrite Hbs. eexists. split; [reflexivity|]. intros Hw. destruct nm as [l|]; cbn [has_names names_wf]; [|exact I].
  cbn [names_list]. cbn in Hw. rewrite ins_length by lia. rewrite !app_length, firstn_length, skipn_length.
  destruct sizes; [congruence|]. cbn [List.length]. lia.
Qed.

Lemma unflatten_check_ok d sizes bs' nm' ents' : names_wf nm' bs' ->
  exists nm'', unflatten_names_check (OUnflatten d sizes) (Node bs' nm' ents') = Done (Node bs' nm'' ents') /\ names_wf nm'' bs'.
Proof.
  intros Hw. destruct nm' as [l|]; cbn [unflatten_names_check].
  - destruct (Nat.eqb _ (List.length bs')); [exists None; split; [reflexivity|exact I]|].
    cbn in Hw. rewrite Hw, Nat.eqb_refl. cbn. exists (Some l). split; [reflexivity|exact Hw].
  - exists None. split; [reflexivity|exact I].
Qed.

Lemma unflatten_check_other o t : (forall d s, o <> OUnflatten d s) -> unflatten_names_check o t = Done t.
Proof. intros H. destruct o; try reflexivity. exfalso. eapply H. reflexivity. Qed.

Lemma unflatten_norm bs d sizes bs' : t_unflatten bs d sizes = Ok bs' -> nonneg sizes ->
  exists i, wrap_dim d (List.length bs) = Ok i /\ sizes <> [] /\ prodZ sizes = nthZ bs i /\
            bs' = firstn i bs ++ sizes ++ skipn (S i) bs.
Proof.
  unfold t_unflatten. destruct (wrap_dim d _) as [i|] eqn:E; [|discriminate]. cbn [bind].
  destruct sizes as [|s0 sizes]; [discriminate|]. intros H Hn. rewrite infer_size_nonneg in H by exact Hn.
  destruct (prodZ (s0 :: sizes) =? nthZ bs i) eqn:E2; [|discriminate]. cbn [bind] in H. injection H as <-.
  exists i. split; [reflexivity|]. split; [discriminate|]. split; [lia|reflexivity].
Qed.

(* ------------------------------------------------------------------ repeat / repeat_interleave *)
Lemma map2_mul_app a b c d : List.length a = List.length b -> map2_mul (a ++ c) (b ++ d) = map2_mul a b ++ map2_mul c d.
Proof.
  revert b. induction a as [|x a IH]; intros [|y b] H; cbn in H; try discriminate; [reflexivity|].
  cbn. rewrite IH by lia. reflexivity.
Qed.

Lemma map2_mul_ones tl : map2_mul tl (repeat 1 (List.length tl)) = tl.
Proof. induction tl as [|x tl IH]; [reflexivity|]. cbn. rewrite IH. f_equal. lia. Qed.

Lemma repeat_norm bs reps bs' : t_repeat bs reps = Ok bs' -> List.length reps = List.length bs ->
  bs' = map2_mul bs reps /\ nonneg bs'.
Proof.
  unfold t_repeat. intros H Hl. rewrite Hl, Nat.ltb_irrefl, Nat.sub_diag in H. cbn [repeat app] in H.
  destruct (forallb _ _) eqn:E; [|discriminate]. injection H as <-. split; [reflexivity|]. apply forallb_nonneg. exact E.
Qed.

Lemma leaf_repeat_any R sh : leaf_op (ORepeat R) sh = lift ERuntime (t_repeat sh R).
Proof. destruct R; reflexivity. Qed.

Lemma Kleaf_n_repeat reps bs tl : List.length reps = List.length bs -> nonneg (map2_mul bs reps) -> nonneg tl ->
  leaf_op (ORepeat (reps ++ repeat 1 (List.length tl))) (bs ++ tl) = Done (map2_mul bs reps ++ tl).
Proof.
  intros Hl Hn Hnt. rewrite leaf_repeat_any. unfold t_repeat. rewrite !app_length, repeat_length, Hl, Nat.ltb_irrefl, Nat.sub_diag. cbn [repeat app].
  rewrite map2_mul_app by lia. rewrite map2_mul_ones.
  assert (Hf : forallb (fun x => 0 <=? x) (map2_mul bs reps ++ tl) = true) by (apply forallb_nonneg, nonneg_app; tauto).
  rewrite Hf. reflexivity.
Qed.

Lemma set_nth_map_seq (l : list Z) i r k :
  map (fun p => if Z.of_nat (fst p) =? Z.of_nat i then snd p * r else snd p) (combine (seq k (List.length l)) l)
  = if ((k <=? i) && (i <? k + List.length l))%nat then set_nth (i - k) (nthZ l (i - k) * r) l else l.
Proof.
  revert k. induction l as [|x l IH]; intros k.
  - cbn [List.length seq combine map]. destruct ((k <=? i)%nat && (i <? k + 0)%nat) eqn:E; [|reflexivity].
    apply andb_true_iff in E. destruct E as [E1 E2]. apply Nat.leb_le in E1. apply Nat.ltb_lt in E2. lia.
  - cbn [List.length seq combine map fst snd]. rewrite IH.
    destruct (Z.of_nat k =? Z.of_nat i) eqn:E.
    + assert (k = i) by lia. subst. rewrite Nat.sub_diag.
      destruct ((S i <=? i)%nat && (i <? S i + List.length l)%nat) eqn:E2.
      { apply andb_true_iff in E2. destruct E2 as [E2 _]. apply Nat.leb_le in E2. lia. }
      destruct ((i <=? i)%nat && (i <? i + S (List.length l))%nat) eqn:E3.
      * reflexivity.
      * apply andb_false_iff in E3. destruct E3 as [E3|E3]; [apply Nat.leb_gt in E3|apply Nat.ltb_ge in E3]; lia.
    + destruct ((S k <=? i)%nat && (i <? S k + List.length l)%nat) eqn:E2.
      * apply andb_true_iff in E2. destruct E2 as [E2 E2']. apply Nat.leb_le in E2. apply Nat.ltb_lt in E2'.
        destruct ((k <=? i)%nat && (i <? k + S (List.length l))%nat) eqn:E3.
        -- replace (i - k)%nat with (S (i - S k)) by lia. unfold set_nth, nthZ. cbn [firstn skipn nth app]. reflexivity.
        -- apply andb_false_iff in E3. destruct E3 as [E3|E3]; [apply Nat.leb_gt in E3|apply Nat.ltb_ge in E3]; lia.
      * destruct ((k <=? i)%nat && (i <? k + S (List.length l))%nat) eqn:E3; [|reflexivity].
        apply andb_true_iff in E3. destruct E3 as [E3 E3']. apply Nat.leb_le in E3. apply Nat.ltb_lt in E3'.
        apply andb_false_iff in E2. destruct E2 as [E2|E2]; [apply Nat.leb_gt in E2|apply Nat.ltb_ge in E2]; lia.
Qed.

Lemma node_repint_nat r i bs nm : (i < List.length bs)%nat ->
  node_step (ORepInt r (Z.of_nat i)) bs nm =
    Done (SStep (set_nth i (nthZ bs i * r) bs) None (fun _ => ORepInt r (Z.of_nat i))).
Proof.
  intros Hi. cbn [node_step]. destruct bs as [|b0 bs]; [cbn in Hi; lia|].
  destruct (0 <=? Z.of_nat i) eqn:E; [|lia]. destruct (Z.of_nat i <? 0) eqn:E2; [lia|]. cbn [andb].
  destruct (Z.of_nat (List.length (b0 :: bs)) <=? Z.of_nat i) eqn:E4; [lia|]. rewrite andb_false_r.
  rewrite set_nth_map_seq. cbn [Nat.leb]. rewrite Nat.sub_0_r.
  destruct (i <? 0 + List.length (b0 :: bs))%nat eqn:E3; [reflexivity|]. apply Nat.ltb_ge in E3. lia.
Qed.

Lemma repint_norm bs r d bs' : bs <> [] -> t_repeat_interleave bs r (Some d) = Ok bs' ->
  0 <= r /\ exists i, wrap_dim d (List.length bs) = Ok i /\ bs' = set_nth i (nthZ bs i * r) bs.
Proof.
  intros Hne. unfold t_repeat_interleave. destruct (r <? 0) eqn:E; [discriminate|]. destruct bs; [congruence|].
  destruct (wrap_dim d _) as [i|] eqn:E2; [|discriminate]. cbn [bind]. intros H. injection H as <-.
  split; [lia|]. eauto.
Qed.

Lemma Kleaf_n_repint r i bs tl : 0 <= r -> (i < List.length bs)%nat ->
  leaf_op (ORepInt r (Z.of_nat i)) (bs ++ tl) = Done (set_nth i (nthZ bs i * r) bs ++ tl).
Proof.
  intros Hr Hi. cbn [leaf_op]. unfold t_repeat_interleave. destruct (r <? 0) eqn:E; [lia|].
  destruct (bs ++ tl) eqn:E2; [destruct bs; cbn in *; [lia|discriminate]|]. rewrite <- E2.
  rewrite wrap_dim_nat by (rewrite app_length; lia). cbn [bind lift]. rewrite nthZ_app_l, set_nth_app_l by lia. reflexivity.
Qed.

(* ------------------------------------------------------------------ permute *)
Lemma mapM_wrap_nat q m : Forall (fun i => (i < m)%nat) q -> mapM (fun d => wrap_dim d m) (map Z.of_nat q) = Ok q.
Proof.
  induction q as [|x q IH]; intros H; [reflexivity|]. cbn [map mapM]. rewrite wrap_dim_nat by (apply (Forall_inv H)).
  cbn [bind]. rewrite IH by (apply (Forall_inv_tail H)). reflexivity.
Qed.

Lemma mapM_wrap_norm dims m p : mapM (fun d => wrap_dim d m) dims = Ok p ->
  map (fun d => if 0 <=? d then d else Z.of_nat m + d) dims = map Z.of_nat p /\ Forall (fun i => (i < m)%nat) p
  /\ List.length p = List.length dims.
Proof.
  revert p. induction dims as [|d dims IH]; intros p H; cbn [mapM] in H.
  - injection H as <-. cbn. auto.
  - destruct (wrap_dim d m) as [i|] eqn:E; [|discriminate]. cbn [bind] in H.
    destruct (mapM _ dims) as [p0|] eqn:E2; [|discriminate]. cbn [bind] in H. injection H as <-.
    destruct (IH _ eq_refl) as [H1 [H2 H3]]. apply wrap_dim_ok in E. destruct E as [Hi Hd]. cbn [map List.length].
    split; [|split; [constructor; assumption|lia]]. f_equal; [|exact H1].
    destruct (0 <=? d) eqn:E3; destruct (d <? 0) eqn:E4; lia.
Qed.

Lemma existsb_eqb_false x l : ~ In x l -> existsb (Nat.eqb x) l = false.
Proof.
  induction l as [|y l IH]; intros H; [reflexivity|]. cbn. destruct (Nat.eqb x y) eqn:E.
  - apply Nat.eqb_eq in E. subst. exfalso. apply H. left. reflexivity.
  - apply IH. intros Hin. apply H. right. exact Hin.
Qed.

Lemma nodupb_seq k n : nodupb (seq k n) = true.
Proof.
  revert k. induction n as [|n IH]; intros k; [reflexivity|]. cbn [seq nodupb]. rewrite IH, andb_true_r.
  rewrite existsb_eqb_false; [reflexivity|]. intros H. apply in_seq in H. lia.
Qed.

Lemma nodupb_app a b : nodupb a = true -> nodupb b = true -> (forall x, In x a -> ~ In x b) -> nodupb (a ++ b) = true.
Proof.
  induction a as [|x a IH]; intros Ha Hb Hd; [exact Hb|]. cbn [app nodupb] in *.
  apply andb_true_iff in Ha. destruct Ha as [Hx Ha]. rewrite IH; [|exact Ha|exact Hb|intros y Hy; apply Hd; right; exact Hy].
  rewrite andb_true_r. rewrite existsb_app. apply negb_true_iff in Hx. rewrite Hx. cbn.
  rewrite existsb_eqb_false; [reflexivity|]. apply Hd. left. reflexivity.
Qed.

Lemma is_perm_extend p m : is_perm p -> (List.length p <= m)%nat ->
  is_perm (p ++ seq (List.length p) (m - List.length p)) /\ List.length (p ++ seq (List.length p) (m - List.length p)) = m.
Proof.
  intros [Hn Hf] Hm. assert (Hl : List.length (p ++ seq (List.length p) (m - List.length p)) = m)
    by (rewrite app_length, seq_length; lia).
  split; [|exact Hl]. split.
  - apply nodupb_app; [exact Hn|apply nodupb_seq|]. intros x Hx Hs. apply in_seq in Hs.
    rewrite Forall_forall in Hf. specialize (Hf x Hx). lia.
  - rewrite Hl. apply Forall_app. split.
    + rewrite Forall_forall in *. intros x Hx. specialize (Hf x Hx). lia.
    + rewrite Forall_forall. intros x Hx. apply in_seq in Hx. lia.
Qed.

Lemma map_nth_seq (l : list Z) k : (k <= List.length l)%nat -> map (nthZ l) (seq k (List.length l - k)) = skipn k l.
Proof.
  intros Hk. apply (list_ext_nth _ _ (nthZ l 0)).
  - rewrite map_length, seq_length, skipn_length. reflexivity.
  - intros j Hj. rewrite map_length, seq_length in Hj. rewrite nth_skipn.
    rewrite map_nth. rewrite seq_nth by lia. unfold nthZ. apply nth_indep. lia.
Qed.

Lemma map_nthZ_app_l bs tl p : Forall (fun i => (i < List.length bs)%nat) p -> map (nthZ (bs ++ tl)) p = map (nthZ bs) p.
Proof.
  intros H. apply map_ext_in. intros i Hi. rewrite Forall_forall in H. apply nthZ_app_l. apply H. exact Hi.
Qed.

(* the value of a (prefix) permutation on a shape bs ++ tl *)
Lemma perm_value p bs tl : is_perm p -> (List.length p <= List.length bs)%nat ->
  map (nthZ (bs ++ tl)) (p ++ seq (List.length p) (List.length bs + List.length tl - List.length p))
  = (map (nthZ bs) p ++ skipn (List.length p) bs) ++ tl.
Proof.
  intros [Hn Hf] Hk. rewrite map_app. rewrite map_nthZ_app_l.
  2:{ rewrite Forall_forall in *. intros x Hx. specialize (Hf x Hx). lia. }
  rewrite <- app_length. rewrite map_nth_seq by (rewrite app_length; lia). rewrite skipn_app_l by lia.
  rewrite app_assoc. reflexivity.
Qed.

Lemma rangeZ_seq k m : rangeZ k m = map Z.of_nat (seq k (m - k)).
Proof. reflexivity. Qed.

Lemma Kleaf_n_permute p bs tl : is_perm p -> (List.length p <= List.length bs)%nat ->
  leaf_op (OPermute (map Z.of_nat p ++ rangeZ (List.length p) (List.length bs + List.length tl))) (bs ++ tl)
  = Done ((map (nthZ bs) p ++ skipn (List.length p) bs) ++ tl).
Proof.
  intros Hp Hk. cbn [leaf_op]. unfold t_permute. rewrite rangeZ_seq, <- map_app.
  destruct (is_perm_extend p (List.length bs + List.length tl) Hp ltac:(lia)) as [[Hn Hf] Hl].
  rewrite map_length, Hl, app_length, Nat.eqb_refl. cbn [negb].
  rewrite mapM_wrap_nat by (rewrite Hl in Hf; exact Hf). cbn [bind]. rewrite Hn. cbn [lift].
  rewrite perm_value by assumption. reflexivity.
Qed.

Lemma map_norm_nat q m : map (fun d => if 0 <=? d then d else Z.of_nat m + d) (map Z.of_nat q) = map Z.of_nat q.
Proof. rewrite map_map. apply map_ext. intros i. destruct (0 <=? Z.of_nat i) eqn:E; [reflexivity|lia]. Qed.

Lemma existsb_range_false q m : Forall (fun i => (i < m)%nat) q ->
  existsb (fun d => (d <? 0) || (Z.of_nat m <=? d)) (map Z.of_nat q) = false.
Proof.
  induction q as [|x q IH]; intros H; [reflexivity|]. cbn. rewrite IH by (apply (Forall_inv_tail H)).
  pose proof (Forall_inv H) as Hx. cbn in Hx. destruct (Z.of_nat x <? 0) eqn:E1; [lia|].
  destruct (Z.of_nat m <=? Z.of_nat x) eqn:E2; [lia|]. reflexivity.
Qed.

Lemma forallb_lt_len q : Forall (fun i => (i < List.length q)%nat) q ->
  forallb (fun d => d <? len (map Z.of_nat q)) (map Z.of_nat q) = true.
Proof.
  unfold len. rewrite map_length. generalize (List.length q) as m. intros m H.
  induction q as [|x q IH]; [reflexivity|]. cbn. rewrite IH by (apply (Forall_inv_tail H)).
  pose proof (Forall_inv H) as Hx. cbn in Hx. destruct (Z.of_nat x <? Z.of_nat m) eqn:E; [reflexivity|lia].
Qed.

Lemma map_to_nat_of_nat q : map Z.to_nat (map Z.of_nat q) = q.
Proof. rewrite map_map. rewrite <- (map_id q) at 2. apply map_ext. intros. apply Nat2Z.id. Qed.

Lemma is_identity_seq q : is_identity (map Z.of_nat q) = true -> q = seq 0 (List.length q).
Proof.
  unfold is_identity. intros H. apply list_eqb_eq in H. rewrite map_length in H.
  rewrite <- (map_to_nat_of_nat q) at 1. rewrite H. apply map_to_nat_of_nat.
Qed.

Lemma map_nth_seq0 (l : list Z) : map (nthZ l) (seq 0 (List.length l)) = l.
Proof. pose proof (map_nth_seq l 0 ltac:(lia)) as H. rewrite Nat.sub_0_r in H. exact H. Qed.

(* the node step of permute on a full-length, normalised permutation *)
Lemma node_permute_nat q B nm : is_perm q -> List.length q = List.length B ->
  (node_step (OPermute (map Z.of_nat q)) B nm = Done SSelf /\ map (nthZ B) q = B) \/
  (exists nm', node_step (OPermute (map Z.of_nat q)) B nm =
     Done (SStep (map (nthZ B) q) nm'
                 (fun csh => OPermute (map Z.of_nat q ++ rangeZ (List.length q) (List.length csh))))
     /\ (names_wf nm B -> names_wf nm' (map (nthZ B) q))).
Proof.
  intros [Hn Hf] Hl. cbn [node_step]. rewrite map_norm_nat.
  rewrite existsb_range_false by (rewrite <- Hl; exact Hf).
  rewrite map_to_nat_of_nat, forallb_lt_len, Hn by exact Hf. cbn [andb negb].
  destruct (is_identity (map Z.of_nat q)) eqn:E.
  - left. split; [reflexivity|]. apply is_identity_seq in E. rewrite E, Hl. apply map_nth_seq0.
  - right. rewrite map_length, Hl, skipn_all, app_nil_r. eexists. split; [reflexivity|].
    intros Hw. destruct nm as [l|]; cbn [has_names names_wf]; [|exact I]. change fixed_C02k with true. cbv iota.
    cbn [names_list]. cbn in Hw. rewrite app_length, !map_length, skipn_length. lia.
Qed.

Lemma node_permute_raw dims bs nm p : mapM (fun d => wrap_dim d (List.length bs)) dims = Ok p ->
  node_step (OPermute dims) bs nm = node_step (OPermute (map Z.of_nat p)) bs nm.
Proof.
  intros H. apply mapM_wrap_norm in H. destruct H as [H _]. cbn [node_step]. rewrite map_norm_nat, H. reflexivity.
Qed.

Lemma permute_norm bs dims bs' : t_permute bs dims = Ok bs' ->
  exists p, mapM (fun d => wrap_dim d (List.length bs)) dims = Ok p /\ is_perm p /\ List.length p = List.length bs
            /\ bs' = map (nthZ bs) p.
Proof.
  unfold t_permute. destruct (Nat.eqb (List.length dims) (List.length bs)) eqn:E; [|discriminate]. cbn [negb].
  destruct (mapM _ dims) as [p|] eqn:E2; [|discriminate]. cbn [bind]. destruct (nodupb p) eqn:E3; [|discriminate].
  intros H. injection H as <-. exists p. apply Nat.eqb_eq in E. destruct (mapM_wrap_norm _ _ _ E2) as [_ [Hf Hl]].
  split; [reflexivity|]. split; [split; [exact E3|rewrite Hl, E; exact Hf]|]. split; [lia|reflexivity].
Qed.

(* ------------------------------------------------------------------ squeeze(): entries viewed, nested nodes squeezed dim by dim *)
Definition pos1 (k : nat) (l : list Z) : list nat :=
  map fst (filter (fun p => snd p =? 1) (combine (seq k (List.length l)) l)).

Lemma singletons_desc_pos1 bs : singletons_desc bs = rev (pos1 0 bs).
Proof. reflexivity. Qed.

Lemma pos1_cons k x l : pos1 k (x :: l) = (if x =? 1 then [k] else []) ++ pos1 (S k) l.
Proof. unfold pos1. cbn [List.length seq combine filter snd]. destruct (x =? 1); reflexivity. Qed.

Definition leaf_chain (ds : list nat) (sh : list Z) : out (list Z) :=
  (fix go (l : list nat) (cur : list Z) : out (list Z) :=
     match l with
     | [] => Done cur
     | i :: r => let* nxt := lift EIndex (t_squeeze_dim cur (Z.of_nat i)) in go r nxt
     end) ds sh.

Lemma leaf_chain_app a b sh : leaf_chain (a ++ b) sh = let* c := leaf_chain a sh in leaf_chain b c.
Proof.
  revert sh. induction a as [|i a IH]; intros sh; [reflexivity|]. cbn [app leaf_chain].
  destruct (lift EIndex (t_squeeze_dim sh (Z.of_nat i))) as [nxt| | |]; cbn [bindo]; try reflexivity. apply IH.
Qed.

Lemma t_squeeze_dim_one pre x rest : x = 1 ->
  t_squeeze_dim (pre ++ x :: rest) (Z.of_nat (List.length pre)) = Ok (pre ++ rest).
Proof.
  intros ->. unfold t_squeeze_dim. rewrite wrap_dim_scalar_pos by (rewrite app_length; cbn; lia).
  rewrite wrap_dim_nat by (rewrite app_length; cbn; lia). cbn [bind].
  destruct (pre ++ 1 :: rest) eqn:E; [destruct pre; discriminate|]. rewrite <- E.
  rewrite nthZ_app_r by lia. rewrite Nat.sub_diag. cbn [nthZ nth]. cbn.
  unfold remove_nth. rewrite firstn_app, firstn_all, Nat.sub_diag. cbn [firstn]. rewrite app_nil_r.
  rewrite skipn_app. rewrite skipn_all2 by lia. replace (S (List.length pre) - List.length pre)%nat with 1%nat by lia. reflexivity.
Qed.

(* the leaf chain over the singleton positions of l (offset = length pre) removes exactly the 1s of l *)
Lemma leaf_chain_pos1 l : forall pre tl,
  leaf_chain (rev (pos1 (List.length pre) l)) (pre ++ l ++ tl) = Done (pre ++ no1 l ++ tl).
Proof.
  induction l as [|x l IH]; intros pre tl; [reflexivity|].
  rewrite pos1_cons, rev_app_distr, leaf_chain_app.
  replace (pre ++ (x :: l) ++ tl) with ((pre ++ [x]) ++ l ++ tl) by (rewrite <- app_assoc; reflexivity).
  replace (S (List.length pre)) with (List.length (pre ++ [x])) by (rewrite app_length; cbn; lia).
  rewrite IH. cbn [bindo]. unfold no1. cbn [filter]. destruct (x =? 1) eqn:E; cbn [negb rev app leaf_chain].
  - rewrite <- app_assoc. cbn [app]. rewrite t_squeeze_dim_one by lia. reflexivity.
  - rewrite <- app_assoc. reflexivity.
Qed.

Lemma squeeze_chain_app a b bs nl done :
  squeeze_chain (a ++ b) bs nl done =
  let* r := squeeze_chain a bs nl done in let '(bs1, nl1, sq) := r in squeeze_chain b bs1 nl1 (rev sq).
Proof.
  revert bs nl done. induction a as [|i a IH]; intros bs nl done.
  - cbn [app squeeze_chain bindo]. rewrite rev_involutive. reflexivity.
  - cbn [app squeeze_chain]. destruct (List.length bs <=? i)%nat; [reflexivity|].
    destruct (nthZ bs i =? 1); apply IH.
Qed.

Lemma remove_nth_mid {A} (pre : list A) x rest : remove_nth (List.length pre) (pre ++ x :: rest) = pre ++ rest.
Proof.
  unfold remove_nth. rewrite firstn_app, firstn_all, Nat.sub_diag. cbn [firstn]. rewrite app_nil_r.
  rewrite skipn_app. rewrite skipn_all2 by lia. replace (S (List.length pre) - List.length pre)%nat with 1%nat by lia. reflexivity.
Qed.

(* the node chain: same sizes; the names shrink with the sizes; every listed position is squeezed *)
Lemma squeeze_chain_pos1 l : forall pre tl nl done, List.length nl = List.length (pre ++ l ++ tl) ->
  exists nl', squeeze_chain (rev (pos1 (List.length pre) l)) (pre ++ l ++ tl) nl done
              = Done (pre ++ no1 l ++ tl, nl', rev done ++ rev (pos1 (List.length pre) l))
              /\ List.length nl' = List.length (pre ++ no1 l ++ tl).
Proof.
  induction l as [|x l IH]; intros pre tl nl done Hl.
  - exists nl. cbn [pos1 List.length seq combine filter map rev squeeze_chain]. rewrite app_nil_r. split; [reflexivity|exact Hl].
  - rewrite pos1_cons, rev_app_distr, squeeze_chain_app.
    replace (pre ++ (x :: l) ++ tl) with ((pre ++ [x]) ++ l ++ tl) in * by (rewrite <- app_assoc; reflexivity).
    replace (S (List.length pre)) with (List.length (pre ++ [x])) by (rewrite app_length; cbn; lia).
    destruct (IH (pre ++ [x]) tl nl done Hl) as [nl1 [H1 Hl1]]. rewrite H1. cbn [bindo].
    rewrite rev_app_distr, rev_involutive. unfold no1 in *. cbn [filter]. destruct (x =? 1) eqn:E; cbn [negb rev app squeeze_chain].
    + rewrite <- !app_assoc in *. cbn [app] in *.
      assert (Hlen : Nat.leb (List.length (pre ++ x :: filter (fun x0 => negb (x0 =? 1)) l ++ tl)) (List.length pre) = false)
        by (apply Nat.leb_gt; rewrite app_length; cbn; lia).
      rewrite Hlen. rewrite nthZ_app_r by lia. rewrite Nat.sub_diag. cbn [nthZ nth]. rewrite E.
      rewrite remove_nth_mid. cbn [squeeze_chain rev app]. eexists. split.
      * rewrite rev_app_distr, rev_involutive. cbn [rev app]. rewrite <- app_assoc. reflexivity.
      * rewrite remove_nth_length by (rewrite Hl1, app_length; cbn; lia). rewrite Hl1, !app_length. cbn [List.length]. rewrite !app_length. lia.
    + rewrite <- !app_assoc in *. cbn [app] in *. exists nl1. split; [|exact Hl1].
      rewrite rev_app_distr, rev_involutive, app_nil_r. reflexivity.
Qed.

Lemma no1_nonneg bs : nonneg bs -> nonneg (no1 bs).
Proof. apply nonneg_filter. Qed.

Lemma prodZ_no1 bs : prodZ (no1 bs) = prodZ bs.
Proof. apply prodZ_filter1. Qed.

Lemma pos1_nil_no1 l k : pos1 k l = [] -> no1 l = l.
Proof.
  revert k. induction l as [|x l IH]; intros k H; [reflexivity|]. rewrite pos1_cons in H. unfold no1 in *. cbn [filter].
  destruct (x =? 1); [discriminate|]. cbn [negb]. f_equal. eapply IH. exact H.
Qed.

Lemma node_sqdims o bs tl nm :
  (forall b n, node_step o b n = node_step (OSqueezeDims (singletons_desc bs)) b n) ->
  names_wf nm (bs ++ tl) ->
  (node_step o (bs ++ tl) nm = Done SSelf /\ no1 bs = bs) \/
  (exists nm', node_step o (bs ++ tl) nm = Done (SStep (no1 bs ++ tl) nm' (fun _ => OSqueezeDims (singletons_desc bs)))
               /\ names_wf nm' (no1 bs ++ tl)).
Proof.
  intros Ho Hw. rewrite Ho. cbn [node_step]. rewrite singletons_desc_pos1.
  destruct (squeeze_chain_pos1 bs [] tl (names_list nm (List.length (bs ++ tl))) [] (names_list_length nm _ Hw)) as [nl' [Hc Hl]].
  cbn [List.length app rev] in Hc, Hl. rewrite Hc. cbn [bindo].
  destruct (rev (pos1 0 bs)) as [|d0 ds] eqn:E.
  - left. split; [reflexivity|]. apply (pos1_nil_no1 bs 0%nat). destruct (pos1 0 bs) as [|y ys]; [reflexivity|].
    cbn [rev] in E. destruct (rev ys); discriminate.
  - right. eexists. split; [reflexivity|]. destruct nm as [l|]; cbn [has_names names_wf]; [exact Hl|exact I].
Qed.

(* ================================================================== the three closure properties of K *)
Lemma nonneg_map_nth bs p : nonneg bs -> nonneg (map (nthZ bs) p).
Proof. intros H. unfold nonneg. rewrite Forall_forall. intros x Hx. apply in_map_iff in Hx. destruct Hx as [i [<- _]]. apply nonneg_nth. exact H. Qed.

Lemma nonneg_flat bs i j : nonneg bs -> nonneg (flat bs i j).
Proof.
  intros H. unfold flat. apply nonneg_app. split; [apply nonneg_firstn; exact H|]. apply nonneg_cons. split.
  - apply prodZ_nonneg, nonneg_firstn, nonneg_skipn. exact H.
  - apply nonneg_skipn. exact H.
Qed.

Theorem K_is_nonneg : K_nonneg K.
Proof.
  intros o bs bs' tl HK Hn. destruct HK.
  - apply permute_norm in H. destruct H as [p [_ [_ [_ ->]]]]. apply nonneg_map_nth. exact Hn.
  - apply nonneg_app. split; [apply nonneg_map_nth|apply nonneg_skipn]; exact Hn.
  - apply transpose_norm in H0; [|exact H]. destruct H0 as [i [j [_ [_ ->]]]]. apply nonneg_swap. exact Hn.
  - apply nonneg_swap. exact Hn.
  - apply squeeze_norm in H0; [|exact H]. destruct H0 as [i [_ ->]]. destruct (nthZ bs i =? 1); [apply nonneg_remove|]; exact Hn.
  - apply nonneg_remove. exact Hn.
  - unfold t_squeeze_all in H. injection H as <-. apply nonneg_filter. exact Hn.
  - apply no1_nonneg. exact Hn.
  - apply nonneg_app in Hn. apply nonneg_app. split; [apply no1_nonneg|]; tauto.
  - apply unsqueeze_norm in H. destruct H as [i [_ ->]]. apply nonneg_insert; [lia|exact Hn].
  - apply nonneg_insert; [lia|exact Hn].
  - destruct (t_expand_result bs shape bs' H Hn) as [Hok _]. exact (proj1 Hok).
  - destruct H as [H _]. exact H.
  - destruct (view_target bs shape bs' Hn H) as [_ [Hr _]]. exact Hr.
  - assumption.
  - destruct (view_target bs shape bs' Hn H) as [_ [Hr _]]. exact Hr.
  - assumption.
  - subst. apply nonneg_flat. exact Hn.
  - apply nonneg_flat. exact Hn.
  - destruct (unflatten_norm_any bs d sizes bs' Hn H) as [i [sz [_ [_ [Hsz [_ [-> _]]]]]]].
    apply nonneg_app. split; [apply nonneg_firstn; exact Hn|]. apply nonneg_app. split; [exact Hsz|apply nonneg_skipn; exact Hn].
  - apply nonneg_app. split; [apply nonneg_firstn; exact Hn|]. apply nonneg_app. split; [assumption|apply nonneg_skipn; exact Hn].
  - apply repeat_norm in H; [|exact H0]. tauto.
  - assumption.
  - apply repint_norm in H0; [|exact H]. destruct H0 as [Hr [i [_ ->]]]. apply nonneg_set; [|exact Hn].
    pose proof (nonneg_nth bs i Hn). nia.
  - apply nonneg_set; [|exact Hn]. pose proof (nonneg_nth bs i Hn). nia.
Qed.

Theorem K_is_leaf : K_leaf K.
Proof.
  intros o bs bs' tl HK Hn. destruct HK; rewrite ?app_nil_r in *.
  - cbn [leaf_op]. rewrite H. reflexivity.
  - apply Kleaf_n_permute; assumption.
  - cbn [leaf_op]. rewrite H0. reflexivity.
  - apply Kleaf_n_transpose; assumption.
  - cbn [leaf_op]. rewrite H0. reflexivity.
  - apply Kleaf_n_squeeze; assumption.
  - cbn [leaf_op]. rewrite H. reflexivity.
  - cbn [leaf_op]. rewrite skipn_app_exact. rewrite t_view_app; [reflexivity|symmetry; apply prodZ_no1|].
    apply nonneg_app in Hn. apply nonneg_app. split; [apply no1_nonneg|]; tauto.
  - change (leaf_op (OSqueezeDims (singletons_desc bs)) ((bs ++ mid) ++ tl))
      with (leaf_chain (singletons_desc bs) ((bs ++ mid) ++ tl)).
    rewrite singletons_desc_pos1, <- app_assoc. pose proof (leaf_chain_pos1 bs [] (mid ++ tl)) as HL.
    cbn [List.length app] in HL. rewrite HL, app_assoc. reflexivity.
  - cbn [leaf_op]. rewrite H. reflexivity.
  - apply Kleaf_n_unsqueeze; assumption.
  - cbn [leaf_op]. rewrite H. reflexivity.
  - cbn [leaf_op]. destruct H as [Hn' H]. rewrite t_expand_app; [reflexivity| |exact Hn'|exact H]. apply nonneg_app in Hn. tauto.
  - cbn [leaf_op]. rewrite H. reflexivity.
  - cbn [leaf_op]. rewrite t_view_app; [reflexivity|exact H|]. apply nonneg_app. apply nonneg_app in Hn. tauto.
  - cbn [leaf_op]. rewrite H. reflexivity.
  - cbn [leaf_op]. unfold t_reshape. rewrite t_view_app; [reflexivity|exact H|]. apply nonneg_app. apply nonneg_app in Hn. tauto.
  - subst. pose proof (Kleaf_n_flatten i j bs [] H2 ltac:(apply wrap_dim_ok in H1; tauto)) as HL.
    rewrite !app_nil_r in HL. cbn [leaf_op] in *. unfold t_flatten in *.
    rewrite !wrap_dim_scalar_pos in * by (destruct bs; [congruence|cbn; lia]).
    rewrite H0, H1. rewrite !wrap_dim_nat in HL by (apply wrap_dim_ok in H0, H1; lia). exact HL.
  - apply Kleaf_n_flatten; assumption.
  - cbn [leaf_op]. rewrite H. reflexivity.
  - apply Kleaf_n_unflatten; assumption.
  - rewrite leaf_repeat_any, H. reflexivity.
  - apply Kleaf_n_repeat; try assumption. apply nonneg_app in Hn. tauto.
  - cbn [leaf_op]. rewrite H0. reflexivity.
  - apply Kleaf_n_repint; assumption.
Qed.

Ltac nilr := repeat (rewrite app_nil_r in * ).
Ltac no_check Hnw := intros ents'; eexists; split; [reflexivity|exact Hnw].

Theorem K_is_node : K_node K.
Proof.
  intros o bs bs' tl nm HK Hn Hw. destruct HK.
  - (* permute, root call *)
    nilr. apply permute_norm in H. destruct H as [p [Hm [Hp [Hl ->]]]].
    rewrite (node_permute_raw _ _ _ _ Hm).
    destruct (node_permute_nat p bs nm Hp Hl) as [[Hs He]|[nm' [Hs Hnw]]].
    + left. split; [exact Hs|exact He].
    + right. exists nm'. eexists. split; [exact Hs|]. split.
      * intros tl2 Hn2. cbn beta. cbn [app]. rewrite app_length.
        pose proof (Kn_permute p bs tl2 Hp ltac:(lia)) as HK. rewrite Hl, skipn_all, app_nil_r in HK. rewrite Hl. exact HK.
      * no_check (Hnw Hw).
  - (* permute, entry call *)
    destruct (is_perm_extend p (List.length bs + List.length tl) H ltac:(lia)) as [Hq Hlq].
    set (q := p ++ seq (List.length p) (List.length bs + List.length tl - List.length p)) in *.
    assert (Hfull : map Z.of_nat p ++ rangeZ (List.length p) (List.length bs + List.length tl) = map Z.of_nat q)
      by (rewrite rangeZ_seq, <- map_app; reflexivity).
    rewrite Hfull. assert (Hlq' : List.length q = List.length (bs ++ tl)) by (rewrite app_length; exact Hlq).
    pose proof (perm_value p bs tl H H0) as Hv. fold q in Hv.
    destruct (node_permute_nat q (bs ++ tl) nm Hq Hlq') as [[Hs He]|[nm' [Hs Hnw]]].
    + left. split; [exact Hs|]. rewrite Hv in He. apply app_inv_tail in He. exact He.
    + right. exists nm'. eexists. rewrite Hv in Hs. split; [exact Hs|]. split.
      * intros tl2 Hn2. cbn beta. rewrite !app_length.
        pose proof (Kn_permute q (bs ++ tl) tl2 Hq ltac:(lia)) as HK.
        rewrite Hlq', skipn_all, app_nil_r, Hv in HK. rewrite Hlq', app_length in *. 
        replace (List.length bs + (List.length tl + List.length tl2))%nat
          with (List.length bs + List.length tl + List.length tl2)%nat by lia. exact HK.
      * rewrite Hv in Hnw. no_check (Hnw Hw).
  - (* transpose, root call *)
    nilr. apply transpose_norm in H0; [|exact H]. destruct H0 as [i [j [Hi [Hj ->]]]].
    pose proof (wrap_dim_ok _ _ _ Hi) as [Hi1 Hi2]. pose proof (wrap_dim_ok _ _ _ Hj) as [Hj1 Hj2].
    assert (Hraw : node_step (OTranspose a b) bs nm =
                   if Nat.eqb (Nat.min i j) (Nat.max i j) then Done SSelf
                   else node_step (OTranspose (Z.of_nat (Nat.min i j)) (Z.of_nat (Nat.max i j))) bs nm).
    { cbn [node_step].
      replace (if a <? 0 then Z.of_nat (List.length bs) + a else a) with (Z.of_nat i) by (destruct (a <? 0); lia).
      replace (if b <? 0 then Z.of_nat (List.length bs) + b else b) with (Z.of_nat j) by (destruct (b <? 0); lia).
      destruct (Z.of_nat (Nat.min i j) <? 0) eqn:E1; [lia|]. destruct (Z.of_nat (Nat.max i j) <? 0) eqn:E2; [lia|].
      destruct ((Z.of_nat i <? 0) || (Z.of_nat j <? 0) || (Z.of_nat (List.length bs) <=? Z.of_nat i)
                || (Z.of_nat (List.length bs) <=? Z.of_nat j)) eqn:E3; [lia|].
      destruct ((Z.of_nat (Nat.min i j) <? 0) || (Z.of_nat (Nat.max i j) <? 0)
                || (Z.of_nat (List.length bs) <=? Z.of_nat (Nat.min i j))
                || (Z.of_nat (List.length bs) <=? Z.of_nat (Nat.max i j))) eqn:E4; [lia|].
      replace (Z.min (Z.of_nat i) (Z.of_nat j)) with (Z.of_nat (Nat.min i j)) by lia.
      replace (Z.max (Z.of_nat i) (Z.of_nat j)) with (Z.of_nat (Nat.max i j)) by lia.
      replace (Z.min (Z.of_nat (Nat.min i j)) (Z.of_nat (Nat.max i j))) with (Z.of_nat (Nat.min i j)) by lia.
      replace (Z.max (Z.of_nat (Nat.min i j)) (Z.of_nat (Nat.max i j))) with (Z.of_nat (Nat.max i j)) by lia.
      rewrite !Nat2Z.id. destruct (Nat.eqb (Nat.min i j) (Nat.max i j)); reflexivity. }
    rewrite Hraw. destruct (Nat.eqb (Nat.min i j) (Nat.max i j)) eqn:E.
    + apply Nat.eqb_eq in E. assert (i = j) by lia. subst j. left. split; [reflexivity|]. apply swap_nth_same. exact Hi1.
    + apply Nat.eqb_neq in E.
      destruct (node_transpose_nat (Nat.min i j) (Nat.max i j) bs nm ltac:(lia) ltac:(lia)) as [nm' [Hs Hnw]].
      assert (Hsw : swap_nth bs (Nat.min i j) (Nat.max i j) = swap_nth bs i j).
      { destruct (Nat.le_ge_cases i j) as [Hle|Hle].
        - rewrite Nat.min_l, Nat.max_r by lia. reflexivity.
        - rewrite Nat.min_r, Nat.max_l by lia. apply swap_nth_sym; lia. }
      rewrite Hsw in *. right. exists nm'. eexists. split; [exact Hs|]. split.
      * intros tl2 Hn2. cbn beta. pose proof (Kn_transpose (Nat.min i j) (Nat.max i j) bs tl2 ltac:(lia) ltac:(lia)) as HK.
        rewrite Hsw in HK. exact HK.
      * no_check (Hnw Hw).
  - (* transpose, entry call *)
    destruct (node_transpose_nat i j (bs ++ tl) nm H ltac:(rewrite app_length; lia)) as [nm' [Hs Hnw]].
    rewrite swap_nth_app_l in * by lia. right. exists nm'. eexists. split; [exact Hs|]. split.
    + intros tl2 Hn2. cbn beta. pose proof (Kn_transpose i j (bs ++ tl) tl2 H ltac:(rewrite app_length; lia)) as HK.
      rewrite swap_nth_app_l in HK by lia. exact HK.
    + no_check (Hnw Hw).
  - (* squeeze(dim), root call *)
    nilr. apply squeeze_norm in H0; [|exact H]. destruct H0 as [i [Hi ->]].
    pose proof (wrap_dim_ok _ _ _ Hi) as [Hi1 Hi2].
    destruct (nthZ bs i =? 1) eqn:E.
    + apply Z.eqb_eq in E. destruct (node_squeeze_nat i bs nm Hi1 E) as [nm' [Hs Hnw]].
      assert (Hraw : node_step (OSqueeze (Some d)) bs nm = node_step (OSqueeze (Some (Z.of_nat i))) bs nm).
      { cbn [node_step]. rewrite (correct_neg_dim_wrap _ _ _ Hi), correct_neg_dim_nat by lia. reflexivity. }
      rewrite Hraw. right. exists nm'. eexists. split; [exact Hs|]. split.
      * intros tl2 Hn2. cbn beta. apply Kn_squeeze; assumption.
      * no_check (Hnw Hw).
    + left. split; [|reflexivity]. cbn [node_step]. rewrite (correct_neg_dim_wrap _ _ _ Hi). cbn [bindo]. rewrite E. reflexivity.
  - (* squeeze(dim), entry call *)
    destruct (node_squeeze_nat i (bs ++ tl) nm ltac:(rewrite app_length; lia) ltac:(rewrite nthZ_app_l by lia; exact H0))
      as [nm' [Hs Hnw]].
    rewrite remove_nth_app_l in * by lia. right. exists nm'. eexists. split; [exact Hs|]. split.
    + intros tl2 Hn2. cbn beta.
      pose proof (Kn_squeeze i (bs ++ tl) tl2 ltac:(rewrite app_length; lia) ltac:(rewrite nthZ_app_l by lia; exact H0)) as HK.
      rewrite remove_nth_app_l in HK by lia. exact HK.
    + no_check (Hnw Hw).
  - (* squeeze(), root call *)
    nilr. unfold t_squeeze_all in *.
    match goal with H : Ok _ = Ok _ |- _ => injection H as <- end.
    fold (no1 bs). pose proof (names_list_length nm bs Hw) as Hnl.
    cbn [node_step]. fold (no1 bs). destruct (list_eqb (no1 bs) bs) eqn:E.
    + left. split; [reflexivity|apply list_eqb_eq; exact E].
    + right. eexists. eexists. split; [reflexivity|]. split.
      * intros tl2 Hn2. cbn beta. apply Kn_sqchild.
      * intros ents'. eexists. split; [reflexivity|]. destruct (has_names nm); [|exact I].
        pose proof (squeeze_pairs_fst bs _ Hnl) as Hp. fold (no1 bs) in Hp.
        destruct (map snd (squeeze_pairs bs (names_list nm (List.length bs)))) as [|y ys] eqn:E2; [exact I|].
        cbn [names_wf]. rewrite <- E2, <- Hp, !map_length. reflexivity.
  - (* the entry call of squeeze(): view on tensors, squeeze dim by dim on nested tensordicts *)
    destruct (node_sqdims (OSqueezeAllChild (no1 bs) (List.length bs) (singletons_desc bs)) bs tl nm ltac:(reflexivity) Hw)
      as [[Hs He]|[nm' [Hs Hnw]]].
    + left. split; assumption.
    + right. exists nm'. eexists. split; [exact Hs|]. split.
      * intros tl2 Hn2. cbn beta. apply Kn_sqdims.
      * no_check Hnw.
  - (* squeeze dim by dim on a nested tensordict *)
    rewrite <- !app_assoc in *.
    destruct (node_sqdims (OSqueezeDims (singletons_desc bs)) bs (mid ++ tl) nm ltac:(reflexivity) Hw)
      as [[Hs He]|[nm' [Hs Hnw]]].
    + left. split; [exact Hs|]. rewrite He. reflexivity.
    + right. exists nm'. eexists. split; [exact Hs|]. split.
      * intros tl2 Hn2. cbn beta. pose proof (Kn_sqdims bs (mid ++ tl) tl2) as HK. exact HK.
      * no_check Hnw.
  - (* unsqueeze, root call *)
    nilr. apply unsqueeze_norm in H. destruct H as [i [Hi ->]].
    pose proof (wrap_dim_ok _ _ _ Hi) as [Hi1 Hi2]. rewrite (node_unsqueeze_raw _ _ _ _ Hi).
    destruct (node_unsqueeze_nat i bs nm ltac:(lia)) as [nm' [Hs Hnw]].
    right. exists nm'. eexists. split; [exact Hs|]. split.
    + intros tl2 Hn2. cbn beta. apply Kn_unsqueeze. lia.
    + no_check (Hnw Hw).
  - (* unsqueeze, entry call *)
    destruct (node_unsqueeze_nat i (bs ++ tl) nm ltac:(rewrite app_length; lia)) as [nm' [Hs Hnw]].
    rewrite insert_nth_app_l in * by lia. right. exists nm'. eexists. split; [exact Hs|]. split.
    + intros tl2 Hn2. cbn beta. pose proof (Kn_unsqueeze i (bs ++ tl) tl2 ltac:(rewrite app_length; lia)) as HK.
      rewrite insert_nth_app_l in HK by lia. exact HK.
    + no_check (Hnw Hw).
  - (* expand, root call: -1 is resolved against the batch dim *)
    nilr. destruct (t_expand_result bs shape bs' H Hn) as [Hok Hraw]. rewrite Hraw.
    destruct (node_expand_ok bs bs' nm Hok) as [nm' [Hs Hnw]].
    right. exists nm'. eexists. split; [exact Hs|]. split.
    + intros tl2 Hn2. cbn [app]. cbv beta zeta. rewrite (Knode_expand_child bs' (bs ++ tl2) bs tl2 eq_refl). apply Kn_expand. exact Hok.
    + no_check (Hnw Hw).
  - (* expand, entry call *)
    assert (Hnt : nonneg tl) by (apply nonneg_app in Hn; tauto).
    pose proof (expand_ok_app bs bs' tl Hnt H) as Hok.
    destruct (node_expand_ok (bs ++ tl) (bs' ++ tl) nm Hok) as [nm' [Hs Hnw]].
    right. exists nm'. eexists. split; [exact Hs|]. split.
    + intros tl2 Hn2. cbv beta zeta. rewrite (Knode_expand_child (bs' ++ tl) (bs ++ tl ++ tl2) (bs ++ tl) tl2 ltac:(rewrite app_assoc; reflexivity)).
      apply Kn_expand. exact Hok.
    + no_check (Hnw Hw).
  - (* view, root call: any target torch accepts, -1 included *)
    nilr. destruct (view_target bs shape bs' Hn H) as [_ [Hnb Hp]].
    destruct (node_view_any OView OView shape bs bs' nm ltac:(reflexivity) Hn H) as [[Hs He]|Hs].
    + left. split; [exact Hs|exact He].
    + right. eexists. eexists. split; [exact Hs|]. split.
      * intros tl2 Hn2. cbn beta. cbn [app]. rewrite skipn_app_exact. apply Kn_view; assumption.
      * no_check I.
  - (* view, entry call *)
    assert (Hnn : nonneg (bs' ++ tl)) by (apply nonneg_app; apply nonneg_app in Hn; tauto).
    destruct (node_view_nonneg OView OView (bs' ++ tl) (bs ++ tl) nm ltac:(reflexivity) Hnn) as [[Hs He]|[Hs Hne]].
    + left. split; [exact Hs|]. apply app_inv_tail in He. exact He.
    + right. eexists. eexists. split; [exact Hs|]. split.
      * intros tl2 Hn2. cbn beta. rewrite app_assoc, skipn_app_exact. apply Kn_view; [rewrite !prodZ_app; lia|exact Hnn].
      * no_check I.
  - (* reshape, root call *)
    nilr. destruct (view_target bs shape bs' Hn H) as [_ [Hnb Hp]].
    destruct (node_view_any OReshape OReshape shape bs bs' nm ltac:(reflexivity) Hn H) as [[Hs He]|Hs].
    + left. split; [exact Hs|exact He].
    + right. eexists. eexists. split; [exact Hs|]. split.
      * intros tl2 Hn2. cbn beta. cbn [app]. rewrite skipn_app_exact. apply Kn_reshape; assumption.
      * no_check I.
  - (* reshape, entry call *)
    assert (Hnn : nonneg (bs' ++ tl)) by (apply nonneg_app; apply nonneg_app in Hn; tauto).
    destruct (node_view_nonneg OReshape OReshape (bs' ++ tl) (bs ++ tl) nm ltac:(reflexivity) Hnn) as [[Hs He]|[Hs Hne]].
    + left. split; [exact Hs|]. apply app_inv_tail in He. exact He.
    + right. eexists. eexists. split; [exact Hs|]. split.
      * intros tl2 Hn2. cbn beta. rewrite app_assoc, skipn_app_exact. apply Kn_reshape; [rewrite !prodZ_app; lia|exact Hnn].
      * no_check I.
  - (* flatten, root call *)
    nilr. subst bs'.
    pose proof (wrap_dim_ok _ _ _ H0) as [Hi1 Hi2]. pose proof (wrap_dim_ok _ _ _ H1) as [Hj1 Hj2].
    assert (Hraw : node_step (OFlatten a b) bs nm = node_step (OFlatten (Z.of_nat i) (Z.of_nat j)) bs nm).
    { cbn [node_step].
      replace (if a <? 0 then Z.of_nat (List.length bs) + a else a) with (Z.of_nat i) by (destruct (a <? 0); lia).
      replace (if b <? 0 then Z.of_nat (List.length bs) + b else b) with (Z.of_nat j) by (destruct (b <? 0); lia).
      destruct (Z.of_nat i <? 0) eqn:E1; [lia|]. destruct (Z.of_nat j <? 0) eqn:E2; [lia|].
      cbv iota. rewrite ?E1, ?E2. cbn [andb]. rewrite ?andb_false_r. reflexivity. }
    rewrite Hraw. destruct (node_flatten_nat i j bs nm H2 Hj1) as [nm' [Hs Hnw]].
    right. exists nm'. eexists. split; [exact Hs|]. split.
    + intros tl2 Hn2. cbn beta. apply Kn_flatten; assumption.
    + no_check (Hnw Hw).
  - (* flatten, entry call *)
    destruct (node_flatten_nat i j (bs ++ tl) nm H ltac:(rewrite app_length; lia)) as [nm' [Hs Hnw]].
    rewrite flat_app in * by lia. right. exists nm'. eexists. split; [exact Hs|]. split.
    + intros tl2 Hn2. cbn beta. pose proof (Kn_flatten i j (bs ++ tl) tl2 H ltac:(rewrite app_length; lia)) as HK.
      rewrite flat_app in HK by lia. exact HK.
    + no_check (Hnw Hw).
  - (* unflatten, root call: -1 in the sizes is inferred first *)
    nilr. destruct (unflatten_norm_any bs d sizes bs' Hn H) as [i [sz [Hi [Hne [Hsz [Hp [-> Hinf]]]]]]].
    pose proof (wrap_dim_ok _ _ _ Hi) as [Hi1 Hi2].
    assert (Hraw : node_step (OUnflatten d sizes) bs nm = node_step (OUnflatten (Z.of_nat i) sz) bs nm).
    { cbn [node_step]. rewrite (correct_neg_dim_wrap _ _ _ Hi), correct_neg_dim_nat by lia. cbn [bindo].
      change fixed_C02g with true. cbn [andb]. rewrite Hinf.
      rewrite (existsb_neg_nonneg sz Hsz). cbn [bindo]. reflexivity. }
    rewrite Hraw. destruct (node_unflatten_nat i sz bs nm Hi1 Hne Hsz) as [nm' [Hs Hnw]].
    right. exists nm'. eexists. split; [exact Hs|]. split.
    + intros tl2 Hn2. cbn beta. apply Kn_unflatten; assumption.
    + intros ents'. apply unflatten_check_ok. exact (Hnw Hw).
  - (* unflatten, entry call *)
    destruct (node_unflatten_nat i sizes (bs ++ tl) nm ltac:(rewrite app_length; lia) H0 H1) as [nm' [Hs Hnw]].
    rewrite unflat_app in * by lia. right. exists nm'. eexists. split; [exact Hs|]. split.
    + intros tl2 Hn2. cbn beta.
      pose proof (Kn_unflatten i sizes (bs ++ tl) tl2 ltac:(rewrite app_length; lia) H0 H1
                    ltac:(rewrite nthZ_app_l by lia; exact H2)) as HK.
      rewrite unflat_app in HK by lia. exact HK.
    + intros ents'. apply unflatten_check_ok. exact (Hnw Hw).
  - (* repeat, root call *)
    nilr. destruct (repeat_norm _ _ _ H H0) as [-> Hnn].
    right. cbn [node_step]. rewrite H0, Nat.eqb_refl. cbn [negb]. eexists. eexists. split; [reflexivity|]. split.
    + intros tl2 Hn2. cbn beta. cbn [app]. rewrite app_length.
      replace (List.length bs + List.length tl2 - List.length bs)%nat with (List.length tl2) by lia.
      apply Kn_repeat; assumption.
    + no_check I.
  - (* repeat, entry call *)
    assert (Hnt : nonneg tl) by (apply nonneg_app in Hn; tauto).
    right. cbn [node_step]. rewrite !app_length, repeat_length, H, Nat.eqb_refl. cbn [negb].
    rewrite map2_mul_app by lia. rewrite map2_mul_ones.
    eexists. eexists. split; [reflexivity|]. split.
    + intros tl2 Hn2. cbn beta. rewrite !app_length.
      replace (List.length bs + (List.length tl + List.length tl2) - (List.length bs + List.length tl))%nat
        with (List.length tl2) by lia.
      pose proof (Kn_repeat (reps ++ repeat 1 (List.length tl)) (bs ++ tl) tl2) as HK.
      rewrite map2_mul_app, map2_mul_ones in HK by lia. apply HK.
      * rewrite !app_length, repeat_length. lia.
      * apply nonneg_app. tauto.
    + no_check I.
  - (* repeat_interleave(dim), root call *)
    nilr. apply repint_norm in H0; [|exact H]. destruct H0 as [Hr [i [Hi ->]]].
    pose proof (wrap_dim_ok _ _ _ Hi) as [Hi1 Hi2].
    assert (Hraw : node_step (ORepInt r d) bs nm = node_step (ORepInt r (Z.of_nat i)) bs nm).
    { cbn [node_step]. destruct bs; [congruence|].
      replace (if 0 <=? d then d else Z.of_nat (List.length (z :: bs)) + d) with (Z.of_nat i)
        by (destruct (0 <=? d) eqn:E; destruct (d <? 0) eqn:E2; lia).
      destruct (0 <=? Z.of_nat i) eqn:E; [reflexivity|lia]. }
    rewrite Hraw, node_repint_nat by exact Hi1. right. eexists. eexists. split; [reflexivity|]. split.
    + intros tl2 Hn2. cbn beta. apply Kn_repint; assumption.
    + no_check I.
  - (* repeat_interleave(dim), entry call *)
    rewrite node_repint_nat by (rewrite app_length; lia). rewrite nthZ_app_l, set_nth_app_l by lia.
    right. eexists. eexists. split; [reflexivity|]. split.
    + intros tl2 Hn2. cbn beta. pose proof (Kn_repint r i (bs ++ tl) tl2 H ltac:(rewrite app_length; lia)) as HK.
      rewrite nthZ_app_l, set_nth_app_l in HK by lia. exact HK.
    + no_check I.
Qed.

(* ================================================================== the property for the one-result operations *)
(* what torch does to a shape for each call (the root call as the user makes it) *)
Definition torch_shape (o : sop) (s : list Z) : res (list Z) :=
  match o with
  | OPermute dims => t_permute s dims
  | OTranspose a b => t_transpose s a b
  | OSqueeze None => t_squeeze_all s
  | OSqueeze (Some d) => t_squeeze_dim s d
  | OUnsqueeze d => t_unsqueeze s d
  | OExpand sh => t_expand s sh
  | OView sh | OViewStar sh => t_view s sh
  | OReshape sh => t_reshape s sh
  | OFlatten a b => t_flatten s a b
  | OUnflatten d sizes => t_unflatten s d sizes
  | ORepeat reps => t_repeat s reps
  | ORepInt r d => t_repeat_interleave s r (Some d)
  | OSqueezeDims _ | OSqueezeAllChild _ _ _ => Reject      (* not calls a user makes *)
  end.

Definition norm_dim (d : Z) (n : nat) : Z := if d <? 0 then d + Z.of_nat n else d.

(* the inputs on which the theorem speaks: tensordict's documented domain (R) minus the recorded defects (D) *)
Definition in_domain (o : sop) (bs : list Z) : Prop :=
  match o with
  | OPermute _ => True
  | OTranspose _ _ => bs <> []                                    (* R: rank-0 spellings *)
  | OSqueeze (Some _) => bs <> []                                 (* R: rank-0 spellings *)
  | OSqueeze None => True
  | OUnsqueeze _ => True
  | OExpand sh => True
  | OView sh | OReshape sh => True
  | OViewStar _ => False                                          (* not a call a user makes *)
  | OFlatten a b => bs <> [] /\ norm_dim a (List.length bs) < norm_dim b (List.length bs)   (* R: start < end *)
  | OUnflatten _ sizes => True
  | ORepeat reps => List.length reps = List.length bs             (* R: one count per batch dim *)
  | ORepInt _ _ => bs <> []                                       (* rank 0 and dim=None are chains: see below *)
  | OSqueezeDims _ | OSqueezeAllChild _ _ _ => False
  end.

Lemma legal_in_K o bs bs' : in_domain o bs -> torch_shape o bs = Ok bs' -> K o bs bs' [].
Proof.
  intros Hd Ht. destruct o; cbn [torch_shape in_domain] in *.
  - apply Kt_permute. exact Ht.
  - apply Kt_transpose; assumption.
  - destruct d; [apply Kt_squeeze; assumption|]. apply Kt_squeeze_all. exact Ht.
  - apply Kt_unsqueeze. exact Ht.
  - apply Kt_expand. exact Ht.
  - apply Kt_view. exact Ht.
  - contradiction.
  - apply Kt_reshape. exact Ht.
  - destruct Hd as [Hne Hlt]. unfold t_flatten in Ht. rewrite !wrap_dim_scalar_pos in Ht by (destruct bs; [congruence|cbn; lia]).
    destruct (wrap_dim a _) as [i|] eqn:Ea; [|discriminate]. destruct (wrap_dim b _) as [j|] eqn:Eb; [|discriminate].
    cbn [bind] in Ht. pose proof (wrap_dim_ok _ _ _ Ea) as [Hi1 Hi2]. pose proof (wrap_dim_ok _ _ _ Eb) as [Hj1 Hj2].
    unfold norm_dim in Hlt. assert (Hij : (i < j)%nat) by (destruct (a <? 0); destruct (b <? 0); lia).
    destruct bs as [|b0 bs]; [congruence|].
    destruct (j <? i)%nat eqn:E1; [apply Nat.ltb_lt in E1; lia|]. destruct (Nat.eqb i j) eqn:E2; [apply Nat.eqb_eq in E2; lia|].
    injection Ht as <-. eapply Kt_flatten; eauto.
  - apply Kt_unflatten. exact Ht.
  - apply Kt_repeat; assumption.
  - apply Kt_repint; assumption.
  - contradiction.
  - contradiction.
Qed.

Definition is_node (t : tree) : Prop := match t with Node _ _ _ => True | Leaf _ => False end.

(* For every well-formed tensordict tree (any depth, any width, any feature shapes, nested batch longer than the
   parent's), every one-result shape operation and every argument torch accepts for the batch shape (in the domain
   above): the model of tensordict's code returns a tree t' whose batch size is torch's shape for the batch shape,
   in which every entry of shape bs ++ feat has become bs' ++ feat (trailing feature dims untouched), every nested node
   bs ++ extra has become bs' ++ extra, recursively, with the same keys; and t' is again well formed. *)
Theorem shape_ops_act_on_batch_dims : forall t o bs',
  wf t -> in_domain o (top_shape t) -> torch_shape o (top_shape t) = Ok bs' ->
  exists t', apply t o = Done t' /\ rel (top_shape t) bs' t t' /\ wf t'.
Proof.
  intros t o bs' Hw Hd Ht.
  apply (apply_lifts K K_is_nonneg K_is_leaf K_is_node t o (top_shape t) bs' []).
  - apply legal_in_K; assumption.
  - exact Hw.
  - rewrite app_nil_r. reflexivity.
Qed.

Corollary shape_ops_batch_size : forall t o bs',
  wf t -> in_domain o (top_shape t) -> torch_shape o (top_shape t) = Ok bs' ->
  exists t', apply t o = Done t' /\ top_shape t' = bs' /\ same_keys t t'.
Proof.
  intros t o bs' Hw Hd Ht. destruct (shape_ops_act_on_batch_dims t o bs' Hw Hd Ht) as [t' [Ha [Hr _]]].
  exists t'. split; [exact Ha|]. split; [|eapply rel_same_keys; exact Hr].
  destruct (rel_top _ _ _ _ Hr) as [tl [E1 E2]]. rewrite <- (app_nil_r (top_shape t)) in E1 at 1.
  apply app_inv_head in E1. subst tl. rewrite app_nil_r in E2. exact E2.
Qed.

(* ================================================================== outside the documented domain the statement is false *)
Local Open Scope string_scope.
Open Scope Z_scope.
(* witness: flatten(1, 1) is a no-op for torch; tensordict documents "end dim strictly greater than start dim" *)
Lemma full_statement_refuted :
  exists t o bs', wf t /\ (match o with OViewStar _ | OSqueezeDims _ | OSqueezeAllChild _ _ _ => False | _ => True end)
                  /\ torch_shape o (top_shape t) = Ok bs' /\ forall t', apply t o <> Done t'.
Proof.
  exists (Node [2; 3] None [("a", Leaf [2; 3; 2])]), (OFlatten 1 1), [2; 3].
  split; [apply wfb_wf; vm_compute; reflexivity|]. split; [exact I|]. split; [reflexivity|]. intros t'. vm_compute. discriminate.
Qed.

(* the former counterexample D5 (squeeze() on a named all-singleton batch) now satisfies the property *)
Lemma D5_repaired :
  apply (Node [1; 1] (Some [Some "x"; Some "y"]) [("a", Leaf [1; 1; 2])]) (OSqueeze None)
  = Done (Node [] None [("a", Leaf [2])]).
Proof. vm_compute. reflexivity. Qed.

Definition ex_tree_P : tree :=
  Node [2; 1; 3] (Some [Some "x"; None; Some "z"])
    [("a", Leaf [2; 1; 3]);
     ("b", Leaf [2; 1; 3; 4; 5]);
     ("n", Node [2; 1; 3; 2] (Some [Some "x"; None; Some "z"; None])
             [("x", Leaf [2; 1; 3; 2]);
              ("m", Node [2; 1; 3; 2; 1] None [("z", Leaf [2; 1; 3; 2; 1; 3])])])].

Lemma ex_tree_wf : wf ex_tree_P.
Proof. apply wfb_wf. vm_compute. reflexivity. Qed.
