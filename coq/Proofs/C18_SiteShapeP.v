From Coq Require Import List String Bool.
Import ListNotations.
From TD Require Import Model.C18_SiteShape.

Lemma tok_eqb_eq a b : tok_eqb a b = true -> a = b.
Proof.
  destruct a, b; cbn; intros H; try discriminate; try reflexivity;
    apply String.eqb_eq in H; now subst.
Qed.

Lemma toks_eqb_eq : forall a b, toks_eqb a b = true -> a = b.
Proof.
  induction a as [|x a IH]; destruct b as [|y b]; cbn; intros H; try discriminate; [reflexivity|].
  apply andb_true_iff in H. destruct H as [H1 H2]. f_equal; [now apply tok_eqb_eq|now apply IH].
Qed.

(* what the boolean means: after dropping allow-listed bookkeeping, the two specialisations are the same token stream,
   and the translator understood every use of the flag *)
Theorem guard_shape_sound s :
  guard_shape_ok s = true ->
  norm true (s_compile s) = norm false (s_eager s) /\ s_opaque s = [].
Proof.
  unfold guard_shape_ok. intros H. apply andb_true_iff in H. destruct H as [H1 H2]. split.
  - now apply toks_eqb_eq.
  - destruct (s_opaque s); [reflexivity|discriminate].
Qed.

(* and a difference in a value-carrying statement is never hidden: a TVal/TOpen/TElse/TClose token survives [norm] *)
Lemma norm_keeps_values side l t :
  In t l -> (match t with TBk _ _ => False | _ => True end) -> In t (norm side l).
Proof.
  intros Hin Hv. unfold norm. apply in_flat_map. exists t. split; [exact Hin|].
  destruct t; cbn; try (now left). contradiction.
Qed.
