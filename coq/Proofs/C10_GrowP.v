(* C10 — make_memmap on a saved tensordict: the metadata read-modify-write.  Lemmas. *)
From Coq Require Import ZArith List String Bool Lia.
Import ListNotations.
From TD Require Import Model.C10_Meta Proofs.C10_MetaP.
Open Scope string_scope.
Open Scope list_scope.

Lemma valid_entries_ok : forall o bs ents, like o = false -> valid o (Node bs ents) = true ->
  keys_ok ents /\ Forall (entry_ok o) ents /\ Forall (bs_ok bs) ents.
Proof.
  intros o bs ents Hlike Hv. rewrite valid_node in Hv. apply andb_true_iff in Hv as [Hv Hents].
  apply andb_true_iff in Hv as [Hnd Hres]. split; [|].
  - split; [now apply nodupb_NoDup|]. rewrite forallb_forall in Hres. apply Forall_forall. intros kv Hin.
    specialize (Hres kv Hin). now apply negb_true_iff in Hres.
  - clear Hnd Hres. induction ents as [|[k x] ents IH]; [split; constructor|].
    cbn in Hents. apply andb_true_iff in Hents as [Hx Hents]. apply andb_true_iff in Hx as [Hvx Hbx].
    destruct (IH Hents) as [A B]. split.
    + constructor; [|exact A]. unfold entry_ok. cbn [snd].
      destruct x; try (apply saved_ok_all; auto; fail). exact Hvx.
    + constructor; [|exact B]. unfold bs_ok. cbn [snd]. destruct x; auto.
Qed.

Lemma load_records_app : forall o es files rest,
  NoDup (map fst es) -> Forall (entry_ok o) es ->
  (forall k l, In (k, Leaf l) es -> leaf_file_spec files k l) ->
  load_records files (recs es ++ rest)
  = bind (load_records files rest) (fun acc =>
      Ok (filter (fun kv => is_leaf (snd kv)) (norm_ents es) ++ fst acc, map fst (filter nonleaf es) ++ snd acc)).
Proof.
  intros o es files rest. induction es as [|[k x] es IH]; intros Hnd Hok Hf.
  - cbn. destruct (load_records files rest) as [[a b]|]; reflexivity.
  - inversion Hnd; subst. inversion Hok as [|? ? Hx Hok']; subst.
    change (recs ((k, x) :: es)) with ((k, entry_record x) :: recs es).
    rewrite <- app_comm_cons, load_records_cons.
    assert (IH' := IH H2 Hok' (fun k l Hin => Hf k l (or_intror Hin))).
    destruct (is_leaf x) eqn:Ex.
    + destruct x as [l| | | | |]; try discriminate. cbn [entry_record].
      rewrite (load_record_leaf o files k l Hx (Hf k l (or_introl eq_refl))). cbn [bind]. rewrite IH'.
      destruct (load_records files rest) as [[a b]|]; reflexivity.
    + rewrite (load_record_coll files k x Ex). cbn [bind]. rewrite IH'.
      destruct (load_records files rest) as [[a b]|]; cbn [bind fst snd]; [|reflexivity].
      destruct x; try discriminate; reflexivity.
Qed.

Lemma norm_ents_app : forall a b, norm_ents (a ++ b) = norm_ents a ++ norm_ents b.
Proof. induction a as [|[k x] a IH]; intro b; cbn; auto. fold norm_ents. now rewrite IH. Qed.

Lemma smem_false_sget : forall {A} k (l : list (string * A)), smem k l = false -> sget k l = None.
Proof. intros A k l H. unfold smem in H. destruct (sget k l); [discriminate|reflexivity]. Qed.

Lemma recs_keys : forall ents, map fst (recs ents) = map fst ents.
Proof. intro ents. unfold recs. rewrite map_map. reflexivity. Qed.

Lemma fget_fset : forall f g c l, fget f (fset g c l) = if fname_eqb f g then Some c else fget f l.
Proof.
  intros f g c l. induction l as [|[g' c'] l IH].
  - reflexivity.
  - change (fset g c ((g', c') :: l)) with (if fname_eqb g g' then (g', c) :: l else (g', c') :: fset g c l).
    destruct (fname_eqb g g') eqn:E.
    + assert (g = g').
      { destruct g, g'; cbn in E; try discriminate; auto. apply String.eqb_eq in E. now subst. }
      subst g'. change (fget f ((g, c) :: l)) with (if fname_eqb f g then Some c else fget f l).
      change (fget f ((g, c') :: l)) with (if fname_eqb f g then Some c' else fget f l).
      destruct (fname_eqb f g); reflexivity.
    + change (fget f ((g', c') :: fset g c l)) with (if fname_eqb f g' then Some c' else fget f (fset g c l)).
      change (fget f ((g', c') :: l)) with (if fname_eqb f g' then Some c' else fget f l).
      rewrite IH. destruct (fname_eqb f g') eqn:E2; auto.
      destruct (fname_eqb f g) eqn:E3; auto.
      assert (f = g'). { destruct f, g'; cbn in E2; try discriminate; auto. apply String.eqb_eq in E2. now subst. }
      assert (f = g). { destruct f, g; cbn in E3; try discriminate; auto. apply String.eqb_eq in E3. now subst. }
      subst. rewrite fname_eqb_refl in E. discriminate.
Qed.

Lemma leaf_file_spec_fset_meta : forall files c k l, leaf_file_spec files k l -> leaf_file_spec (fset FMeta c files) k l.
Proof. intros files c k l H. unfold leaf_file_spec in *. rewrite fget_fset. exact H. Qed.

Lemma leaf_file_spec_app_other : forall files k l k' c, k <> k' -> leaf_file_spec files k l -> leaf_file_spec (files ++ [(FLeaf k', c)]) k l.
Proof.
  intros files k l k' c Hne H. unfold leaf_file_spec in *. destruct (Nat.eqb (numel (lshape l)) 0).
  - rewrite fget_app_none by exact H. cbn. destruct (String.eqb k k') eqn:E; auto. apply String.eqb_eq in E. contradiction.
  - now apply fget_app_some.
Qed.

Lemma make_memmap_merge_lemma : forall o bs ents k l d,
  valid_root o (Node bs ents) = true -> leaf_ok o l = true -> reserved k = false -> smem k ents = false ->
  encode o (Node bs ents) = Ok d ->
  exists d', grow_at [] k l (Node bs ents) d = Ok (Node bs (ents ++ [(k, Leaf l)]), d')
             /\ decode d' = Ok (norm (Node bs (ents ++ [(k, Leaf l)]))).
Proof.
  intros o bs ents k l d Hv Hl Hres Hk Henc.
  unfold valid_root in Hv. apply andb_true_iff in Hv as [Hv _]. apply andb_true_iff in Hv as [Hv Hlike].
  apply negb_true_iff in Hlike.
  destruct (valid_entries_ok o bs ents Hlike Hv) as ([Hnd Hrsv] & Hok & Hbs).
  destruct (save_ents_spec o ents [] [] Hlike Hnd Hrsv) as (sl & E & F2); auto.
  unfold encode, empty_dir in Henc. rewrite save_over_node, E in Henc. cbn [bind fst snd List.app] in Henc.
  rewrite fset_fresh in Henc by apply fget_meta_leaf_files. inversion Henc; subst d. clear Henc.
  assert (Hkf : sget k ents = None) by now apply smem_false_sget.
  assert (Hkn : ~ In k (map fst ents)) by now apply sget_none_notin.
  rewrite node_meta_ok by (split; auto).
  set (tail3 := [("shape", jshape bs); ("device", JStr "cpu"); ("_type", JStr "TensorDict")]).
  set (m := recs ents ++ tail3).
  cbn [grow_at]. rewrite Hk, Hres. unfold load_meta.
  rewrite fget_app_none by apply fget_meta_leaf_files. cbn [fget fname_eqb bind].
  set (files0 := leaf_files ents ++ [(FMeta, CJson (JObj m))]).
  assert (Hfk : fget (FLeaf k) files0 = None).
  { unfold files0. rewrite fget_app_none by (now apply fget_leaf_files_none). reflexivity. }
  eexists. split; [reflexivity|].
  (* the rewritten metadata *)
  assert (Hmk : sget k m = None).
  { unfold m. rewrite sget_app_none by (apply sget_none_notin; now rewrite recs_keys).
    destruct (reserved_false k Hres) as (N1 & N2 & N3). cbn.
    destruct (String.eqb k "shape") eqn:E1; [apply String.eqb_eq in E1; contradiction|].
    destruct (String.eqb k "device") eqn:E2; [apply String.eqb_eq in E2; contradiction|].
    destruct (String.eqb k "_type") eqn:E3; [apply String.eqb_eq in E3; contradiction|]. reflexivity. }
  assert (Hm' : resave_meta bs (jset k (leaf_record l) m) = JObj (recs ents ++ tail3 ++ [(k, leaf_record l)])).
  { unfold resave_meta. rewrite (jset_fresh k) by exact Hmk. unfold m. rewrite <- app_assoc. f_equal.
    assert (R : forall key, reserved key = true -> sget key (recs ents) = None) by (intros; now apply sget_recs_reserved).
    assert (J : forall key v (tl : list (string * json)), reserved key = true ->
                jset key v (recs ents ++ tl) = recs ents ++ jset key v tl).
    { intros key v tl Hr. specialize (R key Hr). revert R. generalize (recs ents) as rl.
      induction rl as [|[k' v'] rl IHr]; cbn; auto. destruct (String.eqb key k'); [discriminate|]. intro. now rewrite IHr. }
    rewrite (J "shape" _ _ eq_refl). rewrite (J "device" _ _ eq_refl). rewrite (J "_type" _ _ eq_refl).
    reflexivity. }
  rewrite Hm'.
  set (newmeta := CJson (JObj (recs ents ++ tail3 ++ [(k, leaf_record l)]))).
  set (filesk := if Nat.eqb (numel (lshape l)) 0 then files0 else fset (FLeaf k) (CCells (ldtype l) (lcells l)) files0).
  set (files1 := fset FMeta newmeta filesk).
  assert (Hold0 : forall k0 l0, In (k0, Leaf l0) ents -> leaf_file_spec filesk k0 l0).
  { intros k0 l0 Hin.
    assert (k0 <> k) by (intro; subst; apply Hkn; apply in_map_iff; exists (k, Leaf l0); auto).
    pose proof (leaf_file_spec_app _ _ _ (CJson (JObj m)) (fget_leaf_files_spec ents k0 l0 Hnd Hin)) as G. fold files0 in G.
    unfold filesk. destruct (Nat.eqb (numel (lshape l)) 0); auto.
    rewrite fset_fresh by exact Hfk. now apply leaf_file_spec_app_other. }
  assert (Hleaf_old : forall k0 l0, In (k0, Leaf l0) ents -> leaf_file_spec files1 k0 l0).
  { intros. unfold files1. apply leaf_file_spec_fset_meta. auto. }
  assert (Hleaf_new : leaf_file_spec files1 k l).
  { unfold files1. apply leaf_file_spec_fset_meta. unfold leaf_file_spec, filesk.
    destruct (Nat.eqb (numel (lshape l)) 0); auto.
    rewrite fget_fset. cbn. now rewrite String.eqb_refl. }
  (* loading it *)
  rewrite decode_dir. unfold load_top. fold filesk. fold files1.
  assert (Hfm : fget FMeta files1 = Some newmeta).
  { unfold files1. rewrite fget_fset. reflexivity. }
  rewrite Hfm. unfold newmeta.
  assert (Et : sget "_type" (recs ents ++ tail3 ++ [(k, leaf_record l)]) = Some (JStr "TensorDict")).
  { rewrite sget_app_none by (now apply sget_recs_reserved). reflexivity. }
  assert (Es : sget "shape" (recs ents ++ tail3 ++ [(k, leaf_record l)]) = Some (jshape bs)).
  { rewrite sget_app_none by (now apply sget_recs_reserved). reflexivity. }
  assert (Ed : jdel "device" (jdel "shape" (recs ents ++ tail3 ++ [(k, leaf_record l)]))
               = recs ents ++ [("_type", JStr "TensorDict"); (k, leaf_record l)]).
  { rewrite jdel_app_none by (now apply sget_recs_reserved). cbn [tail3 List.app jdel String.eqb Ascii.eqb Bool.eqb].
    rewrite jdel_app_none by (now apply sget_recs_reserved). reflexivity. }
  rewrite Et. cbn [String.eqb Ascii.eqb Bool.eqb]. cbv beta iota. unfold load_node. rewrite Es, jshape_of_jshape, Ed.
  rewrite (load_records_app o ents files1); auto.
  rewrite !load_records_cons. cbn [load_record]. cbv beta iota.
  rewrite (load_record_leaf o files1 k l Hl Hleaf_new). cbn [bind load_records fst snd].
  rewrite app_nil_r.
  rewrite (load_subs_spec o bs _ ents sl F2); auto.
  2:{ intros kv Hin. now apply in_map. }
  cbn [bind]. rewrite norm_node, norm_ents_app, !filter_app. cbn [norm_ents filter snd is_leaf norm negb].
  rewrite app_nil_r, <- app_assoc. reflexivity.
Qed.
