(* Names follow the element map: the source coordinate of the dim a surviving name belongs to is driven by the result dim
   that carries the name, and by nothing else. *)
From Coq Require Import ZArith List Bool Lia.
Import ListNotations.
From TD Require Import Spec.PySlice Model.C03_Index Spec.C03_TorchIndex Spec.C03_TorchSel Model.C03_Names
  Proofs.C03_IndexP Proofs.C03_SelP Proofs.C03_NamesP.
Open Scope nat_scope.

(* a mask value whose listed positions have one coordinate per mask dim *)
Definition mask_len_ok (v : vitem) : Prop :=
  match v with VMask sh pos => forall b, length (mask_pos pos b) = length sh | _ => True end.

(* [origins] (the names the library keeps for the kept dims) against [sel_items]: if result kept-dim j is labelled with
   source dim i, then the i-th source coordinate is a function of the j-th kept coordinate alone — whatever the other
   coordinates and the position inside the broadcast block are *)
Lemma sel_items_origin idx : forall dims b b' ks ks' s s' c j i,
  Forall mask_len_ok idx ->
  sel_items idx dims b ks = Some s -> sel_items idx dims b' ks' = Some s' ->
  nth_error (origins (map erase idx) c) j = Some (Some i) ->
  nth_error ks j = nth_error ks' j ->
  c <= i /\ nth_error s (i - c) = nth_error s' (i - c).
Proof.
  induction idx as [|it r IH]; intros dims b b' ks ks' s s' c j i Hm H H' Ho Hk;
    cbn [map erase origins] in Ho; cbn [sel_items] in H, H'.
  - destruct j; discriminate.
  - inversion Hm as [|x l Hm1 Hm2]; subst.
    destruct it as [z|a bb cc| | |sh vals|z|sh pos]; cbn [erase origins] in Ho.
    + destruct dims as [|n ds]; [discriminate|].
      destruct (sel_items r ds b ks) as [s1|] eqn:E; [|discriminate].
      destruct (sel_items r ds b' ks') as [s1'|] eqn:E'; [|discriminate].
      injection H as <-. injection H' as <-.
      destruct (IH ds b b' ks ks' s1 s1' (S c) j i Hm2 E E' Ho Hk) as [Hc He].
      split; [lia|]. replace (i - c) with (S (i - S c)) by lia. exact He.
    + destruct dims as [|n ds]; [discriminate|].
      destruct ks as [|k ks1]; [discriminate|]. destruct ks' as [|k' ks1']; [discriminate|].
      destruct (sel_items r ds b ks1) as [s1|] eqn:E; [|discriminate].
      destruct (sel_items r ds b' ks1') as [s1'|] eqn:E'; [|discriminate].
      injection H as <-. injection H' as <-.
      destruct j as [|j].
      * cbn in Ho. injection Ho as <-. cbn in Hk. injection Hk as <-.
        split; [lia|]. rewrite Nat.sub_diag. reflexivity.
      * cbn [nth_error] in Ho, Hk.
        destruct (IH ds b b' ks1 ks1' s1 s1' (S c) j i Hm2 E E' Ho Hk) as [Hc He].
        split; [lia|]. replace (i - c) with (S (i - S c)) by lia. exact He.
    + destruct ks as [|k ks1]; [discriminate|]. destruct ks' as [|k' ks1']; [discriminate|].
      destruct j as [|j]; [discriminate|]. cbn [nth_error] in Ho, Hk.
      exact (IH dims b b' ks1 ks1' s s' c j i Hm2 H H' Ho Hk).
    + discriminate.
    + destruct dims as [|n ds]; [discriminate|].
      destruct (sel_items r ds b ks) as [s1|] eqn:E; [|discriminate].
      destruct (sel_items r ds b' ks') as [s1'|] eqn:E'; [|discriminate].
      injection H as <-. injection H' as <-.
      destruct (IH ds b b' ks ks' s1 s1' (S c) j i Hm2 E E' Ho Hk) as [Hc He].
      split; [lia|]. replace (i - c) with (S (i - S c)) by lia. exact He.
    + destruct dims as [|n ds]; [discriminate|].
      destruct (sel_items r ds b ks) as [s1|] eqn:E; [|discriminate].
      destruct (sel_items r ds b' ks') as [s1'|] eqn:E'; [|discriminate].
      injection H as <-. injection H' as <-.
      destruct (IH ds b b' ks ks' s1 s1' (S c) j i Hm2 E E' Ho Hk) as [Hc He].
      split; [lia|]. replace (i - c) with (S (i - S c)) by lia. exact He.
    + destruct (Nat.leb (length sh) (length dims)); [|discriminate].
      destruct (sel_items r (skipn (length sh) dims) b ks) as [s1|] eqn:E; [|discriminate].
      destruct (sel_items r (skipn (length sh) dims) b' ks') as [s1'|] eqn:E'; [|discriminate].
      injection H as <-. injection H' as <-.
      destruct (IH _ b b' ks ks' s1 s1' (c + length sh) j i Hm2 E E' Ho Hk) as [Hc He].
      split; [lia|]. cbn in Hm1.
      rewrite !nth_error_app2 by (rewrite map_length, Hm1; lia).
      rewrite !map_length, !Hm1. replace (i - c - length sh) with (i - (c + length sh)) by lia. exact He.
Qed.

(* an inserted dim (None) is labelled None; the dims of a lone integer index array all carry the name of the dim that array
   indexes, and that source coordinate is a function of the block position alone *)
Lemma sel_items_adv_coord pre sh vals post : forall dims b ks ks' s s',
  nadv (map erase pre) = 0 -> existsb vis_ell pre = false ->
  sel_items (pre ++ VAdv sh vals :: post) dims b ks = Some s ->
  sel_items (pre ++ VAdv sh vals :: post) dims b ks' = Some s' ->
  nth_error s (total_consumed (map erase pre)) = nth_error s' (total_consumed (map erase pre))
  /\ exists n, nth_error s (total_consumed (map erase pre)) = Some (norm n (lookup sh vals b)).
Proof.
  unfold nadv.
  induction pre as [|it r IH]; intros dims b ks ks' s s' Hn He H H';
    cbn [app map erase total_consumed fold_right sel_items existsb] in *.
  - destruct dims as [|n ds]; [discriminate|].
    destruct (sel_items post ds b ks) as [s1|]; [|discriminate].
    destruct (sel_items post ds b ks') as [s1'|]; [|discriminate].
    injection H as <-. injection H' as <-. split; [reflexivity|]. exists n. reflexivity.
  - fold (total_consumed (map erase r)). apply orb_false_iff in He. destruct He as [He1 He].
    destruct it as [z|a bb cc| | |sh2 vals2|z|sh2 pos]; cbn [erase filter is_adv length consumes vis_ell] in *; try discriminate.
    + destruct dims as [|n ds]; [discriminate|].
      destruct (sel_items (r ++ VAdv sh vals :: post) ds b ks) as [s1|] eqn:E; [|discriminate].
      destruct (sel_items (r ++ VAdv sh vals :: post) ds b ks') as [s1'|] eqn:E'; [|discriminate].
      injection H as <-. injection H' as <-. cbn [plus nth_error]. exact (IH ds b ks ks' s1 s1' Hn He E E').
    + destruct dims as [|n ds]; [discriminate|].
      destruct ks as [|k ks1]; [discriminate|]. destruct ks' as [|k' ks1']; [discriminate|].
      destruct (sel_items (r ++ VAdv sh vals :: post) ds b ks1) as [s1|] eqn:E; [|discriminate].
      destruct (sel_items (r ++ VAdv sh vals :: post) ds b ks1') as [s1'|] eqn:E'; [|discriminate].
      injection H as <-. injection H' as <-. cbn [plus nth_error]. exact (IH ds b ks1 ks1' s1 s1' Hn He E E').
    + destruct ks as [|k ks1]; [discriminate|]. destruct ks' as [|k' ks1']; [discriminate|].
      cbn [plus]. exact (IH dims b ks1 ks1' s s' Hn He H H').
    + destruct dims as [|n ds]; [discriminate|].
      destruct (sel_items (r ++ VAdv sh vals :: post) ds b ks) as [s1|] eqn:E; [|discriminate].
      destruct (sel_items (r ++ VAdv sh vals :: post) ds b ks') as [s1'|] eqn:E'; [|discriminate].
      injection H as <-. injection H' as <-. cbn [plus nth_error]. exact (IH ds b ks ks' s1 s1' Hn He E E').
Qed.
