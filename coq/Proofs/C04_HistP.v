(* C04 — one step of the model refines one step of the plain nested dict; histories by induction. *)
From Coq Require Import ZArith List String Bool Lia.
Import ListNotations.
From TD Require Import Model.Keys Proofs.KeysP Model.C04_Tree Model.C04_Ops Model.C04_Views Model.C04_Step
     Spec.C04_NestedDict Proofs.C04_AssocP Proofs.C04_CoreP Proofs.C04_PrelimP Proofs.C04_RenameP Proofs.C04_UpdateP Proofs.C04_ViewsP Proofs.C04_FlattenP Proofs.C04_UnflattenP Proofs.C04_SplitP.
Open Scope string_scope.
Open Scope list_scope.

Definition abs_op (o : op) : option sop :=
  match o with
  | ONop => Some SNop
  | OSet k v | OSetItem k v => option_map (fun p => SSet p (abs v)) (kp k)
  | ODel k | ODelItem k => option_map SDel (kp k)
  | OPop k d => option_map (fun p => SPop p d) (kp k)
  | ORename k1 k2 safe => match kp k1, kp k2 with Some p, Some q => Some (SRename p q safe) | _, _ => None end
  | OUpdate items =>
      option_map SUpdate (traverse (fun kv => option_map (fun p => (p, abs (snd kv))) (kp (fst kv))) items)
  | OSetDefault k v => option_map (fun p => SSetDefault p (abs v)) (kp k)
  | OSelect ks inplace strict cont => option_map (fun ps => SSelect ps inplace strict cont) (traverse kp ks)
  | OExclude ks inplace cont => option_map (fun ps => SExclude ps inplace cont) (traverse kp ks)
  | OSplit sets inplace strict d cont =>
      option_map (fun ss => SSplit ss inplace strict d cont) (traverse (traverse kp) sets)
  | OFlatten sep inplace cont => Some (SFlatten sep inplace cont)
  | OUnflatten sep inplace cont => Some (SUnflatten sep inplace cont)
  | OClear => Some SClear
  | OFilterEmpty => Some SFilterEmpty
  end.

Definition abs_ret (r : retval) : sret :=
  match r with RNone => SRNone | RVal v => SRVal (abs v) | RDefault z => SRDefault z | RPyNone => SRPyNone end.

Definition abs_sres (r : stepres) : sres :=
  mk_sres (absE (sr_self r)) (abs_ret (sr_ret r)) (option_map (map absE) (sr_results r)) (absE (sr_cont r)).

(* ---- clear, filter_empty ---- *)
Lemma clear_nil es : clear es = [].
Proof.
  unfold clear. induction es as [|[k v] r IH]; [reflexivity|]. cbn. now rewrite String.eqb_refl.
Qed.

(* ---- the scope of the step theorem: operation kinds proved so far, outside the regions where the code deviates ---- *)
Definition in_scope (o : op) : Prop :=
  match o with
  | ONop | OClear | OFilterEmpty | ODel _ | ODelItem _ | OPop _ _ | OSet _ _ | OSetItem _ _ | OSetDefault _ _ => True
  | ORename k1 k2 safe =>
      (* a SAFE rename onto a key under the old one asks `new in keys(True)` first, and that membership test raises
         ValueError (instead of answering False) when the path runs through a tensor below the old entry *)
      strict_prefix (strings k1) (strings k2) -> safe = false
  | OUpdate _ | OFlatten _ _ _ => True
  | OUnflatten sep _ _ => sep <> ""
  | OSplit sets inplace _ _ _ => split_scope sets inplace   (* in place: the epilogue iterates a python set (hash order) *)
  | _ => False
  end.

(* operations that either succeed or leave the subject untouched (update stops at the first failing item and keeps
   what it has written so far: the code documents this, a python loop over d[k] = v does the same) *)
Definition atomic (o : op) : Prop :=
  match o with
  | OUpdate _ => False
  | OUnflatten _ inplace _ => inplace = false   (* in place it stops at the first failing rename *)
  | _ => True
  end.

Lemma update_paths_eq : forall items sitems es,
  traverse (fun kv : pykey * tree => option_map (fun p => (p, abs (snd kv))) (kp (fst kv))) items = Some sitems ->
  update items es = update_paths (map (fun kv => (strings (fst kv), snd kv)) items) es
  /\ sitems = map (fun pv => (fst pv, abs (snd pv))) (map (fun kv => (strings (fst kv), snd kv)) items).
Proof.
  induction items as [|[k v] r IH]; intros sitems es T; [injection T as <-; now split|].
  cbn [traverse fst snd] in T. destruct (kp k) as [p|] eqn:K; [|discriminate]. cbn [option_map] in T.
  destruct (traverse _ r) as [sr|] eqn:TR; [|discriminate]. injection T as <-.
  destruct (kp_some _ _ K) as [_ [S [U _]]].
  cbn [update update_paths map fst snd]. rewrite U, S.
  destruct (upd_item v p es) as [es' [e|]]; [split; [reflexivity|]|].
  - destruct (IH sr es eq_refl) as [_ E]. now rewrite E.
  - destruct (IH sr es' eq_refl) as [E1 E2]. split; [exact E1|now rewrite E2].
Qed.

Lemma of_res_refines es r (d' : option dict) :
  match r with Ok es' => d' = Some (absE es') | Raise _ => d' = None end ->
  match option_map s_plain d' with
  | Some x => sr_err (of_res es r) = None /\ abs_sres (of_res es r) = x
  | None => sr_err (of_res es r) <> None /\ sr_cont (of_res es r) = es
  end.
Proof.
  destruct r as [es'|e]; intros ->; cbn; [split; reflexivity|split; [discriminate|reflexivity]].
Qed.

Lemma refine_step_atomic es o so : wfE es -> abs_op o = Some so -> in_scope o -> atomic o ->
  match nd_step py_split (absE es) so with
  | Some r => sr_err (step es o) = None /\ abs_sres (step es o) = r
  | None => sr_err (step es o) <> None /\ sr_cont (step es o) = es
  end.
Proof.
  intros WF A S AT. destruct o; cbn [in_scope] in S; try contradiction; cbn [abs_op] in A; cbn [atomic] in AT; try contradiction.
  - (* nop *) injection A as <-. cbn. split; reflexivity.
  - (* set *)
    destruct (kp k) as [p|] eqn:K; [|discriminate]. injection A as <-. destruct (kp_some _ _ K) as [W [_ [U N]]].
    cbn [step nd_step]. unfold set_. rewrite U. apply of_res_refines. apply set_tuple_refines.
  - (* setitem *)
    destruct (kp k) as [p|] eqn:K; [|discriminate]. injection A as <-. destruct (kp_some _ _ K) as [W [_ [U N]]].
    cbn [step nd_step]. rewrite U. destruct p as [|a r]; [congruence|]. apply of_res_refines. apply set_tuple_refines.
  - (* del *)
    destruct (kp k) as [p|] eqn:K; [|discriminate]. injection A as <-. destruct (kp_some _ _ K) as [W [_ [U N]]].
    cbn [step nd_step]. unfold del_. rewrite U. apply of_res_refines. apply del_tuple_refines.
  - (* delitem *)
    destruct (kp k) as [p|] eqn:K; [|discriminate]. injection A as <-. destruct (kp_some _ _ K) as [W [_ [U N]]].
    cbn [step nd_step]. unfold del_. rewrite U. apply of_res_refines. apply del_tuple_refines.
  - (* pop *)
    destruct (kp k) as [p|] eqn:K; [|discriminate]. injection A as <-. destruct (kp_some _ _ K) as [W [_ [U N]]].
    cbn [step nd_step]. unfold pop. rewrite U.
    pose proof (pop_path_refines p (match dflt with Some _ => true | None => false end) es N) as P.
    destruct (pop_path p _ es) as [es' [[v|]|e]].
    + rewrite P. cbn. split; reflexivity.
    + destruct P as [P ->]. rewrite P. cbn. split; [reflexivity|]. destruct dflt; reflexivity.
    + destruct P as [P ->]. rewrite P. cbn. split; [discriminate|reflexivity].
  - (* rename *)
    destruct (kp k1) as [p|] eqn:K1; [|discriminate]. destruct (kp k2) as [q|] eqn:K2; [|discriminate]. injection A as <-.
    destruct (kp_some _ _ K1) as [W1 [S1 [U1 N1]]]. destruct (kp_some _ _ K2) as [W2 [S2 [U2 N2]]].
    rewrite S1, S2 in S.
    cbn [step nd_step]. unfold rename.
    assert (R : (match k1, k2 with KBad, _ | _, KBad => (es, Some EOther) | _, _ => rename_r (cpp_unravel_key k1) (cpp_unravel_key k2) safe es end)
                = rename_p p q safe es).
    { rewrite (wf_key_keyres k1 W1), (wf_key_keyres k2 W2), S1, S2, rename_r_path by assumption.
      destruct k1; destruct k2; try reflexivity; discriminate. }
    rewrite R. pose proof (rename_p_refines p q safe es N1 N2 WF S) as P.
    destruct (rename_p p q safe es) as [es' [e|]].
    + destruct P as [P ->]. rewrite P. cbn. split; [discriminate|reflexivity].
    + rewrite P. cbn. split; reflexivity.
  - (* setdefault *)
    destruct (kp k) as [p|] eqn:K; [|discriminate]. injection A as <-. destruct (kp_some _ _ K) as [W [S1 [U N]]].
    cbn [step nd_step]. pose proof (setdefault_refines k v es W) as P. rewrite S1 in P.
    destruct (setdefault k v es) as [es' [[w|]|e]].
    + rewrite P. cbn. split; reflexivity.
    + contradiction.
    + destruct P as [P ->]. rewrite P. cbn. split; [discriminate|reflexivity].
  - (* split_keys *)
    destruct (traverse (traverse kp) sets) as [pss|] eqn:T; [|discriminate]. injection A as <-.
    cbn [step nd_step]. pose proof (split_keys_refines sets pss inplace strict dflt es T S) as P.
    destruct (split_keys sets inplace strict dflt es) as [es' [outs|e]].
    + destruct P as [rest [souts [P1 [P2 P3]]]]. rewrite P1. cbv beta iota zeta. split; [reflexivity|].
      unfold abs_sres. cbn [sr_self sr_ret sr_results sr_cont abs_ret option_map]. rewrite <- P2, <- P3.
      f_equal. destruct cont as [i|]; [|reflexivity]. now rewrite map_nth.
    + destruct P as [P ->]. rewrite P. cbn. split; [discriminate|reflexivity].
  - (* flatten_keys, out of place and in place *)
    injection A as <-. cbn [step nd_step]. pose proof (flatten_out_refines sep es) as P.
    destruct inplace.
    + rewrite flatten_in_eq. destruct (flatten_out sep es) as [out|e]; rewrite P; cbn.
      * split; reflexivity.
      * split; [discriminate|reflexivity].
    + destruct (flatten_out sep es) as [out|e]; rewrite P; cbn.
      * split; [reflexivity|]. unfold abs_sres. cbn. destruct cont; reflexivity.
      * split; [discriminate|reflexivity].
  - (* unflatten_keys out of place *)
    injection A as <-. subst inplace. cbn [step nd_step]. rewrite absE_keys.
    pose proof (unflatten_loop_refines sep S (map fst es) es WF) as P. unfold unflatten_in.
    destruct (unflatten_loop sep (map fst es) es) as [out [e|]]; destruct P as [P _]; rewrite P; cbn.
    + split; [discriminate|reflexivity].
    + split; [reflexivity|]. unfold abs_sres. cbn. destruct cont; reflexivity.
  - (* clear *) injection A as <-. cbn [step nd_step]. rewrite clear_nil. cbn. split; reflexivity.
  - (* filter_empty *) injection A as <-. cbn [step nd_step]. cbn. split; [reflexivity|].
    unfold abs_sres. cbn. now rewrite filter_empty_abs.
Qed.

Theorem refine_step es o so : wfE es -> abs_op o = Some so -> in_scope o ->
  match nd_step py_split (absE es) so with
  | Some r => sr_err (step es o) = None /\ abs_sres (step es o) = r
  | None => sr_err (step es o) <> None /\ (atomic o -> sr_cont (step es o) = es)
  end.
Proof.
  intros WF A S.
  assert (ATOM : atomic o ->
                 match nd_step py_split (absE es) so with
                 | Some r => sr_err (step es o) = None /\ abs_sres (step es o) = r
                 | None => sr_err (step es o) <> None /\ (atomic o -> sr_cont (step es o) = es)
                 end).
  { intros AT. pose proof (refine_step_atomic es o so WF A S AT) as R.
    destruct (nd_step py_split (absE es) so); [exact R|destruct R as [R1 R2]; split; [exact R1|intros _; exact R2]]. }
  destruct o; try (apply ATOM; exact I).
  - (* update: not atomic *)
    cbn [abs_op] in A. destruct (traverse _ items) as [sitems|] eqn:T; [|discriminate]. injection A as <-.
    destruct (update_paths_eq items sitems es T) as [E1 E2].
    cbn [step nd_step]. rewrite E1, E2.
    pose proof (update_refines (map (fun kv => (strings (fst kv), snd kv)) items) es) as U.
    destruct (update_paths _ es) as [es' [e|]]; rewrite U; cbn.
    + split; [discriminate|intros []].
    + split; reflexivity.
  - (* unflatten_keys *)
    destruct inplace; [|apply ATOM; reflexivity].
    cbn [abs_op] in A. injection A as <-. cbn [in_scope] in S. cbn [step nd_step]. rewrite absE_keys.
    pose proof (unflatten_loop_refines sep S (map fst es) es WF) as P. unfold unflatten_in.
    destruct (unflatten_loop sep (map fst es) es) as [es' [e|]]; destruct P as [P _]; rewrite P; cbn.
    + split; [discriminate|intros AT; discriminate].
    + split; reflexivity.
Qed.

(* ---- well-formedness is an invariant ---- *)
Definition values_wf (o : op) : Prop :=
  match o with
  | OSet _ v | OSetItem _ v | OSetDefault _ v => wf v
  | OUpdate items => Forall (fun kv => wf (snd kv)) items
  | _ => True
  end.

Lemma step_wf es o so : wfE es -> abs_op o = Some so -> in_scope o -> values_wf o -> wfE (sr_cont (step es o)).
Proof.
  intros W A S V. destruct o; cbn [in_scope] in S; try contradiction; cbn [abs_op] in A; cbn [values_wf] in V.
  - exact W.
  - destruct (kp k) as [p|] eqn:K; [|discriminate]. destruct (kp_some _ _ K) as [_ [_ [U N]]].
    cbn [step]. unfold set_. rewrite U. destruct (set_tuple p v es) as [es'|e] eqn:E; cbn; [exact (set_tuple_wf _ _ _ _ W V E)|exact W].
  - destruct (kp k) as [p|] eqn:K; [|discriminate]. destruct (kp_some _ _ K) as [_ [_ [U N]]].
    cbn [step]. rewrite U. destruct p as [|a r]; [congruence|].
    destruct (set_tuple (a :: r) v es) as [es'|e] eqn:E; cbn; [exact (set_tuple_wf _ _ _ _ W V E)|exact W].
  - cbn [step]. unfold del_. destruct (del_tuple _ es) as [es'|e] eqn:E; cbn; [exact (del_tuple_wf _ _ _ W E)|exact W].
  - cbn [step]. unfold del_. destruct (del_tuple _ es) as [es'|e] eqn:E; cbn; [exact (del_tuple_wf _ _ _ W E)|exact W].
  - cbn [step]. unfold pop. destruct (pop_path _ _ es) as [es' r] eqn:E. pose proof (pop_path_wf _ _ _ _ _ W E) as W'.
    destruct r as [[v|]|e]; exact W'.
  - destruct (kp k1) as [p|] eqn:K1; [|discriminate]. destruct (kp k2) as [q|] eqn:K2; [|discriminate].
    destruct (kp_some _ _ K1) as [W1 [S1 [U1 N1]]]. destruct (kp_some _ _ K2) as [W2 [S2 [U2 N2]]].
    cbn [step]. unfold rename.
    assert (R : (match k1, k2 with KBad, _ | _, KBad => (es, Some EOther) | _, _ => rename_r (cpp_unravel_key k1) (cpp_unravel_key k2) safe es end)
                = rename_p p q safe es).
    { rewrite (wf_key_keyres k1 W1), (wf_key_keyres k2 W2), S1, S2, rename_r_path by assumption.
      destruct k1; destruct k2; try reflexivity; discriminate. }
    rewrite R. destruct (rename_p p q safe es) as [es' e] eqn:E. exact (rename_p_wf _ _ _ _ _ _ W E).
  - (* update *)
    destruct (traverse _ items) as [sitems|] eqn:T; [|discriminate].
    destruct (update_paths_eq items sitems es T) as [E1 _]. cbn [step]. rewrite E1.
    assert (G : forall l es0, Forall (fun pv => wf (snd pv)) l -> wfE es0 -> wfE (fst (update_paths l es0))).
    { induction l as [|[p v] r IHl]; intros es0 Fl W0; [exact W0|]. inversion Fl; subst. cbn [update_paths].
      pose proof (upd_item_wf v p es0 ltac:(assumption) W0) as W1.
      destruct (upd_item v p es0) as [es1 [e|]]; cbn [fst] in *; [exact W1|now apply IHl]. }
    specialize (G (map (fun kv => (strings (fst kv), snd kv)) items) es).
    destruct (update_paths _ es) as [es' e]. cbn [fst] in G. apply G; [|exact W].
    rewrite Forall_map. exact V.
  - destruct (kp k) as [p|] eqn:K; [|discriminate]. destruct (kp_some _ _ K) as [_ [_ [U N]]].
    cbn [step]. unfold setdefault, set_. rewrite U.
    destruct (if is_tuple k then view_contains true k es else skeys_contains k es) as [b|e]; [|exact W].
    destruct b.
    + destruct (get k es) as [w| |e]; exact W.
    + destruct (set_tuple p v es) as [es'|e] eqn:E; [|exact W]. pose proof (set_tuple_wf _ _ _ _ W V E) as W'.
      destruct (get k es') as [w| |e]; exact W'.
  - (* split_keys *)
    cbn [step]. pose proof (split_keys_wf sets inplace strict dflt es W) as P.
    destruct (split_keys sets inplace strict dflt es) as [es' [outs|e]]; [|exact P].
    destruct P as [P1 P2]. cbn. destruct cont as [i|]; [|exact P1].
    destruct (nth_in_or_default i outs es') as [I|E]; [rewrite Forall_forall in P2; exact (P2 _ I)|now rewrite E].
  - cbn [step]. destruct inplace.
    + rewrite flatten_in_eq. destruct (flatten_out sep es) as [out|e] eqn:E; cbn; [exact (flatten_out_wf _ _ _ W E)|exact W].
    + destruct (flatten_out sep es) as [out|e] eqn:E; cbn; [|exact W].
      destruct cont; [exact (flatten_out_wf _ _ _ W E)|exact W].
  - (* unflatten_keys *)
    cbn [step]. pose proof (unflatten_loop_refines sep S (map fst es) es W) as P. unfold unflatten_in.
    destruct inplace.
    + destruct (unflatten_loop sep (map fst es) es) as [es' [e|]]; destruct P as [_ P]; exact P.
    + destruct (unflatten_loop sep (map fst es) es) as [out [e|]]; destruct P as [_ P]; cbn; [exact W|].
      destruct cont; [exact P|exact W].
  - cbn [step]. rewrite clear_nil. exact wfE_nil.
  - cbn [step]. now apply filter_empty_wf.
Qed.

(* ---- histories ---- *)
Fixpoint nd_run (d : dict) (sops : list sop) : dict :=
  match sops with
  | [] => d
  | so :: r => match nd_step py_split d so with Some res => nd_run (s_cont res) r | None => nd_run d r end
  end.

(* every operation that is not atomic succeeds on the nested dict (the replay of a failing multi-step operation is
   not determined by the property) *)
Fixpoint nd_ok (d : dict) (ops : list op) (sops : list sop) : Prop :=
  match ops, sops with
  | o :: ro, so :: rs =>
      match nd_step py_split d so with
      | Some res => nd_ok (s_cont res) ro rs
      | None => atomic o /\ nd_ok d ro rs
      end
  | _, _ => True
  end.

Theorem history : forall ops sops es, wfE es ->
  Forall2 (fun o so => abs_op o = Some so /\ in_scope o /\ values_wf o) ops sops ->
  nd_ok (absE es) ops sops ->
  absE (run es ops) = nd_run (absE es) sops /\ wfE (run es ops).
Proof.
  intros ops sops es W F. revert es W. induction F as [|o so ops sops [A [S V]] F IH]; intros es W OK; [now split|].
  cbn [run nd_run]. cbn [nd_ok] in OK.
  pose proof (refine_step es o so W A S) as R. pose proof (step_wf es o so W A S V) as W'.
  destruct (nd_step py_split (absE es) so) as [res|].
  - destruct R as [_ R]. rewrite <- R in *. cbn [abs_sres s_cont] in *. exact (IH _ W' OK).
  - destruct OK as [AT OK]. destruct R as [_ R]. rewrite (R AT) in *. exact (IH _ W OK).
Qed.
