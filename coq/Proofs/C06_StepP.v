(* C06 — every step of a clean history keeps the invariant; the theorems over arbitrary histories. *)
From Coq Require Import ZArith List String Bool Arith Lia.
Import ListNotations.
From TD Require Import Model.C06_Cache Proofs.C06_PathP Proofs.C06_ViewP Proofs.C06_KeyP Proofs.C06_CacheP Proofs.C06_EraseP Proofs.C06_ReadP.
Open Scope string_scope.
Open Scope list_scope.

(* ---------------------------------------------------------------- in-place writes *)
Lemma inplace_good : forall U s st', Good U s -> Good U {| nodes := nodes s; leaves := leaves s; store := st' |}.
Proof.
  intros U s st' G. constructor; cbn; try apply G.
  intros n e Hn He. eapply entry_ok_view; [reflexivity| |apply (g_inv U s G n e Hn He)].
  apply view_eq; [reflexivity|reflexivity|left; eapply good_all_td; eauto].
Qed.

(* ---------------------------------------------------------------- structural writes (the owner is unlocked) *)
Lemma NoDup_map_filter : forall {A B} (f : A -> B) (g : A -> bool) l, NoDup (map f l) -> NoDup (map f (filter g l)).
Proof.
  intros A B f g l. induction l as [|x l IH]; cbn; intros ND; [constructor|]. inversion ND as [|? ? Hx ND']; subst.
  destruct (g x); cbn; [constructor|]; auto. intros Hin. apply Hx. apply in_map_iff in Hin. destruct Hin as [y [E Hy]].
  apply filter_In in Hy. apply in_map_iff. exists y. tauto.
Qed.

Lemma proper_prefix_parent : forall a p, proper_prefix a p = true -> is_prefix a (parent_of p) = true.
Proof.
  intros a p H. apply proper_prefix_iff in H. destruct H as [x [r ->]]. unfold parent_of.
  destruct (@exists_last _ (x :: r)) as [q [k E]]; [discriminate|]. rewrite E. rewrite app_assoc. rewrite removelast_last.
  apply is_prefix_iff. now exists q.
Qed.

(* a locked node neither lies above the entry that is written (its owner would be locked) ... *)
Lemma locked_not_above : forall U s p o n,
  Good U s -> find_node s (parent_of p) = Some o -> flag_locked o = false -> In n (nodes s) -> flag_locked n = true ->
  is_prefix p (n_path n) = false -> is_prefix (n_path n) p = false.
Proof.
  intros U s p o n G F Lo Hn Ln Pn. destruct (is_prefix (n_path n) p) eqn:E; [|reflexivity]. exfalso.
  destruct (prefix_split _ _ E) as [E'|E'].
  - rewrite E' in Pn. rewrite is_prefix_refl in Pn. discriminate.
  - destruct (find_node_in s _ o F) as [Ho Po]. assert (flag_locked o = true).
    { eapply (g_lc U s G n o); eauto. rewrite Po. now apply proper_prefix_parent. }
    congruence.
Qed.

Definition keep_n (p : path) (pi : path * ninfo) : bool := negb (is_prefix p (fst pi)).
Definition keep_l (p : path) (ql : path * leaf) : bool := negb (is_prefix p (fst ql)).

(* a state obtained by rewriting only what lies at or below p, keeping the nodes outside *)
Lemma rewrite_below_good : forall U s s' p o,
  Good U s -> find_node s (parent_of p) = Some o -> flag_locked o = false ->
  (forall n, In n (nodes s') -> (In n (nodes s) /\ is_prefix p (n_path n) = false)
                                \/ (n_path n = p /\ n_kind n = NTD /\ n_flag n = Some false /\ n_cache n = [])) ->
  NoDup (map n_path (nodes s')) ->
  filter (keep_n p) (skel s') = filter (keep_n p) (skel s) ->
  filter (keep_l p) (leaves s') = filter (keep_l p) (leaves s) ->
  Good U s'.
Proof.
  intros U s s' p o G F Lo Hnodes ND Hs Hl.
  assert (TD' : all_td s').
  { intros n Hn. destruct (Hnodes n Hn) as [[H _]|[_ [H _]]]; [now destruct (g_td U s G n H)|assumption]. }
  assert (NewUnlocked : forall n, In n (nodes s') -> flag_locked n = true -> In n (nodes s) /\ is_prefix p (n_path n) = false).
  { intros n Hn L. destruct (Hnodes n Hn) as [H|[_ [_ [Fl _]]]]; [assumption|]. unfold flag_locked in L. rewrite Fl in L. discriminate. }
  constructor.
  - exact ND.
  - intros n Hn. destruct (Hnodes n Hn) as [[H _]|[_ [K [Fl _]]]]; [now apply (g_td U s G)|]. split; [assumption|]. rewrite Fl. discriminate.
  - intros n x Hn Hx L P. destruct (NewUnlocked n Hn L) as [Hn0 Pn].
    destruct (Hnodes x Hx) as [[Hx0 _]|[Px _]].
    + eapply (g_lc U s G n x); eauto.
    + exfalso. rewrite Px in P. assert (is_prefix (n_path n) p = false) by (eapply locked_not_above; eauto). congruence.
  - intros n x Hn Hx L P. destruct (NewUnlocked n Hn L) as [Hn0 Pn].
    destruct (Hnodes x Hx) as [[Hx0 _]|[Px _]].
    + eapply (g_pc U s G n x); eauto.
    + exfalso. rewrite Px in P. assert (is_prefix (n_path n) p = false) by (eapply locked_not_above; eauto).
      apply proper_is_prefix in P. congruence.
  - intros n Hn L. destruct (Hnodes n Hn) as [[H _]|[_ [_ [_ C]]]]; [now apply (g_ue U s G)|assumption].
  - intros n e Hn He. destruct (Hnodes n Hn) as [[Hn0 Pn]|[_ [_ [_ C]]]]; [|rewrite C in He; contradiction].
    assert (Ln : flag_locked n = true).
    { destruct (flag_locked n) eqn:L; [reflexivity|]. rewrite (g_ue U s G n Hn0 L) in He. contradiction. }
    assert (Pn' : is_prefix (n_path n) p = false) by (eapply locked_not_above; eauto).
    eapply entry_ok_view; [reflexivity| |apply (g_inv U s G n e Hn0 He)].
    apply (view_irrelevant s s' (n_path n) p Pn' Pn); auto. eapply good_all_td; eauto.
Qed.

Lemma NoDup_app_one : forall {A} (l : list A) x, NoDup l -> ~ In x l -> NoDup (l ++ [x]).
Proof.
  intros A l x ND H. induction l as [|y l IH]; cbn; [constructor; [intros []|constructor]|].
  inversion ND as [|? ? Hy ND']; subst. constructor.
  - intros Hin. apply in_app_or in Hin. destruct Hin as [Hin|[->|[]]]; [contradiction|]. apply H. now left.
  - apply IH; [assumption|]. intros Hin. apply H. now right.
Qed.

Lemma filter_keep_map_filter : forall p (l : list node),
  filter (keep_n p) (map (fun n => (n_path n, info n)) (filter (fun n => negb (is_prefix p (n_path n))) l))
  = filter (keep_n p) (map (fun n => (n_path n, info n)) l).
Proof.
  intros p l. induction l as [|x l IH]; [reflexivity|]. cbn [filter map].
  destruct (is_prefix p (n_path x)) eqn:E; cbn [negb filter map].
  - rewrite IH. unfold keep_n at 2. cbn [fst]. rewrite E. reflexivity.
  - rewrite IH. reflexivity.
Qed.

Lemma filter_keep_filter : forall {A} (f g : A -> bool) l, (forall x, f x = true -> g x = true) -> filter f (filter g l) = filter f l.
Proof.
  intros A f g l H. induction l as [|x l IH]; cbn; [reflexivity|].
  destruct (g x) eqn:G; cbn.
  - destruct (f x); now rewrite IH.
  - destruct (f x) eqn:Fx; [rewrite (H x Fx) in G; discriminate|assumption].
Qed.

Lemma keep_l_not_proper : forall p (x : path * leaf), keep_l p x = true -> negb (proper_prefix p (fst x)) = true.
Proof.
  intros p x H. unfold keep_l in H. apply negb_true_iff in H. apply negb_true_iff.
  destruct (proper_prefix p (fst x)) eqn:E; [|reflexivity]. apply proper_is_prefix in E. congruence.
Qed.

Lemma keep_l_set_leaf : forall p l L,
  filter (keep_l p) (if existsb (fun ql => path_eqb (fst ql) p) L then map (fun ql => if path_eqb (fst ql) p then (p, l) else ql) L else L ++ [(p, l)])
  = filter (keep_l p) L.
Proof.
  intros p l L. destruct (existsb (fun ql => path_eqb (fst ql) p) L).
  - apply (filter_map_cond (keep_l p) (fun ql => path_eqb (fst ql) p) (fun _ => (p, l))).
    intros x C. apply path_eqb_eq in C. unfold keep_l. cbn. rewrite C, is_prefix_refl. auto.
  - rewrite filter_app. cbn. unfold keep_l at 2. cbn. rewrite is_prefix_refl. cbn. apply app_nil_r.
Qed.

Lemma set_good : forall U s p l o,
  Good U s -> p <> [] -> find_node s (parent_of p) = Some o -> flag_locked o = false ->
  Good U (set_leaf (remove_below s p) p l).
Proof.
  intros U s p l o G Np F Lo. eapply (rewrite_below_good U s _ p o G F Lo).
  - intros n Hn. left. cbn in Hn. apply filter_In in Hn. destruct Hn as [H1 H2]. apply negb_true_iff in H2. auto.
  - cbn. apply NoDup_map_filter. apply (g_nodup U s G).
  - unfold skel. cbn. apply filter_keep_map_filter.
  - cbn. rewrite keep_l_set_leaf. apply filter_keep_filter. apply keep_l_not_proper.
Qed.

Lemma del_good : forall U s p o,
  Good U s -> find_node s (parent_of p) = Some o -> flag_locked o = false -> Good U (remove_under s p).
Proof.
  intros U s p o G F Lo. eapply (rewrite_below_good U s _ p o G F Lo).
  - intros n Hn. left. cbn in Hn. apply filter_In in Hn. destruct Hn as [H1 H2]. apply negb_true_iff in H2. auto.
  - cbn. apply NoDup_map_filter. apply (g_nodup U s G).
  - unfold skel. cbn. apply filter_keep_map_filter.
  - cbn. apply filter_keep_filter. intros x H. exact H.
Qed.

Lemma setnode_good : forall U s p uid meta o,
  Good U s -> find_node s (parent_of p) = Some o -> flag_locked o = false ->
  Good U {| nodes := nodes (remove_under s p) ++ [new_node p uid meta false false []]; leaves := leaves (remove_under s p); store := store (remove_under s p) |}.
Proof.
  intros U s p uid meta o G F Lo. eapply (rewrite_below_good U s _ p o G F Lo).
  - intros n Hn. cbn in Hn. apply in_app_or in Hn. destruct Hn as [Hn|[<-|[]]].
    + left. apply filter_In in Hn. destruct Hn as [H1 H2]. apply negb_true_iff in H2. auto.
    + right. repeat split; reflexivity.
  - cbn. rewrite map_app. cbn. apply NoDup_app_one.
    + apply NoDup_map_filter. apply (g_nodup U s G).
    + intros Hin. apply in_map_iff in Hin. destruct Hin as [y [E Hy]]. apply filter_In in Hy. destruct Hy as [_ Hy].
      rewrite E, is_prefix_refl in Hy. discriminate.
  - unfold skel. cbn. rewrite map_app, filter_app. cbn. unfold keep_n at 2. cbn. rewrite is_prefix_refl. cbn. rewrite app_nil_r.
    apply filter_keep_map_filter.
  - cbn. apply filter_keep_filter. intros x H. exact H.
Qed.

(* ---------------------------------------------------------------- one step of a clean history *)
(* the writes a clean history contains: in-place value writes, and structural writes (which the library refuses under lock) *)
Definition clean_op (U : list obj) (o : op) : Prop :=
  match o with
  | OLock _ | OUnlock _ | OInplace _ _ | OSet _ _ | OSetNode _ _ _ | ODel _ => True
  | ORead _ m a k => read_ok U m a k
  | OPromote _ _ | OMakeMemmap _ _ | OMakeMemmapNested _ _ _ _ | OMemmap _ _ | OSetNames _ _ | OSetBatchSize _ _ => False
  end.

Lemma owner_unlocked : forall U s p, Good U s -> owner_locked s p = Some false ->
  exists o, find_node s (parent_of p) = Some o /\ flag_locked o = false.
Proof.
  intros U s p G H. unfold owner_locked in H. destruct (find_node s (parent_of p)) as [o|] eqn:F; [|discriminate].
  exists o. split; [reflexivity|]. destruct (find_node_in s _ o F) as [Ho _]. destruct (g_td U s G o Ho) as [_ Fl].
  rewrite (node_locked_td s o Fl) in H. now inversion H.
Qed.

Theorem step_good_any : forall fx U hk s o, objs_consistent U -> Good U s -> clean_op U o -> Good U (fst (step fx hk s o)).
Proof.
  intros fx U hk s o HU G C. destruct o; cbn [clean_op] in C; try contradiction; cbn [step].
  - now apply lock_good.
  - now apply unlock_good.
  - destruct (read_spec U hk s p m args kwargs HU G C) as [G' _].
    destruct (read hk s p m args kwargs) as [s' [x|]]; exact G'.
  - destruct (find_leaf s p) as [l|]; [|exact G]. destruct (l_kind l); cbn [fst]; try exact G; try (now apply inplace_good).
    destruct (fix_rebind fx); cbn [andb]; [|now apply inplace_good].
    unfold locked_at. destruct (find_node s (parent_of p)) as [o|] eqn:F; [|now apply inplace_good].
    destruct (flag_locked o) eqn:L; [|now apply inplace_good]. eapply erase_after_store_good; eauto.
  - destruct p as [|x p]; [exact G|]. destruct (owner_locked s (x :: p)) as [[|]|] eqn:O; try exact G.
    destruct (owner_unlocked U s _ G O) as [o [F L]]. cbn [fst]. eapply set_good; eauto. discriminate.
  - destruct p as [|x p]; [exact G|]. destruct (owner_locked s (x :: p)) as [[|]|] eqn:O; try exact G.
    destruct (owner_unlocked U s _ G O) as [o [F L]]. cbn [fst]. eapply setnode_good; eauto.
  - destruct p as [|x p]; [exact G|]. destruct (owner_locked s (x :: p)) as [[|]|] eqn:O; try exact G.
    destruct (owner_unlocked U s _ G O) as [o [F L]].
    destruct (is_node_path s (x :: p) || match find_leaf s (x :: p) with Some _ => true | None => false end); [|exact G].
    cbn [fst]. eapply del_good; eauto.
Qed.

Theorem step_good : forall U hk s o, objs_consistent U -> Good U s -> clean_op U o -> Good U (fst (step repo hk s o)).
Proof. intros. now apply step_good_any. Qed.

Theorem run_good : forall U hk ops s, objs_consistent U -> Good U s -> Forall (clean_op U) ops -> Good U (run repo hk s ops).
Proof.
  intros U hk ops. induction ops as [|o ops IH]; intros s HU G F; [exact G|].
  inversion F; subst. unfold run. cbn. apply IH; auto. now apply step_good.
Qed.

Lemma run_app : forall fx hk s a b, run fx hk s (a ++ b) = run fx hk (run fx hk s a) b.
Proof. intros. unfold run. apply fold_left_app. Qed.

(* cache_sound_partial: in every state reachable by a history whose writes under lock are in-place value writes (structural
   writes are refused by the library while locked; unlock / lock cycles are allowed anywhere), every memoised read — hit or
   miss, with the hook on or off — returns exactly what a fresh computation returns in that state *)
Theorem cache_sound_partial : forall U hk s ops,
  objs_consistent U -> Good U s -> Forall (clean_op U) ops ->
  forall pre p m a k post, ops = pre ++ ORead p m a k :: post ->
  forall acc v b, snd (read hk (run repo hk s pre) p m a k) = Some (acc, v, b) ->
  exists n, find_node (run repo hk s pre) p = Some n /\ v = fresh (run repo hk s pre) n m a k.
Proof.
  intros U hk s ops HU G F pre p m a k post E acc v b R. subst ops.
  apply Forall_app in F. destruct F as [Fpre Fpost]. inversion Fpost as [|? ? C _]; subst.
  assert (G1 : Good U (run repo hk s pre)) by now apply run_good.
  destruct (read_spec U hk _ p m a k HU G1 C) as [_ [_ S]]. destruct (S acc v b R) as [n [Fn [Ev _]]]. now exists n.
Qed.

(* ... and the object the caller got keeps showing what a fresh call shows while further in-place writes happen *)
Lemma run_cons : forall fx hk s o ops, run fx hk s (o :: ops) = run fx hk (fst (step fx hk s o)) ops.
Proof. reflexivity. Qed.

Lemma inplace_step_shape : forall fx hk s q z, exists f,
  (forall n, n_path (f n) = n_path n /\ info (f n) = info n)
  /\ nodes (fst (step fx hk s (OInplace q z))) = map f (nodes s) /\ leaves (fst (step fx hk s (OInplace q z))) = leaves s.
Proof.
  intros fx hk s q z. cbn [step].
  assert (Id : exists f : node -> node, (forall n, n_path (f n) = n_path n /\ info (f n) = info n) /\ nodes s = map f (nodes s) /\ leaves s = leaves s).
  { exists (fun x => x). split; [intros; split; reflexivity|split; [now rewrite map_id|reflexivity]]. }
  destruct (find_leaf s q) as [l|]; [|exact Id]. destruct (l_kind l); cbn [fst]; try exact Id.
  destruct (fix_rebind fx && locked_at s (parent_of q)); [|exact Id].
  eexists. split; [|split; [reflexivity|reflexivity]].
  intros n. cbn beta. destruct (_ || _); split; reflexivity.
Qed.

Theorem held_result_tracks_inplace : forall U hk writes s p n m a k,
  objs_consistent U -> Good U s -> find_node s p = Some n ->
  exists n', find_node (run repo hk s (map (fun pv => OInplace (fst pv) (snd pv)) writes)) p = Some n'
             /\ fresh (run repo hk s (map (fun pv => OInplace (fst pv) (snd pv)) writes)) n' m a k = fresh s n m a k.
Proof.
  intros U hk writes. induction writes as [|[q z] ws IH]; intros s p n m a k HU G F.
  - exists n. split; [assumption|reflexivity].
  - cbn [map fst snd]. rewrite run_cons.
    set (s1 := fst (step repo hk s (OInplace q z))).
    destruct (inplace_step_shape repo hk s q z) as [f [Kf [En El]]]. fold s1 in En, El.
    assert (G1 : Good U s1) by (apply step_good_any; auto; exact I).
    assert (F1 : find_node s1 p = Some (f n)).
    { unfold find_node. rewrite En. rewrite find_map; [|intros; apply Kf]. unfold find_node in F. now rewrite F. }
    destruct (IH s1 p (f n) m a k HU G1 F1) as [n' [Fn' Ef]]. exists n'. split; [exact Fn'|].
    rewrite Ef. unfold fresh. rewrite (proj1 (Kf n)). f_equal.
    apply view_eq; [|assumption|left; eapply good_all_td; eauto].
    unfold skel. rewrite En, map_map. apply map_ext. intros x. destruct (Kf x) as [A B]. now rewrite A, B.
Qed.

(* ---------------------------------------------------------------- unlock erases *)
Lemma in_map_nodes : forall (f : node -> node) l n', In n' (map f l) -> exists n, In n l /\ n' = f n.
Proof. intros f l n' H. apply in_map_iff in H. destruct H as [n [E Hn]]. now exists n. Qed.

(* unlock_erases: whatever the state, after unlock_ of node p — accepted or refused — no node at or below p holds a
   memoised entry; lock_ never adds one *)
Lemma punlock_f_cache : forall p n, n_cache (punlock_f p n) = if is_prefix p (n_path n) then [] else n_cache n.
Proof. intros. unfold punlock_f. destruct (is_prefix p (n_path n)); reflexivity. Qed.

Lemma cparents_f_cache : forall p n, n_cache (cparents_f p n) = n_cache n.
Proof. intros. unfold cparents_f. destruct (is_prefix p (n_path n) && nkind_eqb (n_kind n) NTD); reflexivity. Qed.

Lemma punlock_kf_cache : forall k p n, n_cache (punlock_kf k p n) = if is_prefix p (n_path n) then [] else n_cache n.
Proof. intros. unfold punlock_kf. destruct (is_prefix p (n_path n)); reflexivity. Qed.

Theorem unlock_erases : forall fx s p n,
  In n (nodes (fst (unlock_ fx s p))) -> is_prefix p (n_path n) = true -> snd (unlock_ fx s p) <> NoSuchTarget -> n_cache n = [].
Proof.
  intros fx s p n Hn P NT. unfold unlock_ in *. destruct (find_node s p) as [n0|]; [|cbn in NT; contradiction].
  destruct (unlock_blocked (propagate_unlock s p) p); cbn [fst] in Hn.
  - rewrite propagate_lock_eq in Hn. apply in_upd in Hn. destruct Hn as [x [Hx ->]].
    change (propagate_unlock_k (fix_unlockflags fx) s p) with (upd_nodes s (punlock_kf (fix_unlockflags fx) p)) in Hx.
    apply in_upd in Hx. destruct Hx as [y [Hy ->]].
    rewrite plock_f_cache, punlock_kf_cache.
    rewrite (proj1 (plock_f_keeps _ p _)), (proj1 (punlock_kf_keeps _ p y)) in P. now rewrite P.
  - change (clear_parents (propagate_unlock s p) p) with (upd_nodes (upd_nodes s (punlock_f p)) (cparents_f p)) in Hn.
    apply in_upd in Hn. destruct Hn as [x [Hx ->]]. apply in_upd in Hx. destruct Hx as [y [Hy ->]].
    rewrite cparents_f_cache, punlock_f_cache.
    rewrite (proj1 (cparents_f_keeps p _)), (proj1 (punlock_f_keeps p y)) in P. now rewrite P.
Qed.

Theorem lock_adds_no_entry : forall fx s p n', In n' (nodes (fst (lock_ fx s p))) -> exists n, In n (nodes s) /\ n_path n' = n_path n /\ n_cache n' = n_cache n.
Proof.
  intros fx s p n' H. unfold lock_ in H. destruct (find_node s p) as [n0|]; [|now exists n'].
  destruct (if fix_lockflag fx then flag_locked n0 else node_locked s n0); cbn in H; [now exists n'|].
  apply in_map_nodes in H. destruct H as [n [Hn ->]]. exists n. split; [assumption|].
  destruct (is_prefix p (n_path n)); split; reflexivity.
Qed.

(* ---------------------------------------------------------------- the decorator's two side conditions *)
Theorem not_consulted_when_unlocked : forall s p n m a k v,
  find_node s p = Some n -> node_locked s n = false -> decorate s p m a k v = (s, Some (Bypass, v)).
Proof. intros s p n m a k v F L. unfold decorate, cache_active. now rewrite F, L. Qed.

Theorem tensor_never_stored : forall s p m a k, fst (decorate s p m a k VTensor) = s.
Proof.
  intros s p m a k. unfold decorate. destruct (find_node s p) as [n|]; [|reflexivity].
  destruct (cache_active s n); [|reflexivity]. cbn. destruct (cache_lookup (n_cache n) m (make_cache_key a k)); reflexivity.
Qed.
