(* C05 — refutation witnesses (defects of the unchanged code, replayed against the implementation by the harness),
   the pickle round-trip lemma and the finite table lemma. *)
From Coq Require Import List String Bool Arith PeanoNat.
Import ListNotations.
From TD Require Import Model.C05_Heap Model.C05_Lock Spec.C05_LockSpec
  Proofs.C05_HeapP Proofs.C05_LockP Proofs.C05_InvP Proofs.C05_StepP Proofs.C05_FrozenP Gen.C05_Tables.
Open Scope string_scope.

Lemma invariant_reachable : forall ff ops s' outs, Forall in_scope ops -> run ff init ops = Some (s', outs) -> Inv s'.
Proof. intros ff ops s' outs SC H. eapply run_inv; [apply Inv_init|exact SC|exact H]. Qed.

Lemma pickle_relocks : forall fuel s n s' nd,
  Inv s -> exists_live s n = true -> lookup (hp s) n = Some nd -> flg nd = FTrue ->
  step fuel s (OPickle n) = Some (s', Done) ->
  Inv s' /\ flag_true (hp s') (pred (nxt s')) = true /\ kept_all (hp s) (hp s') /\ dead s' = dead s.
Proof.
  intros fuel s n s' nd HI X E F H.
  assert (HI' : Inv s') by (eapply step_inv; [exact HI| |exact H]; exact I).
  cbn [step] in H. rewrite X in H. cbn [negb] in H.
  destruct (pcopy fuel fuel s [] n) as [[[s1 m1] c1]|] eqn:P; [|discriminate]. inversion H. subst s1.
  destruct (pcopy_top_flag _ _ _ _ _ _ _ _ HI P E F) as [-> Fc].
  destruct (pcopy_kept _ _ _ _ _ _ _ _ P) as [K D]. auto.
Qed.

Definition locked_frozen_full_statement : Prop := forall fuel s o s' out r,
  Inv s -> in_scope o -> step fuel s o = Some (s', out) -> (forall n k, o <> OMakeMemmap n k) -> (forall n, o <> OMemmap n) ->
  flag_true (hp s) r = true -> live s r = true -> no_mm (hp s) r -> tree_unchanged (hp s) (hp s') r.

Definition d8_hist : list op := [ONewTd; OSet 0 "a" VLeaf; OLock 0].
Definition d8_state : st := match run auto_fuel init d8_hist with Some (s, _) => s | None => init end.

Lemma locked_frozen_refuted_D8 : fixed_D8 = false -> ~ locked_frozen_full_statement.
Proof.
  intros Hsw; first [discriminate Hsw|idtac]. intros Hfull.
  assert (R : run auto_fuel init d8_hist = Some (d8_state, [Done; Done; Done])) by (vm_compute; reflexivity).
  assert (HI : Inv d8_state).
  { eapply invariant_reachable; [|exact R]. repeat constructor. }
  assert (St : step 5 d8_state (OExclude 0 ["a"]) = Some (set_node_ents d8_state 0 [], Done)) by (vm_compute; reflexivity).
  specialize (Hfull 5 d8_state (OExclude 0 ["a"]) _ _ 0 HI I St).
  assert (TU : tree_unchanged (hp d8_state) (hp (set_node_ents d8_state 0 [])) 0).
  { apply Hfull; try (intros; discriminate); try (vm_compute; reflexivity).
    intros x nd Rx E. assert (x = 0).
    { inversion Rx as [|a c m Hc _]; subst; [reflexivity|]. vm_compute in Hc. destruct Hc. }
    subst x. vm_compute in E. inversion E. reflexivity. }
  specialize (TU 0 (Reach_refl _ 0)). vm_compute in TU. destruct TU as [_ TU]. discriminate.
Qed.

Definition member_cannot_unlock_full_statement : Prop := forall fuel s q n s' out,
  Inv s -> child (hp s) q n -> flag_true (hp s) q = true -> live s q = true ->
  step fuel s (OUnlock n) = Some (s', out) -> out = Raised ELock.

Definition d7_hist : list op := [ONewTd; OSet 0 "n" VNewTd; OMemmap 0].
Definition d7_state : st := match run auto_fuel init d7_hist with Some (s, _) => s | None => init end.

Lemma member_cannot_unlock_refuted_D7 : fixed_D7 = false -> ~ member_cannot_unlock_full_statement.
Proof.
  intros Hsw; first [discriminate Hsw|idtac]. intros Hfull.
  assert (R : run auto_fuel init d7_hist = Some (d7_state, [Done; Done; Done])) by (vm_compute; reflexivity).
  assert (HI : Inv d7_state) by (eapply invariant_reachable; [|exact R]; repeat constructor).
  assert (St : exists s', step 6 d7_state (OUnlock 1) = Some (s', Done)) by (vm_compute; eexists; reflexivity).
  destruct St as [s' St].
  assert (Done = Raised ELock); [|discriminate].
  apply (Hfull 6 d7_state 0 1 s' Done HI); try (vm_compute; reflexivity); [|exact St].
  vm_compute. left. reflexivity.
Qed.

Definition d55_hist : list op := [ONewTd; ONewTd; OLock 0; OLock 1; ONewLazy [0; 1]; OLock 2].
Definition d55_state : st := match run auto_fuel init d55_hist with Some (s, _) => s | None => init end.
Definition d55_after : st := match step 9 d55_state (OUnlock 0) with Some (s, _) => s | None => init end.
Lemma lazy_lock_noop_refuted_D55 :
  option_map snd (run auto_fuel init d55_hist) = Some [Done; Done; Done; Done; Done; Done] /\
  is_locked 9 (hp d55_state) 2 = Some true /\ child (hp d55_state) 2 0 /\
  option_map snd (step 9 d55_state (OUnlock 0)) = Some Done /\ is_locked 9 (hp d55_after) 2 = Some false.
Proof. vm_compute. repeat split. left. reflexivity. Qed.

Definition d56_hist : list op := [ONewTd; ONewLazy []; OSet 0 "L" (VNode 1); OLock 0; OUnlock 1; ONewTd; OAppend 1 2].
Definition d56_state : st := match run auto_fuel init d56_hist with Some (s, _) => s | None => init end.
Lemma hollow_lazy_refuted_D56 :
  option_map snd (run auto_fuel init d56_hist) = Some [Done; Done; Done; Done; Done; Done; Done] /\
  flag_true (hp d56_state) 0 = true /\ child (hp d56_state) 0 1 /\ children (hp d56_state) 1 = [2].
Proof. vm_compute. repeat split. left. reflexivity. Qed.

Definition key3 := (string * string * string)%type.
Definition key3_eqb (a b : key3) : bool :=
  let '(a1, a2, a3) := a in let '(b1, b2, b3) := b in String.eqb a1 b1 && String.eqb a2 b2 && String.eqb a3 b3.
Definition mem3 (k : key3) (l : list key3) : bool := existsb (key3_eqb k) l.

(* construction and documented storage conversion: not reachable as a mutation of a locked tree *)
Definition deliberate : list key3 :=
  [("_td.py", "TensorDict", "__init__"); ("_td.py", "TensorDict", "_new_unsafe"); ("_td.py", "TensorDict", "_set_dict");
   ("_td.py", "TensorDict", "_memmap_"); ("_td.py", "TensorDict", "_make_memmap_subtd"); ("_td.py", "_SubTensorDict", "__init__");
   ("_lazy.py", "LazyStackedTensorDict", "__init__"); ("_lazy.py", "LazyStackedTensorDict", "_new_lazy_unsafe");
   ("nn/params.py", "TensorDictParams", "__init__"); ("nn/params.py", "TensorDictParams", "_new_unsafe");
   ("tensorclass.py", "tensorclass", "_memmap_"); ("tensorclass.py", "tensorclass", "_setstate")].
(* recorded defects (findings.d/C05.json): D8, D8 (lazy), D51, D57, D52 *)
Definition known_unguarded : list key3 :=
  [("_td.py", "TensorDict", "_exclude"); ("_lazy.py", "LazyStackedTensorDict", "_exclude");
   ("_lazy.py", "LazyStackedTensorDict", "expand"); ("_lazy.py", "LazyStackedTensorDict", "__setitem__");
   ("nn/params.py", "TensorDictParams", "_apply")].

Definition row_ok (r : string * string * string * guard) : bool :=
  let '(f, c, m, g) := r in
  match g with
  | GDecorator | GInline => true
  | GNone => mem3 (f, c, m) deliberate || mem3 (f, c, m) known_unguarded
  end.

Lemma guard_table : forallb row_ok storage_writers = true.
Proof. vm_compute. reflexivity. Qed.

Lemma guard_table_core :
  forallb (fun k => existsb (fun r => let '(f, c, m, g) := r in key3_eqb (f, c, m) k && match g with GNone => false | _ => true end) storage_writers)
          [("_td.py", "TensorDict", "_set_str"); ("_td.py", "TensorDict", "_select"); ("_td.py", "TensorDict", "del_");
           ("_td.py", "TensorDict", "popitem"); ("_lazy.py", "LazyStackedTensorDict", "insert")] = true
  /\ forallb (fun k => mem3 k lock_blocked_methods)
          [("_td.py", "TensorDict", "del_"); ("_td.py", "TensorDict", "popitem"); ("_td.py", "TensorDict", "rename_key_");
           ("base.py", "TensorDictBase", "clear"); ("base.py", "TensorDictBase", "update"); ("base.py", "TensorDictBase", "create_nested");
           ("_lazy.py", "LazyStackedTensorDict", "insert"); ("_lazy.py", "LazyStackedTensorDict", "append")] = true.
Proof. vm_compute. split; reflexivity. Qed.
