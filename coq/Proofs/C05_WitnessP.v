(* C05 — the pickle round-trip lemma, concrete regression witnesses of the repaired defects (D7, D8, D55, D56: the histories
   that used to refute the full statements now satisfy them) and the finite table lemma. *)
From Coq Require Import List String Bool Arith PeanoNat.
Import ListNotations.
From TD Require Import Model.C05_Heap Model.C05_Lock Spec.C05_LockSpec
  Proofs.C05_HeapP Proofs.C05_LockP Proofs.C05_InvP Proofs.C05_StepP Proofs.C05_FrozenP Gen.C05_Tables.
Open Scope string_scope.

Lemma invariant_reachable : forall ff ops s' outs, run ff init ops = Some (s', outs) -> Inv s'.
Proof. intros ff ops s' outs H. eapply run_inv; [apply Inv_init|exact H]. Qed.

Lemma pickle_relocks : forall fuel s n s' nd,
  Inv s -> exists_live s n = true -> lookup (hp s) n = Some nd -> flg nd = FTrue ->
  step fuel s (OPickle n) = Some (s', Done) ->
  Inv s' /\ flag_true (hp s') (pred (nxt s')) = true /\ kept_all (hp s) (hp s') /\ dead s' = dead s.
Proof.
  intros fuel s n s' nd HI X E F H.
  assert (HI' : Inv s') by (eapply step_inv; [exact HI|exact H]).
  cbn [step] in H. rewrite X in H. cbn [negb] in H.
  destruct (pcopy fuel fuel s [] n) as [[[s1 m1] c1]|] eqn:P; [|discriminate]. inversion H. subst s1.
  destruct (pcopy_top_flag _ _ _ _ _ _ _ _ HI P E F) as [-> Fc].
  destruct (pcopy_kept _ _ _ _ _ _ _ _ P) as [K D]. auto.
Qed.

Definition outcome_of (r : option (st * outcome)) : option outcome := option_map snd r.
Definition state_after (s : st) (ops : list op) : st := match run auto_fuel s ops with Some (s', _) => s' | None => s end.

(* D8 (repaired): exclude(inplace=True) on a locked node raises and changes nothing *)
Definition d8_state : st := state_after init [ONewTd; OSet 0 "a" VLeaf; OLock 0].
Lemma regression_D8 : step 5 d8_state (OExclude 0 ["a"]) = Some (d8_state, Raised ELock).
Proof. vm_compute. reflexivity. Qed.

(* D7 (repaired): after memmap_ a nested node cannot be unlocked on its own *)
Definition d7_state : st := state_after init [ONewTd; OSet 0 "n" VNewTd; OMemmap 0].
Lemma regression_D7 : outcome_of (step 6 d7_state (OUnlock 1)) = Some (Raised ELock) /\ flag_true (hp d7_state) 1 = true.
Proof. vm_compute. split; reflexivity. Qed.

(* D55 (repaired): lock_() on a lazy stack whose members were locked first registers the stack as their lock parent *)
Definition d55_state : st := state_after init [ONewTd; ONewTd; OLock 0; OLock 1; ONewLazy [0; 1]; OLock 2].
Lemma regression_D55 : outcome_of (step 9 d55_state (OUnlock 0)) = Some (Raised ELock) /\ flag_true (hp d55_state) 2 = true.
Proof. vm_compute. split; reflexivity. Qed.

(* D56 (repaired): a lazy stack without members inside a locked tree records its parents: unlock_ and append raise *)
Definition d56_state : st := state_after init [ONewTd; ONewLazy []; OSet 0 "L" (VNode 1); OLock 0; ONewTd].
Lemma regression_D56 : outcome_of (step 9 d56_state (OUnlock 1)) = Some (Raised ELock) /\ outcome_of (step 9 d56_state (OAppend 1 2)) = Some (Raised ELock).
Proof. vm_compute. split; reflexivity. Qed.

(* ---- guard table -------------------------------------------------------------------------------------------------------- *)
Definition key3 := (string * string * string)%type.
Definition key3_eqb (a b : key3) : bool :=
  let '(a1, a2, a3) := a in let '(b1, b2, b3) := b in String.eqb a1 b1 && String.eqb a2 b2 && String.eqb a3 b3.
Definition mem3 (k : key3) (l : list key3) : bool := existsb (key3_eqb k) l.

(* construction and documented storage conversion: not reachable as a mutation of a locked tree *)
Definition deliberate : list key3 :=
  [("_td.py", "TensorDict", "__init__"); ("_td.py", "TensorDict", "_new_unsafe"); ("_td.py", "TensorDict", "_set_dict");
   ("_td.py", "TensorDict", "_memmap_"); ("_td.py", "TensorDict", "_make_memmap_subtd"); ("_td.py", "_SubTensorDict", "__init__");
   ("_lazy.py", "LazyStackedTensorDict", "__init__"); ("_lazy.py", "LazyStackedTensorDict", "_new_lazy_unsafe");
   ("nn/params.py", "TensorDictParams", "__init__"); ("nn/params.py", "TensorDictParams", "_new_unsafe");
   ("tensorclass.py", "tensorclass", "_memmap_"); ("tensorclass.py", "tensorclass", "_setstate")].
(* recorded finding (findings.d/C05.json): D52, nn.Module._apply replaces the parameters of a TensorDictParams by design *)
Definition known_unguarded : list key3 := [("nn/params.py", "TensorDictParams", "_apply")].

Definition row_ok (r : string * string * string * guard) : bool :=
  let '(f, c, m, g) := r in
  match g with
  | GDecorator | GInline => true
  | GNone => mem3 (f, c, m) deliberate || mem3 (f, c, m) known_unguarded
  end.

Lemma guard_table : forallb row_ok storage_writers = true.
Proof. vm_compute. reflexivity. Qed.

Lemma guard_table_core :
  forallb (fun k => existsb (fun r => let '(f, c, m, g) := r in key3_eqb (f, c, m) k && match g with GNone => false | _ => true end) storage_writers)
          [("_td.py", "TensorDict", "_set_str"); ("_td.py", "TensorDict", "_select"); ("_td.py", "TensorDict", "_exclude");
           ("_td.py", "TensorDict", "del_"); ("_td.py", "TensorDict", "popitem");
           ("_lazy.py", "LazyStackedTensorDict", "insert"); ("_lazy.py", "LazyStackedTensorDict", "_exclude");
           ("_lazy.py", "LazyStackedTensorDict", "expand")] = true
  /\ forallb (fun k => mem3 k lock_blocked_methods)
          [("_td.py", "TensorDict", "del_"); ("_td.py", "TensorDict", "popitem"); ("_td.py", "TensorDict", "rename_key_");
           ("base.py", "TensorDictBase", "clear"); ("base.py", "TensorDictBase", "update"); ("base.py", "TensorDictBase", "create_nested");
           ("_lazy.py", "LazyStackedTensorDict", "insert"); ("_lazy.py", "LazyStackedTensorDict", "append");
           ("_lazy.py", "LazyStackedTensorDict", "del_"); ("_lazy.py", "LazyStackedTensorDict", "update")] = true.
Proof. vm_compute. split; reflexivity. Qed.
