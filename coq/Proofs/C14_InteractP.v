(* C14 — the finite decision table of _dist_sample. *)
From Coq Require Import List Bool String.
Import ListNotations.
From TD Require Import Model.C14_Interact.

Definition agree_on_grid (fixed : bool) (excl : itype -> dcap -> bool) : bool :=
  forallb (fun it => forallb (fun d => excl it d || action_eqb (dist_sample_gen fixed it d) (spec_sample it d)) all_dcap) all_itype.

(* effective MEAN (asked for, or reached by the DETERMINISTIC fallback) on a distribution whose `mean` property raises
   NotImplementedError: the D146 region *)
Definition effective (it : itype) (d : dcap) : itype :=
  match it with
  | TDeterministic => if has_det d then TDeterministic
                      else match reg d with Some r => r | None => match support_real d with Some false => TMode | _ => TMean end end
  | _ => it
  end.
Definition d146_region (it : itype) (d : dcap) : bool :=
  negb (is_lkj d && (itype_eqb it TDeterministic || itype_eqb it TMean || itype_eqb it TMode))
  && itype_eqb (effective it d) TMean && match c_mean d with CNotImpl => true | _ => false end.

Lemma all_itype_complete : forall it, List.In it all_itype.
Proof. destruct it; cbn; tauto. Qed.
Lemma all_cap_complete : forall c, List.In c all_cap.
Proof. destruct c; cbn; tauto. Qed.
Lemma all_bool_complete : forall b, List.In b all_bool.
Proof. destruct b; cbn; tauto. Qed.

Lemma all_dcap_complete : forall d, List.In d all_dcap.
Proof.
  intros [lkj hd rg sr mo me mn hr]. unfold all_dcap.
  apply in_flat_map; exists lkj; split; [apply all_bool_complete|].
  apply in_flat_map; exists hd; split; [apply all_bool_complete|].
  apply in_flat_map; exists rg; split.
  { destruct rg as [r|]; [right; apply in_map, all_itype_complete|left; reflexivity]. }
  apply in_flat_map; exists sr; split.
  { destruct sr as [[|]|]; cbn; tauto. }
  apply in_flat_map; exists mo; split; [apply all_cap_complete|].
  apply in_flat_map; exists me; split; [apply all_cap_complete|].
  apply in_flat_map; exists mn; split; [apply all_cap_complete|].
  apply in_map_iff; exists hr; split; [reflexivity|apply all_bool_complete].
Qed.

Lemma action_eqb_eq : forall a b, action_eqb a b = true -> a = b.
Proof. destruct a, b; cbn; congruence. Qed.

Lemma grid_partial : agree_on_grid false d146_region = true.
Proof. vm_compute. reflexivity. Qed.
Lemma grid_fixed : agree_on_grid true (fun _ _ => false) = true.
Proof. vm_compute. reflexivity. Qed.

Lemma from_grid : forall fixed excl, agree_on_grid fixed excl = true ->
  forall it d, excl it d = false -> dist_sample_gen fixed it d = spec_sample it d.
Proof.
  intros fixed excl H it d He. unfold agree_on_grid in H.
  rewrite forallb_forall in H. specialize (H it (all_itype_complete it)).
  rewrite forallb_forall in H. specialize (H d (all_dcap_complete d)).
  rewrite He in H. cbn in H. now apply action_eqb_eq.
Qed.

Lemma interact_table : forall it d, dist_sample it d = spec_sample it d.
Proof. intros. unfold dist_sample, fixed_D146. now apply (from_grid true (fun _ _ => false) grid_fixed). Qed.

(* the code before the fix of D146 (fixed = false): agrees outside the region, differs inside *)
Lemma interact_table_before_fix : forall it d, d146_region it d = false -> dist_sample_gen false it d = spec_sample it d.
Proof. intros. now apply (from_grid false d146_region grid_partial). Qed.

Definition tanh_normal_like : dcap :=
  {| is_lkj := false; has_det := false; reg := None; support_real := Some true; c_mode := CNotImpl; c_median := CAttrErr;
     c_mean := CNotImpl; has_rsample := true |}.
Lemma interact_table_before_fix_refuted : exists it d, dist_sample_gen false it d <> spec_sample it d.
Proof. exists TMean, tanh_normal_like. vm_compute. discriminate. Qed.

(* ------------------------------------------------------------------ wrapped distributions *)
Lemma one_step_lookup : forall ls b, one_step ls = true -> lookup_reg ls b = spec_reg ls b.
Proof.
  intros [|[|r] [|[|r'] ls]] b H; cbn in *; try reflexivity; discriminate.
Qed.

(* the decision for a wrapped distribution is the documented table evaluated with the registration of the UNWRAPPED base *)
Lemma interact_table_wrapped : forall it ls b, one_step ls = true -> dist_sample_w it ls b = spec_sample_w it ls b.
Proof.
  intros it ls b H. unfold dist_sample_w, dist_sample_w_gen, spec_sample_w, lookup_gen.
  rewrite (one_step_lookup ls b H). apply interact_table.
Qed.

(* ... it depends on the base's registration only: the registration of the wrapper class plays no role *)
Lemma interact_wrapped_reg_only : forall it b,
  dist_sample_w it [LIndep] b = dist_sample it (with_reg (reg b) (caps [LIndep] b)).
Proof. reflexivity. Qed.

(* two Independent layers: the lookup finds D.Independent's own entry (MODE) instead of the base's *)
Definition lognormal_like : dcap :=
  {| is_lkj := false; has_det := false; reg := Some TMean; support_real := Some false; c_mode := CValue; c_median := CAttrErr;
     c_mean := CValue; has_rsample := true |}.
Lemma interact_table_wrapped_refuted_nested : exists it ls b, dist_sample_w it ls b <> spec_sample_w it ls b.
Proof. exists TDeterministic, [LIndep; LIndep], lognormal_like. vm_compute. discriminate. Qed.

(* a lookup under type(dist) (no unwrapping) is refuted already with one layer *)
Lemma interact_lookup_unwrapped_needed : dist_sample_w_gen false TDeterministic [LIndep] lognormal_like = AMode
  /\ dist_sample_w TDeterministic [LIndep] lognormal_like = AMean
  /\ spec_sample_w TDeterministic [LIndep] lognormal_like = AMean.
Proof. repeat split; reflexivity. Qed.

(* _requires_sample = "some sample key of the final module is not produced upstream" *)
Lemma requires_sample_spec : forall ks up,
  requires_sample (Some ks) up = true <-> exists k, List.In k ks /\ ~ List.In k up.
Proof.
  intros ks up. unfold requires_sample. rewrite existsb_exists. split.
  - intros [k [Hk H]]. exists k. split; [assumption|]. intro HI. apply negb_true_iff in H.
    assert (E : existsb (fun u => if list_eq_dec string_dec k u then true else false) up = true).
    { apply existsb_exists. exists k. split; [assumption|]. now destruct (list_eq_dec string_dec k k). }
    congruence.
  - intros [k [Hk Hn]]. exists k. split; [assumption|]. apply negb_true_iff.
    destruct (existsb (fun u => if list_eq_dec string_dec k u then true else false) up) eqn:E; [|reflexivity].
    apply existsb_exists in E as [u [Hu E]]. destruct (list_eq_dec string_dec k u); [subst; contradiction|discriminate].
Qed.
Lemma requires_sample_none : forall up, requires_sample None up = true.
Proof. reflexivity. Qed.
