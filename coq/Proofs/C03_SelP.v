(* Element selection: feature coordinates are untouched, definedness, the frame of a write. *)
From Coq Require Import ZArith List Bool Lia.
Import ListNotations.
From TD Require Import Spec.PySlice Model.C03_Index Spec.C03_TorchIndex Spec.C03_TorchSel Proofs.C03_IndexP.
Open Scope nat_scope.

Lemma slots_no_ell idx : forall dims sl, slots idx dims = Some sl -> existsb is_ell idx = false.
Proof.
  induction idx as [|it r IH]; intros dims sl Hs; [reflexivity|]. cbn [slots] in Hs. cbn [existsb].
  destruct it as [i|a b c| | |sh| |sh n0]; cbn [is_ell orb]; try discriminate.
  - destruct dims as [|n ds]; [discriminate|].
    destruct ((- Z.of_nat n <=? i)%Z && (i <? Z.of_nat n)%Z); [|discriminate]. eapply IH; eassumption.
  - destruct dims as [|n ds]; [discriminate|].
    destruct ((match c with Some s => s | None => 1%Z end <=? 0)%Z); [discriminate|].
    destruct (slots r ds) as [sl'|] eqn:E; [|discriminate]. eapply IH; eassumption.
  - destruct (slots r dims) as [sl'|] eqn:E; [|discriminate]. eapply IH; eassumption.
  - destruct dims as [|n ds]; [discriminate|].
    destruct (slots r ds) as [sl'|] eqn:E; [|discriminate]. eapply IH; eassumption.
  - destruct dims as [|n ds]; [discriminate|]. eapply IH; eassumption.
  - destruct (Nat.leb (List.length sh) (List.length dims) && shape_eqb sh (firstn (List.length sh) dims)
              && negb (Nat.eqb (List.length sh) 0)); [|discriminate].
    destruct (slots r (skipn (List.length sh) dims)) as [sl'|] eqn:E; [|discriminate]. eapply IH; eassumption.
Qed.

(* ------------------------------------------------------------------ sel on an entry = sel on the batch shape ++ identity *)
Lemma sel_items_feat idx : forall dims b ks s feat f,
  sel_items idx dims b ks = Some s ->
  sel_items idx (dims ++ feat) b (ks ++ f) = Some (s ++ map Z.of_nat f).
Proof.
  induction idx as [|it r IH]; intros dims b ks s feat f H; cbn [sel_items] in *.
  - injection H as <-. now rewrite map_app.
  - destruct it as [i|a bb c| | |sh vals|i|sh pos].
    + destruct dims as [|n ds]; [discriminate|]. cbn [app].
      destruct (sel_items r ds b ks) as [s'|] eqn:E; [|discriminate]. injection H as <-.
      rewrite (IH _ _ _ _ feat f E). reflexivity.
    + destruct dims as [|n ds]; [discriminate|]. destruct ks as [|k ks']; [discriminate|]. cbn [app].
      destruct (sel_items r ds b ks') as [s'|] eqn:E; [|discriminate]. injection H as <-.
      rewrite (IH _ _ _ _ feat f E). reflexivity.
    + destruct ks as [|k ks']; [discriminate|]. cbn [app]. now apply IH.
    + discriminate.
    + destruct dims as [|n ds]; [discriminate|]. cbn [app].
      destruct (sel_items r ds b ks) as [s'|] eqn:E; [|discriminate]. injection H as <-.
      rewrite (IH _ _ _ _ feat f E). reflexivity.
    + destruct dims as [|n ds]; [discriminate|]. cbn [app].
      destruct (sel_items r ds b ks) as [s'|] eqn:E; [|discriminate]. injection H as <-.
      rewrite (IH _ _ _ _ feat f E). reflexivity.
    + destruct (Nat.leb (length sh) (length dims)) eqn:El; [|discriminate]. apply Nat.leb_le in El.
      destruct (sel_items r (skipn (length sh) dims) b ks) as [s'|] eqn:E; [|discriminate]. injection H as <-.
      replace (Nat.leb (length sh) (length (dims ++ feat))) with true
        by (symmetry; apply Nat.leb_le; rewrite app_length; lia).
      rewrite skipn_app. replace (length sh - length dims) with 0 by lia. cbn [skipn].
      rewrite (IH _ _ _ _ feat f E). cbn [option_map]. now rewrite app_assoc.
Qed.

Lemma place_length B sl :
  length (place B sl) = if has_A sl then (if adjacent sl then length (before_A sl) + (length B + length (after_first_A sl))
                                          else length B + length (keeps sl))
                        else length (keeps sl).
Proof.
  unfold place. destruct (has_A sl); cbn [negb]; [|reflexivity].
  destruct (adjacent sl); now rewrite !app_length.
Qed.

Lemma firstn_app_le {X} n (a b : list X) : n <= length a -> firstn n (a ++ b) = firstn n a.
Proof. intros H. rewrite firstn_app. replace (n - length a) with 0 by lia. cbn. now rewrite app_nil_r. Qed.
Lemma skipn_app_le {X} n (a b : list X) : n <= length a -> skipn n (a ++ b) = skipn n a ++ b.
Proof. intros H. rewrite skipn_app. replace (n - length a) with 0 by lia. reflexivity. Qed.

Lemma unplace_feat B sl feat r f :
  length r = length (place B sl) ->
  unplace (length B) (sl ++ map K feat) (r ++ f)
  = (fst (unplace (length B) sl r), snd (unplace (length B) sl r) ++ f).
Proof.
  intros Hl. rewrite place_length in Hl. unfold unplace. rewrite has_A_app_K, adjacent_app_K.
  destruct (has_A sl) eqn:HA; cbn [negb fst snd]; [|reflexivity].
  destruct (adjacent sl).
  - rewrite before_A_app_K by assumption.
    set (p := length (before_A sl)) in *. set (nB := length B) in *.
    rewrite (skipn_app_le p r f) by lia.
    rewrite (firstn_app_le nB (skipn p r) f) by (rewrite skipn_length; lia).
    rewrite (firstn_app_le p r f) by lia.
    rewrite (skipn_app_le (p + nB) r f) by lia.
    cbn [fst snd]. now rewrite app_assoc.
  - set (nB := length B) in *.
    rewrite (firstn_app_le nB r f), (skipn_app_le nB r f) by lia. reflexivity.
Qed.

Theorem sel_ne_feat bs feat idx r f s :
  sel_ne bs idx r = Some s -> length f = length feat ->
  sel_ne (bs ++ feat) idx (r ++ f) = Some (s ++ map Z.of_nat f).
Proof.
  unfold sel_ne. intros H Hf.
  destruct (slots (map erase idx) bs) as [sl|] eqn:Hs; [|discriminate].
  destruct (bcast_all (adv_shapes (map erase idx))) as [B|] eqn:HB; [|discriminate].
  destruct (Nat.eqb (length r) (length (place B sl))) eqn:El; [|discriminate]. apply Nat.eqb_eq in El.
  rewrite (slots_app_feat _ _ _ feat Hs), place_app_K.
  replace (Nat.eqb (length (r ++ f)) (length (place B sl ++ feat))) with true
    by (symmetry; apply Nat.eqb_eq; rewrite !app_length; lia).
  rewrite (unplace_feat B sl feat r f El).
  destruct (unplace (length B) sl r) as [b ks]. cbn [fst snd]. now apply sel_items_feat.
Qed.

(* ------------------------------------------------------------------ Ellipsis: the spec's expansion commutes with erasure *)
Lemma erase_is_ell v : is_ell (erase v) = vis_ell v.
Proof. now destruct v. Qed.

Lemma filter_erase idx : length (filter is_ell (map erase idx)) = length (filter vis_ell idx).
Proof.
  induction idx as [|v r IH]; [reflexivity|]. cbn [map filter]. rewrite erase_is_ell.
  destruct (vis_ell v); cbn [length]; now rewrite IH.
Qed.

Lemma flat_map_erase k idx :
  flat_map (fun it => if is_ell it then repeat full_slice k else [it]) (map erase idx)
  = map erase (flat_map (fun it => if vis_ell it then repeat (VSl None None None) k else [it]) idx).
Proof.
  induction idx as [|v r IH]; [reflexivity|]. cbn [map flat_map]. rewrite map_app, IH, erase_is_ell.
  destruct (vis_ell v).
  - f_equal. clear. induction k; cbn; [reflexivity|now rewrite <- IHk].
  - reflexivity.
Qed.

Lemma vexpand_erase idx rank idx' :
  vexpand_ell idx rank = Some idx' -> expand_ell (map erase idx) rank = Some (map erase idx').
Proof.
  unfold vexpand_ell, expand_ell. rewrite filter_erase.
  destruct (length (filter vis_ell idx)) as [|[|n]]; [intros H; now injection H as <-| |discriminate].
  destruct (Nat.leb (total_consumed (map erase idx)) rank); [|discriminate].
  intros H; injection H as <-. f_equal. apply flat_map_erase.
Qed.

(* sel is defined only on positions of the shape torch gives the result *)
Theorem sel_some_shape bs idx r s :
  sel bs idx r = Some s -> exists sh, torch_shape bs (map erase idx) = Some sh /\ length r = length sh.
Proof.
  unfold sel, torch_shape. destruct (vexpand_ell idx (length bs)) as [idx'|] eqn:E; [|discriminate].
  rewrite (vexpand_erase _ _ _ E). unfold sel_ne.
  destruct (slots (map erase idx') bs) as [sl|]; [|discriminate].
  destruct (bcast_all (adv_shapes (map erase idx'))) as [B|]; [|discriminate].
  destruct (Nat.eqb (length r) (length (place B sl))) eqn:El; [|discriminate]. apply Nat.eqb_eq in El.
  intros _. eauto.
Qed.

(* the read path: td[idx] hands every entry (shape bs ++ feat) the index expanded against the BATCH shape; the element
   at result position r ++ f of the entry is the element at (sel bs idx r) ++ f of the source entry *)
Theorem sel_entry bs feat idx idx' r f s :
  vexpand_ell idx (length bs) = Some idx' -> sel bs idx r = Some s -> length f = length feat ->
  sel_ne (bs ++ feat) idx' (r ++ f) = Some (s ++ map Z.of_nat f).
Proof.
  unfold sel. intros E. rewrite E. intros H Hf. now apply sel_ne_feat.
Qed.

(* ------------------------------------------------------------------ definedness *)
Lemma sel_items_defined idx : forall dims sl b ks,
  slots (map erase idx) dims = Some sl -> length ks = length (keeps sl) ->
  exists s, sel_items idx dims b ks = Some s.
Proof.
  induction idx as [|it r IH]; intros dims sl b ks Hs Hk; cbn [map slots erase] in Hs; cbn [sel_items].
  - eauto.
  - destruct it as [i|a bb c| | |sh vals|i|sh pos]; cbn [erase] in Hs.
    + destruct dims as [|n ds]; [discriminate|].
      destruct ((- Z.of_nat n <=? i)%Z && (i <? Z.of_nat n)%Z); [|discriminate].
      destruct (IH ds sl b ks Hs Hk) as [s E]. rewrite E. eexists; reflexivity.
    + destruct dims as [|n ds]; [discriminate|].
      destruct ((match c with Some s => s | None => 1%Z end <=? 0)%Z); [discriminate|].
      destruct (slots (map erase r) ds) as [sl'|] eqn:E2; [|discriminate]. injection Hs as <-.
      cbn [keeps length] in Hk. destruct ks as [|k ks']; [discriminate|]. cbn [length] in Hk.
      destruct (IH ds sl' b ks' E2 ltac:(lia)) as [s E]. rewrite E. eexists; reflexivity.
    + destruct (slots (map erase r) dims) as [sl'|] eqn:E2; [|discriminate]. injection Hs as <-.
      cbn [keeps length] in Hk. destruct ks as [|k ks']; [discriminate|]. cbn [length] in Hk.
      apply (IH dims sl' b ks' E2). lia.
    + discriminate.
    + destruct dims as [|n ds]; [discriminate|].
      destruct (slots (map erase r) ds) as [sl'|] eqn:E2; [|discriminate]. injection Hs as <-. cbn [keeps] in Hk.
      destruct (IH ds sl' b ks E2 Hk) as [s E]. rewrite E. eexists; reflexivity.
    + destruct dims as [|n ds]; [discriminate|].
      destruct (IH ds sl b ks Hs Hk) as [s E]. rewrite E. eexists; reflexivity.
    + destruct (Nat.leb (length sh) (length dims)) eqn:El; [|discriminate]. cbn [andb] in Hs.
      destruct (shape_eqb sh (firstn (length sh) dims)) eqn:Eq; [|discriminate]. cbn [andb] in Hs.
      destruct (negb (Nat.eqb (length sh) 0)); [|discriminate].
      destruct (slots (map erase r) (skipn (length sh) dims)) as [sl'|] eqn:E2; [|discriminate]. injection Hs as <-.
      cbn [keeps] in Hk.
      destruct (IH _ sl' b ks E2 Hk) as [s E]. rewrite E. eexists; reflexivity.
Qed.

Lemma unplace_snd_length B sl r :
  length r = length (place B sl) -> length (snd (unplace (length B) sl r)) = length (keeps sl).
Proof.
  intros Hl. rewrite place_length in Hl. unfold unplace.
  destruct (has_A sl) eqn:HA; cbn [negb snd]; [|assumption].
  destruct (adjacent sl) eqn:Adj; cbn [snd].
  - rewrite app_length, firstn_length, skipn_length.
    assert (Hk : length (keeps sl) = length (before_A sl) + length (after_first_A sl)).
    { clear -HA. induction sl as [|[n|] sl IH]; cbn in *; [discriminate|rewrite IH by assumption; lia|reflexivity]. }
    lia.
  - rewrite skipn_length. lia.
Qed.

(* every position of the result shape has a source element *)
Theorem sel_ne_defined bs idx sl B r :
  slots (map erase idx) bs = Some sl -> bcast_all (adv_shapes (map erase idx)) = Ok B ->
  length r = length (place B sl) -> exists s, sel_ne bs idx r = Some s.
Proof.
  intros Hs HB Hl. unfold sel_ne. rewrite Hs, HB.
  replace (Nat.eqb (length r) (length (place B sl))) with true by (symmetry; now apply Nat.eqb_eq).
  pose proof (unplace_snd_length B sl r Hl) as Hk.
  destruct (unplace (length B) sl r) as [b ks]. cbn [snd] in Hk.
  eapply sel_items_defined; eassumption.
Qed.

(* ------------------------------------------------------------------ the frame of a write *)
Lemma Forall2_length {X Y} {P : X -> Y -> Prop} {l1 l2} : Forall2 P l1 l2 -> length l1 = length l2.
Proof. induction 1; cbn; congruence. Qed.
Lemma in_range_length sh r : in_range sh r -> length r = length sh.
Proof. apply Forall2_length. Qed.

Theorem written_feat bs feat idx q :
  existsb is_ell (map erase idx) = false -> total_consumed (map erase idx) <= length bs ->
  (written_ne (bs ++ feat) idx q <->
   exists p f, q = p ++ map Z.of_nat f /\ written_ne bs idx p /\ in_range feat f).
Proof.
  intros Hne Hc. split.
  - intros (sl' & B & r' & Hs' & HB & Hr & Hsel).
    destruct (slots_strip_feat _ bs feat sl' Hne Hs' Hc) as [sl Hs].
    pose proof (slots_app_feat _ _ _ feat Hs) as Hs2. rewrite Hs' in Hs2. injection Hs2 as ->.
    rewrite place_app_K in Hr. unfold in_range in Hr.
    apply Forall2_app_inv_r in Hr. destruct Hr as (r & f & Hr & Hf & ->).
    destruct (sel_ne_defined bs idx sl B r Hs HB (Forall2_length Hr)) as [p Hp].
    pose proof (sel_ne_feat bs feat idx r f p Hp (Forall2_length Hf)) as H2.
    rewrite Hsel in H2. injection H2 as ->.
    exists p, f. split; [reflexivity|]. split; [|exact Hf].
    exists sl, B, r. auto.
  - intros (p & f & -> & (sl & B & r & Hs & HB & Hr & Hsel) & Hf).
    exists (sl ++ map K feat), B, (r ++ f). split; [now apply slots_app_feat|]. split; [assumption|].
    split.
    + rewrite place_app_K. now apply Forall2_app.
    + apply sel_ne_feat; [assumption|]. exact (Forall2_length Hf).
Qed.
