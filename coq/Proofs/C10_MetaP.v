(* C10 — the codec: load_memmap (memmap t) = t.  Lemmas. *)
From Coq Require Import ZArith List String Bool Ascii Decimal DecimalString DecimalNat Lia.
Import ListNotations.
From TD Require Import Model.C10_Meta.
Open Scope string_scope.
Open Scope list_scope.

(* ------------------------------------------------------------------ induction over nested structures *)
Section TdInd.
  Variable P : td -> Prop.
  Hypothesis HLeaf : forall l, P (Leaf l).
  Hypothesis HNode : forall bs ents, Forall (fun kv => P (snd kv)) ents -> P (Node bs ents).
  Hypothesis HLazy : forall sd ms, Forall P ms -> P (Lazy sd ms).
  Hypothesis HTCls : forall c inner, P inner -> P (TCls c inner).
  Hypothesis HNData : forall bs p, P (NData bs p).
  Hypothesis HNStack : forall items, Forall P items -> P (NStack items).
  Fixpoint td_ind' (t : td) : P t :=
    match t with
    | Leaf l => HLeaf l
    | Node bs ents =>
        HNode bs ents ((fix go (es : list (string * td)) : Forall (fun kv => P (snd kv)) es :=
                          match es with [] => Forall_nil _ | (k, x) :: r => Forall_cons (k, x) (td_ind' x) (go r) end) ents)
    | Lazy sd ms =>
        HLazy sd ms ((fix go (l : list td) : Forall P l :=
                        match l with [] => Forall_nil _ | x :: r => Forall_cons x (td_ind' x) (go r) end) ms)
    | TCls c inner => HTCls c inner (td_ind' inner)
    | NData bs p => HNData bs p
    | NStack items =>
        HNStack items ((fix go (l : list td) : Forall P l :=
                          match l with [] => Forall_nil _ | x :: r => Forall_cons x (td_ind' x) (go r) end) items)
    end.
End TdInd.

Section PayloadInd.
  Variable P : payload -> Prop.
  Hypothesis HStr : forall s, P (PStr s).
  Hypothesis HInt : forall z, P (PInt z).
  Hypothesis HBool : forall b, P (PBool b).
  Hypothesis HNone : P PNone.
  Hypothesis HList : forall l, Forall P l -> P (PList l).
  Hypothesis HTuple : forall l, Forall P l -> P (PTuple l).
  Hypothesis HSet : forall l, Forall P l -> P (PSet l).
  Hypothesis HDict : forall l, Forall (fun kv => P (snd kv)) l -> P (PDict l).
  Hypothesis HObj : forall n, P (PObj n).
  Fixpoint payload_ind' (p : payload) : P p :=
    let go := fix go (l : list payload) : Forall P l :=
      match l with [] => Forall_nil _ | x :: r => Forall_cons x (payload_ind' x) (go r) end in
    match p with
    | PStr s => HStr s | PInt z => HInt z | PBool b => HBool b | PNone => HNone
    | PList l => HList l (go l) | PTuple l => HTuple l (go l) | PSet l => HSet l (go l)
    | PDict l => HDict l ((fix god (l : list (string * payload)) : Forall (fun kv => P (snd kv)) l :=
                             match l with [] => Forall_nil _ | (k, x) :: r => Forall_cons (k, x) (payload_ind' x) (god r) end) l)
    | PObj n => HObj n
    end.
End PayloadInd.

(* ------------------------------------------------------------------ payloads through JSON *)
Definition json_list := fix go (l : list payload) : option (list json) :=
  match l with [] => Some [] | x :: r => match json_of x, go r with Some a, Some b => Some (a :: b) | _, _ => None end end.
Definition json_pairs := fix go (l : list (string * payload)) : option (list (string * json)) :=
  match l with [] => Some [] | (k, x) :: r => match json_of x, go r with Some a, Some b => Some ((k, a) :: b) | _, _ => None end end.
Definition pl_list := fix go (l : list json) : list payload := match l with [] => [] | x :: r => payload_of_json x :: go r end.
Definition pl_pairs := fix go (l : list (string * json)) : list (string * payload) :=
  match l with [] => [] | (k, x) :: r => (k, payload_of_json x) :: go r end.
Definition plain_all := fix all (l : list payload) : bool := match l with [] => true | x :: r => plainb x && all r end.
Definition plain_alld := fix all (l : list (string * payload)) : bool := match l with [] => true | (_, x) :: r => plainb x && all r end.

Lemma plain_roundtrip : forall p, plainb p = true -> exists j, json_of p = Some j /\ payload_of_json j = p.
Proof.
  induction p using payload_ind'; intro Hp; cbn in Hp; try discriminate; try (eexists; split; reflexivity).
  - (* list *)
    assert (G : exists js, json_list l = Some js /\ pl_list js = l).
    { induction l as [|x l IHl]; cbn.
      - exists []; auto.
      - inversion H; subst. change (plainb x && plain_all l = true) in Hp. apply andb_true_iff in Hp as [Hx Hl].
        destruct (H2 Hx) as (j & Hj1 & Hj2). destruct (IHl H3 Hl) as (js & Hs1 & Hs2).
        exists (j :: js). fold json_list. rewrite Hj1, Hs1. cbn. fold pl_list. now rewrite Hj2, Hs2. }
    destruct G as (js & G1 & G2). exists (JArr js). cbn. fold json_list. rewrite G1. cbn. fold pl_list. now rewrite G2.
  - (* dict *)
    assert (G : exists js, json_pairs l = Some js /\ pl_pairs js = l).
    { induction l as [|[k x] l IHl]; cbn.
      - exists []; auto.
      - inversion H; subst. change (plainb x && plain_alld l = true) in Hp. apply andb_true_iff in Hp as [Hx Hl].
        cbn in H2. destruct (H2 Hx) as (j & Hj1 & Hj2). destruct (IHl H3 Hl) as (js & Hs1 & Hs2).
        exists ((k, j) :: js). fold json_pairs. rewrite Hj1, Hs1. cbn. fold pl_pairs. now rewrite Hj2, Hs2. }
    destruct G as (js & G1 & G2). exists (JObj js). cbn. fold json_pairs. rewrite G1. cbn. fold pl_pairs. now rewrite G2.
Qed.

(* ------------------------------------------------------------------ dtype strings *)
Lemma str_dtype_str : forall d, supported d = true -> str_dtype (dtype_str d) = Some d.
Proof. destruct d; intro H; try discriminate; reflexivity. Qed.

Lemma dtype_eqb_refl : forall d, dtype_eqb d d = true.
Proof. intro d. unfold dtype_eqb. apply String.eqb_refl. Qed.

(* ------------------------------------------------------------------ shapes through JSON *)
Lemma jshape_of_jshape : forall s, jshape_of (jshape s) = Some s.
Proof.
  intro s. unfold jshape, jshape_of. induction s as [|n s IH]; cbn; auto.
  rewrite IH. unfold jnat. cbn. destruct (Z.of_nat n <? 0)%Z eqn:E; [apply Z.ltb_lt in E; lia|].
  now rewrite Nat2Z.id.
Qed.

(* ------------------------------------------------------------------ association lists *)
Lemma sget_app_none : forall {A} k (l1 l2 : list (string * A)), sget k l1 = None -> sget k (l1 ++ l2) = sget k l2.
Proof. intros A k l1 l2. induction l1 as [|[k' v] l1 IH]; cbn; auto. destruct (String.eqb k k'); [discriminate|auto]. Qed.

Lemma sget_app_some : forall {A} k (l1 l2 : list (string * A)) v, sget k l1 = Some v -> sget k (l1 ++ l2) = Some v.
Proof. intros A k l1 l2 v. induction l1 as [|[k' v'] l1 IH]; cbn; [discriminate|]. destruct (String.eqb k k'); auto. Qed.

Lemma sget_none_notin : forall {A} k (l : list (string * A)), sget k l = None <-> ~ In k (map fst l).
Proof.
  intros A k l. induction l as [|[k' v] l IH]; cbn; [tauto|].
  destruct (String.eqb k k') eqn:E.
  - apply String.eqb_eq in E. subst. split; [discriminate|]. intro H. exfalso. apply H. now left.
  - apply String.eqb_neq in E. rewrite IH. split; intro H; [intros [G|G]; [congruence|tauto]|tauto].
Qed.

Lemma jset_fresh : forall {A} k (v : A) l, sget k l = None -> jset k v l = l ++ [(k, v)].
Proof.
  intros A k v l. induction l as [|[k' v'] l IH]; cbn; auto.
  destruct (String.eqb k k'); [discriminate|]. intro H. now rewrite IH.
Qed.

Lemma fget_app_none : forall k l1 l2, fget k l1 = None -> fget k (l1 ++ l2) = fget k l2.
Proof. intros k l1 l2. induction l1 as [|[k' v] l1 IH]; cbn; auto. destruct (fname_eqb k k'); [discriminate|auto]. Qed.

Lemma fget_app_some : forall k l1 l2 v, fget k l1 = Some v -> fget k (l1 ++ l2) = Some v.
Proof. intros k l1 l2 v. induction l1 as [|[k' v'] l1 IH]; cbn; [discriminate|]. destruct (fname_eqb k k'); auto. Qed.

Lemma fset_fresh : forall k v l, fget k l = None -> fset k v l = l ++ [(k, v)].
Proof.
  intros k v l. induction l as [|[k' v'] l IH]; cbn; auto.
  destruct (fname_eqb k k'); [discriminate|]. intro H. now rewrite IH.
Qed.

Lemma fname_eqb_refl : forall f, fname_eqb f f = true.
Proof. destruct f; cbn; auto. apply String.eqb_refl. Qed.

Lemma sub_dir_fresh : forall k subs, sget k subs = None -> sub_dir k subs = empty_dir.
Proof. intros k subs H. unfold sub_dir. now rewrite H. Qed.

Lemma nodupb_NoDup : forall l, nodupb l = true -> NoDup l.
Proof.
  induction l as [|k l IH]; cbn; intro H; [constructor|].
  apply andb_true_iff in H as [H1 H2]. constructor; auto.
  intro Hin. apply negb_true_iff in H1.
  assert (existsb (String.eqb k) l = true) by (apply existsb_exists; exists k; split; auto; apply String.eqb_refl). congruence.
Qed.

Lemma shape_eqb_eq : forall a b, shape_eqb a b = true -> a = b.
Proof.
  induction a as [|x a IH]; destruct b as [|y b]; cbn; intro H; try discriminate; auto.
  apply andb_true_iff in H as [H1 H2]. apply Nat.eqb_eq in H1. f_equal; auto.
Qed.

(* ------------------------------------------------------------------ str(i) is injective *)
Lemma string_of_nat_inj : forall a b, string_of_nat a = string_of_nat b -> a = b.
Proof.
  intros a b H. unfold string_of_nat in H.
  assert (G : Some (Nat.to_uint a) = Some (Nat.to_uint b)).
  { rewrite <- (NilEmpty.usu (Nat.to_uint a)), <- (NilEmpty.usu (Nat.to_uint b)). now rewrite H. }
  inversion G as [G']. rewrite <- (DecimalNat.Unsigned.of_to a), <- (DecimalNat.Unsigned.of_to b). now rewrite G'.
Qed.

(* ------------------------------------------------------------------ the loops of save_over / decode / norm, named *)
Definition save_ents (o : opts) (rec : td -> dir -> res dir) :=
  fix go (es : list (string * td)) (files : list (fname * content)) (subs : list (string * dir))
    : res (list (fname * content) * list (string * dir)) :=
    match es with
    | [] => Ok (files, subs)
    | (k, Leaf l) :: r => bind (populate o k l files) (fun f' => go r f' subs)
    | (k, c) :: r => bind (rec c (sub_dir k subs)) (fun d' => go r files (jset k d' subs))
    end.
Definition save_members (rec : td -> dir -> res dir) :=
  fix go (ms : list td) (i : nat) (subs : list (string * dir)) : res (list (string * dir)) :=
    match ms with
    | [] => Ok subs
    | m :: r => bind (rec m (sub_dir (string_of_nat i) subs)) (fun d' => go r (S i) (jset (string_of_nat i) d' subs))
    end.
Definition decode_subs := fix go (l : list (string * dir)) : list (string * res td) :=
  match l with [] => [] | (k, x) :: r => (k, decode x) :: go r end.
Definition norm_ents := fix go (es : list (string * td)) : list (string * td) :=
  match es with [] => [] | (k, x) :: r => (k, norm x) :: go r end.
Definition norm_list := fix go (l : list td) : list td := match l with [] => [] | x :: r => norm x :: go r end.
Definition tolist_items := fix go (l : list td) : list payload := match l with [] => [] | x :: r => tolist x :: go r end.

Lemma save_over_node : forall o bs ents files subs,
  save_over o (Node bs ents) (Dir files subs)
  = bind (save_ents o (save_over o) ents files subs)
         (fun fs => Ok (Dir (fset FMeta (CJson (JObj (node_meta bs ents))) (fst fs)) (snd fs))).
Proof. reflexivity. Qed.

Lemma save_over_lazy : forall o sd ms files subs,
  save_over o (Lazy sd ms) (Dir files subs)
  = bind (save_members (save_over o) ms 0 subs)
         (fun subs' => Ok (Dir (fset FMeta (CJson (JObj [("_type", JStr "LazyStackedTensorDict"); ("stack_dim", jnat sd)])) files) subs')).
Proof. reflexivity. Qed.

Lemma decode_dir : forall files subs, decode (Dir files subs) = load_top files (decode_subs subs).
Proof. reflexivity. Qed.

Lemma norm_node : forall bs ents,
  norm (Node bs ents) = Node bs (filter (fun kv => is_leaf (snd kv)) (norm_ents ents)
                                ++ filter (fun kv => negb (is_leaf (snd kv))) (norm_ents ents)).
Proof. reflexivity. Qed.
Lemma norm_lazy : forall sd ms, norm (Lazy sd ms) = Lazy sd (norm_list ms).
Proof. reflexivity. Qed.
Lemma norm_nstack : forall items, norm (NStack items) = NStack (norm_list items).
Proof. reflexivity. Qed.
Lemma tolist_nstack : forall items, tolist (NStack items) = PList (tolist_items items).
Proof. reflexivity. Qed.

(* what a loaded root looks like: a NonTensorData has lost its batch size *)
Definition root_norm (t : td) : td := match t with NData _ p => NData [] p | _ => norm t end.

(* ------------------------------------------------------------------ metadata of a node with sane keys *)
Definition recs (ents : list (string * td)) : list (string * json) := map (fun kv => (fst kv, entry_record (snd kv))) ents.

Lemma fold_jset_fresh : forall (ents : list (string * td)) (m : list (string * json)),
  NoDup (map fst ents) -> (forall k, In k (map fst ents) -> sget k m = None) ->
  fold_left (fun m kv => jset (fst kv) (entry_record (snd kv)) m) ents m = m ++ recs ents.
Proof.
  induction ents as [|[k x] ents IH]; intros m Hnd Hfresh; cbn.
  - now rewrite app_nil_r.
  - inversion Hnd; subst. rewrite jset_fresh by (apply Hfresh; now left).
    rewrite IH; auto.
    + now rewrite <- app_assoc.
    + intros k' Hk'. rewrite sget_app_none by (apply Hfresh; now right). cbn.
      destruct (String.eqb k' k) eqn:E; auto. apply String.eqb_eq in E. subst. contradiction.
Qed.

Definition keys_ok (ents : list (string * td)) : Prop :=
  NoDup (map fst ents) /\ Forall (fun kv => reserved (fst kv) = false) ents.

Lemma reserved_false : forall k, reserved k = false -> k <> "shape" /\ k <> "device" /\ k <> "_type".
Proof.
  intros k H. unfold reserved in H. apply orb_false_iff in H as [H H3]. apply orb_false_iff in H as [H1 H2].
  repeat split; intro E; subst; discriminate.
Qed.

Lemma sget_recs_reserved : forall ents k, Forall (fun kv => reserved (fst kv) = false) ents -> reserved k = true -> sget k (recs ents) = None.
Proof.
  intros ents k Hf Hk. apply sget_none_notin. unfold recs. rewrite map_map. cbn. intro Hin.
  apply in_map_iff in Hin as (kv & E & Hin). rewrite Forall_forall in Hf. specialize (Hf kv Hin). congruence.
Qed.

Lemma node_meta_ok : forall bs ents, keys_ok ents ->
  node_meta bs ents = recs ents ++ [("shape", jshape bs); ("device", JStr "cpu"); ("_type", JStr "TensorDict")].
Proof.
  intros bs ents [Hnd Hres]. unfold node_meta. rewrite fold_jset_fresh; auto. cbn [app].
  rewrite (jset_fresh "shape") by (now apply sget_recs_reserved).
  rewrite (jset_fresh "device").
  2:{ rewrite sget_app_none by (now apply sget_recs_reserved). reflexivity. }
  rewrite (jset_fresh "_type").
  2:{ rewrite <- app_assoc. rewrite sget_app_none by (now apply sget_recs_reserved). reflexivity. }
  now rewrite <- !app_assoc.
Qed.

Lemma jdel_app_none : forall {A} k (l1 l2 : list (string * A)), sget k l1 = None -> jdel k (l1 ++ l2) = l1 ++ jdel k l2.
Proof.
  intros A k l1 l2. induction l1 as [|[k' v] l1 IH]; cbn; auto.
  destruct (String.eqb k k'); [discriminate|]. intro H. now rewrite IH.
Qed.

(* ------------------------------------------------------------------ a TensorDict node: what the save loop leaves *)
Definition nonleaf (kv : string * td) : bool := negb (is_leaf (snd kv)).
Definition leaf_files (es : list (string * td)) : list (fname * content) :=
  flat_map (fun kv => match snd kv with Leaf l => [(FLeaf (fst kv), CCells (ldtype l) (lcells l))] | _ => [] end) es.

(* what the induction gives for a sub-collection c: it is saved into a fresh directory d, and d loads back *)
Definition saved_ok (o : opts) (c : td) (d : dir) : Prop :=
  save_over o c empty_dir = Ok d /\ decode d = Ok (root_norm c).
Definition entry_ok (o : opts) (kv : string * td) : Prop :=
  match snd kv with Leaf l => leaf_ok o l = true | c => exists d, saved_ok o c d end.

Lemma fget_leaf_files_none : forall es k, ~ In k (map fst es) -> fget (FLeaf k) (leaf_files es) = None.
Proof.
  induction es as [|[k' x] es IH]; intros k Hk; cbn; auto.
  assert (k <> k') by (intro; subst; apply Hk; now left).
  assert (~ In k (map fst es)) by (intro; apply Hk; now right).
  unfold leaf_files in *. cbn. destruct x; cbn; auto.
  destruct (String.eqb k k') eqn:E; [apply String.eqb_eq in E; congruence|auto].
Qed.

Lemma save_ents_spec : forall o es files0 subs0,
  like o = false -> NoDup (map fst es) ->
  (forall k, In k (map fst es) -> fget (FLeaf k) files0 = None /\ sget k subs0 = None) ->
  Forall (entry_ok o) es ->
  exists sl, save_ents o (save_over o) es files0 subs0 = Ok (files0 ++ leaf_files es, subs0 ++ sl)
    /\ Forall2 (fun kv kd => fst kv = fst kd /\ saved_ok o (snd kv) (snd kd)) (filter nonleaf es) sl.
Proof.
  intros o es. induction es as [|[k x] es IH]; intros files0 subs0 Hlike Hnd Hfresh Hok.
  - exists []. cbn. rewrite !app_nil_r. split; auto.
  - inversion Hnd as [|? ? Hk Hnd']; subst. inversion Hok as [|? ? Hx Hok']; subst.
    destruct (Hfresh k (or_introl eq_refl)) as [Hf Hs].
    destruct x as [l|bs' ents'|sd ms|c inner|bs' p|items].
    + (* a tensor *)
      unfold entry_ok in Hx; cbn in Hx. unfold leaf_ok in Hx.
      apply andb_true_iff in Hx as [Hx Href]. apply andb_true_iff in Hx as [Hx Hsup]. apply andb_true_iff in Hx as [Hne Hlen].
      apply negb_true_iff in Href. apply negb_true_iff in Hne.
      cbn [save_ents]. unfold populate. rewrite Href, Hne, Hlike. cbn [bind].
      rewrite fset_fresh by exact Hf.
      destruct (IH (files0 ++ [(FLeaf k, CCells (ldtype l) (lcells l))]) subs0 Hlike Hnd') as (sl & E & F2); auto.
      { intros k' Hk'. destruct (Hfresh k' (or_intror Hk')) as [A B]. split; auto.
        rewrite fget_app_none by exact A. cbn. destruct (String.eqb k' k) eqn:E; auto.
        apply String.eqb_eq in E. subst. contradiction. }
      exists sl. split; [|exact F2]. fold (save_ents o (save_over o)). rewrite E. unfold leaf_files. cbn. now rewrite <- app_assoc.
    + destruct Hx as (d & Hd). cbn [save_ents]. rewrite (sub_dir_fresh _ _ Hs). rewrite (proj1 Hd). cbn [bind].
      rewrite jset_fresh by exact Hs.
      destruct (IH files0 (subs0 ++ [(k, d)]) Hlike Hnd') as (sl & E & F2); auto.
      { intros k' Hk'. destruct (Hfresh k' (or_intror Hk')) as [A B]. split; auto.
        rewrite sget_app_none by exact B. cbn. destruct (String.eqb k' k) eqn:E; auto.
        apply String.eqb_eq in E. subst. contradiction. }
      exists ((k, d) :: sl). split.
      * fold (save_ents o (save_over o)). rewrite E. unfold leaf_files. cbn. now rewrite <- app_assoc.
      * cbn. constructor; auto.
    + destruct Hx as (d & Hd). cbn [save_ents]. rewrite (sub_dir_fresh _ _ Hs). rewrite (proj1 Hd). cbn [bind].
      rewrite jset_fresh by exact Hs.
      destruct (IH files0 (subs0 ++ [(k, d)]) Hlike Hnd') as (sl & E & F2); auto.
      { intros k' Hk'. destruct (Hfresh k' (or_intror Hk')) as [A B]. split; auto.
        rewrite sget_app_none by exact B. cbn. destruct (String.eqb k' k) eqn:E; auto.
        apply String.eqb_eq in E. subst. contradiction. }
      exists ((k, d) :: sl). split.
      * fold (save_ents o (save_over o)). rewrite E. unfold leaf_files. cbn. now rewrite <- app_assoc.
      * cbn. constructor; auto.
    + destruct Hx as (d & Hd). cbn [save_ents]. rewrite (sub_dir_fresh _ _ Hs). rewrite (proj1 Hd). cbn [bind].
      rewrite jset_fresh by exact Hs.
      destruct (IH files0 (subs0 ++ [(k, d)]) Hlike Hnd') as (sl & E & F2); auto.
      { intros k' Hk'. destruct (Hfresh k' (or_intror Hk')) as [A B]. split; auto.
        rewrite sget_app_none by exact B. cbn. destruct (String.eqb k' k) eqn:E; auto.
        apply String.eqb_eq in E. subst. contradiction. }
      exists ((k, d) :: sl). split.
      * fold (save_ents o (save_over o)). rewrite E. unfold leaf_files. cbn. now rewrite <- app_assoc.
      * cbn. constructor; auto.
    + destruct Hx as (d & Hd). cbn [save_ents]. rewrite (sub_dir_fresh _ _ Hs). rewrite (proj1 Hd). cbn [bind].
      rewrite jset_fresh by exact Hs.
      destruct (IH files0 (subs0 ++ [(k, d)]) Hlike Hnd') as (sl & E & F2); auto.
      { intros k' Hk'. destruct (Hfresh k' (or_intror Hk')) as [A B]. split; auto.
        rewrite sget_app_none by exact B. cbn. destruct (String.eqb k' k) eqn:E; auto.
        apply String.eqb_eq in E. subst. contradiction. }
      exists ((k, d) :: sl). split.
      * fold (save_ents o (save_over o)). rewrite E. unfold leaf_files. cbn. now rewrite <- app_assoc.
      * cbn. constructor; auto.
    + destruct Hx as (d & Hd). cbn [save_ents]. rewrite (sub_dir_fresh _ _ Hs). rewrite (proj1 Hd). cbn [bind].
      rewrite jset_fresh by exact Hs.
      destruct (IH files0 (subs0 ++ [(k, d)]) Hlike Hnd') as (sl & E & F2); auto.
      { intros k' Hk'. destruct (Hfresh k' (or_intror Hk')) as [A B]. split; auto.
        rewrite sget_app_none by exact B. cbn. destruct (String.eqb k' k) eqn:E; auto.
        apply String.eqb_eq in E. subst. contradiction. }
      exists ((k, d) :: sl). split.
      * fold (save_ents o (save_over o)). rewrite E. unfold leaf_files. cbn. now rewrite <- app_assoc.
      * cbn. constructor; auto.
Qed.

(* ------------------------------------------------------------------ a TensorDict node: what the loader reads back *)
Lemma fget_leaf_files_some : forall es k l, NoDup (map fst es) -> In (k, Leaf l) es ->
  fget (FLeaf k) (leaf_files es) = Some (CCells (ldtype l) (lcells l)).
Proof.
  induction es as [|[k' x] es IH]; intros k l Hnd Hin; [contradiction|].
  inversion Hnd as [|? ? Hk Hnd']; subst. unfold leaf_files. cbn [flat_map fst snd].
  destruct Hin as [E|Hin].
  - inversion E; subst. cbn. now rewrite String.eqb_refl.
  - assert (k <> k') by (intro; subst; apply Hk; apply in_map_iff; exists (k', Leaf l); auto).
    destruct x; cbn; try (apply IH; auto).
    destruct (String.eqb k k') eqn:E; [apply String.eqb_eq in E; congruence|]. apply IH; auto.
Qed.

Lemma load_record_leaf : forall o files k l,
  leaf_ok o l = true -> fget (FLeaf k) files = Some (CCells (ldtype l) (lcells l)) ->
  load_record files k (leaf_record l) = Ok (RLeaf (Leaf (loaded_leaf l))).
Proof.
  intros o files k l Hok Hf. unfold leaf_ok in Hok.
  apply andb_true_iff in Hok as [Hok _]. apply andb_true_iff in Hok as [Hok Hsup]. apply andb_true_iff in Hok as [_ Hlen].
  unfold load_record. remember (leaf_record l) as r eqn:E.
  assert (E1 : jget "type" r = None) by (subst; reflexivity).
  assert (E2 : jget "dtype" r = Some (JStr (dtype_str (ldtype l)))) by (subst; reflexivity).
  assert (E3 : jget "shape" r = Some (jshape (lshape l))) by (subst; reflexivity).
  destruct r; try (unfold leaf_record in E; discriminate E).
  rewrite E1, E2, E3, Hf. cbn [jstr_of]. rewrite jshape_of_jshape. rewrite (str_dtype_str _ Hsup).
  rewrite dtype_eqb_refl, Hlen. reflexivity.
Qed.

Lemma load_record_coll : forall files k c, is_leaf c = false -> load_record files k (entry_record c) = Ok RPath.
Proof. intros files k c H. destruct c; try discriminate; reflexivity. Qed.

Lemma load_records_spec : forall o es files,
  NoDup (map fst es) -> Forall (entry_ok o) es ->
  (forall k l, In (k, Leaf l) es -> fget (FLeaf k) files = Some (CCells (ldtype l) (lcells l))) ->
  load_records files (recs es ++ [("_type", JStr "TensorDict")])
  = Ok (filter (fun kv => is_leaf (snd kv)) (norm_ents es), map fst (filter nonleaf es)).
Proof.
  intros o es files. induction es as [|[k x] es IH]; intros Hnd Hok Hf.
  - reflexivity.
  - inversion Hnd; subst. inversion Hok as [|? ? Hx Hok']; subst.
    cbn [recs map app fst snd load_records].
    assert (IH' := IH H2 Hok' (fun k l Hin => Hf k l (or_intror Hin))). fold (recs es). rewrite IH'.
    destruct (is_leaf x) eqn:Ex.
    + destruct x as [l| | | | |]; try discriminate.
      rewrite (load_record_leaf o files k l Hx (Hf k l (or_introl eq_refl))). reflexivity.
    + rewrite (load_record_coll files k x Ex). cbn [bind fst snd].
      destruct x; try discriminate; reflexivity.
Qed.

Lemma adopt_root_norm : forall bs c, is_leaf c = false ->
  (match c with NData b _ => shape_eqb b bs = true | _ => True end) -> adopt bs (root_norm c) = norm c.
Proof.
  intros bs c Hc Hb. destruct c; try discriminate; try reflexivity.
  cbn. apply shape_eqb_eq in Hb. now subst.
Qed.

Lemma load_subs_spec : forall o bs paths es sl,
  Forall2 (fun kv kd => fst kv = fst kd /\ saved_ok o (snd kv) (snd kd)) (filter nonleaf es) sl ->
  (forall kv, In kv (filter nonleaf es) -> In (fst kv) paths) ->
  Forall (fun kv => match snd kv with NData b _ => shape_eqb b bs = true | _ => True end) es ->
  load_subs bs paths (decode_subs sl) = Ok (filter (fun kv => negb (is_leaf (snd kv))) (norm_ents es)).
Proof.
  intros o bs paths es. induction es as [|[k x] es IH]; intros sl F2 Hp Hb.
  - cbn in F2. inversion F2; subst. reflexivity.
  - inversion Hb as [|? ? Hbx Hb']; subst. cbn [norm_ents filter snd].
    destruct (is_leaf x) eqn:Ex.
    + assert (is_leaf (norm x) = true) by (destruct x; try discriminate; reflexivity). rewrite H. cbn [negb].
      cbn in F2, Hp. unfold nonleaf in F2, Hp. cbn in F2, Hp. rewrite Ex in F2, Hp. cbn in F2, Hp. apply IH; auto.
    + assert (is_leaf (norm x) = false) by (destruct x; try discriminate; reflexivity). rewrite H. cbn [negb].
      cbn in F2, Hp. unfold nonleaf in F2, Hp. cbn in F2, Hp. rewrite Ex in F2, Hp. cbn in F2, Hp.
      inversion F2 as [|? [k' d] ? sl' [Hk [Hsv Hdec]] F2']; subst. cbn in Hk. subst k'.
      cbn [decode_subs load_subs].
      assert (existsb (String.eqb k) paths = true).
      { apply existsb_exists. exists k. split; [apply (Hp (k, x)); now left|apply String.eqb_refl]. }
      rewrite H0. cbn in Hdec. rewrite Hdec. cbn [bind]. fold decode_subs.
      rewrite (IH sl' F2'); auto. cbn [bind]. rewrite adopt_root_norm; auto.
Qed.
