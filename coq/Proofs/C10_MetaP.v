(* C10 — the codec: load_memmap (memmap t) = t.  Lemmas. *)
From Coq Require Import ZArith List String Bool Ascii Decimal DecimalString DecimalNat Lia.
Import ListNotations.
From TD Require Import Model.C10_Meta.
Open Scope string_scope.
Open Scope list_scope.

(* ------------------------------------------------------------------ induction over nested structures *)
Section TdInd.
  Variable P : td -> Prop.
  Hypothesis HLeaf : forall l, P (Leaf l).
  Hypothesis HNode : forall bs ents, Forall (fun kv => P (snd kv)) ents -> P (Node bs ents).
  Hypothesis HLazy : forall sd ms, Forall P ms -> P (Lazy sd ms).
  Hypothesis HTCls : forall c nt inner, P inner -> P (TCls c nt inner).
  Hypothesis HNData : forall bs pl, P (NData bs pl).
  Hypothesis HNStack : forall items, Forall P items -> P (NStack items).
  Fixpoint td_ind' (t : td) : P t :=
    match t with
    | Leaf l => HLeaf l
    | Node bs ents =>
        HNode bs ents ((fix go (es : list (string * td)) : Forall (fun kv => P (snd kv)) es :=
                          match es with [] => Forall_nil _ | (k, x) :: r => Forall_cons (k, x) (td_ind' x) (go r) end) ents)
    | Lazy sd ms =>
        HLazy sd ms ((fix go (l : list td) : Forall P l :=
                        match l with [] => Forall_nil _ | x :: r => Forall_cons x (td_ind' x) (go r) end) ms)
    | TCls c nt inner => HTCls c nt inner (td_ind' inner)
    | NData bs pl => HNData bs pl
    | NStack items =>
        HNStack items ((fix go (l : list td) : Forall P l :=
                          match l with [] => Forall_nil _ | x :: r => Forall_cons x (td_ind' x) (go r) end) items)
    end.
End TdInd.

Section PayloadInd.
  Variable P : payload -> Prop.
  Hypothesis HStr : forall s, P (PStr s).
  Hypothesis HInt : forall z, P (PInt z).
  Hypothesis HBool : forall b, P (PBool b).
  Hypothesis HNone : P PNone.
  Hypothesis HList : forall l, Forall P l -> P (PList l).
  Hypothesis HTuple : forall l, Forall P l -> P (PTuple l).
  Hypothesis HSet : forall l, Forall P l -> P (PSet l).
  Hypothesis HDict : forall l, Forall (fun kv => P (snd kv)) l -> P (PDict l).
  Hypothesis HObj : forall n, P (PObj n).
  Fixpoint payload_ind' (p : payload) : P p :=
    let go := fix go (l : list payload) : Forall P l :=
      match l with [] => Forall_nil _ | x :: r => Forall_cons x (payload_ind' x) (go r) end in
    match p with
    | PStr s => HStr s | PInt z => HInt z | PBool b => HBool b | PNone => HNone
    | PList l => HList l (go l) | PTuple l => HTuple l (go l) | PSet l => HSet l (go l)
    | PDict l => HDict l ((fix god (l : list (string * payload)) : Forall (fun kv => P (snd kv)) l :=
                             match l with [] => Forall_nil _ | (k, x) :: r => Forall_cons (k, x) (payload_ind' x) (god r) end) l)
    | PObj n => HObj n
    end.
End PayloadInd.

(* ------------------------------------------------------------------ payloads through JSON *)
Definition json_list := fix go (l : list payload) : option (list json) :=
  match l with [] => Some [] | x :: r => match json_of x, go r with Some a, Some b => Some (a :: b) | _, _ => None end end.
Definition json_pairs := fix go (l : list (string * payload)) : option (list (string * json)) :=
  match l with [] => Some [] | (k, x) :: r => match json_of x, go r with Some a, Some b => Some ((k, a) :: b) | _, _ => None end end.
Definition pl_list := fix go (l : list json) : list payload := match l with [] => [] | x :: r => payload_of_json x :: go r end.
Definition pl_pairs := fix go (l : list (string * json)) : list (string * payload) :=
  match l with [] => [] | (k, x) :: r => (k, payload_of_json x) :: go r end.
Definition plain_all := fix all (l : list payload) : bool := match l with [] => true | x :: r => plainb x && all r end.
Definition plain_alld := fix all (l : list (string * payload)) : bool := match l with [] => true | (_, x) :: r => plainb x && all r end.

Lemma plain_roundtrip : forall p, plainb p = true -> exists j, json_of p = Some j /\ payload_of_json j = p.
Proof.
  induction p using payload_ind'; intro Hp; cbn in Hp; try discriminate; try (eexists; split; reflexivity).
  - (* list *)
    assert (G : exists js, json_list l = Some js /\ pl_list js = l).
    { induction l as [|x l IHl]; cbn.
      - exists []; auto.
      - inversion H; subst. change (plainb x && plain_all l = true) in Hp. apply andb_true_iff in Hp as [Hx Hl].
        destruct (H2 Hx) as (j & Hj1 & Hj2). destruct (IHl H3 Hl) as (js & Hs1 & Hs2).
        exists (j :: js). fold json_list. rewrite Hj1, Hs1. cbn. fold pl_list. now rewrite Hj2, Hs2. }
    destruct G as (js & G1 & G2). exists (JArr js). cbn. fold json_list. rewrite G1. cbn. fold pl_list. now rewrite G2.
  - (* dict *)
    assert (G : exists js, json_pairs l = Some js /\ pl_pairs js = l).
    { induction l as [|[k x] l IHl]; cbn.
      - exists []; auto.
      - inversion H; subst. change (plainb x && plain_alld l = true) in Hp. apply andb_true_iff in Hp as [Hx Hl].
        cbn in H2. destruct (H2 Hx) as (j & Hj1 & Hj2). destruct (IHl H3 Hl) as (js & Hs1 & Hs2).
        exists ((k, j) :: js). fold json_pairs. rewrite Hj1, Hs1. cbn. fold pl_pairs. now rewrite Hj2, Hs2. }
    destruct G as (js & G1 & G2). exists (JObj js). cbn. fold json_pairs. rewrite G1. cbn. fold pl_pairs. now rewrite G2.
Qed.

(* what _is_json_serializable accepts, JSON gives back unchanged (tuples and sets are not accepted any more) *)
Lemma ser_plain : forall p, is_json_serializable p = true -> plainb p = true.
Proof.
  (* with tuples and sets refused, _is_json_serializable is literally the predicate "JSON gives it back unchanged" *)
  intros p Hp. exact Hp.
Qed.

(* ------------------------------------------------------------------ dtype strings *)
Lemma str_dtype_str : forall d, str_dtype (dtype_str d) = Some d.
Proof. destruct d; reflexivity. Qed.

Lemma dtype_eqb_refl : forall d, dtype_eqb d d = true.
Proof. intro d. unfold dtype_eqb. apply String.eqb_refl. Qed.

(* ------------------------------------------------------------------ shapes through JSON *)
Lemma jshape_of_jshape : forall s, jshape_of (jshape s) = Some s.
Proof.
  intro s. unfold jshape, jshape_of. induction s as [|n s IH]; cbn; auto.
  rewrite IH. unfold jnat. cbn. destruct (Z.of_nat n <? 0)%Z eqn:E; [apply Z.ltb_lt in E; lia|].
  now rewrite Nat2Z.id.
Qed.

(* ------------------------------------------------------------------ association lists *)
Lemma sget_app_none : forall {A} k (l1 l2 : list (string * A)), sget k l1 = None -> sget k (l1 ++ l2) = sget k l2.
Proof. intros A k l1 l2. induction l1 as [|[k' v] l1 IH]; cbn; auto. destruct (String.eqb k k'); [discriminate|auto]. Qed.

Lemma sget_app_some : forall {A} k (l1 l2 : list (string * A)) v, sget k l1 = Some v -> sget k (l1 ++ l2) = Some v.
Proof. intros A k l1 l2 v. induction l1 as [|[k' v'] l1 IH]; cbn; [discriminate|]. destruct (String.eqb k k'); auto. Qed.

Lemma sget_none_notin : forall {A} k (l : list (string * A)), sget k l = None <-> ~ In k (map fst l).
Proof.
  intros A k l. induction l as [|[k' v] l IH]; cbn; [tauto|].
  destruct (String.eqb k k') eqn:E.
  - apply String.eqb_eq in E. subst. split; [discriminate|]. intro H. exfalso. apply H. now left.
  - apply String.eqb_neq in E. rewrite IH. split; intro H; [intros [G|G]; [congruence|tauto]|tauto].
Qed.

Lemma jset_fresh : forall {A} k (v : A) l, sget k l = None -> jset k v l = l ++ [(k, v)].
Proof.
  intros A k v l. induction l as [|[k' v'] l IH]; cbn; auto.
  destruct (String.eqb k k'); [discriminate|]. intro H. now rewrite IH.
Qed.

Lemma fget_app_none : forall k l1 l2, fget k l1 = None -> fget k (l1 ++ l2) = fget k l2.
Proof. intros k l1 l2. induction l1 as [|[k' v] l1 IH]; cbn; auto. destruct (fname_eqb k k'); [discriminate|auto]. Qed.

Lemma fget_app_some : forall k l1 l2 v, fget k l1 = Some v -> fget k (l1 ++ l2) = Some v.
Proof. intros k l1 l2 v. induction l1 as [|[k' v'] l1 IH]; cbn; [discriminate|]. destruct (fname_eqb k k'); auto. Qed.

Lemma fset_fresh : forall k v l, fget k l = None -> fset k v l = l ++ [(k, v)].
Proof.
  intros k v l. induction l as [|[k' v'] l IH]; cbn; auto.
  destruct (fname_eqb k k'); [discriminate|]. intro H. now rewrite IH.
Qed.

Lemma fname_eqb_refl : forall f, fname_eqb f f = true.
Proof. destruct f; cbn; auto. apply String.eqb_refl. Qed.

Lemma sub_dir_fresh : forall k subs, sget k subs = None -> sub_dir k subs = empty_dir.
Proof. intros k subs H. unfold sub_dir. now rewrite H. Qed.

Lemma nodupb_NoDup : forall l, nodupb l = true -> NoDup l.
Proof.
  induction l as [|k l IH]; cbn; intro H; [constructor|].
  apply andb_true_iff in H as [H1 H2]. constructor; auto.
  intro Hin. apply negb_true_iff in H1.
  assert (existsb (String.eqb k) l = true) by (apply existsb_exists; exists k; split; auto; apply String.eqb_refl). congruence.
Qed.

Lemma shape_eqb_eq : forall a b, shape_eqb a b = true -> a = b.
Proof.
  induction a as [|x a IH]; destruct b as [|y b]; cbn; intro H; try discriminate; auto.
  apply andb_true_iff in H as [H1 H2]. apply Nat.eqb_eq in H1. f_equal; auto.
Qed.

(* ------------------------------------------------------------------ str(i) is injective *)
Lemma string_of_nat_inj : forall a b, string_of_nat a = string_of_nat b -> a = b.
Proof.
  intros a b H. unfold string_of_nat in H.
  assert (G : Some (Nat.to_uint a) = Some (Nat.to_uint b)).
  { rewrite <- (NilEmpty.usu (Nat.to_uint a)), <- (NilEmpty.usu (Nat.to_uint b)). now rewrite H. }
  inversion G as [G']. rewrite <- (DecimalNat.Unsigned.of_to a), <- (DecimalNat.Unsigned.of_to b). now rewrite G'.
Qed.

(* ------------------------------------------------------------------ the loops of save_over / decode / norm, named *)
Definition save_ents (o : opts) (rec : td -> dir -> res dir) :=
  fix go (es : list (string * td)) (files : list (fname * content)) (subs : list (string * dir))
    : res (list (fname * content) * list (string * dir)) :=
    match es with
    | [] => Ok (files, subs)
    | (k, x) :: r =>
        if reserved k then Raised EValueError
        else match x with
             | Leaf l => bind (populate o k l files) (fun f' => go r f' subs)
             | c => bind (rec c (sub_dir k subs)) (fun d' => go r files (jset k d' subs))
             end
    end.
Definition save_members (rec : td -> dir -> res dir) :=
  fix go (ms : list td) (i : nat) (subs : list (string * dir)) : res (list (string * dir)) :=
    match ms with
    | [] => Ok subs
    | m :: r => bind (rec m (sub_dir (string_of_nat i) subs)) (fun d' => go r (S i) (jset (string_of_nat i) d' subs))
    end.
Definition decode_subs := fix go (l : list (string * dir)) : list (string * res td) :=
  match l with [] => [] | (k, x) :: r => (k, decode x) :: go r end.
Definition norm_ents := fix go (es : list (string * td)) : list (string * td) :=
  match es with [] => [] | (k, x) :: r => (k, norm x) :: go r end.
Definition norm_list := fix go (l : list td) : list td := match l with [] => [] | x :: r => norm x :: go r end.
Definition tolist_items := fix go (l : list td) : list payload := match l with [] => [] | x :: r => tolist x :: go r end.

Lemma save_over_node : forall o bs ents files subs,
  save_over o (Node bs ents) (Dir files subs)
  = bind (save_ents o (save_over o) ents files subs)
         (fun fs => Ok (Dir (fset FMeta (CJson (JObj (node_meta bs ents))) (fst fs)) (snd fs))).
Proof. reflexivity. Qed.

Lemma save_over_lazy : forall o sd ms files subs,
  save_over o (Lazy sd ms) (Dir files subs)
  = bind (save_members (save_over o) ms 0 subs)
         (fun subs' => Ok (Dir (fset FMeta (CJson (JObj (lazy_meta sd (List.length ms)))) files) subs')).
Proof. reflexivity. Qed.

Lemma decode_dir : forall files subs, decode (Dir files subs) = load_top files (decode_subs subs).
Proof. reflexivity. Qed.

Lemma norm_node : forall bs ents,
  norm (Node bs ents) = Node bs (filter (fun kv => is_leaf (snd kv)) (norm_ents ents)
                                ++ filter (fun kv => negb (is_leaf (snd kv))) (norm_ents ents)).
Proof. reflexivity. Qed.
Lemma norm_lazy : forall sd ms, norm (Lazy sd ms) = Lazy sd (norm_list ms).
Proof. reflexivity. Qed.
Lemma norm_nstack : forall items, norm (NStack items) = NStack (norm_list items).
Proof. reflexivity. Qed.
Lemma tolist_nstack : forall items, tolist (NStack items) = PList (tolist_items items).
Proof. reflexivity. Qed.

(* ------------------------------------------------------------------ metadata of a node with sane keys *)
Definition recs (ents : list (string * td)) : list (string * json) := map (fun kv => (fst kv, entry_record (snd kv))) ents.

Lemma fold_jset_fresh : forall (ents : list (string * td)) (m : list (string * json)),
  NoDup (map fst ents) -> (forall k, In k (map fst ents) -> sget k m = None) ->
  fold_left (fun m kv => jset (fst kv) (entry_record (snd kv)) m) ents m = m ++ recs ents.
Proof.
  induction ents as [|[k x] ents IH]; intros m Hnd Hfresh; cbn.
  - now rewrite app_nil_r.
  - inversion Hnd; subst. rewrite jset_fresh by (apply Hfresh; now left).
    rewrite IH; auto.
    + now rewrite <- app_assoc.
    + intros k' Hk'. rewrite sget_app_none by (apply Hfresh; now right). cbn.
      destruct (String.eqb k' k) eqn:E; auto. apply String.eqb_eq in E. subst. contradiction.
Qed.

Definition keys_ok (ents : list (string * td)) : Prop :=
  NoDup (map fst ents) /\ Forall (fun kv => reserved (fst kv) = false) ents.

Lemma reserved_false : forall k, reserved k = false -> k <> "shape" /\ k <> "device" /\ k <> "_type".
Proof.
  intros k H. unfold reserved in H. apply orb_false_iff in H as [H H3]. apply orb_false_iff in H as [H1 H2].
  repeat split; intro E; subst; discriminate.
Qed.

Lemma sget_recs_reserved : forall ents k, Forall (fun kv => reserved (fst kv) = false) ents -> reserved k = true -> sget k (recs ents) = None.
Proof.
  intros ents k Hf Hk. apply sget_none_notin. unfold recs. rewrite map_map. cbn. intro Hin.
  apply in_map_iff in Hin as (kv & E & Hin). rewrite Forall_forall in Hf. specialize (Hf kv Hin). congruence.
Qed.

Lemma node_meta_ok : forall bs ents, keys_ok ents ->
  node_meta bs ents = recs ents ++ [("shape", jshape bs); ("device", JStr "cpu"); ("_type", JStr "TensorDict")].
Proof.
  intros bs ents [Hnd Hres]. unfold node_meta. rewrite fold_jset_fresh; auto. cbn [List.app].
  rewrite (jset_fresh "shape") by (now apply sget_recs_reserved).
  rewrite (jset_fresh "device").
  2:{ rewrite sget_app_none by (now apply sget_recs_reserved). reflexivity. }
  rewrite (jset_fresh "_type").
  2:{ rewrite <- app_assoc. rewrite sget_app_none by (now apply sget_recs_reserved). reflexivity. }
  now rewrite <- !app_assoc.
Qed.

Lemma jdel_app_none : forall {A} k (l1 l2 : list (string * A)), sget k l1 = None -> jdel k (l1 ++ l2) = l1 ++ jdel k l2.
Proof.
  intros A k l1 l2. induction l1 as [|[k' v] l1 IH]; cbn; auto.
  destruct (String.eqb k k'); [discriminate|]. intro H. now rewrite IH.
Qed.

(* ------------------------------------------------------------------ a TensorDict node: what the save loop leaves *)
Definition nonleaf (kv : string * td) : bool := negb (is_leaf (snd kv)).
(* a tensor without elements has no file *)
Definition leaf_file (kv : string * td) : list (fname * content) :=
  match snd kv with
  | Leaf l => if Nat.eqb (numel (lshape l)) 0 then [] else [(FLeaf (fst kv), CCells (ldtype l) (lcells l))]
  | _ => []
  end.
Definition leaf_files (es : list (string * td)) : list (fname * content) := flat_map leaf_file es.

(* what the induction gives for a sub-collection c: it is saved into a fresh directory d, and d loads back *)
Definition saved_ok (o : opts) (c : td) (d : dir) : Prop :=
  save_over o c empty_dir = Ok d /\ decode d = Ok (norm c).
Definition entry_ok (o : opts) (kv : string * td) : Prop :=
  match snd kv with Leaf l => leaf_ok o l = true | c => exists d, saved_ok o c d end.

Lemma leaf_files_cons : forall kv es, leaf_files (kv :: es) = leaf_file kv ++ leaf_files es.
Proof. reflexivity. Qed.
Lemma leaf_file_coll : forall k x, is_leaf x = false -> leaf_file (k, x) = [].
Proof. intros k x H. destruct x; try discriminate; reflexivity. Qed.
Lemma leaf_file_zero : forall k l, Nat.eqb (numel (lshape l)) 0 = true -> leaf_file (k, Leaf l) = [].
Proof. intros k l H. unfold leaf_file. cbn. now rewrite H. Qed.
Lemma leaf_file_nonzero : forall k l, Nat.eqb (numel (lshape l)) 0 = false ->
  leaf_file (k, Leaf l) = [(FLeaf k, CCells (ldtype l) (lcells l))].
Proof. intros k l H. unfold leaf_file. cbn. now rewrite H. Qed.

Lemma leaf_file_keys : forall kv f c, In (f, c) (leaf_file kv) -> f = FLeaf (fst kv).
Proof.
  intros [k x] f c H. unfold leaf_file in H. cbn in H. destruct x; try contradiction.
  destruct (Nat.eqb (numel (lshape l)) 0); [contradiction|]. destruct H as [H|[]]. now inversion H.
Qed.

Lemma fget_leaf_files_none : forall es k, ~ In k (map fst es) -> fget (FLeaf k) (leaf_files es) = None.
Proof.
  induction es as [|[k' x] es IH]; intros k Hk; cbn; auto.
  assert (k <> k') by (intro; subst; apply Hk; now left).
  assert (~ In k (map fst es)) by (intro; apply Hk; now right).
  unfold leaf_files in *. cbn [flat_map]. rewrite fget_app_none; auto.
  unfold leaf_file. cbn. destruct x; cbn; auto. destruct (Nat.eqb (numel (lshape l)) 0); cbn; auto.
  destruct (String.eqb k k') eqn:E; [apply String.eqb_eq in E; congruence|auto].
Qed.

Lemma leaf_ok_parts : forall o l, leaf_ok o l = true -> Nat.eqb (List.length (lcells l)) (numel (lshape l)) = true /\ refused o l = false.
Proof. intros o l H. unfold leaf_ok in H. apply andb_true_iff in H as [H1 H2]. apply negb_true_iff in H2. auto. Qed.

Lemma save_ents_spec : forall o es files0 subs0,
  like o = false -> NoDup (map fst es) -> Forall (fun kv => reserved (fst kv) = false) es ->
  (forall k, In k (map fst es) -> fget (FLeaf k) files0 = None /\ sget k subs0 = None) ->
  Forall (entry_ok o) es ->
  exists sl, save_ents o (save_over o) es files0 subs0 = Ok (files0 ++ leaf_files es, subs0 ++ sl)
    /\ Forall2 (fun kv kd => fst kv = fst kd /\ saved_ok o (snd kv) (snd kd)) (filter nonleaf es) sl.
Proof.
  intros o es. induction es as [|[k x] es IH]; intros files0 subs0 Hlike Hnd Hres Hfresh Hok.
  - exists []. cbn. rewrite !app_nil_r. split; auto.
  - inversion Hnd as [|? ? Hk Hnd']; subst. inversion Hok as [|? ? Hx Hok']; subst.
    inversion Hres as [|? ? Hrk Hres']; subst. cbn [fst] in Hrk.
    destruct (Hfresh k (or_introl eq_refl)) as [Hf Hs].
    assert (Hcoll : forall d, is_leaf x = false -> saved_ok o x d ->
              exists sl, bind (save_over o x (sub_dir k subs0)) (fun d' => save_ents o (save_over o) es files0 (jset k d' subs0))
                         = Ok (files0 ++ leaf_files ((k, x) :: es), subs0 ++ sl)
              /\ Forall2 (fun kv kd => fst kv = fst kd /\ saved_ok o (snd kv) (snd kd)) (filter nonleaf ((k, x) :: es)) sl).
    { intros d Hxl Hd. rewrite (sub_dir_fresh _ _ Hs). rewrite (proj1 Hd). cbn [bind].
      rewrite jset_fresh by exact Hs.
      destruct (IH files0 (subs0 ++ [(k, d)]) Hlike Hnd' Hres') as (sl & E & F2); auto.
      { intros k' Hk'. destruct (Hfresh k' (or_intror Hk')) as [A B]. split; auto.
        rewrite sget_app_none by exact B. cbn. destruct (String.eqb k' k) eqn:E; auto.
        apply String.eqb_eq in E. subst. contradiction. }
      exists ((k, d) :: sl). split.
      - rewrite E. rewrite leaf_files_cons, (leaf_file_coll k x Hxl). cbn [List.app]. now rewrite <- app_assoc.
      - unfold nonleaf at 1. cbn [filter snd]. rewrite Hxl. cbn [negb]. constructor; auto. }
    cbn [save_ents]. rewrite Hrk.
    destruct x as [l|bs' ents'|sd ms|c inner|bs' p|items];
      try (destruct Hx as (d & Hd); apply (Hcoll d eq_refl Hd)).
    (* a tensor *)
    unfold entry_ok in Hx; cbn in Hx. destruct (leaf_ok_parts o l Hx) as [Hlen Href].
    unfold populate. rewrite Href.
    destruct (Nat.eqb (numel (lshape l)) 0) eqn:Hne; cbn [bind].
    + destruct (IH files0 subs0 Hlike Hnd' Hres') as (sl & E & F2); auto.
      { intros k' Hk'. apply Hfresh. now right. }
      exists sl. split; [|exact F2]. fold (save_ents o (save_over o)). rewrite E.
      rewrite leaf_files_cons, (leaf_file_zero k l Hne). reflexivity.
    + rewrite Hlike. rewrite fset_fresh by exact Hf.
      destruct (IH (files0 ++ [(FLeaf k, CCells (ldtype l) (lcells l))]) subs0 Hlike Hnd' Hres') as (sl & E & F2); auto.
      { intros k' Hk'. destruct (Hfresh k' (or_intror Hk')) as [A B]. split; auto.
        rewrite fget_app_none by exact A. cbn. destruct (String.eqb k' k) eqn:E; auto.
        apply String.eqb_eq in E. subst. contradiction. }
      exists sl. split; [|exact F2]. fold (save_ents o (save_over o)). rewrite E.
      rewrite leaf_files_cons, (leaf_file_nonzero k l Hne). cbn [List.app]. now rewrite <- app_assoc.
Qed.

(* ------------------------------------------------------------------ a TensorDict node: what the loader reads back *)
(* the file of a tensor entry, as the loader finds it *)
Definition leaf_file_spec (files : list (fname * content)) (k : string) (l : leaf) : Prop :=
  if Nat.eqb (numel (lshape l)) 0 then fget (FLeaf k) files = None
  else fget (FLeaf k) files = Some (CCells (ldtype l) (lcells l)).

Lemma fget_some_in : forall f l c, fget f l = Some c -> exists c0, In (f, c0) l.
Proof.
  intros f l. induction l as [|[f' c'] l IH]; intro c; [discriminate|].
  change (fget f ((f', c') :: l)) with (if fname_eqb f f' then Some c' else fget f l).
  destruct (fname_eqb f f') eqn:E; intro H.
  - assert (f = f').
    { destruct f, f'; cbn in E; try discriminate; auto. apply String.eqb_eq in E. now subst. }
    subst. exists c'. now left.
  - destruct (IH c H) as (c0 & Hc0). exists c0. now right.
Qed.

Lemma fget_leaf_files_spec : forall es k l, NoDup (map fst es) -> In (k, Leaf l) es -> leaf_file_spec (leaf_files es) k l.
Proof.
  induction es as [|[k' x] es IH]; intros k l Hnd Hin; [contradiction|].
  inversion Hnd as [|? ? Hk Hnd']; subst. unfold leaf_files. cbn [flat_map].
  destruct Hin as [E|Hin].
  - inversion E; subst. unfold leaf_file_spec, leaf_file. cbn [snd fst].
    destruct (Nat.eqb (numel (lshape l)) 0) eqn:Hne.
    + cbn [List.app]. now apply fget_leaf_files_none.
    + cbn. now rewrite String.eqb_refl.
  - assert (Hne : k <> k') by (intro; subst; apply Hk; apply in_map_iff; exists (k', Leaf l); auto).
    specialize (IH k l Hnd' Hin). unfold leaf_file_spec in *.
    assert (G : fget (FLeaf k) (leaf_file (k', x)) = None).
    { destruct (fget (FLeaf k) (leaf_file (k', x))) eqn:G; auto. exfalso.
      destruct (fget_some_in _ _ _ G) as (c0 & Hc0).
      apply leaf_file_keys in Hc0. cbn in Hc0. inversion Hc0. contradiction. }
    destruct (Nat.eqb (numel (lshape l)) 0); rewrite fget_app_none by exact G; exact IH.
Qed.

Lemma load_record_leaf : forall o files k l,
  leaf_ok o l = true -> leaf_file_spec files k l ->
  load_record files k (leaf_record l) = Ok (RLeaf (Leaf (loaded_leaf l))).
Proof.
  intros o files k l Hok Hf. destruct (leaf_ok_parts o l Hok) as [Hlen _]. unfold leaf_file_spec in Hf.
  unfold load_record. remember (leaf_record l) as r eqn:E.
  assert (E1 : jget "type" r = None) by (subst; reflexivity).
  assert (E2 : jget "dtype" r = Some (JStr (dtype_str (ldtype l)))) by (subst; reflexivity).
  assert (E3 : jget "shape" r = Some (jshape (lshape l))) by (subst; reflexivity).
  destruct r; try (unfold leaf_record in E; discriminate E).
  rewrite E1, E2, E3. cbn [jstr_of]. rewrite jshape_of_jshape.
  destruct (Nat.eqb (numel (lshape l)) 0) eqn:Hne; rewrite Hf.
  - rewrite str_dtype_str. unfold loaded_leaf.
    apply Nat.eqb_eq in Hlen. apply Nat.eqb_eq in Hne. rewrite Hne in Hlen.
    destruct (lcells l); [reflexivity|discriminate].
  - rewrite str_dtype_str. rewrite dtype_eqb_refl, Hlen. reflexivity.
Qed.

Lemma load_record_coll : forall files k c, is_leaf c = false -> load_record files k (entry_record c) = Ok RPath.
Proof. intros files k c H. destruct c; try discriminate; reflexivity. Qed.

Lemma load_records_cons : forall files k r m,
  load_records files ((k, r) :: m)
  = bind (load_record files k r) (fun rk =>
    bind (load_records files m) (fun acc =>
      match rk with
      | RLeaf t => Ok ((k, t) :: fst acc, snd acc)
      | RPath => Ok (fst acc, k :: snd acc)
      | RSkip => Ok acc
      end)).
Proof. reflexivity. Qed.

Lemma load_records_spec : forall o es files,
  NoDup (map fst es) -> Forall (entry_ok o) es ->
  (forall k l, In (k, Leaf l) es -> leaf_file_spec files k l) ->
  load_records files (recs es ++ [("_type", JStr "TensorDict")])
  = Ok (filter (fun kv => is_leaf (snd kv)) (norm_ents es), map fst (filter nonleaf es)).
Proof.
  intros o es files. induction es as [|[k x] es IH]; intros Hnd Hok Hf.
  - reflexivity.
  - inversion Hnd; subst. inversion Hok as [|? ? Hx Hok']; subst.
    change (recs ((k, x) :: es)) with ((k, entry_record x) :: recs es).
    rewrite <- app_comm_cons, load_records_cons.
    assert (IH' := IH H2 Hok' (fun k l Hin => Hf k l (or_intror Hin))).
    destruct (is_leaf x) eqn:Ex.
    + destruct x as [l| | | | |]; try discriminate. cbn [entry_record].
      rewrite (load_record_leaf o files k l Hx (Hf k l (or_introl eq_refl))). cbn [bind]. rewrite IH'. reflexivity.
    + rewrite (load_record_coll files k x Ex). cbn [bind]. rewrite IH'. cbn [bind fst snd].
      destruct x; try discriminate; reflexivity.
Qed.

Definition bs_ok (bs : list nat) (kv : string * td) : Prop :=
  match snd kv with NData b _ => is_prefix bs b = true | _ => True end.

Lemma adopt_norm : forall bs c, is_leaf c = false -> bs_ok bs ("", c) -> adopt bs (norm c) = norm c.
Proof.
  intros bs c Hc Hb. destruct c; try discriminate; try reflexivity.
  unfold bs_ok in Hb. cbn in Hb |- *. now rewrite Hb.
Qed.

Lemma load_subs_spec : forall o bs paths es sl,
  Forall2 (fun kv kd => fst kv = fst kd /\ saved_ok o (snd kv) (snd kd)) (filter nonleaf es) sl ->
  (forall kv, In kv (filter nonleaf es) -> In (fst kv) paths) ->
  Forall (bs_ok bs) es ->
  load_subs bs paths (decode_subs sl) = Ok (filter (fun kv => negb (is_leaf (snd kv))) (norm_ents es)).
Proof.
  intros o bs paths es. induction es as [|[k x] es IH]; intros sl F2 Hp Hb.
  - cbn in F2. inversion F2; subst. reflexivity.
  - inversion Hb as [|? ? Hbx Hb']; subst. cbn [norm_ents filter snd].
    destruct (is_leaf x) eqn:Ex.
    + assert (is_leaf (norm x) = true) by (destruct x; try discriminate; reflexivity). rewrite H. cbn [negb].
      cbn in F2, Hp. unfold nonleaf in F2, Hp. cbn in F2, Hp. rewrite Ex in F2, Hp. cbn in F2, Hp. apply IH; auto.
    + assert (is_leaf (norm x) = false) by (destruct x; try discriminate; reflexivity). rewrite H. cbn [negb].
      cbn in F2, Hp. unfold nonleaf in F2, Hp. cbn in F2, Hp. rewrite Ex in F2, Hp. cbn in F2, Hp.
      inversion F2 as [|? [k' d] ? sl' [Hk [Hsv Hdec]] F2']; subst. cbn in Hk. subst k'.
      cbn [decode_subs load_subs].
      assert (existsb (String.eqb k) paths = true).
      { apply existsb_exists. exists k. split; [apply (Hp (k, x)); now left|apply String.eqb_refl]. }
      rewrite H0. cbn in Hdec. rewrite Hdec. cbn [bind]. fold decode_subs.
      rewrite (IH sl' F2'); auto. cbn [bind]. rewrite adopt_norm; auto.
Qed.

Lemma fget_meta_leaf_files : forall es, fget FMeta (leaf_files es) = None.
Proof.
  induction es as [|[k x] es IH]; cbn; auto. unfold leaf_files in *. cbn [flat_map]. rewrite fget_app_none; auto.
  unfold leaf_file. cbn. destruct x; cbn; auto. destruct (Nat.eqb (numel (lshape l)) 0); reflexivity.
Qed.

Lemma leaf_file_spec_app : forall files k l c, leaf_file_spec files k l -> leaf_file_spec (files ++ [(FMeta, c)]) k l.
Proof.
  intros files k l c H. unfold leaf_file_spec in *. destruct (Nat.eqb (numel (lshape l)) 0).
  - rewrite fget_app_none by exact H. reflexivity.
  - now apply fget_app_some.
Qed.

Lemma node_roundtrip : forall o bs ents,
  like o = false -> keys_ok ents -> Forall (entry_ok o) ents -> Forall (bs_ok bs) ents ->
  exists d, save_over o (Node bs ents) empty_dir = Ok d /\ decode d = Ok (norm (Node bs ents)).
Proof.
  intros o bs ents Hlike Hkeys Hok Hbs. destruct Hkeys as [Hnd Hres].
  destruct (save_ents_spec o ents [] [] Hlike Hnd Hres) as (sl & E & F2); auto.
  unfold empty_dir. rewrite save_over_node, E. cbn [bind fst snd List.app].
  eexists. split; [reflexivity|].
  rewrite fset_fresh by apply fget_meta_leaf_files.
  rewrite decode_dir. unfold load_top.
  rewrite fget_app_none by apply fget_meta_leaf_files. cbn [fget fname_eqb].
  rewrite node_meta_ok by (split; auto).
  set (tail3 := [("shape", jshape bs); ("device", JStr "cpu"); ("_type", JStr "TensorDict")]).
  assert (Et : sget "_type" (recs ents ++ tail3) = Some (JStr "TensorDict")).
  { rewrite sget_app_none by (now apply sget_recs_reserved). reflexivity. }
  assert (Es : sget "shape" (recs ents ++ tail3) = Some (jshape bs)).
  { rewrite sget_app_none by (now apply sget_recs_reserved). reflexivity. }
  assert (Ed : jdel "device" (jdel "shape" (recs ents ++ tail3)) = recs ents ++ [("_type", JStr "TensorDict")]).
  { rewrite jdel_app_none by (now apply sget_recs_reserved). cbn [tail3 jdel String.eqb].
    rewrite jdel_app_none by (now apply sget_recs_reserved). reflexivity. }
  rewrite Et. cbn [String.eqb Ascii.eqb Bool.eqb]. cbv beta iota. unfold load_node. rewrite Es, jshape_of_jshape, Ed.
  rewrite (load_records_spec o ents); auto.
  2:{ intros k l Hin. apply leaf_file_spec_app. now apply fget_leaf_files_spec. }
  cbn [bind fst snd].
  rewrite (load_subs_spec o bs _ ents sl F2); auto.
  intros kv Hin. now apply in_map.
Qed.

(* ------------------------------------------------------------------ lazy stacks *)
Fixpoint idx (i : nat) (dl : list dir) : list (string * dir) :=
  match dl with [] => [] | d :: r => (string_of_nat i, d) :: idx (S i) r end.

Lemma sget_idx_none : forall dl i n, n < i -> sget (string_of_nat n) (idx i dl) = None.
Proof.
  induction dl as [|d dl IH]; intros i n Hn; cbn; auto.
  destruct (String.eqb (string_of_nat n) (string_of_nat i)) eqn:E.
  - apply String.eqb_eq, string_of_nat_inj in E. lia.
  - apply IH. lia.
Qed.

Lemma sget_idx_beyond : forall dl i n, i + List.length dl <= n -> sget (string_of_nat n) (idx i dl) = None.
Proof.
  induction dl as [|d dl IH]; intros i n Hn; cbn in *; auto.
  destruct (String.eqb (string_of_nat n) (string_of_nat i)) eqn:E.
  - apply String.eqb_eq, string_of_nat_inj in E. lia.
  - apply IH. lia.
Qed.

Lemma save_members_spec : forall o ms i subs0,
  (forall j, i <= j -> sget (string_of_nat j) subs0 = None) ->
  Forall (fun m => exists d, saved_ok o m d) ms ->
  exists dl, save_members (save_over o) ms i subs0 = Ok (subs0 ++ idx i dl) /\ Forall2 (saved_ok o) ms dl.
Proof.
  intros o ms. induction ms as [|m ms IH]; intros i subs0 Hfresh Hok.
  - exists []. cbn. rewrite app_nil_r. auto.
  - inversion Hok as [|? ? (d & Hd) Hok']; subst.
    cbn [save_members]. rewrite (sub_dir_fresh _ _ (Hfresh i (le_n i))). rewrite (proj1 Hd). cbn [bind].
    rewrite jset_fresh by (apply Hfresh; lia).
    destruct (IH (S i) (subs0 ++ [(string_of_nat i, d)])) as (dl & E & F2); auto.
    { intros j Hj. rewrite sget_app_none by (apply Hfresh; lia). cbn.
      destruct (String.eqb (string_of_nat j) (string_of_nat i)) eqn:E; auto.
      apply String.eqb_eq, string_of_nat_inj in E. lia. }
    exists (d :: dl). split; [|constructor; auto].
    fold (save_members (save_over o)). rewrite E. cbn. now rewrite <- app_assoc.
Qed.

Lemma sget_decode_subs : forall subs k, sget k (decode_subs subs) = option_map decode (sget k subs).
Proof. induction subs as [|[k' d] subs IH]; intro k; cbn; auto. destruct (String.eqb k k'); auto. Qed.

Lemma load_members_spec : forall rl (ds : list (string * res td)) i fuel,
  (forall j t, nth_error rl j = Some t -> sget (string_of_nat (i + j)) ds = Some (Ok t)) ->
  sget (string_of_nat (i + List.length rl)) ds = None -> List.length rl < fuel ->
  load_members fuel i ds = Ok rl.
Proof.
  induction rl as [|t rl IH]; intros ds i fuel Hget Hend Hfuel; destruct fuel as [|f]; try (cbn in Hfuel; lia).
  - cbn in *. rewrite Nat.add_0_r in Hend. now rewrite Hend.
  - cbn [load_members]. specialize (Hget 0 t eq_refl) as H0. rewrite Nat.add_0_r in H0. rewrite H0. cbn [bind].
    rewrite (IH ds (S i) f); auto.
    + intros j t' Hj. replace (S i + j) with (i + S j) by lia. apply Hget. exact Hj.
    + cbn in Hend. replace (S i + List.length rl) with (i + S (List.length rl)) by lia. exact Hend.
    + cbn in Hfuel. lia.
Qed.

Lemma sget_idx_nth : forall dl i j d, nth_error dl j = Some d -> sget (string_of_nat (i + j)) (idx i dl) = Some d.
Proof.
  induction dl as [|d0 dl IH]; intros i j d Hj; [destruct j; discriminate|].
  destruct j as [|j]; cbn in *.
  - inversion Hj; subst. rewrite Nat.add_0_r. now rewrite String.eqb_refl.
  - destruct (String.eqb (string_of_nat (i + S j)) (string_of_nat i)) eqn:E.
    + apply String.eqb_eq, string_of_nat_inj in E. lia.
    + replace (i + S j) with (S i + j) by lia. now apply IH.
Qed.

Lemma length_decode_subs : forall subs, List.length (decode_subs subs) = List.length subs.
Proof. induction subs as [|[k d] subs IH]; cbn; auto. Qed.
Lemma length_idx : forall dl i, List.length (idx i dl) = List.length dl.
Proof. induction dl; intros; cbn; auto. Qed.

Lemma jnat_of_jnat : forall n, jnat_of (jnat n) = Some n.
Proof. intro n. unfold jnat_of, jnat. destruct (Z.of_nat n <? 0)%Z eqn:E; [apply Z.ltb_lt in E; lia|]. now rewrite Nat2Z.id. Qed.

Lemma Forall2_length' : forall {A B} (R : A -> B -> Prop) l1 l2, Forall2 R l1 l2 -> List.length l1 = List.length l2.
Proof. induction 1; cbn; auto. Qed.

Lemma load_members_exact : forall rl (ds : list (string * res td)) i,
  (forall j t, nth_error rl j = Some t -> sget (string_of_nat (i + j)) ds = Some (Ok t)) ->
  load_members (List.length rl) i ds = Ok rl.
Proof.
  induction rl as [|t rl IH]; intros ds i Hget; [reflexivity|].
  cbn [List.length load_members]. specialize (Hget 0 t eq_refl) as H0. rewrite Nat.add_0_r in H0. rewrite H0. cbn [bind].
  rewrite (IH ds (S i)); auto.
  intros j t' Hj. replace (S i + j) with (i + S j) by lia. apply Hget. exact Hj.
Qed.

Lemma length_norm_list : forall ms, List.length (norm_list ms) = List.length ms.
Proof. induction ms; cbn; auto. Qed.

Lemma lazy_roundtrip : forall o sd ms,
  ms <> [] -> Forall (fun m => exists d, saved_ok o m d) ms ->
  exists d, save_over o (Lazy sd ms) empty_dir = Ok d /\ decode d = Ok (norm (Lazy sd ms)).
Proof.
  intros o sd ms Hne Hok.
  destruct (save_members_spec o ms 0 [] (fun _ _ => eq_refl) Hok) as (dl & E & F2).
  unfold empty_dir. rewrite save_over_lazy, E. cbn [bind List.app fset].
  eexists. split; [reflexivity|].
  rewrite decode_dir. unfold load_top, lazy_meta. cbn [fget fname_eqb sget String.eqb Ascii.eqb Bool.eqb]. cbv beta iota.
  unfold load_lazy. cbn [sget String.eqb Ascii.eqb Bool.eqb]. cbv beta iota. rewrite !jnat_of_jnat.
  rewrite <- (length_norm_list ms).
  rewrite (load_members_exact (norm_list ms)).
  - cbn [bind]. rewrite norm_lazy. destruct ms; [congruence|reflexivity].
  - intros j t Hj. cbn [Nat.add]. rewrite sget_decode_subs.
    assert (exists m, nth_error ms j = Some m /\ t = norm m) as (m & Hm & Ht).
    { clear -Hj. revert j Hj. induction ms as [|m ms IH]; intros [|j] Hj; cbn in *; try discriminate.
      - inversion Hj. eauto.
      - eauto. }
    assert (exists d, nth_error dl j = Some d /\ saved_ok o m d) as (d & Hd & Hs).
    { clear -F2 Hm. revert j Hm. induction F2; intros [|j] Hm; cbn in *; try discriminate.
      - inversion Hm; subst. eauto.
      - eauto. }
    pose proof (sget_idx_nth dl 0 j d Hd) as G. cbn [Nat.add] in G. rewrite G. cbn [option_map]. rewrite (proj2 Hs). now subst t.
Qed.

(* ------------------------------------------------------------------ tensorclass instances *)
Lemma map_fst_norm_ents : forall es, map fst (norm_ents es) = map fst es.
Proof. induction es as [|[k x] es IH]; cbn; auto. now rewrite IH. Qed.

Lemma fold_jset_fresh_gen : forall {A} (l m : list (string * A)),
  NoDup (map fst l) -> (forall k, In k (map fst l) -> sget k m = None) ->
  fold_left (fun m kv => jset (fst kv) (snd kv) m) l m = m ++ l.
Proof.
  intros A. induction l as [|[k x] l IH]; intros m Hnd Hfresh; cbn.
  - now rewrite app_nil_r.
  - inversion Hnd; subst. rewrite jset_fresh by (apply Hfresh; now left).
    rewrite IH; auto.
    + now rewrite <- app_assoc.
    + intros k' Hk'. rewrite sget_app_none by (apply Hfresh; now right). cbn.
      destruct (String.eqb k' k) eqn:E; auto. apply String.eqb_eq in E. subst. contradiction.
Qed.

Lemma in_fst_filter : forall {A} (f : string * A -> bool) l k, In k (map fst (filter f l)) -> In k (map fst l).
Proof.
  intros A f l k H. apply in_map_iff in H as (kv & E & Hin). apply filter_In in Hin as [Hin _].
  apply in_map_iff. exists kv. auto.
Qed.

Lemma nodup_fst_filter : forall {A} (f : string * A -> bool) l, NoDup (map fst l) -> NoDup (map fst (filter f l)).
Proof.
  intros A f l. induction l as [|[k v] l IH]; cbn; intro H; [constructor|].
  inversion H; subst. destruct (f (k, v)); cbn; auto. constructor; auto.
  intro Hin. apply in_fst_filter in Hin. contradiction.
Qed.

Lemma filter_disjoint_keys : forall {A} (f : string * A -> bool) l k, NoDup (map fst l) ->
  In k (map fst (filter (fun kv => negb (f kv)) l)) -> sget k (filter f l) = None.
Proof.
  intros A f l k. induction l as [|[k' v] l IH]; cbn; intros Hnd Hin; auto.
  inversion Hnd; subst. destruct (f (k', v)) eqn:Ef; cbn in *.
  - destruct (String.eqb k k') eqn:E; auto.
    apply String.eqb_eq in E. subst k'. apply in_fst_filter in Hin. contradiction.
  - destruct Hin as [E|Hin]; auto. subst k'. apply sget_none_notin. intro G. apply in_fst_filter in G. contradiction.
Qed.

(* the json-serialisable fields of a tensorclass go through meta.json unchanged *)
Lemma json_fields_ser : forall nt, exists jl, json_fields (ser_fields nt) = Some jl
  /\ map (fun kv => (fst kv, payload_of_json (snd kv))) jl = ser_fields nt.
Proof.
  induction nt as [|[k v] nt IH].
  - exists []. auto.
  - destruct IH as (jl & H1 & H2). unfold ser_fields in *. cbn [filter snd]. destruct (is_json_serializable v) eqn:E.
    + destruct (plain_roundtrip v (ser_plain v E)) as (j & Hj1 & Hj2). exists ((k, j) :: jl).
      cbn [json_fields]. rewrite Hj1, H1. split; auto. cbn [map fst snd]. now rewrite Hj2, H2.
    + exists jl. auto.
Qed.

Lemma tc_meta_fresh : forall c jl, NoDup (map fst jl) -> ~ In "_type" (map fst jl) -> tc_meta c jl = ("_type", JStr c) :: jl.
Proof.
  intros c jl Hnd Hno. unfold tc_meta. rewrite fold_jset_fresh_gen; auto.
  intros k Hk. cbn. destruct (String.eqb k "_type") eqn:E; auto. apply String.eqb_eq in E. subst. contradiction.
Qed.

Lemma tc_check_keys_fresh : forall inner nt, (forall k, In k (map fst nt) -> ~ In k (td_keys inner)) -> tc_check_keys inner nt = Ok nt.
Proof.
  intros inner nt H. destruct inner; auto. cbn [tc_check_keys]. cbn [td_keys] in H.
  induction nt as [|[k v] nt IH]; auto.
  assert (E : smem k ents = false).
  { unfold smem. assert (G : sget k ents = None) by (apply sget_none_notin; apply H; now left). now rewrite G. }
  rewrite E. rewrite IH; auto. intros k' Hk'. apply H. now right.
Qed.

Lemma td_keys_norm : forall t k, In k (td_keys (norm t)) -> In k (td_keys t).
Proof.
  intros t k. destruct t; cbn [td_keys norm]; auto; try (now intros []).
  fold norm_ents. intro H. rewrite map_app in H. apply in_app_or in H as [H|H]; apply in_fst_filter in H; now rewrite map_fst_norm_ents in H.
Qed.

Lemma tc_roundtrip : forall o c nt inner,
  builtin_cls c = false -> (exists d, saved_ok o inner d) -> is_collection inner = true ->
  NoDup (map fst nt) -> ~ In "_type" (map fst nt) -> (forall k, In k (map fst nt) -> ~ In k (td_keys inner)) ->
  exists d, save_over o (TCls c nt inner) empty_dir = Ok d /\ decode d = Ok (norm (TCls c nt inner)).
Proof.
  intros o c nt inner Hc (d & Hs & Hd) Hcoll Hnd Hty Hkeys.
  destruct (json_fields_ser nt) as (jl & J1 & J2).
  assert (Kjl : map fst jl = map fst (ser_fields nt)).
  { rewrite <- J2. rewrite map_map. cbn. reflexivity. }
  assert (Hmeta : tc_meta c jl = ("_type", JStr c) :: jl).
  { apply tc_meta_fresh; rewrite Kjl.
    - now apply nodup_fst_filter.
    - intro G. apply in_fst_filter in G. contradiction. }
  assert (Hchk : tc_check_keys (norm inner) (ser_fields nt ++ pkl_fields nt) = Ok (ser_fields nt ++ pkl_fields nt)).
  { apply tc_check_keys_fresh. intros k Hk G. apply td_keys_norm in G. apply (Hkeys k); auto.
    rewrite map_app in Hk. apply in_app_or in Hk as [Hk|Hk]; now apply in_fst_filter in Hk. }
  unfold builtin_cls in Hc. apply orb_false_iff in Hc as [Hc H4]. apply orb_false_iff in Hc as [Hc H3].
  apply orb_false_iff in Hc as [H1 H2].
  unfold empty_dir. cbn [save_over]. unfold tc_files. rewrite J1. cbn [bind].
  change (sub_dir "_tensordict" []) with empty_dir. rewrite Hs. cbn [bind jset fset]. rewrite Hmeta.
  destruct (pkl_fields nt) as [|p0 pk] eqn:Epk.
  - cbn [fdel fname_eqb]. eexists. split; [reflexivity|].
    rewrite decode_dir. unfold load_top. cbn [fget fname_eqb]. cbn [sget]. rewrite String.eqb_refl.
    rewrite H1, H2, H4, H3.
    unfold load_tc. cbn [fget fname_eqb bind decode_subs sget jdel]. rewrite !String.eqb_refl. rewrite J2.
    rewrite Hd. cbn [bind]. rewrite app_nil_r in Hchk. rewrite Hchk. cbn [bind norm]. now rewrite Epk, app_nil_r.
  - cbn [fname_eqb]. eexists. split; [reflexivity|].
    rewrite decode_dir. unfold load_top. cbn [fget fname_eqb]. cbn [sget]. rewrite String.eqb_refl.
    rewrite H1, H2, H4, H3.
    unfold load_tc. cbn [fget fname_eqb bind decode_subs sget jdel]. rewrite !String.eqb_refl. rewrite J2.
    rewrite fold_jset_fresh_gen.
    + rewrite Hd. cbn [bind]. rewrite Hchk. cbn [bind norm]. now rewrite Epk.
    + rewrite <- Epk. now apply nodup_fst_filter.
    + intros k Hk. rewrite <- Epk in Hk. unfold ser_fields. apply filter_disjoint_keys; auto.
Qed.

(* ------------------------------------------------------------------ NonTensorData *)
Lemma ndata_roundtrip : forall o bs p,
  exists d, save_over o (NData bs p) empty_dir = Ok d /\ decode d = Ok (NData bs p).
Proof.
  intros o bs p. unfold empty_dir. cbn [save_over]. unfold ndata_files.
  destruct (is_json_serializable p) eqn:Es.
  - destruct (plain_roundtrip p (ser_plain p Es)) as (j & Hj1 & Hj2). rewrite Hj1. cbn [bind fset fdel fname_eqb].
    eexists. split; [reflexivity|].
    rewrite decode_dir. unfold load_top. cbn [fget fname_eqb sget String.eqb Ascii.eqb Bool.eqb]. cbv beta iota.
    unfold load_ndata. cbn [fget fname_eqb sget String.eqb Ascii.eqb Bool.eqb]. cbv beta iota.
    rewrite jshape_of_jshape. now rewrite Hj2.
  - cbn [bind fset fname_eqb].
    eexists. split; [reflexivity|].
    rewrite decode_dir. unfold load_top. cbn [fget fname_eqb sget String.eqb Ascii.eqb Bool.eqb]. cbv beta iota.
    unfold load_ndata. cbn [fget fname_eqb sget String.eqb Ascii.eqb Bool.eqb]. cbv beta iota.
    rewrite jshape_of_jshape. reflexivity.
Qed.

(* ------------------------------------------------------------------ NonTensorStack *)
Definition from_list_items (nested : bool) (nd : option nat) := fix go (l : list payload) : list (res td) :=
  match l with [] => [] | x :: r => (if nested then from_list nd x else Ok (NData [] x)) :: go r end.

Lemma from_list_plist : forall ndim l,
  from_list ndim (PList l)
  = bind (all_ok (from_list_items (forallb is_plist l && forallb (fun x => Nat.eqb (plen x) (plen (hd PNone l))) l && deeper ndim)
                                  (option_map pred ndim) l))
         (fun items => if uniform_bs items then Ok (NStack items) else Raised EReinterpret).
Proof. reflexivity. Qed.

Definition stack_all := fix all (l : list td) : bool := match l with [] => true | x :: r => stack_ok x && all r end.
Lemma stack_ok_nstack : forall items,
  stack_ok (NStack items)
  = negb (Nat.eqb (List.length items) 0) && stack_all items
    && (forallb (fun x => match x with NData _ _ => true | _ => false end) items
        || forallb (fun x => match x with NStack its => Nat.eqb (List.length its) (List.length (match hd (NData [] PNone) items with NStack i0 => i0 | _ => [] end)) | _ => false end) items)
    && uniform_bs items.
Proof. reflexivity. Qed.

Lemma length_tolist_items : forall l, List.length (tolist_items l) = List.length l.
Proof. induction l; cbn; auto. Qed.

Lemma forallb_plen : forall (l : list td) n, (forall x, In x l -> plen (tolist x) = n) ->
  forallb (fun x => Nat.eqb (plen x) n) (tolist_items l) = true.
Proof.
  induction l as [|x l IH]; intros n Hlen; cbn; auto. fold tolist_items.
  rewrite (Hlen x (or_introl eq_refl)), Nat.eqb_refl. cbn. apply IH. intros y Hy. apply Hlen. now right.
Qed.

Definition rank (t : td) : nat := List.length (stack_bs t).

(* the stack dimensions are counted ("ndim"): whatever the payloads are — lists included — they are read back as items *)
Lemma from_list_tolist : forall t, stack_ok t = true ->
  match t with NStack _ => from_list (Some (rank t)) (tolist t) = Ok t | _ => True end.
Proof.
  induction t using td_ind'; intro Hs; auto.
  rewrite stack_ok_nstack in Hs. apply andb_true_iff in Hs as [Hs Hu]. apply andb_true_iff in Hs as [Hs Hkind].
  apply andb_true_iff in Hs as [Hne Hall].
  rewrite tolist_nstack, from_list_plist.
  destruct items as [|x0 items0]; [discriminate|]. set (items := x0 :: items0) in *.
  apply orb_true_iff in Hkind as [Hd|Hn].
  - (* all items are NonTensorData of batch size []: one stack dimension *)
    assert (Hr : rank (NStack items) = 1).
    { unfold rank, items. cbn [stack_bs List.length]. cbn in Hd, Hall. apply andb_true_iff in Hd as [Hd _].
      apply andb_true_iff in Hall as [Hx _]. destruct x0; try discriminate. cbn in Hx. destruct bs; try discriminate. reflexivity. }
    rewrite Hr. cbn [deeper Nat.ltb Nat.leb]. rewrite andb_false_r.
    assert (G : forall nd, all_ok (from_list_items false nd (tolist_items items)) = Ok items).
    { intro nd. clear -Hd Hall. induction items as [|x l IH]; cbn; auto.
      cbn in Hd, Hall. apply andb_true_iff in Hd as [Hx Hd]. apply andb_true_iff in Hall as [Hsx Hall].
      fold tolist_items. fold (from_list_items false nd). rewrite IH by assumption. cbn.
      destruct x; try discriminate. cbn in Hsx. destruct bs; try discriminate. reflexivity. }
    rewrite G. cbn [bind]. now rewrite Hu.
  - (* all items are NonTensorStacks of one batch size *)
    assert (Hx0 : exists its0, x0 = NStack its0).
    { cbn in Hn. apply andb_true_iff in Hn as [Hn _]. destruct x0; try discriminate. eauto. }
    destruct Hx0 as (its0 & Ex0).
    set (r := rank x0).
    assert (Hr : rank (NStack items) = S r).
    { unfold rank, items. cbn [stack_bs List.length]. reflexivity. }
    assert (Hr1 : 1 <= r). { unfold r, rank. subst x0. cbn. lia. }
    rewrite Hr. assert (Hdeep : deeper (Some (S r)) = true). { cbn. destruct r; [lia|reflexivity]. }
    rewrite Hdeep. cbn [option_map pred]. rewrite andb_true_r.
    assert (Hnest : forallb is_plist (tolist_items items) && forallb (fun x => Nat.eqb (plen x) (plen (hd PNone (tolist_items items)))) (tolist_items items) = true).
    { apply andb_true_iff. split.
      - clear -Hn. generalize Hn. generalize (List.length match hd (NData [] PNone) items with NStack i0 => i0 | _ => [] end). intros n Hn'.
        clear Hn. induction items as [|y l IH]; cbn; auto. cbn in Hn'. apply andb_true_iff in Hn' as [Hy Hn'].
        destruct y; try discriminate. cbn. fold tolist_items. auto.
      - set (n0 := List.length (match hd (NData [] PNone) items with NStack i0 => i0 | _ => [] end)) in *.
        assert (Hlen : forall x, In x items -> plen (tolist x) = n0).
        { intros x Hx. rewrite forallb_forall in Hn. specialize (Hn x Hx). destruct x; try discriminate.
          apply Nat.eqb_eq in Hn. rewrite tolist_nstack. cbn [plen]. now rewrite length_tolist_items. }
        assert (Hhd : plen (hd PNone (tolist_items items)) = n0).
        { unfold items. cbn [tolist_items hd]. apply Hlen. now left. }
        rewrite Hhd. apply forallb_plen. exact Hlen. }
    rewrite Hnest.
    assert (Hrank : forall x, In x items -> rank x = r).
    { intros x [E|Hx]; [now subst|]. unfold uniform_bs, items in Hu. rewrite forallb_forall in Hu.
      specialize (Hu x Hx). apply shape_eqb_eq in Hu. unfold r, rank. now rewrite Hu. }
    assert (G : all_ok (from_list_items true (Some r) (tolist_items items)) = Ok items).
    { clear -H Hall Hn Hrank. generalize Hn. generalize (List.length match hd (NData [] PNone) items with NStack i0 => i0 | _ => [] end). intros n Hn'. clear Hn.
      induction items as [|x l IH]; cbn; auto.
      cbn in Hall, Hn'. apply andb_true_iff in Hall as [Hsx Hall]. apply andb_true_iff in Hn' as [Hnx Hn']. inversion H; subst.
      fold tolist_items. fold (from_list_items true (Some r)). rewrite IH; auto.
      2:{ intros y Hy. apply Hrank. now right. }
      specialize (H2 Hsx). destruct x; try discriminate. rewrite <- (Hrank (NStack items) (or_introl eq_refl)). rewrite H2. reflexivity. }
    rewrite G. cbn [bind]. now rewrite Hu.
Qed.

Definition has_list_any := fix any (l : list td) : bool := match l with [] => false | x :: r => has_list_leaf x || any r end.
Lemma has_list_leaf_nstack : forall items, has_list_leaf (NStack items) = has_list_any items.
Proof. reflexivity. Qed.

(* when no item is a list, the nesting of tolist() is unambiguous: directories without "ndim" (all of those written before
   the repair that loaded correctly, and all of those written now for such stacks) *)
Lemma from_list_tolist_none : forall t, stack_ok t = true -> has_list_leaf t = false ->
  match t with NStack _ => from_list None (tolist t) = Ok t | _ => True end.
Proof.
  induction t using td_ind'; intros Hs Hnl; auto.
  rewrite stack_ok_nstack in Hs. apply andb_true_iff in Hs as [Hs Hu]. apply andb_true_iff in Hs as [Hs Hkind].
  apply andb_true_iff in Hs as [Hne Hall]. rewrite has_list_leaf_nstack in Hnl.
  rewrite tolist_nstack, from_list_plist. cbn [deeper option_map]. rewrite andb_true_r.
  destruct items as [|x0 items0]; [discriminate|]. set (items := x0 :: items0) in *.
  apply orb_true_iff in Hkind as [Hd|Hn].
  - assert (Hfirst : is_plist (tolist x0) = false).
    { cbn in Hd, Hall, Hnl. apply andb_true_iff in Hd as [Hd _]. apply andb_true_iff in Hall as [Hx _].
      apply orb_false_iff in Hnl as [Hnl _].
      destruct x0; try discriminate. cbn in Hx. destruct bs; try discriminate. cbn in Hnl |- *. exact Hnl. }
    assert (Hnest : forallb is_plist (tolist_items items) && forallb (fun x => Nat.eqb (plen x) (plen (hd PNone (tolist_items items)))) (tolist_items items) = false).
    { unfold items. cbn [tolist_items forallb]. rewrite Hfirst. reflexivity. }
    rewrite Hnest.
    assert (G : forall nd, all_ok (from_list_items false nd (tolist_items items)) = Ok items).
    { intro nd. clear -Hd Hall. induction items as [|x l IH]; cbn; auto.
      cbn in Hd, Hall. apply andb_true_iff in Hd as [Hx Hd]. apply andb_true_iff in Hall as [Hsx Hall].
      fold tolist_items. fold (from_list_items false nd). rewrite IH by assumption. cbn.
      destruct x; try discriminate. cbn in Hsx. destruct bs; try discriminate. reflexivity. }
    rewrite G. cbn [bind]. now rewrite Hu.
  - assert (Hnest : forallb is_plist (tolist_items items) && forallb (fun x => Nat.eqb (plen x) (plen (hd PNone (tolist_items items)))) (tolist_items items) = true).
    { apply andb_true_iff. split.
      - clear -Hn. generalize Hn. generalize (List.length match hd (NData [] PNone) items with NStack i0 => i0 | _ => [] end). intros n Hn'.
        clear Hn. induction items as [|y l IH]; cbn; auto. cbn in Hn'. apply andb_true_iff in Hn' as [Hy Hn'].
        destruct y; try discriminate. cbn. fold tolist_items. auto.
      - set (n0 := List.length (match hd (NData [] PNone) items with NStack i0 => i0 | _ => [] end)) in *.
        assert (Hlen : forall x, In x items -> plen (tolist x) = n0).
        { intros x Hx. rewrite forallb_forall in Hn. specialize (Hn x Hx). destruct x; try discriminate.
          apply Nat.eqb_eq in Hn. rewrite tolist_nstack. cbn [plen]. now rewrite length_tolist_items. }
        assert (Hhd : plen (hd PNone (tolist_items items)) = n0).
        { unfold items. cbn [tolist_items hd]. apply Hlen. now left. }
        rewrite Hhd. apply forallb_plen. exact Hlen. }
    rewrite Hnest.
    assert (G : all_ok (from_list_items true None (tolist_items items)) = Ok items).
    { clear -H Hall Hn Hnl. generalize Hn. generalize (List.length match hd (NData [] PNone) items with NStack i0 => i0 | _ => [] end). intros n Hn'. clear Hn.
      induction items as [|x l IH]; cbn; auto.
      cbn in Hall, Hn', Hnl. apply andb_true_iff in Hall as [Hsx Hall]. apply andb_true_iff in Hn' as [Hnx Hn'].
      apply orb_false_iff in Hnl as [Hnx' Hnl]. inversion H; subst.
      fold tolist_items. fold (from_list_items true None). rewrite IH; auto.
      specialize (H2 Hsx Hnx'). destruct x; try discriminate. rewrite H2. reflexivity. }
    rewrite G. cbn [bind]. now rewrite Hu.
Qed.

Lemma norm_stack : forall t, stack_ok t = true -> norm t = t.
Proof.
  induction t using td_ind'; intro Hs; try discriminate; auto.
  rewrite stack_ok_nstack in Hs. apply andb_true_iff in Hs as [Hs _]. apply andb_true_iff in Hs as [Hs _].
  apply andb_true_iff in Hs as [_ Hall]. rewrite norm_nstack. f_equal.
  induction items as [|x l IH]; cbn; auto. cbn in Hall. apply andb_true_iff in Hall as [Hx Hall]. inversion H; subst.
  fold norm_list. rewrite (H2 Hx). rewrite IH by assumption. reflexivity.
Qed.

Lemma nstack_roundtrip : forall o items,
  stack_ok (NStack items) = true ->
  exists d, save_over o (NStack items) empty_dir = Ok d /\ decode d = Ok (norm (NStack items)).
Proof.
  intros o items Hs. rewrite (norm_stack _ Hs).
  assert (FL : from_list (stack_ndim (NStack items)) (tolist (NStack items)) = Ok (NStack items)).
  { unfold stack_ndim. destruct (has_list_leaf (NStack items)) eqn:Hl.
    - exact (from_list_tolist (NStack items) Hs).
    - exact (from_list_tolist_none (NStack items) Hs Hl). }
  assert (ND : forall m, (match sget "ndim" (m ++ match stack_ndim (NStack items) with Some n => [("ndim", jnat n)] | None => [] end) with
                          | Some jn => jnat_of jn | None => None end) = stack_ndim (NStack items)
                         \/ sget "ndim" m <> None).
  { intro m. destruct (sget "ndim" m) eqn:E; [right; congruence|left].
    rewrite sget_app_none by exact E. destruct (stack_ndim (NStack items)); cbn; [apply jnat_of_jnat|reflexivity]. }
  unfold empty_dir. cbn [save_over]. unfold nstack_files.
  set (head := [("_type", JStr "NonTensorStack"); ("stack_dim", JInt 0); ("device", JNull)]).
  destruct (is_json_serializable (tolist (NStack items))) eqn:Es.
  - destruct (plain_roundtrip _ (ser_plain _ Es)) as (j & Hj1 & Hj2). rewrite Hj1. cbn [bind fset].
    eexists. split; [reflexivity|].
    rewrite decode_dir. unfold load_top. cbn [fget fname_eqb].
    assert (Et : sget "_type" ((head ++ match stack_ndim (NStack items) with Some n => [("ndim", jnat n)] | None => [] end) ++ [("data", j)])
                 = Some (JStr "NonTensorStack")) by reflexivity.
    rewrite Et. cbn [String.eqb Ascii.eqb Bool.eqb]. cbv beta iota. unfold load_nstack.
    assert (Edata : sget "data" ((head ++ match stack_ndim (NStack items) with Some n => [("ndim", jnat n)] | None => [] end) ++ [("data", j)]) = Some j).
    { destruct (stack_ndim (NStack items)); reflexivity. }
    assert (End : (match sget "ndim" ((head ++ match stack_ndim (NStack items) with Some n => [("ndim", jnat n)] | None => [] end) ++ [("data", j)]) with
                   | Some jn => jnat_of jn | None => None end) = stack_ndim (NStack items)).
    { destruct (stack_ndim (NStack items)); cbn; [apply jnat_of_jnat|reflexivity]. }
    rewrite Edata, End.
    assert (exists js, j = JArr js) as (js & ->).
    { rewrite tolist_nstack in Hj1. cbn in Hj1. destruct (_ (tolist_items items)) in Hj1; inversion Hj1; eauto. }
    rewrite Hj2. exact FL.
  - cbn [bind fset fname_eqb].
    eexists. split; [reflexivity|].
    rewrite decode_dir. unfold load_top. cbn [fget fname_eqb].
    assert (Et : sget "_type" ((head ++ match stack_ndim (NStack items) with Some n => [("ndim", jnat n)] | None => [] end) ++ [("data", JStr "pickle.pkl")])
                 = Some (JStr "NonTensorStack")) by reflexivity.
    rewrite Et. cbn [String.eqb Ascii.eqb Bool.eqb]. cbv beta iota. unfold load_nstack.
    assert (Edata : sget "data" ((head ++ match stack_ndim (NStack items) with Some n => [("ndim", jnat n)] | None => [] end) ++ [("data", JStr "pickle.pkl")]) = Some (JStr "pickle.pkl")).
    { destruct (stack_ndim (NStack items)); reflexivity. }
    assert (End : (match sget "ndim" ((head ++ match stack_ndim (NStack items) with Some n => [("ndim", jnat n)] | None => [] end) ++ [("data", JStr "pickle.pkl")]) with
                   | Some jn => jnat_of jn | None => None end) = stack_ndim (NStack items)).
    { destruct (stack_ndim (NStack items)); cbn; [apply jnat_of_jnat|reflexivity]. }
    rewrite Edata, End. cbn [fget fname_eqb]. exact FL.
Qed.

(* ------------------------------------------------------------------ the round trip, for every valid structure *)
Definition valid_ents (o : opts) (bs : list nat) := fix all (es : list (string * td)) : bool :=
  match es with
  | [] => true
  | (_, x) :: r => valid o x && match x with NData b _ => is_prefix bs b | _ => true end && all r
  end.
Definition valid_members (o : opts) := fix all (l : list td) : bool :=
  match l with [] => true | x :: r => valid o x && is_collection x && all r end.

Lemma valid_node : forall o bs ents,
  valid o (Node bs ents) = nodupb (map fst ents) && forallb (fun kv => negb (reserved (fst kv))) ents && valid_ents o bs ents.
Proof. reflexivity. Qed.
Lemma valid_lazy : forall o sd ms, valid o (Lazy sd ms) = negb (Nat.eqb (List.length ms) 0) && valid_members o ms.
Proof. reflexivity. Qed.

Lemma saved_ok_all : forall o t, like o = false -> valid o t = true -> is_leaf t = false -> exists d, saved_ok o t d.
Proof.
  intros o t Hlike. induction t using td_ind'; intros Hv Hl; try discriminate.
  - (* TensorDict *)
    rewrite valid_node in Hv. apply andb_true_iff in Hv as [Hv Hents]. apply andb_true_iff in Hv as [Hnd Hres].
    assert (Hok : Forall (entry_ok o) ents /\ Forall (bs_ok bs) ents).
    { clear Hnd Hres Hl. induction ents as [|[k x] ents IH]; [split; constructor|].
      cbn in Hents. apply andb_true_iff in Hents as [Hx Hents]. apply andb_true_iff in Hx as [Hvx Hbx].
      inversion H as [|? ? Hpx Hp]; subst. destruct (IH Hp Hents) as [A B]. split.
      - constructor; [|exact A]. unfold entry_ok. cbn [snd] in *. destruct x; try (apply Hpx; auto; fail). exact Hvx.
      - constructor; [|exact B]. unfold bs_ok. cbn [snd]. destruct x; auto. }
    destruct Hok as [Hok Hbs].
    destruct (node_roundtrip o bs ents Hlike) as (d & Hd1 & Hd2); auto.
    { split; [now apply nodupb_NoDup|]. rewrite forallb_forall in Hres. apply Forall_forall. intros kv Hin.
      specialize (Hres kv Hin). now apply negb_true_iff in Hres. }
    exists d. split; auto.
  - (* lazy stack *)
    rewrite valid_lazy in Hv. apply andb_true_iff in Hv as [Hne Hms].
    assert (Hok : Forall (fun m => exists d, saved_ok o m d) ms).
    { clear Hne Hl. induction ms as [|m ms IH]; [constructor|].
      cbn in Hms. apply andb_true_iff in Hms as [Hm Hms]. apply andb_true_iff in Hm as [Hvm Hcm].
      inversion H as [|? ? Hpm Hp]; subst. constructor; [|apply IH; auto].
      apply Hpm; auto. destruct m; try discriminate; reflexivity. }
    destruct (lazy_roundtrip o sd ms) as (d & Hd1 & Hd2); auto.
    { intro E. subst. discriminate. }
    exists d. split; auto.
  - (* tensorclass *)
    cbn [valid] in Hv. apply andb_true_iff in Hv as [Hv Hk]. apply andb_true_iff in Hv as [Hv Hty].
    apply andb_true_iff in Hv as [Hv Hnd]. apply andb_true_iff in Hv as [Hv Hcoll]. apply andb_true_iff in Hv as [Hc Hvi].
    apply negb_true_iff in Hc. apply negb_true_iff in Hty.
    destruct (tc_roundtrip o c nt t Hc) as (d & Hd1 & Hd2); auto.
    { apply IHt; auto. destruct t; try discriminate; reflexivity. }
    { now apply nodupb_NoDup. }
    { apply sget_none_notin. unfold smem in Hty. destruct (sget "_type" nt); [discriminate|reflexivity]. }
    { intros k Hin G. apply in_map_iff in Hin as (kv & E & Hin). rewrite forallb_forall in Hk. specialize (Hk kv Hin).
      apply negb_true_iff in Hk. subst k.
      assert (existsb (String.eqb (fst kv)) (td_keys t) = true) by (apply existsb_exists; exists (fst kv); split; auto; apply String.eqb_refl).
      congruence. }
    exists d. split; auto.
  - (* NonTensorData *)
    destruct (ndata_roundtrip o bs pl) as (d & Hd1 & Hd2). exists d. split; auto.
  - (* NonTensorStack *)
    cbn [valid] in Hv.
    destruct (nstack_roundtrip o items Hv) as (d & Hd1 & Hd2). exists d. split; auto.
Qed.

Theorem decode_encode_lemma : forall o t, valid_root o t = true -> bind (encode o t) decode = Ok (norm t).
Proof.
  intros o t Hv. unfold valid_root in Hv. apply andb_true_iff in Hv as [Hv Hl]. apply andb_true_iff in Hv as [Hv Hlike].
  apply negb_true_iff in Hlike. apply negb_true_iff in Hl.
  destruct (saved_ok_all o t Hlike Hv Hl) as (d & Hd1 & Hd2).
  unfold encode. rewrite Hd1. cbn [bind]. exact Hd2.
Qed.

(* norm only reorders the entries of every node (tensors first) and marks tensors as living in the directory:
   as nested mappings, t and norm t are the same *)
Inductive same_mapping : td -> td -> Prop :=
| SMLeaf : forall l l', lshape l = lshape l' -> ldtype l = ldtype l' -> lcells l = lcells l' -> same_mapping (Leaf l) (Leaf l')
| SMNode : forall bs es es',
    (forall k, sget k es = None <-> sget k es' = None) ->
    (forall k a b, sget k es = Some a -> sget k es' = Some b -> same_mapping a b) ->
    List.length es = List.length es' ->
    same_mapping (Node bs es) (Node bs es')
| SMLazy : forall sd ms ms', Forall2 same_mapping ms ms' -> same_mapping (Lazy sd ms) (Lazy sd ms')
| SMTCls : forall c nt nt' a b, (forall k, sget k nt = sget k nt') -> same_mapping a b -> same_mapping (TCls c nt a) (TCls c nt' b)
| SMNData : forall bs p, same_mapping (NData bs p) (NData bs p)
| SMNStack : forall l l', Forall2 same_mapping l l' -> same_mapping (NStack l) (NStack l').

Lemma sget_norm_ents : forall es k, sget k (norm_ents es) = option_map norm (sget k es).
Proof. induction es as [|[k' x] es IH]; intro k; cbn; auto. destruct (String.eqb k k'); auto. Qed.

Lemma sget_filter_none : forall {A} (f : string * A -> bool) l k, sget k l = None -> sget k (filter f l) = None.
Proof.
  intros A f l k. induction l as [|[k' v] l IH]; cbn; auto.
  destruct (String.eqb k k') eqn:E; [discriminate|]. intro H. destruct (f (k', v)); cbn; [rewrite E|]; auto.
Qed.

Lemma sget_partition : forall {A} (f : string * A -> bool) l k, NoDup (map fst l) ->
  sget k (filter f l ++ filter (fun kv => negb (f kv)) l) = sget k l.
Proof.
  intros A f l k. induction l as [|[k' v] l IH]; intro Hnd; cbn; auto.
  inversion Hnd as [|? ? Hk Hnd']; subst.
  destruct (f (k', v)) eqn:Ef; cbn.
  - destruct (String.eqb k k'); auto.
  - destruct (String.eqb k k') eqn:E.
    + apply String.eqb_eq in E. subst k'.
      rewrite sget_app_none by (apply sget_filter_none; now apply sget_none_notin). cbn. now rewrite String.eqb_refl.
    + destruct (sget k (filter f l)) eqn:G.
      * rewrite (sget_app_some _ _ _ _ G). rewrite <- IH by auto. now rewrite (sget_app_some _ _ _ _ G).
      * rewrite sget_app_none by exact G. cbn. rewrite E. rewrite <- IH by auto. now rewrite sget_app_none by exact G.
Qed.

Lemma length_partition : forall {A} (f : A -> bool) l, List.length (filter f l ++ filter (fun x => negb (f x)) l) = List.length l.
Proof. intros A f l. induction l as [|x l IH]; cbn; auto. destruct (f x); cbn; [|rewrite app_length in *; cbn]; lia. Qed.

Lemma norm_same_mapping : forall o t, valid o t = true -> same_mapping t (norm t).
Proof.
  intros o. induction t using td_ind'; intro Hv.
  - constructor; reflexivity.
  - rewrite valid_node in Hv. apply andb_true_iff in Hv as [Hv Hents]. apply andb_true_iff in Hv as [Hnd _].
    apply nodupb_NoDup in Hnd. rewrite norm_node.
    assert (Hnd' : NoDup (map fst (norm_ents ents))) by now rewrite map_fst_norm_ents.
    constructor.
    + intro k. rewrite (sget_partition (fun kv => is_leaf (snd kv))) by exact Hnd'. rewrite sget_norm_ents.
      destruct (sget k ents); cbn; split; intro; congruence.
    + intros k a b Ha Hb. rewrite (sget_partition (fun kv => is_leaf (snd kv))) in Hb by exact Hnd'.
      rewrite sget_norm_ents, Ha in Hb. cbn in Hb. inversion Hb; subst.
      assert (Hin : In (k, a) ents).
      { clear -Ha. induction ents as [|[k' x] l IH]; cbn in *; [discriminate|].
        destruct (String.eqb k k') eqn:E; auto. apply String.eqb_eq in E. inversion Ha; subst. now left. }
      rewrite Forall_forall in H. apply (H (k, a) Hin).
      clear -Hents Hin. induction ents as [|[k' x] l IH]; [contradiction|]. cbn in Hents.
      apply andb_true_iff in Hents as [Hx Hl]. apply andb_true_iff in Hx as [Hx _].
      destruct Hin as [E|Hin]; [inversion E; subst; exact Hx|auto].
    + rewrite (length_partition (fun kv : string * td => is_leaf (snd kv))). clear. induction ents as [|[k x] l IH]; cbn; auto.
  - rewrite valid_lazy in Hv. apply andb_true_iff in Hv as [_ Hms]. rewrite norm_lazy. constructor.
    induction ms as [|m ms IH]; cbn; constructor.
    + inversion H; subst. cbn in Hms. apply andb_true_iff in Hms as [Hm _]. apply andb_true_iff in Hm as [Hm _]. auto.
    + inversion H; subst. cbn in Hms. apply andb_true_iff in Hms as [_ Hms]. apply IH; auto.
  - cbn [valid] in Hv. apply andb_true_iff in Hv as [Hv _]. apply andb_true_iff in Hv as [Hv _].
    apply andb_true_iff in Hv as [Hv Hnd]. apply andb_true_iff in Hv as [Hv _]. apply andb_true_iff in Hv as [_ Hv].
    cbn [norm]. constructor; auto.
    intro k. unfold ser_fields, pkl_fields. symmetry. apply (sget_partition (fun kv : string * payload => is_json_serializable (snd kv))).
    now apply nodupb_NoDup.
  - constructor.
  - cbn [valid] in Hv. rewrite (norm_stack _ Hv). constructor.
    clear. induction items; constructor; auto.
    clear. induction a using td_ind'; try (constructor; auto; fail).
    + constructor; auto; intros; try tauto. rewrite H0 in H1. inversion H1; subst.
      assert (Hin : In (k, b) ents).
      { clear -H0. induction ents as [|[k' x] l IH]; cbn in *; [discriminate|].
        destruct (String.eqb k k') eqn:E; auto. apply String.eqb_eq in E. inversion H0; subst. now left. }
      rewrite Forall_forall in H. apply (H (k, b) Hin).
    + constructor. induction ms; constructor; inversion H; auto.
    + constructor. induction items; constructor; inversion H; auto.
Qed.
