(* C08: update_ through a flat lazy stack, source dense or lazy along the same dim: one in-place update per member, member k
   receiving source.unbind(stack_dim)[k] = source[:, .., :, k]; the member objects stay. *)
From Coq Require Import ZArith List Bool Lia ZifyBool.
Import ListNotations.
From TD Require Import Spec.PySlice Spec.C08_Dense Model.C08_Lazy Model.C08_Write
  Proofs.C08_CoordP Proofs.C08_IndexP Proofs.C08_WriteP Proofs.C08_UnbindP.
Open Scope Z_scope.

Lemma rmap_update_plain f : forall (pv : list (arr * arr)) ws,
  Forall (fun p => is_stack (fst p) = false) pv ->
  rmap (fun p => lz_update_ (S f) (fst p) (snd p)) pv = Ok ws ->
  concat ws = map (fun mp => WSet (fst mp) [] (snd mp)) pv.
Proof.
  induction pv as [|[m v] pv IH]; intros ws Hpl H; cbn [rmap] in H.
  - inversion H. reflexivity.
  - inversion Hpl as [|? ? Hm Hpl']; subst. cbn [fst snd] in *.
    apply rbind_ok in H. destruct H as [w [Hw H]]. apply rbind_ok in H. destruct H as [ws' [Hws H]].
    inversion H; subst ws. clear H.
    assert (Ew : w = [WSet m [] v]).
    { destruct m; cbn in Hm; try discriminate; cbn [lz_update_] in Hw; inversion Hw; reflexivity. }
    subst w. cbn [concat map fst snd app]. rewrite (IH ws' Hpl' Hws). reflexivity.
Qed.

Lemma Forall_combine_l {A B} (P : A -> Prop) (l : list A) : forall (m : list B), Forall P l -> Forall (fun p => P (fst p)) (combine l m).
Proof.
  induction l as [|x l IH]; intros [|y m] H; cbn; try constructor.
  - inversion H; assumption.
  - inversion H; subst. apply IH. assumption.
Qed.

Theorem update__write_through fuel sd bs0 parts bs src plan :
  parts <> [] -> Forall (fun p => shape_of p = Some bs /\ is_stack p = false) parts -> (sd <= List.length bs)%nat ->
  Forall (fun s => 0 <= s) bs ->
  shape_of src = Some (insert_at sd (lenZ parts) bs) ->
  (is_stack src = false \/
   exists sbs0 sparts, src = Stack sd sbs0 sparts /\ sparts <> [] /\
                       Forall (fun p => shape_of p = Some bs) sparts /\ Forall (fun p => sound p bs) sparts) ->
  lz_update_ (S (S fuel)) (Stack sd bs0 parts) src = Ok plan ->
  exists pieces, List.length pieces = List.length parts /\
    plan = map (fun mp => WSet (fst mp) [] (snd mp)) (combine parts pieces) /\
    forall k piece, nth_error pieces k = Some piece -> equiv piece (Index (select_idx sd (Z.of_nat k)) src).
Proof.
  intros Hne Hparts Hsd Hnn Hsrc Hkind H.
  assert (Hpl : Forall (fun p => is_stack p = false) parts) by (eapply Forall_impl; [|exact Hparts]; intros p [_ A]; exact A).
  remember (S fuel) as f1 eqn:Ef1.
  cbn [lz_update_] in H. rewrite Hsrc, (nth_insert sd (lenZ parts) bs Hsd), Z.eqb_refl in H. cbn [negb] in H.
  apply rbind_ok in H. destruct H as [vs [Hvs H]].
  apply rbind_ok in H. destruct H as [pv [Hpv H]].
  apply rbind_ok in H. destruct H as [ws [Hws H]]. inversion H; subst plan. clear H.
  apply zip_strict_ok in Hpv. destruct Hpv as [Epv Lpv]. subst pv.
  exists vs. split; [symmetry; exact Lpv|]. split.
  - subst f1. apply (rmap_update_plain fuel _ ws); [|exact Hws]. apply (Forall_combine_l (fun p => is_stack p = false)). exact Hpl.
  - destruct Hkind as [Hd|[sbs0 [sparts [Es [Hsne [Hssh Hsso]]]]]].
    + rewrite Hd in Hvs. unfold v_unbind in Hvs. rewrite Hsrc, (nth_insert sd (lenZ parts) bs Hsd) in Hvs.
      inversion Hvs; subst vs. clear Hvs. intros k piece Hk.
      rewrite nth_error_map in Hk. destruct (nth_error (seq 0 (Z.to_nat (lenZ parts))) k) as [k'|] eqn:Ek; [|discriminate].
      cbn in Hk. inversion Hk; subst piece. rewrite nth_error_seq in Ek.
      destruct (k <? Z.to_nat (lenZ parts))%nat; [|discriminate]. inversion Ek; subst k'. apply equiv_refl.
    + subst src. cbn [is_stack] in Hvs. subst f1.
      destruct (unbind_stackdim sd sbs0 sparts bs fuel Hsne Hssh Hsso Hnn Hsd) as [Eu Hall].
      rewrite Eu in Hvs. inversion Hvs; subst vs. exact Hall.
Qed.
