(* C01 — a lazy stack at the root stays coherent under every modelled call, ok or raising (members written before a member
   raised stay written — and stay coherent): all members coherent tensordicts with one batch size and one device. *)
From Coq Require Import List String Bool Arith Lia.
Import ListNotations.
From TD Require Import Model.C01_Tree Model.C01_Ops Model.C01_Scope Model.C01_Lazy.
From TD Require Import Proofs.C01_TreeP Proofs.C01_NamesP Proofs.C01_BatchP Proofs.C01_SetP Proofs.C01_StepP Proofs.C01_AutoP Proofs.C01_MainP Proofs.C01_IndexP.
Open Scope string_scope.
Open Scope list_scope.

(* a member: a coherent TensorDict with the common batch size and device *)
Definition mem_ok (bs0 : list nat) (dv0 : option dev) (m : tree) : Prop :=
  coh [] None m = true /\ thdr m = Some (KTd, bs0, dv0).
Definition LInv (d : nat) (ms : list tree) : Prop :=
  ms <> [] /\ exists bs0 dv0, Forall (mem_ok bs0 dv0) ms /\ d <= List.length bs0.

Lemma lcohb_iff : forall d ms, lcohb (LStack d ms) = true <-> LInv d ms.
Proof.
  intros d ms. unfold lcohb, LInv. split.
  - intros H. apply andb_true_iff in H as [H Hd]. apply andb_true_iff in H as [Hn Hf].
    split; [destruct ms; [discriminate|discriminate]|].
    exists (mbs ms), (mdev ms). split; [|now apply Nat.leb_le].
    apply Forall_forall. intros m Hin. rewrite forallb_forall in Hf. specialize (Hf m Hin).
    apply andb_true_iff in Hf as [Hf H4]. apply andb_true_iff in Hf as [Hf H3]. apply andb_true_iff in Hf as [H1 H2].
    destruct m as [|[] bs dv nm es]; try discriminate. cbn [tshape tdev] in *.
    apply shape_eqb_eq in H3. apply odev_eqb_eq in H4. subst. split; [exact H2|reflexivity].
  - intros [Hne (bs0 & dv0 & Hf & Hd)]. destruct ms as [|m0 r]; [congruence|].
    assert (Hb : mbs (m0 :: r) = bs0 /\ mdev (m0 :: r) = dv0).
    { inversion Hf as [|? ? [_ Hh] _]; subst. destruct m0 as [|k b dv nm es]; [discriminate|]. cbn in Hh. injection Hh as _ <- <-. split; reflexivity. }
    destruct Hb as [Hb1 Hb2]. rewrite Hb1, Hb2. apply andb_true_iff. split; [|now apply Nat.leb_le].
    apply andb_true_iff. split; [reflexivity|]. apply forallb_forall. intros m Hin. rewrite Forall_forall in Hf.
    destruct (Hf m Hin) as [Hc Hh]. destruct m as [|k b dv nm es]; [discriminate|]. cbn in Hh. injection Hh as -> -> ->.
    cbn [is_td tshape tdev]. unfold coherentb. rewrite Hc. cbn [andb].
    apply andb_true_iff. split; [now apply shape_eqb_eq|now apply odev_eqb_eq].
Qed.

(* ---- lists ---- *)
Lemma remove_insert_nth : forall (A : Type) d (x : A) l, d <= List.length l -> remove_nth d (insert_nth d x l) = l.
Proof.
  induction d as [|d IH]; intros x l H; [destruct l; reflexivity|].
  destruct l as [|y r]; [cbn in H; lia|]. cbn. f_equal. apply IH. cbn in H. lia.
Qed.

Lemma remove_nth_length : forall (A B : Type) d (a : list A) (b : list B),
  List.length a = List.length b -> List.length (remove_nth d a) = List.length (remove_nth d b).
Proof.
  induction d as [|d IH]; intros [|x a] [|y b] H; cbn in *; try lia; try discriminate.
  f_equal. apply IH. lia.
Qed.

Lemma prefixb_remove_nth : forall d a b, prefixb a b = true -> prefixb (remove_nth d a) (remove_nth d b) = true.
Proof.
  induction d as [|d IH]; intros a b H.
  - destruct a as [|x a]; [destruct b; reflexivity|]. destruct b as [|y b]; [discriminate|].
    cbn in H. apply andb_true_iff in H as [_ H]. exact H.
  - destruct a as [|x a]; [destruct b; reflexivity|]. destruct b as [|y b]; [discriminate|].
    cbn in H. apply andb_true_iff in H as [H1 H2]. cbn. rewrite H1. now apply IH.
Qed.

Lemma Forall_insert_nth : forall (A : Type) (P : A -> Prop) i x l, P x -> Forall P l -> Forall P (insert_nth i x l).
Proof.
  induction i as [|i IH]; intros x l Hx Hl; [now constructor|].
  destruct l as [|y r]; [now constructor|]. inversion Hl; subst. cbn. constructor; auto.
Qed.

Lemma insert_nth_nonempty : forall (A : Type) i (x : A) l, insert_nth i x l <> [].
Proof. intros A [|i] x [|y r]; discriminate. Qed.

(* ---- unbind ---- *)
Lemma unbind_coh : forall n t p d, coh p d t = true -> coh (remove_nth n p) d (unbind_tree n t) = true.
Proof.
  intros n. induction t as [sh dd|k bs dv nm es IH] using tree_ind2; intros p d H.
  - apply coh_leaf_iff in H as [H1 H2]. cbn [unbind_tree]. apply coh_leaf_iff. split; [now apply prefixb_remove_nth|exact H2].
  - apply coh_node_iff in H as (H1 & H2 & H3 & H4). cbn [unbind_tree]. apply coh_node_iff. repeat split; auto.
    + now apply prefixb_remove_nth.
    + destruct nm as [l|]; [|reflexivity]. cbn [option_map names_ok] in *. apply Nat.eqb_eq in H3. apply Nat.eqb_eq.
      now apply remove_nth_length.
    + apply coh_ents_forall. rewrite Forall_map. apply coh_ents_forall in H4. rewrite Forall_forall in *.
      intros kv Hin. cbn [snd]. apply (IH _ Hin). apply (H4 _ Hin).
Qed.

(* ---- the members in turn ---- *)
Lemma seq_members_inv : forall (P : tree -> Prop) f,
  (forall m, P m -> P (fst (f m))) ->
  forall ms, Forall P ms -> Forall P (fst (seq_members f ms)) /\ (ms <> [] -> fst (seq_members f ms) <> []).
Proof.
  intros P f Hf. induction ms as [|m r IH]; intros H; [split; [constructor|congruence]|].
  inversion H as [|? ? Hm Hr]; subst. cbn [seq_members]. specialize (Hf m Hm). destruct (f m) as [m' o]. cbn [fst] in Hf.
  destruct (IH Hr) as [IH1 _]. destruct o.
  - destruct (seq_members f r) as [r' o']. cbn [fst] in *. split; [now constructor|discriminate].
  - cbn [fst]. split; [now constructor|discriminate].
  - cbn [fst]. split; [now constructor|discriminate].
Qed.

Lemma set_str_val_ok : forall bs0 dv0 k item ip m,
  coh bs0 dv0 item = true -> mem_ok bs0 dv0 m -> mem_ok bs0 dv0 (fst (set_str_val k item ip m)).
Proof.
  intros bs0 dv0 k item ip m Hi [Hc Hh]. destruct m as [|[] bs dv nm es]; try (split; assumption).
  cbn in Hh. injection Hh as -> ->. cbn [set_str_val]. destruct (negb ip).
  - cbn [fst]. split; [eapply store_coh; eauto; reflexivity|reflexivity].
  - destruct (aget k es) as [[dsh dd|? ? ? ? ?]|]; destruct item; cbn [fst]; split; auto.
Qed.

Lemma set_str_hdr : forall self k v ip p d,
  coh p d self = true -> value_okb v = true -> thdr (fst (set_str self k v ip)) = thdr self.
Proof.
  intros self k v ip p d Hc Hok. unfold set_str.
  destruct self as [|[] bs dv nm es]; [reflexivity| |reflexivity].
  assert (Hmain : thdr (fst (let '(self1, rv) := prep (Node KTd bs dv nm es) v in
       match rv with
       | Ok t =>
           if negb match ip with INo => false | _ => amem k es end then (store self1 k t, Done)
           else match aget k es, t with
                | Some (Leaf dsh dd), Leaf ssh sd => (self1, if copy_ok dsh dd ssh sd then Done else Raised)
                | Some (Leaf _ _), Node _ _ _ _ _ => (self1, Raised)
                | Some (Node KTd _ _ _ _), Leaf _ _ => (self1, match ip with IBest => Raised | _ => Unmodelled end)
                | _, _ => (self1, Unmodelled)
                end
       | Err => (self1, Raised)
       | Unm => (self1, Unmodelled)
       end)) = Some (KTd, bs, dv)).
  { destruct (prep (Node KTd bs dv nm es) v) as [self1 rv] eqn:Ep.
    destruct (prep_coh _ _ _ _ _ _ _ _ Hc eq_refl Hok Ep) as (_ & H2 & _).
    destruct rv as [t| |]; [|exact H2|exact H2].
    destruct (negb match ip with INo => false | _ => amem k es end).
    - cbn [fst]. rewrite store_hdr. exact H2.
    - destruct (aget k es) as [[dsh dd|[] ? ? ? ?]|]; destruct t; exact H2. }
  destruct ip; destruct (amem k es); try exact Hmain. reflexivity.
Qed.

Lemma set_tuple_hdr : forall path v ip self p d,
  coh p d self = true -> value_okb v = true -> thdr (fst (set_tuple path v ip self)) = thdr self.
Proof.
  intros [|k rest] v ip self p d Hc Hv; [destruct self as [|[] ? ? ? ?]; reflexivity|].
  destruct self as [|[] bs dv nm es]; try reflexivity. cbn [set_tuple]. destruct rest as [|k2 rest'].
  - now apply (set_str_hdr _ k v ip p d).
  - destruct (aget k es) as [[|[] cbs cdv cnm ces]|]; try reflexivity.
    + destruct (set_tuple (k2 :: rest') v ip (Node KTd cbs cdv cnm ces)) as [c' o]. reflexivity.
    + destruct ip; try reflexivity; destruct (set_tuple (k2 :: rest') v INo (Node KTd bs dv nm [])) as [c' o]; reflexivity.
Qed.

Lemma set_tuple_ok : forall bs0 dv0 key item ip m,
  coh [] None item = true -> mem_ok bs0 dv0 m -> mem_ok bs0 dv0 (fst (set_tuple key (VTree item) ip m)).
Proof.
  intros bs0 dv0 key item ip m Hi [Hc Hh]. split.
  - now apply set_tuple_coh.
  - rewrite (set_tuple_hdr key (VTree item) ip m [] None Hc Hi). exact Hh.
Qed.

Lemma ldel_go_ok : forall (P : tree -> Prop) key,
  (forall m, P m -> P (fst (del_path key m))) ->
  forall ms deleted, Forall P ms -> Forall P (fst (ldel_go key ms deleted)) /\ (ms <> [] -> fst (ldel_go key ms deleted) <> []).
Proof.
  intros P key Hf. induction ms as [|m r IH]; intros deleted H; [split; [constructor|congruence]|].
  inversion H as [|? ? Hm Hr]; subst. cbn [ldel_go]. destruct (through_leaf key m); [split; [exact H|discriminate]|].
  specialize (Hf m Hm). destruct (del_path key m) as [m' o]. cbn [fst] in Hf. destruct o.
  - destruct (IH true Hr) as [I1 _]. destruct (ldel_go key r true) as [r' o']. cbn [fst] in *. split; [now constructor|discriminate].
  - destruct (IH deleted Hr) as [I1 _]. destruct (ldel_go key r deleted) as [r' o']. cbn [fst] in *. split; [now constructor|discriminate].
  - split; [exact H|discriminate].
Qed.

(* ---- the derived batch size and device under the invariant ---- *)
Lemma linv_derived : forall d ms bs0 dv0,
  ms <> [] -> Forall (mem_ok bs0 dv0) ms -> mbs ms = bs0 /\ mdev ms = dv0 /\ ldev (LStack d ms) = dv0.
Proof.
  intros d ms bs0 dv0 Hne Hf. destruct ms as [|m0 r]; [congruence|].
  assert (Hb : mbs (m0 :: r) = bs0 /\ mdev (m0 :: r) = dv0).
  { inversion Hf as [|? ? [_ Hh] _]; subst. destruct m0 as [|k b dv nm es]; [discriminate|]. cbn in Hh. injection Hh as _ <- <-. split; reflexivity. }
  destruct Hb as [H1 H2]. repeat split; auto. unfold ldev. rewrite H2.
  replace (forallb (fun m => odev_eqb (tdev m) dv0) (m0 :: r)) with true; [reflexivity|].
  symmetry. apply forallb_forall. intros m Hin. rewrite Forall_forall in Hf. destruct (Hf m Hin) as [_ Hh].
  destruct m as [|k b dv nm es]; [discriminate|]. cbn in Hh. injection Hh as _ _ ->. now apply odev_eqb_eq.
Qed.

Lemma lvalidate_coh : forall d ms bs0 dv0 v t,
  ms <> [] -> Forall (mem_ok bs0 dv0) ms -> d <= List.length bs0 -> value_okb v = true ->
  lvalidate (LStack d ms) v = Ok t -> coh bs0 dv0 (unbind_tree d t) = true.
Proof.
  intros d ms bs0 dv0 v t Hne Hf Hd Hv Hl. destruct (linv_derived d ms bs0 dv0 Hne Hf) as (H1 & H2 & H3).
  unfold lvalidate in Hl. destruct v as [t0| |]; try discriminate. cbn [value_okb] in Hv.
  destruct (has_nt t0); [discriminate|]. destruct (is_node t0 && _); [discriminate|].
  rewrite H3 in Hl. unfold lbs in Hl. rewrite H1 in Hl.
  destruct (validate_tree (Node KTd (insert_nth d (List.length ms) bs0) dv0 None []) t0) as [s' r] eqn:Ev. cbn [snd] in Hl. subst r.
  assert (Hps : coh [] None (Node KTd (insert_nth d (List.length ms) bs0) dv0 None []) = true).
  { apply coh_node_iff. repeat split; auto using prefixb_nil. }
  destruct (validate_tree_coh _ _ _ _ _ _ _ _ _ _ Hps Hv Ev) as (_ & _ & Hr). specialize (Hr t eq_refl).
  pose proof (unbind_coh d t _ _ Hr) as Hu. now rewrite remove_insert_nth in Hu.
Qed.

(* ---- one call ---- *)
Lemma lset_inv : forall key v ip d ms,
  LInv d ms -> value_okb v = true -> match fst (lset key v ip (LStack d ms)) with LStack d' ms' => LInv d' ms' end.
Proof.
  intros key v ip d ms Hinv Hv. pose proof Hinv as [Hne (bs0 & dv0 & Hf & Hd)]. unfold lset.
  destruct key as [|k [|k2 rest]]; [exact Hinv| |].
  - assert (Hmain : forall inplace, match fst (match lvalidate (LStack d ms) v with
                      | Ok t => let '(ms', o) := seq_members (set_str_val k (unbind_tree d t) inplace) ms in (LStack d ms', o)
                      | Err => (LStack d ms, Raised) | Unm => (LStack d ms, Unmodelled) end) with LStack d' ms' => LInv d' ms' end).
    { intros inplace. destruct (lvalidate (LStack d ms) v) as [t| |] eqn:El; try exact Hinv.
      pose proof (lvalidate_coh _ _ _ _ _ _ Hne Hf Hd Hv El) as Hi.
      destruct (seq_members_inv (mem_ok bs0 dv0) (set_str_val k (unbind_tree d t) inplace)
                  (fun m Hm => set_str_val_ok _ _ _ _ _ _ Hi Hm) ms Hf) as [S1 S2].
      destruct (seq_members _ ms) as [ms' o]. cbn [fst] in *. split; [now apply S2|]. exists bs0, dv0. auto. }
    destruct ip; destruct (lhas_key k ms); try apply Hmain. exact Hinv.
  - destruct (existsb (through_nt (k :: k2 :: rest)) ms); [exact Hinv|].
    destruct (lvalidate (LStack d ms) v) as [t| |] eqn:El; try exact Hinv.
    pose proof (lvalidate_coh _ _ _ _ _ _ Hne Hf Hd Hv El) as Hi.
    destruct (seq_members_inv (mem_ok bs0 dv0) (set_tuple (k :: k2 :: rest) (VTree (unbind_tree d t)) ip)
                (fun m Hm => set_tuple_ok _ _ _ _ _ _ (coh_value _ _ _ Hi) Hm) ms Hf) as [S1 S2].
    destruct (seq_members _ ms) as [ms' o]. cbn [fst] in *. split; [now apply S2|]. exists bs0, dv0. auto.
Qed.

Lemma linsert_inv : forall i v d ms,
  LInv d ms -> value_okb v = true -> match fst (linsert i v (LStack d ms)) with LStack d' ms' => LInv d' ms' end.
Proof.
  intros i v d ms Hinv Hv. pose proof Hinv as [Hne (bs0 & dv0 & Hf & Hd)]. unfold linsert.
  destruct v as [[|[] vb vd vn ve]| |]; try exact Hinv.
  destruct (linv_derived d ms bs0 dv0 Hne Hf) as (H1 & H2 & _).
  destruct (negb (odev_eqb (mdev ms) vd)) eqn:E1; [exact Hinv|].
  destruct (negb (shape_eqb vb (mbs ms))) eqn:E2; [exact Hinv|]. cbn [fst].
  apply negb_false_iff in E1, E2. apply odev_eqb_eq in E1. apply shape_eqb_eq in E2. subst.
  split; [apply insert_nth_nonempty|]. exists (mbs ms), (mdev ms). split; [|exact Hd].
  apply Forall_insert_nth; [|exact Hf]. cbn [value_okb] in Hv. split; [exact Hv|reflexivity].
Qed.

Lemma lstep_inv : forall d ms o,
  LInv d ms -> lop_value_ok o = true -> match fst (lstep (LStack d ms) o) with LStack d' ms' => LInv d' ms' end.
Proof.
  intros d ms o Hinv Hv. unfold lstep. destruct ms as [|m0 r] eqn:Ems; [exact Hinv|]. rewrite <- Ems in *.
  destruct o as [key v ip|key v|key|i v|v|sz new]; cbn [lop_value_ok] in Hv.
  - now apply lset_inv.
  - now apply lset_inv.
  - unfold ldel. destruct (existsb (through_nt key) ms); [exact Hinv|].
    pose proof Hinv as [Hne (bs0 & dv0 & Hf & Hd)].
    destruct (ldel_go_ok (mem_ok bs0 dv0) key
                (fun m Hm => conj (del_path_coh key m [] None (proj1 Hm)) (eq_trans (del_path_hdr key m) (proj2 Hm))) ms false Hf) as [S1 S2].
    destruct (ldel_go key ms false) as [ms' o']. cbn [fst] in *. split; [now apply S2|]. exists bs0, dv0. auto.
  - now apply linsert_inv.
  - now apply linsert_inv.
  - exact Hinv.
Qed.

Theorem lstep_coh : forall L o, LCoherent L -> lop_value_ok o = true -> LCoherent (fst (lstep L o)).
Proof.
  intros [d ms] o H Hv. unfold LCoherent in *. apply lcohb_iff in H.
  pose proof (lstep_inv d ms o H Hv) as H'. destruct (fst (lstep (LStack d ms) o)) as [d' ms']. now apply lcohb_iff.
Qed.

Theorem lrun_coh : forall ops L, LCoherent L -> Forall (fun o => lop_value_ok o = true) ops -> LCoherent (lrun L ops).
Proof.
  induction ops as [|o r IH]; intros L H Hf; [exact H|].
  inversion Hf; subst. unfold lrun. cbn [fold_left]. apply IH; [now apply lstep_coh|assumption].
Qed.

(* what coherence of the stack gives the observer: every member has the stack's batch size minus the stack dim, the stack's
   batch size is the members' with the count inserted, every member lives on the stack's device *)
Lemma lcoh_members : forall d ms m, LCoherent (LStack d ms) -> In m ms ->
  Coherent m /\ tshape m = remove_nth d (lbs (LStack d ms)) /\ tdev m = ldev (LStack d ms).
Proof.
  intros d ms m H Hin. apply lcohb_iff in H as [Hne (bs0 & dv0 & Hf & Hd)].
  destruct (linv_derived d ms bs0 dv0 Hne Hf) as (H1 & H2 & H3).
  rewrite Forall_forall in Hf. destruct (Hf m Hin) as [Hc Hh]. unfold lbs. rewrite H1, H3, remove_insert_nth by exact Hd.
  destruct m as [|k b dv nm es]; [discriminate|]. cbn in Hh. injection Hh as _ -> ->. repeat split. exact Hc.
Qed.

(* insert / append refuse a member with another batch size or device and leave the stack as it was *)
Lemma linsert_rejects : forall i d ms vb vd vn ve,
  (shape_eqb vb (mbs ms) = false \/ odev_eqb (mdev ms) vd = false) ->
  linsert i (VTree (Node KTd vb vd vn ve)) (LStack d ms) = (LStack d ms, Raised).
Proof.
  intros i d ms vb vd vn ve [H|H]; unfold linsert; rewrite H; cbn [negb]; [destruct (negb (odev_eqb (mdev ms) vd))|]; reflexivity.
Qed.
