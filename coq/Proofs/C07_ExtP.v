(* C07 — _SubTensorDict windows, lazy stacks, memmap_ / share_memory_: frame, purity, exact-footprint and freshness lemmas
   of Model/C07_Ext.v. *)
From Coq Require Import ZArith List String Bool Arith PeanoNat Lia.
Import ListNotations.
From TD Require Import Model.C07_Heap Model.C07_Alias Model.C07_Ext Spec.C07_AliasSpec Proofs.C07_HeapP Proofs.C07_AliasP.
Local Open Scope list_scope.

(* every pre-existing node keeps its bindings, every pre-existing storage keeps its size; temporaries (storages nobody holds,
   view nodes of value.unbind) may be appended *)
Definition keeps (h h' : heap) : Prop :=
  (exists e, hnodes h' = hnodes h ++ e) /\
  (exists e, map (@List.length Z) (hstor h') = map (@List.length Z) (hstor h) ++ e).

Lemma keeps_refl : forall h, keeps h h.
Proof. intro h. split; exists []; now rewrite app_nil_r. Qed.
Lemma keeps_trans : forall a b c, keeps a b -> keeps b c -> keeps a c.
Proof.
  intros a b c [[e1 N1] [f1 S1]] [[e2 N2] [f2 S2]]. split.
  - exists (e1 ++ e2). now rewrite N2, N1, app_assoc.
  - exists (f1 ++ f2). now rewrite S2, S1, app_assoc.
Qed.
Lemma frame_keeps : forall h h', inplace_frame h h' -> keeps h h'.
Proof. intros h h' [N S]. split; exists []; rewrite app_nil_r; auto. Qed.
Lemma ext_keeps : forall h h', heap_ext h h' -> keeps h h'.
Proof.
  intros h h' [[e S] N]. split; [exact N|]. exists (map (@List.length Z) e). now rewrite S, map_app.
Qed.
Lemma stor_nodes_keeps : forall h h', stor_ext h h' -> hnodes h' = hnodes h -> keeps h h'.
Proof. intros h h' S N. apply ext_keeps. split; [exact S|]. exists []. now rewrite app_nil_r. Qed.

(* ------------------------------------------------------------------ windows *)
Lemma win_get_ext : forall w h v, stor_ext h (fst (win_get w h v)) /\ hnodes (fst (win_get w h v)) = hnodes h.
Proof.
  intros w h v. unfold win_get. destruct (wbasic w); cbn [fst].
  - split; [apply stor_ext_refl|reflexivity].
  - apply fresh_leaf_ext.
Qed.

Lemma lf_win_ok : forall w, lf_ok (lf_win w).
Proof. intro w. unfold lf_win. destruct (wbasic w); [apply lf_sub_ok|apply lf_gather_ok]. Qed.

Lemma win_vals_ext : forall w ls h, stor_ext h (fst (win_vals w h ls)) /\ hnodes (fst (win_vals w h ls)) = hnodes h.
Proof.
  intros w. induction ls as [|[p v] t IH]; intro h; cbn [win_vals].
  - split; [apply stor_ext_refl|reflexivity].
  - destruct (win_get w h v) as [h1 v1] eqn:E. destruct (win_vals w h1 t) as [h2 t2] eqn:E2. cbn [fst].
    pose proof (win_get_ext w h v) as [S1 N1]. rewrite E in S1, N1. cbn [fst] in S1, N1.
    pose proof (IH h1) as [S2 N2]. rewrite E2 in S2, N2. cbn [fst] in S2, N2.
    split; [eapply stor_ext_trans; eauto|congruence].
Qed.

(* for a basic window _values_list hands out views of the source's own entries and allocates nothing *)
Lemma win_vals_basic : forall w, wbasic w = true ->
  forall ls h, win_vals w h ls = (h, map (fun pv : path * view => (fst pv, wview w (snd pv))) ls).
Proof.
  intros w Hb. induction ls as [|[p v] t IH]; intro h; cbn [win_vals map]; [reflexivity|].
  unfold win_get. rewrite Hb. rewrite IH. reflexivity.
Qed.

Lemma set_at_ref_frame : forall h tgt val w h' o, set_at_ref h tgt val w = (h', o) -> inplace_frame h h'.
Proof.
  unfold set_at_ref. intros h tgt val w h' o H.
  destruct tgt as [d|d]; destruct val as [v|v]; try (inversion H; subst; apply frame_refl).
  - eapply write_c_frame; eauto.
  - destruct (leaves_of h (RNode v)); [|inversion H; subst; apply frame_refl].
    destruct (at_writes h (RNode d) l (wnb w) (wsel w)); [|inversion H; subst; apply frame_refl].
    eapply write_list_frame; eauto.
Qed.

Lemma sub_set_frame : forall p h n w val h' o, sub_set_ h n w p val = (h', o) -> inplace_frame h h'.
Proof.
  induction p as [|k p IH]; intros h n w val h' o H; cbn [sub_set_] in H.
  - inversion H; subst. apply frame_refl.
  - destruct (get_node h n); [|inversion H; subst; apply frame_refl].
    destruct (ents_get (nents n0) k) as [[d|m]|]; destruct p as [|k2 p2];
      try (inversion H; subst; apply frame_refl); try (eapply set_at_ref_frame; eauto; fail).
    eapply IH; eauto.
Qed.

Lemma sub_update_frame : forall h n w src h' o, sub_update_ h n w src = (h', o) -> inplace_frame h h'.
Proof.
  unfold sub_update_. intros h n w src h' o H.
  destruct (get_node h n); [|inversion H; subst; apply frame_refl].
  destruct (get_node h src); [|inversion H; subst; apply frame_refl].
  eapply (fold_out_rel _ inplace_frame frame_refl frame_trans); [|exact H].
  intros h0 [k v] h1 o1 Hs. cbn [fst snd] in Hs.
  destruct (ents_get (nents n0) k); [eapply set_at_ref_frame; eauto|inversion Hs; subst; apply frame_refl].
Qed.

Lemma sub_set_at_leaf_keeps : forall h d w w2 vals h' o, sub_set_at_leaf h d w w2 vals = (h', o) -> keeps h h'.
Proof.
  unfold sub_set_at_leaf. intros h d w w2 vals h' o H.
  destruct (win_get w h d) as [h1 tin] eqn:E.
  pose proof (win_get_ext w h d) as [S1 N1]. rewrite E in S1, N1. cbn [fst] in S1, N1.
  eapply keeps_trans; [apply stor_nodes_keeps; eauto|].
  destruct (write_c false h1 (wview w2 tin) vals) as [h2 [|e]] eqn:E2.
  - eapply keeps_trans; apply frame_keeps; eapply write_c_frame; eauto.
  - inversion H; subst. apply frame_keeps. eapply write_c_frame; eauto.
Qed.

(* ------------------------------------------------------------------ lazy stacks *)
Lemma lazy_set_frame : forall h L p v h' o, lazy_set_ h L p v = (h', o) -> inplace_frame h h'.
Proof.
  unfold lazy_set_. intros h L p v h' o H.
  destruct (negb _); [inversion H; subst; apply frame_refl|].
  eapply (fold_out_rel _ inplace_frame frame_refl frame_trans); [|exact H].
  intros h0 [m sel] h1 o1 Hs. eapply set_tuple_true_frame; eauto.
Qed.

Lemma unbind_all_ext : forall nb sels h src h' xs, unbind_all h src nb sels = Some (h', xs) -> heap_ext h h'.
Proof.
  intros nb. induction sels as [|sel t IH]; intros h src h' xs H; cbn [unbind_all] in H.
  - inversion H; subst. apply heap_ext_refl.
  - destruct (map_tree (fuel_of h) false false false (lf_sub nb sel) h src []) as [[h1 x]|] eqn:E; [|discriminate].
    destruct (unbind_all h1 src nb t) as [[h2 xs2]|] eqn:E2; [|discriminate]. inversion H; subst.
    eapply heap_ext_trans; [eapply map_tree_ext; [apply lf_sub_ok|exact E]|eapply IH; eauto].
Qed.

Lemma lazy_update_keeps : forall h L src h' o, lazy_update_ h L src = (h', o) -> keeps h h'.
Proof.
  unfold lazy_update_. intros h L src h' o H.
  destruct (unbind_all h src (lnb L) (lsel L)) as [[h1 xs]|] eqn:E; [|inversion H; subst; apply keeps_refl].
  eapply keeps_trans; [apply ext_keeps; eapply unbind_all_ext; eauto|].
  apply frame_keeps. eapply (fold_out_rel _ inplace_frame frame_refl frame_trans); [|exact H].
  intros h0 [m x] h2 o1 Hs. eapply update_u_frame; eauto.
Qed.

Lemma lazy_stack_leaf_ext : forall h L vs,
  stor_ext h (fst (lazy_stack_leaf h L vs)) /\ hnodes (fst (lazy_stack_leaf h L vs)) = hnodes h
  /\ vsid (snd (lazy_stack_leaf h L vs)) = List.length (hstor h).
Proof.
  intros h L vs. unfold lazy_stack_leaf, alloc_stor. cbn. repeat split. eexists. reflexivity.
Qed.

Lemma lazy_setitem_part_keeps : forall L src vnb h pt h' o,
  pwhole pt = false -> lazy_setitem_part L src vnb h pt = (h', o) -> keeps h h'.
Proof.
  unfold lazy_setitem_part. intros L src vnb h pt h' o Hw H.
  destruct (nth_error (lmem L) (pj pt)); [|inversion H; subst; apply keeps_refl].
  destruct (pvsel pt) as [vs|].
  - destruct (map_tree (fuel_of h) false false false (lf_sub vnb vs) h src []) as [[h1 piece]|] eqn:E;
      [|inversion H; subst; apply keeps_refl].
    rewrite Hw in H. eapply keeps_trans; [apply ext_keeps; eapply map_tree_ext; [apply lf_sub_ok|exact E]|].
    apply frame_keeps. eapply set_at_ref_frame; eauto.
  - rewrite Hw in H. apply frame_keeps. eapply set_at_ref_frame; eauto.
Qed.

Lemma fold_parts_keeps : forall L src vnb parts h h' o,
  existsb pwhole parts = false -> fold_out (lazy_setitem_part L src vnb) h parts = (h', o) -> keeps h h'.
Proof.
  intros L src vnb. induction parts as [|pt t IH]; intros h h' o Hw H; cbn in H.
  - inversion H; subst. apply keeps_refl.
  - cbn in Hw. apply orb_false_iff in Hw. destruct Hw as [Hw1 Hw2].
    destruct (lazy_setitem_part L src vnb h pt) as [h1 [|e]] eqn:E.
    + eapply keeps_trans; [eapply lazy_setitem_part_keeps; eauto|eapply IH; eauto].
    + inversion H; subst. eapply lazy_setitem_part_keeps; eauto.
Qed.

(* ------------------------------------------------------------------ the in-place class of the other kinds *)
Definition xhandles_same (s s' : xst) : Prop :=
  regs (xb s') = regs (xb s) /\ xsubs s' = xsubs s /\ xlazy s' = xlazy s.

Local Arguments write_c : simpl never.
Local Arguments write_list : simpl never.
Local Arguments win_vals : simpl never.
Local Arguments win_get : simpl never.
Local Arguments lazy_stack_leaf : simpl never.
Local Arguments sub_set_ : simpl never.
Local Arguments lazy_set_ : simpl never.
Local Arguments fuel_of : simpl never.
Local Arguments map_tree : simpl never.

Ltac fin_keeps :=
  match goal with
  | |- keeps _ (fst ?x) /\ _ =>
      let E := fresh "E" in destruct x eqn:E; cbn [fst snd]; split; [|repeat split]
  end.

Lemma xstep_inplace_keeps : forall s i,
  xclassify i = XCInplace ->
  keeps (hp (xb s)) (hp (xb (fst (xstep s i)))) /\ xhandles_same s (fst (xstep s i)).
Proof.
  intros s i Hc. destruct i; cbn in Hc; try discriminate; unfold xstep, xsub, xlz, reg; cbv zeta.
  - (* XSubSetU *)
    destruct (nth_error (xsubs s) s0) as [sh|]; [|split; [apply keeps_refl|repeat split]].
    destruct (nth_error (regs (xb s)) v) as [val|]; [|split; [apply keeps_refl|repeat split]].
    cbn. fin_keeps. apply frame_keeps. eapply sub_set_frame; eauto.
  - (* XSubUpdU *)
    destruct (nth_error (xsubs s) s0) as [sh|]; [|split; [apply keeps_refl|repeat split]].
    destruct (nth_error (regs (xb s)) src) as [[o|o]|]; try (split; [apply keeps_refl|repeat split]).
    cbn. fin_keeps. apply frame_keeps. eapply sub_update_frame; eauto.
  - (* XSubSetAt *)
    destruct (nth_error (xsubs s) s0) as [sh|]; [|split; [apply keeps_refl|repeat split]].
    destruct (nth_error (regs (xb s)) v) as [[o|o]|]; try (split; [apply keeps_refl|repeat split]).
    destruct (resolve (hp (xb s)) (RNode (ssrc sh)) p) as [[d|d]|]; try (split; [apply keeps_refl|repeat split]).
    cbn. fin_keeps. eapply sub_set_at_leaf_keeps; eauto.
  - (* XSubFill *)
    destruct (nth_error (xsubs s) s0) as [sh|]; [|split; [apply keeps_refl|repeat split]].
    destruct (resolve (hp (xb s)) (RNode (ssrc sh)) p) as [[d|m]|]; try (split; [apply keeps_refl|repeat split]).
    + destruct (win_get (swin sh) (hp (xb s)) d) as [h1 tin] eqn:E.
      pose proof (win_get_ext (swin sh) (hp (xb s)) d) as [S1 N1]. rewrite E in S1, N1. cbn [fst] in S1, N1.
      destruct (write_c false h1 tin (map (fun _ : nat => z) (vcells tin))) as [h2 [|e]] eqn:E2.
      * cbn. fin_keeps.
        eapply keeps_trans; [apply stor_nodes_keeps; eauto|].
        eapply keeps_trans; apply frame_keeps; [eapply write_c_frame; eauto|eapply sub_set_frame; eauto].
      * cbn. split; [|repeat split].
        eapply keeps_trans; [apply stor_nodes_keeps; eauto|]. apply frame_keeps. eapply write_c_frame; eauto.
    + destruct (leaves_of (hp (xb s)) (RNode m)) as [ls|]; [|split; [apply keeps_refl|repeat split]].
      destruct (win_vals (swin sh) (hp (xb s)) ls) as [h1 vs] eqn:E.
      pose proof (win_vals_ext (swin sh) ls (hp (xb s))) as [S1 N1]. rewrite E in S1, N1. cbn [fst] in S1, N1.
      cbn. fin_keeps. eapply keeps_trans; [apply stor_nodes_keeps; eauto|]. apply frame_keeps. eapply write_list_frame; eauto.
  - (* XSubConstU *)
    destruct (nth_error (xsubs s) s0) as [sh|]; [|split; [apply keeps_refl|repeat split]].
    destruct (leaves_of (hp (xb s)) (RNode (ssrc sh))) as [ls|]; [|split; [apply keeps_refl|repeat split]].
    destruct (win_vals (swin sh) (hp (xb s)) ls) as [h1 vs] eqn:E.
    pose proof (win_vals_ext (swin sh) ls (hp (xb s))) as [S1 N1]. rewrite E in S1, N1. cbn [fst] in S1, N1.
    cbn. fin_keeps. eapply keeps_trans; [apply stor_nodes_keeps; eauto|]. apply frame_keeps. eapply write_list_frame; eauto.
  - (* XSubUnaryU *)
    destruct (nth_error (xsubs s) s0) as [sh|]; [|split; [apply keeps_refl|repeat split]].
    destruct (leaves_of (hp (xb s)) (RNode (ssrc sh))) as [ls|]; [|split; [apply keeps_refl|repeat split]].
    destruct (win_vals (swin sh) (hp (xb s)) ls) as [h1 vs] eqn:E.
    pose proof (win_vals_ext (swin sh) ls (hp (xb s))) as [S1 N1]. rewrite E in S1, N1. cbn [fst] in S1, N1.
    cbn. fin_keeps. eapply keeps_trans; [apply stor_nodes_keeps; eauto|]. apply frame_keeps. eapply write_list_frame; eauto.
  - (* XSubBinaryU *)
    destruct (nth_error (xsubs s) s0) as [sh|]; [|split; [apply keeps_refl|repeat split]].
    destruct (nth_error (regs (xb s)) src) as [o|]; [|split; [apply keeps_refl|repeat split]].
    destruct (leaves_of (hp (xb s)) (RNode (ssrc sh))) as [ls|]; [|split; [apply keeps_refl|repeat split]].
    destruct (leaves_of (hp (xb s)) o) as [lo|]; [|split; [apply keeps_refl|repeat split]].
    destruct (win_vals (swin sh) (hp (xb s)) ls) as [h1 vs] eqn:E.
    pose proof (win_vals_ext (swin sh) ls (hp (xb s))) as [S1 N1]. rewrite E in S1, N1. cbn [fst] in S1, N1.
    destruct (pair_all vs lo); [|split; [apply keeps_refl|repeat split]].
    cbn. fin_keeps. eapply keeps_trans; [apply stor_nodes_keeps; eauto|]. apply frame_keeps. eapply write_list_frame; eauto.
  - (* XLazySetU *)
    destruct (nth_error (xlazy s) l) as [L|]; [|split; [apply keeps_refl|repeat split]].
    destruct (nth_error (regs (xb s)) v) as [[val|val]|]; try (split; [apply keeps_refl|repeat split]).
    cbn. fin_keeps. apply frame_keeps. eapply lazy_set_frame; eauto.
  - (* XLazyUpdU *)
    destruct (nth_error (xlazy s) l) as [L|]; [|split; [apply keeps_refl|repeat split]].
    destruct (nth_error (regs (xb s)) src) as [o|]; [|split; [apply keeps_refl|repeat split]].
    cbn. fin_keeps. eapply lazy_update_keeps; eauto.
  - (* XLazySetItem *)
    destruct (existsb pwhole parts) eqn:Hw; [discriminate|].
    destruct (nth_error (xlazy s) l) as [L|]; [|split; [apply keeps_refl|repeat split]].
    destruct (nth_error (regs (xb s)) src) as [o|]; [|split; [apply keeps_refl|repeat split]].
    cbn. fin_keeps. eapply fold_parts_keeps; eauto.
  - (* XLazyFill *)
    destruct (nth_error (xlazy s) l) as [L|]; [|split; [apply keeps_refl|repeat split]].
    destruct (all_some (map (member_leaf (hp (xb s)) p) (lmem L))) as [vs|].
    + destruct (lazy_stack_leaf (hp (xb s)) L vs) as [h1 v] eqn:E.
      pose proof (lazy_stack_leaf_ext (hp (xb s)) L vs) as [S1 [N1 _]]. rewrite E in S1, N1. cbn [fst] in S1, N1.
      destruct (write_c false h1 v (map (fun _ : nat => z) (vcells v))) as [h2 [|e]] eqn:E2.
      * cbn. fin_keeps.
        eapply keeps_trans; [apply stor_nodes_keeps; eauto|].
        eapply keeps_trans; apply frame_keeps; [eapply write_c_frame; eauto|eapply lazy_set_frame; eauto].
      * cbn. split; [|repeat split].
        eapply keeps_trans; [apply stor_nodes_keeps; eauto|]. apply frame_keeps. eapply write_c_frame; eauto.
    + destruct (all_some (map (member_node (hp (xb s)) p) (lmem L))) as [ns|]; [|split; [apply keeps_refl|repeat split]].
      destruct (lazy_leaves (hp (xb s)) (mkLazy ns (lnb L) (lsel L))) as [ls|]; [|split; [apply keeps_refl|repeat split]].
      cbn. fin_keeps. apply frame_keeps. eapply write_list_frame; eauto.
  - (* XLazyConstU *)
    destruct (nth_error (xlazy s) l) as [L|]; [|split; [apply keeps_refl|repeat split]].
    destruct (lazy_leaves (hp (xb s)) L) as [ls|]; [|split; [apply keeps_refl|repeat split]].
    cbn. fin_keeps. apply frame_keeps. eapply write_list_frame; eauto.
  - (* XLazyUnaryU *)
    destruct (nth_error (xlazy s) l) as [L|]; [|split; [apply keeps_refl|repeat split]].
    destruct (lazy_leaves (hp (xb s)) L) as [ls|]; [|split; [apply keeps_refl|repeat split]].
    cbn. fin_keeps. apply frame_keeps. eapply write_list_frame; eauto.
Qed.

(* ------------------------------------------------------------------ everything else: no pre-existing storage is written *)
Definition xwrites_possible (i : xinstr) : bool :=
  match xclassify i with
  | XCBase CInplace | XCBase CBest | XCInplace => true
  | _ => false
  end.

Lemma on_pure : forall h rs i h1 xs o, writes_possible i = false -> on h rs i = (h1, xs, o) -> stor_ext h h1.
Proof.
  unfold on. intros h rs i h1 xs o Hw H. pose proof (step_pure (mkSt h rs) i Hw) as P.
  destruct (step (mkSt h rs) i) as [s' o']. inversion H; subst. exact P.
Qed.

Lemma clone_all_ext : forall ms h h' cs, clone_all h ms = Some (h', cs) -> stor_ext h h'.
Proof.
  induction ms as [|m t IH]; intros h h' cs H; cbn [clone_all] in H.
  - inversion H; subst. apply stor_ext_refl.
  - destruct (map_tree (fuel_of h) false false false lf_copy h (RNode m) []) as [[h1 [v|c]]|] eqn:E; try discriminate.
    destruct (clone_all h1 t) as [[h2 cs2]|] eqn:E2; [|discriminate]. inversion H; subst.
    eapply stor_ext_trans; [eapply map_tree_ext in E; [apply E|apply lf_copy_ok]|eapply IH; eauto].
Qed.

Lemma lazy_flat_ents_ext : forall L sep ks h h' es, lazy_flat_ents h L sep ks = Some (h', es) -> heap_ext h h'.
Proof.
  intros L sep. induction ks as [|p t IH]; intros h h' es H; cbn [lazy_flat_ents] in H.
  - inversion H; subst. apply heap_ext_refl.
  - destruct (all_some (map (member_leaf h p) (lmem L))) as [vs|]; [|discriminate].
    destruct (lazy_stack_leaf h L vs) as [h1 v] eqn:E.
    pose proof (lazy_stack_leaf_ext h L vs) as [S1 [N1 _]]. rewrite E in S1, N1. cbn [fst] in S1, N1.
    destruct (lazy_flat_ents h1 L sep t) as [[h2 es2]|] eqn:E2; [|discriminate]. inversion H; subst.
    eapply heap_ext_trans; [|eapply IH; eauto]. split; [exact S1|]. exists []. now rewrite app_nil_r.
Qed.

Lemma set_node_stor : forall h n nd, hstor (set_node h n nd) = hstor h.
Proof. reflexivity. Qed.

Lemma memmap_ents_ext : forall (rec : heap -> ref -> option heap),
  (forall h r h', rec h r = Some h' -> stor_ext h h') ->
  forall n ks h h', memmap_ents rec h n ks = Some h' -> stor_ext h h'.
Proof.
  intros rec Hrec n. induction ks as [|k t IH]; intros h h' H; cbn [memmap_ents] in H.
  - inversion H; subst. apply stor_ext_refl.
  - destruct (get_node h n) as [nd|]; [|discriminate].
    destruct (ents_get (nents nd) k) as [[v|m]|]; [| |discriminate].
    + destruct (fresh_leaf h (read h v)) as [h1 v1] eqn:E.
      pose proof (fresh_leaf_ext h (read h v)) as [S1 _]. rewrite E in S1. cbn [fst] in S1.
      apply IH in H. eapply stor_ext_trans; [exact S1|].
      destruct H as [e He]. exists e. rewrite He. reflexivity.
    + destruct (rec h (RNode m)) as [h1|] eqn:E; [|discriminate].
      eapply stor_ext_trans; [eapply Hrec; eauto|eapply IH; eauto].
Qed.

Lemma memmap_tree_ext : forall fuel h r h', memmap_tree fuel h r = Some h' -> stor_ext h h'.
Proof.
  induction fuel as [|f IH]; intros h r h' H; [discriminate|]. cbn [memmap_tree] in H.
  destruct r as [v|n]; [inversion H; subst; apply stor_ext_refl|].
  destruct (get_node h n) as [nd|]; [|discriminate].
  destruct (memmap_ents (memmap_tree f) h n (map fst (nents nd))) as [h1|] eqn:E; [|discriminate].
  destruct (get_node h1 n) as [nd1|]; [|discriminate]. inversion H; subst.
  eapply memmap_ents_ext in E; [|exact IH]. destruct E as [e He]. exists e. cbn. exact He.
Qed.

Lemma lf_wclone_ok : forall w, lf_ok (fun (p : path) h0 v => let '(h1, v1) := win_get w h0 v in fresh_like h1 v1 (read h1 v1)).
Proof.
  intros w p h v. destruct (win_get w h v) as [h1 v1] eqn:E.
  pose proof (win_get_ext w h v) as [S1 N1]. rewrite E in S1, N1. cbn [fst] in S1, N1.
  pose proof (fresh_like_ext h1 v1 (read h1 v1)) as [S2 N2].
  split; [eapply stor_ext_trans; eauto|congruence].
Qed.
Lemma lf_wun_ok : forall w f,
  lf_ok (fun (p : path) h0 v => let '(h1, v1) := win_get w h0 v in fresh_like h1 v1 (map (apf f) (read h1 v1))).
Proof.
  intros w f p h v. destruct (win_get w h v) as [h1 v1] eqn:E.
  pose proof (win_get_ext w h v) as [S1 N1]. rewrite E in S1, N1. cbn [fst] in S1, N1.
  pose proof (fresh_like_ext h1 v1 (map (apf f) (read h1 v1))) as [S2 N2].
  split; [eapply stor_ext_trans; eauto|congruence].
Qed.

Lemma dense_ents_ext : forall (rec : heap -> list nat -> option (heap * nat)) cl L ms,
  (forall h ns h' n, rec h ns = Some (h', n) -> stor_ext h h') ->
  forall ks h h' es, dense_ents rec cl h L ms ks = Some (h', es) -> stor_ext h h'.
Proof.
  intros rec cl L ms Hrec. induction ks as [|k t IH]; intros h h' es H; cbn [dense_ents] in H.
  - inversion H; subst. apply stor_ext_refl.
  - destruct (all_some (map (member_leaf h [k]) ms)) as [vs|].
    + destruct (lazy_stack_leaf h L vs) as [h1 v] eqn:E.
      pose proof (lazy_stack_leaf_ext h L vs) as [S1 _]. rewrite E in S1. cbn [fst] in S1.
      destruct cl.
      * destruct (fresh_like h1 v (read h1 v)) as [h2 v2] eqn:E2.
        pose proof (fresh_like_ext h1 v (read h1 v)) as [S2 _]. rewrite E2 in S2. cbn [fst] in S2.
        destruct (dense_ents rec true h2 L ms t) as [[h3 es3]|] eqn:E3; [|discriminate]. inversion H; subst.
        eapply stor_ext_trans; [exact S1|]. eapply stor_ext_trans; [exact S2|]. eapply IH; eauto.
      * destruct (dense_ents rec false h1 L ms t) as [[h3 es3]|] eqn:E3; [|discriminate]. inversion H; subst.
        eapply stor_ext_trans; [exact S1|]. eapply IH; eauto.
    + destruct (all_some (map (member_node h [k]) ms)) as [ns|]; [|discriminate].
      destruct (rec h ns) as [[h1 n]|] eqn:E; [|discriminate].
      destruct (dense_ents rec cl h1 L ms t) as [[h2 es2]|] eqn:E2; [|discriminate]. inversion H; subst.
      eapply stor_ext_trans; [eapply Hrec; eauto|eapply IH; eauto].
Qed.

Lemma lazy_dense_ext : forall fuel cl h L ms h' n, lazy_dense fuel cl h L ms = Some (h', n) -> stor_ext h h'.
Proof.
  induction fuel as [|f IH]; intros cl h L ms h' n H; [discriminate|]. cbn [lazy_dense] in H.
  destruct (dense_ents (fun h'0 ns => lazy_dense f cl h'0 L ns) cl h L ms (lazy_keys h ms)) as [[h1 es]|] eqn:E; [|discriminate].
  inversion H; subst. eapply dense_ents_ext in E; [|intros; eapply IH; eauto].
  destruct E as [e He]. exists e. cbn. exact He.
Qed.

Ltac xpure_tree lem :=
  match goal with
  | H : map_tree _ _ _ _ _ _ _ _ = Some (_, _) |- _ => eapply map_tree_ext in H; [apply H|apply lem]
  end.

Lemma xstep_pure : forall s i, xwrites_possible i = false -> stor_ext (hp (xb s)) (hp (xb (fst (xstep s i)))).
Proof.
  intros s i Hw. destruct i; unfold xwrites_possible in Hw; cbn in Hw; try discriminate;
    unfold xstep, xsub, xlz, reg; cbv zeta.
  - (* XB *)
    assert (W : writes_possible i = false) by (unfold writes_possible; destruct (classify i); auto; discriminate).
    pose proof (step_pure (xb s) i W) as P. destruct (step (xb s) i) as [b' o]. exact P.
  - (* XMkSub *) repeat destr_match; cbn; apply stor_ext_refl.
  - (* XSubGet *)
    repeat destr_match; cbn; try apply stor_ext_refl. xpure_tree lf_win_ok.
  - (* XSubClone *)
    repeat destr_match; cbn; try apply stor_ext_refl. xpure_tree lf_wclone_ok.
  - (* XSubShallow *)
    repeat destr_match; cbn; try apply stor_ext_refl. xpure_tree lf_same_ok.
  - (* XSubSelect *)
    destruct (nth_error (xsubs s) s0) as [sh|]; [|apply stor_ext_refl].
    destruct (on (hp (xb s)) [RNode (ssrc sh)] (ISelect 0 ks)) as [[h1 xs] o] eqn:E.
    apply on_pure in E; [|reflexivity].
    destruct xs as [|x [|y t]]; destruct o; try apply stor_ext_refl.
    destruct (map_tree (fuel_of h1) false false false (lf_win (swin sh)) h1 x []) as [[h2 y]|] eqn:E2; [|apply stor_ext_refl].
    cbn. eapply stor_ext_trans; [exact E|]. eapply map_tree_ext in E2; [apply E2|apply lf_win_ok].
  - (* XSubExclude *)
    destruct (nth_error (xsubs s) s0) as [sh|]; [|apply stor_ext_refl].
    destruct (on (hp (xb s)) [RNode (ssrc sh)] (IExclude 0 ks)) as [[h1 xs] o] eqn:E.
    apply on_pure in E; [|reflexivity].
    destruct xs as [|x [|y t]]; destruct o; try apply stor_ext_refl.
    destruct (map_tree (fuel_of h1) false false false (lf_win (swin sh)) h1 x []) as [[h2 y]|] eqn:E2; [|apply stor_ext_refl].
    cbn. eapply stor_ext_trans; [exact E|]. eapply map_tree_ext in E2; [apply E2|apply lf_win_ok].
  - (* XSubUnary *)
    repeat destr_match; cbn; try apply stor_ext_refl. xpure_tree lf_wun_ok.
  - (* XMkLazy *) repeat destr_match; cbn; apply stor_ext_refl.
  - (* XLazyMember *) repeat destr_match; cbn; apply stor_ext_refl.
  - (* XLazyGet *)
    destruct (nth_error (xlazy s) l) as [L|]; [|apply stor_ext_refl].
    destruct (all_some (map (member_leaf (hp (xb s)) p) (lmem L))) as [vs|].
    + destruct (lazy_stack_leaf (hp (xb s)) L vs) as [h1 v] eqn:E.
      pose proof (lazy_stack_leaf_ext (hp (xb s)) L vs) as [S1 _]. rewrite E in S1. exact S1.
    + destruct (all_some (map (member_node (hp (xb s)) p) (lmem L))); cbn; apply stor_ext_refl.
  - (* XLazySetItem with whole parts: excluded *)
    destruct (existsb pwhole parts); discriminate.
  - (* XLazyClone *)
    destruct (nth_error (xlazy s) l) as [L|]; [|apply stor_ext_refl].
    destruct (clone_all (hp (xb s)) (lmem L)) as [[h1 cs]|] eqn:E; [|apply stor_ext_refl].
    cbn. eapply clone_all_ext; eauto.
  - (* XLazyFlatten *)
    destruct (nth_error (xlazy s) l) as [L|]; [|apply stor_ext_refl].
    destruct (lazy_paths (fuel_of (hp (xb s))) (hp (xb s)) (lmem L) []) as [ps|]; [|apply stor_ext_refl].
    destruct (lazy_flat_ents (hp (xb s)) L sep ps) as [[h1 es]|] eqn:E; [|apply stor_ext_refl].
    apply lazy_flat_ents_ext in E. destruct E as [E _].
    destruct (alloc_node h1 (mkNode es false)) as [h2 m] eqn:E2.
    assert (S2 : stor_ext h1 h2) by (unfold alloc_node in E2; inversion E2; subst; apply stor_ext_same; reflexivity).
    destruct (unbind_all h2 (RNode m) (lnb L) (lsel L)) as [[h3 xs]|] eqn:E3; [|apply stor_ext_refl].
    apply unbind_all_ext in E3. destruct E3 as [E3 _].
    destruct (all_some _); cbn; try apply stor_ext_refl.
    eapply stor_ext_trans; [exact E|]. eapply stor_ext_trans; eauto.
  - (* XMemmap *)
    destruct (nth_error (regs (xb s)) r) as [d|]; [|apply stor_ext_refl].
    destruct (memmap_tree (fuel_of (hp (xb s))) (hp (xb s)) d) as [h1|] eqn:E; [|apply stor_ext_refl].
    cbn. eapply memmap_tree_ext; eauto.
  - (* XShare *)
    destruct (nth_error (regs (xb s)) r) as [d|]; [|apply stor_ext_refl].
    pose proof (step_pure (xb s) (ILock r true) eq_refl) as P. destruct (step (xb s) (ILock r true)) as [b' o]. exact P.
  - (* XLazyDense *)
    destruct (nth_error (xlazy s) l) as [L|]; [|apply stor_ext_refl].
    destruct (lazy_dense (fuel_of (hp (xb s))) cl (hp (xb s)) L (lmem L)) as [[h1 m]|] eqn:E; [|apply stor_ext_refl].
    cbn. eapply lazy_dense_ext; eauto.
  - (* XLazyNarrow *) repeat destr_match; cbn; apply stor_ext_refl.
Qed.

(* ------------------------------------------------------------------ histories *)
Lemma xrun_pure : forall prog s,
  forallb (fun i => negb (xwrites_possible i)) prog = true -> stor_ext (hp (xb s)) (hp (xb (xrun s prog))).
Proof.
  induction prog as [|i t IH]; intros s H; cbn in *.
  - apply stor_ext_refl.
  - apply andb_true_iff in H. destruct H as [H1 H2]. apply negb_true_iff in H1.
    eapply stor_ext_trans; [apply xstep_pure; exact H1|apply IH; exact H2].
Qed.

Lemma xrun_inplace : forall prog s,
  forallb (fun i => match xclassify i with XCInplace => true | _ => false end) prog = true ->
  keeps (hp (xb s)) (hp (xb (xrun s prog))) /\ xhandles_same s (xrun s prog).
Proof.
  induction prog as [|i t IH]; intros s H; cbn in *.
  - split; [apply keeps_refl|repeat split].
  - apply andb_true_iff in H. destruct H as [H1 H2].
    destruct (xclassify i) eqn:Ec; try discriminate.
    destruct (xstep_inplace_keeps s i Ec) as [F [R1 [R2 R3]]]. destruct (IH (fst (xstep s i)) H2) as [F2 [Q1 [Q2 Q3]]].
    split; [eapply keeps_trans; eauto|repeat split; congruence].
Qed.

(* ------------------------------------------------------------------ a write through a window: exact footprint, seen by every alias *)
Lemma write_c_false_nodup : forall h v vals, nodupb (vcells v) = true -> write_c false h v vals = write h v vals.
Proof. intros h v vals H. unfold write_c, write. rewrite H. reflexivity. Qed.

(* sub.set_(k, value) (window basic OR advanced: the write is tensor_in[idx] = value on the source's own tensor): element i of
   any view of the source entry's storage reads what was written for element j of the window whenever they are the same
   cell; every other cell of every storage keeps its content; nothing is allocated or rebound *)
Theorem sub_set_exact : forall h n nd w k d v h',
  get_node h n = Some nd -> ents_get (nents nd) k = Some (RLeaf d) ->
  sub_set_ h n w [k] (RLeaf v) = (h', Done) ->
  nodupb (vcells (wview w d)) = true -> in_bounds h (wview w d) ->
  (forall a i j c, vsid a = vsid d -> nth_error (vcells a) i = Some c -> nth_error (vcells (wview w d)) j = Some c ->
                   nth i (read h' a) 0%Z = nth j (read h v) 0%Z)
  /\ (forall s c, ~ (s = vsid d /\ In c (vcells (wview w d))) -> cell h' s c = cell h s c)
  /\ inplace_frame h h'.
Proof.
  intros h n nd w k d v h' Hn Hk H Hnd Hb.
  assert (F : inplace_frame h h') by (eapply sub_set_frame; eauto).
  unfold sub_set_ in H. rewrite Hn, Hk in H. cbn [set_at_ref] in H.
  rewrite write_c_false_nodup in H by exact Hnd.
  destruct (write_alias h (wview w d) (read h v) h' H Hb) as [A B].
  split; [|split; [|exact F]].
  - intros a i j c Hs Hi Hj. apply A with (c := c); auto.
  - intros s c Hc. apply B. exact Hc.
Qed.

(* ------------------------------------------------------------------ in-place arithmetic through a window *)
(* what the property wants: the kernels run on (views of) the source's own entries *)
Definition sub_arith_on_source (s : xst) (si : nat) (f : pf) : Prop :=
  forall sh ls, xsub s si = Some sh -> leaves_of (hp (xb s)) (RNode (ssrc sh)) = Some ls ->
    hp (xb (fst (xstep s (XSubUnaryU si f))))
    = fst (write_list true (hp (xb s)) (map (fun pv : path * view => (wview (swin sh) (snd pv), WUn f)) ls)).

Lemma sub_arith_basic : forall s si f sh,
  xsub s si = Some sh -> wbasic (swin sh) = true -> sub_arith_on_source s si f.
Proof.
  intros s si f sh Hs Hb sh' ls Hs' Hl. rewrite Hs in Hs'. inversion Hs'; subst sh'.
  unfold xstep. cbv zeta. rewrite Hs, Hl. rewrite (win_vals_basic _ Hb). rewrite map_map. cbn [snd fst].
  destruct (write_list true (hp (xb s)) (map (fun x : path * view => (wview (swin sh) (snd x), WUn f)) ls)); reflexivity.
Qed.

Lemma write_list_sids_basic : forall (w : win) (g : view -> wsrc) ls,
  map (fun vs : view * wsrc => vsid (fst vs)) (map (fun pv : path * view => (wview w (snd pv), g (snd pv))) ls) = leaf_sids ls.
Proof. intros. unfold leaf_sids. rewrite map_map. apply map_ext. intros [p v]. reflexivity. Qed.

(* ... and then nothing is allocated, nothing rebound, and only the source's own storages change *)
Lemma sub_arith_basic_frame : forall s si f sh ls,
  xsub s si = Some sh -> wbasic (swin sh) = true -> leaves_of (hp (xb s)) (RNode (ssrc sh)) = Some ls ->
  inplace_frame (hp (xb s)) (hp (xb (fst (xstep s (XSubUnaryU si f)))))
  /\ only_storages (leaf_sids ls) (hp (xb s)) (hp (xb (fst (xstep s (XSubUnaryU si f))))).
Proof.
  intros s si f sh ls Hs Hb Hl. rewrite (sub_arith_basic s si f sh Hs Hb sh ls Hs Hl).
  destruct (write_list true (hp (xb s)) (map (fun pv : path * view => (wview (swin sh) (snd pv), WUn f)) ls)) as [h' o] eqn:E.
  cbn [fst]. split; [eapply write_list_frame; eauto|].
  pose proof (write_list_only _ _ _ _ _ E) as O.
  rewrite (write_list_sids_basic (swin sh) (fun _ => WUn f) ls) in O. exact O.
Qed.

(* D70: an advanced window, neg_ through it: the call succeeds, the source keeps its values *)
Definition d70_state : xst :=
  xrun empty_xst [XB (INewT [1; 2; 3; 4; 5]%Z [0; 1; 2; 3; 4]); XB (INewTD [("a"%string, 0)]); XMkSub 1 (mkWin 5 [3; 1] false)].

Lemma d70_witness :
  xclassify (XSubUnaryU 0 PNeg) = XCInplace /\ snd (xstep d70_state (XSubUnaryU 0 PNeg)) = Done /\
  get_stor (hp (xb (fst (xstep d70_state (XSubUnaryU 0 PNeg))))) 0 = [1; 2; 3; 4; 5]%Z /\
  ~ sub_arith_on_source d70_state 0 PNeg.
Proof.
  split; [reflexivity|]. split; [vm_compute; reflexivity|]. split; [vm_compute; reflexivity|].
  intro H.
  assert (E1 : xsub d70_state 0 = Some (mkSub 0 (mkWin 5 [3; 1] false))) by (vm_compute; reflexivity).
  assert (E2 : leaves_of (hp (xb d70_state)) (RNode (ssrc (mkSub 0 (mkWin 5 [3; 1] false))))
               = Some [(["a"%string], mkView 0 [0; 1; 2; 3; 4])]) by (vm_compute; reflexivity).
  specialize (H _ _ E1 E2). vm_compute in H. discriminate.
Qed.

(* ------------------------------------------------------------------ lazy stacks *)
(* lazy.get(leaf key) is a fresh tensor: writing into it changes no storage that existed before *)
Theorem lazy_get_fresh : forall s li p L vs,
  xlz s li = Some L -> all_some (map (member_leaf (hp (xb s)) p) (lmem L)) = Some vs ->
  exists h1 v, xstep s (XLazyGet li p) = (xpush s h1 (RLeaf v), Done)
    /\ fresh_view (hp (xb s)) v /\ stor_ext (hp (xb s)) h1 /\ hnodes h1 = hnodes (hp (xb s))
    /\ forall chk vals h2 o, write_c chk h1 v vals = (h2, o) ->
         forall sid, sid < List.length (hstor (hp (xb s))) -> get_stor h2 sid = get_stor (hp (xb s)) sid.
Proof.
  intros s li p L vs HL Hv. unfold xstep. cbv zeta. rewrite HL, Hv.
  destruct (lazy_stack_leaf (hp (xb s)) L vs) as [h1 v] eqn:E.
  pose proof (lazy_stack_leaf_ext (hp (xb s)) L vs) as [S1 [N1 V1]]. rewrite E in S1, N1, V1. cbn [fst snd] in S1, N1, V1.
  exists h1, v. split; [reflexivity|]. split; [unfold fresh_view; lia|]. split; [exact S1|]. split; [exact N1|].
  intros chk vals h2 o Hw sid Hsid.
  pose proof (write_c_only _ _ _ _ _ _ Hw) as O. rewrite (O sid).
  - apply stor_ext_get; assumption.
  - intros [X|[]]. lia.
Qed.

(* ... in particular for a stack of ONE member (built so, or left with one member by lazy[k:k+1] / split / chunk: XLazyNarrow) *)
Corollary lazy_get_fresh_one_member : forall s li p m nb sel v,
  xlz s li = Some (mkLazy [m] nb [sel]) -> member_leaf (hp (xb s)) p m = Some v ->
  exists h1 v', xstep s (XLazyGet li p) = (xpush s h1 (RLeaf v'), Done)
    /\ fresh_view (hp (xb s)) v' /\ stor_ext (hp (xb s)) h1 /\ hnodes h1 = hnodes (hp (xb s))
    /\ forall chk vals h2 o, write_c chk h1 v' vals = (h2, o) ->
         forall sid, sid < List.length (hstor (hp (xb s))) -> get_stor h2 sid = get_stor (hp (xb s)) sid.
Proof.
  intros s li p m nb sel v HL Hv. eapply lazy_get_fresh; [exact HL|]. cbn. rewrite Hv. reflexivity.
Qed.

(* in-place arithmetic / zero_ through the stack run on the members' own entries: nothing allocated, nothing rebound, and only
   storages behind the members' entries change *)
Theorem lazy_arith_footprint : forall s li L ls i,
  xlz s li = Some L -> lazy_leaves (hp (xb s)) L = Some ls ->
  (exists f, i = XLazyUnaryU li f) \/ (exists z, i = XLazyConstU li z) ->
  inplace_frame (hp (xb s)) (hp (xb (fst (xstep s i)))) /\ only_storages (leaf_sids ls) (hp (xb s)) (hp (xb (fst (xstep s i)))).
Proof.
  intros s li L ls i HL Hl [[f Hi]|[z Hi]]; subst i; unfold xstep; cbv zeta; rewrite HL, Hl.
  - destruct (write_list true (hp (xb s)) (map (fun pv : path * view => (snd pv, WUn f)) ls)) as [h' o] eqn:E. cbn.
    split; [eapply write_list_frame; eauto|].
    pose proof (write_list_only _ _ _ _ _ E) as O. rewrite map_map in O. exact O.
  - destruct (write_list false (hp (xb s)) (map (fun pv : path * view => (snd pv, WUn (PConst z))) ls)) as [h' o] eqn:E. cbn.
    split; [eapply write_list_frame; eauto|].
    pose proof (write_list_only _ _ _ _ _ E) as O. rewrite map_map in O. exact O.
Qed.

Lemma fold_out_ext : forall {A} (f g : heap -> A -> heap * outcome), (forall h x, f h x = g h x) ->
  forall l h, fold_out f h l = fold_out g h l.
Proof.
  intros A f g H. induction l as [|x t IH]; intro h; cbn; [reflexivity|].
  rewrite H. destruct (g h x) as [h1 [|e]]; [apply IH|reflexivity].
Qed.

(* set_ through the stack IS set_ on every member (the regular machine's ISetU), with value.unbind(stack_dim)[j] as value *)
Theorem lazy_set_is_member_set : forall h L p v,
  lazy_set_ h L p v =
  if negb (match p with
           | [k] => forallb (fun m => match get_node h m with Some nd => ents_has (nents nd) k | None => false end) (lmem L)
           | _ => true end)
  then (h, Raised EKey)
  else fold_out (fun h0 (ms : nat * list nat) =>
                   let s' := fst (step (mkSt h0 [RNode (fst ms); RLeaf (subview v (lnb L) (snd ms))]) (ISetU 0 p 1)) in
                   (hp s', snd (step (mkSt h0 [RNode (fst ms); RLeaf (subview v (lnb L) (snd ms))]) (ISetU 0 p 1))))
                h (zip (lmem L) (lsel L)).
Proof.
  intros h L p v. unfold lazy_set_. destruct (negb _); [reflexivity|].
  apply fold_out_ext. intros h0 [m sel]. unfold step, reg. cbn.
  destruct (set_tuple upd_best h0 m p (RLeaf (subview v (lnb L) sel)) ITrue); reflexivity.
Qed.

(* the nested node of a stack is the stack of the members' own nested nodes: nothing is allocated *)
Theorem lazy_get_node_shares : forall s li p L ns,
  xlz s li = Some L -> all_some (map (member_leaf (hp (xb s)) p) (lmem L)) = None ->
  all_some (map (member_node (hp (xb s)) p) (lmem L)) = Some ns ->
  xstep s (XLazyGet li p) = (xpush_lazy s (hp (xb s)) (mkLazy ns (lnb L) (lsel L)), Done).
Proof. intros s li p L ns HL H1 H2. unfold xstep. cbv zeta. rewrite HL, H1, H2. reflexivity. Qed.

(* D73: flatten_keys on a stack is documented as sharing; every entry of the result lives in a storage that did not exist *)
Definition d73_state : xst :=
  xrun empty_xst [XB (INewT [1; 2]%Z [0; 1]); XB (INewTD [("a"%string, 0)]); XB (INewT [3; 4]%Z [0; 1]); XB (INewTD [("a"%string, 2)]);
                  XMkLazy [1; 3] 4 [[0; 1]; [2; 3]]].
Definition lazy_members_leaves (s : xst) (li : nat) : list view :=
  match xlz s li with
  | Some L => flat_map (fun m => match leaves_of (hp (xb s)) (RNode m) with Some ls => map snd ls | None => [] end) (lmem L)
  | None => []
  end.

Lemma d73_witness :
  let s' := fst (xstep d73_state (XLazyFlatten 0 ".")) in
  xclassify (XLazyFlatten 0 ".") = XCView /\ snd (xstep d73_state (XLazyFlatten 0 ".")) = Done /\
  map vsid (lazy_members_leaves s' 0) = [0; 1] /\ map vsid (lazy_members_leaves s' 1) = [2; 2].
Proof. vm_compute. repeat split. Qed.

(* ------------------------------------------------------------------ conversions *)
(* memmap_ keeps every node identity (it rebinds leaves inside the same nodes) *)
Lemma set_node_len : forall h n nd, List.length (hnodes (set_node h n nd)) = List.length (hnodes h).
Proof. intros. cbn. apply upd_nth_length. Qed.

Lemma memmap_ents_len : forall (rec : heap -> ref -> option heap),
  (forall h r h', rec h r = Some h' -> List.length (hnodes h') = List.length (hnodes h)) ->
  forall n ks h h', memmap_ents rec h n ks = Some h' -> List.length (hnodes h') = List.length (hnodes h).
Proof.
  intros rec Hrec n. induction ks as [|k t IH]; intros h h' H; cbn [memmap_ents] in H.
  - inversion H; subst. reflexivity.
  - destruct (get_node h n) as [nd|]; [|discriminate].
    destruct (ents_get (nents nd) k) as [[v|m]|]; [| |discriminate].
    + destruct (fresh_leaf h (read h v)) as [h1 v1] eqn:E.
      pose proof (fresh_leaf_ext h (read h v)) as [_ N1]. rewrite E in N1. cbn [fst] in N1.
      apply IH in H. rewrite H, set_node_len, N1. reflexivity.
    + destruct (rec h (RNode m)) as [h1|] eqn:E; [|discriminate].
      apply IH in H. rewrite H. eapply Hrec; eauto.
Qed.

Lemma memmap_tree_len : forall fuel h r h', memmap_tree fuel h r = Some h' -> List.length (hnodes h') = List.length (hnodes h).
Proof.
  induction fuel as [|f IH]; intros h r h' H; [discriminate|]. cbn [memmap_tree] in H.
  destruct r as [v|n]; [inversion H; subst; reflexivity|].
  destruct (get_node h n) as [nd|]; [|discriminate].
  destruct (memmap_ents (memmap_tree f) h n (map fst (nents nd))) as [h1|] eqn:E; [|discriminate].
  destruct (get_node h1 n) as [nd1|]; [|discriminate]. inversion H; subst.
  rewrite set_node_len. eapply memmap_ents_len; eauto.
Qed.

Theorem conversion_rebinds_only : forall s r,
  let s' := fst (xstep s (XMemmap r)) in
  stor_ext (hp (xb s)) (hp (xb s')) /\ List.length (hnodes (hp (xb s'))) = List.length (hnodes (hp (xb s))) /\ xhandles_same s s'.
Proof.
  intros s r. split; [apply xstep_pure; reflexivity|].
  unfold xstep, reg. cbv zeta.
  destruct (nth_error (regs (xb s)) r) as [d|]; [|split; [reflexivity|repeat split]].
  destruct (memmap_tree (fuel_of (hp (xb s))) (hp (xb s)) d) as [h1|] eqn:E; [|split; [reflexivity|repeat split]].
  cbn. split; [eapply memmap_tree_len; eauto|repeat split].
Qed.

(* the sharing statement flatten_keys is documented with, on a stack: refuted (D73) *)
Definition lazy_flatten_shares_statement : Prop :=
  forall s li sep s', xstep s (XLazyFlatten li sep) = (s', Done) ->
    incl (map vsid (lazy_members_leaves s' (List.length (xlazy s)))) (map vsid (lazy_members_leaves s li)).

Lemma lazy_flatten_shares_refuted : ~ lazy_flatten_shares_statement.
Proof.
  intro H.
  specialize (H d73_state 0 "."%string (fst (xstep d73_state (XLazyFlatten 0 "."))) ).
  assert (E : xstep d73_state (XLazyFlatten 0 ".") = (fst (xstep d73_state (XLazyFlatten 0 ".")), Done))
    by (vm_compute; reflexivity).
  specialize (H E 2). vm_compute in H. destruct H as [X|[X|[]]]; [left; reflexivity|discriminate|discriminate].
Qed.

(* ------------------------------------------------------------------ non-vacuity material *)
(* source {a: [1..6] seen through cells 0,2,4 ; n: {c: [7,8,9]}}, a basic window [1:3] of 3 batch positions, a value [50,60] *)
Definition exw_state : xst :=
  xrun empty_xst [XB (INewT [1; 2; 3; 4; 5; 6]%Z [0; 2; 4]); XB (INewT [7; 8; 9]%Z [0; 1; 2]); XB (INewTD [("c"%string, 1)]);
                  XB (INewTD [("a"%string, 0); ("n"%string, 2)]); XMkSub 3 (mkWin 3 [1; 2] true);
                  XB (INewT [50; 60]%Z [0; 1])].

(* a stack of one member {a: [1,2,3]} with the stack dim in front *)
Definition one_member_state : xst :=
  xrun empty_xst [XB (INewT [1; 2; 3]%Z [0; 1; 2]); XB (INewTD [("a"%string, 0)]); XMkLazy [1] 3 [[0; 1; 2]]].
