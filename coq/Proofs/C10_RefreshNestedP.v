(* C10 — memmap_refresh_ / load_memmap_ of a second mapping after make_memmap* calls through the first one.  Lemmas. *)
From Coq Require Import ZArith List String Bool Lia.
Import ListNotations.
From TD Require Import Model.C10_Meta Model.C10_Refresh Proofs.C10_MetaP Proofs.C10_GrowP Proofs.C10_RefreshP Proofs.C10_GrowNestedP.
Open Scope string_scope.
Open Scope list_scope.

Definition subf_of := fix go (l : list (string * dir)) : list (string * ((td -> res td) * res td)) :=
  match l with [] => [] | (k, x) :: r => (k, (load_into x, decode x)) :: go r end.

(* the loop of TensorDict._load_memmap(out=...) over the sub-directories *)
Definition into_subs (bs : list nat) (paths : list string) :=
  fix go (l : list (string * ((td -> res td) * res td))) (acc : list (string * td)) : res (list (string * td)) :=
    match l with
    | [] => Ok acc
    | (k, (into, alone)) :: r =>
        if existsb (String.eqb k) paths then
          match sget k acc with
          | Some (Leaf _) => Raised EOther
          | Some e => bind (into e) (fun e' => go r (jset k e' acc))
          | None => bind alone (fun e' => go r (jset k (adopt bs e') acc))
          end
        else go r acc
    end.

Lemma load_into_node : forall files subs m bs ents,
  fget FMeta files = Some (CJson (JObj m)) -> sget "_type" m = Some (JStr "TensorDict") ->
  load_into (Dir files subs) (Node bs ents)
  = bind (load_records files m) (fun lp =>
    bind (into_subs bs (snd lp) (subf_of subs) (upd_fields (fst lp) ents)) (fun ents' => Ok (Node bs ents'))).
Proof.
  intros files subs m bs ents H H0. cbn [load_into]. rewrite H. cbv zeta. rewrite H0.
  cbn [String.eqb Ascii.eqb Bool.eqb]. reflexivity.
Qed.

Lemma sget_jset : forall {A} k k' (v : A) l, sget k (jset k' v l) = if String.eqb k k' then Some v else sget k l.
Proof.
  intros A k k' v l. induction l as [|[k2 x] l IH]; cbn [jset sget].
  - destruct (String.eqb k k'); reflexivity.
  - destruct (String.eqb k' k2) eqn:E1; cbn [sget].
    + apply String.eqb_eq in E1; subst k2. destruct (String.eqb k k'); reflexivity.
    + rewrite IH. destruct (String.eqb k k2) eqn:E2; [|reflexivity]. destruct (String.eqb k k') eqn:E3; [|reflexivity].
      apply String.eqb_eq in E2, E3; subst. rewrite String.eqb_refl in E1; discriminate.
Qed.

Lemma upd_fields_cons : forall {A} k (v : A) l acc, upd_fields ((k, v) :: l) acc = upd_fields l (jset k v acc).
Proof. reflexivity. Qed.

Lemma sget_upd_fields : forall {A} (l acc : list (string * A)) k, NoDup (map fst l) ->
  sget k (upd_fields l acc) = match sget k l with Some v => Some v | None => sget k acc end.
Proof.
  intros A l. induction l as [|[k1 v1] l IH]; intros acc k Hnd; [reflexivity|].
  inversion Hnd; subst. rewrite upd_fields_cons, IH by assumption. cbn [sget]. rewrite sget_jset.
  destruct (String.eqb k k1) eqn:E; [|reflexivity].
  apply String.eqb_eq in E; subst k1. apply sget_none_notin in H1. now rewrite H1.
Qed.

Lemma sget_some_in : forall {A} k (l : list (string * A)) v, sget k l = Some v -> In k (map fst l).
Proof.
  intros A k l v. induction l as [|[k' x] l IH]; [discriminate|]. cbn [sget map fst].
  destruct (String.eqb k k') eqn:E; [apply String.eqb_eq in E; subst; now left|right; auto].
Qed.

Lemma nodup_jset : forall {A} k (v : A) l, NoDup (map fst l) -> NoDup (map fst (jset k v l)).
Proof.
  intros A k v l H. destruct (sget k l) eqn:E.
  - now rewrite (map_fst_jset_some k v a l E).
  - rewrite (jset_fresh k v l E), map_app. apply NoDup_snoc; auto. now apply sget_none_notin.
Qed.
Lemma nodup_upd_fields : forall {A} (l acc : list (string * A)), NoDup (map fst acc) -> NoDup (map fst (upd_fields l acc)).
Proof. intros A l. induction l as [|[k v] l IH]; intros acc H; [exact H|]. rewrite upd_fields_cons. apply IH. now apply nodup_jset. Qed.

Lemma sget_filter : forall {A} (f : string * A -> bool) l k, NoDup (map fst l) ->
  sget k (filter f l) = match sget k l with Some v => if f (k, v) then Some v else None | None => None end.
Proof.
  intros A f l k. induction l as [|[k' x] l IH]; intro Hnd; [reflexivity|]. inversion Hnd; subst.
  cbn [filter sget]. destruct (String.eqb k k') eqn:E.
  - apply String.eqb_eq in E; subst k'. destruct (f (k, x)); cbn [sget]; [now rewrite String.eqb_refl|].
    apply sget_filter_none. now apply sget_none_notin.
  - destruct (f (k', x)); cbn [sget]; [rewrite E|]; auto.
Qed.

Lemma F2_sget : forall {A B} (Q : A -> B -> Prop) (l : list (string * A)) (l' : list (string * B)) k,
  Forall2 (fun kv kv' => fst kv = fst kv' /\ Q (snd kv) (snd kv')) l l' ->
  match sget k l, sget k l' with Some a, Some b => Q a b | None, None => True | _, _ => False end.
Proof.
  intros A B Q l l' k F. induction F as [|[k1 a] [k2 b] l l' [Hk HQ] _ IH]; [exact I|]. cbn [fst snd] in *. subst k2.
  cbn [sget]. destruct (String.eqb k k1); auto.
Qed.

Lemma F2_keys : forall {A B} (Q : A -> B -> Prop) (l : list (string * A)) (l' : list (string * B)),
  Forall2 (fun kv kv' => fst kv = fst kv' /\ Q (snd kv) (snd kv')) l l' -> map fst l = map fst l'.
Proof. intros A B Q l l' F. induction F as [|[k1 a] [k2 b] l l' [Hk HQ] _ IH]; [reflexivity|]. cbn in *. now rewrite Hk, IH. Qed.

Lemma same_keys_length : forall {A B} (l : list (string * A)) (l' : list (string * B)),
  NoDup (map fst l) -> NoDup (map fst l') -> (forall k, sget k l = None <-> sget k l' = None) -> List.length l = List.length l'.
Proof.
  intros A B l l' H H' Hk. rewrite <- (map_length fst l), <- (map_length fst l').
  apply Nat.le_antisymm; apply NoDup_incl_length; auto; intros k Hin.
  - destruct (sget k l') eqn:E; [eapply sget_some_in; eauto|]. apply Hk in E. apply sget_none_notin in E. contradiction.
  - destruct (sget k l) eqn:E; [eapply sget_some_in; eauto|]. apply Hk in E. apply sget_none_notin in E. contradiction.
Qed.

Lemma same_mapping_norm_leaf : forall c, is_leaf c = true -> same_mapping (norm c) (norm c).
Proof. intros c H. destruct c; try discriminate. cbn. constructor; reflexivity. Qed.

Definition leafp (kv : string * td) : bool := is_leaf (snd kv).

(* the entries after the refresh, as a mapping *)
Lemma sm_node : forall bs N E' nl,
  NoDup (map fst E') -> NoDup (map fst N) -> (forall k, In k (map fst N) -> In k (map fst E')) ->
  Forall2 (fun kv kv' => fst kv = fst kv' /\ same_mapping (snd kv') (norm (snd kv))) (filter nonleaf E') nl ->
  same_mapping (Node bs (upd_fields nl (upd_fields (filter leafp (norm_ents E')) N))) (norm (Node bs E')).
Proof.
  intros bs N E' nl Hnd HndN Hsub F2.
  set (lv := filter leafp (norm_ents E')). set (R := upd_fields nl (upd_fields lv N)).
  assert (HndE : NoDup (map fst (norm_ents E'))) by now rewrite map_fst_norm_ents.
  assert (Hndl : NoDup (map fst lv)) by (apply nodup_fst_filter; exact HndE).
  assert (Hndn : NoDup (map fst nl)).
  { rewrite <- (F2_keys (fun a b => same_mapping b (norm a)) _ _ F2). now apply nodup_fst_filter. }
  assert (HR : forall k, sget k R = match sget k nl with Some v => Some v | None =>
                                    match sget k lv with Some v => Some v | None => sget k N end end).
  { intro k. unfold R. rewrite sget_upd_fields by exact Hndn. now rewrite sget_upd_fields by exact Hndl. }
  assert (HC : forall k, match sget k E' with
                         | None => sget k R = None
                         | Some c => exists v, sget k R = Some v /\ same_mapping v (norm c) end).
  { intro k. rewrite HR. pose proof (F2_sget (fun a b => same_mapping b (norm a)) _ _ k F2) as Hq. rewrite (sget_filter nonleaf E' k Hnd) in Hq.
    unfold lv. rewrite (sget_filter leafp _ k HndE), sget_norm_ents.
    destruct (sget k E') as [c|] eqn:Ec; cbn [option_map].
    - unfold nonleaf, leafp in *. cbn [snd] in *. destruct (is_leaf c) eqn:El; cbn [negb] in Hq.
      + destruct (sget k nl); [contradiction|].
        assert (is_leaf (norm c) = true) by (destruct c; try discriminate; reflexivity). rewrite H.
        eexists. split; [reflexivity|]. now apply same_mapping_norm_leaf.
      + destruct (sget k nl) as [v|]; [|contradiction]. eauto.
    - destruct (sget k nl); [contradiction|].
      destruct (sget k N) eqn:En; [|reflexivity].
      apply sget_some_in in En. apply Hsub in En. apply sget_none_notin in Ec. contradiction. }
  assert (HN : forall k, sget k (filter (fun kv => is_leaf (snd kv)) (norm_ents E') ++ filter (fun kv => negb (is_leaf (snd kv))) (norm_ents E'))
                         = option_map norm (sget k E')).
  { intro k. rewrite (sget_partition (fun kv : string * td => is_leaf (snd kv)) (norm_ents E') k HndE). apply sget_norm_ents. }
  rewrite norm_node. fold R. apply SMNode.
  - intro k. rewrite HN. specialize (HC k). destruct (sget k E'); cbn [option_map].
    + destruct HC as (v & Hv & _). rewrite Hv. split; discriminate.
    + rewrite HC. tauto.
  - intros k a b Ha Hb. rewrite HN in Hb. specialize (HC k). destruct (sget k E'); cbn [option_map] in Hb; [|discriminate].
    destruct HC as (v & Hv & Hs). rewrite Hv in Ha. inversion Ha; inversion Hb; subst. exact Hs.
  - rewrite length_partition.
    transitivity (List.length E').
    + apply same_keys_length; auto.
      { unfold R. apply nodup_upd_fields, nodup_upd_fields. exact HndN. }
      intro k. specialize (HC k). destruct (sget k E').
      * destruct HC as (v & Hv & _). rewrite Hv. split; discriminate.
      * rewrite HC. tauto.
    + rewrite <- (map_length fst (norm_ents E')), map_fst_norm_ents, map_length. reflexivity.
Qed.

Lemma F2_transport : forall {A B} (R R' : A -> B -> Prop) l l',
  (forall a b, In a l -> R a b -> R' a b) -> Forall2 R l l' -> Forall2 R' l l'.
Proof.
  intros A B R R' l l' H F. induction F as [|a b l l' Hab _ IH]; constructor.
  - apply H; [now left|exact Hab].
  - apply IH. intros a0 b0 Hin. apply H. now right.
Qed.

Lemma sget_in : forall {A} k (l : list (string * A)) v, sget k l = Some v -> exists k', In (k', v) l.
Proof.
  intros A k l v. induction l as [|[k' x] l IH]; [discriminate|]. cbn [sget].
  destruct (String.eqb k k'); [intro H; inversion H; subst; exists k'; now left|].
  intro H. destruct (IH H) as [k2 Hk]. exists k2. now right.
Qed.

Lemma same_mapping_refl : forall t, same_mapping t t.
Proof.
  induction t using td_ind'.
  - constructor; reflexivity.
  - apply SMNode; [tauto| |reflexivity]. intros k a b Ha Hb. rewrite Ha in Hb. inversion Hb; subst.
    destruct (sget_in _ _ _ Ha) as [k' Hin]. rewrite Forall_forall in H. exact (H (k', b) Hin).
  - constructor. induction H; constructor; auto.
  - constructor; auto.
  - constructor.
  - constructor. induction H; constructor; auto.
Qed.

(* what one step of the loop needs for the sub-directory (k, x), given the entries so far *)
Definition step_ok (bs : list nat) (paths : list string) (acc : list (string * td)) (kv : string * td) (kd : string * dir) : Prop :=
  fst kv = fst kd /\ In (fst kv) paths /\
  match sget (fst kv) acc with
  | Some (Leaf _) => False
  | Some e => load_into (snd kd) e = Ok (snd kv)
  | None => exists e', decode (snd kd) = Ok e' /\ adopt bs e' = snd kv
  end.

Lemma into_subs_spec : forall bs paths nl sl acc,
  NoDup (map fst nl) -> Forall2 (step_ok bs paths acc) nl sl ->
  into_subs bs paths (subf_of sl) acc = Ok (upd_fields nl acc).
Proof.
  intros bs paths nl. induction nl as [|[k v] nl IH]; intros sl acc Hnd F.
  - inversion F; subst. reflexivity.
  - inversion F as [|? [k' x] ? sl' (Hk & Hp & Hs) F']; subst. cbn [fst snd] in *. subst k'.
    inversion Hnd; subst.
    cbn [subf_of into_subs].
    assert (Hex : existsb (String.eqb k) paths = true).
    { apply existsb_exists. exists k. split; [exact Hp|apply String.eqb_refl]. }
    rewrite Hex. rewrite upd_fields_cons.
    assert (Htail : Forall2 (step_ok bs paths (jset k v acc)) nl sl').
    { eapply F2_transport; [|exact F']. intros [k2 v2] [k3 x3] Hin (A & B & C). cbn [fst snd] in *.
      unfold step_ok. cbn [fst snd]. split; [exact A|]. split; [exact B|]. rewrite sget_jset.
      destruct (String.eqb k2 k) eqn:E; [|exact C].
      exfalso. apply H1. apply String.eqb_eq in E. rewrite <- E. apply in_map_iff. exists (k2, v2). split; [reflexivity|exact Hin]. }
    destruct (sget k acc) as [e|] eqn:Ee.
    + destruct e; try contradiction; rewrite Hs; cbn [bind]; fold (subf_of sl'); apply IH; auto.
    + destruct Hs as (e' & Hd & Ha). rewrite Hd. cbn [bind]. rewrite Ha. fold (subf_of sl'). apply IH; auto.
Qed.

Lemma load_records_meta : forall o bs e1 e2 files,
  keys_ok (e1 ++ e2) -> Forall (entry_okw o) (e1 ++ e2) ->
  (forall k l, In (k, Leaf l) (e1 ++ e2) -> leaf_file_spec files k l) ->
  load_records files (recs e1 ++ tail3 bs ++ recs e2)
  = Ok (filter leafp (norm_ents (e1 ++ e2)), map fst (filter nonleaf (e1 ++ e2))).
Proof.
  intros o bs e1 e2 files [Hnd Hres] Hok Hf.
  assert (Hnd12 : NoDup (map fst e1) /\ NoDup (map fst e2)). { rewrite map_app in Hnd. now apply NoDup_app_parts. }
  destruct Hnd12 as [Hnd1 Hnd2].
  rewrite (load_records_app_w o e1 files); auto.
  2:{ now apply Forall_app_l in Hok. }
  2:{ intros k l Hin. apply Hf, in_or_app. now left. }
  unfold tail3, jshape. cbn [List.app]. rewrite !load_records_cons. cbn [load_record]. cbv beta iota. cbn [bind].
  rewrite <- (app_nil_r (recs e2)).
  rewrite (load_records_app_w o e2 files); auto.
  2:{ now apply Forall_app_r in Hok. }
  2:{ intros k l Hin. apply Hf, in_or_app. now right. }
  cbn [load_records bind fst snd]. rewrite !app_nil_r.
  rewrite norm_ents_app, !filter_app, map_app. reflexivity.
Qed.

(* what the refresh of the existing entry (or the fresh load) of one sub-directory gives *)
Definition sub_refreshes (E : list (string * td)) (kv : string * td) (kd : string * dir) : Prop :=
  fst kv = fst kd /\
  match sget (fst kv) E with
  | Some c => exists r, load_into (snd kd) (norm c) = Ok r /\ same_mapping r (norm (snd kv))
  | None => loads_as (snd kv) (snd kd)
  end.

Lemma build_nl : forall bs E acc paths l sl,
  (forall k, In k (map fst l) -> sget k acc = option_map norm (sget k E) /\ In k paths) ->
  (forall k c c', In (k, c') l -> sget k E = Some c -> is_leaf c = false) ->
  Forall (fun kv => is_leaf (snd kv) = false /\ bs_ok bs kv) l ->
  Forall2 (sub_refreshes E) l sl ->
  exists nl, Forall2 (step_ok bs paths acc) nl sl
             /\ Forall2 (fun kv kv' => fst kv = fst kv' /\ same_mapping (snd kv') (norm (snd kv))) l nl.
Proof.
  intros bs E acc paths l sl Hacc Hleaf Hall F. induction F as [|[k c'] [k' x] l sl (Hk & Hs) F' IH].
  - exists []. split; constructor.
  - cbn [fst snd] in *. subst k'. inversion Hall as [|? ? (Hc' & Hb) Hall']; subst. cbn [snd] in *.
    destruct IH as (nl & A & B); auto.
    { intros k0 Hin. apply Hacc. now right. }
    { intros k0 c0 c0' Hin. apply (Hleaf k0 c0 c0'). now right. }
    destruct (Hacc k (or_introl eq_refl)) as [Hak Hpk].
    destruct (sget k E) as [c|] eqn:Ec.
    + destruct Hs as (r & Hr & Hsm). exists ((k, r) :: nl). split; [constructor; [|exact A]|constructor; [|exact B]].
      * unfold step_ok. cbn [fst snd]. split; [reflexivity|]. split; [exact Hpk|]. rewrite Hak. cbn [option_map].
        assert (Hc : is_leaf c = false) by (apply (Hleaf k c c'); [now left|exact Ec]).
        destruct c; try discriminate; exact Hr.
      * split; auto.
    + exists ((k, norm c') :: nl). split; [constructor; [|exact A]|constructor; [|exact B]].
      * unfold step_ok. cbn [fst snd]. split; [reflexivity|]. split; [exact Hpk|]. rewrite Hak. cbn [option_map].
        exists (norm c'). split; [exact Hs|]. apply adopt_norm; auto.
      * split; [reflexivity|]. cbn [snd]. apply same_mapping_refl.
Qed.

Lemma NoDup_app_intro : forall {A} (a b : list A), NoDup a -> NoDup b -> (forall x, In x a -> ~ In x b) -> NoDup (a ++ b).
Proof.
  intros A a b Ha Hb Hd. induction Ha as [|x a Hx Ha IH]; cbn; [exact Hb|].
  constructor.
  - intro Hin. apply in_app_or in Hin as [Hin|Hin]; [now apply Hx|]. apply (Hd x); [now left|exact Hin].
  - apply IH. intros y Hy. apply Hd. now right.
Qed.

Lemma nodup_partition : forall {A} (f : string * A -> bool) l, NoDup (map fst l) ->
  NoDup (map fst (filter f l ++ filter (fun kv => negb (f kv)) l)).
Proof.
  intros A f l H. rewrite map_app. apply NoDup_app_intro; try (now apply nodup_fst_filter).
  intros k Hin Hin'. apply (filter_disjoint_keys f l k H) in Hin'. apply sget_none_notin in Hin'. contradiction.
Qed.

Lemma in_sget : forall {A} k (v : A) l, NoDup (map fst l) -> In (k, v) l -> sget k l = Some v.
Proof.
  intros A k v l. induction l as [|[k' x] l IH]; intros Hnd Hin; [destruct Hin|]. inversion Hnd; subst. cbn [sget].
  destruct Hin as [Hin|Hin].
  - inversion Hin; subst. now rewrite String.eqb_refl.
  - destruct (String.eqb k k') eqn:E; [|auto]. apply String.eqb_eq in E; subst k'. exfalso. apply H1.
    apply in_map_iff. exists (k, v). auto.
Qed.

(* the refresh of a TensorDict node: [Node bs E] (as loaded earlier) refreshed from a directory that describes
   [Node bs (e1 ++ e2)] — every key of E still there, with the same kind — gives the described node, as a mapping *)
Lemma refresh_node : forall o bs E e1 e2 files sl,
  keys_ok (e1 ++ e2) -> Forall (entry_okw o) (e1 ++ e2) -> Forall (bs_ok bs) (e1 ++ e2) ->
  fget FMeta files = Some (CJson (JObj (recs e1 ++ tail3 bs ++ recs e2))) ->
  (forall k l, In (k, Leaf l) (e1 ++ e2) -> leaf_file_spec files k l) ->
  NoDup (map fst E) -> (forall k, In k (map fst E) -> In k (map fst (e1 ++ e2))) ->
  (forall k c c', sget k E = Some c -> sget k (e1 ++ e2) = Some c' -> is_leaf c' = false -> is_leaf c = false) ->
  Forall2 (sub_refreshes E) (filter nonleaf (e1 ++ e2)) sl ->
  exists r, load_into (Dir files sl) (norm (Node bs E)) = Ok r /\ same_mapping r (norm (Node bs (e1 ++ e2))).
Proof.
  intros o bs E e1 e2 files sl Hkeys Hok Hbs Hm Hf HndE Hsub Hkind F.
  set (E' := e1 ++ e2) in *.
  assert (Hkeys' := Hkeys). destruct Hkeys' as [Hnd Hres].
  rewrite (norm_node bs E).
  set (N := filter (fun kv => is_leaf (snd kv)) (norm_ents E) ++ filter (fun kv => negb (is_leaf (snd kv))) (norm_ents E)).
  assert (HndNE : NoDup (map fst (norm_ents E))) by now rewrite map_fst_norm_ents.
  assert (HsN : forall k, sget k N = option_map norm (sget k E)).
  { intro k. unfold N. rewrite (sget_partition (fun kv : string * td => is_leaf (snd kv)) (norm_ents E) k HndNE). apply sget_norm_ents. }
  assert (HndN : NoDup (map fst N)).
  { unfold N. apply nodup_partition. exact HndNE. }
  rewrite (load_into_node files sl _ bs N Hm).
  2:{ rewrite sget_app_none by (apply sget_recs_reserved; [now apply Forall_app_l in Hres|reflexivity]). reflexivity. }
  unfold E' in *. rewrite (load_records_meta o bs e1 e2 files Hkeys Hok Hf). cbn [bind fst snd]. fold E'.
  set (lv := filter leafp (norm_ents E')). set (acc := upd_fields lv N).
  assert (HndE' : NoDup (map fst (norm_ents E'))) by now rewrite map_fst_norm_ents.
  destruct (build_nl bs E acc (map fst (filter nonleaf E')) (filter nonleaf E') sl) as (nl & A & B); auto.
  { intros k Hin. split; [|exact Hin]. unfold acc. rewrite sget_upd_fields by (apply nodup_fst_filter; exact HndE').
    unfold lv. rewrite (sget_filter leafp _ k HndE'), sget_norm_ents.
    apply in_map_iff in Hin as ([k2 c2] & Ek & Hin). cbn [fst] in Ek. subst k2. apply filter_In in Hin as [Hin Hnl].
    assert (Ec : sget k E' = Some c2) by (now apply in_sget).
    rewrite Ec. cbn [option_map]. unfold leafp, nonleaf in *. cbn [snd] in *.
    assert (is_leaf (norm c2) = false) by (destruct c2; try discriminate; reflexivity). rewrite H. apply HsN. }
  { intros k c c' Hin Ec. apply filter_In in Hin as [Hin Hnl]. unfold nonleaf in Hnl. cbn [snd] in Hnl.
    apply (Hkind k c c' Ec); [now apply in_sget|]. now apply negb_true_iff in Hnl. }
  { apply Forall_forall. intros [k c] Hin. apply filter_In in Hin as [Hin Hnl]. unfold nonleaf in Hnl. cbn [snd] in *.
    split; [now apply negb_true_iff in Hnl|]. rewrite Forall_forall in Hbs. exact (Hbs (k, c) Hin). }
  rewrite (into_subs_spec bs _ nl sl acc); auto.
  2:{ rewrite <- (F2_keys (fun a b => same_mapping b (norm a)) _ _ B). now apply nodup_fst_filter. }
  cbn [bind]. eexists. split; [reflexivity|]. unfold acc, lv. apply sm_node; auto.
  intros k Hin. apply Hsub. destruct (sget k E) eqn:Ek; [eapply sget_some_in; eauto|].
  exfalso. specialize (HsN k). rewrite Ek in HsN. cbn [option_map] in HsN. apply sget_none_notin in HsN. contradiction.
Qed.

Lemma F2k_set : forall (P : string -> td -> dir -> Prop) es sl k c c' dc',
  Forall2 (fun kv kd => fst kv = fst kd /\ P (fst kv) (snd kv) (snd kd)) (filter nonleaf es) sl ->
  sget k es = Some c -> is_leaf c = false -> is_leaf c' = false -> P k c' dc' ->
  Forall2 (fun kv kd => fst kv = fst kd /\ P (fst kv) (snd kv) (snd kd)) (filter nonleaf (jset k c' es)) (jset k dc' sl).
Proof.
  intros P es. induction es as [|[k' x] es IH]; intros sl k c c' dc' F2 Hg Hc Hc' Hp; [discriminate|].
  cbn [sget] in Hg. cbn [filter] in F2. unfold nonleaf at 1 in F2. cbn [snd] in F2. cbn [jset].
  destruct (String.eqb k k') eqn:E.
  - inversion Hg; subst x. rewrite Hc in F2. cbn [negb] in F2.
    inversion F2 as [|? [k2 d] ? sl' [Hk Hp0] F2']; subst. cbn [fst snd] in *. subst k2.
    cbn [filter]. unfold nonleaf at 1. cbn [snd]. rewrite Hc'. cbn [negb jset]. rewrite E.
    constructor; auto. cbn [fst snd]. split; auto. apply String.eqb_eq in E. now rewrite <- E.
  - cbn [filter]. unfold nonleaf at 1. cbn [snd]. destruct (is_leaf x); cbn [negb] in F2 |- *.
    + eauto.
    + inversion F2 as [|? [k2 d] ? sl' [Hk Hp0] F2']; subst. cbn [fst snd] in *. subst k2.
      cbn [jset]. rewrite E. constructor; [split; auto|eauto].
Qed.

(* a saved sub-collection refreshed from its own directory is itself, as a mapping *)
Definition stable (o : opts) (c : td) : Prop :=
  forall d, saved_ok o c d -> exists r, load_into d (norm c) = Ok r /\ same_mapping r (norm c).

Lemma stable_subs : forall o ents sl,
  NoDup (map fst ents) -> (forall k c, sget k ents = Some c -> is_leaf c = false -> stable o c) ->
  Forall2 (subs_rel (saved_ok o)) (filter nonleaf ents) sl ->
  Forall2 (sub_refreshes ents) (filter nonleaf ents) sl.
Proof.
  intros o ents sl Hnd Hst F. eapply F2_transport; [|exact F].
  intros [k c] [k' dk] Hin [Hk Hsv]. cbn [fst snd] in *. apply filter_In in Hin as [Hin Hnl].
  unfold nonleaf in Hnl. cbn [snd] in Hnl. apply negb_true_iff in Hnl.
  unfold sub_refreshes. cbn [fst snd]. split; [exact Hk|]. rewrite (in_sget k c ents Hnd Hin).
  apply (Hst k c); auto. now apply in_sget.
Qed.

Lemma stable_node : forall o bs ents, like o = false -> valid o (Node bs ents) = true ->
  (forall k c, sget k ents = Some c -> is_leaf c = false -> stable o c) -> stable o (Node bs ents).
Proof.
  intros o bs ents Hlike Hv Hst d [Hs _].
  destruct (encode_node_shape o bs ents d Hlike Hv Hs) as (Hkeys & Hok & Hbs & sl & Hd & F2). subst d.
  assert (Hkeys' := Hkeys). destruct Hkeys' as [Hnd Hrsv].
  destruct (refresh_node o bs ents ents [] (leaf_files ents ++ [(FMeta, CJson (JObj (recs ents ++ tail3 bs)))]) sl)
    as (r & Hr & Hsm); rewrite ?app_nil_r; auto.
  - now apply entry_ok_w.
  - rewrite fget_app_none by apply fget_meta_leaf_files. reflexivity.
  - intros k l Hin. apply leaf_file_spec_app. now apply fget_leaf_files_spec.
  - intros k c c' H1 H2. rewrite H1 in H2. inversion H2; subst. auto.
  - now apply (stable_subs o).
  - exists r. split; [exact Hr|]. rewrite app_nil_r in Hsm. exact Hsm.
Qed.

Lemma grow_leaf_files : forall ents k l c c', NoDup (map fst ents) -> sget k ents = None ->
  forall k1 l1, In (k1, Leaf l1) (ents ++ [(k, Leaf l)]) ->
  leaf_file_spec (fset FMeta c' (if Nat.eqb (numel (lshape l)) 0 then leaf_files ents ++ [(FMeta, c)]
                                 else fset (FLeaf k) (CCells (ldtype l) (lcells l)) (leaf_files ents ++ [(FMeta, c)]))) k1 l1.
Proof.
  intros ents k l c c' Hnd Hk k1 l1 Hin. apply leaf_file_spec_fset_meta.
  assert (Hkn : ~ In k (map fst ents)) by now apply sget_none_notin.
  assert (Hfk : fget (FLeaf k) (leaf_files ents ++ [(FMeta, c)]) = None).
  { rewrite fget_app_none by (now apply fget_leaf_files_none). reflexivity. }
  apply in_app_or in Hin as [Hin|[Hin|[]]].
  - assert (k1 <> k) by (intro; subst; apply Hkn; apply in_map_iff; exists (k, Leaf l1); auto).
    pose proof (leaf_file_spec_app _ _ _ c (fget_leaf_files_spec ents k1 l1 Hnd Hin)) as G.
    destruct (Nat.eqb (numel (lshape l)) 0); auto.
    rewrite fset_fresh by exact Hfk. now apply leaf_file_spec_app_other.
  - inversion Hin; subst k1 l1. unfold leaf_file_spec.
    destruct (Nat.eqb (numel (lshape l)) 0); auto.
    rewrite fget_fset. cbn. now rewrite String.eqb_refl.
Qed.

Section Grow.
  Variable o : opts.
  Variable G : td -> bool.
  Hypothesis G_sub : forall bs ents k c, G (Node bs ents) = true -> sget k ents = Some c -> G c = true.
  Hypothesis G_stable : forall c, G c = true -> valid o c = true -> is_leaf c = false -> stable o c.

  Lemma grow_refresh : forall ks k l bs ents d t' d',
    like o = false -> valid o (Node bs ents) = true -> G (Node bs ents) = true -> leaf_ok o l = true ->
    encode o (Node bs ents) = Ok d -> grow_at ks k l (Node bs ents) d = Ok (t', d') ->
    exists r, load_into d' (norm (Node bs ents)) = Ok r /\ same_mapping r (norm t').
  Proof.
    induction ks as [|k0 rest IH]; intros k l bs ents d t' d' Hlike Hv HG Hl Henc Hg;
      destruct (encode_node_shape o bs ents d Hlike Hv Henc) as (Hkeys & Hok & Hbs & sl & Hd & F2); subst d;
      assert (Hokw := entry_ok_w _ _ Hok);
      assert (Hkeys' := Hkeys); destruct Hkeys' as [Hnd Hrsv];
      assert (Hst : forall k1 c1, sget k1 ents = Some c1 -> is_leaf c1 = false -> stable o c1)
        by (intros k1 c1 H1 H2; apply G_stable; [eapply G_sub; eauto|eapply valid_sget; eauto|exact H2]);
      assert (Hfm : fget FMeta (leaf_files ents ++ [(FMeta, CJson (JObj (recs ents ++ tail3 bs)))])
                    = Some (CJson (JObj (recs ents ++ tail3 bs))))
        by (rewrite fget_app_none by apply fget_meta_leaf_files; reflexivity);
      assert (Hfl : forall k1 l1, In (k1, Leaf l1) ents ->
                    leaf_file_spec (leaf_files ents ++ [(FMeta, CJson (JObj (recs ents ++ tail3 bs)))]) k1 l1)
        by (intros k1 l1 Hin; apply leaf_file_spec_app; now apply fget_leaf_files_spec).
    - cbn [grow_at] in Hg. destruct (smem k ents) eqn:Hk; [discriminate|]. destruct (reserved k) eqn:Hr; [discriminate|].
      unfold load_meta in Hg. rewrite Hfm in Hg. cbn [bind] in Hg. inversion Hg; subst t' d'. clear Hg.
      assert (Hkf : sget k ents = None) by now apply smem_false_sget.
      rewrite (resave_meta_fresh bs ents k _ Hrsv Hr Hkf).
      apply (refresh_node o bs ents ents [(k, Leaf l)]); auto.
      + now apply keys_ok_snoc.
      + apply Forall_snoc; auto.
      + apply Forall_snoc; auto. exact I.
      + rewrite fget_fset_same. reflexivity.
      + apply grow_leaf_files; auto.
      + intros k1 Hin. rewrite map_app. apply in_or_app. now left.
      + intros k1 c c' H1 H2. rewrite (sget_app_some _ _ _ _ H1) in H2. inversion H2; subst. auto.
      + rewrite filter_app. cbn [filter nonleaf snd is_leaf negb]. rewrite app_nil_r. now apply (stable_subs o).
    - cbn [grow_at] in Hg.
      destruct (sget k0 ents) as [c|] eqn:Ec.
      + destruct c as [| bs0 ents0| | | |]; try discriminate.
        destruct (F2_get (saved_ok o) ents sl k0 (Node bs0 ents0) F2 Ec eq_refl) as (dc & Hdc & [Hsv Hld]).
        unfold sub_dir in Hg. rewrite Hdc in Hg.
        destruct (grow_at rest k l (Node bs0 ents0) dc) as [[t0' d0']|] eqn:Eg; cbn [bind] in Hg; [|discriminate].
        inversion Hg; subst t' d'. clear Hg. cbn [fst snd].
        assert (Hv0 : valid o (Node bs0 ents0) = true) by (eapply valid_sget; eauto).
        assert (HG0 : G (Node bs0 ents0) = true) by (eapply G_sub; eauto).
        destruct (IH k l bs0 ents0 dc t0' d0' Hlike Hv0 HG0 Hl Hsv Eg) as (r0 & Hr0 & Hsm0).
        destruct (grow_at_node _ _ _ _ _ _ _ _ Eg) as [ents0' ->].
        rewrite <- (app_nil_r (jset k0 (Node bs0 ents0') ents)).
        apply (refresh_node o bs ents (jset k0 (Node bs0 ents0') ents) []); rewrite ?app_nil_r; auto.
        * eapply keys_ok_jset; eauto.
        * apply Forall_jset; auto. intro. exact I.
        * apply Forall_jset; auto. intro. exact I.
        * rewrite (recs_jset k0 (Node bs0 ents0) (Node bs0 ents0') ents Ec eq_refl). exact Hfm.
        * intros k1 l1 Hin. apply in_jset in Hin as [Hin|Hin]; [auto|discriminate].
        * intros k1 Hin. now rewrite (map_fst_jset_some k0 (Node bs0 ents0') _ ents Ec).
        * intros k1 c c' H1 H2. rewrite sget_jset in H2. destruct (String.eqb k1 k0) eqn:E.
          -- apply String.eqb_eq in E. subst k1. rewrite Ec in H1. inversion H1; subst. auto.
          -- rewrite H1 in H2. inversion H2; subst. auto.
        * pose proof (stable_subs o ents sl Hnd Hst F2) as S. unfold sub_refreshes in *.
          apply (F2k_set (fun key c' dk => match sget key ents with
                                           | Some c => exists r, load_into dk (norm c) = Ok r /\ same_mapping r (norm c')
                                           | None => loads_as c' dk end) ents sl k0 (Node bs0 ents0)); auto.
          rewrite Ec. eauto.
      + destruct (reserved k0) eqn:Er0; [discriminate|].
        assert (Hs0 : sget k0 sl = None) by (eapply F2_keys_none; eauto).
        unfold sub_dir in Hg. rewrite Hs0 in Hg.
        change (save_over default_opts (Node bs []) empty_dir) with (encode default_opts (Node bs [])) in Hg.
        rewrite encode_empty_node in Hg. cbn [bind] in Hg.
        unfold load_meta in Hg. rewrite Hfm in Hg. cbn [bind] in Hg.
        destruct (grow_at rest k l (Node bs []) (Dir [(FMeta, CJson (JObj (tail3 bs)))] [])) as [[t0' d0']|] eqn:Eg;
          cbn [bind] in Hg; [|discriminate].
        inversion Hg; subst t' d'. clear Hg. cbn [fst snd].
        assert (D0 := grow_decode rest o k l bs [] _ t0' d0' Hlike eq_refl Hl (encode_empty_node o bs) Eg).
        destruct (grow_at_node _ _ _ _ _ _ _ _ Eg) as [ents0' ->].
        rewrite (resave_meta_fresh bs ents k0 _ Hrsv Er0 Ec).
        rewrite (jset_fresh k0 d0' sl Hs0).
        apply (refresh_node o bs ents ents [(k0, Node bs ents0')]); auto.
        * now apply keys_ok_snoc.
        * apply Forall_snoc; auto. exact I.
        * apply Forall_snoc; auto. exact I.
        * rewrite fget_fset_same. reflexivity.
        * intros k1 l1 Hin. apply in_app_or in Hin as [Hin|[Hin|[]]]; [|discriminate].
          apply leaf_file_spec_fset_meta. auto.
        * intros k1 Hin. rewrite map_app. apply in_or_app. now left.
        * intros k1 c c' H1 H2. rewrite (sget_app_some _ _ _ _ H1) in H2. inversion H2; subst. auto.
        * rewrite filter_app. apply Forall2_app; [now apply (stable_subs o)|]. cbn. constructor; [|constructor].
          unfold sub_refreshes. cbn [fst snd]. split; [reflexivity|]. rewrite Ec. exact D0.
  Qed.
End Grow.

(* ------------------------------------------------------------------ instances *)
Lemma refresh_sees_gen : forall o (G : td -> bool),
  (forall bs ents k c, G (Node bs ents) = true -> sget k ents = Some c -> G c = true) ->
  (forall c, G c = true -> valid o c = true -> is_leaf c = false -> stable o c) ->
  forall t d ks k l t' d', valid_root o t = true -> G t = true -> leaf_ok o l = true ->
  encode o t = Ok d -> grow_at ks k l t d = Ok (t', d') ->
  exists r, refresh d d' = Ok r /\ same_mapping r (norm t').
Proof.
  intros o G G1 G3 t d ks k l t' d' Hv HG Hl He Hg.
  pose proof (decode_encode_lemma o t Hv) as Hd. rewrite He in Hd. cbn [bind] in Hd.
  unfold refresh. rewrite Hd. cbn [bind].
  unfold valid_root in Hv. apply andb_true_iff in Hv as [Hv _]. apply andb_true_iff in Hv as [Hv Hlike].
  apply negb_true_iff in Hlike.
  destruct t as [|bs ents| | | |]; try (destruct ks; cbn [grow_at] in Hg; discriminate).
  eapply (grow_refresh o G G1 G3); eauto.
Qed.

(* tensordicts whose sub-collections are all TensorDict nodes (tensors at any depth) *)
Fixpoint only_nodes (t : td) : bool :=
  match t with
  | Leaf _ => true
  | Node _ ents => (fix all (es : list (string * td)) : bool :=
                      match es with [] => true | (_, x) :: r => only_nodes x && all r end) ents
  | _ => false
  end.

Lemma only_nodes_sub : forall bs ents k c, only_nodes (Node bs ents) = true -> sget k ents = Some c -> only_nodes c = true.
Proof.
  intros bs ents k c. cbn [only_nodes]. induction ents as [|[k' x] ents IH]; [discriminate|].
  intro H. apply andb_true_iff in H as [Hx Hr]. cbn [sget]. destruct (String.eqb k k'); [intro E; inversion E; now subst|auto].
Qed.

Lemma stable_only_nodes : forall o, like o = false ->
  forall c, only_nodes c = true -> valid o c = true -> is_leaf c = false -> stable o c.
Proof.
  intros o Hlike. induction c using td_ind'; intros Hn Hv Hl; try discriminate.
  apply stable_node; auto. intros k c Hk Hc.
  destruct (sget_in _ _ _ Hk) as [k' Hin]. rewrite Forall_forall in H. apply (H (k', c) Hin); auto.
  - eapply only_nodes_sub; eauto.
  - eapply valid_sget; eauto.
Qed.

Lemma refresh_sees_make_memmap_nodes_lemma : forall o t d ks k l t' d',
  valid_root o t = true -> only_nodes t = true -> leaf_ok o l = true ->
  encode o t = Ok d -> grow_at ks k l t d = Ok (t', d') ->
  exists r, refresh d d' = Ok r /\ same_mapping r (norm t').
Proof.
  intros o t d ks k l t' d' Hv. assert (Hv' := Hv).
  unfold valid_root in Hv'. apply andb_true_iff in Hv' as [Hv' _]. apply andb_true_iff in Hv' as [_ Hlike].
  apply negb_true_iff in Hlike.
  apply (refresh_sees_gen o only_nodes only_nodes_sub (stable_only_nodes o Hlike)); auto.
Qed.

(* ------------------------------------------------------------------ the other kinds of sub-collection, refreshed from their own directory *)
Lemma stable_ndata : forall o bs p, stable o (NData bs p).
Proof.
  intros o bs p d [Hs _]. exists (NData bs p). split; [|apply same_mapping_refl].
  cbn [norm]. exact (refresh_ndata_lemma o bs p bs p d Hs).
Qed.

Lemma stable_nstack : forall o items, stable o (NStack items).
Proof.
  intros o items d [Hs _]. remember (norm (NStack items)) as out. exists out. split; [|apply same_mapping_refl].
  clear Heqout. unfold empty_dir in Hs. cbn [save_over] in Hs. unfold nstack_files in Hs.
  destruct (is_json_serializable (tolist (NStack items))).
  - destruct (json_of (tolist (NStack items))); [|discriminate].
    destruct (stack_ndim (NStack items)); cbn [bind fset List.app] in Hs; inversion Hs; subst d;
      cbn [load_into fget fname_eqb]; cbv zeta; cbn [sget String.eqb Ascii.eqb Bool.eqb]; reflexivity.
  - destruct (stack_ndim (NStack items)); cbn [bind fset fname_eqb List.app] in Hs; inversion Hs; subst d;
      cbn [load_into fget fname_eqb]; cbv zeta; cbn [sget String.eqb Ascii.eqb Bool.eqb]; reflexivity.
Qed.

Lemma sget_upd_same : forall {A} (l : list (string * A)) k, NoDup (map fst l) -> sget k (upd_fields l l) = sget k l.
Proof. intros A l k H. rewrite sget_upd_fields by exact H. destruct (sget k l); reflexivity. Qed.

Lemma stable_tc : forall o c nt inner, like o = false -> valid o (TCls c nt inner) = true ->
  stable o inner -> stable o (TCls c nt inner).
Proof.
  intros o c nt inner Hlike Hv IH d [Hs _].
  cbn [valid] in Hv. apply andb_true_iff in Hv as [Hv Hk]. apply andb_true_iff in Hv as [Hv Hty].
  apply andb_true_iff in Hv as [Hv Hnd]. apply andb_true_iff in Hv as [Hv Hcoll]. apply andb_true_iff in Hv as [Hc Hvi].
  apply negb_true_iff in Hc. apply negb_true_iff in Hty. apply nodupb_NoDup in Hnd.
  assert (Hty' : ~ In "_type" (map fst nt)).
  { apply sget_none_notin. unfold smem in Hty. destruct (sget "_type" nt); [discriminate|reflexivity]. }
  assert (Hli : is_leaf inner = false) by (destruct inner; try discriminate; reflexivity).
  destruct (saved_ok_all o inner Hlike Hvi Hli) as (di & Hsi & Hdi).
  destruct (IH di (conj Hsi Hdi)) as (ri & Hri & Hsmi).
  destruct (json_fields_ser nt) as (jl & J1 & J2).
  assert (Kjl : map fst jl = map fst (ser_fields nt)).
  { rewrite <- J2. rewrite map_map. cbn. reflexivity. }
  assert (Hmeta : tc_meta c jl = ("_type", JStr c) :: jl).
  { apply tc_meta_fresh; rewrite Kjl.
    - now apply nodup_fst_filter.
    - intro G. apply in_fst_filter in G. contradiction. }
  assert (Hnd2 : NoDup (map fst (ser_fields nt ++ pkl_fields nt))).
  { unfold ser_fields, pkl_fields. exact (nodup_partition (fun kv => is_json_serializable (snd kv)) nt Hnd). }
  unfold builtin_cls in Hc. apply orb_false_iff in Hc as [Hc H4]. apply orb_false_iff in Hc as [Hc H3].
  apply orb_false_iff in Hc as [H1 H2].
  unfold empty_dir in Hs. cbn [save_over] in Hs. unfold tc_files in Hs. rewrite J1 in Hs. cbn [bind] in Hs.
  change (sub_dir "_tensordict" []) with empty_dir in Hs. rewrite Hsi in Hs. cbn [bind jset fset] in Hs. rewrite Hmeta in Hs.
  cbn [norm].
  destruct (pkl_fields nt) as [|p0 pk] eqn:Epk.
  - cbn [fdel fname_eqb] in Hs. inversion Hs; subst d. clear Hs.
    cbn [load_into fget fname_eqb]. cbv zeta. cbn [sget]. rewrite String.eqb_refl. rewrite H1, H2, H4, H3.
    unfold loaded_fields. cbn [fget fname_eqb jdel]. rewrite String.eqb_refl. rewrite J2. cbn [bind].
    cbn [sget]. rewrite String.eqb_refl. rewrite Hri. cbn [bind].
    eexists. split; [reflexivity|]. constructor; [|exact Hsmi].
    intro k. rewrite app_nil_r in *. now apply sget_upd_same.
  - cbn [fname_eqb] in Hs. inversion Hs; subst d. clear Hs.
    cbn [load_into fget fname_eqb]. cbv zeta. cbn [sget]. rewrite String.eqb_refl. rewrite H1, H2, H4, H3.
    unfold loaded_fields. cbn [fget fname_eqb jdel]. rewrite String.eqb_refl. rewrite J2.
    unfold upd_fields at 1. rewrite fold_jset_fresh_gen.
    + cbn [bind]. cbn [sget]. rewrite String.eqb_refl. rewrite Hri. cbn [bind].
      eexists. split; [reflexivity|]. constructor; [|exact Hsmi].
      intro k. now apply sget_upd_same.
    + rewrite <- Epk. now apply nodup_fst_filter.
    + intros k Hkk. rewrite <- Epk in Hkk. unfold ser_fields. apply filter_disjoint_keys; auto.
Qed.

(* the loop of LazyStackedTensorDict._load_memmap(out=...) over the members *)
Definition lazy_go (subf : list (string * ((td -> res td) * res td))) :=
  fix go (fuel i : nat) (ms : list td) : res (list td) :=
    match fuel with
    | O => Ok ms
    | S f =>
        match sget (string_of_nat i) subf with
        | None => Ok ms
        | Some (into, _) =>
            match ms with
            | [] => Raised EOther
            | mi :: rest => bind (into mi) (fun mi' => bind (go f (S i) rest) (fun rest' => Ok (mi' :: rest')))
            end
        end
    end.

Lemma load_into_lazy : forall sd n subs ms,
  load_into (Dir [(FMeta, CJson (JObj (lazy_meta sd n)))] subs) (Lazy sd ms)
  = bind (lazy_go (subf_of subs) n 0 ms) (fun ms' => Ok (Lazy sd ms')).
Proof.
  intros sd n subs ms. cbn [load_into fget fname_eqb]. cbv zeta. unfold lazy_meta.
  cbn [sget String.eqb Ascii.eqb Bool.eqb]. cbv beta iota. rewrite jnat_of_jnat. reflexivity.
Qed.

Lemma sget_subf_of : forall subs k, sget k (subf_of subs) = option_map (fun x => (load_into x, decode x)) (sget k subs).
Proof. induction subs as [|[k' x] subs IH]; intro k; cbn; auto. destruct (String.eqb k k'); auto. Qed.

Lemma lazy_loop : forall sf ms dl i,
  (forall j dm, nth_error dl j = Some dm -> sget (string_of_nat (i + j)) sf = Some (load_into dm, decode dm)) ->
  Forall2 (fun m dm => exists r, load_into dm m = Ok r /\ same_mapping r m) ms dl ->
  exists rs, lazy_go sf (List.length ms) i ms = Ok rs /\ Forall2 same_mapping rs ms.
Proof.
  intros sf ms dl i H F. revert i H. induction F as [|m dm ms dl (r & Hr & Hsm) F IH]; intros i H.
  - exists []. split; [reflexivity|constructor].
  - cbn [List.length lazy_go]. pose proof (H 0 dm eq_refl) as H0. rewrite Nat.add_0_r in H0. rewrite H0.
    rewrite Hr. cbn [bind].
    destruct (IH (S i)) as (rs & Hrs & Fs).
    { intros j d Hj. specialize (H (S j) d Hj). now rewrite Nat.add_succ_r in H. }
    fold (lazy_go sf). rewrite Hrs. cbn [bind]. exists (r :: rs). split; [reflexivity|constructor; auto].
Qed.

Lemma stable_lazy : forall o sd ms, valid o (Lazy sd ms) = true -> like o = false ->
  Forall (fun m => valid o m = true -> is_leaf m = false -> stable o m) ms -> stable o (Lazy sd ms).
Proof.
  intros o sd ms Hv Hlike IH d [Hs _].
  rewrite valid_lazy in Hv. apply andb_true_iff in Hv as [Hne Hms].
  assert (Hok : Forall (fun m => (exists d, saved_ok o m d) /\ stable o m) ms).
  { clear Hne Hs. induction ms as [|m ms IHms]; [constructor|].
    change (valid_members o (m :: ms)) with (valid o m && is_collection m && valid_members o ms) in Hms.
    apply andb_true_iff in Hms as [Hm Hms]. apply andb_true_iff in Hm as [Hvm Hcm].
    inversion IH as [|? ? Hpm Hp]; subst.
    assert (is_leaf m = false) by (destruct m; try discriminate; reflexivity).
    constructor; [|apply IHms; auto]. split; [now apply saved_ok_all|auto]. }
  assert (Hok1 : Forall (fun m => exists d, saved_ok o m d) ms).
  { apply Forall_forall. intros m Hin. rewrite Forall_forall in Hok. exact (proj1 (Hok m Hin)). }
  destruct (save_members_spec o ms 0 [] (fun _ _ => eq_refl) Hok1) as (dl & E & F2).
  unfold empty_dir in Hs. rewrite save_over_lazy, E in Hs. cbn [bind List.app fset] in Hs. inversion Hs; subst d. clear Hs.
  rewrite norm_lazy, load_into_lazy.
  assert (F : Forall2 (fun m dm => exists r, load_into dm m = Ok r /\ same_mapping r m) (norm_list ms) dl).
  { clear E Hok1 Hms Hne IH. induction F2 as [|m dm ms dl Hsv F2 IHF]; [constructor|].
    inversion Hok as [|? ? [_ Hst] Hok']; subst. cbn [norm_list]. constructor; auto. }
  destruct (lazy_loop (subf_of (idx 0 dl)) (norm_list ms) dl 0) as (rs & Hrs & Fs); auto.
  { intros j dm Hj. rewrite sget_subf_of. cbn [Nat.add]. pose proof (sget_idx_nth dl 0 j dm Hj) as G. cbn [Nat.add] in G.
    rewrite G. reflexivity. }
  rewrite length_norm_list in Hrs. rewrite Hrs. cbn [bind]. eexists. split; [reflexivity|]. now constructor.
Qed.

(* every valid sub-collection, of any kind and depth *)
Lemma stable_all : forall o, like o = false -> forall c, valid o c = true -> is_leaf c = false -> stable o c.
Proof.
  intros o Hlike. induction c using td_ind'; intros Hv Hl; try discriminate.
  - apply stable_node; auto. intros k c Hk Hc.
    destruct (sget_in _ _ _ Hk) as [k' Hin]. rewrite Forall_forall in H. apply (H (k', c) Hin); auto.
    eapply valid_sget; eauto.
  - apply stable_lazy; auto.
  - apply stable_tc; auto. cbn [valid] in Hv.
    apply andb_true_iff in Hv as [Hv Hk]. apply andb_true_iff in Hv as [Hv Hty].
    apply andb_true_iff in Hv as [Hv Hnd]. apply andb_true_iff in Hv as [Hv Hcoll]. apply andb_true_iff in Hv as [Hc Hvi].
    apply IHc; auto. destruct c0; try discriminate; reflexivity.
  - apply stable_ndata.
  - apply stable_nstack.
Qed.

Lemma refresh_sees_make_memmap_lemma : forall o t d ks k l t' d',
  valid_root o t = true -> leaf_ok o l = true -> encode o t = Ok d -> grow_at ks k l t d = Ok (t', d') ->
  exists r, refresh d d' = Ok r /\ same_mapping r (norm t').
Proof.
  intros o t d ks k l t' d' Hv. assert (Hv' := Hv).
  unfold valid_root in Hv'. apply andb_true_iff in Hv' as [Hv' _]. apply andb_true_iff in Hv' as [_ Hlike].
  apply negb_true_iff in Hlike.
  apply (refresh_sees_gen o (fun _ => true) (fun _ _ _ _ _ _ => eq_refl) (fun c _ => stable_all o Hlike c)); auto.
Qed.

(* memmap_refresh_ with nothing changed on disk: the mapping stays what it is, for every kind of structure *)
Lemma refresh_unchanged_lemma : forall o t d,
  valid_root o t = true -> encode o t = Ok d -> exists r, refresh d d = Ok r /\ same_mapping r (norm t).
Proof.
  intros o t d Hv He.
  pose proof (decode_encode_lemma o t Hv) as Hd. rewrite He in Hd. cbn [bind] in Hd.
  unfold refresh. rewrite Hd. cbn [bind].
  unfold valid_root in Hv. apply andb_true_iff in Hv as [Hv Hl]. apply andb_true_iff in Hv as [Hv Hlike].
  apply negb_true_iff in Hlike. apply negb_true_iff in Hl.
  apply (stable_all o Hlike t Hv Hl d). split; auto.
Qed.
