From Coq Require Import ZArith List Bool Lia Arith Permutation.
Import ListNotations.
From TD Require Import Model.C12_Chunk Model.C12_Map Proofs.C12_ChunkP.
Open Scope nat_scope.

(* ------------------------------------------------------------------ _maybe_correct_neg_dim *)
Lemma correct_neg_dim_pos d ndim : d < ndim -> correct_neg_dim (Z.of_nat d) ndim = Ok d.
Proof.
  intro H. unfold correct_neg_dim.
  destruct (Z.ltb_spec (Z.of_nat d) 0); [lia|].
  destruct (Z.ltb_spec (Z.of_nat d) 0); [lia|]. destruct (Z.leb_spec (Z.of_nat ndim) (Z.of_nat d)); [lia|].
  cbn [orb]. now rewrite Nat2Z.id.
Qed.

Lemma correct_neg_dim_neg d ndim : d < ndim -> correct_neg_dim (Z.of_nat d - Z.of_nat ndim) ndim = Ok d.
Proof.
  intro H. unfold correct_neg_dim.
  destruct (Z.ltb_spec (Z.of_nat d - Z.of_nat ndim) 0); [|lia].
  replace (Z.of_nat ndim + (Z.of_nat d - Z.of_nat ndim))%Z with (Z.of_nat d) by lia.
  destruct (Z.ltb_spec (Z.of_nat d) 0); [lia|]. destruct (Z.leb_spec (Z.of_nat ndim) (Z.of_nat d)); [lia|].
  cbn [orb]. now rewrite Nat2Z.id.
Qed.

Lemma correct_neg_dim_bad dim ndim :
  (dim < - Z.of_nat ndim \/ Z.of_nat ndim <= dim)%Z -> correct_neg_dim dim ndim = Raised EIndex.
Proof.
  intro H. unfold correct_neg_dim.
  destruct (Z.ltb_spec dim 0).
  - destruct (Z.ltb_spec (Z.of_nat ndim + dim) 0); [reflexivity|lia].
  - destruct (Z.ltb_spec dim 0); [lia|]. destruct (Z.leb_spec (Z.of_nat ndim) dim); [reflexivity|lia].
Qed.

Lemma correct_neg_dim_ok dim ndim d :
  correct_neg_dim dim ndim = Ok d -> d < ndim /\ (dim = Z.of_nat d \/ dim = Z.of_nat d - Z.of_nat ndim)%Z.
Proof.
  unfold correct_neg_dim. destruct (Z.ltb_spec dim 0).
  - destruct (Z.ltb_spec (Z.of_nat ndim + dim) 0); [discriminate|].
    destruct (Z.leb_spec (Z.of_nat ndim) (Z.of_nat ndim + dim)); [discriminate|]. cbn [orb].
    intro E. injection E as <-. lia.
  - destruct (Z.ltb_spec dim 0); [lia|]. destruct (Z.leb_spec (Z.of_nat ndim) dim); [discriminate|]. cbn [orb].
    intro E. injection E as <-. lia.
Qed.

(* ------------------------------------------------------------------ writing into out= *)
Lemma write_bc_fit {B} (out rows : list B) ab :
  List.length rows = snd ab - fst ab -> write_bc out ab rows = write_at out (fst ab) rows.
Proof. intro H. unfold write_bc. now rewrite (proj2 (Nat.eqb_eq _ _) H). Qed.

(* results that are None or have the length of their chunk: the zip(strict) loop with the broadcasting update_ is the
   sequential form *)
Lemma reassemble_bc_fits {B} : forall bs (items : list (option (list B))) out lo hi,
  tiles lo hi bs -> hi <= List.length out -> Forall2 fitsn bs items ->
  reassemble_bc out bs items = Ok (seq_out out bs items).
Proof.
  induction bs as [|[a b] r IH]; intros items out lo hi Ht Hhi HF; inversion HF as [|? it ? its Hfit HF']; subst; cbn [tiles] in Ht.
  - reflexivity.
  - destruct Ht as (-> & Hab & Hr). pose proof (tiles_le _ _ _ Hr) as Hle.
    destruct it as [rows|]; cbn [fitsn fst snd] in Hfit; cbn [reassemble_bc seq_out].
    + rewrite write_bc_fit by exact Hfit. cbn [fst].
      destruct (write_at_ok out rows lo ltac:(lia)) as [Hw Hlen]. rewrite Hw. cbn [rbind].
      apply (IH its _ b hi Hr); [lia|exact HF'].
    + apply (IH its out b hi Hr); assumption.
Qed.

Definition wrap_out {B} (kind : outkind) : list B -> mapres B :=
  match kind with ORegular => RetOut | _ => RetNoneOut end.

Lemma map_items_bounds {A B} (f : bool -> list A -> option (list B)) (u : bool) rows l :
  (forall q, In q l -> is_unbound q = u) ->
  map_items f rows l = seq_items f u rows (map (bounds (List.length rows)) l).
Proof.
  intro H. unfold map_items, seq_items, trusted_imap, piece_rows. rewrite map_map.
  apply map_ext_in. intros q Hq. now rewrite (H q Hq).
Qed.

(* ------------------------------------------------------------------ map = the sequential form, any function *)
Section AnyFn.
Context {A B : Type} (f : bool -> list A -> option (list B)).

(* with out= (regular, shared or memmap), for every dim (negative too), chunking, worker count, generator mode, progress bar:
   result k is written at slice k of out, a None result leaves its slice as it was *)
Theorem map_full_out_sequential : forall shape rows kind oshape out p d l,
  kind <> ONone ->
  correct_neg_dim (p_dim p) (List.length shape) = Ok d ->
  List.length rows = nth d shape 0 -> List.length rows > 0 ->
  d < List.length oshape -> nth d oshape 0 = List.length rows -> List.length out = List.length rows ->
  split_pieces (List.length rows) (p_cs p) (p_nc p) (p_nw p) (p_gen p) false = Ok l ->
  (forall q, In q l -> fitsn (bounds (List.length rows) q) (f (is_unbound q) (piece_rows rows q))) ->
  map_full f shape rows kind oshape out p
  = Ok (wrap_out kind (seq_out out (map (bounds (List.length rows)) l) (map_items f rows l))).
Proof.
  intros shape rows kind oshape out p d l Hk Hd Hn Hpos Hod Hon Hol Hs Hf.
  unfold map_full. rewrite Hd. cbn [rbind]. rewrite <- Hn, Hs. cbn [rbind]. unfold trusted_tqdm.
  replace (List.length oshape <=? d) with false by (symmetry; apply Nat.leb_gt; exact Hod).
  rewrite Hon, Hs. cbn [rbind]. rewrite Hol.
  pose proof (chunks_partition _ _ _ _ _ _ _ Hpos Hs) as Ht.
  assert (HF : Forall2 fitsn (map (bounds (List.length rows)) l) (map_items f rows l)).
  { unfold map_items, trusted_imap. clear Ht Hs. induction l as [|q r IH]; cbn [map]; constructor.
    - apply Hf. now left.
    - apply IH. intros q' Hq'. apply Hf. now right. }
  rewrite (reassemble_bc_fits _ _ out 0 _ Ht ltac:(lia) HF). cbn [rmap].
  destruct kind; [congruence|reflexivity|reflexivity].
Qed.

(* without out=: the cat along dim of the non-None results, in order (None when there is none) *)
Theorem map_full_cat_sequential : forall shape rows oshape out p d l,
  correct_neg_dim (p_dim p) (List.length shape) = Ok d ->
  List.length rows = nth d shape 0 ->
  split_pieces (List.length rows) (p_cs p) (p_nc p) (p_nw p) (p_gen p) false = Ok l ->
  p_cs p <> Some 0 ->
  map_full f shape rows ONone oshape out p
  = Ok (match somes (map_items f rows l) with [] => RetNone | r => RetCat (concat r) end).
Proof.
  intros shape rows oshape out p d l Hd Hn Hs Hcs.
  unfold map_full. rewrite Hd. cbn [rbind]. rewrite <- Hn, Hs. cbn [rbind]. unfold trusted_tqdm, join_results.
  destruct (somes (map_items f rows l)); [reflexivity|].
  destruct (p_cs p) as [[|c]|]; [congruence|reflexivity|reflexivity].
Qed.

(* the progress bar and a negative dim change nothing *)
Theorem map_full_pbar_transparent : forall shape rows kind oshape out p,
  map_full f shape rows kind oshape out p
  = map_full f shape rows kind oshape out
      {| p_dim := p_dim p; p_cs := p_cs p; p_nc := p_nc p; p_nw := p_nw p; p_gen := p_gen p; p_pbar := negb (p_pbar p) |}.
Proof. reflexivity. Qed.

Theorem map_full_neg_dim : forall shape rows kind oshape out cs nc nw gen pbar d,
  d < List.length shape ->
  map_full f shape rows kind oshape out
    {| p_dim := Z.of_nat d - Z.of_nat (List.length shape); p_cs := cs; p_nc := nc; p_nw := nw; p_gen := gen; p_pbar := pbar |}
  = map_full f shape rows kind oshape out
    {| p_dim := Z.of_nat d; p_cs := cs; p_nc := nc; p_nw := nw; p_gen := gen; p_pbar := pbar |}.
Proof.
  intros. unfold map_full. cbn [p_dim]. now rewrite correct_neg_dim_neg, correct_neg_dim_pos.
Qed.

Theorem map_full_bad_dim : forall shape rows kind oshape out p,
  (p_dim p < - Z.of_nat (List.length shape) \/ Z.of_nat (List.length shape) <= p_dim p)%Z ->
  map_full f shape rows kind oshape out p = Raised EIndex.
Proof. intros. unfold map_full. now rewrite correct_neg_dim_bad. Qed.

(* an EMPTY mapped dim: what the code does *)
Theorem map_full_empty_dim : forall shape oshape out p d,
  correct_neg_dim (p_dim p) (List.length shape) = Ok d -> nth d shape 0 = 0 ->
  map_full f shape [] ONone oshape out p =
  match p_cs p, p_nc p with
  | Some _, Some _ => Raised EValue
  | Some 0, None => Ok RetNone
  | Some (S _), None => if p_gen p then Ok RetNone
                        else Ok (match f false [] with None => RetNone | Some r => RetCat (concat [r]) end)
  | None, _ => if p_gen p then Raised EZeroDiv else Raised EValue
  end.
Proof.
  intros shape oshape out p d Hd Hn. unfold map_full. rewrite Hd. cbn [rbind]. rewrite Hn.
  destruct p as [dim cs nc nw gen pbar]. cbn [p_cs p_nc p_nw p_gen p_pbar p_dim].
  destruct cs as [[|c]|], nc as [k|], gen; try reflexivity.
  unfold split_pieces, split_call_of. cbn. unfold join_results, trusted_tqdm, map_items. cbn.
  destruct (f false []); reflexivity.
Qed.
End AnyFn.

(* ------------------------------------------------------------------ map with a row-wise function = the function on the whole *)
Lemma forallb_len1 {A B} (g : A -> B) (rows : list A) :
  forallb (fun r => List.length r =? 1)
          (map (fun ab => map g (take rows ab)) (map (fun i => (i, S i)) (seq 0 (List.length rows)))) = true.
Proof.
  apply forallb_forall. intros x Hin. apply in_map_iff in Hin. destruct Hin as (ab & <- & Hin).
  apply in_map_iff in Hin. destruct Hin as (i & <- & Hi). apply in_seq in Hi.
  rewrite map_length, take_length by lia. apply Nat.eqb_eq. lia.
Qed.

Lemma join_cat {B} cs (items : list (option (list B))) :
  somes items <> [] -> (cs = Some 0 -> forallb (fun r => List.length r =? 1) (somes items) = true) ->
  join_results cs items = Ok (RetCat (concat (somes items))).
Proof.
  intros Hne Hst. unfold join_results. destruct (somes items) as [|x r] eqn:E; [congruence|].
  destruct cs as [[|c]|]; try reflexivity. now rewrite Hst.
Qed.

Section RowWiseFull.
Context {A B : Type} (g : A -> B).
Definition rowfn : bool -> list A -> option (list B) := fun _ r => Some (map g r).

Lemma rowfn_items rows l :
  map_items rowfn rows l = trusted_imap (fun ab => Some (map g (take rows ab))) (map (bounds (List.length rows)) l).
Proof. unfold map_items, rowfn, piece_rows, trusted_imap. now rewrite map_map. Qed.

Lemma somes_rowfn rows bs :
  somes (trusted_imap (fun ab => Some (map g (take rows ab))) bs) = map (fun ab => map g (take rows ab)) bs.
Proof. unfold trusted_imap. induction bs as [|ab r IH]; cbn [map somes]; [reflexivity|now rewrite IH]. Qed.

Lemma concat_rowfn rows bs n :
  tiles 0 n bs -> List.length rows = n ->
  concat (map (fun ab => map g (take rows ab)) bs) = map g rows.
Proof.
  intros Ht Hn. rewrite <- map_map, <- concat_map, (take_tiles rows bs 0 n Ht).
  cbn [skipn]. rewrite Nat.sub_0_r, <- Hn, firstn_all. reflexivity.
Qed.

Lemma rowfn_fits (rows : list A) : forall bs lo n,
  tiles lo n bs -> n <= List.length rows -> Forall2 fits bs (trusted_imap (fun ab => Some (map g (take rows ab))) bs).
Proof.
  induction bs as [|[a b] r IH]; intros lo n Ht Hle; cbn [tiles] in Ht; cbn [trusted_imap map]; constructor.
  - destruct Ht as (-> & Hab & Hr). pose proof (tiles_le _ _ _ Hr).
    eexists. split; [reflexivity|]. rewrite map_length, take_length by lia. reflexivity.
  - destruct Ht as (-> & Hab & Hr). apply (IH b n); assumption.
Qed.

(* no out=: for every dim, chunksize (0 included: unbind and re-stack), num_chunks, worker count, generator mode *)
Theorem map_full_rowwise_cat : forall shape rows oshape out p d l,
  correct_neg_dim (p_dim p) (List.length shape) = Ok d ->
  List.length rows = nth d shape 0 -> List.length rows > 0 ->
  split_pieces (List.length rows) (p_cs p) (p_nc p) (p_nw p) (p_gen p) false = Ok l ->
  map_full rowfn shape rows ONone oshape out p = Ok (RetCat (map g rows)).
Proof.
  intros shape rows oshape out p d l Hd Hn Hpos Hs.
  unfold map_full. rewrite Hd. cbn [rbind]. rewrite <- Hn, Hs. cbn [rbind]. unfold trusted_tqdm, join_results.
  pose proof (chunks_partition _ _ _ _ _ _ _ Hpos Hs) as Ht.
  fold (join_results (p_cs p) (map_items rowfn rows l)).
  rewrite join_cat.
  - rewrite rowfn_items, somes_rowfn, (concat_rowfn rows _ _ Ht eq_refl). reflexivity.
  - rewrite rowfn_items, somes_rowfn. intro E. apply (tiles_nonempty _ _ _ Ht Hpos).
    destruct (map (bounds _) l); [reflexivity|discriminate].
  - intro Ecs. rewrite rowfn_items, somes_rowfn.
    destruct (p_nc p) as [k|] eqn:Enc.
    { exfalso. unfold split_pieces, split_call_of in Hs. rewrite Ecs in Hs. try rewrite Enc in Hs. cbn in Hs. discriminate. }
    rewrite Ecs in Hs. try rewrite Enc in Hs.
    pose proof (pieces_closed_form _ _ _ _ _ _ _ 1 Hpos Hs eq_refl) as Hb.
    rewrite spec_bounds_one in Hb. rewrite Hb. apply forallb_len1.
Qed.

(* out= regular / shared / memmap: the buffer ends up holding the function applied to the whole *)
Theorem map_full_rowwise_out : forall shape rows kind oshape out p d l,
  kind <> ONone ->
  correct_neg_dim (p_dim p) (List.length shape) = Ok d ->
  List.length rows = nth d shape 0 -> List.length rows > 0 ->
  d < List.length oshape -> nth d oshape 0 = List.length rows -> List.length out = List.length rows ->
  split_pieces (List.length rows) (p_cs p) (p_nc p) (p_nw p) (p_gen p) false = Ok l ->
  map_full rowfn shape rows kind oshape out p = Ok (wrap_out kind (map g rows)).
Proof.
  intros shape rows kind oshape out p d l Hk Hd Hn Hpos Hod Hon Hol Hs.
  pose proof (chunks_partition _ _ _ _ _ _ _ Hpos Hs) as Ht.
  rewrite (map_full_out_sequential rowfn shape rows kind oshape out p d l Hk Hd Hn Hpos Hod Hon Hol Hs).
  - f_equal. f_equal. rewrite rowfn_items.
    pose proof (rowfn_fits rows _ _ _ Ht (Nat.le_refl _)) as HF.
    rewrite (seq_out_all_some _ _ _ out Ht Hol HF), somes_rowfn. apply (concat_rowfn rows _ _ Ht eq_refl).
  - intros q Hq. unfold rowfn, fitsn, piece_rows.
    assert (Hin : In (bounds (List.length rows) q) (map (bounds (List.length rows)) l)) by (apply in_map; exact Hq).
    destruct (bounds (List.length rows) q) as [a b] eqn:Eb.
    destruct (tiles_in _ _ _ Ht a b Hin) as (_ & _ & Hb). cbn [fst snd].
    rewrite map_length, take_length by lia. reflexivity.
Qed.
End RowWiseFull.

(* ------------------------------------------------------------------ map_iter *)
Lemma select_by_app {X} (l : list X) a b : select_by l (a ++ b) = select_by l a ++ select_by l b.
Proof. unfold select_by. apply flat_map_app. Qed.

Lemma select_by_seq_gen {X} : forall (l pre : list X), select_by (pre ++ l) (seq (List.length pre) (List.length l)) = l.
Proof.
  induction l as [|x l IH]; intro pre; cbn [List.length seq]; [reflexivity|].
  unfold select_by. cbn [flat_map]. rewrite nth_error_app2 by lia. rewrite Nat.sub_diag. cbn [nth_error app].
  f_equal. specialize (IH (pre ++ [x])). rewrite <- app_assoc, app_length in IH. cbn [List.length app] in IH.
  rewrite Nat.add_1_r in IH. exact IH.
Qed.

Lemma select_by_seq {X} (l : list X) : select_by l (seq 0 (List.length l)) = l.
Proof. exact (select_by_seq_gen l []). Qed.

Lemma select_by_perm {X} (l : list X) pi : Permutation pi (seq 0 (List.length l)) -> Permutation (select_by l pi) l.
Proof.
  intro P. rewrite <- (select_by_seq l) at 2. unfold select_by. apply Permutation_flat_map. exact P.
Qed.

Lemma concat_somes_flat_map {X} (l : list (option (list X))) :
  concat (somes l) = flat_map (fun o => match o with Some r => r | None => [] end) l.
Proof. induction l as [|[r|] l IH]; cbn [somes concat flat_map]; [reflexivity|now rewrite IH|exact IH]. Qed.

Lemma combine_map_self {X Y Z} (h : X -> Y) (F : X -> Y -> Z) (l : list X) :
  map (fun pc => F (fst pc) (snd pc)) (combine l (map h l)) = map (fun x => F x (h x)) l.
Proof. induction l as [|x l IH]; cbn [map combine fst snd]; [reflexivity|now rewrite IH]. Qed.

Section IterAny.
Context {A B : Type} (f : bool -> list A -> option (list B)).

(* without shuffle: map_iter yields exactly the results of the chunks, in order (None results included), and the chunks
   tile the mapped dim *)
Theorem map_iter_in_order : forall shape rows p d l rp pi,
  correct_neg_dim (p_dim p) (List.length shape) = Ok d ->
  List.length rows = nth d shape 0 -> List.length rows > 0 ->
  split_pieces (List.length rows) (p_cs p) (p_nc p) (p_nw p) (p_gen p) false = Ok l ->
  map_iter_full f shape rows p false rp pi
  = Ok (map (fun q => f (is_unbound q) (take rows (bounds (List.length rows) q))) l)
  /\ tiles 0 (List.length rows) (map (bounds (List.length rows)) l).
Proof.
  intros shape rows p d l rp pi Hd Hn Hpos Hs. split; [|exact (chunks_partition _ _ _ _ _ _ _ Hpos Hs)].
  unfold map_iter_full. rewrite Hd. cbn [rbind]. rewrite <- Hn, Hs. reflexivity.
Qed.

(* with shuffle: the yielded list is a permutation of the results of the shuffled chunks *)
Theorem map_iter_shuffle_items : forall shape rows p d l rp pi,
  correct_neg_dim (p_dim p) (List.length shape) = Ok d ->
  List.length rows = nth d shape 0 ->
  split_pieces (List.length rows) (p_cs p) (p_nc p) (p_nw p) (p_gen p) true = Ok l ->
  Permutation pi (seq 0 (List.length l)) ->
  exists yielded,
    map_iter_full f shape rows p true rp pi = Ok yielded /\
    Permutation yielded (map (fun q => f (is_unbound q) (select_by rows (take rp (bounds (List.length rp) q)))) l).
Proof.
  intros shape rows p d l rp pi Hd Hn Hs P.
  unfold map_iter_full. rewrite Hd. cbn [rbind]. rewrite <- Hn, Hs. cbn [rbind].
  eexists. split; [reflexivity|]. unfold trusted_tqdm, trusted_imap_unordered, shuffle_pieces.
  rewrite (combine_map_self (fun q => take rp (bounds (List.length rp) q)) (fun q c => f (is_unbound q) (select_by rows c)) l).
  apply select_by_perm. now rewrite map_length.
Qed.
End IterAny.

Section IterRowWise.
Context {A B : Type} (g : A -> B).

Lemma concat_rowfn_select (rows : list A) (chunks : list (list nat)) :
  concat (somes (map (fun c => Some (map g (select_by rows c))) chunks)) = map g (select_by rows (concat chunks)).
Proof.
  induction chunks as [|c r IH]; cbn [map somes concat]; [reflexivity|].
  now rewrite IH, select_by_app, map_app.
Qed.

(* map_iter with a row-wise function, no shuffle: the concatenation of what it yields is the function on the whole *)
Theorem map_iter_rowwise : forall shape rows p d l rp pi yielded,
  correct_neg_dim (p_dim p) (List.length shape) = Ok d ->
  List.length rows = nth d shape 0 -> List.length rows > 0 ->
  split_pieces (List.length rows) (p_cs p) (p_nc p) (p_nw p) (p_gen p) false = Ok l ->
  map_iter_full (rowfn g) shape rows p false rp pi = Ok yielded ->
  concat (somes yielded) = map g rows.
Proof.
  intros shape rows p d l rp pi yielded Hd Hn Hpos Hs Hy.
  destruct (map_iter_in_order (rowfn g) shape rows p d l rp pi Hd Hn Hpos Hs) as [He Ht].
  rewrite He in Hy. injection Hy as <-. unfold rowfn.
  rewrite <- (map_map (bounds (List.length rows)) (fun ab => Some (map g (take rows ab)))).
  change (map (fun ab => Some (map g (take rows ab))) (map (bounds (List.length rows)) l))
    with (trusted_imap (fun ab => Some (map g (take rows ab))) (map (bounds (List.length rows)) l)).
  rewrite somes_rowfn. apply (concat_rowfn g rows _ _ Ht eq_refl).
Qed.

(* shuffle=True: collectively, every row exactly once — the rows of the yielded results are a permutation of the function
   applied to the whole, for every random permutation rp and every completion order pi *)
Theorem map_iter_shuffle_rowwise : forall shape rows p d l rp pi,
  correct_neg_dim (p_dim p) (List.length shape) = Ok d ->
  List.length rows = nth d shape 0 -> List.length rows > 0 ->
  Permutation rp (seq 0 (List.length rows)) ->
  split_pieces (List.length rows) (p_cs p) (p_nc p) (p_nw p) (p_gen p) true = Ok l ->
  Permutation pi (seq 0 (List.length l)) ->
  exists yielded,
    map_iter_full (rowfn g) shape rows p true rp pi = Ok yielded /\
    Permutation (concat (somes yielded)) (map g rows).
Proof.
  intros shape rows p d l rp pi Hd Hn Hpos Prp Hs Ppi.
  destruct (map_iter_shuffle_items (rowfn g) shape rows p d l rp pi Hd Hn Hs Ppi) as (y & Hy & Py).
  exists y. split; [exact Hy|].
  assert (Hlen : List.length rp = List.length rows).
  { apply Permutation_length in Prp. now rewrite seq_length in Prp. }
  rewrite !concat_somes_flat_map. rewrite (Permutation_flat_map _ Py). rewrite <- concat_somes_flat_map.
  unfold rowfn. rewrite <- (map_map (fun q => take rp (bounds (List.length rp) q)) (fun c => Some (map g (select_by rows c)))).
  rewrite concat_rowfn_select.
  assert (Hc : concat (map (fun q => take rp (bounds (List.length rp) q)) l) = rp).
  { apply (shuffle_partition rp (p_cs p) (p_nc p) (p_nw p) l).
    - destruct rp; [cbn in Hlen; lia|discriminate].
    - rewrite Hlen.
      assert (Hg : p_gen p = true).
      { destruct (p_gen p) eqn:Eg; [reflexivity|]. unfold split_pieces, split_call_of in Hs. cbn in Hs. discriminate. }
      rewrite Hg in Hs. exact Hs. }
  rewrite Hc. apply Permutation_map. apply select_by_perm. exact Prp.
Qed.
End IterRowWise.

(* what the progress bar is told: the number of chunks without the generator, nothing with it *)
Theorem pbar_total_num_chunks : forall shape p d l,
  correct_neg_dim (p_dim p) (List.length shape) = Ok d ->
  split_pieces (nth d shape 0) (p_cs p) (p_nc p) (p_nw p) (p_gen p) false = Ok l ->
  map_pbar_total shape p = Ok (if p_pbar p then Some (if p_gen p then None else Some (List.length l)) else None).
Proof. intros shape p d l Hd Hs. unfold map_pbar_total. rewrite Hd. cbn [rbind]. rewrite Hs. reflexivity. Qed.
