(* C08: a boolean mask whose first dim sits ON the stack dim (rank 1: the mask of members; rank >= 2: it reaches past the
   stack dim): what _split_index returns -- one sub-index per member with that member's row of the mask, the counters,
   cat_dim (reads) and split_dim (writes).  split_dim is where repair C08-D36 applies: the code (fixed_D36 = false) leaves
   out the Nones before the mask, so a write  lazy[None, mask] = V  splits V along the wrong dim and raises. *)
From Coq Require Import ZArith List Bool Lia ZifyBool.
Import ListNotations.
From TD Require Import Spec.PySlice Spec.C08_Dense Model.C08_Lazy Proofs.C08_CoordP Proofs.C08_IndexP.
Open Scope Z_scope.

Definition mk_split_mask (es : list (Z * list item)) (ns nn : Z) (split_dim : Z) (mask_loc : nat) (ms : list item) : split :=
  {| sp_kind := KDict es; sp_num_single := ns; sp_num_none := nn; sp_num_squash := 0; sp_isint := false; sp_has_bool := true;
     sp_nd := false; sp_split_dim := split_dim; sp_mask_loc := mask_loc; sp_masks := ms |}.

Lemma rmap_pick pre ms post i m : nthZ ms i = Some m ->
  rmap (osub_pick i) (map OI pre ++ OT ms :: map OI post) = Ok (pre ++ m :: post).
Proof.
  intros Hm. induction pre as [|x pre IH]; cbn [map app rmap].
  - cbn [osub_pick]. rewrite Hm. cbn [of_opt rbind].
    assert (E : rmap (osub_pick i) (map OI post) = Ok post).
    { clear. induction post as [|y post IH]; [reflexivity|]. cbn [map rmap osub_pick rbind]. rewrite IH. reflexivity. }
    rewrite E. reflexivity.
  - cbn [osub_pick rbind]. rewrite IH. reflexivity.
Qed.

Lemma rmap_rows pre ms post : forall js, Forall (fun j => in_dim j (lenZ ms) = true) js ->
  rmap (fun i => rbind (rmap (osub_pick i) (map OI pre ++ OT ms :: map OI post)) (fun sub => Ok (i, sub))) js =
  Ok (map (fun j => (j, pre ++ nth (Z.to_nat j) ms INone :: post)) js).
Proof.
  induction 1 as [|j js Hj _ IH]; [reflexivity|]. cbn [rmap map].
  assert (Hm : nthZ ms j = Some (nth (Z.to_nat j) ms INone)).
  { unfold in_dim, lenZ in Hj. unfold nthZ. replace (j <? 0) with false by lia. apply nth_error_nth'. lia. }
  rewrite (rmap_pick pre ms post j _ Hm). cbn [rbind]. rewrite IH. reflexivity.
Qed.

(* the mask starts ON the stack dim (any rank >= 1), basic items before it, anything but Ellipsis after it *)
Theorem split_index_mask_on sd n shape pre m0 msh bits ms post :
  basic pre -> consumed pre = sd -> Forall post_item post -> one_adv (pre ++ IMask (m0 :: msh) bits :: post) ->
  mask_unbind (m0 :: msh) bits = Ok ms -> List.length ms = n ->
  split_index sd n shape (pre ++ IMask (m0 :: msh) bits :: post) =
  Ok (mk_split_mask (map (fun j => (j, pre ++ nth (Z.to_nat j) ms INone :: post)) (map Z.of_nat (seq 0 n)))
                    (count_int pre) (count_none pre)
                    (split_dim_of fixed_D36 (Z.of_nat sd) (count_int pre) (count_none pre)) (List.length pre) ms).
Proof.
  intros HB HC HP HA Hms Hlen. unfold split_index.
  rewrite convert_ellipsis_noell by (apply noell_app; [apply basic_noell; exact HB|constructor; [reflexivity|apply post_noell; exact HP]]).
  cbn [rbind]. unfold one_adv in HA. rewrite HA.
  change {| st_out := []; st_sel := SAll n; st_num_single := 0; st_num_none := 0; st_num_squash := 0;
            st_isint := false; st_has_bool := false; st_nd := false; st_enc := false; st_cursor := 0%nat;
            st_split_dim := 0; st_mask_loc := 0%nat; st_masks := [] |} with (s0 n).
  rewrite loop_pre by (assumption || (cbn; lia)).
  cbn [split_loop]. unfold split_step at 1. cbn [as_number st_cursor st_upd s0].
  replace (0 + consumed pre)%nat with sd by lia. rewrite Nat.eqb_refl. rewrite Hms. cbn [rbind].
  rewrite loop_post by (assumption || (cbn; lia)). cbn [rbind].
  unfold st_upd, s0. cbn -[Z.add split_dim_of nth Z.to_nat].
  rewrite <- app_assoc. cbn [app].
  rewrite rmap_rows.
  - cbn [rbind]. unfold mk_split_mask. rewrite ?Z.add_0_r, ?Z.add_0_l, ?Nat.add_0_l. reflexivity.
  - apply Forall_forall. intros j Hj. apply in_map_iff in Hj. destruct Hj as [k [Ek Hk]]. apply in_seq in Hk.
    unfold in_dim, lenZ. lia.
Qed.

(* cat_dim = mask_loc - num_single: the number of result dims produced before the mask *)
Lemma cat_dim_basic pre : basic pre -> Z.of_nat (List.length pre) - count_int pre = Z.of_nat (rdims_l pre).
Proof.
  induction 1 as [|it pre Hit _ IH]; [reflexivity|].
  rewrite rdims_l_cons. destruct it; cbn in Hit; try contradiction; cbn [List.length rdims count_int fold_right];
    fold (count_int pre); lia.
Qed.

(* split_dim, the REPAIRED formula: the dim of the value the mask's result dim sits at *)
Theorem split_dim_fixed pre : basic pre ->
  split_dim_of true (Z.of_nat (consumed pre)) (count_int pre) (count_none pre) = Z.of_nat (rdims_l pre).
Proof. intros HB. unfold split_dim_of. pose proof (nsd_basic pre HB). lia. Qed.

(* ... the formula in the code today (fixed = false): right when no None precedes the mask [partial] ... *)
Theorem split_dim_partial pre : basic pre -> count_none pre = 0 ->
  split_dim_of false (Z.of_nat (consumed pre)) (count_int pre) (count_none pre) = Z.of_nat (rdims_l pre).
Proof. intros HB H0. unfold split_dim_of. pose proof (nsd_basic pre HB). lia. Qed.

(* ... and wrong as soon as one does [refuted]: lazy[None, mask] = V splits V along dim 0 instead of dim 1 *)
Theorem split_dim_refuted : exists pre, basic pre /\
  split_dim_of false (Z.of_nat (consumed pre)) (count_int pre) (count_none pre) <> Z.of_nat (rdims_l pre).
Proof. exists [INone]. split; [repeat constructor|]. vm_compute. discriminate. Qed.

