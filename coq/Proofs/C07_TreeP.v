(* C07 — per-key statements about tree-mapping operations: every entry of the result of a view / copy operation, at every
   nested key, is related to the source's entry at the SAME key (a sub-view of it / a fresh tensor). *)
From Coq Require Import ZArith List String Bool Arith PeanoNat Lia.
Import ListNotations.
From TD Require Import Model.C07_Heap Model.C07_Alias Spec.C07_AliasSpec Proofs.C07_HeapP Proofs.C07_AliasP.
Local Open Scope list_scope.

(* well-formed heaps: no dangling node reference (an invariant of every reachable state, see wf_run) *)
Definition wfref (h : heap) (r : ref) : Prop :=
  match r with RNode n => n < List.length (hnodes h) | RLeaf _ => True end.
Definition wfheap (h : heap) : Prop :=
  forall n nd k x, nth_error (hnodes h) n = Some nd -> In (k, x) (nents nd) -> wfref h x.
Definition nodes_ext (h h' : heap) : Prop := exists e, hnodes h' = hnodes h ++ e.

Lemma heap_ext_nodes : forall h h', heap_ext h h' -> nodes_ext h h'.
Proof. intros h h' [_ H]. exact H. Qed.

Lemma wfref_ext : forall h h' r, nodes_ext h h' -> wfref h r -> wfref h' r.
Proof. intros h h' [v|n] [e E] H; cbn in *; auto. rewrite E, app_length. lia. Qed.

Lemma wfref_nodes_eq : forall h h' r, hnodes h' = hnodes h -> wfref h r -> wfref h' r.
Proof. intros h h' [v|n] E H; cbn in *; auto. now rewrite E. Qed.

Lemma wfheap_nodes_eq : forall h h', hnodes h' = hnodes h -> wfheap h -> wfheap h'.
Proof.
  intros h h' E W n nd k x Hn Hi. rewrite E in Hn. eapply wfref_nodes_eq; [exact E|]. eapply W; eauto.
Qed.

Lemma ents_get_In : forall e k x, ents_get e k = Some x -> In (k, x) e.
Proof.
  induction e as [|[k' r] t IH]; intros k x H; cbn in H; [discriminate|].
  destruct (String.eqb k' k) eqn:E.
  - apply String.eqb_eq in E. subst. inversion H; subst. now left.
  - right. now apply IH.
Qed.

Lemma get_node_ext : forall h h' n, nodes_ext h h' -> n < List.length (hnodes h) -> get_node h' n = get_node h n.
Proof. intros h h' n [e E] H. unfold get_node. rewrite E. now apply nth_error_app1. Qed.

Lemma resolve_ext : forall p h h' r, nodes_ext h h' -> wfheap h -> wfref h r -> resolve h' r p = resolve h r p.
Proof.
  induction p as [|k p IH]; intros h h' r He W Hr; cbn; auto.
  destruct r as [v|n]; auto. cbn in Hr. rewrite (get_node_ext h h' n He Hr).
  destruct (get_node h n) as [nd|] eqn:En; auto.
  destruct (ents_get (nents nd) k) as [x|] eqn:Ek; auto.
  apply IH; auto. eapply W; [exact En|]. eapply ents_get_In; eauto.
Qed.

(* ------------------------------------------------------------------ map_tree keeps heaps well formed *)
Definition rec_ok (rec : heap -> ref -> path -> option (heap * ref)) : Prop :=
  forall h r p h' r', wfheap h -> wfref h r -> rec h r p = Some (h', r') -> heap_ext h h' /\ wfheap h' /\ wfref h' r'.

Lemma map_ents_wf : forall rec, rec_ok rec ->
  forall fe pre es h0 h1 es1, wfheap h0 -> (forall k x, In (k, x) es -> wfref h0 x) ->
  map_ents rec fe pre h0 es = Some (h1, es1) ->
  heap_ext h0 h1 /\ wfheap h1 /\ (forall k x, In (k, x) es1 -> wfref h1 x).
Proof.
  intros rec Hrec fe pre. induction es as [|[k r'] t IH]; intros h0 h1 es1 W We H; cbn in H.
  - inversion H; subst. split; [apply heap_ext_refl|]. split; [assumption|intros k x []].
  - destruct (rec h0 r' (pre ++ [k])) as [[ha ra]|] eqn:E; [|discriminate].
    destruct (map_ents rec fe pre ha t) as [[hb tb]|] eqn:E2; [|discriminate].
    inversion H; subst; clear H.
    destruct (Hrec _ _ _ _ _ W (We k r' (or_introl eq_refl)) E) as [X1 [W1 R1]].
    assert (Wt : forall k0 x, In (k0, x) t -> wfref ha x).
    { intros k0 x Hi. eapply wfref_ext; [apply heap_ext_nodes; exact X1|]. eapply We. right. exact Hi. }
    destruct (IH _ _ _ W1 Wt E2) as [X2 [W2 R2]].
    split; [eapply heap_ext_trans; eauto|]. split; auto.
    intros k0 x Hi. destruct (fe && empty_node ha ra).
    + eapply R2; eauto.
    + destruct Hi as [Hi|Hi]; [|eapply R2; eauto]. inversion Hi; subst.
      eapply wfref_ext; [apply heap_ext_nodes; exact X2|exact R1].
Qed.

Lemma wfheap_alloc : forall h nd, wfheap h -> (forall k x, In (k, x) (nents nd) -> wfref h x) ->
  wfheap (fst (alloc_node h nd)) /\ wfref (fst (alloc_node h nd)) (RNode (List.length (hnodes h))).
Proof.
  intros h nd W Wn. assert (Hx : nodes_ext h (fst (alloc_node h nd))) by (now exists [nd]).
  split.
  - intros n nd0 k x Hn Hi. cbn in Hn.
    destruct (Nat.lt_ge_cases n (List.length (hnodes h))) as [Hlt|Hge].
    + rewrite nth_error_app1 in Hn by assumption. eapply wfref_ext; [exact Hx|]. eapply W; eauto.
    + rewrite nth_error_app2 in Hn by assumption.
      destruct (n - List.length (hnodes h)) as [|m] eqn:Em; cbn in Hn.
      * inversion Hn; subst. eapply wfref_ext; [exact Hx|]. eapply Wn; eauto.
      * destruct m; discriminate.
  - cbn. rewrite app_length. cbn. lia.
Qed.

Lemma map_tree_wf : forall leaff, lf_ok leaff -> forall fuel lk ln fe, rec_ok (fun h r p => map_tree fuel lk ln fe leaff h r p).
Proof.
  intros leaff Hl. induction fuel as [|f IH]; intros lk ln fe h r pre h' r' W Hr H; [discriminate|].
  cbn [map_tree] in H. destruct r as [v|n].
  - destruct (leaff pre h v) as [h1 v1] eqn:E. inversion H; subst.
    pose proof (lf_ok_ext _ Hl pre h v) as X. destruct (Hl pre h v) as [_ N]. rewrite E in X, N. cbn in *.
    split; auto. split; [eapply wfheap_nodes_eq; eauto|exact I].
  - destruct (get_node h n) as [nd|] eqn:En; [|discriminate].
    destruct (map_ents (map_tree f lk ln fe leaff) fe pre h (nents nd)) as [[h1 es1]|] eqn:E; [|discriminate].
    cbn in H. inversion H; subst; clear H.
    assert (We : forall k x, In (k, x) (nents nd) -> wfref h x) by (intros; eapply W; eauto).
    destruct (map_ents_wf _ (IH lk ln fe) fe pre _ _ _ _ W We E) as [X1 [W1 R1]].
    destruct (wfheap_alloc h1 (mkNode es1 (lk || (ln && nlock nd))) W1 R1) as [W2 R2].
    split; [eapply heap_ext_trans; [exact X1|apply alloc_node_ext]|]. split; auto.
Qed.

(* ------------------------------------------------------------------ entry by entry *)
Definition leaf_rel (leaff : path -> heap -> view -> heap * view) (p : path) (h : heap) (v v' : view) : Prop :=
  exists h0, heap_ext h h0 /\ v' = snd (leaff p h0 v).

Definition tree_rel (leaff : path -> heap -> view -> heap * view) (pre : path) (h : heap) (r : ref) (h' : heap) (r' : ref) : Prop :=
  forall p, match resolve h' r' p with
            | Some (RLeaf v') => exists v, resolve h r p = Some (RLeaf v) /\ leaf_rel leaff (pre ++ p) h v v'
            | Some (RNode _) => exists m, resolve h r p = Some (RNode m)
            | None => True
            end.

Lemma map_ents_get : forall rec, rec_ok rec ->
  forall pre es h0 h1 es1, wfheap h0 -> (forall k x, In (k, x) es -> wfref h0 x) ->
  map_ents rec false pre h0 es = Some (h1, es1) ->
  forall k r1, ents_get es1 k = Some r1 ->
  exists rk ha hb, ents_get es k = Some rk /\ rec ha rk (pre ++ [k]) = Some (hb, r1) /\
                   heap_ext h0 ha /\ wfheap ha /\ wfref ha rk /\ heap_ext hb h1.
Proof.
  intros rec Hrec pre. induction es as [|[k0 r'] t IH]; intros h0 h1 es1 W We H k r1 Hg; cbn in H.
  - inversion H; subst. discriminate.
  - destruct (rec h0 r' (pre ++ [k0])) as [[ha ra]|] eqn:E; [|discriminate].
    destruct (map_ents rec false pre ha t) as [[hb tb]|] eqn:E2; [|discriminate].
    cbn in H. inversion H; subst; clear H.
    destruct (Hrec _ _ _ _ _ W (We k0 r' (or_introl eq_refl)) E) as [X1 [W1 R1]].
    assert (Wt : forall k1 x, In (k1, x) t -> wfref ha x).
    { intros k1 x Hi. eapply wfref_ext; [apply heap_ext_nodes; exact X1|]. eapply We. right. exact Hi. }
    cbn in Hg. cbn [ents_get]. destruct (String.eqb k0 k) eqn:Ek.
    + apply String.eqb_eq in Ek. subst k0. inversion Hg; subst.
      exists r', h0, ha. split; [reflexivity|]. split; [exact E|]. split; [apply heap_ext_refl|]. split; [exact W|].
      split; [eapply We; now left|].
      destruct (map_ents_wf _ Hrec false pre _ _ _ _ W1 Wt E2) as [X2 _]. exact X2.
    + destruct (IH _ _ _ W1 Wt E2 k r1 Hg) as [rk [hc [hd [G1 [G2 [G3 [G4 [G5 G6]]]]]]]].
      exists rk, hc, hd. split; [exact G1|]. split; [exact G2|]. split; [eapply heap_ext_trans; eauto|].
      split; [exact G4|]. split; [exact G5|exact G6].
Qed.

Lemma map_tree_paths : forall leaff, lf_ok leaff ->
  forall fuel lk ln h r pre h' r', wfheap h -> wfref h r ->
  map_tree fuel lk ln false leaff h r pre = Some (h', r') -> tree_rel leaff pre h r h' r'.
Proof.
  intros leaff Hl. induction fuel as [|f IH]; intros lk ln h r pre h' r' W Hr H; [discriminate|].
  pose proof H as H0. cbn [map_tree] in H. destruct r as [v|n].
  - destruct (leaff pre h v) as [h1 v1] eqn:E. inversion H; subst. intros [|k p]; cbn; auto.
    exists v. split; auto. exists h. split; [apply heap_ext_refl|]. rewrite app_nil_r, E. reflexivity.
  - destruct (get_node h n) as [nd|] eqn:En; [|discriminate].
    destruct (map_ents (map_tree f lk ln false leaff) false pre h (nents nd)) as [[h1 es1]|] eqn:E; [|discriminate].
    cbn in H. inversion H; subst; clear H.
    assert (We : forall k x, In (k, x) (nents nd) -> wfref h x) by (intros; eapply W; eauto).
    destruct (map_ents_wf _ (map_tree_wf _ Hl f lk ln false) false pre _ _ _ _ W We E) as [X1 [W1 R1]].
    change ({| hstor := hstor h1; hnodes := hnodes h1 ++ [mkNode es1 (lk || (ln && nlock nd))] |}) with (fst (alloc_node h1 (mkNode es1 (lk || (ln && nlock nd))))).
    remember (fst (alloc_node h1 (mkNode es1 (lk || (ln && nlock nd))))) as h2 eqn:Eh2.
    assert (Gn : get_node h2 (List.length (hnodes h1)) = Some (mkNode es1 (lk || (ln && nlock nd)))) by (subst h2; apply get_node_alloc_new).
    assert (X2 : heap_ext h1 h2) by (subst h2; apply alloc_node_ext).
    intros [|k p].
    + cbn. exists n. reflexivity.
    + cbn [resolve]. rewrite Gn. cbn [nents]. rewrite En.
      destruct (ents_get es1 k) as [r1|] eqn:Eg; [|exact I].
      destruct (map_ents_get _ (map_tree_wf _ Hl f lk ln false) pre _ _ _ _ W We E k r1 Eg)
        as [rk [ha [hb [G1 [G2 [G3 [G4 [G5 G6]]]]]]]].
      rewrite G1.
      destruct (map_tree_wf _ Hl f lk ln false _ _ _ _ _ G4 G5 G2) as [Xab [Wb Rb]].
      pose proof (IH lk ln ha rk (pre ++ [k]) hb r1 G4 G5 G2 p) as T.
      assert (Nb : nodes_ext hb h2).
      { apply heap_ext_nodes. eapply heap_ext_trans; [exact G6|exact X2]. }
      rewrite (resolve_ext p hb _ r1 Nb Wb Rb).
      assert (Rk : wfref h rk) by (eapply W; [exact En|eapply ents_get_In; exact G1]).
      rewrite (resolve_ext p h ha rk (heap_ext_nodes _ _ G3) W Rk) in T.
      destruct (resolve hb r1 p) as [[v'|m']|]; auto.
      destruct T as [v [T1 [h0 [T2 T3]]]]. exists v. split; auto.
      exists h0. split; [eapply heap_ext_trans; eauto|]. rewrite <- app_assoc in T3. exact T3.
Qed.

(* ------------------------------------------------------------------ what the leaf functions produce *)
Lemma In_firstn : forall {A} n (l : list A) x, In x (firstn n l) -> In x l.
Proof. induction n as [|n IH]; intros [|a l] x H; cbn in H; auto; try contradiction. destruct H; [now left|right; auto]. Qed.

Lemma In_skipn : forall {A} n (l : list A) x, In x (skipn n l) -> In x l.
Proof. induction n as [|n IH]; intros [|a l] x H; cbn in H; auto. right. auto. Qed.

Lemma chunk_incl : forall {A} (l : list A) f p, incl (chunk l f p) l.
Proof. intros A l f p x Hx. unfold chunk in Hx. eapply In_skipn. eapply In_firstn. exact Hx. Qed.

Lemma subview_view_of : forall v nb bsel, view_of v (subview v nb bsel).
Proof.
  intros v nb bsel. split; [reflexivity|]. cbn. unfold sub_cells. intros x Hx.
  apply in_flat_map in Hx. destruct Hx as [p [_ Hx]]. eapply chunk_incl; eauto.
Qed.

Lemma leaf_rel_sub : forall nb bsel p h v v', leaf_rel (lf_sub nb bsel) p h v v' -> view_of v v'.
Proof. intros nb bsel p h v v' [h0 [_ E]]. subst. apply subview_view_of. Qed.

Lemma leaf_rel_same : forall p h v v', leaf_rel lf_same p h v v' -> v' = v.
Proof. intros p h v v' [h0 [_ E]]. exact E. Qed.

Lemma leaf_rel_copy : forall p h v v', leaf_rel lf_copy p h v v' -> fresh_view h v'.
Proof.
  intros p h v v' [h0 [[X _] E]]. subst. unfold fresh_view, lf_copy. rewrite fresh_like_fresh. now apply stor_ext_len.
Qed.

Lemma leaf_rel_gather : forall nb bsel p h v v', leaf_rel (lf_gather nb bsel) p h v v' -> fresh_view h v'.
Proof.
  intros nb bsel p h v v' [h0 [[X _] E]]. subst. unfold fresh_view, lf_gather. rewrite fresh_leaf_fresh. now apply stor_ext_len.
Qed.

Lemma leaf_rel_un : forall f p h v v', leaf_rel (lf_un f) p h v v' -> fresh_view h v'.
Proof.
  intros f p h v v' [h0 [[X _] E]]. subst. unfold fresh_view, lf_un. rewrite fresh_like_fresh. now apply stor_ext_len.
Qed.

(* contiguous: what torch does on the leaf — the very same view when it is contiguous, a fresh tensor otherwise *)
Lemma leaf_rel_contig : forall p h v v', leaf_rel lf_contig p h v v' ->
  if contiguousb v then v' = v else fresh_view h v'.
Proof.
  intros p h v v' [h0 [[X _] E]]. subst. unfold lf_contig. destruct (contiguousb v); [reflexivity|].
  unfold fresh_view. rewrite fresh_leaf_fresh. now apply stor_ext_len.
Qed.

(* ------------------------------------------------------------------ view operations allocate no storage at all *)
Lemma map_ents_stor : forall rec,
  (forall h r p h' r', rec h r p = Some (h', r') -> hstor h' = hstor h) ->
  forall fe pre es h0 h1 es1, map_ents rec fe pre h0 es = Some (h1, es1) -> hstor h1 = hstor h0.
Proof.
  intros rec Hrec fe pre. induction es as [|[k r'] t IH]; intros h0 h1 es1 H; cbn in H.
  - now inversion H.
  - destruct (rec h0 r' (pre ++ [k])) as [[ha ra]|] eqn:E; [|discriminate].
    destruct (map_ents rec fe pre ha t) as [[hb tb]|] eqn:E2; [|discriminate].
    inversion H; subst. rewrite (IH _ _ _ E2). eapply Hrec; eauto.
Qed.

Lemma map_tree_stor : forall leaff, (forall p h v, hstor (fst (leaff p h v)) = hstor h) ->
  forall fuel lk ln fe h r pre h' r', map_tree fuel lk ln fe leaff h r pre = Some (h', r') -> hstor h' = hstor h.
Proof.
  intros leaff Hl. induction fuel as [|f IH]; intros lk ln fe h r pre h' r' H; [discriminate|].
  cbn [map_tree] in H. destruct r as [v|n].
  - destruct (leaff pre h v) as [h1 v1] eqn:E. inversion H; subst. specialize (Hl pre h v). now rewrite E in Hl.
  - destruct (get_node h n) as [nd|]; [|discriminate].
    destruct (map_ents (map_tree f lk ln fe leaff) fe pre h (nents nd)) as [[h1 es1]|] eqn:E; [|discriminate].
    cbn in H. inversion H; subst. cbn. eapply map_ents_stor; [|exact E]. intros. eapply IH; eauto.
Qed.

(* ------------------------------------------------------------------ instruction level *)
Definition result_of (s s' : st) (x : ref) : Prop := regs s' = regs s ++ [x].

Ltac step_map H Hr :=
  unfold step in H; cbv zeta in H; rewrite Hr in H;
  match type of H with
  | context [match map_tree ?a ?b ?c ?c2 ?d ?e ?f ?g with _ => _ end] =>
      let h1 := fresh "h1" in let x := fresh "x" in let E := fresh "Emt" in
      destruct (map_tree a b c c2 d e f g) as [[h1 x]|] eqn:E; [|discriminate]
  end.

Theorem view_shares : forall s r nb bsel pl d s',
  wfheap (hp s) -> reg s r = Some d -> wfref (hp s) d ->
  step s (IViewB r nb bsel pl) = (s', Done) ->
  hstor (hp s') = hstor (hp s) /\
  exists x, result_of s s' x /\
    forall p, match resolve (hp s') x p with
              | Some (RLeaf v') => exists v, resolve (hp s) d p = Some (RLeaf v) /\ v' = subview v nb bsel /\ view_of v v'
              | Some (RNode _) => exists m, resolve (hp s) d p = Some (RNode m)
              | None => True
              end.
Proof.
  intros s r nb bsel pl d s' W Hr Wd H. step_map H Hr.
  inversion H; subst s'; clear H. cbn.
  split; [eapply map_tree_stor; [|eassumption]; reflexivity|].
  exists x. split; [reflexivity|].
  pose proof (map_tree_paths _ (lf_sub_ok nb bsel) _ _ _ _ _ _ _ _ W Wd Emt) as T.
  intro p. specialize (T p). destruct (resolve h1 x p) as [[v'|m]|]; auto.
  destruct T as [v [T1 T2]]. exists v. split; auto.
  destruct T2 as [h0 [_ E]]. cbn in E. split; [exact E|]. subst. apply subview_view_of.
Qed.

Theorem shallow_shares : forall s r d s',
  wfheap (hp s) -> reg s r = Some d -> wfref (hp s) d ->
  step s (IShallow r) = (s', Done) ->
  hstor (hp s') = hstor (hp s) /\
  exists x, result_of s s' x /\
    forall p v', resolve (hp s') x p = Some (RLeaf v') -> resolve (hp s) d p = Some (RLeaf v').
Proof.
  intros s r d s' W Hr Wd H. step_map H Hr.
  inversion H; subst s'; clear H. cbn.
  split; [eapply map_tree_stor; [|eassumption]; reflexivity|].
  exists x. split; [reflexivity|].
  pose proof (map_tree_paths _ lf_same_ok _ _ _ _ _ _ _ _ W Wd Emt) as T.
  intros p v' Hp. specialize (T p). rewrite Hp in T. destruct T as [v [T1 [h0 [_ E]]]]. cbn in E. now subst.
Qed.

(* clone / to_tensordict / advanced indexing / out-of-place arithmetic (without filter_empty): every entry of the result is a
   tensor in a storage that did not exist before, at a key where the source has a tensor *)
Definition fresh_result (s : st) (d : ref) (s' : st) : Prop :=
  exists x, result_of s s' x /\
    forall p v', resolve (hp s') x p = Some (RLeaf v') ->
                 fresh_view (hp s) v' /\ exists v, resolve (hp s) d p = Some (RLeaf v).

Theorem clone_fresh : forall s r d s',
  wfheap (hp s) -> reg s r = Some d -> wfref (hp s) d ->
  step s (IClone r) = (s', Done) -> fresh_result s d s'.
Proof.
  intros s r d s' W Hr Wd H. step_map H Hr.
  inversion H; subst s'; clear H. exists x. split; [reflexivity|]. cbn.
  pose proof (map_tree_paths _ lf_copy_ok _ _ _ _ _ _ _ _ W Wd Emt) as T.
  intros p v' Hp. specialize (T p). rewrite Hp in T. destruct T as [v [T1 T2]].
  split; [eapply leaf_rel_copy; eauto|eauto].
Qed.

Theorem gather_fresh : forall s r nb bsel d s',
  wfheap (hp s) -> reg s r = Some d -> wfref (hp s) d ->
  step s (IGather r nb bsel) = (s', Done) -> fresh_result s d s'.
Proof.
  intros s r nb bsel d s' W Hr Wd H. step_map H Hr.
  inversion H; subst s'; clear H. exists x. split; [reflexivity|]. cbn.
  pose proof (map_tree_paths _ (lf_gather_ok nb bsel) _ _ _ _ _ _ _ _ W Wd Emt) as T.
  intros p v' Hp. specialize (T p). rewrite Hp in T. destruct T as [v [T1 T2]].
  split; [eapply leaf_rel_gather; eauto|eauto].
Qed.

Theorem unary_fresh : forall s r f pl d s',
  wfheap (hp s) -> reg s r = Some d -> wfref (hp s) d ->
  step s (IUnary r f pl false) = (s', Done) -> fresh_result s d s'.
Proof.
  intros s r f pl d s' W Hr Wd H. step_map H Hr.
  inversion H; subst s'; clear H. exists x. split; [reflexivity|]. cbn.
  pose proof (map_tree_paths _ (lf_un_ok f) _ _ _ _ _ _ _ _ W Wd Emt) as T.
  intros p v' Hp. specialize (T p). rewrite Hp in T. destruct T as [v [T1 T2]].
  split; [eapply leaf_rel_un; eauto|eauto].
Qed.

(* contiguous: the rule is what torch does on the leaf *)
Theorem contiguous_rule : forall s r d s',
  wfheap (hp s) -> reg s r = Some d -> wfref (hp s) d ->
  step s (IContig r) = (s', Done) ->
  exists x, result_of s s' x /\
    forall p v', resolve (hp s') x p = Some (RLeaf v') ->
      exists v, resolve (hp s) d p = Some (RLeaf v) /\ (if contiguousb v then v' = v else fresh_view (hp s) v').
Proof.
  intros s r d s' W Hr Wd H. step_map H Hr.
  inversion H; subst s'; clear H. exists x. split; [reflexivity|]. cbn.
  pose proof (map_tree_paths _ lf_contig_ok _ _ _ _ _ _ _ _ W Wd Emt) as T.
  intros p v' Hp. specialize (T p). rewrite Hp in T. destruct T as [v [T1 T2]].
  exists v. split; auto. eapply leaf_rel_contig; eauto.
Qed.

(* select / exclude: the result binds (a subset of) the source's keys to the very same entries *)
Lemma ents_set_In : forall e k r k0 x, In (k0, x) (ents_set e k r) -> (k0 = k /\ x = r) \/ In (k0, x) e.
Proof.
  induction e as [|[k' r'] t IH]; intros k r k0 x H; cbn in H.
  - destruct H as [H|[]]. inversion H. now left.
  - destruct (String.eqb k' k) eqn:E.
    + apply String.eqb_eq in E. subst. destruct H as [H|H]; [inversion H; now left|right; now right].
    + destruct H as [H|H]; [right; now left|]. destruct (IH _ _ _ _ H) as [A|A]; [now left|right; now right].
Qed.

Theorem select_shares : forall s r ks n nd s',
  reg s r = Some (RNode n) -> get_node (hp s) n = Some nd ->
  step s (ISelect r ks) = (s', Done) ->
  hstor (hp s') = hstor (hp s) /\
  exists m ndm, result_of s s' (RNode m) /\ get_node (hp s') m = Some ndm /\
                forall k x, In (k, x) (nents ndm) -> ents_get (nents nd) k = Some x.
Proof.
  intros s r ks n nd s' Hr Hn H. unfold step in H; cbv zeta in H. rewrite Hr, Hn in H.
  destruct (forallb (fun k => ents_has (nents nd) k) ks); [|discriminate].
  inversion H; subst s'; clear H. cbn. split; [reflexivity|].
  eexists _, _. split; [reflexivity|]. split.
  - unfold get_node. cbn. rewrite nth_error_app2 by lia. rewrite Nat.sub_diag. reflexivity.
  - cbn. assert (G : forall l acc, (forall k x, In (k, x) acc -> ents_get (nents nd) k = Some x) ->
                   forall k x, In (k, x) (fold_left (fun acc k => match ents_get (nents nd) k with
                                                                  | Some y => ents_set acc k y | None => acc end) l acc) ->
                               ents_get (nents nd) k = Some x).
    { induction l as [|k0 l IH]; intros acc Ha k x Hi; cbn in Hi; [eapply Ha; eauto|].
      eapply IH; [|exact Hi]. intros k1 x1 H1. destruct (ents_get (nents nd) k0) eqn:E0; [|eapply Ha; eauto].
      apply ents_set_In in H1. destruct H1 as [[A B]|A]; [subst; exact E0|eapply Ha; eauto]. }
    eapply G. intros k x [].
Qed.

Theorem exclude_shares : forall s r ks n nd s',
  reg s r = Some (RNode n) -> get_node (hp s) n = Some nd ->
  step s (IExclude r ks) = (s', Done) ->
  hstor (hp s') = hstor (hp s) /\
  exists m ndm, result_of s s' (RNode m) /\ get_node (hp s') m = Some ndm /\
                forall k x, In (k, x) (nents ndm) -> In (k, x) (nents nd).
Proof.
  intros s r ks n nd s' Hr Hn H. unfold step in H; cbv zeta in H. rewrite Hr, Hn in H.
  inversion H; subst s'; clear H. cbn. split; [reflexivity|].
  eexists _, _. split; [reflexivity|]. split.
  - unfold get_node. cbn. rewrite nth_error_app2 by lia. rewrite Nat.sub_diag. reflexivity.
  - cbn. intros k x Hi. apply filter_In in Hi. apply Hi.
Qed.

(* flatten_keys: one new node whose entries are exactly the source's leaves (the same views), named by the joined keys *)
Theorem flatten_shares : forall s r sep d ls s',
  reg s r = Some d -> leaves_of (hp s) d = Some ls ->
  step s (IFlatten r sep) = (s', Done) ->
  hstor (hp s') = hstor (hp s) /\
  exists m ndm, result_of s s' (RNode m) /\ get_node (hp s') m = Some ndm /\
                nents ndm = map (fun pv => (join sep (fst pv), RLeaf (snd pv))) ls.
Proof.
  intros s r sep d ls s' Hr Hl H. unfold step in H; cbv zeta in H. rewrite Hr, Hl in H.
  inversion H; subst s'; clear H. cbn. split; [reflexivity|].
  eexists _, _. split; [reflexivity|]. split.
  - unfold get_node. cbn. rewrite nth_error_app2 by lia. rewrite Nat.sub_diag. reflexivity.
  - reflexivity.
Qed.
