(* C13 — the hand-written swap-back `swap = params.to_module(m, return_swap=True); ...; swap.to_module(m)`:
   with return_swap=False nothing is memoised, so the swap of a shared sub-module is re-applied once per NAME of the
   sub-module.  The invariant that makes this harmless: an INSTALLED swap (every leaf is the object its slot holds, in
   the dict a re-installation puts it into; recursively through _modules) can be applied with return_swap=False any
   number of times, on any module DAG: the call returns and every slot of every module is left as it is. *)
From Coq Require Import ZArith List String Bool Lia.
Import ListNotations.
From TD Require Import Model.C13_Swap Model.C13_Scope Proofs.C13_SwapP Proofs.C13_VariantsP.
Open Scope string_scope.
Open Scope list_scope.

(* re-installing o under k gives the slot it was and raises nothing *)
Definition holds (n : mnode) (k : string) (o : obj) : Prop :=
  fst (leaf3 (m_custom n) (d_mem (m_subs n) k) (slot3 n k) o) = slot3 n k
  /\ exists out, snd (leaf3 (m_custom n) (d_mem (m_subs n) k) (slot3 n k) o) = inl out.

Fixpoint installed (h : heap) (t : ptd) (m : Z) {struct t} : Prop :=
  match t with PTD ents =>
    exists n, h_get h m = Some n /\
    (fix go (l : list (string * pent)) : Prop :=
       match l with
       | [] => True
       | (k, PLeaf (Some o)) :: r => holds n k o /\ go r
       | (k, PLeaf None) :: r => False
       | (k, PSub t') :: r => (exists child, d_get (m_subs n) k = Some (Some child) /\ installed h t' child) /\ go r
       end) ents
  end.
Definition installedL (h : heap) (n : mnode) := fix go (l : list (string * pent)) : Prop :=
  match l with
  | [] => True
  | (k, PLeaf (Some o)) :: r => holds n k o /\ go r
  | (k, PLeaf None) :: r => False
  | (k, PSub t') :: r => (exists child, d_get (m_subs n) k = Some (Some child) /\ installed h t' child) /\ go r
  end.
Lemma installed_PTD h ents m : installed h (PTD ents) m = exists n, h_get h m = Some n /\ installedL h n ents.
Proof. reflexivity. Qed.

Lemma holds_sloteq n n' k o : sloteq n' n -> holds n k o -> holds n' k o.
Proof. intros (A & B & C). unfold holds. now rewrite A, B, C. Qed.

Definition heap_sloteq (h' h : heap) : Prop := forall c, osloteq (h_get h' c) (h_get h c).

Lemma installed_sloteq : forall t h h' m, heap_sloteq h' h -> installed h t m -> installed h' t m.
Proof.
  induction t as [ents HF] using ptd_ind2. intros h h' m Hs. rewrite !installed_PTD. intros (n & Hn & HL).
  pose proof (Hs m) as Hm. rewrite Hn in Hm. destruct (h_get h' m) as [n'|]; cbn in Hm; [|tauto].
  exists n'. split; [reflexivity|]. pose proof Hm as (A & B & C).
  induction ents as [|[k [[o|]|t']] r IHr]; cbn in *; auto.
  - destruct HL as (H1 & H2). split; [eapply holds_sloteq; eauto|]. apply IHr; [exact (Forall_inv_tail HF)|exact H2].
  - destruct HL as ((child & Hc & Hi) & H2). split.
    + exists child. split; [now rewrite B|]. exact (Forall_inv HF h h' child Hs Hi).
    + apply IHr; [exact (Forall_inv_tail HF)|exact H2].
Qed.

(* plain mode, return_swap=False *)
Definition plainF (cfg : tmcfg) : Prop :=
  c_usd cfg = false /\ (c_inplace cfg = None \/ c_inplace cfg = Some false) /\ c_return_swap cfg = false.

Lemma to_mod_F cfg ents m st memo :
  plainF cfg ->
  to_mod cfg (PTD ents) m st memo =
  match h_get (t_heap st) m with
  | None => TmErr st EOther
  | Some n0 =>
      match tm_go (to_mod cfg) cfg m (m_custom n0) (m_subs n0) true ents st memo [] with
      | (st2, memo2, acc2, Some e) => TmErr st2 e
      | (st2, memo2, acc2, None) => TmOk st2 memo2 (PTD acc2)
      end
  end.
Proof.
  intros (Husd & Hinp & Hrs). cbn [to_mod]. destruct (h_get (t_heap st) m); [|reflexivity].
  rewrite Husd, Hrs. cbn. reflexivity.
Qed.

Definition with_rs (cfg : tmcfg) : tmcfg := mkCfg (c_inplace cfg) true (c_usd cfg).
Lemma leaf_step_rs cfg m k x st : leaf_step cfg m k x st = leaf_step (with_rs cfg) m k x st.
Proof. reflexivity. Qed.
Lemma plainF_simple cfg : plainF cfg -> simple (with_rs cfg).
Proof. intros (A & B & _). repeat split; assumption. Qed.

Lemma sloteq_at_n st st0 m n0 : all_sloteq st st0 -> hg st0 m = Some n0 -> exists n, hg st m = Some n /\ sloteq n n0.
Proof. intros H Hn. specialize (H m). rewrite Hn in H. destruct (hg st m) as [n|]; cbn in H; [eauto|tauto]. Qed.

Definition N_stmt (t : ptd) : Prop :=
  forall cfg, plainF cfg -> forall m st, installed (t_heap st) t m ->
    exists st' sw', to_mod cfg t m st [] = TmOk st' [] sw' /\ all_sloteq st' st /\ t_vals st' = t_vals st.

Lemma NL : forall l,
  Forall (fun e : string * pent => match snd e with PSub t => N_stmt t | PLeaf _ => True end) l ->
  forall cfg, plainF cfg -> forall m n st acc, hg st m = Some n -> installedL (t_heap st) n l ->
    exists st' acc', tm_go (to_mod cfg) cfg m (m_custom n) (m_subs n) true l st [] acc = (st', [], acc', None)
      /\ all_sloteq st' st /\ t_vals st' = t_vals st.
Proof.
  induction l as [|e r IH]; [|destruct e as [k pe]; destruct pe as [o|t']; [destruct o as [x|]|]];
    intros HF cfg HP m n st acc Hn HL; pose proof HP as (Husd & Hinp & Hrs).
  - exists st, acc. rewrite tm_go_nil. split; [reflexivity|]. split; [apply all_sloteq_refl|reflexivity].
  - cbn in HL. destruct HL as ((Hh1 & out & Hh2) & HLr).
    rewrite tm_go_leaf, Husd. cbn [andb negb]. rewrite leaf_step_rs.
    destruct (leaf_step (with_rs cfg) m k x st) as [st1 r1] eqn:El.
    destruct (leaf_step_heap (with_rs cfg) m k x st n st1 r1 (plainF_simple cfg HP) Hn El)
      as (n1 & V1 & V2 & Hn1 & Hoth & Hcu & Hsubs & Hsk & Hr & Hso & _).
    rewrite Hh2 in Hr. subst r1. rewrite Hh1 in Hsk.
    assert (Hall1 : all_sloteq st1 st).
    { intros c. destruct (Z.eq_dec c m) as [->|Hne].
      - rewrite Hn1, Hn. cbn. repeat split; auto. intros k'. destruct (string_dec k' k) as [->|Hk]; auto.
      - rewrite (Hoth c Hne). apply osloteq_refl. }
    assert (HL1 : installedL (t_heap st1) n1 r).
    { assert (Hi : installed (t_heap st1) (PTD r) m).
      { eapply installed_sloteq; [exact Hall1|]. rewrite installed_PTD. exists n. split; [exact Hn|exact HLr]. }
      rewrite installed_PTD in Hi. destruct Hi as (n1' & Hn1' & Hi). unfold hg in Hn1. rewrite Hn1 in Hn1'.
      inversion Hn1'; subst n1'. exact Hi. }
    destruct (IH (Forall_inv_tail HF) cfg HP m n1 st1 (push cfg acc k (PLeaf out)) Hn1 HL1) as (st' & acc' & Hgo & Hall & Hv).
    rewrite Hcu, Hsubs in Hgo. exists st', acc'. split; [exact Hgo|]. split; [|congruence].
    eapply all_sloteq_trans; eauto.
  - cbn in HL. destruct HL.
  - cbn in HL. destruct HL as ((child & Hc & Hi) & HLr).
    rewrite tm_go_sub, Husd, Hc. cbn [andb z_get].
    pose proof (Forall_inv HF) as HN. cbn in HN.
    destruct (HN cfg HP child st Hi) as (st1 & sw1 & Ht & Hall1 & V1). rewrite Ht.
    destruct (sloteq_at_n st1 st m n Hall1 Hn) as (n1 & Hn1 & Hcu & Hsubs & Hsl).
    assert (HL1 : installedL (t_heap st1) n1 r).
    { assert (Hi1 : installed (t_heap st1) (PTD r) m).
      { eapply installed_sloteq; [exact Hall1|]. rewrite installed_PTD. exists n. split; [exact Hn|exact HLr]. }
      rewrite installed_PTD in Hi1. destruct Hi1 as (n1' & Hn1' & Hi1). unfold hg in Hn1. rewrite Hn1 in Hn1'.
      inversion Hn1'; subst n1'. exact Hi1. }
    destruct (IH (Forall_inv_tail HF) cfg HP m n1 st1 (push cfg acc k (PSub sw1)) Hn1 HL1) as (st' & acc' & Hgo & Hall & Hv).
    rewrite Hcu, Hsubs in Hgo. exists st', acc'. split; [exact Hgo|]. split; [|congruence].
    eapply all_sloteq_trans; eauto.
Qed.

Theorem N_all : forall t, N_stmt t.
Proof.
  induction t as [ents HF] using ptd_ind2. intros cfg HP m st Hi.
  rewrite installed_PTD in Hi. destruct Hi as (n & Hn & HL).
  rewrite (to_mod_F cfg ents m st [] HP), Hn.
  destruct (NL ents HF cfg HP m n st [] Hn HL) as (st' & acc' & Hgo & Hall & Hv).
  rewrite Hgo. exists st', (PTD acc'). auto.
Qed.

(* re-applying an installed swap with return_swap=False: the call returns, every slot of every module is as it was, no
   tensor content is written -- whatever the DAG, however many names lead to a sub-module *)
Theorem reapply_installed_noop cfg sw m st :
  plainF cfg -> installed (t_heap st) sw m ->
  exists st' memo' sw', to_module cfg sw m st = TmOk st' memo' sw' /\ all_sloteq st' st /\ t_vals st' = t_vals st.
Proof.
  intros HP Hi. unfold to_module.
  destruct (N_all sw cfg HP m (clear_saved st) Hi) as (st' & sw' & Ht & Hall & Hv).
  exists st', [], sw'. split; [exact Ht|]. split; [exact Hall|exact Hv].
Qed.

(* the invariant is established by the first application: a value just installed under a name holds there *)
Lemma leaf3_installs cu i s x s1 out :
  wfc cu s -> leaf3 cu i s x = (s1, inl out) -> leaf3 cu i s1 x = (s1, inl (Some x)).
Proof.
  unfold leaf3, wfc, sw3, std3, place3, thd3, wf3.
  destruct s as [[p b] a]. destruct cu; cbn.
  - intros ->. destruct p as [orig|]; cbn.
    + intros E; inversion E; subst. reflexivity.
    + destruct b as [orig|]; cbn; intros E; inversion E; subst. reflexivity.
  - destruct p as [[o0|]|]; destruct b as [[o2|]|]; destruct a as [o3|]; cbn; try tauto; intros Hwf;
      try (destruct (is_param x) eqn:Ex; cbn; intros E; inversion E; subst; cbn; rewrite ?Ex; cbn; reflexivity);
      try (intros E; inversion E; subst; cbn; reflexivity);
      try (intros E; inversion E; fail).
Qed.

Lemma leaf_step_installs cfg m k x st n st' out :
  simple cfg -> wf_heap (t_heap st) -> hg st m = Some n -> leaf_step cfg m k x st = (st', inl out) ->
  exists n', hg st' m = Some n' /\ holds n' k x.
Proof.
  intros Hs Hwf Hn El.
  destruct (leaf_step_heap cfg m k x st n st' _ Hs Hn El) as (n' & _ & _ & Hn' & _ & Hcu & Hsubs & Hsk & Hr & _).
  exists n'. split; [exact Hn'|]. unfold holds. rewrite Hcu, Hsubs, Hsk.
  destruct (leaf3 (m_custom n) (d_mem (m_subs n) k) (slot3 n k) x) as [s1 r] eqn:E3. cbn [fst snd] in *. subst r.
  rewrite (leaf3_installs _ _ _ _ _ _ (Hwf m n Hn k) E3). cbn. split; [reflexivity|eauto].
Qed.

(* ------------------------------------------------------------------ non-vacuity *)
(* the originals of the example heap as a swap: root.w, and module 1's w under BOTH names a and b of the shared child *)
Definition ex_sw_orig : ptd :=
  PTD [("w", PLeaf (Some (oP 1))); ("r", PLeaf (Some (oT 2))); ("a", PSub (PTD [("w", PLeaf (Some (oP 3)))]));
       ("b", PSub (PTD [("w", PLeaf (Some (oP 3)))])); ("c", PSub (PTD [("w", PLeaf (Some (oP 1)))]))].
Lemma ex_installed : installed ex_heap ex_sw_orig 0 /\ plainF (mkCfg None false false).
Proof.
  split; [|repeat split; auto].
  cbn. eexists. split; [reflexivity|].
  repeat match goal with
         | |- _ /\ _ => split
         | |- holds _ _ _ => unfold holds; vm_compute; split; [reflexivity|eexists; reflexivity]
         | |- exists child, _ /\ _ => eexists; split; [reflexivity|]
         | |- exists n, h_get _ _ = Some n /\ _ => eexists; split; [reflexivity|]
         | |- True => exact I
         end.
Qed.
(* the hand-written swap-back on the example heap (shared sub-module under two names: its swap is re-applied once per
   name): inside the block module 1 holds the supplied w, afterwards root.w, root.r and module 1's w are back *)
Definition ex_bm := mkBlock 0 None false false true true ex_td1.
Lemma ex_manual_run :
  let '(st', evs, oc) := run_blocks (mkExc XNone 0 false) [ex_bm] 0 ex_st in
  Forall (fun e => ev_out e = OOk) evs /\ oc = OOk
  /\ option_map (fun n => (slot3 n "w", slot3 n "r")) (hg st' 0%Z)
     = Some ((Some (Some (oP 1)), None, None), (None, Some (Some (oT 2)), None))
  /\ option_map (fun n => slot3 n "w") (hg st' 1%Z) = Some (Some (Some (oP 3)), None, None)
  /\ match evs with e :: _ => option_map (fun n => slot3 n "w") (hg (ev_state e) 1%Z) = Some (Some (Some (oP 13)), None, None)
     | [] => False end.
Proof. vm_compute. split; [repeat constructor|]. repeat split. Qed.
