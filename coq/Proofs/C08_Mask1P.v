(* C08: reads through a rank-1 boolean mask sitting ON the stack dim (a mask of members), basic items before and after it,
   flat stack of plain members with at least one batch dim, at least one member selected:
   lazy[pre, mask, post] denotes dense[pre, mask, post]. *)
From Coq Require Import ZArith List Bool Lia ZifyBool.
Import ListNotations.
From TD Require Import Spec.PySlice Spec.C08_Dense Model.C08_Lazy Proofs.C08_CoordP Proofs.C08_IndexP Proofs.C08_ShapeP
  Proofs.C08_TenP Proofs.C08_MaskP.
Open Scope Z_scope.

Lemma chunks_one {A} : forall (l : list A), chunks (List.length l) 1 l = map (fun b => [b]) l.
Proof. induction l as [|b l IH]; [reflexivity|]. cbn [List.length chunks firstn skipn map]. rewrite IH. reflexivity. Qed.

Definition M0 (b : bool) : item := IMask [] [b].

Section Mask1.
  Variable G : arr -> list item -> res arr.
  Variables (parts : list arr) (bs : list Z) (pre post : list item) (cd : nat).
  Hypothesis Hplain : Forall (fun p => is_stack p = false) parts.
  Hypothesis Hshape : Forall (fun p => shape_of p = Some bs) parts.
  Hypothesis Hbs : bs <> [].

  Definition rowF (em : (Z * list item) * item) : res (list arr) :=
    let '((i, sub), mk) := em in
    if mask_any mk then
      rbind (member parts i) (fun m =>
        match shape_of m with
        | Some [] => if mask_all mk
                     then rbind (m_getitem G m (filter (fun it => negb (is_mask0 it)) sub)) (fun x => Ok [x])
                     else rbind (m_getitem G m sub) (fun x => Ok [Squeeze cd x])
        | _ => rbind (m_getitem G m sub) (fun x => Ok [Squeeze cd x])
        end)
    else Ok [].

  Definition subT := pre ++ M0 true :: post.

  Lemma rows_sem : forall bits k0 xs,
    rmap rowF (combine (map (fun jb => (Z.of_nat (fst jb), pre ++ M0 (snd jb) :: post)) (combine (seq k0 (List.length bits)) bits))
                       (map M0 bits)) = Ok xs ->
    exists msel, Forall2 (fun p m => member parts p = Ok m) (true_pos_from (Z.of_nat k0) bits) msel /\
                 concat xs = map (fun m => Squeeze cd (Index subT m)) msel.
  Proof.
    induction bits as [|b bits IH]; intros k0 xs H.
    - cbn in H. inversion H. exists []. split; [constructor|reflexivity].
    - cbn [List.length seq combine map rmap fst snd] in H.
      apply rbind_ok in H. destruct H as [x [Hx H]]. apply rbind_ok in H. destruct H as [xs' [Hxs H]].
      inversion H; subst xs. clear H.
      destruct (IH (S k0) xs' Hxs) as [msel [F E]].
      cbn [true_pos_from]. replace (Z.of_nat k0 + 1) with (Z.of_nat (S k0)) by lia.
      unfold rowF, M0 in Hx. cbn [mask_any existsb] in Hx.
      destruct b; cbn [orb] in Hx.
      + apply rbind_ok in Hx. destruct Hx as [m [Em Hx]].
        pose proof (member_In _ _ _ Em) as Hin.
        rewrite (proj1 (Forall_forall _ _) Hshape m Hin) in Hx.
        assert (Hx' : rbind (m_getitem G m (pre ++ IMask [] [true] :: post)) (fun x => Ok [Squeeze cd x]) = Ok x)
          by (destruct bs; [congruence|exact Hx]).
        apply rbind_ok in Hx'. destruct Hx' as [y [Hy Hx']]. inversion Hx'; subst x. clear Hx'.
        unfold m_getitem in Hy. rewrite (proj1 (Forall_forall _ _) Hplain m Hin) in Hy.
        assert (Hf : forallb is_full_slice (pre ++ IMask [] [true] :: post) = false).
        { clear. induction pre as [|it l IHl]; [reflexivity|]. cbn [app forallb]. rewrite IHl. apply andb_false_r. }
        rewrite Hf, (proj1 (Forall_forall _ _) Hshape m Hin) in Hy.
        assert (Ey : y = Index (pre ++ IMask [] [true] :: post) m) by (destruct bs; [congruence|inversion Hy; reflexivity]).
        subst y. exists (m :: msel). split; [constructor; assumption|].
        cbn [concat map app]. rewrite E. reflexivity.
      + inversion Hx; subst x. exists msel. split; [exact F|exact E].
  Qed.
End Mask1.

Lemma nth_error_combine {A B} (a : list A) : forall (b : list B) k,
  nth_error (combine a b) k = match nth_error a k, nth_error b k with Some x, Some y => Some (x, y) | _, _ => None end.
Proof.
  induction a as [|x a IH]; intros [|y b] [|k]; cbn; try reflexivity.
  - destruct (nth_error a k); reflexivity.
  - apply IH.
Qed.

Lemma es_form pre post bits :
  map (fun j => (j, pre ++ nth (Z.to_nat j) (map M0 bits) INone :: post)) (map Z.of_nat (seq 0 (List.length bits))) =
  map (fun jb : nat * bool => (Z.of_nat (fst jb), pre ++ M0 (snd jb) :: post)) (combine (seq 0 (List.length bits)) bits).
Proof.
  apply list_ext. intros k. rewrite !nth_error_map, nth_error_combine, nth_error_seq. cbn [Nat.add].
  destruct (k <? List.length bits)%nat eqn:Ek.
  - apply Nat.ltb_lt in Ek. cbn [option_map].
    destruct (nth_error bits k) as [b|] eqn:Eb; [|apply nth_error_None in Eb; lia].
    cbn [option_map fst snd]. rewrite Nat2Z.id.
    rewrite (nth_indep _ INone (M0 false)) by (rewrite map_length; exact Ek).
    rewrite (map_nth M0 bits false k). rewrite (nth_error_nth _ _ false Eb). reflexivity.
  - reflexivity.
Qed.

Lemma true_pos_from_ge bits : forall k p, In p (true_pos_from k bits) -> k <= p.
Proof.
  induction bits as [|b bits IH]; intros k p H; cbn in H; [contradiction|].
  destruct b; [destruct H as [H|H]; [lia|]|]; specialize (IH _ _ H); lia.
Qed.

Section Mask1Level.
  Variable G : arr -> list item -> res arr.
  Variables (sd : nat) (bs0 : list Z) (parts : list arr) (S1 S2 : list Z).
  Let bs := S1 ++ S2.
  Let self := Stack sd bs0 parts.
  Let shape := S1 ++ lenZ parts :: S2.
  Hypothesis HS1 : List.length S1 = sd.
  Hypothesis Hne : parts <> [].
  Hypothesis Hshape : Forall (fun p => shape_of p = Some bs) parts.
  Hypothesis Hplain : Forall (fun p => is_stack p = false) parts.
  Hypothesis Hnn : Forall (fun s => 0 <= s) bs.
  Hypothesis Hbs : bs <> [].

  Theorem getitem_mask1_core pre n bits post a' rsd :
    basic pre -> consumed pre = sd -> basic post ->
    existsb (fun b => b) bits = true ->
    res_shape (pre ++ IMask [n] bits :: post) shape = Some rsd ->
    getitem_body G self sd bs0 parts shape (pre ++ IMask [n] bits :: post) = Ok a' ->
    equiv a' (Index (pre ++ IMask [n] bits :: post) self).
  Proof.
    intros HB HC HBp Hany Hlegal H.
    assert (HNpre : noell pre) by (apply basic_noell; exact HB).
    assert (HCpre : consumed pre = List.length S1) by lia.
    assert (HP : Forall post_item post) by (apply basic_post; exact HBp).
    pose proof Hlegal as Hlegal0.
    unfold shape in Hlegal. rewrite (res_shape_app pre HNpre S1 _ _ HCpre) in Hlegal.
    destruct (res_shape pre S1) as [ra|] eqn:Era; [|discriminate].
    cbn [res_shape List.length firstn skipn] in Hlegal.
    destruct (list_eqb [lenZ parts] [n] && (lenZ bits =? prodZ [n])) eqn:Hc; [|discriminate].
    destruct (res_shape post S2) as [rb|] eqn:Erb; [|discriminate]. cbn [option_map] in Hlegal.
    pose proof Hc as Hc0. apply andb_prop in Hc. destruct Hc as [Hn HLb].
    apply list_eqb_eq in Hn. inversion Hn as [Hn']. subst n. clear Hn.
    assert (HLb' : List.length bits = List.length parts) by (cbn in HLb; unfold lenZ in HLb; lia).
    assert (Hms : mask_unbind [lenZ parts] bits = Ok (map M0 bits)).
    { unfold mask_unbind. cbn [prodZ fold_right]. unfold lenZ. rewrite Nat2Z.id, <- HLb'.
      change (Z.to_nat 1) with 1%nat. rewrite chunks_one, map_map. reflexivity. }
    assert (HA : one_adv (pre ++ IMask [lenZ parts] bits :: post)).
    { unfold one_adv.
      assert (E : forall l, basic l -> filter is_adv l = []).
      { intros l Hl. induction Hl as [|it l Hit _ IH]; [reflexivity|]. cbn. destruct it; cbn in Hit; try contradiction; cbn; exact IH. }
      rewrite filter_app. cbn [filter is_adv]. rewrite (E pre HB), (E post HBp). reflexivity. }
    unfold getitem_body in H.
    rewrite (split_index_mask_on sd (List.length parts) shape pre (lenZ parts) [] bits (map M0 bits) post HB HC HP HA Hms
               ltac:(rewrite map_length; exact HLb')) in H.
    cbn [rbind mk_split_mask sp_has_bool sp_mask_loc sp_num_single sp_kind sp_masks] in H.
    rewrite (cat_dim_basic pre HB) in H.
    unfold nonneg_nat in H. replace (Z.of_nat (rdims_l pre) <? 0) with false in H by lia. cbn [rbind] in H.
    rewrite Nat2Z.id in H. set (cd := rdims_l pre) in *.
    assert (Hcd : List.length ra = cd) by (eapply res_shape_exact; eauto).
    assert (Hr0 : mask_rank0 (map M0 bits) = true).
    { destruct bits as [|b bits']; [discriminate|reflexivity]. }
    rewrite Hr0 in H. rewrite !map_length, seq_length, HLb', Nat.eqb_refl in H. cbn [negb] in H.
    rewrite <- HLb' in H. rewrite es_form in H.
    apply rbind_ok in H. destruct H as [xs [Hxs H]].
    destruct (rows_sem G parts bs pre post cd Hplain Hshape Hbs bits 0%nat xs Hxs) as [msel [F E]].
    change (true_pos_from (Z.of_nat 0) bits) with (true_pos bits) in F.
    rewrite E in H.
    assert (Hsel : msel <> []).
    { intros ->. inversion F as [Hnil|]. clear -Hany Hnil. unfold true_pos in Hnil. revert Hnil. generalize 0.
      induction bits as [|b bits IH]; intros k Hk; [discriminate|]. cbn in Hany, Hk. destruct b; [discriminate|]. eapply IH; eauto. }
    destruct msel as [|m0 msel']; [congruence|].
    set (msel := m0 :: msel') in *. clear E Hxs.
    destruct (map (fun m : arr => Squeeze cd (Index (subT pre post) m)) msel) as [|y0 ys] eqn:Emap; [discriminate Emap|].
    injection H as H. subst a'. rewrite <- Emap. clear Emap y0 ys.
    (* shapes *)
    assert (HsubT : res_shape (subT pre post) bs = Some (ra ++ 1 :: rb)).
    { unfold subT, bs. rewrite (res_shape_app pre HNpre S1 S2 _ HCpre), Era. cbn [res_shape M0 List.length firstn skipn].
      rewrite Erb. reflexivity. }
    assert (Hmsel : Forall (fun m => shape_of m = Some bs) msel).
    { clear -F Hshape. induction F as [|p m ps ms Hm _ IH]; constructor; [|exact IH].
      apply (proj1 (Forall_forall _ _) Hshape). eapply member_In; exact Hm. }
    assert (Hxsh : Forall (fun y => shape_of y = Some (ra ++ rb)) (map (fun m => Squeeze cd (Index (subT pre post) m)) msel)).
    { apply Forall_forall. intros y Hy. apply in_map_iff in Hy. destruct Hy as [m [Ey Hm]]. subst y.
      cbn [shape_of]. rewrite (proj1 (Forall_forall _ _) Hmsel m Hm). cbn [opt_bind]. rewrite HsubT. cbn [opt_bind].
      rewrite <- Hcd. rewrite nth_error_app_mid. cbn. rewrite remove_at_app. reflexivity. }
    assert (Hself : shape_of self = Some shape).
    { unfold self, shape. rewrite (shape_of_stack sd bs0 parts bs Hne Hshape) by (unfold bs; rewrite app_length; lia).
      unfold compute_batch_size, bs. rewrite <- HS1 at 1. rewrite insert_at_app. reflexivity. }
    assert (Hlen : lenZ (map (fun m => Squeeze cd (Index (subT pre post) m)) msel) = lenZ (true_pos bits)).
    { unfold lenZ. rewrite map_length, <- (Forall2_length _ _ _ F). reflexivity. }
    assert (Hxne : map (fun m => Squeeze cd (Index (subT pre post) m)) msel <> []) by (unfold msel; discriminate).
    split.
    - rewrite (shape_of_stack cd [] _ (ra ++ rb) Hxne Hxsh ltac:(rewrite app_length; lia)).
      unfold compute_batch_size. rewrite Hlen, <- Hcd, insert_at_app.
      rewrite (shape_index _ _ _ Hself). fold shape. rewrite Hlegal0, <- Hlegal. reflexivity.
    - intros r. rewrite at_stack, (at_index _ _ _ r Hself). unfold shape.
      rewrite (src_of_app pre HNpre S1 _ _ r HCpre). fold cd.
      destruct (nth_error r cd) as [x|] eqn:Ex.
      + destruct (nth_error_split _ _ _ Ex) as [r1 [r2 [Er12 Lr1]]]. subst r.
        rewrite <- Lr1. rewrite firstn_app_exact', skipn_app_exact', remove_at_app.
        cbn [src_of List.length firstn skipn]. rewrite Hc0.
        rewrite nthZ_map.
        pose proof (Forall2_nthZ _ _ _ F x) as HF.
        destruct (nthZ (true_pos bits) x) as [p|] eqn:Ep; destruct (nthZ msel x) as [m|] eqn:Em; try contradiction.
        * cbn [option_map].
          assert (Hp0 : 0 <= p) by (apply (true_pos_from_ge bits 0 p); eapply nthZ_In; exact Ep).
          (* the model side *)
          cbn [at_ shape_of].
          assert (Hm : shape_of m = Some bs) by (apply (proj1 (Forall_forall _ _) Hmsel); eapply nthZ_In; exact Em).
          rewrite Hm. cbn [opt_bind]. rewrite HsubT. cbn [opt_bind]. rewrite Lr1, <- Hcd, nth_error_app_mid. cbn [Z.eqb].
          rewrite Hcd, <- Lr1, insert_at_app.
          unfold subT, bs. rewrite (src_of_app pre HNpre S1 S2 _ _ HCpre). fold cd. rewrite <- Lr1.
          rewrite firstn_app_exact', skipn_app_exact'.
          destruct (src_of pre S1 r1) as [a1|] eqn:Ea1; [|reflexivity].
          cbn [src_of M0 List.length firstn skipn list_eqb forallb combine andb Nat.eqb lenZ prodZ fold_right Z.of_nat Z.eqb].
          cbn [true_pos true_pos_from nthZ Z.ltb Z.compare Z.to_nat nth_error unravel app].
          change (unravel [lenZ parts] p) with [(if 1 =? 0 then 0 else p / 1)]. cbn [Z.eqb]. rewrite Z.div_1_r.
          destruct (src_of post S2 r2) as [b1|]; [|reflexivity]. cbn [option_map opt_bind app].
          unfold self. rewrite at_stack.
          assert (La1 : List.length a1 = sd) by (rewrite (src_of_length pre HNpre S1 r1 a1 HCpre Ea1); exact HS1).
          rewrite <- La1. rewrite nth_error_app_mid, remove_at_app.
          change (prodZ [] =? 0) with false. cbn [Pos.eqb Pos.of_succ_nat]. cbv iota. cbn [opt_bind option_map app].
          unfold member in HF. destruct (norm_i p (lenZ parts)) as [p'|] eqn:Enp; [|discriminate].
          assert (p' = p).
          { unfold norm_i, in_dim in Enp. destruct ((0 <=? p) && (p <? lenZ parts)); [congruence|].
            destruct ((- lenZ parts <=? p) && (p <? 0)) eqn:E2; [lia|discriminate]. }
          subst p'. destruct (nthZ parts p) as [m'|]; cbn in HF; [|discriminate]. inversion HF; subst m'. reflexivity.
        * destruct (src_of pre S1 r1); reflexivity.
      + apply nth_error_None in Ex. rewrite (skipn_all2 r) by exact Ex.
        destruct (src_of pre S1 (firstn cd r)); [|reflexivity]. cbn [src_of List.length firstn skipn]. rewrite Hc0. reflexivity.
  Qed.
End Mask1Level.

(* split_index_adv_on_stack, rank-1 boolean mask: flat stack of plain members with at least one batch dim, at least one
   member selected (nothing selected = the D31r region: an empty lazy stack) *)
Theorem getitem_mask1_on_stack : forall fuel sd bs0 parts bs pre n bits post a' rsd,
  parts <> [] -> Forall (fun p => wf_tree p bs /\ is_stack p = false) parts -> (sd <= List.length bs)%nat -> bs <> [] ->
  basic pre -> consumed pre = sd -> basic post -> existsb (fun b => b) bits = true ->
  res_shape (pre ++ IMask [n] bits :: post) (insert_at sd (lenZ parts) bs) = Some rsd ->
  lz_getitem (S fuel) (Stack sd bs0 parts) (pre ++ IMask [n] bits :: post) = Ok a' ->
  equiv a' (Index (pre ++ IMask [n] bits :: post) (Stack sd bs0 parts)).
Proof.
  intros fuel sd bs0 parts bs pre n bits post a' rsd Hne Hparts Hsd Hbs HB HC HBp Hany Hlegal H.
  assert (Hsh : Forall (fun p => shape_of p = Some bs) parts).
  { eapply Forall_impl; [|exact Hparts]. intros p [Hw _]. apply wf_shape. exact Hw. }
  assert (Hpl : Forall (fun p => is_stack p = false) parts) by (eapply Forall_impl; [|exact Hparts]; intros p [_ A]; exact A).
  assert (Hnn : Forall (fun s => 0 <= s) bs).
  { destruct parts as [|p0 ps]; [congruence|]. inversion Hparts as [|? ? [Hw _] _]; subst. eapply wf_nonneg; eauto. }
  cbn [lz_getitem] in H. rewrite (shape_of_stack sd bs0 parts bs Hne Hsh Hsd) in H. unfold compute_batch_size in H.
  destruct (split_at sd bs Hsd) as [S1 [S2 [Ebs LS1]]]. subst bs.
  assert (Eins : insert_at sd (lenZ parts) (S1 ++ S2) = S1 ++ lenZ parts :: S2) by (rewrite <- LS1; apply insert_at_app).
  rewrite Eins in H, Hlegal.
  eapply (getitem_mask1_core (lz_getitem fuel) sd bs0 parts S1 S2 LS1 Hne Hsh Hpl Hbs pre n bits post a' rsd); eauto.
Qed.
