(* C16 proofs, part 7: writes.  NonTensorData._update / NonTensorStack._update (update_in), the lazy __setitem__ on a
   non-tensor stack (assign), the promotion of _set_at_str (set_at). *)
From Coq Require Import ZArith List Bool Lia.
Import ListNotations.
From TD Require Import Spec.PySlice Spec.C16_ObjArray Model.C16_NonTensor.
From TD Require Import Proofs.C16_BasicsP Proofs.C16_StackP Proofs.C16_SpecP Proofs.C16_IndexP Proofs.C16_TolistP.
Open Scope nat_scope.

(* outside its batch shape an entry holds nothing *)
Lemma denote_out_of_range x : forall sh I, wf x = true -> shape x = Some sh -> in_range sh I = false -> denote x I = None.
Proof.
  induction x as [p sh0|d l IH] using nt_ind'; intros sh I Hw Hsh Hr.
  - cbn [shape] in Hsh. injection Hsh as <-. cbn [denote]. now rewrite Hr.
  - apply wf_stack in Hw as (m0 & r0 & s & El & Hwf & Hss & Hd).
    assert (Hshape : sh = insert_at d (length l) s).
    { subst l. inversion Hss; subst. rewrite (shape_stack d m0 r0 s) in Hsh by assumption. now injection Hsh as <-. }
    subst sh. rewrite in_range_insert in Hr by assumption. rewrite denote_stack.
    destruct (nth_error I d) as [j|]; [|reflexivity].
    destruct (nth_error l j) as [m|] eqn:Em; [|reflexivity].
    assert (j < length l) by (apply nth_error_Some; congruence).
    replace (j <? length l) with true in Hr by (symmetry; now apply Nat.ltb_lt). cbn [andb] in Hr.
    exact (Forall_nth_error _ _ _ _ IH Em s _ (Forall_nth_error _ _ _ _ Hwf Em) (Forall_nth_error _ _ _ _ Hss Em) Hr).
Qed.

Lemma expand_shared_wf p sh y : expand_shared p sh = Ok y -> wf y = true.
Proof. intros H. exact (proj2 (to_stack_shape (Shared p sh) y eq_refl H)). Qed.

(* the two-list map of update_in *)
Fixpoint rmap2 {A B C} (f : A -> B -> res C) (l : list A) (ps : list B) : res (list C) :=
  match l, ps with
  | [], _ => Ok []
  | m :: r, q :: ps' => rbind (f m q) (fun y => rbind (rmap2 f r ps') (fun ys => Ok (y :: ys)))
  | _ :: _, [] => Raised
  end.
Lemma update_in_mp fx l ps :
  (fix mp (l : list nt) (ps : list nt) : res (list nt) :=
     match l, ps with
     | [], _ => Ok []
     | m :: r, q :: ps' => rbind (update_in_f fx m q) (fun y => rbind (mp r ps') (fun ys => Ok (y :: ys)))
     | _ :: _, [] => Raised
     end) l ps = rmap2 (update_in_f fx) l ps.
Proof. revert ps. induction l as [|m r IH]; intros [|q ps]; cbn [rmap2]; try reflexivity. now rewrite IH. Qed.

Lemma update_members_mp fx src l :
  (fix mp (l : list nt) : res (list nt) :=
     match l with
     | [] => Ok []
     | m :: r => rbind (update_in_f fx m src) (fun y => rbind (mp r) (fun ys => Ok (y :: ys)))
     end) l = rmap (fun m => update_in_f fx m src) l.
Proof. induction l as [|m r IH]; cbn [rmap]; [reflexivity|]. now rewrite IH. Qed.

Lemma rmap2_spec {A B C} (f : A -> B -> res C) l : forall ps ys,
  rmap2 f l ps = Ok ys -> length l <= length ps ->
  length ys = length l /\ forall k m q, nth_error l k = Some m -> nth_error ps k = Some q -> exists y, nth_error ys k = Some y /\ f m q = Ok y.
Proof.
  induction l as [|m r IH]; intros ps ys H L; cbn [rmap2] in H.
  - injection H as <-. split; [reflexivity|]. intros k ? ? E. now destruct k.
  - destruct ps as [|q ps]; [discriminate|]. destruct (f m q) as [y| |] eqn:Ey; cbn [rbind] in H; try discriminate.
    destruct (rmap2 f r ps) as [ys'| |] eqn:Er; cbn [rbind] in H; try discriminate. injection H as <-.
    cbn [length] in L. destruct (IH ps ys' Er ltac:(lia)) as [A1 A2]. split; [cbn; lia|].
    intros k m' q' E1 E2. destruct k; cbn [nth_error] in *.
    + injection E1 as <-. injection E2 as <-. eauto.
    + eapply A2; eauto.
Qed.

(* update(inplace) with a NonTensorData source (after the repair of C16-k): every member takes the value as it is — any
   nesting, members with batch dims included *)
Lemma update_in_shared dst : forall q s' sh y,
  wf dst = true -> shape dst = Some sh -> update_in_f true dst (Shared q s') = Ok y ->
  shape y = Some sh /\ wf y = true /\ forall I, denote y I = denote (Shared q sh) I.
Proof.
  induction dst as [p sh0|d l IH] using nt_ind'; intros q s' sh y Hw Hsh H.
  - cbn [update_in_f] in H. injection H as <-. cbn [shape] in Hsh. injection Hsh as <-. auto.
  - cbn [update_in_f] in H. rewrite update_members_mp in H.
    destruct (rmap (fun m => update_in_f true m (Shared q s')) l) as [ys| |] eqn:Er; cbn [rbind] in H; try discriminate.
    injection H as <-.
    apply wf_stack in Hw as (m0 & r0 & s & El & Hwf & Hsm & Hd).
    assert (Hshape : sh = insert_at d (length l) s).
    { subst l. inversion Hsm; subst. rewrite (shape_stack d m0 r0 s) in Hsh by assumption. now injection Hsh as <-. }
    assert (Lys : length ys = length l) by (eapply rmap_ok_length; eauto).
    assert (Hall : Forall (fun y => shape y = Some s /\ wf y = true) ys /\
                   forall k y, nth_error ys k = Some y -> forall I, denote y I = denote (Shared q s) I).
    { split.
      - apply Forall_forall. intros y Hy. apply In_nth_error in Hy as [k Hk].
        destruct (rmap_ok_nth_inv _ _ _ _ _ Er Hk) as (m & Em & Hm).
        destruct (Forall_nth_error _ _ _ _ IH Em q s' s y (Forall_nth_error _ _ _ _ Hwf Em) (Forall_nth_error _ _ _ _ Hsm Em) Hm)
          as (A & B & _). now split.
      - intros k y Hk I. destruct (rmap_ok_nth_inv _ _ _ _ _ Er Hk) as (m & Em & Hm).
        destruct (Forall_nth_error _ _ _ _ IH Em q s' s y (Forall_nth_error _ _ _ _ Hwf Em) (Forall_nth_error _ _ _ _ Hsm Em) Hm)
          as (_ & _ & C). apply C. }
    destruct Hall as [Hall Hden].
    assert (Hne : ys <> []). { intros ->. subst l. cbn in Lys. lia. }
    destruct (stack_of_members d ys s Hne Hall Hd) as [S W].
    split; [|split; [exact W|]].
    + rewrite S, Lys. now subst sh.
    + intros I. rewrite denote_stack. cbn [denote]. subst sh. rewrite in_range_insert by assumption.
      destruct (nth_error I d) as [k|] eqn:Ek; [|reflexivity].
      destruct (nth_error ys k) as [y|] eqn:Ey.
      * rewrite (Hden k y Ey). cbn [denote].
        assert (k < length l) by (rewrite <- Lys; apply nth_error_Some; congruence).
        replace (k <? length l) with true by (symmetry; now apply Nat.ltb_lt). reflexivity.
      * apply nth_error_None in Ey. replace (k <? length l) with false by (symmetry; apply Nat.ltb_ge; lia). reflexivity.
Qed.

(* update(inplace): the destination keeps its batch shape and takes every object of the source *)
Theorem update_in_spec dst : forall src sh y,
  wf dst = true -> shape dst = Some sh -> wf src = true -> shape src = Some sh -> update_in dst src = Ok y ->
  shape y = Some sh /\ wf y = true /\ forall I, denote y I = denote src I.
Proof.
  induction dst as [p sh0|d l IH] using nt_ind'; intros src sh y Hw Hsh Hws Hss H.
  - unfold update_in in H. cbn [update_in_f] in H. cbn [shape] in Hsh. injection Hsh as <-. destruct src as [q shq|]; [|discriminate].
    injection H as <-. cbn [shape] in Hss. injection Hss as ->. repeat split; auto.
  - destruct src as [q shq|ds ls].
    { (* a NonTensorData source: handed to the members *)
      unfold update_in, fixed_C16k in H. cbn [shape] in Hss. injection Hss as ->.
      exact (update_in_shared (Stack d l) q sh sh y Hw Hsh H). }
    unfold update_in, fixed_C16k in H. cbn [update_in_f] in H. fold fixed_C16k in H.
    change (update_in_f fixed_C16k) with update_in in H.
    pose proof Hw as Hw0. apply wf_stack in Hw as (m0 & r0 & s & El & Hwf & Hsm & Hd).
    assert (Hshape : sh = insert_at d (length l) s).
    { subst l. inversion Hsm; subst. rewrite (shape_stack d m0 r0 s) in Hsh by assumption. now injection Hsh as <-. }
    (* the source, rebuilt as a stack when it is a NonTensorData *)
    cbn [rbind] in H. set (src' := Stack ds ls) in *.
    assert (Hs' : wf src' = true /\ shape src' = Some sh /\ forall I, denote src' I = denote src' I) by auto.
    destruct Hs' as (Hws' & Hss' & Hds').
    destruct (unbind d src') as [pieces| |] eqn:Eu; cbn [rbind] in H; try discriminate.
    destruct (negb (Nat.eqb (length pieces) (length l))) eqn:El2; [discriminate|].
    apply negb_false_iff in El2. apply Nat.eqb_eq in El2.
    unfold update_in in H. rewrite update_in_mp in H. fold update_in in H. destruct (rmap2 update_in l pieces) as [ys| |] eqn:Er; cbn [rbind] in H; try discriminate.
    injection H as <-.
    assert (Hnd : nth_error sh d = Some (length l)) by (subst sh; now apply nth_error_insert_at).
    destruct (unbind_spec src' d sh (length l) pieces Hws' Hss' Hnd Eu) as [Lp Hp].
    destruct (rmap2_spec _ _ _ _ Er ltac:(lia)) as [Lys Hys].
    assert (Hrem : remove_at d sh = s) by (subst sh; now apply remove_insert_at).
    assert (Hall : Forall (fun y => shape y = Some s /\ wf y = true) ys /\
                   forall k y, nth_error ys k = Some y -> forall I, d <= length I -> denote y I = denote src' (insert_at d k I)).
    { split.
      - apply Forall_forall. intros y Hy. apply In_nth_error in Hy as [k Hk].
        assert (k < length l) by (rewrite <- Lys; apply nth_error_Some; congruence).
        destruct (nth_error l k) as [m|] eqn:Em; [|apply nth_error_None in Em; lia].
        destruct (nth_error pieces k) as [q|] eqn:Eq; [|apply nth_error_None in Eq; lia].
        destruct (Hys k m q Em Eq) as (y' & Ey' & Hy'). assert (y' = y) by congruence. subst y'.
        destruct (Hp k q Eq) as (Sq & Wq & _). rewrite Hrem in Sq.
        destruct (Forall_nth_error _ _ _ _ IH Em q s y (Forall_nth_error _ _ _ _ Hwf Em) (Forall_nth_error _ _ _ _ Hsm Em) Wq Sq Hy') as (A & B & _).
        now split.
      - intros k y Hk I HI.
        assert (k < length l) by (rewrite <- Lys; apply nth_error_Some; congruence).
        destruct (nth_error l k) as [m|] eqn:Em; [|apply nth_error_None in Em; lia].
        destruct (nth_error pieces k) as [q|] eqn:Eq; [|apply nth_error_None in Eq; lia].
        destruct (Hys k m q Em Eq) as (y' & Ey' & Hy'). assert (y' = y) by congruence. subst y'.
        destruct (Hp k q Eq) as (Sq & Wq & Dq). rewrite Hrem in Sq.
        destruct (Forall_nth_error _ _ _ _ IH Em q s y (Forall_nth_error _ _ _ _ Hwf Em) (Forall_nth_error _ _ _ _ Hsm Em) Wq Sq Hy') as (_ & _ & C).
        rewrite C. now apply Dq. }
    destruct Hall as [Hall Hden].
    assert (Hne : ys <> []). { intros ->. subst l. cbn in Lys. lia. }
    destruct (stack_of_members d ys s Hne Hall Hd) as [S W].
    split; [|split; [exact W|]].
    + rewrite S, Lys. now subst sh.
    + intros I. rewrite denote_stack.
      destruct (nth_error I d) as [k|] eqn:Ek.
      * destruct (nth_error ys k) as [y|] eqn:Ey.
        -- assert (d < length I) by (apply nth_error_Some; congruence).
           rewrite (Hden k y Ey) by (rewrite length_remove_at; lia). now rewrite (insert_remove_at I d k Ek).
        -- symmetry. apply (denote_out_of_range src' sh I Hws' Hss'). subst sh. rewrite in_range_insert by assumption.
           rewrite Ek. apply nth_error_None in Ey. replace (k <? length l) with false by (symmetry; apply Nat.ltb_ge; lia). reflexivity.
      * symmetry. apply (denote_out_of_range src' sh I Hws' Hss'). subst sh. rewrite in_range_insert by assumption. now rewrite Ek.
Qed.

(* ---------------- unfolding assign *)
Definition write1_f (sub : list item) (replace : bool) (m piece : nt) : res nt :=
  match sub with
  | [] => if replace then Ok piece else update_in m piece
  | _ => assign m sub piece
  end.

Definition go_f (d : nat) (l : list nt) (sub : list item) (js : list nat) (pieces : list nt) (replace : bool) : res nt :=
  if negb (Nat.eqb (length js) (length pieces)) then Raised
  else if negb (forallb (fun j => j <? length l) js) then Raised
  else if negb (nodupb js) then OutOfModel
  else rbind (write_all_f (write1_f sub replace) js pieces l 0) (fun l' => Ok (Stack d l')).

Definition assign_at (d : nat) (l : list nt) (s : sst) (at_ : option item) (post : list item) (v : nt) : res nt :=
  let sub := s_pre s ++ post in
  let ud := new_stack_dim d s in
  let n := length l in
  match at_ with
  | None => rbind (unbind ud v) (fun ps => go_f d l sub (seq 0 n) ps false)
  | Some (IInt i) => match norm i n with Some j => go_f d l sub [j] [v] false | None => Raised end
  | Some (ISl a b c) =>
      if (step_of c <=? 0)%Z then OutOfModel else rbind (unbind ud v) (fun ps => go_f d l sub (range_sel a b c n) ps false)
  | Some (ITen [k] vals) => rbind (norm_all vals n) (fun js => rbind (unbind ud v) (fun ps => go_f d l sub js ps (negb fixed_D23)))
  | _ => OutOfModel
  end.

Lemma assign_stack d l it idx v :
  assign (Stack d l) (it :: idx) v =
  match split_at d (it :: idx) sst0 with
  | Raised => Raised
  | OutOfModel => OutOfModel
  | Ok (s, at_, post) => assign_at d l s at_ post v
  end.
Proof.
  cbn [assign]. destruct (split_at d (it :: idx) sst0) as [[[s at_] post]| |]; reflexivity.
Qed.

Lemma assign_nil x v : assign x [] v = update_in x v.
Proof. destruct x; reflexivity. Qed.

(* ---------------- find_piece / write_all_f *)
Lemma find_piece_some {A} j : forall js (ps : list A) q,
  find_piece j js ps = Some q -> exists k, nth_error js k = Some j /\ nth_error ps k = Some q.
Proof.
  induction js as [|j0 js IH]; intros [|p ps] q H; cbn [find_piece] in H; try discriminate.
  destruct (Nat.eqb j0 j) eqn:E.
  - apply Nat.eqb_eq in E. subst. injection H as <-. exists 0. now split.
  - destruct (IH ps q H) as (k & A1 & A2). exists (S k). now split.
Qed.

Lemma nodupb_spec js : nodupb js = true -> forall a b j, nth_error js a = Some j -> nth_error js b = Some j -> a = b.
Proof.
  induction js as [|j0 js IH]; intros H a b j Ea Eb; [now destruct a|].
  cbn [nodupb] in H. apply andb_true_iff in H as [H1 H2]. apply negb_true_iff in H1.
  assert (Hnot : forall k, nth_error js k <> Some j0).
  { intros k Ek. apply nth_error_In in Ek. assert (existsb (Nat.eqb j0) js = true); [|congruence].
    apply existsb_exists. exists j0. split; [assumption|apply Nat.eqb_refl]. }
  destruct a as [|a], b as [|b]; cbn [nth_error] in *; try reflexivity.
  - injection Ea as <-. exfalso. eapply Hnot; eauto.
  - injection Eb as <-. exfalso. eapply Hnot; eauto.
  - f_equal. eapply IH; eauto.
Qed.

Lemma find_piece_nth {A} js : forall (ps : list A) k j q,
  nodupb js = true -> nth_error js k = Some j -> nth_error ps k = Some q -> find_piece j js ps = Some q.
Proof.
  induction js as [|j0 js IH]; intros ps k j q Hn Ej Eq; [now destruct k|].
  destruct ps as [|p ps]; [now destruct k|]. cbn [find_piece].
  destruct k as [|k]; cbn [nth_error] in *.
  - injection Ej as <-. injection Eq as <-. now rewrite Nat.eqb_refl.
  - destruct (Nat.eqb j0 j) eqn:E.
    + apply Nat.eqb_eq in E. subst j0. pose proof (nodupb_spec _ Hn 0 (S k) j eq_refl Ej). discriminate.
    + cbn [nodupb] in Hn. apply andb_true_iff in Hn as [_ Hn]. eapply IH; eauto.
Qed.

Lemma find_piece_none {A} j : forall js (ps : list A),
  length js = length ps -> find_piece j js ps = None -> forall k, nth_error js k <> Some j.
Proof.
  induction js as [|j0 js IH]; intros [|p ps] L H k E; cbn [length] in L; try lia; [now destruct k|].
  cbn [find_piece] in H. destruct (Nat.eqb j0 j) eqn:E0; [discriminate|]. apply Nat.eqb_neq in E0.
  destruct k; cbn [nth_error] in E; [congruence|]. eapply IH; eauto.
Qed.

Lemma write_all_spec w js ps : forall l j ys,
  write_all_f w js ps l j = Ok ys ->
  length ys = length l /\
  forall k m, nth_error l k = Some m ->
    exists y, nth_error ys k = Some y /\
      match find_piece (j + k) js ps with Some q => w m q = Ok y | None => y = m end.
Proof.
  induction l as [|m0 l IH]; intros j ys H; cbn [write_all_f] in H.
  - injection H as <-. split; [reflexivity|]. intros k m E. now destruct k.
  - destruct (match find_piece j js ps with Some q => w m0 q | None => Ok m0 end) as [y0| |] eqn:E0; cbn [rbind] in H; try discriminate.
    fold (write_all_f w js ps) in H.
    destruct (write_all_f w js ps l (S j)) as [ys'| |] eqn:E1; cbn [rbind] in H; try discriminate. injection H as <-.
    destruct (IH (S j) ys' E1) as [L N]. split; [cbn; lia|]. intros k m E. destruct k; cbn [nth_error] in *.
    + injection E as <-. exists y0. split; [reflexivity|]. rewrite Nat.add_0_r.
      destruct (find_piece j js ps); [assumption|now injection E0 as <-].
    + destruct (N k m E) as (y & A1 & A2). exists y. split; [assumption|]. now replace (j + S k) with (S j + k) by lia.
Qed.

(* ---------------- what a write leaves behind: the addressed positions hold the value, the others are untouched *)
Definition written (y x v : nt) (idx : list item) (sh : list nat) : Prop :=
  shape y = Some sh /\ wf y = true /\
  (forall R I, ix_src idx sh R = Some I -> denote y I = denote v R) /\
  (forall I, (forall R, ix_src idx sh R <> Some I) -> denote y I = denote x I).

Lemma written_whole y x v sh :
  wf x = true -> shape x = Some sh -> wf v = true -> shape v = Some sh ->
  shape y = Some sh -> wf y = true -> (forall I, denote y I = denote v I) -> written y x v [] sh.
Proof.
  intros Hwx Hsx Hwv Hsv Hsy Hwy Hd. repeat split; auto.
  - intros R I H. cbn [ix_src] in H. destruct (in_range sh R); [|discriminate]. injection H as <-. apply Hd.
  - intros I HI. assert (in_range sh I = false).
    { destruct (in_range sh I) eqn:E; [|reflexivity]. exfalso. apply (HI I). cbn [ix_src]. now rewrite E. }
    rewrite Hd, (denote_out_of_range v sh I Hwv Hsv H). symmetry. now apply (denote_out_of_range x sh I).
Qed.

Definition assign_ok (m : nt) : Prop :=
  forall idx v sh r y, wf m = true -> shape m = Some sh -> n_adv idx <= 1 -> ix_shape idx sh = Some r ->
    wf v = true -> shape v = Some r -> assign m idx v = Ok y -> written y m v idx sh.

Lemma write1_written sub replace m q s t y :
  assign_ok m -> wf m = true -> shape m = Some s -> wf q = true -> shape q = Some t ->
  n_adv sub <= 1 -> ix_shape sub s = Some t -> write1_f sub replace m q = Ok y -> written y m q sub s.
Proof.
  intros IH Hwm Hsm Hwq Hsq Hn Ht H. unfold write1_f in H. destruct sub as [|it sub].
  - cbn [ix_shape] in Ht. injection Ht as <-. destruct replace.
    + injection H as <-. apply written_whole; auto.
    + destruct (update_in_spec m q s y Hwm Hsm Hwq Hsq H) as (A & B & C). apply written_whole; auto.
  - eapply IH; eauto.
Qed.

(* the generic step: members js receive the pieces, member by member *)
Lemma go_written d l s pre it post o1 o2 v js pieces replace y :
  let n := length l in let sub := pre ++ post in let t := o1 ++ o2 in
  Forall assign_ok l -> l <> [] -> Forall (fun m => wf m = true) l -> Forall (fun m => shape m = Some s) l -> d <= length s ->
  cons_n pre = d -> consumes it = 1 -> n_adv sub <= 1 -> ix_shape sub s = Some t -> length o1 = prod_n pre ->
  Forall (fun q => wf q = true /\ shape q = Some t) pieces ->
  (* an addressed member gets the piece that holds the value's objects for it *)
  (forall RM j, item_src it [n] RM = Some [j] ->
     exists k piece, nth_error js k = Some j /\ nth_error pieces k = Some piece /\
       forall RA RB, length RA = prod_n pre -> denote piece (RA ++ RB) = denote v (RA ++ RM ++ RB)) ->
  (* and every receiving member is addressed *)
  (forall k j, nth_error js k = Some j -> exists RM, length RM = produces it /\ item_src it [n] RM = Some [j]) ->
  go_f d l sub js pieces replace = Ok y ->
  written y (Stack d l) v (pre ++ it :: post) (insert_at d n s).
Proof.
  intros n sub t IH Hne Hwf Hss Hd Hc Hi Hn Ht Lo1 Hps Hfw Hbw H.
  unfold go_f in H.
  destruct (negb (Nat.eqb (length js) (length pieces))) eqn:E1; [discriminate|]. apply negb_false_iff in E1. apply Nat.eqb_eq in E1.
  destruct (negb (forallb (fun j => j <? length l) js)) eqn:E2; [discriminate|]. apply negb_false_iff in E2.
  destruct (negb (nodupb js)) eqn:E3; [discriminate|]. apply negb_false_iff in E3.
  destruct (write_all_f (write1_f sub replace) js pieces l 0) as [l'| |] eqn:Ew; cbn [rbind] in H; try discriminate.
  injection H as <-. destruct (write_all_spec _ _ _ _ _ _ Ew) as [Ll' Hl'].
  (* every new member *)
  assert (Hmem : forall j m, nth_error l j = Some m -> exists y, nth_error l' j = Some y /\ shape y = Some s /\ wf y = true /\
            match find_piece j js pieces with Some q => written y m q sub s | None => y = m end).
  { intros j m Em. destruct (Hl' j m Em) as (y & Ey & Hy). cbn [Nat.add] in Hy. exists y. split; [assumption|].
    pose proof (Forall_nth_error _ _ _ _ Hwf Em) as Wm. pose proof (Forall_nth_error _ _ _ _ Hss Em) as Sm.
    destruct (find_piece j js pieces) as [q|] eqn:Ef.
    - destruct (find_piece_some _ _ _ _ Ef) as (k & _ & Eq). destruct (Forall_nth_error _ _ _ _ Hps Eq) as [Wq Sq].
      pose proof (write1_written sub replace m q s t y (Forall_nth_error _ _ _ _ IH Em) Wm Sm Wq Sq Hn Ht Hy) as W.
      destruct W as (A & B & C). split; [exact A|split; [exact B|]]. unfold written. tauto.
    - subst y. auto. }
  assert (Hall : Forall (fun y => shape y = Some s /\ wf y = true) l').
  { apply Forall_forall. intros y Hy. apply In_nth_error in Hy as [j Ej].
    assert (j < length l) by (rewrite <- Ll'; apply nth_error_Some; congruence).
    destruct (nth_error l j) as [m|] eqn:Em; [|apply nth_error_None in Em; lia].
    destruct (Hmem j m Em) as (y' & Ey' & A & B & _). assert (y' = y) by congruence. subst. now split. }
  assert (Hne' : l' <> []). { intros ->. destruct l; [congruence|cbn in Ll'; lia]. }
  destruct (stack_of_members d l' s Hne' Hall Hd) as [S W].
  split; [rewrite S, Ll'; reflexivity|]. split; [exact W|]. split.
  - (* the addressed positions *)
    intros R I HI.
    destruct (ix_src_around pre it post d n s R I Hd Hc Hi HI) as (s1 & j & s2 & -> & L1 & LR & Ei & Es).
    destruct (Hfw _ _ Ei) as (k & piece & Ek & Ep & Hpiece).
    assert (Hj : j < length l).
    { rewrite forallb_forall in E2. apply Nat.ltb_lt. apply E2. eapply nth_error_In; eauto. }
    destruct (nth_error l j) as [m|] eqn:Em; [|apply nth_error_None in Em; lia].
    destruct (Hmem j m Em) as (yj & Eyj & _ & _ & Hw).
    rewrite (find_piece_nth js pieces k j piece E3 Ek Ep) in Hw. destruct Hw as (_ & _ & Ha & _).
    rewrite denote_stack_at, Eyj by assumption. rewrite (Ha _ _ Es).
    rewrite Hpiece by (rewrite firstn_length; lia). now rewrite <- list_split3 by lia.
  - (* the frame *)
    intros I HI. rewrite !denote_stack. destruct (nth_error I d) as [j|] eqn:Ej; [|reflexivity].
    destruct (nth_error l j) as [m|] eqn:Em.
    + destruct (Hmem j m Em) as (yj & Eyj & _ & _ & Hw). rewrite Eyj.
      destruct (find_piece j js pieces) as [q|] eqn:Ef; [|now subst].
      destruct Hw as (_ & _ & _ & Hb). apply Hb. intros Rm Hm.
      destruct (find_piece_some _ _ _ _ Ef) as (k & Ek & _). destruct (Hbw k j Ek) as (RM & LM & Ei).
      destruct (ix_src_length _ _ _ _ Hm) as (_ & LRm & _). destruct (ix_shape_length _ _ _ Ht) as [Lc _].
      unfold sub in LRm, Lc. rewrite cons_n_app, prod_n_app in *.
      assert (Hq : prod_n pre <= length Rm) by lia.
      destruct (list_split_at Rm (prod_n pre) Hq) as (RA & RB & -> & LA).
      pose proof (ix_src_around_inv pre it post d n s RA RM RB j _ Hd Hc Hi LA LM Ei Hm) as Hinv.
      rewrite (insert_remove_at I d j Ej) in Hinv. exact (HI _ Hinv).
    + apply nth_error_None in Em. rewrite (proj2 (nth_error_None l' j)) by lia. reflexivity.
Qed.

Lemma seq_nth_error n k : k < n -> nth_error (seq 0 n) k = Some k.
Proof. intros H. rewrite nth_error_nth' with (d := 0) by (now rewrite seq_length). now rewrite seq_nth. Qed.

(* the index ends before the stack dim: every member is written through the same sub-index *)
Lemma go_written_before d l s pre o1 v pieces y :
  let n := length l in let c := cons_n pre in let q := prod_n pre in
  Forall assign_ok l -> l <> [] -> Forall (fun m => wf m = true) l -> Forall (fun m => shape m = Some s) l -> d <= length s ->
  c <= d -> n_adv pre <= 1 -> ix_shape pre s = Some (o1 ++ skipn c s) -> length o1 = q ->
  wf v = true -> shape v = Some (o1 ++ insert_at (d - c) n (skipn c s)) ->
  unbind (q + (d - c)) v = Ok pieces ->
  go_f d l pre (seq 0 n) pieces false = Ok y ->
  written y (Stack d l) v pre (insert_at d n s).
Proof.
  intros n c q IH Hne Hwf Hss Hd Hc Hn Ht Lo1 Hwv Hsv Eu H.
  assert (Hnth : nth_error (o1 ++ insert_at (d - c) n (skipn c s)) (q + (d - c)) = Some n).
  { rewrite <- Lo1, nth_error_app_r. apply nth_error_insert_at. rewrite skipn_length. lia. }
  destruct (unbind_spec v (q + (d - c)) _ n pieces Hwv Hsv Hnth Eu) as [Lp Hp].
  assert (Hrem : remove_at (q + (d - c)) (o1 ++ insert_at (d - c) n (skipn c s)) = o1 ++ skipn c s).
  { rewrite <- Lo1, remove_at_app_r, remove_insert_at by (rewrite skipn_length; lia). reflexivity. }
  unfold go_f in H. rewrite seq_length in H. fold n in H.
  destruct (negb (Nat.eqb n (length pieces))) eqn:E1; [discriminate|].
  destruct (negb (forallb (fun j => j <? n) (seq 0 n))) eqn:E2; [discriminate|].
  destruct (negb (nodupb (seq 0 n))) eqn:E3; [discriminate|]. apply negb_false_iff in E3.
  destruct (write_all_f (write1_f pre false) (seq 0 n) pieces l 0) as [l'| |] eqn:Ew; cbn [rbind] in H; try discriminate.
  injection H as <-. destruct (write_all_spec _ _ _ _ _ _ Ew) as [Ll' Hl'].
  assert (Hmem : forall j m, nth_error l j = Some m -> exists yj piece, nth_error l' j = Some yj /\ nth_error pieces j = Some piece /\
            written yj m piece pre s).
  { intros j m Em. destruct (Hl' j m Em) as (yj & Ey & Hy). cbn [Nat.add] in Hy.
    assert (Hj : j < n) by (apply nth_error_Some; congruence).
    destruct (nth_error pieces j) as [piece|] eqn:Ep; [|apply nth_error_None in Ep; lia].
    rewrite (find_piece_nth (seq 0 n) pieces j j piece E3 (seq_nth_error n j Hj) Ep) in Hy.
    destruct (Hp j piece Ep) as (Sq & Wq & _). rewrite Hrem in Sq.
    exists yj, piece. split; [assumption|split; [reflexivity|]].
    exact (write1_written pre false m piece s _ yj (Forall_nth_error _ _ _ _ IH Em) (Forall_nth_error _ _ _ _ Hwf Em)
             (Forall_nth_error _ _ _ _ Hss Em) Wq Sq Hn Ht Hy). }
  assert (Hall : Forall (fun y => shape y = Some s /\ wf y = true) l').
  { apply Forall_forall. intros y0 Hy. apply In_nth_error in Hy as [j Ej].
    assert (j < length l) by (rewrite <- Ll'; apply nth_error_Some; congruence).
    destruct (nth_error l j) as [m|] eqn:Em; [|apply nth_error_None in Em; lia].
    destruct (Hmem j m Em) as (y' & piece & Ey' & _ & A & B & _). assert (y' = y0) by congruence. subst. now split. }
  assert (Hne' : l' <> []). { intros ->. destruct l; [congruence|cbn in Ll'; lia]. }
  destruct (stack_of_members d l' s Hne' Hall Hd) as [S W].
  split; [rewrite S, Ll'; reflexivity|]. split; [exact W|]. split.
  - intros R I HI.
    destruct (ix_src_before pre d n s R I Hd Hc HI) as (s1 & j & RA & T & -> & LA & L1 & -> & Ej & Es). fold c q in LA, L1, Ej, Es.
    destruct (ix_src_length _ _ _ _ HI) as (_ & _ & Hr). rewrite in_range_insert in Hr by assumption.
    rewrite nth_error_app_ge, L1, Ej in Hr by lia. apply andb_true_iff in Hr as [Hj _]. apply Nat.ltb_lt in Hj.
    destruct (nth_error l j) as [m|] eqn:Em; [|apply nth_error_None in Em; lia].
    destruct (Hmem j m Em) as (yj & piece & Eyj & Ep & _ & _ & Ha & _).
    rewrite denote_stack, nth_error_app_ge, remove_at_app_ge, L1, Ej, Eyj by lia.
    rewrite (Ha _ _ Es). destruct (Hp j piece Ep) as (_ & _ & Dp).
    assert (HT : d - c < length T) by (apply nth_error_Some; congruence).
    rewrite Dp by (rewrite app_length, length_remove_at by assumption; lia).
    rewrite insert_at_app_ge, LA by lia. replace (q + (d - c) - q) with (d - c) by lia.
    now rewrite (insert_remove_at T (d - c) j Ej).
  - intros I HI. rewrite !denote_stack. destruct (nth_error I d) as [j|] eqn:Ej; [|reflexivity].
    destruct (nth_error l j) as [m|] eqn:Em.
    + destruct (Hmem j m Em) as (yj & piece & Eyj & Ep & _ & _ & _ & Hb). rewrite Eyj. apply Hb. intros Rm Hm.
      assert (Hj : j < n) by (apply nth_error_Some; congruence).
      pose proof (ix_src_before_inv pre d n s Rm _ j Hd Hc Hj Hm) as Hinv. cbv zeta in Hinv.
      rewrite (insert_remove_at I d j Ej) in Hinv. exact (HI _ Hinv).
    + apply nth_error_None in Em. rewrite (proj2 (nth_error_None l' j)) by lia. reflexivity.
Qed.

(* ---------------- an index made of None only on a member without batch dims *)
Lemma remove_at_repeat {A} (a : A) k : forall d, d < k -> remove_at d (repeat a k) = repeat a (k - 1).
Proof.
  induction k as [|k IH]; intros d H; [lia|]. destruct d as [|d]; cbn [repeat].
  - rewrite remove_at_0. cbn. now rewrite Nat.sub_0_r.
  - rewrite remove_at_S, IH by lia. destruct k; [lia|]. cbn. now rewrite Nat.sub_0_r.
Qed.

Lemma in_range_ones_zeros k : in_range (repeat 1 k) (repeat 0 k) = true.
Proof. induction k; cbn; auto. Qed.

Lemma squeeze_all_spec v : forall k v', wf v = true -> shape v = Some (repeat 1 k) -> squeeze_all v = Ok v' ->
  exists q, v' = Shared q [] /\ denote v (repeat 0 k) = Some q.
Proof.
  induction v as [q sh|d l IH] using nt_ind'; intros k v' Hw Hs H.
  - cbn [squeeze_all] in H. injection H as <-. exists q. split; [reflexivity|]. cbn [shape] in Hs. injection Hs as ->.
    cbn [denote]. now rewrite in_range_ones_zeros.
  - destruct l as [|m [|m2 r]]; cbn [squeeze_all] in H; try discriminate.
    apply wf_stack in Hw as (m0 & r0 & s & El & Hwf & Hsm & Hd). injection El as <- <-.
    inversion Hwf as [|? ? Hwm _]; subst. inversion Hsm as [|? ? Hs_m _]; subst. inversion IH as [|? ? IHm _]; subst.
    rewrite (shape_stack d m [] s Hs_m Hd) in Hs. injection Hs as Hs. cbn [length] in Hs.
    assert (Es : s = remove_at d (repeat 1 k)) by (rewrite <- Hs; symmetry; now apply remove_insert_at).
    assert (Hk : d < k).
    { assert (L : length (insert_at d 1 s) = k) by (rewrite Hs; apply repeat_length). rewrite length_insert_at in L. lia. }
    rewrite remove_at_repeat in Es by assumption.
    assert (Hs' : shape m = Some (repeat 1 (k - 1))) by (now rewrite Hs_m, Es).
    destruct (IHm (k - 1) v' Hwm Hs' H) as (q & -> & Hq). exists q. split; [reflexivity|].
    rewrite denote_stack. rewrite nth_error_repeat by assumption. cbn [nth_error]. now rewrite remove_at_repeat.
Qed.

Lemma none_shape idx : forallb is_none idx = true -> ix_shape idx [] = Some (repeat 1 (length idx)).
Proof.
  induction idx as [|it idx IH]; intros H; [reflexivity|]. cbn [forallb] in H. apply andb_true_iff in H as [H1 H2].
  destruct it; try discriminate. cbn. now rewrite (IH H2).
Qed.

Lemma none_src idx : forallb is_none idx = true -> forall R I, ix_src idx [] R = Some I -> R = repeat 0 (length idx) /\ I = [].
Proof.
  induction idx as [|it idx IH]; intros H R I E.
  - cbn in E. destruct R; cbn in E; [injection E as <-; auto|discriminate].
  - cbn [forallb] in H. apply andb_true_iff in H as [H1 H2]. destruct it; try discriminate.
    destruct R as [|x R]; cbn in E; [discriminate|]. destruct x; cbn in E; [|discriminate].
    destruct (ix_src idx [] R) as [l|] eqn:E2; cbn in E; [|discriminate]. injection E as <-.
    destruct (IH H2 R l E2) as [-> ->]. split; reflexivity.
Qed.

Lemma none_src_zero idx : forallb is_none idx = true -> ix_src idx [] (repeat 0 (length idx)) = Some [].
Proof.
  induction idx as [|it idx IH]; intros H; [reflexivity|]. cbn [forallb] in H. apply andb_true_iff in H as [H1 H2].
  destruct it; try discriminate. cbn. now rewrite (IH H2).
Qed.

(* ---------------- the lazy __setitem__ on a non-tensor stack writes exactly the addressed positions *)
Theorem assign_spec x : assign_ok x.
Proof.
  induction x as [p sh0|d l IH] using nt_ind'; intros idx v sh r y Hw Hsh Hn Hr Hwv Hsv H.
  - destruct idx as [|it idx].
    { rewrite assign_nil in H. cbn [ix_shape] in Hr. injection Hr as <-.
      destruct (update_in_spec _ _ _ _ Hw Hsh Hwv Hsv H) as (A & B & C). now apply written_whole. }
    (* a member without batch dims written through None, None, ...: the one element takes the (squeezed) value *)
    cbn [assign] in H. unfold leaf_newaxis_write, fixed_C16f in H. cbn [orb] in H.
    cbn [shape] in Hsh. injection Hsh as <-.
    destruct sh0 as [|? ?]; [|discriminate].
    destruct (forallb is_none (it :: idx)) eqn:En; [|discriminate].
    destruct (squeeze_all v) as [v'| |] eqn:Eq; cbn [rbind] in H; try discriminate.
    rewrite (none_shape _ En) in Hr. injection Hr as <-.
    destruct (squeeze_all_spec v (length (it :: idx)) v' Hwv Hsv Eq) as (q & -> & Hq).
    unfold update_in in H. cbn [update_in_f] in H. injection H as <-.
    repeat split; auto.
    + intros R I E. destruct (none_src _ En R I E) as [-> ->]. now rewrite Hq.
    + intros I HI. destruct I as [|i I]; [|reflexivity].
      exfalso. apply (HI (repeat 0 (length (it :: idx)))). now apply none_src_zero.
  - destruct idx as [|it0 idx0].
    { rewrite assign_nil in H. cbn [ix_shape] in Hr. injection Hr as <-.
      destruct (update_in_spec _ _ _ _ Hw Hsh Hwv Hsv H) as (A & B & C). now apply written_whole. }
    pose proof Hw as Hw0. apply wf_stack in Hw as (m0 & r0 & s & El & Hwf & Hss & Hd).
    assert (Hshape : sh = insert_at d (length l) s).
    { subst l. inversion Hss; subst. rewrite (shape_stack d m0 r0 s) in Hsh by assumption. now injection Hsh as <-. }
    assert (Hne : l <> []) by (subst l; discriminate).
    rewrite assign_stack in H.
    destruct (split_at d (it0 :: idx0) sst0) as [[[st at_] post]| |] eqn:Esp; try discriminate.
    destruct (split_at_top _ _ _ _ _ Hn Esp) as (Eidx & Hc & Hnd & Hat).
    remember (s_pre st) as pre eqn:Epre. remember (length l) as n eqn:En.
    rewrite Eidx in Hr, Hn |- *. clear Eidx Esp it0 idx0. subst sh.
    unfold assign_at in H. rewrite <- Epre, <- En in H.
    destruct at_ as [it|].
    + destruct Hat as [Hcd Hnn]. assert (Hq : new_stack_dim d st = prod_n pre) by lia. rewrite Hq in H. clear Hnd Hq.
      destruct it as [i|a b c| |tsh vals|msh bits]; try discriminate; [| |destruct tsh as [|kk [|? ?]]; try discriminate].
      * (* int *)
        destruct (ix_shape_around pre (IInt i) post d n s r Hd Hcd eq_refl Hr) as (o1 & oa & o2 & E1 & Ea & E2 & -> & Esub & Lo1).
        cbn [item_shape] in Ea. destruct (norm i n) as [j0|] eqn:Ej0; [|discriminate]. injection Ea as <-. cbn [app] in Hsv.
        subst n. apply (go_written d l s pre (IInt i) post o1 o2 v [j0] [v] false y IH Hne Hwf Hss Hd Hcd eq_refl (n_adv_sub _ _ _ Hn) Esub Lo1);
          [| | |exact H].
        -- constructor; [now split|constructor].
        -- intros RM j Hi. cbn [item_src] in Hi. destruct RM; [|discriminate]. rewrite Ej0 in Hi. cbn [option_map] in Hi. injection Hi as <-.
           exists 0, v. repeat split; auto.
        -- intros k j Hk. destruct k as [|[|k]]; cbn [nth_error] in Hk; try discriminate. injection Hk as <-.
           exists []. split; [reflexivity|]. cbn [item_src]. now rewrite Ej0.
      * (* slice *)
        destruct (ix_shape_around pre (ISl a b c) post d n s r Hd Hcd eq_refl Hr) as (o1 & oa & o2 & E1 & Ea & E2 & -> & Esub & Lo1).
        cbn [item_shape] in Ea. destruct (step_of c <=? 0)%Z eqn:Ec; [discriminate|]. injection Ea as <-.
        destruct (unbind (prod_n pre) v) as [pieces| |] eqn:Eu; cbn [rbind] in H; try discriminate.
        assert (Hnth : nth_error (o1 ++ [sl_len a b c n] ++ o2) (prod_n pre) = Some (sl_len a b c n)).
        { rewrite <- Lo1. replace (length o1) with (length o1 + 0) by lia. now rewrite nth_error_app_r. }
        destruct (unbind_spec v (prod_n pre) _ _ pieces Hwv Hsv Hnth Eu) as [Lp Hp].
        assert (Hrem : remove_at (prod_n pre) (o1 ++ [sl_len a b c n] ++ o2) = o1 ++ o2).
        { rewrite <- Lo1. replace (length o1) with (length o1 + 0) by lia. now rewrite remove_at_app_r. }
        subst n. apply (go_written d l s pre (ISl a b c) post o1 o2 v (range_sel a b c (length l)) pieces false y IH Hne Hwf Hss Hd Hcd eq_refl (n_adv_sub _ _ _ Hn) Esub Lo1);
          [| | |exact H].
        -- apply Forall_forall. intros q0 Hq0. apply In_nth_error in Hq0 as [k Hk]. destruct (Hp k q0 Hk) as (A & B & _).
           rewrite Hrem in A. now split.
        -- intros RM j Hi. cbn [item_src] in Hi. destruct RM as [|k [|? ?]]; try discriminate. rewrite Ec in Hi.
           destruct (k <? sl_len a b c (length l)) eqn:Ek; [|discriminate]. injection Hi as <-. apply Nat.ltb_lt in Ek.
           destruct (nth_error pieces k) as [piece|] eqn:Ep; [|apply nth_error_None in Ep; lia].
           exists k, piece. split; [now apply range_sel_nth|]. split; [exact Ep|]. intros RA RB LA.
           destruct (Hp k piece Ep) as (_ & _ & Dp). rewrite Dp by (rewrite app_length; lia).
           rewrite <- LA. now rewrite insert_at_len_app.
        -- intros k j Hk. assert (Hkl : k < sl_len a b c (length l)).
           { rewrite <- range_sel_length. apply nth_error_Some. congruence. }
           rewrite range_sel_nth in Hk by assumption. injection Hk as <-.
           exists [k]. split; [reflexivity|]. cbn [item_src]. rewrite Ec.
           replace (k <? sl_len a b c (length l)) with true by (symmetry; now apply Nat.ltb_lt). reflexivity.
      * (* a 1-d integer index *)
        destruct (ix_shape_around pre (ITen [kk] vals) post d n s r Hd Hcd eq_refl Hr) as (o1 & oa & o2 & E1 & Ea & E2 & -> & Esub & Lo1).
        cbn [item_shape] in Ea.
        destruct (Nat.eqb (length vals) (prod [kk]) && vals_ok vals n && negb (Nat.eqb (length [kk]) 0)) eqn:Ev; [|discriminate].
        injection Ea as <-. pose proof Ev as Ev0. apply andb_true_iff in Ev as [Ev _]. apply andb_true_iff in Ev as [Ev _].
        apply Nat.eqb_eq in Ev. cbn [prod fold_right] in Ev. rewrite Nat.mul_1_r in Ev.
        destruct (norm_all vals n) as [js| |] eqn:Ejs; cbn [rbind] in H; try discriminate.
        destruct (unbind (prod_n pre) v) as [pieces| |] eqn:Eu; cbn [rbind] in H; try discriminate.
        destruct (norm_all_spec _ _ _ Ejs) as [Ljs Hjs].
        assert (Hnth : nth_error (o1 ++ [kk] ++ o2) (prod_n pre) = Some kk).
        { rewrite <- Lo1. replace (length o1) with (length o1 + 0) by lia. now rewrite nth_error_app_r. }
        destruct (unbind_spec v (prod_n pre) _ _ pieces Hwv Hsv Hnth Eu) as [Lp Hp].
        assert (Hrem : remove_at (prod_n pre) (o1 ++ [kk] ++ o2) = o1 ++ o2).
        { rewrite <- Lo1. replace (length o1) with (length o1 + 0) by lia. now rewrite remove_at_app_r. }
        subst n. apply (go_written d l s pre (ITen [kk] vals) post o1 o2 v js pieces (negb fixed_D23) y IH Hne Hwf Hss Hd Hcd eq_refl (n_adv_sub _ _ _ Hn) Esub Lo1);
          [| | |exact H].
        -- apply Forall_forall. intros q0 Hq0. apply In_nth_error in Hq0 as [k Hk]. destruct (Hp k q0 Hk) as (A & B & _).
           rewrite Hrem in A. now split.
        -- intros RM j Hi. cbn [item_src] in Hi. rewrite Ev0 in Hi. cbn [andb] in Hi.
           destruct (in_range [kk] RM) eqn:Er; [|discriminate].
           destruct RM as [|k [|? ?]]; cbn [in_range] in Er; try discriminate; [|rewrite andb_false_r in Er; discriminate].
           rewrite andb_true_r in Er. apply Nat.ltb_lt in Er.
           cbn [ravel prod fold_right] in Hi. rewrite Nat.mul_1_r, Nat.add_0_r in Hi.
           destruct (nth_error vals k) as [v'|] eqn:Evk; [|discriminate].
           destruct (norm v' (length l)) as [jj|] eqn:Ejj; cbn [option_map] in Hi; [|discriminate]. injection Hi as <-.
           destruct (Hjs k v' Evk) as (j' & Ej' & Ek'). assert (j' = jj) by congruence. subst j'.
           destruct (nth_error pieces k) as [piece|] eqn:Ep; [|apply nth_error_None in Ep; lia].
           exists k, piece. split; [assumption|]. split; [exact Ep|]. intros RA RB LA.
           destruct (Hp k piece Ep) as (_ & _ & Dp). rewrite Dp by (rewrite app_length; lia).
           rewrite <- LA. now rewrite insert_at_len_app.
        -- intros k j Hk. assert (Hkl : k < kk) by (rewrite <- Ev, <- Ljs; apply nth_error_Some; congruence).
           destruct (nth_error vals k) as [v'|] eqn:Evk; [|apply nth_error_None in Evk; lia].
           destruct (Hjs k v' Evk) as (j' & Ej' & Ek'). assert (j' = j) by congruence. subst j'.
           exists [k]. split; [reflexivity|]. cbn [item_src]. rewrite Ev0. cbn [andb in_range].
           replace (k <? kk) with true by (symmetry; now apply Nat.ltb_lt). cbn [andb ravel prod fold_right].
           rewrite Nat.mul_1_r, Nat.add_0_r, Evk, Ej'. reflexivity.
    + (* the index ends before the stack dim *)
      subst post. rewrite app_nil_r in *.
      destruct (ix_shape_before pre d n s r Hd Hc Hr) as (o1 & -> & Esub & Lo1). cbv zeta in *.
      destruct (unbind (new_stack_dim d st) v) as [pieces| |] eqn:Eu; cbn [rbind] in H; try discriminate.
      rewrite Hnd in Eu. replace (d - cons_n pre + prod_n pre) with (prod_n pre + (d - cons_n pre)) in Eu by lia.
      subst n.
      exact (go_written_before d l s pre o1 v pieces y IH Hne Hwf Hss Hd Hc Hn Esub Lo1 Hwv Hsv Eu H).
Qed.

(* ---------------- _set_at_str: td[idx] = value on a non-tensor entry *)
Theorem set_at_spec x idx v sh r y :
  wf x = true -> shape x = Some sh -> n_adv idx <= 1 -> ix_shape idx sh = Some r ->
  wf v = true -> shape v = Some r -> set_at x idx v v = Ok y -> written y x v idx sh.
Proof.
  intros Hw Hsh Hn Hr Hwv Hsv H. unfold set_at in H.
  destruct (index x idx) as [cur| |] eqn:Ec; cbn [rbind] in H; try discriminate.
  destruct (tolist cur) as [tc| |] eqn:Etc; cbn [rbind] in H; try discriminate.
  destruct (tolist v) as [tv| |] eqn:Etv; cbn [rbind] in H; try discriminate.
  destruct (tree_eqb tc tv) eqn:Ee.
  - injection H as <-. destruct (set_at_noop_sound x idx sh r v v cur tc tv Hw Hsh Hn Hr Hwv Hsv Ec Etc Etv Ee) as [_ Ha].
    repeat split; auto.
  - destruct (maybe_to_stack x) as [xs| |] eqn:Es; cbn [rbind] in H; try discriminate.
    destruct (to_stack_shape x xs Hw Es) as [Sxs Wxs]. rewrite Hsh in Sxs.
    destruct (assign_spec xs idx v sh r y Wxs Sxs Hn Hr Hwv Hsv H) as (A & B & C & D).
    repeat split; auto. intros I HI. rewrite (D I HI). eapply to_stack_same; eauto.
Qed.

(* histories of writes: whatever the representation becomes on the way (shared object -> stack -> ...), the entry
   denotes the array obtained by the successive pointwise updates *)
Fixpoint run_writes (x : nt) (ws : list (list item * nt)) : res nt :=
  match ws with
  | [] => Ok x
  | (idx, v) :: r => rbind (set_at x idx v v) (fun y => run_writes y r)
  end.

Inductive updates (sh : list nat) : (list nat -> option payload) -> list (list item * nt) -> (list nat -> option payload) -> Prop :=
| upd_nil f g : (forall I, g I = f I) -> updates sh f [] g
| upd_cons f g h idx v ws :
    (forall R I, ix_src idx sh R = Some I -> g I = denote v R) ->
    (forall I, (forall R, ix_src idx sh R <> Some I) -> g I = f I) ->
    updates sh g ws h -> updates sh f ((idx, v) :: ws) h.

Definition legal_write (sh : list nat) (w : list item * nt) : Prop :=
  n_adv (fst w) <= 1 /\ exists r, ix_shape (fst w) sh = Some r /\ wf (snd w) = true /\ shape (snd w) = Some r.

Theorem writes_history ws : forall x y sh,
  wf x = true -> shape x = Some sh -> Forall (legal_write sh) ws -> run_writes x ws = Ok y ->
  wf y = true /\ shape y = Some sh /\ updates sh (denote x) ws (denote y).
Proof.
  induction ws as [|[idx v] ws IH]; intros x y sh Hw Hsh Hl H; cbn [run_writes] in H.
  - injection H as <-. repeat split; auto. now constructor.
  - inversion Hl as [|? ? (Hn & r & Hr & Hwv & Hsv) Hl']; subst. cbn [fst snd] in *.
    destruct (set_at x idx v v) as [x1| |] eqn:E1; cbn [rbind] in H; try discriminate.
    destruct (set_at_spec x idx v sh r x1 Hw Hsh Hn Hr Hwv Hsv E1) as (S1 & W1 & A1 & B1).
    destruct (IH x1 y sh W1 S1 Hl' H) as (Wy & Sy & U). repeat split; auto.
    eapply upd_cons; eauto.
Qed.
