(* C07 — facts about the heap primitives: writes stay inside one storage and keep its size, a written cell is read back
   through every alias, allocation only appends. *)
From Coq Require Import ZArith List String Bool Arith PeanoNat Lia.
Import ListNotations.
From TD Require Import Model.C07_Heap Spec.C07_AliasSpec.

(* ------------------------------------------------------------------ lists *)
Lemma upd_nth_length : forall {A} (l : list A) i x, List.length (upd_nth l i x) = List.length l.
Proof. induction l as [|a l IH]; intros [|i] x; cbn; auto. Qed.

Lemma nth_upd_nth_same : forall {A} (l : list A) i x d, i < List.length l -> nth i (upd_nth l i x) d = x.
Proof. induction l as [|a l IH]; intros [|i] x d H; cbn in *; try lia; auto. apply IH. lia. Qed.

Lemma nth_upd_nth_other : forall {A} (l : list A) i j x d, i <> j -> nth j (upd_nth l i x) d = nth j l d.
Proof. induction l as [|a l IH]; intros [|i] [|j] x d H; cbn; auto; try congruence. Qed.

Lemma upd_nth_beyond : forall {A} (l : list A) i x, List.length l <= i -> upd_nth l i x = l.
Proof. induction l as [|a l IH]; intros [|i] x H; cbn in *; auto; try lia. f_equal. apply IH. lia. Qed.

Lemma map_length_upd_nth : forall (l : list (list Z)) i c,
  List.length c = List.length (nth i l []) -> map (@List.length Z) (upd_nth l i c) = map (@List.length Z) l.
Proof.
  induction l as [|a l IH]; intros [|i] c H; cbn in *; auto.
  - now rewrite H.
  - f_equal. now apply IH.
Qed.

Lemma wr_cells_length : forall cs s vals, List.length (wr_cells s cs vals) = List.length s.
Proof.
  induction cs as [|c cs IH]; intros s [|z vals]; cbn; auto. rewrite IH. apply upd_nth_length.
Qed.

Lemma wr_cells_other : forall cs s vals c, ~ In c cs -> nth c (wr_cells s cs vals) 0%Z = nth c s 0%Z.
Proof.
  induction cs as [|c0 cs IH]; intros s [|z vals] c H; cbn; auto.
  rewrite IH by (intro; apply H; now right).
  apply nth_upd_nth_other. intro; apply H; now left.
Qed.

Lemma nodupb_NoDup : forall l, nodupb l = true <-> NoDup l.
Proof.
  induction l as [|x l IH]; cbn.
  - split; auto. constructor.
  - rewrite andb_true_iff, negb_true_iff, IH. split.
    + intros [H1 H2]. constructor; auto. intro Hin.
      assert (existsb (Nat.eqb x) l = true) by (apply existsb_exists; exists x; split; auto; apply Nat.eqb_refl).
      congruence.
    + intro H. inversion H as [|? ? Hn Hd]; subst. split; auto.
      destruct (existsb (Nat.eqb x) l) eqn:E; auto.
      apply existsb_exists in E. destruct E as [y [Hy E]]. apply Nat.eqb_eq in E. subst. contradiction.
Qed.

(* the cell written for element j holds the j-th value afterwards *)
Lemma wr_cells_nth : forall cs s vals j c,
  NoDup cs -> List.length vals = List.length cs -> nth_error cs j = Some c -> c < List.length s ->
  nth c (wr_cells s cs vals) 0%Z = nth j vals 0%Z.
Proof.
  induction cs as [|c0 cs IH]; intros s vals j c Hnd Hlen Hj Hc.
  - destruct j; discriminate.
  - destruct vals as [|z vals]; cbn in Hlen; [discriminate|].
    inversion Hnd as [|? ? Hn Hd]; subst. cbn [wr_cells].
    destruct j as [|j]; cbn in Hj.
    + inversion Hj; subst c0. rewrite wr_cells_other by assumption. cbn. now apply nth_upd_nth_same.
    + cbn [nth]. apply IH; auto. now rewrite upd_nth_length.
Qed.

(* ------------------------------------------------------------------ heap primitives *)
Lemma stor_ext_refl : forall h, stor_ext h h.
Proof. intro h. exists []. now rewrite app_nil_r. Qed.

Lemma stor_ext_trans : forall a b c, stor_ext a b -> stor_ext b c -> stor_ext a c.
Proof. intros a b c [e1 H1] [e2 H2]. exists (e1 ++ e2). now rewrite H2, H1, app_assoc. Qed.

Lemma stor_ext_same : forall h h', hstor h' = hstor h -> stor_ext h h'.
Proof. intros h h' H. exists []. now rewrite app_nil_r. Qed.

Lemma stor_ext_get : forall h h' s, stor_ext h h' -> s < List.length (hstor h) -> get_stor h' s = get_stor h s.
Proof. intros h h' s [e H] Hs. unfold get_stor. rewrite H. now apply app_nth1. Qed.

Lemma stor_ext_len : forall h h', stor_ext h h' -> List.length (hstor h) <= List.length (hstor h').
Proof. intros h h' [e H]. rewrite H, app_length. lia. Qed.

Lemma frame_refl : forall h, inplace_frame h h.
Proof. now split. Qed.

Lemma frame_trans : forall a b c, inplace_frame a b -> inplace_frame b c -> inplace_frame a c.
Proof. intros a b c [N1 S1] [N2 S2]. split; congruence. Qed.

Lemma set_stor_frame : forall h s c, List.length c = List.length (get_stor h s) -> inplace_frame h (set_stor h s c).
Proof. intros h s c H. split; cbn; auto. now apply map_length_upd_nth. Qed.

Lemma write_frame : forall h v vals h' o, write h v vals = (h', o) -> inplace_frame h h'.
Proof.
  unfold write. intros h v vals h' o H.
  destruct (negb (nodupb (vcells v))); [inversion H; subst; apply frame_refl|].
  destruct (negb (Nat.eqb (List.length vals) (List.length (vcells v)))); inversion H; subst; [apply frame_refl|].
  apply set_stor_frame. apply wr_cells_length.
Qed.

Lemma alloc_stor_ext : forall h c, stor_ext h (fst (alloc_stor h c)) /\ hnodes (fst (alloc_stor h c)) = hnodes h.
Proof. intros. cbn. split; auto. now exists [c]. Qed.

Lemma fresh_leaf_ext : forall h vals, stor_ext h (fst (fresh_leaf h vals)) /\ hnodes (fst (fresh_leaf h vals)) = hnodes h.
Proof. intros. unfold fresh_leaf. cbn. split; auto. now exists [vals]. Qed.

Lemma fresh_leaf_fresh : forall h vals, vsid (snd (fresh_leaf h vals)) = List.length (hstor h).
Proof. reflexivity. Qed.

Lemma fresh_like_ext : forall h v vals, stor_ext h (fst (fresh_like h v vals)) /\ hnodes (fst (fresh_like h v vals)) = hnodes h.
Proof.
  intros. unfold fresh_like.
  destruct (denseb (vcells v) && Nat.eqb (List.length vals) (List.length (vcells v))); [|apply fresh_leaf_ext].
  cbn. split; auto. eexists [_]. reflexivity.
Qed.

Lemma fresh_like_fresh : forall h v vals, vsid (snd (fresh_like h v vals)) = List.length (hstor h).
Proof.
  intros. unfold fresh_like.
  destruct (denseb (vcells v) && Nat.eqb (List.length vals) (List.length (vcells v))); reflexivity.
Qed.

Lemma fresh_like_stor : forall h v vals,
  List.length (hstor (fst (fresh_like h v vals))) = S (List.length (hstor h)).
Proof.
  intros. unfold fresh_like.
  destruct (denseb (vcells v) && Nat.eqb (List.length vals) (List.length (vcells v))); cbn; rewrite app_length; cbn; lia.
Qed.

Lemma fresh_leaf_stor : forall h vals, List.length (hstor (fst (fresh_leaf h vals))) = S (List.length (hstor h)).
Proof. intros. cbn. rewrite app_length. cbn. lia. Qed.

(* ------------------------------------------------------------------ every alias observes a write *)
Lemma cell_set_stor_same : forall h s content c,
  s < List.length (hstor h) -> cell (set_stor h s content) s c = nth c content 0%Z.
Proof. intros. unfold cell, get_stor. cbn. now rewrite nth_upd_nth_same. Qed.

Lemma cell_set_stor_other : forall h s content s' c, s' <> s -> cell (set_stor h s content) s' c = cell h s' c.
Proof. intros. unfold cell, get_stor. cbn. now rewrite nth_upd_nth_other by auto. Qed.

Lemma in_bounds_stor : forall h v, in_bounds h v -> vcells v <> [] -> vsid v < List.length (hstor h).
Proof.
  intros h v Hb Hne. destruct (vcells v) as [|c cs] eqn:E; [congruence|].
  specialize (Hb c). rewrite E in Hb. specialize (Hb (or_introl eq_refl)).
  unfold get_stor in Hb. destruct (Nat.lt_ge_cases (vsid v) (List.length (hstor h))); auto.
  rewrite nth_overflow in Hb by assumption. cbn in Hb. lia.
Qed.

(* write through d, read through any view w of the same storage: element i of w sees the value written for element j
   of d whenever they are the same cell; every other cell of every storage keeps its content *)
Lemma write_alias : forall h d vals h',
  write h d vals = (h', Done) -> in_bounds h d ->
  (forall w i j c, vsid w = vsid d -> nth_error (vcells w) i = Some c -> nth_error (vcells d) j = Some c ->
                   nth i (read h' w) 0%Z = nth j vals 0%Z)
  /\ (forall s c, ~ (s = vsid d /\ In c (vcells d)) -> cell h' s c = cell h s c).
Proof.
  unfold write. intros h d vals h' H Hb.
  destruct (nodupb (vcells d)) eqn:Hnd; cbn in H; [|discriminate].
  destruct (Nat.eqb (List.length vals) (List.length (vcells d))) eqn:Hl; cbn in H; [|discriminate].
  inversion H; subst h'; clear H. apply nodupb_NoDup in Hnd. apply Nat.eqb_eq in Hl.
  split.
  - intros w i j c Hs Hi Hj.
    assert (Hc : In c (vcells d)) by (eapply nth_error_In; eauto).
    assert (Hne : vcells d <> []) by (intro E; rewrite E in Hc; contradiction).
    unfold read. rewrite nth_indep with (d' := cell (set_stor h (vsid d) (wr_cells (get_stor h (vsid d)) (vcells d) vals)) (vsid w) 0)
      by (rewrite map_length; apply nth_error_Some; congruence).
    rewrite map_nth. rewrite (nth_error_nth _ _ _ Hi). rewrite Hs.
    rewrite cell_set_stor_same by (now apply in_bounds_stor).
    apply wr_cells_nth; auto.
  - intros s c Hn. destruct (Nat.eq_dec s (vsid d)) as [E|E].
    + subst s. destruct (Nat.lt_ge_cases (vsid d) (List.length (hstor h))) as [Hlt|Hge].
      * rewrite cell_set_stor_same by assumption. apply wr_cells_other. intro; apply Hn; auto.
      * unfold cell, get_stor, set_stor. cbn. now rewrite upd_nth_beyond.
    + now apply cell_set_stor_other.
Qed.

(* ------------------------------------------------------------------ nodes *)
Lemma get_node_alloc_old : forall h nd n, n < List.length (hnodes h) -> get_node (fst (alloc_node h nd)) n = get_node h n.
Proof. intros. unfold get_node. cbn. now apply nth_error_app1. Qed.

Lemma get_node_alloc_new : forall h nd, get_node (fst (alloc_node h nd)) (List.length (hnodes h)) = Some nd.
Proof. intros. unfold get_node. cbn. rewrite nth_error_app2 by lia. now rewrite Nat.sub_diag. Qed.
