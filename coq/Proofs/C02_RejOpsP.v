(* C02 proofs, part 10: arguments torch rejects for the batch shape are rejected by tensordict -- for the operations
   whose arguments only the per-entry torch calls validate: view / reshape (incl. the -1 inference of _infer_size_impl),
   unflatten, repeat, repeat_interleave(dim), expand.  Holds for every well-formed tree that contains a tensor (for
   view / reshape: a tensor without a size-0 trailing dim); instances of Proofs/C02_RejLiftP.reject_lifts. *)
From Coq Require Import ZArith List Bool Lia ZifyBool String.
Import ListNotations.
From TD Require Import Spec.PySlice Spec.C02_TorchShape Model.C02_ShapeOps Proofs.C02_FrameP Proofs.C02_OpsP Proofs.C02_InferP
                       Proofs.C02_RejectP Proofs.C02_RejLiftP.
Open Scope Z_scope.
Ltac Zify.zify_post_hook ::= Z.to_euclidean_division_equations.

Lemma correct_neg_dim_reject d n : wrap_dim d n = Reject -> correct_neg_dim d n = Raised EIndex.
Proof.
  intros H. apply wrap_dim_reject in H. unfold correct_neg_dim.
  destruct (((if d <? 0 then Z.of_nat n + d else d) <? 0) || (Z.of_nat n <=? (if d <? 0 then Z.of_nat n + d else d))) eqn:A; [reflexivity|].
  destruct (d <? 0); lia.
Qed.

Lemma forallb_nonneg_false l : forallb (fun x => 0 <=? x) l = false -> ~ nonneg l.
Proof. intros H Hn. apply forallb_nonneg in Hn. congruence. Qed.

(* ================================================================== the class with G = True *)
Definition badb (s : list Z) (k : nat) : bool :=
  existsb (fun x => x <? 0) (firstn k s) || existsb (fun x => x <? -1) (skipn k s).

Inductive KRa : sop -> list Z -> list Z -> Prop :=
| KRa_unflatten i sizes bs tl : (i < List.length bs)%nat ->
    sizes = [] \/ (nonneg sizes /\ prodZ sizes <> nthZ bs i) ->
    KRa (OUnflatten (Z.of_nat i) sizes) bs tl
| KRa_repeat reps bs tl : List.length reps = List.length bs -> forallb (fun x => 0 <=? x) (map2_mul bs reps) = false ->
    KRa (ORepeat (reps ++ repeat 1 (List.length tl))) bs tl
| KRa_repint r i bs tl : r < 0 -> (i < List.length bs)%nat -> KRa (ORepInt r (Z.of_nat i)) bs tl
| KRa_expand s bs tl : (List.length bs <= List.length s)%nat -> badb s (List.length s - List.length bs) = true ->
    KRa (OExpand (s ++ tl)) bs tl.

(* ---- expand *)
Definition resolve1 (p : Z * Z) : Z := if snd p =? -1 then fst p else snd p.

Lemma expand_tail_bad old tgt : nonneg old -> existsb (fun x => x <? -1) tgt = true -> expand_tail old tgt = Reject.
Proof.
  revert tgt. induction old as [|o old IH]; intros [|t tgt] Hn H; cbn [existsb] in H; try discriminate; [reflexivity|].
  apply nonneg_cons in Hn. destruct Hn as [Ho Hn]. cbn [expand_tail].
  destruct (expand_tail old tgt) as [r|] eqn:E; [|reflexivity]. cbn [bind].
  destruct (t <? -1) eqn:E1.
  - destruct (t =? -1) eqn:E2; [lia|]. destruct (t =? o) eqn:E3; [lia|]. destruct ((o =? 1) && (0 <=? t)) eqn:E4; [lia|reflexivity].
  - cbn [orb] in H. rewrite (IH _ Hn H) in E. discriminate.
Qed.

Lemma t_expand_bad b s : nonneg b -> (List.length b <= List.length s)%nat ->
  badb s (List.length s - List.length b) = true -> t_expand b s = Reject.
Proof.
  intros Hn Hl H. unfold t_expand. destruct (_ <? _)%nat eqn:E; [reflexivity|].
  unfold badb in H. apply orb_true_iff in H. destruct H as [H|H].
  - assert (Hf : forallb (fun x => 0 <=? x) (firstn (List.length s - List.length b) s) = false).
    { clear - H. induction (firstn _ s) as [|x l IH]; cbn in *; [discriminate|]. destruct (x <? 0) eqn:E; [destruct (0 <=? x) eqn:E2; [lia|reflexivity]|].
      cbn [orb] in H. rewrite (IH H). apply andb_false_r. }
    rewrite Hf. reflexivity.
  - destruct (forallb _ _); [|reflexivity]. rewrite (expand_tail_bad _ _ Hn H). reflexivity.
Qed.

(* the check tensordict makes itself: sizes compared literally, after -1 was resolved against the existing dim *)
Definition mismatch (p : Z * Z) : bool := negb (fst p =? 1) && negb (snd p =? fst p).

Lemma resolve_bad old tgt : (List.length tgt <= List.length old)%nat -> existsb (fun x => x <? -1) tgt = true ->
  existsb (fun x => x <? -1) (map resolve1 (combine old tgt)) = true.
Proof.
  revert tgt. induction old as [|o old IH]; intros [|t tgt] Hl H; cbn [existsb List.length] in *; try discriminate; try lia.
  cbn [combine map existsb]. unfold resolve1 at 1. cbn [fst snd].
  destruct (t <? -1) eqn:E; [destruct (t =? -1) eqn:E2; [lia|]; rewrite E; reflexivity|].
  cbn [orb] in H. rewrite (IH tgt ltac:(lia) H). apply orb_true_r.
Qed.

Lemma reject_resolved_bad old tgt : nonneg old -> List.length old = List.length tgt -> expand_tail old tgt = Reject ->
  existsb mismatch (combine old (map resolve1 (combine old tgt))) = false ->
  existsb (fun x => x <? -1) (map resolve1 (combine old tgt)) = true.
Proof.
  revert tgt. induction old as [|o old IH]; intros [|t tgt] Hn Hl H Hm; cbn [List.length] in Hl; try discriminate.
  apply nonneg_cons in Hn. destruct Hn as [Ho Hn].
  cbn [combine map existsb] in *. apply orb_false_iff in Hm. destruct Hm as [Hm1 Hm2].
  cbn [expand_tail] in H. destruct (expand_tail old tgt) as [r|] eqn:E.
  - cbn [bind] in H. unfold mismatch, resolve1 in Hm1. unfold resolve1 at 1. cbn [fst snd] in *.
    destruct (t =? -1) eqn:E1; [discriminate|]. destruct (t =? o) eqn:E2; [discriminate|].
    destruct ((o =? 1) && (0 <=? t)) eqn:E3; [discriminate|].
    destruct (o =? 1) eqn:E4; cbn [negb andb] in *; [|discriminate].
    destruct (t <? -1) eqn:E5; [reflexivity|lia].
  - rewrite (IH tgt Hn ltac:(lia) E Hm2). apply orb_true_r.
Qed.

Lemma node_expand_any s b nm : (List.length b <= List.length s)%nat ->
  let k := (List.length s - List.length b)%nat in
  let s' := firstn k s ++ map resolve1 (combine b (skipn k s)) in
  node_step (OExpand s) b nm = Raised ERuntime \/
  (existsb mismatch (combine b (map resolve1 (combine b (skipn k s)))) = false /\
   exists nm', node_step (OExpand s) b nm =
     Done (SStep s' nm' (fun csh => let j := (List.length csh - List.length b)%nat in
                                    OExpand (match j with O => s' | _ => s' ++ lastn j csh end)))).
Proof.
  intros Hl k s'. cbn [node_step]. destruct (_ <? _)%nat eqn:E; [apply Nat.ltb_lt in E; lia|].
  change fixed_C02f with true. cbv iota. fold k.
  assert (Hlk : List.length (firstn k s) = k) by (rewrite firstn_length; lia).
  assert (Hsk : skipn k (firstn k s ++ map resolve1 (combine b (skipn k s))) = map resolve1 (combine b (skipn k s))).
  { rewrite skipn_app_l by lia. rewrite (skipn_all2 (firstn k s)) by lia. reflexivity. }
  change (fun p : Z * Z => if snd p =? -1 then fst p else snd p) with resolve1.
  rewrite Hsk. change (fun p : Z * Z => negb (fst p =? 1) && negb (snd p =? fst p)) with mismatch.
  destruct (existsb mismatch _) eqn:Em; [left; reflexivity|]. right. split; [reflexivity|]. eexists. reflexivity.
Qed.

(* ---- the class is refused by torch on tensors, and closed under the calls made on entries *)
Theorem KRa_is_leaf : KR_leaf (fun _ => True) KRa.
Proof.
  intros o bs tl HK Hn _. destruct HK as [i sizes bs tl Hi Hs|reps bs tl Hl Hf|r i bs tl Hr Hi|s bs tl Hl Hb].
  - exists ERuntime. cbn [leaf_op]. unfold t_unflatten. rewrite wrap_dim_nat by (rewrite app_length; lia). cbn [bind].
    destruct Hs as [->|[Hns Hp]]; [reflexivity|]. destruct sizes as [|x sizes]; [reflexivity|].
    rewrite infer_size_nonneg by exact Hns. rewrite nthZ_app_l by exact Hi.
    destruct (prodZ (x :: sizes) =? nthZ bs i) eqn:E; [lia|]. reflexivity.
  - exists ERuntime. rewrite leaf_repeat_any. unfold t_repeat. rewrite !app_length, repeat_length.
    destruct (_ <? _)%nat eqn:E; [reflexivity|].
    replace (List.length reps + List.length tl - (List.length bs + List.length tl))%nat with 0%nat by lia. cbn [repeat app].
    rewrite map2_mul_app by lia. rewrite map2_mul_ones.
    assert (Hff : forallb (fun x => 0 <=? x) (map2_mul bs reps ++ tl) = false).
    { rewrite forallb_app, Hf. reflexivity. }
    rewrite Hff. reflexivity.
  - exists ERuntime. cbn [leaf_op]. unfold t_repeat_interleave. destruct (r <? 0) eqn:E; [reflexivity|lia].
  - exists ERuntime. cbn [leaf_op]. apply nonneg_app in Hn. destruct Hn as [Hn1 Hn2].
    assert (Hr : t_expand (bs ++ tl) (s ++ tl) = Reject).
    { apply t_expand_bad; [apply nonneg_app; tauto|rewrite !app_length; lia|].
      rewrite !app_length. replace (List.length s + List.length tl - (List.length bs + List.length tl))%nat
        with (List.length s - List.length bs)%nat by lia.
      unfold badb in *. rewrite firstn_app_l, skipn_app_l by lia. rewrite existsb_app.
      apply orb_true_iff in Hb. destruct Hb as [-> | ->]; [reflexivity|]. cbn [orb]. apply orb_true_r. }
    rewrite Hr. reflexivity.
Qed.

Lemma existsb_neg_false_nonneg l : nonneg l -> existsb (fun x => x <? 0) l = false.
Proof. apply existsb_neg_nonneg. Qed.

Theorem KRa_is_node : KR_node (fun _ => True) KRa.
Proof.
  intros o bs tl nm HK Hn Hnm _. destruct HK as [i sizes bs tl Hi Hs|reps bs tl Hl Hf|r i bs tl Hr Hi|s bs tl Hl Hb].
  - right. cbn [node_step]. rewrite correct_neg_dim_nat by (rewrite app_length; lia). cbn [bindo].
    assert (He : existsb (fun x => x <? 0) sizes = false).
    { destruct Hs as [->|[Hns _]]; [reflexivity|apply existsb_neg_nonneg; exact Hns]. }
    rewrite He, andb_false_r. cbn [bindo]. do 3 eexists. split; [reflexivity|].
    intros tl2 Hn2. apply KRa_unflatten; [rewrite app_length; lia|]. rewrite nthZ_app_l by exact Hi. exact Hs.
  - right. cbn [node_step]. rewrite !app_length, repeat_length.
    replace (Nat.eqb (List.length reps + List.length tl) (List.length bs + List.length tl)) with true
      by (symmetry; apply Nat.eqb_eq; lia).
    cbn [negb]. do 3 eexists. split; [reflexivity|]. intros tl2 Hn2. cbv beta.
    replace (List.length (bs ++ tl ++ tl2) - (List.length bs + List.length tl))%nat with (List.length tl2)
      by (rewrite !app_length; lia).
    apply KRa_repeat; [rewrite !app_length, repeat_length; lia|].
    rewrite map2_mul_app by lia. rewrite map2_mul_ones, forallb_app, Hf. reflexivity.
  - right. cbn [node_step]. destruct (bs ++ tl) as [|b0 rest] eqn:Eb.
    { apply (f_equal (@List.length Z)) in Eb. rewrite app_length in Eb. cbn in Eb. lia. }
    rewrite <- Eb. assert (Hlen : (i < List.length (bs ++ tl))%nat) by (rewrite app_length; lia).
    destruct (0 <=? Z.of_nat i) eqn:E0; [|lia]. destruct (Z.of_nat i <? 0) eqn:E1; [lia|].
    change fixed_S5 with true. cbn [andb]. destruct (Z.of_nat (List.length (bs ++ tl)) <=? Z.of_nat i) eqn:E2; [lia|].
    do 3 eexists. split; [reflexivity|]. intros tl2 Hn2. apply KRa_repint; [exact Hr|exact Hlen].
  - assert (Hl2 : (List.length (bs ++ tl) <= List.length (s ++ tl))%nat) by (rewrite !app_length; lia).
    pose proof (node_expand_any (s ++ tl) (bs ++ tl) nm Hl2) as H. cbv zeta in H.
    replace (List.length (s ++ tl) - List.length (bs ++ tl))%nat with (List.length s - List.length bs)%nat in H
      by (rewrite !app_length; lia).
    set (k := (List.length s - List.length bs)%nat) in *.
    rewrite firstn_app_l, skipn_app_l in H by lia.
    destruct H as [H|[Hm [nm' H]]]; [left; exists ERuntime; exact H|]. right.
    do 3 eexists. split; [exact H|]. intros tl2 Hn2. cbv beta zeta.
    set (s' := firstn k s ++ map resolve1 (combine (bs ++ tl) (skipn k s ++ tl))).
    replace (List.length (bs ++ tl ++ tl2) - List.length (bs ++ tl))%nat with (List.length tl2) by (rewrite !app_length; lia).
    assert (Hs'l : List.length s' = List.length (s ++ tl)).
    { unfold s'. rewrite app_length, map_length, combine_length, firstn_length, !app_length, skipn_length. lia. }
    assert (Hchild : OExpand (match List.length tl2 with O => s' | S _ => s' ++ lastn (List.length tl2) (bs ++ tl ++ tl2) end)
                     = OExpand (s' ++ tl2)).
    { destruct tl2 as [|x tl2]; [cbn; rewrite app_nil_r; reflexivity|]. rewrite app_assoc, lastn_app. reflexivity. }
    rewrite Hchild. apply KRa_expand; [rewrite Hs'l; exact Hl2|].
    rewrite Hs'l. replace (List.length (s ++ tl) - List.length (bs ++ tl))%nat with k by (rewrite !app_length; lia).
    assert (Hlk : List.length (firstn k s) = k) by (rewrite firstn_length; lia).
    unfold badb in *. unfold s'. rewrite firstn_app_l by lia. rewrite firstn_firstn, Nat.min_id.
    rewrite skipn_app_l by lia. rewrite (skipn_all2 (firstn k s)) by lia. cbn [app].
    apply orb_true_iff in Hb. destruct Hb as [-> | Hb]; [reflexivity|]. apply orb_true_iff. right.
    apply resolve_bad; [rewrite !app_length, skipn_length; lia|]. rewrite existsb_app, Hb. reflexivity.
Qed.

Lemma KRa_is_repint : KR_repint KRa.
Proof.
  intros o bs tl HK. destruct HK; try (left; exact I). right. intros ->. cbn in *. lia.
Qed.

Lemma G_true_app : forall a b : list Z, True -> True /\ True.
Proof. tauto. Qed.

Definition KRa_rejects := reject_lifts (fun _ => True) G_true_app KRa KRa_is_leaf KRa_is_node KRa_is_repint.

(* ================================================================== view / reshape: G = no size-0 trailing dim *)
Definition solid (tl : list Z) : Prop := prodZ tl <> 0.

Lemma solid_app a b : solid (a ++ b) -> solid a /\ solid b.
Proof. unfold solid. rewrite prodZ_app. nia. Qed.

Inductive KRv : sop -> list Z -> list Z -> Prop :=
| KRv_view s bs tl : nonneg s -> prodZ s <> prodZ bs -> KRv (OView (s ++ tl)) bs tl
| KRv_reshape s bs tl : nonneg s -> prodZ s <> prodZ bs -> KRv (OReshape (s ++ tl)) bs tl.

Lemma t_view_reject_app s bs tl : nonneg s -> nonneg tl -> prodZ s <> prodZ bs -> solid tl -> t_view (bs ++ tl) (s ++ tl) = Reject.
Proof.
  intros Hs Ht Hp Hg. unfold t_view, numel. rewrite infer_size_nonneg by (apply nonneg_app; tauto).
  rewrite !prodZ_app. unfold solid in Hg. destruct (prodZ s * prodZ tl =? prodZ bs * prodZ tl) eqn:E; [nia|reflexivity].
Qed.

Theorem KRv_is_leaf : KR_leaf solid KRv.
Proof.
  intros o bs tl HK Hn Hg. apply nonneg_app in Hn. destruct Hn as [_ Hn]. exists ERuntime.
  destruct HK as [s bs tl Hs Hp|s bs tl Hs Hp]; cbn [leaf_op]; unfold t_reshape; rewrite t_view_reject_app by assumption; reflexivity.
Qed.

Lemma node_view_reject (mk : list Z -> sop) s bs tl nm :
  (forall sh, node_step (mk sh) (bs ++ tl) nm =
     let* sh' := (if existsb (fun x => x <? 0) sh then infer_size_impl sh (td_numel (bs ++ tl)) else Done sh) in
     if list_eqb sh' (bs ++ tl) then Done SSelf
     else Done (SStep sh' None (fun csh => mk (sh' ++ skipn (List.length (bs ++ tl)) csh)))) ->
  nonneg s -> nonneg tl -> prodZ s <> prodZ bs -> solid tl ->
  node_step (mk (s ++ tl)) (bs ++ tl) nm = Done (SStep (s ++ tl) None (fun csh => mk ((s ++ tl) ++ skipn (List.length (bs ++ tl)) csh))).
Proof.
  intros Hmk Hs Ht Hp Hg. rewrite Hmk. rewrite existsb_neg_nonneg by (apply nonneg_app; tauto). cbn [bindo].
  destruct (list_eqb (s ++ tl) (bs ++ tl)) eqn:E; [|reflexivity].
  apply list_eqb_eq in E. apply app_inv_tail in E. subst. congruence.
Qed.

Theorem KRv_is_node : KR_node solid KRv.
Proof.
  intros o bs tl nm HK Hn Hnm Hg. apply nonneg_app in Hn. destruct Hn as [Hnb Hnt]. right.
  destruct HK as [s bs tl Hs Hp|s bs tl Hs Hp].
  - do 3 eexists. split; [apply (node_view_reject OView); try assumption; intros; reflexivity|].
    intros tl2 Hn2. cbv beta. rewrite app_assoc, skipn_app_exact. apply KRv_view; [apply nonneg_app; tauto|].
    rewrite !prodZ_app. unfold solid in Hg. nia.
  - do 3 eexists. split; [apply (node_view_reject OReshape); try assumption; intros; reflexivity|].
    intros tl2 Hn2. cbv beta. rewrite app_assoc, skipn_app_exact. apply KRv_reshape; [apply nonneg_app; tauto|].
    rewrite !prodZ_app. unfold solid in Hg. nia.
Qed.

Lemma KRv_is_repint : KR_repint KRv.
Proof. intros o bs tl HK. destruct HK; left; exact I. Qed.

Definition KRv_rejects := reject_lifts solid solid_app KRv KRv_is_leaf KRv_is_node KRv_is_repint.

(* ================================================================== the statements *)
Definition leaf_ok (o : sop) (tl : list Z) : Prop :=
  match o with OView _ | OReshape _ => prodZ tl <> 0 | _ => True end.

(* normalised dims are a permutation of 0 .. k-1 with k = len(dims): tensordict's documented extension of permute *)
Definition prefix_permutation (dims : list Z) (n : nat) : Prop :=
  let dl := map (fun d => if 0 <=? d then d else Z.of_nat n + d) dims in
  forallb (fun d => d <? len dl) dl && nodupb (map Z.to_nat dl) = true.

Definition reject_domain_full (o : sop) (bs : list Z) : Prop :=
  match o with
  | OPermute dims => List.length dims = List.length bs \/ ~ prefix_permutation dims (List.length bs)
  | ORepInt _ _ => bs <> []              (* rank 0: tensordict's coded extension (the batch is one element) *)
  | OViewStar _ | OSqueezeDims _ | OSqueezeAllChild _ _ _ => False
  | _ => True
  end.

Lemma view_root_rejected (mk : list Z -> sop) bs nm ents sh :
  (forall s b n, node_step (mk s) b n =
     let* sh' := (if existsb (fun x => x <? 0) s then infer_size_impl s (td_numel b) else Done s) in
     if list_eqb sh' b then Done SSelf
     else Done (SStep sh' None (fun csh => mk (sh' ++ skipn (List.length b) csh)))) ->
  (forall s b, nonneg s -> prodZ s <> prodZ b -> KRv (mk (s ++ [])) b []) ->
  wf (Node bs nm ents) -> t_view bs sh = Reject -> hasleaf solid (List.length bs) (Node bs nm ents) ->
  exists k, apply (Node bs nm ents) (mk sh) = Raised k.
Proof.
  intros Hmk HK Hw Ht Hh. assert (Hnb : nonneg bs) by (inversion Hw; assumption).
  destruct (existsb (fun x => x <? 0) sh) eqn:En.
  - exists EAssert. apply apply_raises. rewrite Hmk, En. unfold td_numel. change fixed_C02h with true. cbv iota.
    rewrite infer_equiv. unfold t_view, numel in Ht. rewrite Ht. reflexivity.
  - assert (Hns : nonneg sh).
    { unfold nonneg. rewrite Forall_forall. intros x Hx. destruct (x <? 0) eqn:E; [|lia].
      assert (existsb (fun x => x <? 0) sh = true) by (apply existsb_exists; exists x; tauto). congruence. }
    unfold t_view, numel in Ht. rewrite infer_size_nonneg in Ht by exact Hns.
    destruct (prodZ sh =? prodZ bs) eqn:E; [discriminate|].
    rewrite <- (app_nil_r sh). apply (KRv_rejects (Node bs nm ents) _ bs []).
    + apply HK; [exact Hns|lia].
    + exact Hw.
    + cbn. rewrite app_nil_r. reflexivity.
    + exact Hh.
Qed.

Theorem illegal_is_rejected_with_entries : forall bs nm ents o,
  wf (Node bs nm ents) -> reject_domain_full o bs -> torch_shape o bs = Reject ->
  hasleaf (leaf_ok o) (List.length bs) (Node bs nm ents) ->
  exists k, apply (Node bs nm ents) o = Raised k.
Proof.
  intros bs nm ents o Hw Hd Ht Hh. assert (Hnb : nonneg bs) by (inversion Hw; assumption).
  destruct o as [dims|d0 d1|d|d|sh|sh|sh|sh|a b|d sizes|reps|r d|ds|bs1 n1 ds]; cbn [reject_domain_full torch_shape leaf_ok] in *;
    try contradiction.
  - (* permute *)
    destruct (Nat.eq_dec (List.length dims) (List.length bs)) as [El|Nl].
    { apply illegal_is_rejected; [exact El|exact Ht]. }
    destruct Hd as [Hd|Hd]; [contradiction|]. exists EValue. apply apply_raises. cbn [node_step].
    destruct (existsb _ _); [reflexivity|]. unfold prefix_permutation in Hd. cbv zeta in Hd.
    destruct (forallb _ _ && nodupb _); [congruence|]. reflexivity.
  - (* transpose: a rank-0 batch refuses every dim *)
    destruct bs as [|b0 bs]; [|apply illegal_is_rejected; [discriminate|exact Ht]].
    exists EValue. apply apply_raises. cbn [node_step List.length Z.of_nat].
    destruct (d0 <? 0) eqn:E0; destruct (d1 <? 0) eqn:E1;
      match goal with |- (if ?c then _ else _) = _ => destruct c eqn:Ec; [reflexivity|lia] end.
  - (* squeeze *)
    destruct d as [d|]; [|discriminate].
    destruct bs as [|b0 bs]; [|apply illegal_is_rejected; [discriminate|exact Ht]].
    exists EIndex. apply apply_raises. cbn [node_step]. unfold correct_neg_dim. cbn [List.length Z.of_nat].
    destruct (d <? 0) eqn:E0; match goal with |- (let* _ := (if ?c then _ else _) in _) = _ => destruct c eqn:Ec; [reflexivity|lia] end.
  - apply illegal_is_rejected; [exact I|exact Ht].
  - (* expand *)
    destruct (List.length sh <? List.length bs)%nat eqn:El.
    { exists ERuntime. apply apply_raises. cbn [node_step]. rewrite El. reflexivity. }
    apply Nat.ltb_ge in El.
    destruct (node_expand_any sh bs nm El) as [H|[Hm [nm' H]]]; [exists ERuntime; apply apply_raises; exact H|].
    cbv zeta in *. set (k := (List.length sh - List.length bs)%nat) in *.
    set (s' := firstn k sh ++ map resolve1 (combine bs (skipn k sh))) in *.
    assert (Hlk : List.length (firstn k sh) = k) by (rewrite firstn_length; lia).
    assert (Hs'l : List.length s' = List.length sh).
    { unfold s'. rewrite app_length, map_length, combine_length, firstn_length, skipn_length. lia. }
    assert (Hbad : badb s' (List.length s' - List.length bs) = true).
    { rewrite Hs'l. fold k. unfold badb, s'. rewrite firstn_app_l by lia. rewrite firstn_firstn, Nat.min_id.
      rewrite skipn_app_l by lia. rewrite (skipn_all2 (firstn k sh)) by lia. cbn [app].
      unfold t_expand in Ht. destruct (_ <? _)%nat eqn:E2; [apply Nat.ltb_lt in E2; lia|]. fold k in Ht.
      destruct (forallb (fun x => 0 <=? x) (firstn k sh)) eqn:Ef.
      - destruct (expand_tail bs (skipn k sh)) eqn:Ee; [discriminate|].
        assert (Hsl : List.length bs = List.length (skipn k sh)) by (rewrite skipn_length; lia).
        rewrite (reject_resolved_bad _ _ Hnb Hsl Ee Hm). apply orb_true_r.
      - assert (Hx : existsb (fun x => x <? 0) (firstn k sh) = true).
        { clear - Ef. induction (firstn k sh) as [|x l IH]; cbn in *; [discriminate|].
          destruct (0 <=? x) eqn:E; [cbn [andb] in Ef; rewrite (IH Ef); apply orb_true_r|]. destruct (x <? 0) eqn:E2; [reflexivity|lia]. }
        rewrite Hx. reflexivity. }
    (* one step by hand, then the class *)
    inversion Hh as [|? ? ? key c Hin Hc]; subst.
    inversion Hw as [|? ? ? _ Hnm HF]; subst. rewrite Forall_forall in HF.
    rewrite apply_node_unfold, H. cbn [bindo].
    destruct (ents_loop_raises (fun c0 => apply c0 (OExpand (match (List.length (top_shape c0) - List.length bs)%nat with
                                                             | O => s' | S _ => s' ++ lastn (List.length (top_shape c0) - List.length bs) (top_shape c0) end)))
                               ents key c) as [e He].
    + rewrite Forall_forall. intros [k0 c0] Hin0. cbn [snd]. destruct (HF _ Hin0) as [Hw0 _]. apply apply_settled; [exact Hw0|left; exact I].
    + exact Hin.
    + destruct (HF _ Hin) as [Hwc [tl2 Hcs]]. cbn [snd] in *. rewrite Hcs, app_length.
      replace (List.length bs + List.length tl2 - List.length bs)%nat with (List.length tl2) by lia.
      assert (Hchild : OExpand (match List.length tl2 with O => s' | S _ => s' ++ lastn (List.length tl2) (bs ++ tl2) end) = OExpand (s' ++ tl2)).
      { destruct tl2 as [|x tl2]; [cbn; rewrite app_nil_r; reflexivity|]. rewrite lastn_app. reflexivity. }
      rewrite Hchild. apply (KRa_rejects c _ bs tl2); [apply KRa_expand; [lia|exact Hbad]|exact Hwc|exact Hcs|exact Hc].
    + exists e. rewrite He. reflexivity.
  - (* view *)
    apply (view_root_rejected OView); try assumption; [intros; reflexivity|]. intros s b Hs Hp. apply KRv_view; assumption.
  - (* reshape *)
    apply (view_root_rejected OReshape); try assumption; [intros; reflexivity|]. intros s b Hs Hp. apply KRv_reshape; assumption.
  - apply illegal_is_rejected; [exact I|exact Ht].
  - (* unflatten *)
    unfold t_unflatten in Ht. destruct (wrap_dim d (List.length bs)) as [i|] eqn:Ei.
    + cbn [bind] in Ht. pose proof (wrap_dim_ok _ _ _ Ei) as [Hi _].
      destruct (existsb (fun x => x <? 0) sizes) eqn:En.
      * exists EAssert. apply apply_raises. cbn [node_step]. rewrite (correct_neg_dim_wrap _ _ _ Ei). cbn [bindo].
        change fixed_C02g with true. rewrite En. cbn [andb]. rewrite infer_equiv.
        destruct sizes as [|x sizes]; [discriminate|]. destruct (infer_size (x :: sizes) (nthZ bs i)); [discriminate|reflexivity].
      * assert (Hns : nonneg sizes).
        { unfold nonneg. rewrite Forall_forall. intros x Hx. destruct (x <? 0) eqn:E; [|lia].
          assert (existsb (fun x => x <? 0) sizes = true) by (apply existsb_exists; exists x; tauto). congruence. }
        assert (HK : KRa (OUnflatten (Z.of_nat i) sizes) bs []).
        { apply KRa_unflatten; [exact Hi|]. destruct sizes as [|x sizes]; [left; reflexivity|right]. split; [exact Hns|].
          rewrite infer_size_nonneg in Ht by exact Hns. destruct (prodZ (x :: sizes) =? nthZ bs i) eqn:E; [discriminate|lia]. }
        (* the root call carries the user's spelling of the dim: same node step as the normalised one *)
        assert (Hsame : forall nm0, node_step (OUnflatten d sizes) bs nm0 = node_step (OUnflatten (Z.of_nat i) sizes) bs nm0).
        { intros nm0. cbn [node_step]. rewrite (correct_neg_dim_wrap _ _ _ Ei), (correct_neg_dim_nat _ _ Hi). reflexivity. }
        destruct (KRa_rejects (Node bs nm ents) (OUnflatten (Z.of_nat i) sizes) bs [] HK Hw ltac:(cbn; rewrite app_nil_r; reflexivity) Hh) as [e He].
        rewrite apply_node_unfold in He. rewrite apply_node_unfold, Hsame.
        destruct (node_step (OUnflatten (Z.of_nat i) sizes) bs nm) as [[|bs' nm' child]| | |] eqn:Es; cbn [bindo] in *; try discriminate; try (eexists; reflexivity).
        destruct (ents_loop _ ents) as [ents'| | |]; cbn [bindo] in *; try discriminate; try (eexists; reflexivity).
        exists e. exact He.
    + exists EIndex. apply apply_raises. cbn [node_step]. rewrite (correct_neg_dim_reject _ _ Ei). reflexivity.
  - (* repeat *)
    destruct (Nat.eqb (List.length reps) (List.length bs)) eqn:El.
    + apply Nat.eqb_eq in El. unfold t_repeat in Ht. destruct (_ <? _)%nat eqn:E; [apply Nat.ltb_lt in E; lia|].
      replace (List.length reps - List.length bs)%nat with 0%nat in Ht by lia. cbn [repeat app] in Ht.
      destruct (forallb (fun x => 0 <=? x) (map2_mul bs reps)) eqn:Ef; [discriminate|].
      rewrite <- (app_nil_r reps). change (@nil Z) with (repeat 1 (List.length (@nil Z))) at 1.
      apply (KRa_rejects (Node bs nm ents) _ bs []); [apply KRa_repeat; assumption|exact Hw|cbn; rewrite app_nil_r; reflexivity|exact Hh].
    + exists EValue. apply apply_raises. cbn [node_step]. rewrite El. reflexivity.
  - (* repeat_interleave(dim) *)
    unfold t_repeat_interleave in Ht.
    set (dc := if 0 <=? d then d else Z.of_nat (List.length bs) + d).
    destruct (dc <? 0) eqn:E1.
    { exists EValue. apply apply_raises. cbn [node_step]. destruct bs; [congruence|]. fold dc. rewrite E1. reflexivity. }
    destruct (Z.of_nat (List.length bs) <=? dc) eqn:E2.
    { exists EValue. apply apply_raises. cbn [node_step]. destruct bs; [congruence|]. fold dc. rewrite E1. change fixed_S5 with true. cbn [andb].
      fold dc. rewrite E2. reflexivity. }
    assert (Hr : r < 0).
    { destruct (r <? 0) eqn:Er; [lia|]. destruct bs as [|b0 bs]; [congruence|].
      assert (Hwd : exists i, wrap_dim d (List.length (b0 :: bs)) = Ok i).
      { unfold wrap_dim. destruct ((d <? - Z.of_nat (List.length (b0 :: bs))) || (Z.of_nat (List.length (b0 :: bs)) <=? d)) eqn:E; [|eexists; reflexivity].
        unfold dc in *. destruct (0 <=? d); lia. }
      destruct Hwd as [i Hi]. rewrite Hi in Ht. discriminate. }
    assert (Hi : (Z.to_nat dc < List.length bs)%nat) by lia.
    assert (Hsame : forall nm0, node_step (ORepInt r d) bs nm0 = node_step (ORepInt r (Z.of_nat (Z.to_nat dc))) bs nm0).
    { intros nm0. cbn [node_step]. destruct bs; [reflexivity|]. fold dc. rewrite Z2Nat.id by lia.
      destruct (0 <=? dc) eqn:E3; [|lia]. reflexivity. }
    destruct (KRa_rejects (Node bs nm ents) (ORepInt r (Z.of_nat (Z.to_nat dc))) bs [] (KRa_repint _ _ _ _ Hr Hi) Hw
                ltac:(cbn; rewrite app_nil_r; reflexivity) Hh) as [e He].
    rewrite apply_node_unfold in He. rewrite apply_node_unfold, Hsame.
    destruct (node_step (ORepInt r (Z.of_nat (Z.to_nat dc))) bs nm) as [[|bs' nm' child]| | |] eqn:Es; cbn [bindo] in *; try discriminate; try (eexists; reflexivity).
    destruct (ents_loop _ ents) as [ents'| | |]; cbn [bindo] in *; try discriminate; try (eexists; reflexivity).
Qed.
