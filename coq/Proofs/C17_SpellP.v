(* C17 — every argument spelling: python's binding of the forward call (forward_call) and the re-parsing of the
   recorded (args, kwargs) by the `_reverse_*` function (reverse) denote the same dims, so the element-level inverse
   theorems of C17_ElemP hold for every spelling. *)
From Coq Require Import ZArith List String Bool Lia ZifyBool Permutation.
Import ListNotations.
From TD Require Import Model.C17_Inverse Model.C17_Elem Proofs.C17_InverseP Proofs.C17_ElemP.
Open Scope string_scope.
Open Scope Z_scope.
Open Scope list_scope.

Ltac dpos s := let p := fresh "p" in let k := fresh "k" in destruct s as [p k]; cbn [pos kw] in *;
  destruct p as [|[?a|?l|?x] [|[?b|?l2|?x2] [|?v3 ?p3]]].
Ltac dmatch H :=
  repeat (match type of H with match ?x with _ => _ end = Some _ => destruct x; try discriminate H end);
  try discriminate H.

Lemma fc_transpose s : forward_call "transpose" s =
    (if negb (kw_only s ["dim0"; "dim1"]) then None else
     match pos s, kwget (kw s) "dim0", kwget (kw s) "dim1" with
     | [VInt a; VInt b], None, None => Some (CTranspose a b)
     | [VInt a], None, Some (VInt b) => Some (CTranspose a b)
     | [], Some (VInt a), Some (VInt b) => Some (CTranspose a b)
     | _, _, _ => None
     end).
Proof. reflexivity. Qed.

Lemma rv_transpose s sh n : reverse "transpose" s sh n =
    (match pos s, kwget (kw s) "dim0", kwget (kw s) "dim1" with
     | [VInt a; VInt b], _, _ => CTranspose a b
     | [VInt a], _, Some (VInt b) => CTranspose a b
     | [], Some (VInt a), Some (VInt b) => CTranspose a b
     | _, _, _ => CRaise
     end).
Proof. reflexivity. Qed.

Lemma spell_transpose s c sh n : forward_call "transpose" s = Some c ->
  exists a b, c = CTranspose a b /\ reverse "transpose" s sh n = CTranspose a b.
Proof.
  rewrite fc_transpose, rv_transpose. destruct (negb _); [discriminate|].
  dpos s; intros H; dmatch H; injection H as <-; eauto.
Qed.

Lemma fc_permute s : forward_call "permute" s =
    (if negb (kw_only s ["dims"]) then None else
     match pos s, kwget (kw s) "dims" with
     | _ :: _, Some _ => None
     | _, _ => option_map CPermute (shape_from_args s "dims")
     end).
Proof. reflexivity. Qed.

Lemma rv_permute s sh n : reverse "permute" s sh n =
    (match shape_from_args s "dims" with
     | Some dims => CPermute (inv_perm (map (fun d => if d >=? 0 then d else n + d) dims))
     | None => CRaise
     end).
Proof. reflexivity. Qed.

Lemma spell_permute s c sh n : forward_call "permute" s = Some c ->
  exists l, c = CPermute l /\ reverse "permute" s sh n = CPermute (inv_perm (map (fun d => norm d n) l)).
Proof.
  rewrite fc_permute, rv_permute. destruct (negb _); [discriminate|].
  assert (E : forall l, map (fun d => if d >=? 0 then d else n + d) l = map (fun d => norm d n) l)
    by (intros l; apply map_ext; intros d; apply norm_ge).
  destruct (shape_from_args s "dims") as [l|]; intros H.
  - exists l. rewrite E. split; [|reflexivity]. destruct (pos s), (kwget (kw s) "dims"); cbn in H; congruence.
  - destruct (pos s), (kwget (kw s) "dims"); cbn in H; congruence.
Qed.

Lemma fc_view s : forward_call "view" s =
    (if negb (kw_only s ["size"]) then None else
     match pos s, kwget (kw s) "size" with
     | _ :: _, Some _ => None
     | _, _ => option_map CView (shape_from_args s "size")
     end).
Proof. reflexivity. Qed.

Lemma spell_view s c sh n : forward_call "view" s = Some c -> exists l, c = CView l /\ reverse "view" s sh n = CView sh.
Proof.
  rewrite fc_view. destruct (negb _); [discriminate|]. intros H.
  destruct (shape_from_args s "size") as [l|].
  - exists l. split; [|reflexivity]. destruct (pos s), (kwget (kw s) "size"); cbn in H; congruence.
  - destruct (pos s), (kwget (kw s) "size"); cbn in H; congruence.
Qed.

Lemma fc_flatten s : forward_call "flatten" s =
    (if negb (kw_only s ["start_dim"; "end_dim"]) then None else
     match pos s, kwget (kw s) "start_dim", kwget (kw s) "end_dim" with
     | [VInt a; VInt b], None, None => Some (CFlatten a b)
     | [VInt a], None, Some (VInt b) => Some (CFlatten a b)
     | [VInt a], None, None => Some (CFlatten a (-1))
     | [], Some (VInt a), Some (VInt b) => Some (CFlatten a b)
     | [], Some (VInt a), None => Some (CFlatten a (-1))
     | [], None, Some (VInt b) => Some (CFlatten 0 b)
     | [], None, None => Some (CFlatten 0 (-1))
     | _, _, _ => None
     end).
Proof. reflexivity. Qed.

Lemma rv_flatten s sh n : reverse "flatten" s sh n =
    (let nd := zlen sh in
     let d01 :=
      match pos s with
      | [VInt a; VInt b] => Some (a, b)
      | [VInt a] => Some (a, match kwget (kw s) "end_dim" with Some (VInt b) => b | _ => -1 end)
      | [] => Some (match kwget (kw s) "start_dim" with Some (VInt a) => a | _ => 0 end,
                    match kwget (kw s) "end_dim" with Some (VInt b) => b | _ => -1 end)
      | _ => None
      end in
    match d01 with
    | None => CRaise
    | Some (d0, d1) =>
        let d1 := if d1 <? 0 then nd + d1 else d1 in
        let d0 := if d0 <? 0 then nd + d0 else d0 in
        CUnflatten d0 (firstn (Z.to_nat (d1 + 1 - d0)) (skipn (Z.to_nat d0) sh))
    end).
Proof. reflexivity. Qed.

Lemma spell_flatten s c sh n : forward_call "flatten" s = Some c ->
  exists a b, c = CFlatten a b
    /\ reverse "flatten" s sh n = CUnflatten (norm a (zlen sh)) (seg sh (norm a (zlen sh)) (norm b (zlen sh))).
Proof.
  rewrite fc_flatten, rv_flatten. destruct (negb _); [discriminate|].
  dpos s; intros H; dmatch H; injection H as <-; eexists _, _; (split; [reflexivity|]); reflexivity.
Qed.

Lemma fc_unflatten s : forward_call "unflatten" s =
    (if negb (kw_only s ["dim"; "unflattened_size"]) then None else
     match pos s, kwget (kw s) "dim", kwget (kw s) "unflattened_size" with
     | [VInt d; VInts sz], None, None => Some (CUnflatten d sz)
     | [VInt d], None, Some (VInts sz) => Some (CUnflatten d sz)
     | [], Some (VInt d), Some (VInts sz) => Some (CUnflatten d sz)
     | _, _, _ => None
     end).
Proof. reflexivity. Qed.

Lemma rv_unflatten fx s sh n : reverse_with fx "unflatten" s sh n =
    (let nd := zlen sh in
     let ds :=
      match pos s with
      | VInt d :: VInts sz :: _ => Some (d, sz)
      | [VInt d] => match kwget (kw s) "unflattened_size" with Some (VInts sz) => Some (d, sz) | _ => None end
      | [] => match kwget (kw s) "dim", kwget (kw s) "unflattened_size" with
              | Some (VInt d), Some (VInts sz) => Some (d, sz) | _, _ => None end
      | _ => None
      end in
    match ds with
    | None => CRaise
    | Some (d, sz) =>
        let d0 := if d <? 0 then nd + d else d in
        if fx && (zlen sz =? 1) then CIdentity else CFlatten d0 (d0 + zlen sz - 1)
    end).
Proof. reflexivity. Qed.

Lemma spell_unflatten fx s c sh n : forward_call "unflatten" s = Some c ->
  exists d sz, c = CUnflatten d sz
    /\ reverse_with fx "unflatten" s sh n
       = (if fx && (zlen sz =? 1) then CIdentity else CFlatten (norm d (zlen sh)) (norm d (zlen sh) + zlen sz - 1)).
Proof.
  rewrite fc_unflatten, rv_unflatten. destruct (negb _); [discriminate|].
  dpos s; intros H; dmatch H; injection H as <-; eexists _, _; (split; [reflexivity|]); reflexivity.
Qed.

Lemma fc_squeeze s : forward_call "squeeze" s =
    (if negb (kw_only s ["dim"]) then None else
     match pos s, kwget (kw s) "dim" with
     | [VInt d], None => Some (CSqueeze d)
     | [], Some (VInt d) => Some (CSqueeze d)
     | _, _ => None
     end).
Proof. reflexivity. Qed.

Lemma rv_squeeze s sh n : reverse "squeeze" s sh n =
    (match (match pos s, kwget (kw s) "dim" with
           | [VInt d], _ => Some d | [], Some (VInt d) => Some d | _, _ => None end) with
    | None => CRaise
    | Some d => if n =? zlen sh then CIdentity else CUnsqueeze d
    end).
Proof. reflexivity. Qed.

Lemma spell_squeeze s c sh n : forward_call "squeeze" s = Some c ->
  exists d, c = CSqueeze d /\ reverse "squeeze" s sh n = (if n =? zlen sh then CIdentity else CUnsqueeze d).
Proof.
  rewrite fc_squeeze, rv_squeeze. destruct (negb _); [discriminate|].
  dpos s; intros H; dmatch H; injection H as <-; eauto.
Qed.

Lemma fc_unsqueeze s : forward_call "unsqueeze" s =
    (if negb (kw_only s ["dim"]) then None else
     match pos s, kwget (kw s) "dim" with
     | [VInt d], None => Some (CUnsqueeze d)
     | [], Some (VInt d) => Some (CUnsqueeze d)
     | _, _ => None
     end).
Proof. reflexivity. Qed.

Lemma rv_unsqueeze s sh n : reverse "unsqueeze" s sh n =
    (match pos s, kwget (kw s) "dim" with
     | [VInt d], _ => CSqueeze d
     | [], Some (VInt d) => CSqueeze d
     | _, _ => CRaise
     end).
Proof. reflexivity. Qed.

Lemma spell_unsqueeze s c sh n : forward_call "unsqueeze" s = Some c ->
  exists d, c = CUnsqueeze d /\ reverse "unsqueeze" s sh n = CSqueeze d.
Proof.
  rewrite fc_unsqueeze, rv_unsqueeze. destruct (negb _); [discriminate|].
  dpos s; intros H; dmatch H; injection H as <-; eauto.
Qed.

Definition unflat_len (c : icall) : nat := match c with CUnflatten _ sz => List.length sz | _ => 0 end.

(* the code before the repair of D201: correct exactly when the size has at least two entries *)
Theorem elem_roundtrip_unflatten_unrepaired_partial : forall s sh c ysh,
  nonneg sh -> forward_call "unflatten" s = Some c -> shape_of c sh = Some ysh -> (2 <= unflat_len c)%nat ->
  undoes c (reverse_with false "unflatten" s sh (zlen ysh)) sh ysh.
Proof.
  intros s sh c ysh Hnn Hf Hs Hl. destruct (spell_unflatten false s c sh (zlen ysh) Hf) as [d [sz [-> ->]]]. cbn in Hl.
  cbn [andb].
  assert (Hs' := Hs). cbn [shape_of] in Hs'. destruct (unflatten_dims sh d sz) as [[d' sz']|] eqn:Ed; [|discriminate].
  assert (Ed' : d' = norm d (zlen sh)).
  { unfold unflatten_dims in Ed. destruct (in_range d (zlen sh)); [|discriminate]. destruct sz; [discriminate|].
    destruct (infer _ _); [|discriminate]. now injection Ed as <- _. }
  rewrite <- Ed'. eapply undoes_unflatten; eassumption.
Qed.

Theorem elem_roundtrip_unflatten_unrepaired_refuted : exists s sh c ysh,
  nonneg sh /\ forward_call "unflatten" s = Some c /\ shape_of c sh = Some ysh
  /\ shape_of (reverse_with false "unflatten" s sh (zlen ysh)) ysh = None.
Proof.
  exists {| pos := [VInt 0; VInts [6]]; kw := [] |}, [6; 4], (CUnflatten 0 [6]), [6; 4].
  repeat split; try reflexivity. repeat constructor; lia.
Qed.

(* the repaired code: every size *)
Theorem elem_roundtrip_unflatten : forall s sh c ysh,
  nonneg sh -> forward_call "unflatten" s = Some c -> shape_of c sh = Some ysh ->
  undoes c (reverse "unflatten" s sh (zlen ysh)) sh ysh.
Proof.
  intros s sh c ysh Hnn Hf Hs. unfold reverse.
  destruct (spell_unflatten fixed_D201 s c sh (zlen ysh) Hf) as [d [sz [-> ->]]].
  change (fixed_D201 && (zlen sz =? 1)) with (zlen sz =? 1).
  destruct (zlen sz =? 1) eqn:E1.
  - destruct sz as [|z [|? ?]]; try (unfold zlen in E1; cbn [List.length] in E1; lia). now apply undoes_unflatten1.
  - assert (Hs' := Hs). cbn [shape_of] in Hs'. destruct (unflatten_dims sh d sz) as [[d' sz']|] eqn:Ed; [|discriminate].
    assert (Hl : (2 <= List.length sz)%nat).
    { unfold unflatten_dims in Ed. destruct (in_range d (zlen sh)); [|discriminate]. destruct sz as [|? [|? ?]]; try discriminate.
      cbn [List.length]. lia. }
    assert (Ed' : d' = norm d (zlen sh)).
    { unfold unflatten_dims in Ed. destruct (in_range d (zlen sh)); [|discriminate]. destruct sz; [discriminate|].
      destruct (infer _ _); [|discriminate]. now injection Ed as <- _. }
    rewrite <- Ed'. eapply undoes_unflatten; eassumption.
Qed.

Definition elem_ops : list string := ["transpose"; "permute"; "view"; "flatten"; "unflatten"; "squeeze"; "unsqueeze"].

(* the full statement, for one operation name *)
Definition elem_roundtrip_for (op : string) : Prop :=
  forall s sh c ysh, nonneg sh -> forward_call op s = Some c -> shape_of c sh = Some ysh ->
    undoes c (reverse op s sh (zlen ysh)) sh ysh.

Theorem elem_roundtrip : forall op, In op elem_ops -> elem_roundtrip_for op.
Proof.
  intros op Hin s sh c ysh Hnn Hf Hs.
  cbn in Hin. destruct Hin as [<-|[<-|[<-|[<-|[<-|[<-|[<-|[]]]]]]]].
  - destruct (spell_transpose s c sh (zlen ysh) Hf) as [a [b [-> ->]]]. now apply undoes_transpose.
  - destruct (spell_permute s c sh (zlen ysh) Hf) as [l [-> ->]].
    assert (Hs' := Hs). cbn [shape_of] in Hs'. destruct (perm_dims l (zlen sh)) as [p|] eqn:Ep; [|discriminate].
    destruct (perm_dims_spec _ _ _ Ep) as [Epm [_ [P Hk]]].
    assert (Hyl : zlen ysh = zlen sh).
    { cbn in Hs'. injection Hs' as <-. unfold zlen. rewrite apply_perm_len; [reflexivity|].
      destruct Hk as [Hk| ->]; [unfold zlen in Hk; lia|]. cbn in Ep. injection Ep as <-. cbn. lia. }
    rewrite Hyl, <- Epm. eapply undoes_permute; eassumption.
  - destruct (spell_view s c sh (zlen ysh) Hf) as [l [-> ->]]. now apply undoes_view.
  - destruct (spell_flatten s c sh (zlen ysh) Hf) as [a [b [-> ->]]].
    assert (Hs' := Hs). cbn [shape_of] in Hs'. destruct (flatten_dims a b (zlen sh)) as [[a' b']|] eqn:Ed; [|discriminate].
    destruct (flatten_dims_ok _ _ _ _ _ Ed) as [<- [<- _]]. eapply undoes_flatten; eassumption.
  - now apply elem_roundtrip_unflatten.
  - destruct (spell_squeeze s c sh (zlen ysh) Hf) as [d [-> ->]]. now apply undoes_squeeze.
  - destruct (spell_unsqueeze s c sh (zlen ysh) Hf) as [d [-> ->]]. now apply undoes_unsqueeze.
Qed.
