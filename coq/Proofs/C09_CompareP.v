(* C09 — comparison operators recurse node by node: key-wise at every depth (Model/C09_Align.v cmp_tree) *)
From Coq Require Import ZArith List String Bool Lia Arith.
Import ListNotations.
From TD Require Import Model.Dual Proofs.DualP Model.C09_Align Spec.C09_KeyWise Proofs.C09_AlignP.

Section C.
  Context {V : Type}.
  Notation tree := (tree V).
  Notation ctree := (ctree V).

  Definition go_children (c2 : list (string * tree)) :=
    fix go (l : list (string * tree)) : option (option (list (string * ctree))) :=
      match l with
      | [] => Some (Some [])
      | (k, t) :: r =>
          match dget c2 k with
          | None => Some None
          | Some t' => cons_child k (cmp_tree t t') (go r)
          end
      end.

  Lemma cmp_node c1 c2 :
    cmp_tree (Node c1) (Node c2) = if key_check c1 c2 then close_node (go_children c2 c1) else CRaised.
  Proof. reflexivity. Qed.

  Lemma leaf_at_node (c : list (string * tree)) k p :
    leaf_at (Node c) (k :: p) = match dget c k with Some t => leaf_at t p | None => None end.
  Proof.
    cbn [leaf_at]. induction c as [|[k' t'] r IH]; cbn; [reflexivity|]. destruct (String.eqb k' k); [reflexivity|exact IH].
  Qed.
  Lemma cleaf_at_node (c : list (string * ctree)) k p :
    cleaf_at (CNode c) (k :: p) = match dget c k with Some t => cleaf_at t p | None => None end.
  Proof.
    cbn [cleaf_at]. induction c as [|[k' t'] r IH]; cbn; [reflexivity|]. destruct (String.eqb k' k); [reflexivity|exact IH].
  Qed.

  Lemma dedup_id l : NoDup l -> dedup l = l.
  Proof.
    induction l as [|a l IH]; cbn; intros H; [reflexivity|]. inversion H as [|? ? Hn Hl]; subst.
    rewrite (IH Hl). f_equal. clear -Hn. induction l as [|b l IH]; cbn; [reflexivity|].
    destruct (String.eqb a b) eqn:E.
    - apply String.eqb_eq in E. subst. exfalso. apply Hn. now left.
    - cbn. f_equal. apply IH. intros C. apply Hn. now right.
  Qed.

  Lemma in_dget {A} (l : list (string * A)) k t : NoDup (map fst l) -> In (k, t) l -> dget l k = Some t.
  Proof.
    induction l as [|[k' t'] r IH]; cbn; intros Hn Hi; [contradiction|]. inversion Hn as [|? ? Hnot Hr]; subst.
    destruct Hi as [E|Hi].
    - injection E as -> ->. now rewrite String.eqb_refl.
    - destruct (String.eqb k' k) eqn:E.
      + apply String.eqb_eq in E. subst. exfalso. apply Hnot. apply (in_map fst) in Hi. exact Hi.
      + now apply IH.
  Qed.

  Lemma go_ok (c2 : list (string * tree)) : forall l,
    (forall k t, In (k, t) l -> exists t' x, dget c2 k = Some t' /\ cmp_tree t t' = COk x /\
                                            forall p, cleaf_at x p = spec_cmp t t' p) ->
    exists xs, go_children c2 l = Some (Some xs) /\
      forall k p, cleaf_at (CNode xs) (k :: p)
                  = match dget l k, dget c2 k with Some t, Some t' => spec_cmp t t' p | _, _ => None end.
  Proof.
    induction l as [|[k0 t0] l IH]; intros H.
    - exists []. split; [reflexivity|]. intros k p. reflexivity.
    - destruct (H k0 t0 (or_introl eq_refl)) as [t' [x [Hg [Hc Hx]]]].
      destruct IH as [xs [Hgo Hxs]]; [intros k t Hi; apply H; now right|].
      exists ((k0, x) :: xs). split.
      + cbn [go_children]. rewrite Hg, Hc. fold (go_children c2). rewrite Hgo. reflexivity.
      + intros k p. rewrite cleaf_at_node. cbn [dget]. destruct (String.eqb k0 k) eqn:E.
        * apply String.eqb_eq in E. subst. rewrite Hg. apply Hx.
        * rewrite <- cleaf_at_node. apply Hxs.
  Qed.

  Theorem compare_keywise : forall t1 t2 : tree, same_struct t1 t2 ->
    exists r, cmp_tree t1 t2 = COk r /\ forall p, cleaf_at r p = spec_cmp t1 t2 p.
  Proof.
    intros t1 t2 H. induction H as [a b|c1 c2 N1 N2 HK HC IH].
    - exists (CLeaf a b). split; [reflexivity|]. intros [|k p]; reflexivity.
    - rewrite cmp_node.
      assert (KC : key_check c1 c2 = true).
      { unfold key_check, tkeys. apply andb_true_iff. split.
        - apply forallb_forall. intros k Hk. apply mem_In. now apply HK.
        - apply Nat.eqb_eq. rewrite !dedup_id by assumption. now apply nodup_same_length. }
      rewrite KC.
      destruct (go_ok c2 c1) as [xs [Hgo Hxs]].
      { intros k t Hi. pose proof (in_dget c1 k t N1 Hi) as Hd.
        destruct (dget_in_some c2 k) as [t' Ht'].
        { apply HK. apply (in_map fst) in Hi. exact Hi. }
        destruct (IH k t t' Hd Ht') as [x [Hc Hx]]. exists t', x. auto. }
      rewrite Hgo. exists (CNode xs). split; [reflexivity|].
      intros [|k p]; [reflexivity|]. rewrite Hxs. unfold spec_cmp. rewrite !leaf_at_node.
      destruct (dget c1 k) as [t|] eqn:E1; [|reflexivity]. destruct (dget c2 k) as [t'|] eqn:E2; [reflexivity|].
      now destruct (leaf_at t p).
  Qed.

  (* different key sets at a node: KeyError *)
  Theorem compare_diff_keys_raises (c1 c2 : list (string * tree)) :
    NoDup (map fst c1) -> NoDup (map fst c2) ->
    forallb (fun k => mem k (map fst c2)) (map fst c1) && forallb (fun k => mem k (map fst c1)) (map fst c2) = false ->
    cmp_tree (Node c1) (Node c2) = CRaised.
  Proof.
    intros N1 N2 H. rewrite cmp_node. replace (key_check c1 c2) with false; [reflexivity|]. symmetry.
    unfold key_check, tkeys. destruct (forallb (fun k => mem k (map fst c2)) (map fst c1)) eqn:A; [|reflexivity].
    cbn in H |- *. rewrite !dedup_id by assumption.
    assert (exists k, In k (map fst c2) /\ ~ In k (map fst c1)) as [k [Hin Hn]].
    { clear -H. induction (map fst c2) as [|a l IH]; cbn in H; [discriminate|]. apply andb_false_iff in H.
      destruct H as [H|H]; [exists a; split; [now left|intros C; apply mem_In in C; congruence]|].
      destruct (IH H) as [k [X Y]]. exists k. split; [now right|exact Y]. }
    rewrite forallb_forall in A. apply Nat.eqb_neq.
    assert ((List.length (map fst c1) < List.length (map fst c2))%nat); [|lia].
    apply (nodup_strict_incl _ _ k N1); [intros x Hx; apply mem_In; now apply A|exact Hin|exact Hn].
  Qed.
End C.
