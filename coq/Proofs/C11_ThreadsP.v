(* C11 — consolidate(num_threads > 0): the per-entry copy tasks write disjoint byte ranges; whatever the order in which the
   workers complete them (a task may even run twice), the storage ends up as the single-threaded torch.cat fills it,
   from ANY initial content of the storage (it is torch.empty: uninitialised). *)
From Coq Require Import ZArith List Bool Arith Lia Permutation.
Import ListNotations.
From TD Require Import Model.C11_Layout Model.C11_Tree Model.C11_Jagged Proofs.C11_LayoutP Proofs.C11_TreeP.
Open Scope nat_scope.

(* ------------------------------------------------------------------ splice on a concatenation of blocks *)
Lemma splice_0 (b c rest : list Z) : length c = length b -> splice (b ++ rest) 0 c = c ++ rest.
Proof.
  intros H. unfold splice. cbn [firstn List.app Nat.add]. rewrite H, skipn_app, skipn_all, Nat.sub_diag. reflexivity.
Qed.

Lemma splice_shift (x y c : list Z) s : splice (x ++ y) (length x + s) c = x ++ splice y s c.
Proof.
  unfold splice. rewrite firstn_app_2, skipn_app.
  replace (length x + s + length c - length x) with (s + length c) by lia.
  rewrite (skipn_all2 x) by lia. cbn [List.app]. now rewrite <- app_assoc.
Qed.

Fixpoint upd {X} (j : nat) (c : X) (l : list X) : list X :=
  match l, j with
  | [], _ => []
  | _ :: r, O => c :: r
  | x :: r, S j' => x :: upd j' c r
  end.

Lemma upd_same {X} (c : X) : forall l j, j < length l -> nth_error (upd j c l) j = Some c.
Proof. induction l as [|x r IH]; intros [|j] H; cbn in *; try lia; [reflexivity|apply IH; lia]. Qed.
Lemma upd_other {X} (c : X) : forall l j i, i <> j -> nth_error (upd j c l) i = nth_error l i.
Proof. induction l as [|x r IH]; intros [|j] [|i] H; cbn; try reflexivity; try lia. apply IH. lia. Qed.

Lemma F2_len {X Y} (R : X -> Y -> Prop) a b : Forall2 R a b -> length a = length b.
Proof. induction 1; cbn; congruence. Qed.

Section Threads.
Variables (A : nat) (np : bool).

Definition blk (b : list Z) (l : leaf) : Prop := length b = flat_size A np (spec_of l).

Lemma upd_blocks : forall bl ls, Forall2 blk bl ls -> forall j l, nth_error ls j = Some l -> wf_leaf l ->
  Forall2 blk (upd j (chunk A np l) bl) ls.
Proof.
  induction 1 as [|b l0 bl ls Hb H IH]; intros [|j] l Hn Hw; cbn in *; try discriminate.
  - injection Hn as ->. constructor; [|exact H]. unfold blk. apply chunk_length, Hw.
  - constructor; [exact Hb|]. now apply IH.
Qed.

(* one task on a storage made of blocks of the right sizes: only its own block changes *)
Lemma run_one : forall bl ls, Forall2 blk bl ls -> forall j l, nth_error ls j = Some l -> wf_leaf l ->
  splice (concat bl) (total A np (firstn j (lspecs ls))) (chunk A np l) = concat (upd j (chunk A np l) bl).
Proof.
  induction 1 as [|b l0 bl ls Hb H IH]; intros [|j] l Hn Hw; cbn [nth_error] in Hn; try discriminate.
  - injection Hn as ->. cbn [lspecs map firstn upd concat]. unfold total. cbn [fold_right].
    apply splice_0. unfold blk in Hb. rewrite Hb. apply chunk_length, Hw.
  - cbn [lspecs map firstn upd concat]. rewrite total_cons. unfold blk in Hb. rewrite <- Hb.
    rewrite splice_shift. f_equal. apply IH; assumption.
Qed.

Lemma tasks_nth : forall ls s j,
  nth_error (tasks_from A np s ls) j
  = match nth_error ls j with
    | Some l => Some {| t_start := s + total A np (firstn j (lspecs ls)); t_bytes := chunk A np l |}
    | None => None end.
Proof.
  induction ls as [|l0 r IH]; intros s [|j]; cbn [tasks_from nth_error lspecs map firstn]; try reflexivity.
  - unfold total. cbn [fold_right]. now rewrite Nat.add_0_r.
  - rewrite IH. fold (lspecs r). destruct (nth_error r j); [|reflexivity]. rewrite total_cons. do 2 f_equal. lia.
Qed.

Lemma all_done : forall bl ls, Forall2 blk bl ls ->
  (forall j l, nth_error ls j = Some l -> nth_error bl j = Some (chunk A np l)) -> bl = map (chunk A np) ls.
Proof.
  induction 1 as [|b l0 bl ls Hb H IH]; intros Hd; [reflexivity|]. cbn [map]. f_equal.
  - specialize (Hd 0 l0 eq_refl). cbn in Hd. now injection Hd.
  - apply IH. intros j l Hn. exact (Hd (S j) l Hn).
Qed.

Lemma encode_concat ls : encode A np ls = concat (map (chunk A np) ls).
Proof. induction ls as [|l r IH]; [reflexivity|]. cbn [encode map concat]. now rewrite IH. Qed.

Lemma blocks_of_storage : forall ls init, length init = total A np (lspecs ls) -> exists bl, init = concat bl /\ Forall2 blk bl ls.
Proof.
  induction ls as [|l r IH]; intros init Hl.
  - exists []. split; [|constructor]. destruct init; [reflexivity|discriminate].
  - cbn [lspecs map] in Hl. rewrite total_cons in Hl.
    destruct (IH (skipn (flat_size A np (spec_of l)) init)) as (bl & E & F).
    { rewrite skipn_length. fold (lspecs r) in Hl. lia. }
    exists (firstn (flat_size A np (spec_of l)) init :: bl). split.
    + cbn [concat]. rewrite <- E. now rewrite firstn_skipn.
    + constructor; [|exact F]. unfold blk. rewrite firstn_length. lia.
Qed.

Variable ls : list leaf.
Hypothesis Hwf : Forall wf_leaf ls.

Definition done (S : nat -> Prop) (bl : list (list Z)) : Prop :=
  forall j l, nth_error ls j = Some l -> S j -> nth_error bl j = Some (chunk A np l).

Lemma wf_nth j l : nth_error ls j = Some l -> wf_leaf l.
Proof. intros H. apply nth_error_In in H. rewrite Forall_forall in Hwf. auto. Qed.

Lemma run_order : forall order bl (S : nat -> Prop), Forall2 blk bl ls -> done S bl ->
  exists bl', run_tasks (concat bl) (pick_tasks (tasks_from A np 0 ls) order) = concat bl' /\ Forall2 blk bl' ls /\
              done (fun j => S j \/ In j order) bl'.
Proof.
  induction order as [|i order IH]; intros bl S HF HD.
  - exists bl. repeat split; [exact HF|]. intros j l Hn [Hs|[]]. now apply HD.
  - cbn [pick_tasks flat_map]. unfold run_tasks. rewrite fold_left_app. fold (pick_tasks (tasks_from A np 0 ls) order).
    rewrite tasks_nth. destruct (nth_error ls i) as [li|] eqn:Ei.
    + cbn [fold_left]. unfold run_task at 2. cbn [t_start t_bytes Nat.add].
      pose proof (wf_nth i li Ei) as Hwi.
      rewrite (run_one bl ls HF i li Ei Hwi).
      destruct (IH (upd i (chunk A np li) bl) (fun j => S j \/ j = i)) as (bl' & E & F & D).
      * now apply upd_blocks.
      * intros j l Hn [Hs| ->].
        -- destruct (Nat.eq_dec j i) as [->|Hne].
           ++ rewrite Ei in Hn. injection Hn as <-. apply upd_same. apply F2_len in HF. rewrite HF.
              apply nth_error_Some. congruence.
           ++ rewrite upd_other by exact Hne. now apply HD.
        -- rewrite Ei in Hn. injection Hn as <-. apply upd_same. apply F2_len in HF. rewrite HF.
           apply nth_error_Some. congruence.
      * exists bl'. unfold run_tasks in E. repeat split; [exact E|exact F|].
        intros j l Hn Hs. apply (D j l Hn). cbn [In] in Hs. destruct Hs as [Hs|[->|Hs]]; auto.
    + cbn [fold_left]. destruct (IH bl S HF HD) as (bl' & E & F & D).
      exists bl'. unfold run_tasks in E. repeat split; [exact E|exact F|].
      intros j l Hn Hs. cbn [In] in Hs. destruct Hs as [Hs|[->|Hs]]; [apply (D j l Hn); auto| |apply (D j l Hn); auto].
      rewrite Ei in Hn. discriminate.
Qed.

(* every completion order in which each task runs at least once *)
Theorem threads_any_order init order :
  length init = total A np (lspecs ls) -> (forall i, i < length ls -> In i order) ->
  run_tasks init (pick_tasks (tasks_from A np 0 ls) order) = encode A np ls.
Proof.
  intros Hl Hall. destruct (blocks_of_storage ls init Hl) as (bl & -> & HF).
  destruct (run_order order bl (fun _ => False) HF) as (bl' & E & F & D); [intros j l _ []|].
  rewrite E, encode_concat. f_equal. apply all_done; [exact F|].
  intros j l Hn. apply (D j l Hn). right. apply Hall. apply nth_error_Some. congruence.
Qed.

(* ... in particular every permutation of the submission order *)
Corollary threads_permutation init order :
  length init = total A np (lspecs ls) -> Permutation (seq 0 (length ls)) order ->
  run_tasks init (pick_tasks (tasks_from A np 0 ls) order) = encode A np ls.
Proof.
  intros Hl Hp. apply threads_any_order; [exact Hl|].
  intros i Hi. apply (Permutation_in _ Hp). apply in_seq. lia.
Qed.

(* a task that never runs leaves its range as it was: the storage is NOT the encoding as soon as that range held other bytes
   (the storage is torch.empty) -- why every future must be waited for (fix: D113 calls .result() on each) *)
End Threads.

Theorem threads_missing_task_refuted :
  exists ls init order, Forall wf_leaf ls /\ length init = total 16 true (lspecs ls) /\ NoDup order /\
    run_tasks init (pick_tasks (tasks_from 16 true 0 ls) order) <> encode 16 true ls.
Proof.
  exists [ {| l_dt := 0; l_esz := 1; l_shape := [1]; l_bytes := [5%Z] |}; {| l_dt := 0; l_esz := 1; l_shape := [1]; l_bytes := [6%Z] |} ].
  exists (repeat 9%Z 32), [0]. repeat split.
  - repeat constructor.
  - repeat constructor. intros [].
  - vm_compute. discriminate.
Qed.
