(* C04 — split_keys: the code pops every key from a copy and sets it into a fresh tensordict, key set after key set, then
   (in place) pops the same keys from self and filters the empty nodes; this is literally the nested dict's replay. *)
From Coq Require Import ZArith List String Bool Lia.
Import ListNotations.
From TD Require Import Model.Keys Proofs.KeysP Model.C04_Tree Model.C04_Ops Spec.C04_NestedDict
     Proofs.C04_AssocP Proofs.C04_CoreP Proofs.C04_PrelimP Proofs.C04_RenameP.
Open Scope string_scope.
Open Scope list_scope.

Lemma split_set_refines strict dflt : forall ks ps, traverse kp ks = Some ps -> forall lo out,
  match split_set ks strict dflt lo out with
  | Ok (lo', out') => nd_split_set ps strict dflt (absE lo) (absE out) = Some (absE lo', absE out')
  | Raise _ => nd_split_set ps strict dflt (absE lo) (absE out) = None
  end.
Proof.
  induction ks as [|k r IH]; intros ps T lo out; [injection T as <-; reflexivity|].
  cbn [traverse] in T. destruct (kp k) as [p|] eqn:K; [|discriminate].
  destruct (traverse kp r) as [pr|] eqn:TR; [|discriminate]. injection T as <-.
  destruct (kp_some _ _ K) as [_ [_ [U N]]].
  cbn [split_set nd_split_set]. unfold pop, set_. rewrite U.
  pose proof (pop_path_refines p (negb strict) lo N) as P.
  destruct (pop_path p (negb strict) lo) as [lo' [[v|]|e]].
  - rewrite P. pose proof (set_tuple_refines p v out) as S.
    destruct (set_tuple p v out) as [out'|e]; rewrite S; [apply IH; reflexivity|reflexivity].
  - destruct P as [P ->]. rewrite P. destruct dflt as [z|]; [|apply IH; reflexivity].
    pose proof (set_tuple_refines p (Leaf LT z) out) as S. cbn [abs] in S.
    destruct (set_tuple p (Leaf LT z) out) as [out'|e]; rewrite S; [apply IH; reflexivity|reflexivity].
  - destruct P as [P _]. rewrite P. reflexivity.
Qed.

Lemma split_sets_refines strict dflt : forall sets pss, traverse (traverse kp) sets = Some pss -> forall lo outs,
  match split_sets sets strict dflt lo outs with
  | Ok (lo', outs') => nd_split pss strict dflt (absE lo) (map absE outs) = Some (absE lo', map absE outs')
  | Raise _ => nd_split pss strict dflt (absE lo) (map absE outs) = None
  end.
Proof.
  induction sets as [|ks r IH]; intros pss T lo outs; [injection T as <-; reflexivity|].
  cbn [traverse] in T. destruct (traverse kp ks) as [ps|] eqn:K; [|discriminate].
  destruct (traverse (traverse kp) r) as [pr|] eqn:TR; [|discriminate]. injection T as <-.
  cbn [split_sets nd_split]. pose proof (split_set_refines strict dflt ks ps K lo []) as S.
  change (absE []) with (@nil (string * nd)) in S.
  destruct (split_set ks strict dflt lo []) as [[lo' out]|e]; rewrite S; [|reflexivity].
  specialize (IH pr eq_refl lo' (outs ++ [out])). rewrite map_app in IH. exact IH.
Qed.

(* the in-place epilogue repeats on self the pops that succeeded on the copy *)
Lemma split_pops_app : forall a b strict es,
  split_pops (a ++ b) strict es =
  match split_pops a strict es with (es', None) => split_pops b strict es' | r => r end.
Proof.
  induction a as [|k r IH]; intros b strict es; [reflexivity|]. cbn [app split_pops].
  destruct (pop k (negb strict) es) as [es' [x|[| | |]]]; try reflexivity; try apply IH.
  destruct strict; [reflexivity|apply IH].
Qed.

Lemma split_set_pops strict dflt : forall ks lo out lo' out',
  split_set ks strict dflt lo out = Ok (lo', out') -> split_pops ks strict lo = (lo', None).
Proof.
  induction ks as [|k r IH]; intros lo out lo' out' S; [cbn in S; injection S as <- _; reflexivity|].
  cbn [split_set] in S. cbn [split_pops].
  destruct (pop k (negb strict) lo) as [lo1 [[v|]|e]]; [| |discriminate].
  - destruct (set_ k v out) as [out1|e]; [|discriminate]. exact (IH _ _ _ _ S).
  - destruct dflt as [z|]; [|exact (IH _ _ _ _ S)].
    destruct (set_ k (Leaf LT z) out) as [out1|e]; [|discriminate]. exact (IH _ _ _ _ S).
Qed.

Lemma split_sets_pops strict dflt : forall sets lo outs lo' outs',
  split_sets sets strict dflt lo outs = Ok (lo', outs') -> split_pops (List.concat sets) strict lo = (lo', None).
Proof.
  induction sets as [|ks r IH]; intros lo outs lo' outs' S; [cbn in S; injection S as <- _; reflexivity|].
  cbn [split_sets] in S. cbn [List.concat]. rewrite split_pops_app.
  destruct (split_set ks strict dflt lo []) as [[lo1 out]|e] eqn:SS; [|discriminate].
  rewrite (split_set_pops _ _ _ _ _ _ _ SS). exact (IH _ _ _ _ S).
Qed.

Definition split_scope (sets : list (list pykey)) (inplace : bool) : Prop :=
  inplace = true -> any_prefix_pair (map cpp_unravel_to_tuple (List.concat sets)) = false.

Theorem split_keys_refines sets pss inplace strict dflt es :
  traverse (traverse kp) sets = Some pss -> split_scope sets inplace ->
  match split_keys sets inplace strict dflt es with
  | (es', Ok outs) =>
      exists rest souts, nd_split pss strict dflt (absE es) [] = Some (rest, souts)
        /\ map absE outs = souts ++ [nd_filter_empty rest]
        /\ absE es' = (if inplace then nd_filter_empty rest else absE es)
  | (es', Raise _) => nd_split pss strict dflt (absE es) [] = None /\ es' = es
  end.
Proof.
  intros T SC. unfold split_keys.
  assert (PP : inplace && any_prefix_pair (map cpp_unravel_to_tuple (List.concat sets)) = false).
  { destruct inplace; [cbn; apply SC; reflexivity|reflexivity]. }
  rewrite PP. pose proof (split_sets_refines strict dflt sets pss T es []) as S. cbn [map] in S.
  destruct (split_sets sets strict dflt es []) as [[lo outs]|e] eqn:SS; [|now split].
  destruct inplace.
  - rewrite (split_sets_pops _ _ _ _ _ _ _ SS). exists (absE lo), (map absE outs). split; [exact S|].
    rewrite map_app. cbn [map]. rewrite (filter_empty_abs lo). now split.
  - exists (absE lo), (map absE outs). split; [exact S|]. rewrite map_app. cbn [map].
    rewrite (filter_empty_abs lo). now split.
Qed.

(* ---- well-formedness of everything split_keys hands out ---- *)
Lemma pop_path_val_wf p hd es es' v : wfE es -> pop_path p hd es = (es', Ok (PVal v)) -> wf v.
Proof.
  intros W. unfold pop_path. destruct p as [|k r]; [discriminate|].
  destruct (get_tuple (k :: r) es hd) as [w| |e] eqn:G.
  - pose proof (get_tuple_wf _ _ _ _ W G) as Ww.
    destruct (del_tuple (k :: r) es) as [es2|[| | |]]; try destruct hd; intros E; try discriminate; injection E as _ <-; exact Ww.
  - destruct (del_tuple (k :: r) es) as [es2|[| | |]]; try destruct hd; discriminate.
  - destruct e; try destruct hd; discriminate.
Qed.

Lemma split_set_wf strict dflt : forall ks lo out lo' out', wfE lo -> wfE out ->
  split_set ks strict dflt lo out = Ok (lo', out') -> wfE lo' /\ wfE out'.
Proof.
  induction ks as [|k r IH]; intros lo out lo' out' Wl Wo S; [cbn in S; injection S as <- <-; now split|].
  cbn [split_set] in S. unfold pop, set_ in S.
  destruct (pop_path (cpp_unravel_to_tuple k) (negb strict) lo) as [lo1 [[v|]|e]] eqn:P; [| |discriminate].
  - pose proof (pop_path_wf _ _ _ _ _ Wl P) as W1. pose proof (pop_path_val_wf _ _ _ _ _ Wl P) as Wv.
    destruct (set_tuple (cpp_unravel_to_tuple k) v out) as [out1|e] eqn:ST; [|discriminate].
    exact (IH _ _ _ _ W1 (set_tuple_wf _ _ _ _ Wo Wv ST) S).
  - pose proof (pop_path_wf _ _ _ _ _ Wl P) as W1. destruct dflt as [z|]; [|exact (IH _ _ _ _ W1 Wo S)].
    destruct (set_tuple (cpp_unravel_to_tuple k) (Leaf LT z) out) as [out1|e] eqn:ST; [|discriminate].
    exact (IH _ _ _ _ W1 (set_tuple_wf _ _ _ _ Wo (wf_leaf _ _) ST) S).
Qed.

Lemma split_sets_wf strict dflt : forall sets lo outs lo' outs', wfE lo -> Forall wfE outs ->
  split_sets sets strict dflt lo outs = Ok (lo', outs') -> wfE lo' /\ Forall wfE outs'.
Proof.
  induction sets as [|ks r IH]; intros lo outs lo' outs' Wl Wo S; [cbn in S; injection S as <- <-; now split|].
  cbn [split_sets] in S. destruct (split_set ks strict dflt lo []) as [[lo1 out]|e] eqn:SS; [|discriminate].
  destruct (split_set_wf _ _ _ _ _ _ _ Wl wfE_nil SS) as [W1 W2].
  apply (IH lo1 (outs ++ [out]) lo' outs' W1); [|exact S]. apply Forall_app. split; [exact Wo|now constructor].
Qed.

Lemma split_keys_wf sets inplace strict dflt es : wfE es ->
  match split_keys sets inplace strict dflt es with
  | (es', Ok outs) => wfE es' /\ Forall wfE outs
  | (es', Raise _) => wfE es'
  end.
Proof.
  intros W. unfold split_keys.
  destruct (inplace && any_prefix_pair (map cpp_unravel_to_tuple (List.concat sets))); [exact W|].
  destruct (split_sets sets strict dflt es []) as [[lo outs]|e] eqn:SS; [|exact W].
  destruct (split_sets_wf _ _ _ _ _ _ _ W (Forall_nil _) SS) as [Wl Wo].
  destruct inplace.
  - rewrite (split_sets_pops _ _ _ _ _ _ _ SS). pose proof (filter_empty_wf lo Wl) as Wf. split; [exact Wf|].
    apply Forall_app. split; [exact Wo|now constructor].
  - split; [exact W|]. apply Forall_app. split; [exact Wo|]. constructor; [now apply filter_empty_wf|constructor].
Qed.
