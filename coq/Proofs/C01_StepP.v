(* C01 — every modelled public call keeps the tree coherent; lift to handles (paths) and to op sequences. *)
From Coq Require Import List String Bool Arith Lia.
Import ListNotations.
From TD Require Import Model.C01_Tree Model.C01_Ops Model.C01_Scope Proofs.C01_TreeP Proofs.C01_NamesP Proofs.C01_BatchP Proofs.C01_SetP.
From TD Require Model.C04_Tree.
Open Scope string_scope.
Open Scope list_scope.

Lemma seq_steps_cons : forall A (f : A -> tree -> tree * outcome) a r self,
  seq_steps f (a :: r) self = let '(s', o) := f a self in match o with Done => seq_steps f r s' | _ => (s', o) end.
Proof. reflexivity. Qed.

Lemma seq_steps_inv : forall A (f : A -> tree -> tree * outcome) (P : tree -> Prop) l self,
  P self -> (forall a s, In a l -> P s -> P (fst (f a s))) -> P (fst (seq_steps f l self)).
Proof.
  intros A f P. induction l as [|a r IH]; intros self Hs Hf; [exact Hs|].
  rewrite seq_steps_cons. pose proof (Hf a self (or_introl eq_refl) Hs) as H1.
  destruct (f a self) as [s' o]. cbn [fst] in H1.
  destruct o; [|exact H1|exact H1]. apply IH; [exact H1|]. intros x s Hin. apply Hf. now right.
Qed.

(* entries of a coherent tensordict are values a caller may hand over *)
Lemma entry_value_ok : forall k bs dv nm es key c,
  coh [] None (Node k bs dv nm es) = true -> In (key, c) es -> coh [] None c = true.
Proof.
  intros k bs dv nm es key c Hc Hin.
  apply coh_node_iff in Hc as (_ & _ & _ & H4). apply coh_ents_forall in H4. rewrite Forall_forall in H4.
  eapply coh_nodev. eapply coh_weaken; [apply (H4 _ Hin)|apply prefixb_nil].
Qed.

Lemma rebuild_coh : forall p d bs dv nm es k c',
  coh p d (Node KTd bs dv nm es) = true -> coh bs dv c' = true -> coh p d (Node KTd bs dv nm (aset k c' es)) = true.
Proof.
  intros p d bs dv nm es k c' H Hc. apply coh_node_iff in H as (H1 & H2 & H3 & H4).
  apply coh_node_iff. repeat split; auto using coh_ents_aset.
Qed.

(* ---- update ---- *)
Lemma upd_t_coh : forall src ip self p d,
  coh [] None src = true -> coh p d self = true -> coh p d (fst (upd_t src ip self)) = true.
Proof.
  induction src as [sh dd|sk sbs sdv snm ses IH] using tree_ind2; intros ip self p d Hs Hc.
  - destruct self; exact Hc.
  - destruct self as [|[] bs dv nm es]; try exact Hc. cbn [upd_t].
    destruct (negb (shape_eqb (firstn (List.length sbs) bs) (firstn (List.length bs) sbs))); [exact Hc|].
    apply (seq_steps_inv _ _ (fun s => coh p d s = true)); [exact Hc|].
    intros [k c] s Hin Hs'. cbn beta iota.
    pose proof (entry_value_ok _ _ _ _ _ _ _ Hs Hin) as Hvc.
    assert (Hset : forall ipl, coh p d (fst (set_tuple [k] (VTree c) ipl s)) = true).
    { intros ipl. apply set_tuple_coh; [exact Hs'|]. exact Hvc. }
    destruct s as [|[] bs' dv' nm' es']; try exact Hs'.
    destruct (aget k es') as [[|[] tb td tn te]|] eqn:Eg; destruct c as [|[] cb cd cn ce]; try apply Hset.
    rewrite Forall_forall in IH. pose proof (IH _ Hin) as IHc. cbn [snd] in IHc.
    pose proof Hs' as Hall. apply coh_node_iff in Hs' as (_ & _ & _ & H4).
    pose proof (coh_ents_aget _ _ _ _ _ H4 Eg) as Ht.
    specialize (IHc ip (Node KTd tb td tn te) bs' dv' Hvc Ht).
    destruct (upd_t (Node KTd cb cd cn ce) ip (Node KTd tb td tn te)) as [t' o]. cbn [fst] in *.
    now apply rebuild_coh.
Qed.

Lemma upd_v_coh : forall v ip self p d,
  value_okb v = true -> coh p d self = true -> coh p d (fst (upd_v v ip self)) = true.
Proof.
  induction v as [t0| |items IH] using value_ind2; intros ip self p d Hok Hc.
  - cbn [upd_v]. cbn [value_okb] in Hok. now apply upd_t_coh.
  - exact Hc.
  - cbn [upd_v]. cbn [value_okb] in Hok. rewrite forallb_forall in Hok.
    apply (seq_steps_inv _ _ (fun s => coh p d s = true)); [exact Hc|].
    intros [k vi] s Hin Hs'. cbn beta iota. pose proof (Hok _ Hin) as Hokv. cbn [snd] in Hokv.
    assert (Hset : forall ipl, coh p d (fst (set_tuple [k] vi ipl s)) = true).
    { intros ipl. now apply set_tuple_coh. }
    destruct s as [|[] bs' dv' nm' es']; try exact Hs'.
    rewrite Forall_forall in IH. pose proof (IH _ Hin) as IHv. cbn [snd] in IHv.
    destruct (aget k es') as [[|[] tb td tn te]|] eqn:Eg; try apply Hset.
    pose proof Hs' as Hall. apply coh_node_iff in Hs' as (_ & _ & _ & H4).
    pose proof (coh_ents_aget _ _ _ _ _ H4 Eg) as Ht.
    destruct vi as [[|[] sb sd sn se]|sub|]; try apply Hset.
    + cbn [value_okb] in Hokv.
      pose proof (upd_t_coh (Node KTd sb sd sn se) ip (Node KTd tb td tn te) bs' dv' Hokv Ht) as Hu.
      destruct (upd_t (Node KTd sb sd sn se) ip (Node KTd tb td tn te)) as [t' o]. cbn [fst] in *. now apply rebuild_coh.
    + specialize (IHv ip (Node KTd tb td tn te) bs' dv' Hokv Ht).
      destruct (upd_v (VDict sub) ip (Node KTd tb td tn te)) as [t' o]. cbn [fst] in *. now apply rebuild_coh.
Qed.

(* ---- del / pop / popitem ---- *)
Lemma del_path_coh : forall path self p d, coh p d self = true -> coh p d (fst (del_path path self)) = true.
Proof.
  induction path as [|k rest IH]; intros self p d Hc.
  - destruct self as [|[] ? ? ? ?]; exact Hc.
  - destruct self as [|[] bs dv nm es]; try exact Hc. cbn [del_path].
    pose proof Hc as Hall. apply coh_node_iff in Hc as (H1 & H2 & H3 & H4).
    destruct rest as [|k2 rest'].
    + destruct (amem k es); [|exact Hall]. cbn [fst]. apply coh_node_iff. repeat split; auto using coh_ents_adel.
    + destruct (aget k es) as [[|[] cbs cdv cnm ces]|] eqn:Eg; try exact Hall.
      pose proof (coh_ents_aget _ _ _ _ _ H4 Eg) as Hcc. specialize (IH (Node KTd cbs cdv cnm ces) bs dv Hcc).
      destruct (del_path (k2 :: rest') (Node KTd cbs cdv cnm ces)) as [c' o]. cbn [fst] in *. now apply rebuild_coh.
Qed.

Lemma pop_path_coh : forall path dflt self p d, coh p d self = true -> coh p d (fst (pop_path path dflt self)) = true.
Proof.
  intros path dflt self p d Hc. unfold pop_path. destruct path as [|k0 path]; [exact Hc|].
  destruct (get_path (k0 :: path) self); try exact Hc. now apply del_path_coh.
Qed.

Lemma popitem_coh : forall self p d, coh p d self = true -> coh p d (fst (popitem self)) = true.
Proof.
  intros [sh0 d0|[] bs dv nm es] p d Hc; try exact Hc. cbn [popitem]. destruct es as [|kv r]; [exact Hc|].
  cbn [fst]. apply coh_node_iff in Hc as (H1 & H2 & H3 & H4). apply coh_node_iff. repeat split; auto using coh_ents_removelast.
Qed.

(* ---- get: what is found below a node is a coherent entry of that node ---- *)
Lemma get_path_coh : forall path self bs dv p d v,
  coh p d self = true -> thdr self = Some (KTd, bs, dv) -> get_path path self = GVal v -> coh bs dv v = true.
Proof.
  induction path as [|k rest IH]; intros self bs dv p d v Hc Hh Hg.
  - destruct self as [|[] ? ? ? ?]; discriminate.
  - destruct self as [|[] bs0 dv0 nm es]; try discriminate. cbn in Hh. injection Hh as -> ->.
    cbn [get_path] in Hg. apply coh_node_iff in Hc as (_ & _ & _ & H4).
    destruct (aget k es) as [c|] eqn:Eg; [|discriminate].
    pose proof (coh_ents_aget _ _ _ _ _ H4 Eg) as Hcc.
    destruct rest as [|k2 rest']; [now injection Hg as <-|].
    destruct c as [|ck cbs cdv cnm ces]; [discriminate|].
    destruct ck; [|cbn in Hg; discriminate].
    pose proof Hcc as Hcc'. apply coh_node_iff in Hcc' as (C1 & C2 & _ & _).
    eapply coh_up; [exact C1|exact C2|]. eapply (IH (Node KTd cbs cdv cnm ces)); eauto.
Qed.

(* storing an already validated entry under a string key *)
Lemma put_path1_coh : forall k v self bs dv p d,
  coh p d self = true -> thdr self = Some (KTd, bs, dv) -> coh bs dv v = true -> coh p d (fst (put_path [k] v self)) = true.
Proof.
  intros k v self bs dv p d Hc Hh Hv. destruct self as [|[] bs0 dv0 nm es]; try discriminate.
  cbn in Hh. injection Hh as -> ->. cbn [put_path fst]. now apply rebuild_coh.
Qed.

(* ---- rename_key_ (after fixes/C01/D103.diff: a nested new key goes through _set_tuple with validated=False) ---- *)
Lemma del_path_hdr : forall path self, thdr (fst (del_path path self)) = thdr self.
Proof.
  intros [|k rest] [|[] bs dv nm es]; try reflexivity. cbn [del_path].
  destruct rest as [|k2 rest']; [destruct (amem k es); reflexivity|].
  destruct (aget k es) as [[|[] ? ? ? ?]|]; try reflexivity.
  destruct (del_path (k2 :: rest') _) as [c' o]. reflexivity.
Qed.

Lemma rename_key_coh : forall old new safe self p d,
  coh p d self = true -> coh p d (fst (rename_key old new safe self)) = true.
Proof.
  intros old new safe self p d Hc. unfold rename_key.
  destruct (through_nt old self || through_nt new self); [exact Hc|].
  destruct old as [|o0 orest]; [exact Hc|]. destruct new as [|n0 nrest]; [exact Hc|].
  destruct (path_eqb (o0 :: orest) (n0 :: nrest)); [exact Hc|].
  destruct (safe && contains_path (n0 :: nrest) self); [exact Hc|].
  destruct (get_path (o0 :: orest) self) as [v| | |] eqn:Eg; try exact Hc.
  destruct self as [|[] bs dv nm es]; try discriminate.
  pose proof (get_path_coh _ _ _ _ _ _ _ Hc eq_refl Eg) as Hv.
  set (under := path_eqb (firstn (List.length (o0 :: orest)) (n0 :: nrest)) (o0 :: orest)).
  assert (H0 : coh p d (fst (if under then del_path (o0 :: orest) (Node KTd bs dv nm es) else (Node KTd bs dv nm es, Done))) = true
               /\ thdr (fst (if under then del_path (o0 :: orest) (Node KTd bs dv nm es) else (Node KTd bs dv nm es, Done))) = Some (KTd, bs, dv)).
  { destruct under; [split; [now apply del_path_coh|now rewrite del_path_hdr]|split; [exact Hc|reflexivity]]. }
  destruct (if under then del_path (o0 :: orest) (Node KTd bs dv nm es) else (Node KTd bs dv nm es, Done)) as [s0 o0'].
  cbn [fst] in H0. destruct H0 as [Hs0 Hh0]. destruct o0'; try exact Hs0.
  destruct nrest as [|n1 nrest'].
  - pose proof (put_path1_coh n0 v s0 bs dv p d Hs0 Hh0 Hv) as H1.
    destruct (put_path [n0] v s0) as [s1 o1]. cbn [fst] in H1.
    destruct o1; try exact H1. destruct (_ || _); [exact H1|]. now apply del_path_coh.
  - unfold fixed_D103. destruct (has_names v); [exact Hs0|].
    assert (H1 : coh p d (fst (set_tuple (n0 :: n1 :: nrest') (VTree v) INo s0)) = true).
    { apply set_tuple_coh; [exact Hs0|]. cbn [value_okb].
      eapply coh_nodev. eapply coh_weaken; [exact Hv|apply prefixb_nil]. }
    destruct (set_tuple (n0 :: n1 :: nrest') (VTree v) INo s0) as [s1 o1]. cbn [fst] in H1.
    destruct o1; try exact H1. destruct (_ || _); [exact H1|]. now apply del_path_coh.
Qed.

(* ---- create_nested / set_non_tensor ---- *)
Lemma create_nested_coh : forall path self p d, coh p d self = true -> coh p d (fst (create_nested path self)) = true.
Proof.
  induction path as [|k rest IH]; intros self p d Hc.
  - destruct self as [|[] ? ? ? ?]; exact Hc.
  - destruct self as [|[] bs dv nm es]; try exact Hc. cbn [create_nested].
    pose proof Hc as Hall. apply coh_node_iff in Hc as (H1 & H2 & H3 & H4).
    destruct rest as [|k2 rest'].
    + cbn [fst]. apply rebuild_coh; [exact Hall|now apply coh_fresh].
    + specialize (IH (Node KTd bs dv nm []) bs dv (coh_fresh _ _ _ _ H3)).
      destruct (create_nested (k2 :: rest') (Node KTd bs dv nm [])) as [c' o]. cbn [fst] in *. now apply rebuild_coh.
Qed.

Lemma set_non_tensor_coh : forall path self p d, coh p d self = true -> coh p d (fst (set_non_tensor path self)) = true.
Proof.
  induction path as [|k rest IH]; intros self p d Hc.
  - destruct self as [|[] ? ? ? ?]; exact Hc.
  - destruct self as [|[] bs dv nm es]; try exact Hc. cbn [set_non_tensor].
    pose proof Hc as Hall. apply coh_node_iff in Hc as (H1 & H2 & H3 & H4).
    destruct rest as [|k2 rest'].
    + cbn [fst]. apply rebuild_coh; [exact Hall|]. apply coh_node_iff. repeat split; auto using prefixb_refl.
      destruct dv; cbn; auto. now apply dev_eqb_eq.
    + destruct (aget k es) as [[|[] cbs cdv cnm ces]|] eqn:Eg; try exact Hall.
      * pose proof (coh_ents_aget _ _ _ _ _ H4 Eg) as Hcc. specialize (IH (Node KTd cbs cdv cnm ces) bs dv Hcc).
        destruct (set_non_tensor (k2 :: rest') (Node KTd cbs cdv cnm ces)) as [c' o]. cbn [fst] in *. now apply rebuild_coh.
      * specialize (IH (Node KTd bs dv nm []) bs dv (coh_fresh _ _ _ _ H3)).
        destruct (set_non_tensor (k2 :: rest') (Node KTd bs dv nm [])) as [c' o]. cbn [fst] in *. now apply rebuild_coh.
Qed.

(* ---- in-place select / exclude / flatten_keys: entries are only removed, moved up, or replaced by pruned versions ---- *)
Lemma sel_pass1_coh : forall es bs dv strict keys src g src' g',
  coh_ents bs dv es = true -> coh_ents bs dv src = true ->
  sel_pass1 es strict keys src g = Some (src', g') -> coh_ents bs dv src' = true.
Proof.
  intros es bs dv strict. induction keys as [|key r IH]; intros src g src' g' He Hs H; cbn [sel_pass1] in H.
  - now injection H as <- <-.
  - destruct key as [|k sub]; [discriminate|].
    destruct (aget k es) as [v|] eqn:Eg.
    + assert (Hs' : coh_ents bs dv (aset k v src) = true).
      { apply coh_ents_aset; [exact Hs|]. exact (coh_ents_aget _ _ _ _ _ He Eg). }
      exact (IH _ _ _ _ He Hs' H).
    + destruct strict; [discriminate|]. exact (IH _ _ _ _ He Hs H).
Qed.

Lemma sel_pass2_coh : forall rec bs dv,
  (forall subs c, coh bs dv c = true -> coh bs dv (fst (rec subs c)) = true) ->
  forall g src es,
  coh_ents bs dv src = true -> coh_ents bs dv es = true ->
  coh_ents bs dv (fst (fst (sel_pass2 rec g src es))) = true /\ coh_ents bs dv (snd (fst (sel_pass2 rec g src es))) = true.
Proof.
  intros rec bs dv Hrec. induction g as [|[k subs] r IH]; intros src es Hs He; cbn [sel_pass2]; [auto|].
  destruct (aget k src) as [[|[] cb cd cn ce]|] eqn:Eg; cbn [fst snd]; auto.
  pose proof (coh_ents_aget _ _ _ _ _ Hs Eg) as Hc. specialize (Hrec subs _ Hc).
  destruct (rec subs (Node KTd cb cd cn ce)) as [c' o]. cbn [fst] in Hrec.
  assert (H1 : coh_ents bs dv (aset k c' src) = true) by now apply coh_ents_aset.
  assert (H2 : coh_ents bs dv (aset k c' es) = true) by now apply coh_ents_aset.
  destruct o; cbn [fst snd]; auto.
Qed.

Lemma select_in_coh : forall fuel keys strict self p d,
  coh p d self = true -> coh p d (fst (select_in fuel keys strict self)) = true.
Proof.
  induction fuel as [|fuel IH]; intros keys strict self p d Hc; [exact Hc|].
  cbn [select_in]. destruct self as [|[] bs dv nm es]; try exact Hc.
  pose proof Hc as Hall. apply coh_node_iff in Hc as (H1 & H2 & H3 & H4).
  destruct (sel_pass1 es strict keys [] []) as [[src g]|] eqn:E1; [|exact Hall].
  pose proof (sel_pass1_coh _ _ _ _ _ _ _ _ _ H4 (coh_ents_nil bs dv) E1) as Hsrc.
  destruct (sel_pass2_coh (fun subs c => select_in fuel subs strict c) bs dv (fun subs c Hcc => IH subs strict c bs dv Hcc) g src es Hsrc H4) as [Ha Hb].
  destruct (sel_pass2 (fun subs c => select_in fuel subs strict c) g src es) as [[src' es'] o]. cbn [fst snd] in *.
  destruct o; cbn [fst]; apply coh_node_iff; auto.
Qed.

Lemma exc_pass1_coh : forall bs dv keys es g es' g',
  coh_ents bs dv es = true -> exc_pass1 keys es g = (es', g') -> coh_ents bs dv es' = true.
Proof.
  intros bs dv. induction keys as [|key r IH]; intros es g es' g' He H; cbn [exc_pass1] in H.
  - now injection H as <- <-.
  - destruct key as [|k [|k2 sub]].
    + exact (IH _ _ _ _ He H).
    + exact (IH _ _ _ _ (coh_ents_adel _ _ _ k He) H).
    + exact (IH _ _ _ _ He H).
Qed.

Lemma exc_pass2_coh : forall rec bs dv,
  (forall subs c, coh bs dv c = true -> coh bs dv (fst (rec subs c)) = true) ->
  forall g es, coh_ents bs dv es = true -> coh_ents bs dv (fst (exc_pass2 rec g es)) = true.
Proof.
  intros rec bs dv Hrec. induction g as [|[k subs] r IH]; intros es He; cbn [exc_pass2]; [exact He|].
  destruct (aget k es) as [[|[] cb cd cn ce]|] eqn:Eg; cbn [fst]; auto.
  pose proof (coh_ents_aget _ _ _ _ _ He Eg) as Hc. specialize (Hrec subs _ Hc).
  destruct (rec subs (Node KTd cb cd cn ce)) as [c' o]. cbn [fst] in Hrec.
  assert (H2 : coh_ents bs dv (aset k c' es) = true) by now apply coh_ents_aset.
  destruct o; cbn [fst]; auto.
Qed.

Lemma exclude_in_coh : forall fuel keys self p d,
  coh p d self = true -> coh p d (fst (exclude_in fuel keys self)) = true.
Proof.
  induction fuel as [|fuel IH]; intros keys self p d Hc; [exact Hc|].
  cbn [exclude_in]. destruct self as [|[] bs dv nm es]; try exact Hc.
  destruct keys as [|key r]; [exact Hc|].
  apply coh_node_iff in Hc as (H1 & H2 & H3 & H4).
  destruct (exc_pass1 (key :: r) es []) as [es1 g] eqn:E1.
  pose proof (exc_pass1_coh _ _ _ _ _ _ _ H4 E1) as He1.
  pose proof (exc_pass2_coh (fun subs c => exclude_in fuel subs c) bs dv (fun subs c Hcc => IH subs c bs dv Hcc) g es1 He1) as He2.
  destruct (exc_pass2 (fun subs c => exclude_in fuel subs c) g es1) as [es2 o]. cbn [fst] in *.
  apply coh_node_iff. auto.
Qed.

Lemma flatten_in_coh : forall sep self p d, coh p d self = true -> coh p d (fst (flatten_in sep self)) = true.
Proof.
  intros sep self p d Hc. destruct self as [|[] bs dv nm es]; try exact Hc. cbn [flatten_in].
  destruct (Nat.ltb _ _); [exact Hc|].
  destruct (forallb _ _); [|exact Hc]. cbn [fst].
  pose proof Hc as Hall. apply coh_node_iff in Hc as (H1 & H2 & H3 & H4). apply coh_node_iff. repeat split; auto.
  set (self := Node KTd bs dv nm es) in *.
  generalize (map (C04_Tree.join sep) (leaf_paths self)) as flat. generalize (leaf_paths self) as leaves.
  assert (Hgen : forall leaves flat acc, coh_ents bs dv acc = true ->
            coh_ents bs dv (fold_left (fun acc kg => match snd kg with GVal v => aset (fst kg) v acc | _ => acc end)
                                      (combine flat (map (fun q => get_path q self) leaves)) acc) = true).
  { induction leaves as [|q r IH]; intros flat acc Ha; destruct flat as [|f fr]; cbn [map combine fold_left]; try exact Ha.
    apply IH. cbn [snd fst]. destruct (get_path q self) as [v| | |] eqn:Eg; try exact Ha.
    apply coh_ents_aset; [exact Ha|]. exact (get_path_coh _ _ _ _ _ _ _ Hall eq_refl Eg). }
  intros leaves flat. apply Hgen. reflexivity.
Qed.

Lemma unflatten_in_coh : forall sep self p d, coh p d self = true -> coh p d (fst (unflatten_in sep self)) = true.
Proof.
  intros sep self p d Hc. destruct self as [|[] bs dv nm es]; try exact Hc. cbn [unflatten_in].
  destruct sep as [|a sep']; [exact Hc|].
  apply (seq_steps_inv _ _ (fun x => coh p d x = true)); [exact Hc|].
  intros k x _ Hx. cbn beta. destruct (C04_Tree.str_contains _ k); [now apply rename_key_coh|exact Hx].
Qed.
