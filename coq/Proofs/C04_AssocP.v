(* C04 — abstraction from the model's trees to the spec's nested dicts, well-formedness (python dicts have unique keys),
   algebra of the association-list primitives. *)
From Coq Require Import ZArith List String Bool Lia.
Import ListNotations.
From TD Require Import Model.C04_Tree Spec.C04_NestedDict.
Open Scope string_scope.
Open Scope list_scope.

(* ---- induction principle for the nested type ---- *)
Section tree_ind2.
  Variable P : tree -> Prop.
  Hypothesis HL : forall k z, P (Leaf k z).
  Hypothesis HN : forall es, Forall (fun kv => P (snd kv)) es -> P (Node es).
  Fixpoint tree_ind2 (t : tree) : P t :=
    match t with
    | Leaf k z => HL k z
    | Node es => HN es ((fix go (es : ents) : Forall (fun kv => P (snd kv)) es :=
                           match es with
                           | [] => Forall_nil _
                           | kv :: r => Forall_cons kv (tree_ind2 (snd kv)) (go r)
                           end) es)
    end.
End tree_ind2.

Section nd_ind2.
  Variable P : nd -> Prop.
  Hypothesis HT : forall z, P (NT z).
  Hypothesis HS : forall z, P (NS z).
  Hypothesis HD : forall d, Forall (fun kv => P (snd kv)) d -> P (ND d).
  Fixpoint nd_ind2 (t : nd) : P t :=
    match t with
    | NT z => HT z
    | NS z => HS z
    | ND d => HD d ((fix go (d : dict) : Forall (fun kv => P (snd kv)) d :=
                      match d with
                      | [] => Forall_nil _
                      | kv :: r => Forall_cons kv (nd_ind2 (snd kv)) (go r)
                      end) d)
    end.
End nd_ind2.

(* ---- abstraction ---- *)
Fixpoint abs (v : tree) : nd :=
  match v with
  | Leaf LT z => NT z
  | Leaf LS z => NS z
  | Node es => ND ((fix go (es : ents) : dict := match es with [] => [] | (k, w) :: r => (k, abs w) :: go r end) es)
  end.

Fixpoint absE (es : ents) : dict := match es with [] => [] | (k, w) :: r => (k, abs w) :: absE r end.

Lemma abs_Node es : abs (Node es) = ND (absE es).
Proof. reflexivity. Qed.

Lemma absE_app a b : absE (a ++ b) = absE a ++ absE b.
Proof. induction a as [|[k w] r IH]; [reflexivity|]. cbn. now rewrite IH. Qed.

Lemma absE_keys es : map fst (absE es) = map fst es.
Proof. induction es as [|[k w] r IH]; [reflexivity|]. cbn. now rewrite IH. Qed.

Lemma abs_inj : forall a b, abs a = abs b -> a = b.
Proof.
  induction a as [k z|es IH] using tree_ind2; intros b E.
  - destruct b as [k' z'|es']; destruct k; try destruct k'; cbn in E; try discriminate; try congruence.
    all: rewrite abs_Node in E; discriminate.
  - destruct b as [k' z'|es']; [rewrite abs_Node in E; destruct k'; discriminate|].
    rewrite !abs_Node in E. injection E as E. f_equal.
    revert es' E. induction IH as [|[k w] r Hw Hr IHr]; intros [|[k' w'] r'] E; cbn in E; try discriminate; [reflexivity|].
    injection E as E1 E2 E3. subst k'. f_equal; [f_equal; now apply Hw|now apply IHr].
Qed.

Lemma absE_inj a b : absE a = absE b -> a = b.
Proof. intros E. assert (H : abs (Node a) = abs (Node b)) by (rewrite !abs_Node; now f_equal). apply abs_inj in H. congruence. Qed.

(* ---- primitives commute with the abstraction ---- *)
Lemma d_get_abs k es : d_get k (absE es) = option_map abs (aget k es).
Proof. induction es as [|[k' w] r IH]; [reflexivity|]. cbn. destruct (String.eqb k k'); [reflexivity|exact IH]. Qed.

Lemma d_put_abs k v es : d_put k (abs v) (absE es) = absE (aset k v es).
Proof. induction es as [|[k' w] r IH]; [reflexivity|]. cbn. destruct (String.eqb k k'); cbn; [reflexivity|now rewrite IH]. Qed.

Lemma d_put_abs_node k sub es : d_put k (ND (absE sub)) (absE es) = absE (aset k (Node sub) es).
Proof. rewrite <- abs_Node. apply d_put_abs. Qed.

Lemma d_rem_abs k es : d_rem k (absE es) = absE (adel k es).
Proof. induction es as [|[k' w] r IH]; [reflexivity|]. cbn. destruct (String.eqb k k'); cbn; [reflexivity|now rewrite IH]. Qed.

(* ---- algebra of aget / aset / adel ---- *)
Lemma aget_aset_eq k v es : aget k (aset k v es) = Some v.
Proof.
  induction es as [|[k' w] r IH]; cbn; [now rewrite String.eqb_refl|].
  destruct (String.eqb k k') eqn:E; cbn; rewrite E; [reflexivity|exact IH].
Qed.

Lemma aget_aset_neq k k' v es : k <> k' -> aget k (aset k' v es) = aget k es.
Proof.
  intros N. induction es as [|[k2 w] r IH]; cbn.
  - destruct (String.eqb_spec k k'); [contradiction|reflexivity].
  - destruct (String.eqb_spec k' k2); cbn.
    + subst. destruct (String.eqb_spec k k2); [contradiction|reflexivity].
    + destruct (String.eqb k k2); [reflexivity|exact IH].
Qed.

Lemma aget_adel_neq k k' es : k <> k' -> aget k (adel k' es) = aget k es.
Proof.
  intros N. induction es as [|[k2 w] r IH]; cbn; [reflexivity|].
  destruct (String.eqb_spec k' k2); cbn.
  - subst. destruct (String.eqb_spec k k2); [contradiction|reflexivity].
  - destruct (String.eqb k k2); [reflexivity|exact IH].
Qed.

Lemma aget_None_notin k es : aget k es = None <-> ~ In k (map fst es).
Proof.
  induction es as [|[k' w] r IH]; cbn; [tauto|].
  destruct (String.eqb_spec k k'); [subst; split; [discriminate|intros H; exfalso; apply H; now left]|].
  rewrite IH. split; [intros H [E|I]; [congruence|contradiction]|tauto].
Qed.

Lemma aget_Some_in k v es : aget k es = Some v -> In (k, v) es.
Proof.
  induction es as [|[k' w] r IH]; cbn; [discriminate|].
  destruct (String.eqb_spec k k'); [intros E; injection E as E; subst; now left|intros H; right; now apply IH].
Qed.

Lemma aget_adel_eq k es : NoDup (map fst es) -> aget k (adel k es) = None.
Proof.
  intros ND. apply aget_None_notin. induction es as [|[k' w] r IH]; cbn; [tauto|].
  inversion ND as [|a l Hn Hd]; subst. destruct (String.eqb_spec k k'); [now subst|].
  cbn. intros [E|I]; [congruence|now apply IH].
Qed.

Lemma amem_aget k es : amem k es = true <-> exists v, aget k es = Some v.
Proof. unfold amem. destruct (aget k es); split; [eauto|reflexivity|discriminate|intros [v H]; discriminate]. Qed.

Lemma keys_aset k v es : map fst (aset k v es) = if amem k es then map fst es else map fst es ++ [k].
Proof.
  unfold amem. induction es as [|[k' w] r IH]; cbn; [reflexivity|].
  destruct (String.eqb_spec k k'); cbn; [reflexivity|]. rewrite IH. destruct (aget k r); reflexivity.
Qed.

Lemma keys_adel_incl k es : forall x, In x (map fst (adel k es)) -> In x (map fst es).
Proof.
  induction es as [|[k' w] r IH]; cbn; [tauto|]. intros x. destruct (String.eqb k k'); cbn; [tauto|].
  intros [E|I]; [now left|right; now apply IH].
Qed.

Lemma NoDup_aset k v es : NoDup (map fst es) -> NoDup (map fst (aset k v es)).
Proof.
  intros ND. rewrite keys_aset. destruct (amem k es) eqn:E; [exact ND|].
  assert (N : ~ In k (map fst es)) by (apply aget_None_notin; unfold amem in E; destruct (aget k es); [discriminate|reflexivity]).
  clear E. induction (map fst es) as [|a l IH]; cbn; [constructor; [tauto|constructor]|].
  inversion ND; subst. constructor.
  - rewrite in_app_iff. cbn. intros [I|[E|[]]]; [contradiction|subst; apply N; now left].
  - apply IH; [assumption|intros I; apply N; now right].
Qed.

Lemma NoDup_adel k es : NoDup (map fst es) -> NoDup (map fst (adel k es)).
Proof.
  induction es as [|[k' w] r IH]; cbn; [tauto|]. intros ND. inversion ND; subst.
  destruct (String.eqb k k'); cbn; [assumption|]. constructor; [|now apply IH].
  intros I. apply keys_adel_incl in I. contradiction.
Qed.

Lemma in_aset k v es x w : In (x, w) (aset k v es) -> (x = k /\ w = v) \/ In (x, w) es.
Proof.
  induction es as [|[k' w'] r IH]; cbn.
  - intros [E|[]]. injection E as E1 E2. left. now subst.
  - destruct (String.eqb_spec k k'); cbn.
    + intros [E|I]; [injection E as E1 E2; subst; now left|right; now right].
    + intros [E|I]; [right; now left|destruct (IH I) as [H|H]; [now left|right; now right]].
Qed.

Lemma in_adel k es x w : In (x, w) (adel k es) -> In (x, w) es.
Proof.
  induction es as [|[k' w'] r IH]; cbn; [tauto|]. destruct (String.eqb k k'); cbn; [tauto|].
  intros [E|I]; [now left|right; now apply IH].
Qed.

(* ---- well-formed trees: every storage dict has unique keys ---- *)
Inductive wf : tree -> Prop :=
| wf_leaf k z : wf (Leaf k z)
| wf_node es : NoDup (map fst es) -> Forall (fun kv => wf (snd kv)) es -> wf (Node es).

Definition wfE (es : ents) : Prop := wf (Node es).

Lemma wfE_nil : wfE [].
Proof. constructor; constructor. Qed.

Lemma wfE_inv es : wfE es -> NoDup (map fst es) /\ Forall (fun kv => wf (snd kv)) es.
Proof. intros H. inversion H; subst. now split. Qed.

Lemma wf_aget k es v : wfE es -> aget k es = Some v -> wf v.
Proof.
  intros W E. apply wfE_inv in W. destruct W as [_ F]. apply aget_Some_in in E.
  rewrite Forall_forall in F. exact (F _ E).
Qed.

Lemma wfE_aset k v es : wfE es -> wf v -> wfE (aset k v es).
Proof.
  intros W Wv. apply wfE_inv in W. destruct W as [N F]. constructor; [now apply NoDup_aset|].
  rewrite Forall_forall in *. intros [x w] I. cbn. apply in_aset in I. destruct I as [[_ E]|I]; [now subst|exact (F _ I)].
Qed.

Lemma wfE_adel k es : wfE es -> wfE (adel k es).
Proof.
  intros W. apply wfE_inv in W. destruct W as [N F]. constructor; [now apply NoDup_adel|].
  rewrite Forall_forall in *. intros [x w] I. apply in_adel in I. exact (F _ I).
Qed.

Lemma wfE_sub k es sub : wfE es -> aget k es = Some (Node sub) -> wfE sub.
Proof. intros W E. exact (wf_aget _ _ _ W E). Qed.

Lemma has_leaf_abs : forall v, nd_has_leaf (abs v) = has_leaf v.
Proof.
  induction v as [k z|es IH] using tree_ind2; [destruct k; reflexivity|].
  rewrite abs_Node. cbn [nd_has_leaf has_leaf]. induction IH as [|[k w] r Hw Hr IHr]; [reflexivity|].
  cbn [absE]. cbn in Hw. rewrite Hw. f_equal. exact IHr.
Qed.

