(* C04 — witnesses (replayed against /repo by the harness) of the places where the faithful model, like the code,
   does NOT behave as the plain nested dict. *)
From Coq Require Import ZArith List String Bool.
Import ListNotations.
From TD Require Import Model.Keys Model.C04_Tree Model.C04_Ops Model.C04_Views Model.C04_Step
     Spec.C04_NestedDict Proofs.C04_AssocP Proofs.C04_CoreP Proofs.C04_RenameP Proofs.C04_UnflattenP Proofs.C04_HistP.
Open Scope string_scope.
Open Scope list_scope.
Open Scope Z_scope.

Definition ex_tree : ents := [("a", Leaf LT 1); ("n", Node [("b", Leaf LT 2); ("e", Node [])]); ("s", Leaf LS 3)].

Lemma ex_tree_wf : wfE ex_tree.
Proof.
  constructor; [repeat constructor; cbn; intuition discriminate|].
  repeat constructor; cbn; intuition discriminate.
Qed.

(* D48: selecting a key together with one of its own sub-keys narrows the key to that sub-key *)
Lemma select_subkey_refuted :
  exists es ks, wfE es /\ Forall (fun k => wfb k = true) ks /\
    match nd_step py_split (absE es) (SSelect (map strings ks) false true false), sr_results (step es (OSelect ks false true false)) with
    | Some r, Some outs => sr_err (step es (OSelect ks false true false)) = None /\ Some (map absE outs) <> s_results r
    | _, _ => False
    end.
Proof.
  exists ex_tree, [KS "n"; KT [KS "n"; KS "b"]]. split; [exact ex_tree_wf|]. split; [repeat constructor|].
  vm_compute. split; [reflexivity|discriminate].
Qed.
