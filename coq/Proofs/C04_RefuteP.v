(* C04 — witnesses (replayed against /repo by the harness) of the places where the faithful model, like the code,
   does NOT behave as the plain nested dict. *)
From Coq Require Import ZArith List String Bool.
Import ListNotations.
From TD Require Import Model.Keys Model.C04_Tree Model.C04_Ops Model.C04_Views Model.C04_Step
     Spec.C04_NestedDict Proofs.C04_AssocP Proofs.C04_CoreP Proofs.C04_RenameP Proofs.C04_HistP.
Open Scope string_scope.
Open Scope list_scope.
Open Scope Z_scope.

Definition ex_tree : ents := [("a", Leaf LT 1); ("n", Node [("b", Leaf LT 2); ("e", Node [])]); ("s", Leaf LS 3)].

Lemma ex_tree_wf : wfE ex_tree.
Proof.
  constructor; [repeat constructor; cbn; intuition discriminate|].
  repeat constructor; cbn; intuition discriminate.
Qed.

(* D24: flatten_keys(inplace=True) loses the root-level leaves *)
Lemma flatten_inplace_refuted :
  exists es, wfE es /\
    match nd_step py_split (absE es) (SFlatten "." true false) with
    | Some r => sr_err (step es (OFlatten "." true false)) = None /\ absE (sr_self (step es (OFlatten "." true false))) <> s_self r
    | None => False
    end.
Proof. exists ex_tree. split; [exact ex_tree_wf|]. vm_compute. split; [reflexivity|discriminate]. Qed.

(* D42: renaming a nested node to a key underneath itself silently deletes it *)
Lemma rename_into_itself_refuted :
  exists es k1 k2, wfE es /\ wfb k1 = true /\ wfb k2 = true /\ strict_prefix (strings k1) (strings k2) /\
    match nd_step py_split (absE es) (SRename (strings k1) (strings k2) false) with
    | Some r => sr_err (step es (ORename k1 k2 false)) = None /\ absE (sr_self (step es (ORename k1 k2 false))) <> s_self r
    | None => False
    end.
Proof.
  exists ex_tree, (KS "n"), (KT [KS "n"; KS "x"]). split; [exact ex_tree_wf|]. split; [reflexivity|]. split; [reflexivity|].
  split; [exists ["x"]; split; [discriminate|reflexivity]|]. vm_compute. split; [reflexivity|discriminate].
Qed.

(* S7: membership in a leaves_only view ignores leaves_only *)
Lemma contains_leaves_only_refuted :
  exists es k, wfE es /\ wfb k = true /\
    keys_contains true true false k es = Ok true /\ ~ In (strings k) (keys_view true true false false es).
Proof.
  exists ex_tree, (KS "n"). split; [exact ex_tree_wf|]. split; [reflexivity|]. split; [reflexivity|].
  vm_compute. intuition discriminate.
Qed.

(* D41: values(sort=True) of an empty tensordict raises, items(sort=True) is [] *)
Lemma values_sorted_empty_refuted :
  values_view false false true false [] = Raise EOther /\ items_view false false true false [] = [].
Proof. split; reflexivity. Qed.

(* D43: the 1-tuple spelling of the empty-string key is rejected by `in` *)
Lemma contains_empty_string_refuted :
  exists es, wfE es /\ wfb (KT [KS ""]) = true /\ strings (KT [KS ""]) = strings (KS "") /\
    td_contains (KS "") es = Ok true /\ td_contains (KT [KS ""]) es = Raise EOther.
Proof.
  exists [("", Leaf LT 1)]. split; [constructor; repeat constructor; cbn; tauto|]. repeat split; reflexivity.
Qed.
