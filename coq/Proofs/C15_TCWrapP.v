(* Lemmas about Model/C15_TCWrap.v: _from_tensordict, the wrapper's decision, attribute access = key access. *)
From Coq Require Import List String Bool Arith Lia.
Import ListNotations.
From TD Require Import Model.C15_TCWrap.
Open Scope string_scope.
Open Scope list_scope.

(* ------------------------------------------------------------------------------------------------ mem / subset / lookup *)
Lemma mem_In : forall x l, mem x l = true <-> In x l.
Proof.
  intros x l. unfold mem. rewrite existsb_exists. split.
  - intros [y [Hy He]]. apply String.eqb_eq in He. subst. exact Hy.
  - intros H. exists x. split; [exact H | apply String.eqb_refl].
Qed.

Lemma mem_false_In : forall x l, mem x l = false <-> ~ In x l.
Proof.
  intros x l. split.
  - intros H Hin. apply mem_In in Hin. congruence.
  - intros H. destruct (mem x l) eqn:E; [apply mem_In in E; contradiction | reflexivity].
Qed.

Lemma subset_spec : forall a b, subset a b = true <-> (forall x, In x a -> In x b).
Proof.
  intros a b. unfold subset. rewrite forallb_forall. split.
  - intros H x Hx. apply mem_In. apply H. exact Hx.
  - intros H x Hx. apply mem_In. apply H. exact Hx.
Qed.

Lemma subset_refl : forall a, subset a a = true.
Proof. intros a. apply subset_spec. auto. Qed.

Lemma lookup_In_keys : forall A (d : list (string * A)) k v, lookup k d = Some v -> In k (keys d).
Proof.
  intros A d. induction d as [|[m w] r IH]; intros k v H; cbn in *; [discriminate|].
  destruct (String.eqb m k) eqn:E.
  - apply String.eqb_eq in E. left. exact E.
  - right. eapply IH. exact H.
Qed.

Lemma lookup_None_keys : forall A (d : list (string * A)) k, lookup k d = None <-> ~ In k (keys d).
Proof.
  intros A d. induction d as [|[m w] r IH]; intros k; cbn.
  - split; auto.
  - destruct (String.eqb m k) eqn:E.
    + apply String.eqb_eq in E. split; [discriminate | intros H; exfalso; apply H; left; exact E].
    + apply String.eqb_neq in E. rewrite IH. split.
      * intros H [H1|H1]; [contradiction | contradiction].
      * intros H H1. apply H. right. exact H1.
Qed.

Lemma is_some_lookup_mem : forall A (d : list (string * A)) k, is_some (lookup k d) = mem k (keys d).
Proof.
  intros A d k. destruct (lookup k d) eqn:E; cbn.
  - symmetry. apply mem_In. eapply lookup_In_keys. exact E.
  - symmetry. apply mem_false_In. apply lookup_None_keys. exact E.
Qed.

Lemma keys_app : forall A (a b : list (string * A)), keys (a ++ b) = keys a ++ keys b.
Proof. intros. unfold keys. apply map_app. Qed.

Lemma lookup_app : forall A (a b : list (string * A)) k,
  lookup k (a ++ b) = match lookup k a with Some v => Some v | None => lookup k b end.
Proof.
  intros A a. induction a as [|[m w] r IH]; intros b k; cbn; [reflexivity|].
  destruct (String.eqb m k); [reflexivity | apply IH].
Qed.

Lemma lookup_filter_keep : forall A (p : string -> bool) (d : list (string * A)) k,
  p k = true -> lookup k (filter (fun kv => p (fst kv)) d) = lookup k d.
Proof.
  intros A p d. induction d as [|[m w] r IH]; intros k Hp; cbn; [reflexivity|].
  destruct (p m) eqn:Pm; cbn.
  - destruct (String.eqb m k); [reflexivity | apply IH; exact Hp].
  - destruct (String.eqb m k) eqn:E.
    + apply String.eqb_eq in E. subst. congruence.
    + apply IH. exact Hp.
Qed.

Lemma keys_filter : forall A (p : string -> bool) (d : list (string * A)) k,
  In k (keys (filter (fun kv => p (fst kv)) d)) <-> In k (keys d) /\ p k = true.
Proof.
  intros A p d k. unfold keys. rewrite in_map_iff. split.
  - intros [[m w] [H1 H2]]. cbn in H1. subst. apply filter_In in H2. destruct H2 as [H2 H3]. cbn in H3.
    split; [apply in_map_iff; exists (k, w); auto | exact H3].
  - intros [H1 H2]. apply in_map_iff in H1. destruct H1 as [[m w] [H1 H3]]. cbn in H1. subst.
    exists (k, w). split; [reflexivity | apply filter_In; auto].
Qed.

(* ------------------------------------------------------------------------------------------------ _from_tensordict *)
Lemma clash_false : forall tdkeys nt, clash tdkeys nt = false ->
  forall k i, In (k, NVal i) nt -> ~ In k tdkeys.
Proof.
  intros tdkeys nt H k i Hin Hk. unfold clash in H.
  assert (existsb (fun kv : string * ntv => mem (fst kv) tdkeys && negb (ntv_is_none (snd kv))) nt = true) as X.
  { apply existsb_exists. exists (k, NVal i). split; [exact Hin|]. cbn. apply mem_In in Hk. rewrite Hk. reflexivity. }
  congruence.
Qed.

Lemma from_td_rejects_clash : forall fields tdkeys nt, clash tdkeys nt = true -> from_tensordict fields tdkeys nt = FErr EKey.
Proof. intros. unfold from_tensordict. rewrite H. reflexivity. Qed.

Lemma from_td_rejects_foreign : forall fields tdkeys nt,
  clash tdkeys nt = false -> subset (tdkeys ++ keys nt) fields = false -> from_tensordict fields tdkeys nt = FErr EValue.
Proof. intros fields tdkeys nt H1 H2. unfold from_tensordict. rewrite H1, H2. reflexivity. Qed.

Lemma from_td_ok_inv : forall fields tdkeys nt nt', from_tensordict fields tdkeys nt = FOk nt' ->
  clash tdkeys nt = false /\ subset (tdkeys ++ keys nt) fields = true /\
  nt' = filter (fun kv => negb (mem (fst kv) tdkeys)) nt
        ++ map (fun f => (f, NNone)) (filter (fun f => negb (mem f tdkeys) && negb (mem f (keys nt))) fields).
Proof.
  intros fields tdkeys nt nt' H. unfold from_tensordict in H.
  destruct (clash tdkeys nt) eqn:C; [discriminate|].
  destruct (subset (tdkeys ++ keys nt) fields) eqn:S; cbn in H; [|discriminate].
  inversion H. auto.
Qed.

Lemma keys_map_none : forall (l : list string), keys (map (fun f => (f, NNone)) l) = l.
Proof. intros l. unfold keys. rewrite map_map. cbn. apply map_id. Qed.

(* every field is in exactly one of the two stores, and nothing else is stored *)
Lemma from_td_partition : forall fields tdkeys nt nt', from_tensordict fields tdkeys nt = FOk nt' ->
  (forall f, In f fields -> (In f tdkeys /\ ~ In f (keys nt')) \/ (~ In f tdkeys /\ In f (keys nt')))
  /\ (forall k, In k tdkeys -> In k fields) /\ (forall k, In k (keys nt') -> In k fields).
Proof.
  intros fields tdkeys nt nt' H. apply from_td_ok_inv in H. destruct H as [_ [S E]].
  rewrite subset_spec in S. subst nt'. rewrite keys_app, keys_map_none. split; [|split].
  - intros f Hf. destruct (mem f tdkeys) eqn:M.
    + left. split; [apply mem_In; exact M|]. intros Hin. apply in_app_or in Hin. destruct Hin as [Hin|Hin].
      * apply (keys_filter _ (fun k => negb (mem k tdkeys))) in Hin. destruct Hin as [_ Hin]. rewrite M in Hin. discriminate.
      * apply filter_In in Hin. destruct Hin as [_ Hin]. rewrite M in Hin. discriminate.
    + right. split; [apply mem_false_In; exact M|]. apply in_or_app. destruct (mem f (keys nt)) eqn:N.
      * left. apply (keys_filter _ (fun k => negb (mem k tdkeys))). split; [apply mem_In; exact N | rewrite M; reflexivity].
      * right. apply filter_In. split; [exact Hf | rewrite M, N; reflexivity].
  - intros k Hk. apply S. apply in_or_app. left. exact Hk.
  - intros k Hk. apply in_app_or in Hk. destruct Hk as [Hk|Hk].
    + apply (keys_filter _ (fun k => negb (mem k tdkeys))) in Hk. apply S. apply in_or_app. right. tauto.
    + apply filter_In in Hk. tauto.
Qed.

(* an association list without shadowed keys *)
Fixpoint nodupb (l : list string) : bool := match l with [] => true | x :: r => negb (mem x r) && nodupb r end.

Lemma lookup_of_In : forall A (d : list (string * A)) k v, nodupb (keys d) = true -> In (k, v) d -> lookup k d = Some v.
Proof.
  intros A d. induction d as [|[m w] r IH]; intros k v N Hin; cbn in *; [contradiction|].
  apply andb_prop in N. destruct N as [N1 N2]. destruct Hin as [Hin|Hin].
  - inversion Hin. subst. rewrite String.eqb_refl. reflexivity.
  - destruct (String.eqb m k) eqn:E.
    + apply String.eqb_eq in E. subst. apply negb_true_iff in N1. apply mem_false_In in N1. exfalso. apply N1.
      unfold keys. apply in_map_iff. exists (k, v). auto.
    + apply IH; assumption.
Qed.

Lemma nt_carried_intro : forall nt nt',
  (forall k i, In (k, NVal i) nt -> lookup k nt' = Some (NVal i)) -> nt_carried nt nt' = true.
Proof.
  intros nt nt' H. unfold nt_carried. apply forallb_forall. intros [k v] Hin. cbn. destruct v as [|i]; [reflexivity|].
  rewrite (H k i Hin). apply Nat.eqb_refl.
Qed.

(* non-None non-tensor values are carried unchanged *)
Lemma from_td_carries : forall fields tdkeys nt nt', nodupb (keys nt) = true ->
  from_tensordict fields tdkeys nt = FOk nt' -> nt_carried nt nt' = true.
Proof.
  intros fields tdkeys nt nt' N H. apply from_td_ok_inv in H. destruct H as [C [_ E]]. subst nt'.
  apply nt_carried_intro. intros k i Hin. rewrite lookup_app.
  assert (~ In k tdkeys) as Hk by (eapply clash_false; eauto).
  apply mem_false_In in Hk.
  rewrite (lookup_filter_keep _ (fun k => negb (mem k tdkeys))); [|rewrite Hk; reflexivity].
  rewrite (lookup_of_In _ nt k (NVal i) N Hin). reflexivity.
Qed.

(* ------------------------------------------------------------------------------------------------ the wrapper *)
(* the inputs on which _from_tensordict cannot raise KeyError: no non-None non-tensor value under a key the result holds *)
Definition atom_pre (selfkeys : list string) (nt : ntdict) (a : ratom) : bool :=
  match a with
  | ATd ks false => negb (clash ks nt)
  | ASelf => negb (clash selfkeys nt)
  | _ => true
  end.
Definition shape_pre (fields selfkeys : list string) (nt : ntdict) (r : rshape) : bool :=
  nodupb (keys nt) && subset (selfkeys ++ keys nt) fields &&
  match r with R1 a => atom_pre selfkeys nt a | RTuple l => forallb (atom_pre selfkeys nt) l end.

Lemma deliver_ok : forall fields selfkeys nt copy a,
  nodupb (keys nt) = true -> subset (selfkeys ++ keys nt) fields = true -> atom_pre selfkeys nt a = true ->
  atom_ok fields selfkeys nt a (deliver fields selfkeys nt copy a) = true.
Proof.
  intros fields selfkeys nt copy a N S P. destruct a as [|ks o| |]; cbn in *; try reflexivity.
  - (* ASelf inside a tuple: a fresh instance around the same tensordict *)
    apply negb_true_iff in P.
    destruct (from_tensordict fields selfkeys nt) as [nt'|e] eqn:F.
    + cbn. eapply from_td_carries; eauto.
    + unfold from_tensordict in F. rewrite P, S in F. cbn in F. discriminate.
  - destruct o; cbn.
    + rewrite subset_refl. reflexivity.
    + apply negb_true_iff in P.
      destruct (from_tensordict fields ks nt) as [nt'|e] eqn:F; cbn.
      * rewrite subset_refl. cbn. eapply from_td_carries; eauto.
      * unfold from_tensordict in F. rewrite P in F.
        destruct (subset (ks ++ keys nt) fields) eqn:S2; cbn in F; [discriminate|].
        (* rejected: then ks is not inside the fields *)
        apply negb_true_iff. destruct (subset ks fields) eqn:S3; [|reflexivity].
        exfalso. assert (subset (ks ++ keys nt) fields = true) as X.
        { apply subset_spec. intros x Hx. apply in_app_or in Hx. destruct Hx as [Hx|Hx].
          - rewrite subset_spec in S3. auto.
          - rewrite subset_spec in S. apply S. apply in_or_app. right. exact Hx. }
        congruence.
Qed.

Lemma delivers_ok : forall fields selfkeys nt copy l,
  nodupb (keys nt) = true -> subset (selfkeys ++ keys nt) fields = true -> forallb (atom_pre selfkeys nt) l = true ->
  atoms_ok fields selfkeys nt l (map (deliver fields selfkeys nt copy) l) = true.
Proof.
  intros fields selfkeys nt copy l N S. induction l as [|a r IH]; intros P; cbn in *; [reflexivity|].
  apply andb_prop in P. destruct P as [P1 P2]. rewrite deliver_ok by assumption. cbn. apply IH. exact P2.
Qed.

Theorem wrap_sound : forall copy fields selfkeys nt r,
  shape_pre fields selfkeys nt r = true ->
  shape_ok fields selfkeys nt r (wrap_td_method false copy fields selfkeys nt r) = true.
Proof.
  intros copy fields selfkeys nt r P. unfold shape_pre in P.
  apply andb_prop in P. destruct P as [P P3]. apply andb_prop in P. destruct P as [N S].
  destruct r as [a|l]; cbn.
  - destruct a as [|ks o| |]; try reflexivity.
    exact (deliver_ok fields selfkeys nt copy (ATd ks o) N S P3).
  - apply delivers_ok; assumption.
Qed.

(* ------------------------------------------------------------------------------------------------ the two stores *)
Lemma wfb_inv : forall fields s, wfb fields s = true ->
  (forall f, In f fields -> xorb (mem f (keys (s_td s))) (mem f (keys (s_nt s))) = true)
  /\ (forall k, In k (keys (s_td s)) -> In k fields) /\ (forall k, In k (keys (s_nt s)) -> In k fields).
Proof.
  intros fields s H. unfold wfb in H. apply andb_prop in H. destruct H as [H H3]. apply andb_prop in H. destruct H as [H1 H2].
  rewrite forallb_forall in H1. rewrite subset_spec in H2, H3. auto.
Qed.

Lemma lookup_nil_guard : forall (nt : ntdict) item,
  match nt with [] => None | _ => lookup item nt end = lookup item nt.
Proof. intros nt item. destruct nt; reflexivity. Qed.

(* attribute access on a field is key access on whichever store holds the key *)
Theorem attr_is_key : forall fields s item, wfb fields s = true -> In item fields ->
  getattr fields s item = key_access s item.
Proof.
  intros fields s item W Hin. apply wfb_inv in W. destruct W as [W _]. specialize (W item Hin).
  unfold getattr, key_access. assert (mem item fields = true) as M by (apply mem_In; exact Hin). rewrite M.
  rewrite lookup_nil_guard. rewrite <- !is_some_lookup_mem in W.
  destruct (lookup item (s_td s)) as [v|] eqn:E1; destruct (lookup item (s_nt s)) as [w|] eqn:E2; cbn in W; try discriminate.
  - destruct v; reflexivity.
  - destruct w; reflexivity.
Qed.

Lemma lookup_remove_same : forall A (d : list (string * A)) k, lookup k (remove_key k d) = None.
Proof.
  intros A d k. induction d as [|[m w] r IH]; cbn; [reflexivity|].
  destruct (String.eqb m k) eqn:E; [exact IH | cbn; rewrite E; exact IH].
Qed.

Lemma lookup_remove_other : forall A (d : list (string * A)) k k', k <> k' -> lookup k' (remove_key k d) = lookup k' d.
Proof.
  intros A d k k' N. induction d as [|[m w] r IH]; cbn; [reflexivity|].
  destruct (String.eqb m k) eqn:E.
  - apply String.eqb_eq in E. subst. destruct (String.eqb k k') eqn:E2; [apply String.eqb_eq in E2; contradiction | exact IH].
  - cbn. destruct (String.eqb m k'); [reflexivity | exact IH].
Qed.

Lemma lookup_map_upd_same : forall A (d : list (string * A)) k v, is_some (lookup k d) = true ->
  lookup k (map (fun kv => if String.eqb (fst kv) k then (k, v) else kv) d) = Some v.
Proof.
  intros A d k v. induction d as [|[m w] r IH]; intros H; cbn in *; [discriminate|].
  destruct (String.eqb m k) eqn:E; cbn.
  - rewrite String.eqb_refl. reflexivity.
  - rewrite E. apply IH. exact H.
Qed.

Lemma lookup_map_upd_other : forall A (d : list (string * A)) k k' v, k <> k' ->
  lookup k' (map (fun kv => if String.eqb (fst kv) k then (k, v) else kv) d) = lookup k' d.
Proof.
  intros A d k k' v N. induction d as [|[m w] r IH]; cbn; [reflexivity|].
  destruct (String.eqb m k) eqn:E; cbn.
  - apply String.eqb_eq in E. subst. destruct (String.eqb k k') eqn:E2; [apply String.eqb_eq in E2; contradiction | exact IH].
  - destruct (String.eqb m k'); [reflexivity | exact IH].
Qed.

Lemma lookup_upd_same : forall A (d : list (string * A)) k v, lookup k (upd k v d) = Some v.
Proof.
  intros A d k v. unfold upd. destruct (is_some (lookup k d)) eqn:E.
  - apply lookup_map_upd_same. exact E.
  - rewrite lookup_app. destruct (lookup k d); [discriminate|]. cbn. rewrite String.eqb_refl. reflexivity.
Qed.

Lemma lookup_upd_other : forall A (d : list (string * A)) k k' v, k <> k' -> lookup k' (upd k v d) = lookup k' d.
Proof.
  intros A d k k' v N. unfold upd. destruct (is_some (lookup k d)) eqn:E.
  - apply lookup_map_upd_other. exact N.
  - rewrite lookup_app. destruct (lookup k' d); [reflexivity|]. cbn.
    destruct (String.eqb k k') eqn:E2; [apply String.eqb_eq in E2; contradiction | reflexivity].
Qed.

(* reading back what was assigned *)
Definition readback (o : opts) (h : hint) (v : vkind) (id : nat) : got :=
  match place o h v with
  | PNone => GNoneV
  | PTensor _ => match v with VkColl => GColl id | _ => GTensor id end
  | PCollFromDict => GColl id
  | PNonTensor _ => GPy id
  end.

Theorem set_then_get : forall fields o h s k v id s',
  set_field fields false o h s k v id = SOk s' ->
  getattr fields s' k = readback o h v id.
Proof.
  intros fields o h s k v id s' H. unfold set_field in H. cbn in H.
  destruct (mem k fields) eqn:M; cbn in H; [|discriminate].
  unfold getattr, readback. rewrite M. rewrite lookup_nil_guard.
  destruct (place o h v) eqn:P; inversion H; subst; cbn.
  - rewrite lookup_remove_same, lookup_upd_same. destruct v; reflexivity.
  - rewrite lookup_remove_same, lookup_upd_same. reflexivity.
  - rewrite lookup_remove_same, lookup_upd_same. reflexivity.
  - rewrite lookup_upd_same. reflexivity.
Qed.

(* assignment to one field leaves the others alone *)
Theorem set_frame : forall fields o h s k v id s' k',
  set_field fields false o h s k v id = SOk s' -> k <> k' -> getattr fields s' k' = getattr fields s k'.
Proof.
  intros fields o h s k v id s' k' H N. unfold set_field in H. cbn in H.
  destruct (mem k fields) eqn:M; cbn in H; [|discriminate].
  unfold getattr. rewrite !lookup_nil_guard.
  destruct (place o h v) eqn:P; inversion H; subst; cbn;
    repeat rewrite lookup_remove_other by exact N; repeat rewrite lookup_upd_other by exact N; reflexivity.
Qed.

(* keys after the elementary updates *)
Lemma keys_remove : forall A (d : list (string * A)) k x, In x (keys (remove_key k d)) <-> In x (keys d) /\ x <> k.
Proof.
  intros A d k x. induction d as [|[m w] r IH]; cbn; [tauto|].
  destruct (String.eqb m k) eqn:E.
  - apply String.eqb_eq in E. subst. rewrite IH. split; [tauto|]. intros [[H|H] N]; [congruence | tauto].
  - apply String.eqb_neq in E. cbn. rewrite IH. split.
    + intros [H|H]; [subst; tauto | tauto].
    + intros [[H|H] N]; [left; exact H | right; tauto].
Qed.

Lemma keys_map_upd : forall A (d : list (string * A)) k v,
  keys (map (fun kv => if String.eqb (fst kv) k then (k, v) else kv) d) = keys d.
Proof.
  intros A d k v. induction d as [|[m w] r IH]; cbn; [reflexivity|].
  destruct (String.eqb m k) eqn:E; cbn; [apply String.eqb_eq in E; subst|]; f_equal; exact IH.
Qed.

Lemma keys_upd : forall A (d : list (string * A)) k v x, In x (keys (upd k v d)) <-> In x (keys d) \/ x = k.
Proof.
  intros A d k v x. unfold upd. destruct (is_some (lookup k d)) eqn:E.
  - rewrite keys_map_upd. split; [tauto|]. intros [H|H]; [exact H|]. subst. rewrite is_some_lookup_mem in E. apply mem_In. exact E.
  - rewrite keys_app. cbn. rewrite in_app_iff. cbn. split; [intros [H|[H|[]]]; auto | intros [H|H]; auto].
Qed.

Lemma xorb_mem_iff : forall a b : bool, xorb a b = true <-> (a = true /\ b = false) \/ (a = false /\ b = true).
Proof. intros [|] [|]; cbn; split; intros H; try discriminate; try tauto; destruct H as [[? ?]|[? ?]]; discriminate. Qed.

Lemma wfb_intro : forall fields s,
  (forall f, In f fields -> (In f (keys (s_td s)) /\ ~ In f (keys (s_nt s))) \/ (~ In f (keys (s_td s)) /\ In f (keys (s_nt s)))) ->
  (forall k, In k (keys (s_td s)) -> In k fields) -> (forall k, In k (keys (s_nt s)) -> In k fields) -> wfb fields s = true.
Proof.
  intros fields s H1 H2 H3. unfold wfb. rewrite !andb_true_iff. split; [split|].
  - apply forallb_forall. intros f Hf. apply xorb_mem_iff. destruct (H1 f Hf) as [[A B]|[A B]].
    + left. split; [apply mem_In; exact A | apply mem_false_In; exact B].
    + right. split; [apply mem_false_In; exact A | apply mem_In; exact B].
  - apply subset_spec. exact H2.
  - apply subset_spec. exact H3.
Qed.

Lemma wfb_cases : forall fields s, wfb fields s = true -> forall f, In f fields ->
  (In f (keys (s_td s)) /\ ~ In f (keys (s_nt s))) \/ (~ In f (keys (s_td s)) /\ In f (keys (s_nt s))).
Proof.
  intros fields s W f Hf. apply wfb_inv in W. destruct W as [W _]. specialize (W f Hf). apply xorb_mem_iff in W.
  destruct W as [[A B]|[A B]]; [left | right]; (split; [first [apply mem_In; assumption | apply mem_false_In; assumption] | first [apply mem_In; assumption | apply mem_false_In; assumption]]).
Qed.

Lemma wf_move_to_td : forall fields s k v, wfb fields s = true -> In k fields ->
  wfb fields {| s_td := upd k v (s_td s); s_nt := remove_key k (s_nt s) |} = true.
Proof.
  intros fields s k v W Hk. pose proof (wfb_cases fields s W) as Wc. apply wfb_inv in W. destruct W as [_ [W2 W3]].
  apply wfb_intro; cbn [s_td s_nt].
  - intros f Hf. rewrite keys_upd, keys_remove. destruct (string_dec f k) as [E|E].
    + subst. left. split; [right; reflexivity | intros [_ X]; apply X; reflexivity].
    + specialize (Wc f Hf). destruct Wc as [[A B]|[A B]].
      * left. split; [left; exact A | intros [X _]; contradiction].
      * right. split; [intros [X|X]; contradiction | split; assumption].
  - intros x Hx. apply keys_upd in Hx. destruct Hx as [Hx|Hx]; [auto | subst; exact Hk].
  - intros x Hx. apply keys_remove in Hx. destruct Hx as [Hx _]. auto.
Qed.

Lemma wf_move_to_nt : forall fields s k w, wfb fields s = true -> In k fields ->
  wfb fields {| s_td := remove_key k (s_td s); s_nt := upd k w (s_nt s) |} = true.
Proof.
  intros fields s k w W Hk. pose proof (wfb_cases fields s W) as Wc. apply wfb_inv in W. destruct W as [_ [W2 W3]].
  apply wfb_intro; cbn [s_td s_nt].
  - intros f Hf. rewrite keys_upd, keys_remove. destruct (string_dec f k) as [E|E].
    + subst. right. split; [intros [_ X]; apply X; reflexivity | right; reflexivity].
    + specialize (Wc f Hf). destruct Wc as [[A B]|[A B]].
      * left. split; [split; assumption | intros [X|X]; contradiction].
      * right. split; [intros [X _]; contradiction | left; exact B].
  - intros x Hx. apply keys_remove in Hx. destruct Hx as [Hx _]. auto.
  - intros x Hx. apply keys_upd in Hx. destruct Hx as [Hx|Hx]; [auto | subst; exact Hk].
Qed.

(* the invariant "every field in exactly one store" is kept by an assignment *)
Theorem set_wf : forall fields o h s k v id s',
  wfb fields s = true -> set_field fields false o h s k v id = SOk s' -> wfb fields s' = true.
Proof.
  intros fields o h s k v id s' W H.
  unfold set_field in H. cbn in H. destruct (mem k fields) eqn:M; cbn in H; [|discriminate]. apply mem_In in M.
  destruct (place o h v) eqn:P; inversion H; subst; clear H.
  - apply wf_move_to_td; assumption.
  - apply wf_move_to_td; assumption.
  - apply wf_move_to_td; assumption.
  - apply wf_move_to_nt; assumption.
Qed.

(* ------------------------------------------------------------------------------------------------ indexing *)
Theorem getitem_keeps : forall at_index fields s s', getitem at_index false s = SOk s' ->
  keys (s_td s') = keys (s_td s) /\ s_nt s' = s_nt s /\ (wfb fields s = true -> wfb fields s' = true).
Proof.
  intros at_index fields s s' H. cbn in H. inversion H. subst. cbn [s_td s_nt].
  assert (keys (map (fun kv : string * tval => (fst kv, index_val at_index (snd kv))) (s_td s)) = keys (s_td s)) as K.
  { unfold keys. rewrite map_map. cbn. reflexivity. }
  split; [exact K | split; [reflexivity|]]. intros W. unfold wfb in *. cbn [s_td s_nt]. rewrite K. exact W.
Qed.

(* ------------------------------------------------------------------------------------------------ indexed assignment *)
Definition wstep (written : nat -> nat -> nat) (d : list (string * tval)) (kv : string * tval) : list (string * tval) :=
  match lookup (fst kv) d, snd kv with
  | Some (VTensor i), VTensor j => upd (fst kv) (VTensor (written i j)) d
  | Some (VColl i), VColl j => upd (fst kv) (VColl (written i j)) d
  | _, v => upd (fst kv) v d
  end.

Lemma write_at_fold : forall written dst src, write_at written dst src = fold_left (wstep written) src dst.
Proof. reflexivity. Qed.

Lemma keys_wstep : forall written d kv x, In x (keys (wstep written d kv)) <-> In x (keys d) \/ x = fst kv.
Proof.
  intros written d [k v] x. unfold wstep. cbn [fst snd].
  destruct (lookup k d) as [[i|i|i]|]; destruct v; apply keys_upd.
Qed.

Lemma keys_write_at : forall written src dst x,
  In x (keys (write_at written dst src)) <-> In x (keys dst) \/ In x (keys src).
Proof.
  intros written src. induction src as [|kv r IH]; intros dst x; rewrite write_at_fold; cbn [fold_left].
  - cbn. tauto.
  - rewrite <- write_at_fold. rewrite IH. rewrite keys_wstep. cbn [keys map]. fold (keys r).
    cbn [In]. split; intros H; [destruct H as [[H|H]|H]; auto | destruct H as [H|[H|H]]; auto].
Qed.

(* tc[idx] = value with a tensorclass value keeps "every field in exactly one store": keys the value holds as tensors leave
   self's non-tensor store and are written (or created) in the tensordict part *)
Theorem setitem_wf : forall written fields s same val s',
  wfb fields s = true -> wfb fields val = true ->
  setitem written false s (IVTc same val) = SOk s' -> wfb fields s' = true.
Proof.
  intros written fields s same val s' W Wv H. cbn in H.
  destruct (negb same && negb (subset (keys (s_td s) ++ keys (s_nt s)) (keys (s_td val) ++ keys (s_nt val))
                                && subset (keys (s_td val) ++ keys (s_nt val)) (keys (s_td s) ++ keys (s_nt s)))); [discriminate|].
  inversion H. subst. clear H.
  pose proof (wfb_cases fields s W) as Wc. apply wfb_inv in W. destruct W as [_ [W2 W3]].
  apply wfb_inv in Wv. destruct Wv as [_ [V2 _]].
  apply wfb_intro; cbn [s_td s_nt].
  - intros f Hf. rewrite keys_write_at.
    rewrite (keys_filter _ (fun k => negb (mem k (keys (s_td val))))).
    specialize (Wc f Hf). destruct (mem f (keys (s_td val))) eqn:M.
    + left. split; [right; apply mem_In; exact M | intros [_ X]; discriminate].
    + apply mem_false_In in M. destruct Wc as [[A B]|[A B]].
      * left. split; [left; exact A | intros [X _]; contradiction].
      * right. split; [intros [X|X]; contradiction | split; [exact B | reflexivity]].
  - intros x Hx. apply keys_write_at in Hx. destruct Hx as [Hx|Hx]; auto.
  - intros x Hx. apply (keys_filter _ (fun k => negb (mem k (keys (s_td val))))) in Hx. destruct Hx as [Hx _]. auto.
Qed.
