(* C02 proofs: tensordict's _infer_size_impl (the Python copy of torch.jit's infer_size_impl, with the 0 // 0 guard of
   fixes/C02/C02-h) computes exactly what Spec/C02_TorchShape.infer_size (ATen's infer_size) does, for every target
   and every total -- so view / reshape / unflatten with an inferred -1 are inside the theorems. *)
From Coq Require Import ZArith List Bool Lia ZifyBool String.
Import ListNotations.
From TD Require Import Spec.PySlice Spec.C02_TorchShape Model.C02_ShapeOps Proofs.C02_FrameP.
Open Scope Z_scope.
Ltac Zify.zify_post_hook ::= Z.to_euclidean_division_equations.

Definition allge (l : list Z) : bool := forallb (fun x => -1 <=? x) l.
Definition known (l : list Z) : Z := prodZ (filter (fun x => negb (x =? -1)) l).
Fixpoint idx1 (l : list Z) : nat := match l with [] => 0%nat | x :: r => if x =? -1 then 0%nat else S (idx1 r) end.

Lemma scan_spec : forall l i acc inf,
  infer_scan l i acc inf =
  if negb (allge l) then Raised EAssert
  else match count_neg1 l with
       | O => Done (acc * known l, inf)
       | S O => match inf with None => Done (acc * known l, Some (i + idx1 l)%nat) | Some _ => Raised EAssert end
       | _ => Raised EAssert
       end.
Proof.
  induction l as [|x r IH]; intros i acc inf.
  - cbn. f_equal. f_equal. unfold known. cbn. lia.
  - cbn [infer_scan]. unfold allge, count_neg1, known in *. cbn [forallb filter idx1].
    destruct (x =? -1) eqn:E1.
    + assert (x = -1) by lia. subst x. cbn [negb List.length Z.leb]. change (-1 <=? -1) with true. cbn [andb].
      destruct inf as [j|].
      * destruct (negb (forallb (fun x => -1 <=? x) r)); [reflexivity|].
        destruct (List.length (filter (fun x => x =? -1) r)); reflexivity.
      * rewrite IH. destruct (negb (forallb (fun x => -1 <=? x) r)); [reflexivity|].
        destruct (List.length (filter (fun x => x =? -1) r)) as [|[|k]]; try reflexivity.
        rewrite Nat.add_0_r. reflexivity.
    + cbn [negb]. destruct (0 <=? x) eqn:E2.
      * rewrite IH. destruct (-1 <=? x) eqn:E3; [|lia]. cbn [andb].
        destruct (negb (forallb (fun x0 => -1 <=? x0) r)); [reflexivity|].
        unfold prodZ. cbn [fold_right]. fold (prodZ (filter (fun x0 => negb (x0 =? -1)) r)).
        destruct (List.length (filter (fun x0 => x0 =? -1) r)) as [|[|k]]; try reflexivity.
        -- f_equal. f_equal. lia.
        -- destruct inf; [reflexivity|]. f_equal. f_equal; [lia|f_equal; lia].
      * destruct (-1 <=? x) eqn:E3; [lia|]. reflexivity.
Qed.

Lemma known_nonneg l : allge l = true -> 0 <= known l.
Proof.
  unfold allge, known. induction l as [|x r IH]; cbn [forallb filter]; intros H; [cbn; lia|].
  apply andb_true_iff in H. destruct H as [H1 H2]. specialize (IH H2).
  destruct (x =? -1) eqn:E; cbn [negb]; [exact IH|]. unfold prodZ in *. cbn [fold_right]. nia.
Qed.

Lemma set_nth_idx1 l v : count_neg1 l = 1%nat -> set_nth (idx1 l) v l = map (fun x => if x =? -1 then v else x) l.
Proof.
  unfold count_neg1. induction l as [|x r IH]; cbn [filter idx1 map]; intros H; [discriminate|].
  destruct (x =? -1) eqn:E.
  - cbn [List.length] in H. unfold set_nth. cbn [firstn skipn app]. f_equal.
    assert (Hr : filter (fun y => y =? -1) r = []) by (destruct (filter (fun y => y =? -1) r); [reflexivity|discriminate]).
    clear - Hr. induction r as [|y r IH]; [reflexivity|]. cbn [filter map] in *. destruct (y =? -1); [discriminate|]. f_equal. exact (IH Hr).
  - unfold set_nth in *. cbn [firstn skipn app]. f_equal. apply IH. exact H.
Qed.

(* tensordict's inference = torch's inference: same accepted targets, same inferred shape *)
Theorem infer_equiv s n :
  infer_size_impl s n = match infer_size s n with Ok r => Done r | Reject => Raised EAssert end.
Proof.
  unfold infer_size_impl, infer_size. rewrite scan_spec. fold (allge s). fold (known s).
  destruct (allge s) eqn:Ea; cbn [negb bindo]; [|reflexivity].
  pose proof (known_nonneg s Ea) as Hk.
  destruct (count_neg1 s) as [|[|k]] eqn:Ec; cbn [bindo].
  - rewrite Z.mul_1_l, orb_false_r. rewrite (Z.eqb_sym (known s) n). destruct (n =? known s); reflexivity.
  - rewrite Z.mul_1_l. cbn [Nat.add].
    destruct (0 <? known s) eqn:E1.
    + destruct (n mod known s =? 0) eqn:E2; cbn [andb].
      * rewrite orb_true_r. cbn [negb]. destruct (known s =? 0) eqn:E3; [lia|]. rewrite set_nth_idx1 by exact Ec. reflexivity.
      * rewrite orb_false_r. destruct (n =? known s) eqn:E3; cbn [negb]; [|reflexivity].
        assert (n = known s) by lia. subst n. rewrite Z.mod_same in E2 by lia. discriminate.
    + cbn [andb]. rewrite orb_false_r. destruct (n =? known s) eqn:E3; cbn [negb]; [|reflexivity].
      destruct (known s =? 0) eqn:E4; [reflexivity|lia].
  - reflexivity.
Qed.

Lemma prod_replace l v : count_neg1 l = 1%nat ->
  prodZ (map (fun x => if x =? -1 then v else x) l) = known l * v.
Proof.
  unfold count_neg1, known. induction l as [|x r IH]; cbn [filter map]; intros H; [discriminate|].
  unfold prodZ in *. cbn [fold_right]. destruct (x =? -1) eqn:E; cbn [negb].
  - cbn [List.length] in H.
    assert (Hr : filter (fun y => y =? -1) r = []) by (destruct (filter (fun y => y =? -1) r); [reflexivity|discriminate]).
    assert (Hm : map (fun y => if y =? -1 then v else y) r = r /\ filter (fun y => negb (y =? -1)) r = r).
    { clear - Hr. induction r as [|y r IH]; [split; reflexivity|]. cbn [filter map] in *. destruct (y =? -1); [discriminate|].
      cbn [negb]. destruct (IH Hr) as [I1 I2]. rewrite I1, I2. split; reflexivity. }
    destruct Hm as [-> ->]. lia.
  - cbn [fold_right]. rewrite IH by exact H. lia.
Qed.

Lemma allge_replace l v : allge l = true -> 0 <= v -> Forall (fun x => 0 <= x) (map (fun x => if x =? -1 then v else x) l).
Proof.
  unfold allge. induction l as [|x r IH]; cbn [forallb map]; intros H Hv; [constructor|].
  apply andb_true_iff in H. destruct H as [H1 H2]. constructor; [destruct (x =? -1) eqn:E; lia|exact (IH H2 Hv)].
Qed.

Lemma allge_nocount_nonneg l : allge l = true -> count_neg1 l = 0%nat -> Forall (fun x => 0 <= x) l /\ known l = prodZ l.
Proof.
  unfold allge, count_neg1, known. induction l as [|x r IH]; cbn [forallb filter]; intros H Hc; [split; [constructor|reflexivity]|].
  apply andb_true_iff in H. destruct H as [H1 H2]. destruct (x =? -1) eqn:E; [discriminate|]. cbn [negb].
  destruct (IH H2 Hc) as [I1 I2]. split; [constructor; [lia|exact I1]|]. unfold prodZ in *. cbn [fold_right]. rewrite I2. reflexivity.
Qed.

(* what torch's inference returns: non-negative sizes with the right number of elements *)
Lemma infer_size_ok s n r : 0 <= n -> infer_size s n = Ok r ->
  nonneg r /\ prodZ r = n /\ List.length r = List.length s.
Proof.
  intros Hn. unfold infer_size. fold (allge s). fold (known s).
  destruct (allge s) eqn:Ea; cbn [negb]; [|discriminate].
  pose proof (known_nonneg s Ea) as Hk.
  destruct (count_neg1 s) as [|[|k]] eqn:Ec; try discriminate.
  - destruct (known s =? n) eqn:E; [|discriminate]. intros H. injection H as <-.
    destruct (allge_nocount_nonneg s Ea Ec) as [H1 H2]. split; [exact H1|]. split; [lia|reflexivity].
  - destruct ((0 <? known s) && (n mod known s =? 0)) eqn:E; [|discriminate]. intros H. injection H as <-.
    apply andb_true_iff in E. destruct E as [E1 E2]. split; [|split; [|apply map_length]].
    + apply allge_replace; [exact Ea|]. apply Z.div_pos; lia.
    + rewrite prod_replace by exact Ec. nia.
Qed.
