(* C08: the stack-dim bookkeeping of the shape operations of the lazy stack against the dense operation. *)
From Coq Require Import ZArith List Bool Lia ZifyBool.
Import ListNotations.
From TD Require Import Spec.PySlice Spec.C08_Dense Model.C08_Lazy Proofs.C08_CoordP Proofs.C08_IndexP.
Open Scope Z_scope.

(* equality of the arrays two expressions denote, on the positions of the array *)
Definition equiv_in (a b : arr) : Prop :=
  shape_of a = shape_of b /\
  forall sh I, shape_of b = Some sh -> in_range sh I = true -> at_ a I = at_ b I.

(* ---------- lists by their nth_error *)
Lemma list_ext {A} (a : list A) : forall b, (forall k, nth_error a k = nth_error b k) -> a = b.
Proof.
  induction a as [|x a IH]; intros [|y b] H.
  - reflexivity.
  - specialize (H 0%nat). discriminate.
  - specialize (H 0%nat). discriminate.
  - pose proof (H 0%nat) as H0. cbn in H0. inversion H0; subst. f_equal. apply IH. intros k. apply (H (S k)).
Qed.

Lemma nth_firstn {A} n : forall (l : list A) k, (k < n)%nat -> nth_error (firstn n l) k = nth_error l k.
Proof.
  induction n as [|n IH]; intros l k H; [lia|]. destruct l as [|x l]; [reflexivity|].
  destruct k as [|k]; [reflexivity|]. cbn. apply IH. lia.
Qed.
Lemma nth_skipn {A} n : forall (l : list A) k, nth_error (skipn n l) k = nth_error l (n + k).
Proof.
  induction n as [|n IH]; intros l k; [reflexivity|]. destruct l as [|x l]; [destruct k; reflexivity|]. cbn. apply IH.
Qed.

Lemma nth_error_remove_at {A} sd (l : list A) k :
  nth_error (remove_at sd l) k = if (k <? sd)%nat then nth_error l k else nth_error l (S k).
Proof.
  unfold remove_at. destruct (k <? sd)%nat eqn:E.
  - apply Nat.ltb_lt in E. destruct (Nat.le_gt_cases sd (List.length l)) as [H|H].
    + rewrite nth_error_app1 by (rewrite firstn_length; lia). apply nth_firstn. exact E.
    + rewrite firstn_all2 by lia. rewrite skipn_all2 by lia. rewrite app_nil_r. reflexivity.
  - apply Nat.ltb_ge in E. destruct (Nat.le_gt_cases sd (List.length l)) as [H|H].
    + rewrite nth_error_app2 by (rewrite firstn_length; lia). rewrite firstn_length, Nat.min_l by lia.
      rewrite nth_skipn. f_equal. lia.
    + rewrite firstn_all2 by lia. rewrite skipn_all2 by lia. rewrite app_nil_r.
      rewrite (proj2 (nth_error_None l k)) by lia. rewrite (proj2 (nth_error_None l (S k))) by lia. reflexivity.
Qed.

Lemma nth_error_insert_at {A} sd (x : A) (l : list A) k : (sd <= List.length l)%nat ->
  nth_error (insert_at sd x l) k =
  if (k <? sd)%nat then nth_error l k else if Nat.eqb k sd then Some x else nth_error l (k - 1).
Proof.
  intros H. unfold insert_at. destruct (k <? sd)%nat eqn:E.
  - apply Nat.ltb_lt in E. rewrite nth_error_app1 by (rewrite firstn_length; lia). apply nth_firstn. exact E.
  - apply Nat.ltb_ge in E. rewrite nth_error_app2 by (rewrite firstn_length; lia).
    rewrite firstn_length, Nat.min_l by lia. destruct (Nat.eqb k sd) eqn:E2.
    + apply Nat.eqb_eq in E2. subst. rewrite Nat.sub_diag. reflexivity.
    + apply Nat.eqb_neq in E2. replace (k - sd)%nat with (S (k - sd - 1)) by lia. cbn [nth_error].
      rewrite nth_skipn. f_equal. lia.
Qed.

Lemma length_remove_at {A} sd (l : list A) : (sd < List.length l)%nat -> List.length (remove_at sd l) = (List.length l - 1)%nat.
Proof. intros H. unfold remove_at. rewrite app_length, firstn_length, skipn_length. lia. Qed.

(* swap_nth by its nth_error *)
Lemma nth_error_combine_seq (l : list Z) : forall start k,
  nth_error (combine (seq start (List.length l)) l) k = option_map (fun x => ((start + k)%nat, x)) (nth_error l k).
Proof.
  induction l as [|x l IH]; intros start k; cbn [List.length seq combine].
  - destruct k; reflexivity.
  - destruct k as [|k]; cbn [nth_error option_map]; [rewrite Nat.add_0_r; reflexivity|].
    rewrite IH. replace (S start + k)%nat with (start + S k)%nat by lia. reflexivity.
Qed.

Lemma swap_nth_spec d0 d1 l l' : swap_nth d0 d1 l = Some l' ->
  List.length l' = List.length l /\
  forall k, nth_error l' k = if Nat.eqb k d0 then nth_error l d1 else if Nat.eqb k d1 then nth_error l d0 else nth_error l k.
Proof.
  unfold swap_nth. destruct (nth_error l d0) as [x|] eqn:E0; [|discriminate].
  destruct (nth_error l d1) as [y|] eqn:E1; [|discriminate]. intros H. inversion H; subst l'. clear H. split.
  - rewrite map_length, combine_length, seq_length. lia.
  - intros k. rewrite nth_error_map, nth_error_combine_seq. cbn [Nat.add].
    destruct (nth_error l k) as [z|] eqn:Ek; cbn [option_map fst snd].
    + destruct (Nat.eqb k d0) eqn:Ea; [reflexivity|]. destruct (Nat.eqb k d1); reflexivity.
    + destruct (Nat.eqb k d0) eqn:Ea.
      * apply Nat.eqb_eq in Ea. subst. congruence.
      * destruct (Nat.eqb k d1) eqn:Eb; [apply Nat.eqb_eq in Eb; subst; congruence|reflexivity].
Qed.

Lemma swap_nth_some d0 d1 (l : list Z) : (d0 < List.length l)%nat -> (d1 < List.length l)%nat -> exists l', swap_nth d0 d1 l = Some l'.
Proof.
  intros H0 H1. unfold swap_nth.
  destruct (nth_error l d0) eqn:E0; [|apply nth_error_None in E0; lia].
  destruct (nth_error l d1) eqn:E1; [|apply nth_error_None in E1; lia]. eauto.
Qed.

Lemma nth_error_ge {A} (l : list A) k : (List.length l <= k)%nat -> nth_error l k = None.
Proof. apply nth_error_None. Qed.

(* ---------- semantics of a stack of transposed members *)
Lemma at_transp d0 d1 x I : at_ (Transp d0 d1 x) I = opt_bind (swap_nth d0 d1 I) (at_ x).
Proof. reflexivity. Qed.

Lemma nthZ_map {A B} (f : A -> B) l k : nthZ (map f l) k = option_map f (nthZ l k).
Proof. unfold nthZ. destruct (k <? 0); [reflexivity|]. apply nth_error_map. Qed.

Section Transpose.
  Variables (sd : nat) (bs0 : list Z) (parts : list arr) (bs : list Z).
  Hypothesis Hne : parts <> [].
  Hypothesis Hshape : Forall (fun p => shape_of p = Some bs) parts.
  Hypothesis Hplain : Forall (fun p => is_stack p = false) parts.
  Hypothesis Hsd : (sd <= List.length bs)%nat.
  Let self := Stack sd bs0 parts.
  Let shape := insert_at sd (lenZ parts) bs.
  Let rank := S (List.length bs).

  Lemma shape_self_t : shape_of self = Some shape.
  Proof. apply shape_of_stack; assumption. Qed.

  (* the stack of the members transposed on (a0, a1), stacked along nsd, is the dense transpose (d0, d1) whenever the
     coordinate maps agree *)
  Lemma stack_transp_equiv nsd a0 a1 d0 d1 :
    (d0 < rank)%nat -> (d1 < rank)%nat -> (a0 < List.length bs)%nat -> (a1 < List.length bs)%nat -> (nsd <= List.length bs)%nat ->
    (forall (I I' : list Z), List.length I = rank -> swap_nth d0 d1 I = Some I' ->
       nth_error I nsd = nth_error I' sd /\ swap_nth a0 a1 (remove_at nsd I) = Some (remove_at sd I')) ->
    (forall sh', swap_nth a0 a1 bs = Some sh' -> swap_nth d0 d1 shape = Some (insert_at nsd (lenZ parts) sh')) ->
    equiv_in (Stack nsd bs0 (map (fun m => Transp a0 a1 m) parts)) (Transp d0 d1 self).
  Proof.
    intros Hd0 Hd1 Ha0 Ha1 Hnsd Hcoord Hshp.
    destruct (swap_nth_some a0 a1 bs Ha0 Ha1) as [sh' Esh'].
    assert (Hsh'len : List.length sh' = List.length bs) by (apply (swap_nth_spec _ _ _ _ Esh')).
    assert (HshapeT : Forall (fun p => shape_of p = Some sh') (map (fun m => Transp a0 a1 m) parts)).
    { apply Forall_forall. intros p Hp. apply in_map_iff in Hp. destruct Hp as [m [Em Hm]]. subst p.
      cbn [shape_of]. rewrite (proj1 (Forall_forall _ _) Hshape m Hm). exact Esh'. }
    assert (HneT : map (fun m => Transp a0 a1 m) parts <> []) by (destruct parts; [congruence|discriminate]).
    split.
    - rewrite (shape_of_stack nsd bs0 _ sh' HneT HshapeT) by lia.
      cbn [shape_of]. fold self. rewrite shape_self_t. cbn [opt_bind].
      rewrite (Hshp sh' Esh'). unfold lenZ. rewrite map_length. reflexivity.
    - intros sh I Hsh Hin.
      cbn [shape_of] in Hsh. fold self in Hsh. rewrite shape_self_t in Hsh. cbn [opt_bind] in Hsh.
      pose proof (in_range_length _ _ Hin) as HL.
      assert (HLI : List.length I = rank).
      { rewrite HL. rewrite (proj1 (swap_nth_spec _ _ _ _ Hsh)). unfold shape. rewrite insert_at_length by exact Hsd. reflexivity. }
      rewrite at_transp. destruct (swap_nth_some d0 d1 I ltac:(lia) ltac:(lia)) as [I' EI']. rewrite EI'. cbn [opt_bind].
      destruct (Hcoord I I' HLI EI') as [Hk Hrem].
      rewrite at_stack. unfold self. rewrite at_stack. rewrite Hk.
      destruct (nth_error I' sd) as [k|]; [|reflexivity].
      rewrite nthZ_map. destruct (nthZ parts k) as [m|]; [|reflexivity]. cbn [option_map].
      rewrite at_transp, Hrem. reflexivity.
  Qed.
End Transpose.

(* ---------- coordinate facts, proved pointwise on nth_error *)
Ltac nat_cases :=
  repeat match goal with
         | |- context [Nat.ltb ?a ?b] => let E := fresh "E" in destruct (Nat.ltb a b) eqn:E; [apply Nat.ltb_lt in E|apply Nat.ltb_ge in E]
         end;
  repeat match goal with
         | |- context [Nat.eqb ?a ?b] => let E := fresh "E" in destruct (Nat.eqb a b) eqn:E; [apply Nat.eqb_eq in E|apply Nat.eqb_neq in E]
         | |- context [Nat.ltb ?a ?b] => let E := fresh "E" in destruct (Nat.ltb a b) eqn:E; [apply Nat.ltb_lt in E|apply Nat.ltb_ge in E]
         end.

Lemma swap_eq a0 a1 (L L' : list Z) :
  (a0 < List.length L)%nat -> (a1 < List.length L)%nat ->
  (forall k, nth_error L' k = if Nat.eqb k a0 then nth_error L a1 else if Nat.eqb k a1 then nth_error L a0 else nth_error L k) ->
  swap_nth a0 a1 L = Some L'.
Proof.
  intros H0 H1 H. destruct (swap_nth_some a0 a1 L H0 H1) as [L'' E]. rewrite E. f_equal.
  apply list_ext. intros k. rewrite (proj2 (swap_nth_spec _ _ _ _ E) k), H. reflexivity.
Qed.

Section Coord.
  Variables (rank : nat) (I I' : list Z) (d0 d1 : nat).
  Hypothesis HL : List.length I = rank.
  Hypothesis Hd : (d0 < d1 < rank)%nat.
  Hypothesis HS : swap_nth d0 d1 I = Some I'.

  Let HI' := proj2 (swap_nth_spec _ _ _ _ HS).
  Let HL' := proj1 (swap_nth_spec _ _ _ _ HS).

  (* neither dim is the stack dim *)
  Lemma coord_other sd : sd <> d0 -> sd <> d1 -> (sd < rank)%nat ->
    let a0 := if (d0 <? sd)%nat then d0 else (d0 - 1)%nat in
    let a1 := if (d1 <? sd)%nat then d1 else (d1 - 1)%nat in
    nth_error I sd = nth_error I' sd /\ swap_nth a0 a1 (remove_at sd I) = Some (remove_at sd I').
  Proof.
    intros H0 H1 Hs a0 a1. split.
    - rewrite HI'. nat_cases; try lia; reflexivity.
    - apply swap_eq; try (rewrite length_remove_at by lia; subst a0 a1; nat_cases; lia).
      intros k. rewrite !nth_error_remove_at, !HI'. subst a0 a1.
      nat_cases; try lia; try reflexivity; f_equal; lia.
  Qed.

  (* dim0 is the stack dim, dim1 two further: members transpose (sd, sd+1), new stack dim d1 *)
  Lemma coord_d0_two : d1 = (d0 + 2)%nat ->
    nth_error I d1 = nth_error I' d0 /\ swap_nth d0 (d0 + 1) (remove_at d1 I) = Some (remove_at d0 I').
  Proof.
    intros E. split.
    - rewrite HI'. nat_cases; try lia; reflexivity.
    - apply swap_eq; try (rewrite length_remove_at by lia; lia).
      intros k. rewrite !nth_error_remove_at, !HI'.
      nat_cases; try lia; try reflexivity; f_equal; lia.
  Qed.

  (* adjacent dims, one of them the stack dim: members untouched, the stack dim moves *)
  Lemma coord_adjacent : d1 = S d0 ->
    nth_error I d1 = nth_error I' d0 /\ remove_at d1 I = remove_at d0 I' /\
    nth_error I d0 = nth_error I' d1 /\ remove_at d0 I = remove_at d1 I'.
  Proof.
    intros E. repeat split.
    - rewrite HI'. nat_cases; try lia; reflexivity.
    - apply list_ext. intros k. rewrite !nth_error_remove_at, !HI'. nat_cases; try lia; try reflexivity; f_equal; lia.
    - rewrite HI'. nat_cases; try lia; reflexivity.
    - apply list_ext. intros k. rewrite !nth_error_remove_at, !HI'. nat_cases; try lia; try reflexivity; f_equal; lia.
  Qed.
End Coord.

Section ShapeFacts.
  Variables (bs : list Z) (n : Z) (d0 d1 : nat).
  Let rank := S (List.length bs).
  Hypothesis Hd : (d0 < d1 < rank)%nat.

  Lemma shape_other sd sh' : sd <> d0 -> sd <> d1 -> (sd <= List.length bs)%nat ->
    let a0 := if (d0 <? sd)%nat then d0 else (d0 - 1)%nat in
    let a1 := if (d1 <? sd)%nat then d1 else (d1 - 1)%nat in
    swap_nth a0 a1 bs = Some sh' -> swap_nth d0 d1 (insert_at sd n bs) = Some (insert_at sd n sh').
  Proof.
    intros H0 H1 Hs a0 a1 E. pose proof (swap_nth_spec _ _ _ _ E) as [HLs Hn].
    apply swap_eq; try (rewrite insert_at_length by lia; unfold rank in Hd; lia).
    intros k. rewrite !nth_error_insert_at by lia. rewrite !Hn. subst a0 a1.
    nat_cases; try lia; try reflexivity; f_equal; lia.
  Qed.

  Lemma shape_d0_two sh' : d1 = (d0 + 2)%nat ->
    swap_nth d0 (d0 + 1) bs = Some sh' -> swap_nth d0 d1 (insert_at d0 n bs) = Some (insert_at d1 n sh').
  Proof.
    intros Ed E. pose proof (swap_nth_spec _ _ _ _ E) as [HLs Hn].
    apply swap_eq; try (rewrite insert_at_length by (unfold rank in Hd; lia); unfold rank in Hd; lia).
    intros k. unfold rank in Hd. rewrite !nth_error_insert_at by lia. rewrite !Hn.
    nat_cases; try lia; try reflexivity; f_equal; lia.
  Qed.

  Lemma shape_adjacent : d1 = S d0 ->
    swap_nth d0 d1 (insert_at d0 n bs) = Some (insert_at d1 n bs) /\
    swap_nth d0 d1 (insert_at d1 n bs) = Some (insert_at d0 n bs).
  Proof.
    intros Ed. unfold rank in Hd. split; apply swap_eq; try (rewrite insert_at_length by lia; lia);
      intros k; rewrite !nth_error_insert_at by lia; nat_cases; try lia; try reflexivity; f_equal; lia.
  Qed.
End ShapeFacts.

Lemma rmap_map_ok {A B} (f : A -> res B) (g : A -> B) l : (forall x, In x l -> f x = Ok (g x)) -> rmap f l = Ok (map g l).
Proof.
  induction l as [|x l IH]; intros H; [reflexivity|]. cbn. rewrite (H x) by (left; reflexivity). cbn.
  rewrite IH by (intros; apply H; right; assumption). reflexivity.
Qed.

(* ---------- permutations given as  map f (seq 0 n)  with an explicit inverse g *)
Lemma index_of_map_seq (f : nat -> nat) (g : nat -> nat) d : forall len s k,
  (forall j, (s <= j < s + len)%nat -> f j = d -> j = g d) -> (s <= g d < s + len)%nat -> f (g d) = d ->
  index_of d (map f (seq s len)) k = Some (k + (g d - s))%nat.
Proof.
  induction len as [|len IH]; intros s k Hinj Hr Hf; [lia|]. cbn [seq map index_of].
  destruct (Nat.eqb (f s) d) eqn:E.
  - apply Nat.eqb_eq in E. rewrite <- (Hinj s ltac:(lia) E). f_equal. lia.
  - apply Nat.eqb_neq in E. assert (g d <> s) by (intros C; subst s; contradiction).
    rewrite IH; [f_equal; lia| |lia|exact Hf]. intros j Hj. apply Hinj. lia.
Qed.

Lemma all_some_map {A B} (F : A -> option B) (G : A -> B) l : (forall x, In x l -> F x = Some (G x)) -> all_some (map F l) = Some (map G l).
Proof.
  induction l as [|x l IH]; intros H; [reflexivity|]. cbn [map all_some]. rewrite (H x) by (left; reflexivity).
  rewrite IH by (intros; apply H; right; assumption). reflexivity.
Qed.

Section PermFG.
  Variables (n : nat) (f g : nat -> nat).
  Hypothesis Hfg : forall d, (d < n)%nat -> (g d < n)%nat /\ f (g d) = d.
  Hypothesis Hinj : forall j d, (j < n)%nat -> (d < n)%nat -> f j = d -> j = g d.
  Hypothesis Hfr : forall k, (k < n)%nat -> (f k < n)%nat.
  Let p := map f (seq 0 n).

  Lemma p_length : List.length p = n. Proof. unfold p. rewrite map_length, seq_length. reflexivity. Qed.

  Lemma p_index d : (d < n)%nat -> index_of d p 0 = Some (g d).
  Proof.
    intros Hd. unfold p. destruct (Hfg d Hd) as [Hg Hf].
    rewrite (index_of_map_seq f g d n 0 0); [f_equal; lia| |lia|exact Hf].
    intros j Hj Hfj. apply Hinj; (lia || assumption).
  Qed.

  Lemma p_is_perm : is_perm p = true.
  Proof.
    unfold is_perm. rewrite p_length. apply forallb_forall. intros d Hd. apply in_seq in Hd. rewrite p_index by lia. reflexivity.
  Qed.

  Lemma perm_src_fg (L : list Z) : List.length L = n ->
    exists J, perm_src p L = Some J /\ List.length J = n /\ forall d, (d < n)%nat -> nth_error J d = nth_error L (g d).
  Proof.
    intros HL. unfold perm_src. rewrite p_length, HL, Nat.eqb_refl, p_is_perm. cbn [andb].
    exists (map (fun d => nth (g d) L 0) (seq 0 n)).
    split; [|split].
    - apply all_some_map. intros d Hd. apply in_seq in Hd. rewrite p_index by lia. cbn [opt_bind].
      apply nth_error_nth'. rewrite HL. apply (Hfg d). lia.
    - rewrite map_length, seq_length. reflexivity.
    - intros d Hd. rewrite nth_error_map, nth_error_seq. replace (d <? n)%nat with true by (symmetry; apply Nat.ltb_lt; exact Hd).
      cbn [option_map Nat.add]. symmetry. apply nth_error_nth'. rewrite HL. apply (Hfg d). exact Hd.
  Qed.

  Lemma perm_shape_fg (sh : list Z) : List.length sh = n ->
    exists sh', perm_shape p sh = Some sh' /\ List.length sh' = n /\ forall k, (k < n)%nat -> nth_error sh' k = nth_error sh (f k).
  Proof.
    intros HL. unfold perm_shape. rewrite p_length, HL, Nat.eqb_refl, p_is_perm. cbn [andb].
    exists (map (fun k => nth (f k) sh 0) (seq 0 n)).
    split; [|split].
    - unfold p. rewrite map_map. apply all_some_map. intros k Hk. apply in_seq in Hk.
      apply nth_error_nth'. rewrite HL. apply Hfr. lia.
    - rewrite map_length, seq_length. reflexivity.
    - intros k Hk. rewrite nth_error_map, nth_error_seq. replace (k <? n)%nat with true by (symmetry; apply Nat.ltb_lt; exact Hk).
      cbn [option_map Nat.add]. symmetry. apply nth_error_nth'. rewrite HL. apply Hfr. exact Hk.
  Qed.
End PermFG.

(* the two rotations of _transpose (fix C08-D26) and their inverses *)
Definition rotf (lo hi : nat) (left : bool) (k : nat) : nat :=
  if ((k <? lo) || (hi <? k))%nat then k
  else if left then (if Nat.eqb k hi then lo else S k) else (if Nat.eqb k lo then hi else (k - 1)%nat).
Definition rotg (lo hi : nat) (left : bool) (d : nat) : nat := rotf lo hi (negb left) d.
Lemma rot_perm_rotf n lo hi left : rot_perm n lo hi left = map (rotf lo hi left) (seq 0 n).
Proof. reflexivity. Qed.

Ltac bool_cases :=
  repeat match goal with
         | |- context [(?a || ?b)%bool] => let E := fresh "E" in destruct (a || b)%bool eqn:E;
               [apply orb_true_iff in E; destruct E as [E|E]; [apply Nat.ltb_lt in E|apply Nat.ltb_lt in E]
               |apply orb_false_iff in E; destruct E as [E E']; apply Nat.ltb_ge in E; apply Nat.ltb_ge in E']
         end.

Lemma rot_fg n lo hi left : (lo <= hi < n)%nat ->
  (forall d, (d < n)%nat -> (rotg lo hi left d < n)%nat /\ rotf lo hi left (rotg lo hi left d) = d) /\
  (forall j d, (j < n)%nat -> (d < n)%nat -> rotf lo hi left j = d -> j = rotg lo hi left d) /\
  (forall k, (k < n)%nat -> (rotf lo hi left k < n)%nat).
Proof.
  intros H. unfold rotg, rotf. destruct left; cbn [negb]; repeat split; intros;
    repeat match goal with
           | |- context [if ?c then _ else _] => let E := fresh "E" in destruct c eqn:E
           | H : context [if ?c then _ else _] |- _ => let E := fresh "E" in destruct c eqn:E
           end;
    repeat match goal with
           | E : (_ || _)%bool = true |- _ => apply orb_true_iff in E; destruct E as [E|E]
           | E : (_ || _)%bool = false |- _ => apply orb_false_iff in E; destruct E as [? ?]
           | E : (_ <? _)%nat = true |- _ => apply Nat.ltb_lt in E
           | E : (_ <? _)%nat = false |- _ => apply Nat.ltb_ge in E
           | E : Nat.eqb _ _ = true |- _ => apply Nat.eqb_eq in E
           | E : Nat.eqb _ _ = false |- _ => apply Nat.eqb_neq in E
           end; lia.
Qed.

Ltac if_cases :=
  repeat match goal with
         | |- context [if ?c then _ else _] =>
             lazymatch c with
             | context [if _ then _ else _] => fail
             | _ => let E := fresh "E" in destruct c eqn:E
             end
         end.
Ltac bool_hyps :=
  repeat match goal with
         | E : (_ || _)%bool = true |- _ => apply orb_true_iff in E; destruct E as [E|E]
         | E : (_ || _)%bool = false |- _ => apply orb_false_iff in E; destruct E as [? ?]
         | E : (_ <? _)%nat = true |- _ => apply Nat.ltb_lt in E
         | E : (_ <? _)%nat = false |- _ => apply Nat.ltb_ge in E
         | E : Nat.eqb _ _ = true |- _ => apply Nat.eqb_eq in E
         | E : Nat.eqb _ _ = false |- _ => apply Nat.eqb_neq in E
         end.
Ltac rot_cases := unfold rotg; cbn [negb]; unfold rotf; if_cases; bool_hyps.

Lemma nth_total {A} (J : list A) n (F : nat -> option A) :
  List.length J = n -> (forall d, (d < n)%nat -> nth_error J d = F d) ->
  forall d, nth_error J d = if (d <? n)%nat then F d else None.
Proof.
  intros HL H d. destruct (d <? n)%nat eqn:E; [apply Nat.ltb_lt in E; apply H; exact E|].
  apply Nat.ltb_ge in E. apply nth_error_None. lia.
Qed.

(* what rot_perm does to a coordinate list / a shape of the right length *)
Lemma rot_src n lo hi left (L : list Z) : (lo <= hi < n)%nat -> List.length L = n ->
  exists J, perm_src (rot_perm n lo hi left) L = Some J /\ List.length J = n /\
            forall d, nth_error J d = if (d <? n)%nat then nth_error L (rotg lo hi left d) else None.
Proof.
  intros H HL. destruct (rot_fg n lo hi left H) as [A [B C]]. rewrite rot_perm_rotf.
  destruct (perm_src_fg n (rotf lo hi left) (rotg lo hi left) A B C L HL) as [J [E [LJ HJ]]].
  exists J. split; [exact E|]. split; [exact LJ|]. apply nth_total; assumption.
Qed.
Lemma rot_shape n lo hi left (sh : list Z) : (lo <= hi < n)%nat -> List.length sh = n ->
  exists sh', perm_shape (rot_perm n lo hi left) sh = Some sh' /\ List.length sh' = n /\
              forall k, nth_error sh' k = if (k <? n)%nat then nth_error sh (rotf lo hi left k) else None.
Proof.
  intros H HL. destruct (rot_fg n lo hi left H) as [A [B C]]. rewrite rot_perm_rotf.
  destruct (perm_shape_fg n (rotf lo hi left) (rotg lo hi left) A B C sh HL) as [sh' [E [LJ HJ]]].
  exists sh'. split; [exact E|]. split; [exact LJ|]. apply nth_total; assumption.
Qed.

Lemma rot_right_facts (bs : list Z) lo hi : (lo <= hi < List.length bs)%nat ->
  exists sh', perm_shape (rot_perm (List.length bs) lo hi false) bs = Some sh' /\ List.length sh' = List.length bs.
Proof. intros H. destruct (rot_shape _ lo hi false bs H eq_refl) as [sh' [E [L _]]]. eauto. Qed.
Lemma rot_left_facts (bs : list Z) lo hi : (lo <= hi < List.length bs)%nat ->
  exists sh', perm_shape (rot_perm (List.length bs) lo hi true) bs = Some sh' /\ List.length sh' = List.length bs.
Proof. intros H. destruct (rot_shape _ lo hi true bs H eq_refl) as [sh' [E [L _]]]. eauto. Qed.

Lemma nth_error_remove_total {A} sd (l : list A) k :
  nth_error (remove_at sd l) k = if (k <? sd)%nat then nth_error l k else nth_error l (S k).
Proof. apply nth_error_remove_at. Qed.

(* dim0 is the stack dim, dim1 >= dim0 + 2: members rotated right on [sd, d1-1], new stack dim d1 *)
Lemma coord_rot_d0 n (I I' : list Z) sd d1 : List.length I = S n -> (sd + 2 <= d1)%nat -> (d1 <= n)%nat ->
  swap_nth sd d1 I = Some I' ->
  nth_error I d1 = nth_error I' sd /\ perm_src (rot_perm n sd (d1 - 1) false) (remove_at d1 I) = Some (remove_at sd I').
Proof.
  intros HL H1 H2 HS. pose proof (swap_nth_spec _ _ _ _ HS) as [HL' HI']. split.
  - rewrite HI'. nat_cases; try lia; reflexivity.
  - destruct (rot_src n sd (d1 - 1) false (remove_at d1 I) ltac:(lia) ltac:(rewrite length_remove_at; lia)) as [J [E [LJ HJ]]].
    rewrite E. f_equal. apply list_ext. intros d. rewrite HJ, !nth_error_remove_at, !HI'.
    destruct (d <? n)%nat eqn:Ed; [apply Nat.ltb_lt in Ed|apply Nat.ltb_ge in Ed].
    + rot_cases; try lia; try reflexivity; f_equal; lia.
    + nat_cases; try lia; symmetry; apply nth_error_None; lia.
Qed.

Lemma shape_rot_d0 (bs : list Z) N sd d1 sh' : (sd + 2 <= d1)%nat -> (d1 <= List.length bs)%nat ->
  perm_shape (rot_perm (List.length bs) sd (d1 - 1) false) bs = Some sh' ->
  swap_nth sd d1 (insert_at sd N bs) = Some (insert_at d1 N sh').
Proof.
  intros H1 H2 E. destruct (rot_shape (List.length bs) sd (d1 - 1) false bs ltac:(lia) eq_refl) as [sh'' [E' [L Hn]]].
  rewrite E in E'. inversion E'; subst sh''. clear E'.
  apply swap_eq; try (rewrite insert_at_length by lia; lia).
  intros k. rewrite !nth_error_insert_at by lia. rewrite !Hn.
  rot_cases; try lia; try reflexivity; try (f_equal; lia); try (symmetry; apply nth_error_None; lia); apply nth_error_None; lia.
Qed.

(* dim1 is the stack dim, dim0 <= dim1 - 2: members rotated left on [d0, sd-1], new stack dim d0 *)
Lemma coord_rot_d1 n (I I' : list Z) d0 sd : List.length I = S n -> (d0 + 2 <= sd)%nat -> (sd <= n)%nat ->
  swap_nth d0 sd I = Some I' ->
  nth_error I d0 = nth_error I' sd /\ perm_src (rot_perm n d0 (sd - 1) true) (remove_at d0 I) = Some (remove_at sd I').
Proof.
  intros HL H1 H2 HS. pose proof (swap_nth_spec _ _ _ _ HS) as [HL' HI']. split.
  - rewrite HI'. nat_cases; try lia; reflexivity.
  - destruct (rot_src n d0 (sd - 1) true (remove_at d0 I) ltac:(lia) ltac:(rewrite length_remove_at; lia)) as [J [E [LJ HJ]]].
    rewrite E. f_equal. apply list_ext. intros d. rewrite HJ, !nth_error_remove_at, !HI'.
    destruct (d <? n)%nat eqn:Ed; [apply Nat.ltb_lt in Ed|apply Nat.ltb_ge in Ed].
    + rot_cases; try lia; try reflexivity; f_equal; lia.
    + nat_cases; try lia; symmetry; apply nth_error_None; lia.
Qed.

Lemma shape_rot_d1 (bs : list Z) N d0 sd sh' : (d0 + 2 <= sd)%nat -> (sd <= List.length bs)%nat ->
  perm_shape (rot_perm (List.length bs) d0 (sd - 1) true) bs = Some sh' ->
  swap_nth d0 sd (insert_at sd N bs) = Some (insert_at d0 N sh').
Proof.
  intros H1 H2 E. destruct (rot_shape (List.length bs) d0 (sd - 1) true bs ltac:(lia) eq_refl) as [sh'' [E' [L Hn]]].
  rewrite E in E'. inversion E'; subst sh''. clear E'.
  apply swap_eq; try (rewrite insert_at_length by lia; lia).
  intros k. rewrite !nth_error_insert_at by lia. rewrite !Hn.
  rot_cases; try lia; try reflexivity; try (f_equal; lia); try (symmetry; apply nth_error_None; lia); apply nth_error_None; lia.
Qed.

Lemma at_perm p x I : at_ (Perm p x) I = opt_bind (perm_src p I) (at_ x).
Proof. reflexivity. Qed.

Section StackPerm.
  Variables (sd : nat) (bs0 : list Z) (parts : list arr) (bs : list Z).
  Hypothesis Hne : parts <> [].
  Hypothesis Hshape : Forall (fun p => shape_of p = Some bs) parts.
  Hypothesis Hsd : (sd <= List.length bs)%nat.
  Let self := Stack sd bs0 parts.
  Let shape := insert_at sd (lenZ parts) bs.
  Let rank := S (List.length bs).

  Lemma stack_perm_equiv nsd p d0 d1 :
    (d0 < rank)%nat -> (d1 < rank)%nat -> (nsd <= List.length bs)%nat ->
    (exists sh', perm_shape p bs = Some sh' /\ List.length sh' = List.length bs) ->
    (forall (I I' : list Z), List.length I = rank -> swap_nth d0 d1 I = Some I' ->
       nth_error I nsd = nth_error I' sd /\ perm_src p (remove_at nsd I) = Some (remove_at sd I')) ->
    (forall sh', perm_shape p bs = Some sh' -> swap_nth d0 d1 shape = Some (insert_at nsd (lenZ parts) sh')) ->
    equiv_in (Stack nsd bs0 (map (fun m => Perm p m) parts)) (Transp d0 d1 self).
  Proof.
    intros Hd0 Hd1 Hnsd [sh' [Esh' Hsh'len]] Hcoord Hshp.
    assert (Hself : shape_of self = Some shape) by (apply shape_of_stack; assumption).
    assert (HshapeT : Forall (fun q => shape_of q = Some sh') (map (fun m => Perm p m) parts)).
    { apply Forall_forall. intros q Hq. apply in_map_iff in Hq. destruct Hq as [m [Em Hm]]. subst q.
      cbn [shape_of]. rewrite (proj1 (Forall_forall _ _) Hshape m Hm). exact Esh'. }
    assert (HneT : map (fun m => Perm p m) parts <> []) by (destruct parts; [congruence|discriminate]).
    split.
    - rewrite (shape_of_stack nsd bs0 _ sh' HneT HshapeT) by lia.
      cbn [shape_of]. fold self. rewrite Hself. cbn [opt_bind].
      rewrite (Hshp sh' Esh'). unfold lenZ. rewrite map_length. reflexivity.
    - intros sh I Hsh Hin.
      cbn [shape_of] in Hsh. fold self in Hsh. rewrite Hself in Hsh. cbn [opt_bind] in Hsh.
      pose proof (in_range_length _ _ Hin) as HL.
      assert (HLI : List.length I = rank).
      { rewrite HL. rewrite (proj1 (swap_nth_spec _ _ _ _ Hsh)). unfold shape. rewrite insert_at_length by exact Hsd. reflexivity. }
      rewrite at_transp. destruct (swap_nth_some d0 d1 I ltac:(lia) ltac:(lia)) as [I' EI']. rewrite EI'. cbn [opt_bind].
      destruct (Hcoord I I' HLI EI') as [Hk Hrem].
      rewrite at_stack. unfold self. rewrite at_stack. rewrite Hk.
      destruct (nth_error I' sd) as [k|]; [|reflexivity].
      rewrite nthZ_map. destruct (nthZ parts k) as [m|]; [|reflexivity]. cbn [option_map].
      rewrite at_perm, Hrem. reflexivity.
  Qed.
End StackPerm.

Section TransposeThm.
  Variables (sd : nat) (bs0 : list Z) (parts : list arr) (bs : list Z).
  Hypothesis Hne : parts <> [].
  Hypothesis Hshape : Forall (fun p => shape_of p = Some bs) parts.
  Hypothesis Hplain : Forall (fun p => is_stack p = false) parts.
  Hypothesis Hsd : (sd <= List.length bs)%nat.
  Let self := Stack sd bs0 parts.
  Let rank := S (List.length bs).

  Lemma stack_restack_equiv nsd d0 d1 :
    (d0 < d1 < rank)%nat -> (nsd <= List.length bs)%nat ->
    (forall (I I' : list Z), List.length I = rank -> swap_nth d0 d1 I = Some I' ->
       nth_error I nsd = nth_error I' sd /\ remove_at nsd I = remove_at sd I') ->
    swap_nth d0 d1 (insert_at sd (lenZ parts) bs) = Some (insert_at nsd (lenZ parts) bs) ->
    equiv_in (Stack nsd bs0 parts) (Transp d0 d1 self).
  Proof.
    intros Hd Hnsd Hcoord Hshp. split.
    - rewrite (shape_of_stack nsd bs0 parts bs Hne Hshape Hnsd).
      cbn [shape_of]. fold self. unfold self. rewrite (shape_of_stack sd bs0 parts bs Hne Hshape Hsd). cbn [opt_bind].
      symmetry. exact Hshp.
    - intros sh I Hsh Hin.
      cbn [shape_of] in Hsh. unfold self in Hsh. rewrite (shape_of_stack sd bs0 parts bs Hne Hshape Hsd) in Hsh. cbn [opt_bind] in Hsh.
      pose proof (in_range_length _ _ Hin) as HL.
      assert (HLI : List.length I = rank).
      { rewrite HL. rewrite (proj1 (swap_nth_spec _ _ _ _ Hsh)). rewrite insert_at_length by exact Hsd. reflexivity. }
      rewrite at_transp. destruct (swap_nth_some d0 d1 I ltac:(lia) ltac:(lia)) as [I' EI']. rewrite EI'. cbn [opt_bind].
      destruct (Hcoord I I' HLI EI') as [Hk Hrem].
      rewrite at_stack. unfold self. rewrite at_stack. rewrite Hk, Hrem. reflexivity.
  Qed.

  (* lazy.transpose(d0, d1) = dense.transpose(d0, d1): every rank, every stack dim, every pair of dims
     (after fix C08-D26 the members are permuted when the stack dim is one of two non-adjacent dims) *)
  Theorem transpose_full fuel d0 d1 a' :
    (d0 < d1 < rank)%nat ->
    lz_transpose (S fuel) self (Z.of_nat d0) (Z.of_nat d1) = Ok a' ->
    equiv_in a' (Transp d0 d1 self).
  Proof.
    intros Hd H. cbn [lz_transpose] in H. fold self in H. unfold self in H.
    rewrite (shape_of_stack sd bs0 parts bs Hne Hshape Hsd) in H.
    rewrite insert_at_length in H by exact Hsd. fold rank in H.
    unfold norm_dim in H.
    replace (Z.of_nat d0 <? 0) with false in H by lia. replace (Z.of_nat d1 <? 0) with false in H by lia.
    replace ((Z.of_nat d0 <? 0) || (Z.of_nat rank <=? Z.of_nat d0)) with false in H by lia.
    replace ((Z.of_nat d1 <? 0) || (Z.of_nat rank <=? Z.of_nat d1)) with false in H by lia.
    rewrite !Nat2Z.id in H. cbn [rbind fst snd] in H.
    rewrite Nat.min_l, Nat.max_r in H by lia.
    replace (Nat.eqb d0 d1) with false in H by (symmetry; apply Nat.eqb_neq; lia).
    unfold fixed_D26 in H. cbn [andb] in H. unfold lz_transpose_plan in H.
    destruct (Nat.eqb d0 sd) eqn:E0.
    - apply Nat.eqb_eq in E0. subst d0. cbn [orb] in H.
      destruct (Nat.eqb (S sd) d1) eqn:E1.
      + apply Nat.eqb_eq in E1. cbn [negb] in H.
        replace (Nat.eqb d1 (S sd)) with true in H by (symmetry; apply Nat.eqb_eq; lia).
        inversion H; subst a'. clear H.
        apply stack_restack_equiv; try (unfold rank in *; lia).
        * intros I I' HL HS. destruct (coord_adjacent rank I I' sd d1 HL Hd HS ltac:(lia)) as [A [B _]]. split; assumption.
        * apply (proj1 (shape_adjacent bs (lenZ parts) sd d1 Hd ltac:(lia))).
      + apply Nat.eqb_neq in E1. cbn [negb] in H.
        rewrite (rmap_map_ok _ (fun m => Perm (rot_perm (rank - 1) sd (d1 - 1) false) m)) in H by (intros; reflexivity).
        cbn [rbind] in H. inversion H; subst a'. clear H.
        apply (stack_perm_equiv sd bs0 parts bs Hne Hshape Hsd d1 (rot_perm (rank - 1) sd (d1 - 1) false) sd d1); try (unfold rank in *; lia).
        * replace (rank - 1)%nat with (List.length bs) by (unfold rank; lia).
          apply (rot_right_facts bs sd (d1 - 1)); unfold rank in Hd; lia.
        * intros I I' HL HS. replace (rank - 1)%nat with (List.length bs) by (unfold rank; lia).
          apply (coord_rot_d0 (List.length bs) I I' sd d1); unfold rank in *; try lia; assumption.
        * intros sh' Hsh'. replace (rank - 1)%nat with (List.length bs) in Hsh' by (unfold rank; lia).
          apply (shape_rot_d0 bs (lenZ parts) sd d1 sh'); unfold rank in *; try lia; assumption.
    - apply Nat.eqb_neq in E0. destruct (Nat.eqb d1 sd) eqn:E1.
      + apply Nat.eqb_eq in E1. subst d1. cbn [orb] in H.
        destruct (Nat.eqb (S d0) sd) eqn:E2.
        * apply Nat.eqb_eq in E2. cbn [negb] in H.
          inversion H; subst a'. clear H.
          apply stack_restack_equiv; try (unfold rank in *; lia).
          -- intros I I' HL HS. destruct (coord_adjacent rank I I' d0 sd HL Hd HS ltac:(lia)) as [_ [_ [A B]]]. split; assumption.
          -- apply (proj2 (shape_adjacent bs (lenZ parts) d0 sd Hd ltac:(lia))).
        * apply Nat.eqb_neq in E2. cbn [negb] in H.
          rewrite (rmap_map_ok _ (fun m => Perm (rot_perm (rank - 1) d0 (sd - 1) true) m)) in H by (intros; reflexivity).
          cbn [rbind] in H. inversion H; subst a'. clear H.
          apply (stack_perm_equiv sd bs0 parts bs Hne Hshape Hsd d0 (rot_perm (rank - 1) d0 (sd - 1) true) d0 sd); try (unfold rank in *; lia).
          -- replace (rank - 1)%nat with (List.length bs) by (unfold rank; lia).
             apply (rot_left_facts bs d0 (sd - 1)); unfold rank in Hd; lia.
          -- intros I I' HL HS. replace (rank - 1)%nat with (List.length bs) by (unfold rank; lia).
             apply (coord_rot_d1 (List.length bs) I I' d0 sd); unfold rank in *; try lia; assumption.
          -- intros sh' Hsh'. replace (rank - 1)%nat with (List.length bs) in Hsh' by (unfold rank; lia).
             apply (shape_rot_d1 bs (lenZ parts) d0 sd sh'); unfold rank in *; try lia; assumption.
      + apply Nat.eqb_neq in E1. cbn [orb andb] in H.
        set (a0 := if (d0 <? sd)%nat then d0 else (d0 - 1)%nat) in *.
        set (a1 := if (d1 <? sd)%nat then d1 else (d1 - 1)%nat) in *.
        assert (Ha : (a0 < a1 < List.length bs)%nat) by (subst a0 a1; unfold rank in Hd; nat_cases; lia).
        rewrite (rmap_map_ok _ (fun m => Transp a0 a1 m)) in H.
        2:{ intros m Hm. rewrite (proj1 (Forall_forall _ _) Hplain m Hm), (proj1 (Forall_forall _ _) Hshape m Hm).
            replace ((a0 <? List.length bs) && (a1 <? List.length bs))%nat with true
              by (symmetry; apply andb_true_intro; split; apply Nat.ltb_lt; lia).
            replace (Nat.eqb a0 a1) with false by (symmetry; apply Nat.eqb_neq; lia). reflexivity. }
        cbn [rbind] in H. inversion H; subst a'. clear H.
        apply (stack_transp_equiv sd bs0 parts bs Hne Hshape Hplain Hsd sd a0 a1 d0 d1); try (unfold rank in *; lia).
        * intros I I' HL HS. apply (coord_other rank I I' d0 d1 HL Hd HS sd); unfold rank in *; lia.
        * intros sh' Esh'. apply (shape_other bs (lenZ parts) d0 d1 Hd sd sh'); try lia. exact Esh'.
  Qed.
End TransposeThm.

(* ---------- unsqueeze *)
Lemma insert_insert_comm (bs : list Z) sd d n : (sd <= List.length bs)%nat -> (d <= S (List.length bs))%nat ->
  let md := if (sd <? d)%nat then (d - 1)%nat else d in
  let nsd := if (sd <? d)%nat then sd else S sd in
  insert_at nsd n (insert_at md 1 bs) = insert_at d 1 (insert_at sd n bs).
Proof.
  intros Hsd Hd md nsd. apply list_ext. intros k. subst md nsd.
  destruct (sd <? d)%nat eqn:E; [apply Nat.ltb_lt in E|apply Nat.ltb_ge in E].
  - rewrite (nth_error_insert_at sd n (insert_at (d - 1) 1 bs)) by (rewrite insert_at_length; lia).
    rewrite (nth_error_insert_at d 1 (insert_at sd n bs)) by (rewrite insert_at_length; lia).
    rewrite !nth_error_insert_at by lia. nat_cases; try lia; try reflexivity; f_equal; lia.
  - rewrite (nth_error_insert_at (S sd) n (insert_at d 1 bs)) by (rewrite insert_at_length; lia).
    rewrite (nth_error_insert_at d 1 (insert_at sd n bs)) by (rewrite insert_at_length; lia).
    rewrite !nth_error_insert_at by lia. nat_cases; try lia; try reflexivity; f_equal; lia.
Qed.

Lemma remove_remove_comm (I : list Z) sd d :
  let md := if (sd <? d)%nat then (d - 1)%nat else d in
  let nsd := if (sd <? d)%nat then sd else S sd in
  nth_error (remove_at nsd I) md = nth_error I d /\
  nth_error (remove_at d I) sd = nth_error I nsd /\
  remove_at md (remove_at nsd I) = remove_at sd (remove_at d I).
Proof.
  intros md nsd. subst md nsd.
  destruct (sd <? d)%nat eqn:E; [apply Nat.ltb_lt in E|apply Nat.ltb_ge in E]; repeat split.
  - rewrite nth_error_remove_at. nat_cases; try lia; try reflexivity; f_equal; lia.
  - rewrite nth_error_remove_at. nat_cases; try lia; try reflexivity; f_equal; lia.
  - apply list_ext. intros k. rewrite !nth_error_remove_at. nat_cases; try lia; try reflexivity; f_equal; lia.
  - rewrite nth_error_remove_at. nat_cases; try lia; try reflexivity; f_equal; lia.
  - rewrite nth_error_remove_at. nat_cases; try lia; try reflexivity; f_equal; lia.
  - apply list_ext. intros k. rewrite !nth_error_remove_at. nat_cases; try lia; try reflexivity; f_equal; lia.
Qed.

Section Unsqueeze.
  Variables (sd : nat) (bs0 : list Z) (parts : list arr) (bs : list Z).
  Hypothesis Hne : parts <> [].
  Hypothesis Hshape : Forall (fun p => shape_of p = Some bs) parts.
  Hypothesis Hplain : Forall (fun p => is_stack p = false) parts.
  Hypothesis Hsd : (sd <= List.length bs)%nat.
  Let self := Stack sd bs0 parts.

  (* lazy.unsqueeze(d) = dense.unsqueeze(d), every rank, every stack dim, every d (also negative spellings via norm) *)
  Theorem unsqueeze_ok fuel d a' :
    (d <= S (List.length bs))%nat ->
    lz_unsqueeze (S fuel) self (Z.of_nat d) = Ok a' -> equiv_in a' (Unsq d self).
  Proof.
    intros Hd H. cbn [lz_unsqueeze] in H. fold self in H. unfold self in H.
    rewrite (shape_of_stack sd bs0 parts bs Hne Hshape Hsd) in H.
    rewrite insert_at_length in H by exact Hsd.
    replace (Z.of_nat d <? 0) with false in H by lia.
    replace ((Z.of_nat (S (List.length bs)) <? Z.of_nat d) || (Z.of_nat d <? 0)) with false in H by lia.
    rewrite Nat2Z.id in H.
    set (md := if (sd <? d)%nat then (d - 1)%nat else d) in *.
    set (nsd := if (sd <? d)%nat then sd else S sd) in *.
    rewrite (rmap_map_ok _ (fun m => Unsq md m)) in H.
    2:{ intros m Hm. rewrite (proj1 (Forall_forall _ _) Hplain m Hm). reflexivity. }
    cbn [rbind] in H. inversion H; subst a'. clear H.
    assert (Hmd : (md <= List.length bs)%nat) by (subst md; nat_cases; lia).
    assert (HshapeU : Forall (fun p => shape_of p = Some (insert_at md 1 bs)) (map (fun m => Unsq md m) parts)).
    { apply Forall_forall. intros p Hp. apply in_map_iff in Hp. destruct Hp as [m [Em Hm]]. subst p.
      cbn [shape_of]. rewrite (proj1 (Forall_forall _ _) Hshape m Hm). cbn [opt_bind].
      replace (md <=? List.length bs)%nat with true by (symmetry; apply Nat.leb_le; exact Hmd). reflexivity. }
    assert (HneU : map (fun m => Unsq md m) parts <> []) by (destruct parts; [congruence|discriminate]).
    assert (Hnsd : (nsd <= List.length (insert_at md 1%Z bs))%nat) by (rewrite insert_at_length by exact Hmd; subst nsd; nat_cases; lia).
    split.
    - rewrite (shape_of_stack nsd bs0 _ _ HneU HshapeU Hnsd).
      cbn [shape_of]. fold self. unfold self. rewrite (shape_of_stack sd bs0 parts bs Hne Hshape Hsd). cbn [opt_bind].
      rewrite insert_at_length by exact Hsd.
      replace (d <=? S (List.length bs))%nat with true by (symmetry; apply Nat.leb_le; exact Hd).
      unfold lenZ. rewrite map_length. fold (lenZ parts). f_equal.
      apply (insert_insert_comm bs sd d (lenZ parts) Hsd Hd).
    - intros sh I Hsh Hin. rewrite at_stack. cbn [at_].
      destruct (remove_remove_comm I sd d) as [A [B C]]. fold md nsd in A, B, C.
      destruct (nth_error I d) as [z|] eqn:Ez.
      + destruct (z =? 0) eqn:Ez0.
        * unfold self. rewrite at_stack. rewrite B.
          destruct (nth_error I nsd) as [k|]; [|reflexivity].
          rewrite nthZ_map. destruct (nthZ parts k) as [m|]; [|reflexivity]. cbn [option_map at_].
          rewrite A, Ez0, C. reflexivity.
        * destruct (nth_error I nsd) as [k|]; [|reflexivity].
          rewrite nthZ_map. destruct (nthZ parts k) as [m|]; [|reflexivity]. cbn [option_map at_].
          rewrite A, Ez0. reflexivity.
      + destruct (nth_error I nsd) as [k|]; [|reflexivity].
        rewrite nthZ_map. destruct (nthZ parts k) as [m|]; [|reflexivity]. cbn [option_map at_].
        rewrite A. reflexivity.
  Qed.
End Unsqueeze.
