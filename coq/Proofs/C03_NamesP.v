(* _get_names_idx: one name per dim of the indexed batch size; __getitem__'s dispatch keeps the class of every item. *)
From Coq Require Import ZArith List Bool Lia.
Import ListNotations.
From TD Require Import Spec.PySlice Model.C03_Index Spec.C03_TorchIndex Spec.C03_TorchSel Model.C03_Names
  Proofs.C03_IndexP Proofs.C03_SelP.
Open Scope nat_scope.

Definition is_K (it : item) : bool := match it with INone | ISl _ _ _ | IEll => true | _ => false end.
Definition nK (idx : list item) : nat := length (filter is_K idx).
Definition nadv (idx : list item) : nat := length (filter is_adv idx).
Fixpoint advnd (idx : list item) : nat :=
  match idx with
  | [] => 0
  | IAdv sh :: r => Nat.max (length sh) (advnd r)
  | IMask _ _ :: r => Nat.max 1 (advnd r)
  | _ :: r => advnd r
  end.

Lemma names_loop_length idx : forall count take advpos advsrc advndim numadv sep disj,
  length (names_loop idx count take advpos advsrc advndim numadv sep disj)
  = length take + nK idx + (if Nat.ltb 0 (numadv + nadv idx) then Nat.max advndim (advnd idx) else 0).
Proof.
  unfold nK, nadv.
  induction idx as [|it r IH]; intros count take advpos advsrc advndim numadv sep disj; cbn [names_loop].
  - cbn [filter length advnd]. rewrite !Nat.add_0_r. destruct (Nat.ltb 0 numadv); [|lia].
    destruct disj; rewrite !app_length, ?firstn_length, ?skipn_length, repeat_length; lia.
  - destruct it as [i|a b c| | |sh| |sh n0]; rewrite IH; cbn [filter is_K is_adv length advnd];
      rewrite ?app_length; cbn [length];
      repeat match goal with |- context [Nat.ltb ?x ?y] => destruct (Nat.ltb_spec x y) end; lia.
Qed.

Lemma nK_app a b : nK (a ++ b) = nK a + nK b.
Proof. unfold nK. now rewrite filter_app, app_length. Qed.
Lemma nadv_app a b : nadv (a ++ b) = nadv a + nadv b.
Proof. unfold nadv. now rewrite filter_app, app_length. Qed.
Lemma advnd_app a b : advnd (a ++ b) = Nat.max (advnd a) (advnd b).
Proof. induction a as [|it a IH]; [reflexivity|]. cbn [app advnd]. destruct it; rewrite ?IH; lia. Qed.
Lemma counts_full k : nK (repeat full_slice k) = k /\ nadv (repeat full_slice k) = 0 /\ advnd (repeat full_slice k) = 0.
Proof. induction k as [|k (A1 & A2 & A3)]; [now cbn|]. unfold nK, nadv in *. cbn in *. lia. Qed.

(* slot-level counts *)
Lemma keeps_split sl : has_A sl = true -> length (keeps sl) = length (before_A sl) + length (after_first_A sl).
Proof. induction sl as [|[n|] sl IH]; cbn; intros H; [discriminate|rewrite IH by assumption; lia|reflexivity]. Qed.

Lemma place_length' B sl : length (place B sl) = length (keeps sl) + (if has_A sl then length B else 0).
Proof.
  rewrite place_length. destruct (has_A sl) eqn:HA; [|lia].
  destruct (adjacent sl); [rewrite (keeps_split sl HA)|]; lia.
Qed.

Lemma slots_counts idx : forall dims sl, slots idx dims = Some sl ->
  length (keeps sl) = nK idx + (length dims - total_consumed idx) /\ total_consumed idx <= length dims
  /\ has_A sl = Nat.ltb 0 (nadv idx) /\ forallb mask_wf idx = true.
Proof.
  unfold nK, nadv.
  induction idx as [|it r IH]; intros dims sl Hs; cbn [slots] in Hs.
  - injection Hs as <-. rewrite keeps_mapK, has_A_mapK. cbn. repeat split; lia.
  - cbn [total_consumed fold_right filter forallb]. fold (total_consumed r).
    destruct it as [i|a b c| | |sh| |sh n0]; cbn [consumes is_K is_adv mask_wf andb length]; try discriminate.
    + destruct dims as [|n ds]; [discriminate|].
      destruct ((- Z.of_nat n <=? i)%Z && (i <? Z.of_nat n)%Z); [|discriminate].
      destruct (IH ds sl Hs) as (A1 & A2 & A3 & A4). cbn [length]. repeat split; try assumption; lia.
    + destruct dims as [|n ds]; [discriminate|].
      destruct ((match c with Some s => s | None => 1%Z end <=? 0)%Z); [discriminate|].
      destruct (slots r ds) as [sl'|] eqn:E; [|discriminate]. injection Hs as <-.
      destruct (IH ds sl' E) as (A1 & A2 & A3 & A4). cbn [keeps has_A length]. repeat split; try assumption; lia.
    + destruct (slots r dims) as [sl'|] eqn:E; [|discriminate]. injection Hs as <-.
      destruct (IH dims sl' E) as (A1 & A2 & A3 & A4). cbn [keeps has_A length]. repeat split; try assumption; lia.
    + destruct dims as [|n ds]; [discriminate|].
      destruct (slots r ds) as [sl'|] eqn:E; [|discriminate]. injection Hs as <-.
      destruct (IH ds sl' E) as (A1 & A2 & A3 & A4). cbn [keeps has_A length]. repeat split; try assumption; lia.
    + destruct dims as [|n ds]; [discriminate|].
      destruct (IH ds sl Hs) as (A1 & A2 & A3 & A4). cbn [length]. repeat split; try assumption; lia.
    + destruct (Nat.leb (length sh) (length dims)) eqn:El; [|discriminate]. apply Nat.leb_le in El. cbn [andb] in Hs.
      destruct (shape_eqb sh (firstn (length sh) dims)); [|discriminate]. cbn [andb] in Hs.
      destruct (negb (Nat.eqb (length sh) 0)) eqn:Enz; [|discriminate].
      destruct (slots r (skipn (length sh) dims)) as [sl'|] eqn:E; [|discriminate]. injection Hs as <-.
      destruct (IH _ sl' E) as (A1 & A2 & A3 & A4). rewrite skipn_length in A1, A2.
      cbn [keeps has_A length]. repeat split; try assumption; lia.
Qed.

(* rank of a broadcast shape = the largest rank *)
Lemma bcast_rev_length a : forall b r, bcast_rev a b = Ok r -> length r = Nat.max (length a) (length b).
Proof.
  induction a as [|x a IH]; intros [|y b] r H; cbn [bcast_rev] in H; try (injection H as <-; cbn; lia).
  destruct (bcast_rev a b) as [r'|] eqn:E; [|discriminate]. specialize (IH b r' E).
  destruct (Nat.eqb x y); [injection H as <-; cbn; lia|].
  destruct (Nat.eqb x 1); [injection H as <-; cbn; lia|].
  destruct (Nat.eqb y 1); [injection H as <-; cbn; lia|discriminate].
Qed.
Lemma bcast_length a b r : bcast a b = Ok r -> length r = Nat.max (length a) (length b).
Proof.
  unfold bcast. destruct (bcast_rev (rev a) (rev b)) as [r'|] eqn:E; [|discriminate].
  intros H; injection H as <-. rewrite rev_length, (bcast_rev_length _ _ _ E), !rev_length. reflexivity.
Qed.
Lemma bcast_all_length l : forall B, bcast_all l = Ok B -> length B = fold_right (fun s n => Nat.max (length s) n) 0 l.
Proof.
  induction l as [|s r IH]; intros B H; [injection H as <-; reflexivity|].
  destruct r as [|s2 r']; [injection H as <-; cbn; lia|].
  change (bcast_all (s :: s2 :: r')) with (match bcast_all (s2 :: r') with Ok t => bcast s t | Reject => Reject end) in H.
  destruct (bcast_all (s2 :: r')) as [t|] eqn:E; [|discriminate].
  rewrite (bcast_length _ _ _ H), (IH t eq_refl). reflexivity.
Qed.
Lemma advnd_shapes idx : fold_right (fun s n => Nat.max (length s) n) 0 (adv_shapes idx) = advnd idx.
Proof.
  unfold adv_shapes. induction idx as [|it r IH]; [reflexivity|]. cbn [flat_map advnd].
  destruct it; cbn [adv_shape app fold_right length]; rewrite ?IH; reflexivity.
Qed.

(* names_prepare completes the index with the missing full slices *)
Lemma nonnone_le idx : existsb is_ell idx = false -> forallb mask_wf idx = true ->
  length (filter (fun it => negb (is_none it)) idx) <= total_consumed idx.
Proof.
  induction idx as [|it r IH]; intros Hne Hwf; [cbn; lia|].
  cbn [existsb forallb] in *. apply orb_false_iff in Hne. destruct Hne as [Hit Hne].
  apply andb_prop in Hwf. destruct Hwf as [Hw Hwf]. specialize (IH Hne Hwf).
  cbn [filter total_consumed fold_right]. fold (total_consumed r).
  destruct it as [i|a b c| | |sh| |sh n0]; cbn [is_none negb consumes length] in *; try discriminate; try lia.
  cbn in Hw. destruct (length sh); [discriminate|]. lia.
Qed.

Lemma names_prepare_ok bs idx sl :
  slots idx bs = Some sl -> names_prepare bs idx = Ok (idx ++ repeat full_slice (length bs - total_consumed idx)).
Proof.
  intros Hs. pose proof (slots_no_ell _ _ _ Hs) as Hne.
  destruct (slots_counts idx bs sl Hs) as (_ & Hc & _ & Hwf).
  unfold names_prepare.
  destruct (Nat.ltb_spec (length (filter (fun it => negb (is_none it)) idx)) (length bs)) as [Hlt|Hge].
  - pose proof (convert_ellipsis_spec idx [] bs Hne eq_refl) as H. rewrite !app_nil_r in H.
    rewrite (H Hwf Hc). reflexivity.
  - pose proof (nonnone_le idx Hne Hwf) as Hle.
    replace (length bs - total_consumed idx) with 0 by lia. cbn [repeat]. rewrite app_nil_r.
    unfold convert_ellipsis. now rewrite Hne.
Qed.

Lemma pick_names_length {X} (nm : list (option X)) tk : forall l, pick_names nm tk = Ok l -> length l = length tk.
Proof.
  induction tk as [|[i|] tk IH]; intros l H; cbn [pick_names] in H.
  - now injection H as <-.
  - destruct (nth_error nm i); [|discriminate]. destruct (pick_names nm tk) as [l'|]; [|discriminate].
    injection H as <-. cbn. now rewrite (IH l' eq_refl).
  - destruct (pick_names nm tk) as [l'|]; [|discriminate]. injection H as <-. cbn. now rewrite (IH l' eq_refl).
Qed.

(* the names loop produces one entry per dim of the shape torch gives the indexed batch *)
Theorem names_take_length bs idx sl B :
  slots idx bs = Some sl -> bcast_all (adv_shapes idx) = Ok B ->
  exists tk, names_take bs idx = Ok tk /\ length tk = length (place B sl).
Proof.
  intros Hs HB. unfold names_take. rewrite (names_prepare_ok bs idx sl Hs).
  eexists; split; [reflexivity|].
  destruct (slots_counts idx bs sl Hs) as (A1 & A2 & A3 & _).
  rewrite names_loop_length, place_length', A1, A3, nK_app, nadv_app, advnd_app.
  destruct (counts_full (length bs - total_consumed idx)) as (C1 & C2 & C3). rewrite C1, C2, C3.
  rewrite (bcast_all_length _ _ HB), advnd_shapes. cbn [length plus].
  rewrite Nat.add_0_r. destruct (Nat.ltb 0 (nadv idx)); lia.
Qed.

Theorem names_idx_length {X} (nm : list (option X)) bs idx sl B fast l :
  slots idx bs = Some sl -> bcast_all (adv_shapes idx) = Ok B -> length nm = length bs ->
  names_idx (Some nm) bs idx fast = Ok (Some l) -> length l = length (place B sl).
Proof.
  intros Hs HB Hn. unfold names_idx.
  assert (Hgen : forall l0, match names_take bs idx with Reject => Reject | Ok tk => pick_names nm tk end = Ok l0 ->
                            length l0 = length (place B sl)).
  { intros l0 H. destruct (names_take_length bs idx sl B Hs HB) as (tk & Htk & Hl). rewrite Htk in H.
    now rewrite (pick_names_length nm tk l0 H). }
  assert (Hfin : forall r0 : res (list (option X)),
            r0 = match names_take bs idx with Reject => Reject | Ok tk => pick_names nm tk end ->
            match r0 with Reject => Reject | Ok l0 => Ok (if all_none l0 then None else Some l0) end = Ok (Some l) ->
            length l = length (place B sl)).
  { intros r0 -> H.
    destruct (match names_take bs idx with Reject => Reject | Ok tk => pick_names nm tk end) as [l0|] eqn:E; [|discriminate].
    destruct (all_none l0); [discriminate|]. injection H as <-. now apply Hgen. }
  destruct fast; [|apply Hfin; reflexivity].
  destruct idx as [|it [|it2 r]]; [apply Hfin; reflexivity| |apply Hfin; destruct it; reflexivity].
  destruct it as [i|a b c| | |sh| |sh n0]; try (apply Hfin; reflexivity).
  (* one boolean mask: [None] + names[ndim:] *)
  intros H. destruct (all_none (None :: skipn (length sh) nm)); [discriminate|]. injection H as <-.
  cbn [slots] in Hs.
  destruct (Nat.leb (length sh) (length bs)) eqn:El; [|discriminate]. apply Nat.leb_le in El. cbn [andb] in Hs.
  destruct (shape_eqb sh (firstn (length sh) bs)); [|discriminate]. cbn [andb] in Hs.
  destruct (negb (Nat.eqb (length sh) 0)); [|discriminate]. cbn [option_map] in Hs. injection Hs as <-.
  cbn in HB. injection HB as <-.
  unfold place. cbn [has_A negb adjacent gap_after before_A after_first_A app].
  assert (G : forall l, gap_after (map K l) = false).
  { induction l as [|x l IHl]; cbn; [reflexivity|]. now rewrite IHl, has_A_mapK. }
  rewrite G. cbn [negb]. rewrite keeps_mapK. cbn [length app]. rewrite !skipn_length. lia.
Qed.

(* ------------------------------------------------------------------ dispatch: the index that reaches the leaves *)
Lemma find_ell_shift l : forall i, find_ell l i = i + find_ell l 0.
Proof.
  induction l as [|x r IH]; intros i; cbn [find_ell]; [lia|].
  destruct (is_ell x); [lia|]. rewrite (IH (S i)), (IH 1). lia.
Qed.

Lemma ell_split idx : existsb is_ell idx = true ->
  exists pre post, idx = pre ++ IEll :: post /\ existsb is_ell pre = false.
Proof.
  induction idx as [|x r IH]; intros H; [discriminate|]. cbn [existsb] in H.
  destruct (is_ell x) eqn:Ex.
  - exists [], r. destruct x; try discriminate. split; reflexivity.
  - cbn [orb] in H. destruct (IH H) as (pre & post & -> & Hp). exists (x :: pre), post. split; [reflexivity|].
    cbn [existsb]. now rewrite Ex, Hp.
Qed.

Definition subst_ell (n : nat) (idx : list item) : list item :=
  flat_map (fun it => if is_ell it then repeat full_slice n else [it]) idx.

Lemma subst_ell_id n l : existsb is_ell l = false -> subst_ell n l = l.
Proof.
  unfold subst_ell. induction l as [|x l IH]; intros H; [reflexivity|]. cbn in *. apply orb_false_iff in H.
  destruct H as [Hx H]. rewrite Hx. cbn. now rewrite IH.
Qed.

(* whatever convert_ellipsis accepts is the input with its Ellipsis replaced by full slices: no item changes class,
   no list / range / ndarray becomes anything else *)
Lemma convert_ellipsis_subst idx bs idx' :
  convert_ellipsis idx bs = Ok idx' -> exists n, idx' = subst_ell n idx.
Proof.
  unfold convert_ellipsis. destruct (existsb is_ell idx) eqn:Hex; cbn [negb].
  2:{ intros H; injection H as <-. exists 0. symmetry. now apply subst_ell_id. }
  destruct (ell_split idx Hex) as (pre & post & -> & Hpre).
  destruct (Nat.ltb _ _); [discriminate|].
  rewrite !filter_app. cbn [filter is_ell]. rewrite (filter_ell_none pre Hpre). cbn [app length].
  destruct (existsb is_ell post) eqn:Hpost.
  - (* a second Ellipsis: rejected *)
    assert (Hl : 1 <= length (filter is_ell post)).
    { clear -Hpost. induction post as [|x l IH]; [discriminate|]. cbn in *. destruct (is_ell x); cbn; [lia|]. now apply IH. }
    replace (Nat.ltb 1 (S (length (filter is_ell post)))) with true by (symmetry; apply Nat.ltb_lt; lia). discriminate.
  - rewrite (filter_ell_none post Hpost). cbn [length is_none].
    replace (Nat.ltb 1 1) with false by reflexivity. cbv iota.
    rewrite (find_ell_pre pre post 0 Hpre). cbn [plus].
    assert (La : length (pre ++ IEll :: post) - length pre - 1 = length post) by (rewrite app_length; cbn [length]; lia).
    rewrite La.
    assert (Lf : firstn (length pre) (pre ++ IEll :: post) = pre).
    { rewrite firstn_app, firstn_all, Nat.sub_diag. cbn [firstn]. now rewrite app_nil_r. }
    assert (Ls : skipn (S (length pre)) (pre ++ IEll :: post) = post).
    { rewrite skipn_app. replace (S (length pre) - length pre) with 1 by lia. rewrite skipn_all2 by lia. reflexivity. }
    rewrite Lf, Ls, firstn_all.
    match goal with |- context [repeat full_slice ?n] => set (k := n) end.
    destruct (Nat.eqb _ _); [|discriminate]. intros H; injection H as <-. exists k.
    unfold subst_ell. rewrite flat_map_app. cbn [flat_map is_ell].
    fold (subst_ell k pre) (subst_ell k post). now rewrite !subst_ell_id by assumption.
Qed.

Lemma filter_adv_subst n idx : filter is_adv (subst_ell n idx) = filter is_adv idx.
Proof.
  unfold subst_ell. induction idx as [|x l IH]; [reflexivity|]. cbn [flat_map]. rewrite filter_app, IH.
  destruct x; cbn [is_ell filter is_adv app]; try reflexivity.
  assert (E : filter is_adv (repeat full_slice n) = []) by (clear; induction n; cbn; auto).
  now rewrite E.
Qed.

Theorem dispatch_keeps_class bs idx idx' :
  getitem_dispatch bs idx = HIndex idx' ->
  (exists n, idx' = subst_ell n idx) /\ filter is_adv idx' = filter is_adv idx /\ is_view idx' = is_view idx.
Proof.
  unfold getitem_dispatch. destruct idx as [|it r]; [discriminate|].
  set (idx := it :: r).
  assert (H0 : forall i', (if existsb is_ell idx then convert_ellipsis idx bs else Ok idx) = Ok i' -> exists n, i' = subst_ell n idx).
  { intros i'. destruct (existsb is_ell idx) eqn:E.
    - apply convert_ellipsis_subst.
    - intros H; injection H as <-. exists 0. symmetry. now apply subst_ell_id. }
  destruct (if existsb is_ell idx then convert_ellipsis idx bs else Ok idx) as [i'|]; [|discriminate].
  destruct (forallb is_full_slice i'); [discriminate|]. destruct (rank0_guard bs i'); [|discriminate].
  intros H; injection H as <-. destruct (H0 i' eq_refl) as [n ->].
  split; [eauto|]. pose proof (filter_adv_subst n idx) as F. split; [exact F|].
  unfold is_view. f_equal.
  assert (G : forall l, existsb is_adv l = negb (match filter is_adv l with [] => true | _ => false end)).
  { induction l as [|x l IHl]; [reflexivity|]. cbn. destruct (is_adv x); cbn; [reflexivity|exact IHl]. }
  now rewrite !G, F.
Qed.

(* returning the tensordict itself happens only for indices torch answers with a view *)
Theorem dispatch_self_is_view bs idx : getitem_dispatch bs idx = HSelf -> is_view idx = true.
Proof.
  unfold getitem_dispatch. destruct idx as [|it r]; [reflexivity|].
  set (idx := it :: r).
  assert (H0 : forall i', (if existsb is_ell idx then convert_ellipsis idx bs else Ok idx) = Ok i' -> exists n, i' = subst_ell n idx).
  { intros i'. destruct (existsb is_ell idx) eqn:E.
    - apply convert_ellipsis_subst.
    - intros H; injection H as <-. exists 0. symmetry. now apply subst_ell_id. }
  destruct (if existsb is_ell idx then convert_ellipsis idx bs else Ok idx) as [i'|]; [|discriminate].
  destruct (forallb is_full_slice i') eqn:Ef; [|destruct (rank0_guard bs i'); discriminate].
  intros _. destruct (H0 i' eq_refl) as [n ->].
  pose proof (filter_adv_subst n idx) as F.
  assert (Hnil : filter is_adv (subst_ell n idx) = []).
  { clear -Ef. induction (subst_ell n idx) as [|x l IH]; [reflexivity|]. cbn in *. apply andb_prop in Ef. destruct Ef as [Ex El].
    destruct x as [i|[a|] [b|] [c|]| | |sh| |sh n0]; cbn in *; try discriminate; now apply IH. }
  rewrite Hnil in F. unfold is_view.
  assert (G : forall l, filter is_adv l = [] -> existsb is_adv l = false).
  { induction l as [|x l IHl]; [reflexivity|]. cbn. destruct (is_adv x); [discriminate|]. exact IHl. }
  now rewrite (G idx (eq_sym F)).
Qed.

(* ------------------------------------------------------------------ which source dim a surviving name comes from (basic indices) *)
(* the spec's view: walking the index with a source-dim cursor, a slice keeps dim [i] (its coordinate is
   start + k * step of dim i: Spec/C03_TorchSel.sel_items), None creates a dim that comes from no source dim,
   an int / 0-dim integer tensor consumes a dim without leaving one *)
Fixpoint origins (idx : list item) (i : nat) : list (option nat) :=
  match idx with
  | [] => []
  | INone :: r => None :: origins r i
  | ISl _ _ _ :: r | IEll :: r => Some i :: origins r (S i)
  | IMask sh _ :: r => origins r (i + length sh)
  | _ :: r => origins r (S i)
  end.

Lemma names_loop_basic idx : forall count take advpos advsrc advndim sep disj,
  nadv idx = 0 ->
  names_loop idx count take advpos advsrc advndim 0 sep disj = take ++ origins idx count.
Proof.
  unfold nadv.
  induction idx as [|it r IH]; intros count take advpos advsrc advndim sep disj Hn; cbn [names_loop origins].
  - cbn. now rewrite app_nil_r.
  - destruct it as [i|a b c| | |sh| |sh n0]; cbn [filter is_adv length] in Hn; try discriminate;
      rewrite IH by assumption; rewrite <- ?app_assoc; reflexivity.
Qed.

Lemma origins_app_gen a b : forall i j, nadv a = 0 -> existsb is_ell a = false -> j = i + total_consumed a ->
  origins (a ++ b) i = origins a i ++ origins b j.
Proof.
  unfold nadv. induction a as [|it a IH]; intros i j Hn He Hj; cbn [app origins total_consumed fold_right existsb] in *.
  - subst j. now rewrite Nat.add_0_r.
  - fold (total_consumed a) in Hj. apply orb_false_iff in He. destruct He as [He1 He].
    destruct it as [k|x y z| | |sh| |sh n0]; cbn [filter is_adv length consumes] in *; try discriminate;
      cbn [app]; try f_equal; apply IH; try assumption; lia.
Qed.
Lemma origins_app a b i : nadv a = 0 -> existsb is_ell a = false ->
  origins (a ++ b) i = origins a i ++ origins b (i + total_consumed a).
Proof. intros H H2. now apply origins_app_gen. Qed.

Lemma origins_full k i : origins (repeat full_slice k) i = map Some (seq i k).
Proof. revert i. induction k as [|k IH]; intros i; cbn; [reflexivity|]. now rewrite IH. Qed.

(* for an index without advanced items the names kept are exactly those of the source dims the result dims come from:
   the sliced dims in order, None for inserted dims, then the untouched trailing dims *)
Theorem names_take_basic bs idx sl :
  slots idx bs = Some sl -> nadv idx = 0 ->
  names_take bs idx = Ok (origins idx 0 ++ map Some (seq (total_consumed idx) (length bs - total_consumed idx))).
Proof.
  intros Hs Hn. unfold names_take. rewrite (names_prepare_ok bs idx sl Hs). f_equal.
  rewrite names_loop_basic.
  - cbn [app]. rewrite (origins_app idx _ 0 Hn (slots_no_ell _ _ _ Hs)), origins_full. reflexivity.
  - rewrite nadv_app, Hn. now destruct (counts_full (length bs - total_consumed idx)) as (_ & -> & _).
Qed.

(* ------------------------------------------------------------------ one integer index array: its result dims carry the name of the dim it indexes *)
Lemma names_loop_noadv idx : forall count take advpos advsrc advndim numadv sep disj,
  nadv idx = 0 ->
  names_loop idx count take advpos advsrc advndim numadv sep disj
  = names_loop [] 0 (take ++ origins idx count) advpos advsrc advndim numadv false disj.
Proof.
  unfold nadv.
  induction idx as [|it r IH]; intros count take advpos advsrc advndim numadv sep disj Hn; cbn [origins].
  - now rewrite app_nil_r.
  - destruct it as [i|a b c| | |sh| |sh n0]; cbn [filter is_adv length] in Hn; try discriminate;
      cbn [names_loop]; rewrite IH by assumption; rewrite <- ?app_assoc; reflexivity.
Qed.

Lemma names_loop_app_basic_gen a b : forall count c' take advpos advsrc advndim disj,
  nadv a = 0 -> existsb is_ell a = false -> c' = count + total_consumed a ->
  names_loop (a ++ b) count take advpos advsrc advndim 0 false disj
  = names_loop b c' (take ++ origins a count) advpos advsrc advndim 0 false disj.
Proof.
  unfold nadv.
  induction a as [|it a IH]; intros count c' take advpos advsrc advndim disj Hn He Hc;
    cbn [app origins total_consumed fold_right existsb] in *.
  - subst c'. now rewrite Nat.add_0_r, app_nil_r.
  - fold (total_consumed a) in Hc. apply orb_false_iff in He. destruct He as [He1 He].
    destruct it as [i|x y z| | |sh| |sh n0]; cbn [filter is_adv length consumes is_ell] in *; try discriminate;
      cbn [names_loop]; change (Nat.ltb 0 0) with false;
      (rewrite (IH _ c') by (try assumption; lia)); rewrite <- ?app_assoc; reflexivity.
Qed.
Lemma names_loop_app_basic a b : forall count take advpos advsrc advndim disj,
  nadv a = 0 -> existsb is_ell a = false ->
  names_loop (a ++ b) count take advpos advsrc advndim 0 false disj
  = names_loop b (count + total_consumed a) (take ++ origins a count) advpos advsrc advndim 0 false disj.
Proof. intros. now apply names_loop_app_basic_gen. Qed.

Theorem names_take_single_adv bs pre sh post sl :
  slots (pre ++ IAdv sh :: post) bs = Some sl -> nadv pre = 0 -> nadv post = 0 ->
  names_take bs (pre ++ IAdv sh :: post)
  = Ok (origins pre 0 ++ repeat (Some (total_consumed pre)) (length sh) ++ origins post (S (total_consumed pre))
        ++ map Some (seq (total_consumed (pre ++ IAdv sh :: post)) (length bs - total_consumed (pre ++ IAdv sh :: post)))).
Proof.
  intros Hs Hpre Hpost. unfold names_take. rewrite (names_prepare_ok bs _ sl Hs). f_equal.
  pose proof (slots_no_ell _ _ _ Hs) as Hne. rewrite existsb_app in Hne. apply orb_false_iff in Hne.
  destruct Hne as [Hne1 Hne2]. cbn [existsb is_ell orb] in Hne2.
  set (k := length bs - total_consumed (pre ++ IAdv sh :: post)).
  rewrite <- app_assoc. cbn [app].
  rewrite (names_loop_app_basic pre _ 0 [] 0 None 0 false Hpre Hne1). cbn [plus app names_loop Nat.eqb length].
  rewrite names_loop_noadv.
  2:{ rewrite nadv_app, Hpost. now destruct (counts_full k) as (_ & -> & _). }
  cbn [names_loop]. change (Nat.ltb 0 1) with true. cbv iota.
  rewrite firstn_app, firstn_all, Nat.sub_diag. cbn [firstn]. rewrite app_nil_r.
  rewrite skipn_app, skipn_all, Nat.sub_diag. cbn [skipn app].
  rewrite Nat.max_0_l.
  rewrite (origins_app post _ _ Hpost Hne2), origins_full.
  rewrite !total_consumed_app. cbn [total_consumed fold_right consumes]. fold (total_consumed post).
  replace (S (total_consumed pre) + total_consumed post) with (total_consumed pre + (1 + total_consumed post)) by lia. reflexivity.
Qed.
