(* C01 — one step of ANY modelled call (the calls of Model/C01_Ops.v and the index writes of Model/C01_Index.v), issued on
   the root or through a handle, keeps the tree coherent; induction over histories that interleave them. *)
From Coq Require Import List String Bool Arith Lia.
Import ListNotations.
From TD Require Import Model.C01_Tree Model.C01_Ops Model.C01_Scope Model.C01_Index Model.C01_All.
From TD Require Import Proofs.C01_TreeP Proofs.C01_SetP Proofs.C01_StepP Proofs.C01_AutoP Proofs.C01_MainP Proofs.C01_IndexP.
Open Scope string_scope.
Open Scope list_scope.

(* an index write through any handle: no hypothesis but the coherence of the value handed over *)
Lemma istep_coh : forall t path io,
  Coherent t -> value_okb (iop_value io) = true -> Coherent (fst (istep t path io)).
Proof.
  intros t path io Hc Hv. unfold Coherent, coherentb, istep in *.
  apply at_path_coh; [exact Hc|]. intros pbs' pdv' n _ Hn. now apply inode_step_coh.
Qed.

Lemma xstep_coh : forall t o,
  Coherent t -> x_in_scopeb t o = true -> x_cleanb t o = true -> Coherent (fst (xstep t o)).
Proof.
  intros t [o|path io] Hc Hs Hk; cbn [xstep x_in_scopeb x_cleanb] in *.
  - now apply step_coh.
  - now apply istep_coh.
Qed.

Fixpoint xtrace_ok (t : tree) (ops : list xop) : Prop :=
  match ops with
  | [] => True
  | o :: r => x_in_scopeb t o = true /\ x_cleanb t o = true /\ xtrace_ok (fst (xstep t o)) r
  end.

Lemma xrun_coh_all : forall ops t, Coherent t -> xtrace_ok t ops -> forall n, Coherent (xrun t (firstn n ops)).
Proof.
  induction ops as [|o r IH]; intros t Hc Ht n.
  - destruct n; exact Hc.
  - destruct n as [|n]; [exact Hc|]. destruct Ht as (H1 & H2 & H3). cbn [firstn]. unfold xrun. cbn [fold_left].
    apply IH; [now apply xstep_coh|exact H3].
Qed.

(* histories made of index writes only need no scope / proof hypothesis at all beyond coherent values *)
Lemma irun_coh : forall (ops : list (list string * iop)) t,
  Coherent t -> Forall (fun po => value_okb (iop_value (snd po)) = true) ops ->
  Coherent (fold_left (fun t po => fst (istep t (fst po) (snd po))) ops t).
Proof.
  induction ops as [|[p io] r IH]; intros t Hc Hf; [exact Hc|].
  inversion Hf as [|? ? H1 H2]; subst. cbn [fold_left fst snd]. apply IH; [|exact H2]. now apply istep_coh.
Qed.
