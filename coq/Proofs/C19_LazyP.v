From Coq Require Import ZArith List Bool Lia ZifyBool.
Import ListNotations.
From TD Require Import Model.C19_Vmap Proofs.C19_VmapP.
Open Scope nat_scope.

(* ---- vmapped dim = stack dim: the hidden-stack-dim view (hidden L = true; a sample = one member, batch size mbs L) ---- *)

(* identity / in-place writers, nested get, dense rebuilds: the result is the stack of the per-sample results, for every
   member batch size, member count, stack dim and EVERY out position (D33 does not concern these classes) *)
Theorem lazy_hidden_partial L op o :
  hidden L = true -> op <> HRebuild ->
  hres_remove (lazy_apply op L) (nmem L) o = insert_at (hop_sample_bs op (mbs L)) o (nmem L).
Proof.
  intros Hh Hop. destruct L as [m n s h]. cbn in Hh. subst h.
  destruct op as [|e| |]; cbn; unfold lazy_bs; cbn; try reflexivity.
  - unfold td_remove. apply py_insert_nonneg.
  - congruence.
Qed.

(* D33, backed by the model: an op that rebuilds a lazy stack from the members (clone, copy, apply, select ...) returns,
   for EVERY hidden view and out position, a batch size with one dim too many (the stack dim appears twice) *)
Theorem lazy_hidden_rebuild_rank L o :
  hidden L = true ->
  length (hres_remove (lazy_apply HRebuild L) (nmem L) o) = length (insert_at (mbs L) o (nmem L)) + 1.
Proof.
  intros Hh. destruct L as [m n s h]. cbn in Hh. subst h.
  unfold lazy_apply, lazy_apply_gen, fixed_D33, hres_remove, lazy_remove. cbn [hidden mbs nmem sd].
  destruct (s <? o); unfold lazy_bs; cbn [hidden mbs nmem sd]; rewrite !length_insert_at; lia.
Qed.

Theorem lazy_hidden_rebuild_refuted :
  exists L o, hidden L = true /\ hres_remove (lazy_apply HRebuild L) (nmem L) o <> insert_at (mbs L) o (nmem L).
Proof. exists {| mbs := []; nmem := 3; sd := 0; hidden := true |}, 0. split; [reflexivity|]. vm_compute. discriminate. Qed.

(* with the suggested repair (the rebuilt stack keeps hooks / _is_vmapped) the class is right as well *)
Theorem lazy_hidden_rebuild_fixed L o :
  hidden L = true ->
  hres_remove (lazy_apply_gen true HRebuild L) (nmem L) o = insert_at (mbs L) o (nmem L).
Proof. intros Hh. destruct L as [m n s h]. cbn in Hh. subst h. reflexivity. Qed.

(* ---- vmapped dim <> stack dim: the members carry batched leaves, every class that keeps / rebuilds the stack is right ---- *)
Theorem lazy_visible_ops L i o op :
  hidden L = false -> sd L <= length (mbs L) -> i < length (lazy_bs L) -> i <> sd L -> o <= length (lazy_bs L) - 1 ->
  op = HSelf \/ op = HRebuild \/ op = HNested [] ->
  hres_remove (lazy_apply op (lazy_add L i)) (nth i (lazy_bs L) 0) o = movedim_shape (lazy_bs L) i o.
Proof.
  intros Hh Hs Hi Hne Ho Hop.
  destruct (lazy_vmap_identity L i o Hh Hs Hi Ho) as [Hid _].
  assert (Hhid : hidden (lazy_add L i) = false).
  { unfold lazy_add. destruct (Nat.eqb_spec i (sd L)); [contradiction|]. destruct (i <? sd L); reflexivity. }
  assert (E : lazy_apply op (lazy_add L i) = HLazy (lazy_add L i)).
  { destruct (lazy_add L i) as [m n s h]. cbn in Hhid. subst h.
    destruct Hop as [->|[->| ->]]; reflexivity. }
  rewrite E. exact Hid.
Qed.

(* D192: get(nested key) when the vmapped dim is not the stack dim loses the extra batch dims of the nested tensordict *)
Theorem lazy_visible_nested_refuted :
  exists L i o e, hidden L = false /\ i <> sd L /\ i < length (lazy_bs L) /\
    hres_remove (lazy_apply (HNested e) (lazy_add L i)) (nth i (lazy_bs L) 0) o
    <> insert_at (hop_sample_bs (HNested e) (remove_nth (lazy_bs L) i)) o (nth i (lazy_bs L) 0).
Proof.
  exists {| mbs := [3]; nmem := 2; sd := 0; hidden := false |}, 1, 1, [2].
  repeat split; try (cbn; lia). vm_compute. discriminate.
Qed.
