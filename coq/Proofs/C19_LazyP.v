From Coq Require Import ZArith List Bool Lia ZifyBool.
Import ListNotations.
From TD Require Import Model.C19_Vmap Proofs.C19_VmapP.
Open Scope nat_scope.

(* ---- vmapped dim = stack dim: the hidden-stack-dim view (hidden L = true; a sample = one member, batch size mbs L) ---- *)

(* identity / in-place writers, nested get, dense rebuilds: the result is the stack of the per-sample results, for every
   member batch size, member count, stack dim and EVERY out position (D33 does not concern these classes) *)
Theorem lazy_hidden_partial L op o :
  hidden L = true -> op <> HRebuild ->
  hres_remove (lazy_apply op L) (nmem L) o = insert_at (hop_sample_bs op (mbs L)) o (nmem L).
Proof.
  intros Hh Hop. destruct L as [m n s h]. cbn in Hh. subst h.
  destruct op as [|e| |]; cbn; unfold lazy_bs; cbn; try reflexivity.
  - unfold td_remove. apply py_insert_nonneg.
  - congruence.
Qed.

(* D33, backed by the model: an op that rebuilds a lazy stack from the members (clone, copy, apply, select ...) returns,
   for EVERY hidden view and out position, a batch size with one dim too many (the stack dim appears twice) *)
Theorem lazy_hidden_rebuild_rank L o :
  hidden L = true ->
  length (hres_remove (lazy_apply HRebuild L) (nmem L) o) = length (insert_at (mbs L) o (nmem L)) + 1.
Proof.
  intros Hh. destruct L as [m n s h]. cbn in Hh. subst h.
  unfold lazy_apply, lazy_apply_gen, fixed_D33, hres_remove, lazy_remove. cbn [hidden mbs nmem sd].
  destruct (s <? o); unfold lazy_bs; cbn [hidden mbs nmem sd]; rewrite !length_insert_at; lia.
Qed.

Theorem lazy_hidden_rebuild_refuted :
  exists L o, hidden L = true /\ hres_remove (lazy_apply HRebuild L) (nmem L) o <> insert_at (mbs L) o (nmem L).
Proof. exists {| mbs := []; nmem := 3; sd := 0; hidden := true |}, 0. split; [reflexivity|]. vm_compute. discriminate. Qed.

(* with the suggested repair (the rebuilt stack keeps hooks / _is_vmapped) the class is right as well *)
Theorem lazy_hidden_rebuild_fixed L o :
  hidden L = true ->
  hres_remove (lazy_apply_gen true HRebuild L) (nmem L) o = insert_at (mbs L) o (nmem L).
Proof. intros Hh. destruct L as [m n s h]. cbn in Hh. subst h. reflexivity. Qed.

(* ---- vmapped dim <> stack dim: the members carry batched leaves, every class that keeps / rebuilds the stack is right ---- *)
Theorem lazy_visible_ops L i o op :
  hidden L = false -> sd L <= length (mbs L) -> i < length (lazy_bs L) -> i <> sd L -> o <= length (lazy_bs L) - 1 ->
  op = HSelf \/ op = HRebuild \/ op = HNested [] ->
  hres_remove (lazy_apply op (lazy_add L i)) (nth i (lazy_bs L) 0) o = movedim_shape (lazy_bs L) i o.
Proof.
  intros Hh Hs Hi Hne Ho Hop.
  destruct (lazy_vmap_identity L i o Hh Hs Hi Ho) as [Hid _].
  assert (Hhid : hidden (lazy_add L i) = false).
  { unfold lazy_add. destruct (Nat.eqb_spec i (sd L)); [contradiction|]. destruct (i <? sd L); reflexivity. }
  assert (E : lazy_apply op (lazy_add L i) = HLazy (lazy_add L i)).
  { destruct (lazy_add L i) as [m n s h]. cbn in Hhid. subst h.
    destruct Hop as [->|[->| ->]]; try reflexivity. unfold lazy_apply, lazy_apply_gen. cbn [mbs nmem sd hidden].
    now rewrite app_nil_r. }
  rewrite E. exact Hid.
Qed.

(* get(nested key), vmapped dim <> stack dim: the nested tensordict keeps its extra batch dims e (repair of D192) *)
Lemma lazy_remove_app m n s e B o : s <= length m -> o <= length m + 1 ->
  lazy_bs (lazy_remove {| mbs := m ++ e; nmem := n; sd := s; hidden := false |} B o)
  = lazy_bs (lazy_remove {| mbs := m; nmem := n; sd := s; hidden := false |} B o) ++ e.
Proof.
  intros Hs Ho. unfold lazy_remove. cbn [hidden mbs nmem sd].
  destruct (Nat.ltb_spec s o); unfold lazy_bs; cbn [hidden mbs nmem sd].
  - rewrite (insert_at_app m e (o - 1) B) by lia. apply insert_at_app. rewrite length_insert_at. lia.
  - rewrite (insert_at_app m e o B) by lia. apply insert_at_app. rewrite length_insert_at. lia.
Qed.

Theorem lazy_visible_nested L i o e :
  hidden L = false -> sd L <= length (mbs L) -> i < length (lazy_bs L) -> i <> sd L -> o <= length (lazy_bs L) - 1 ->
  hres_remove (lazy_apply (HNested e) (lazy_add L i)) (nth i (lazy_bs L) 0) o
  = insert_at (hop_sample_bs (HNested e) (remove_nth (lazy_bs L) i)) o (nth i (lazy_bs L) 0).
Proof.
  intros Hh Hs Hi Hne Ho.
  destruct (lazy_vmap_identity L i o Hh Hs Hi Ho) as [Hid _].
  cbn [hop_sample_bs]. rewrite insert_at_app.
  2:{ rewrite length_remove_nth by assumption. lia. }
  change (insert_at (remove_nth (lazy_bs L) i) o (nth i (lazy_bs L) 0)) with (movedim_shape (lazy_bs L) i o).
  rewrite <- Hid. clear Hid.
  assert (Hl : length (lazy_bs L) = S (length (mbs L))).
  { unfold lazy_bs. rewrite Hh. apply length_insert_at. }
  unfold lazy_add in *. destruct (Nat.eqb_spec i (sd L)); [contradiction|].
  unfold lazy_apply, lazy_apply_gen, hres_remove.
  destruct (Nat.ltb_spec i (sd L)); cbn [mbs nmem sd hidden]; apply lazy_remove_app;
    rewrite ?length_remove_nth by lia; lia.
Qed.

Example lazy_visible_nested_ex :
  let L := {| mbs := [3]; nmem := 2; sd := 0; hidden := false |} in
  hres_remove (lazy_apply (HNested [2]) (lazy_add L 1)) 3 1 = [2; 3; 2].
Proof. reflexivity. Qed.
