(* Lemmas about Model/C15_Pieces.v: every result of unbind / split / chunk / ... owns a fresh non-tensor store (frame theorem,
   invariant "every field in exactly one store" for every piece); row provenance of the non-tensor rules of cat / stack. *)
From Coq Require Import List String Bool Arith Lia.
Import ListNotations.
From TD Require Import Model.C15_TCWrap Model.C15_Pieces Proofs.C15_TCWrapP.
Open Scope string_scope.
Open Scope list_scope.

(* ------------------------------------------------------------------------------------------------ hset *)
Lemma hset_length : forall A (l : list A) a v, List.length (hset l a v) = List.length l.
Proof. intros A l. induction l as [|x r IH]; intros a v; destruct a; cbn; auto. Qed.

Lemma nth_error_hset_same : forall A (l : list A) a v, a < List.length l -> nth_error (hset l a v) a = Some v.
Proof.
  intros A l. induction l as [|x r IH]; intros a v H; cbn in H; [lia|].
  destruct a; cbn; [reflexivity | apply IH; lia].
Qed.

Lemma nth_error_hset_other : forall A (l : list A) a b v, a <> b -> nth_error (hset l a v) b = nth_error l b.
Proof.
  intros A l. induction l as [|x r IH]; intros a b v N; destruct a; destruct b; cbn; try reflexivity; try congruence.
  apply IH. congruence.
Qed.

Lemma hset_app_last : forall A (l : list A) x v, hset (l ++ [x]) (List.length l) v = l ++ [v].
Proof. intros A l. induction l as [|y r IH]; intros x v; cbn; [reflexivity | rewrite IH; reflexivity]. Qed.

Lemma nth_error_app_last : forall A (l : list A) x, nth_error (l ++ [x]) (List.length l) = Some x.
Proof. intros A l x. rewrite nth_error_app2 by lia. rewrite Nat.sub_diag. reflexivity. Qed.

Lemma nth_error_app_old : forall A (l e : list A) a, a < List.length l -> nth_error (l ++ e) a = nth_error l a.
Proof. intros. apply nth_error_app1. assumption. Qed.

Lemma nth_error_Some_lt : forall A (l : list A) a x, nth_error l a = Some x -> a < List.length l.
Proof. intros A l a x H. apply nth_error_Some. congruence. Qed.

(* ------------------------------------------------------------------------------------------------ one result *)
Lemma rewrap_one_spec : forall fields h src tda h1 p, rewrap_one fields h src tda = OOk h1 p ->
  exists nt td nt', nth_error (h_nt h) (i_nt src) = Some nt /\ nth_error (h_td h) tda = Some td
    /\ from_tensordict fields (keys td) nt = FOk nt'
    /\ h1 = {| h_td := h_td h; h_nt := h_nt h ++ [nt'] |} /\ p = {| i_td := tda; i_nt := List.length (h_nt h) |}.
Proof.
  intros fields h src tda h1 p H. unfold rewrap_one, copy_store in H.
  destruct (nth_error (h_nt h) (i_nt src)) as [nt|] eqn:E1; [|discriminate].
  unfold from_td_inplace in H. cbn [h_td h_nt] in H.
  destruct (nth_error (h_td h) tda) as [td|] eqn:E2; [|discriminate].
  rewrite nth_error_app_last in H.
  destruct (from_tensordict fields (keys td) nt) as [nt'|e] eqn:F; [|discriminate].
  inversion H. subst. exists nt, td, nt'. rewrite hset_app_last. auto.
Qed.

Lemma from_td_wf : forall fields td nt nt', from_tensordict fields (keys td) nt = FOk nt' ->
  wfb fields {| s_td := td; s_nt := nt' |} = true.
Proof.
  intros fields td nt nt' F. apply from_td_partition in F. destruct F as [P [A B]].
  apply wfb_intro; cbn [s_td s_nt]; assumption.
Qed.

(* ------------------------------------------------------------------------------------------------ all results *)
Lemma rewrap_all_spec : forall fields src tds h h' ps, rewrap_all fields h src tds = ROk h' ps ->
  h_td h' = h_td h
  /\ (exists ext, h_nt h' = h_nt h ++ ext /\ List.length ext = List.length tds)
  /\ map i_td ps = tds
  /\ map i_nt ps = seq (List.length (h_nt h)) (List.length tds)
  /\ (forall p, In p ps -> wf_h fields h' p = true)
  /\ (tds <> [] -> i_nt src < List.length (h_nt h)).
Proof.
  intros fields src tds. induction tds as [|a r IH]; intros h h' ps H; cbn in H.
  - inversion H. subst. repeat split; try reflexivity.
    + exists []. rewrite app_nil_r. auto.
    + intros p [].
    + intros X. congruence.
  - destruct (rewrap_one fields h src a) as [h1 p| |] eqn:O; try discriminate.
    destruct (rewrap_all fields h1 src r) as [h2 ps2| |] eqn:Rr; try discriminate.
    inversion H. subst h' ps. clear H.
    apply rewrap_one_spec in O. destruct O as [nt [td [nt' [E1 [E2 [F [Eh Ep]]]]]]].
    specialize (IH h1 h2 ps2 Rr). destruct IH as [I1 [[ext [I2 I2l]] [I3 [I4 [I5 _]]]]].
    subst h1. cbn [h_td h_nt] in *.
    split; [exact I1|]. split; [|split; [|split; [|split]]].
    + exists (nt' :: ext). rewrite I2. rewrite <- app_assoc. cbn. split; [reflexivity | lia].
    + cbn. rewrite I3. subst p. reflexivity.
    + cbn. rewrite I4. subst p. cbn [i_nt]. rewrite app_length. cbn. replace (List.length (h_nt h) + 1) with (S (List.length (h_nt h))) by lia. reflexivity.
    + intros q [Hq|Hq]; [|apply I5; exact Hq]. subst q p. unfold wf_h, view. cbn [i_td i_nt].
      rewrite I1, E2. rewrite I2. rewrite <- app_assoc. cbn [List.app].
      rewrite nth_error_app2 by lia. rewrite Nat.sub_diag. cbn. eapply from_td_wf. exact F.
    + intros _. eapply nth_error_Some_lt. exact E1.
Qed.

Lemma seq_nth_error : forall n s i, i < n -> nth_error (seq s n) i = Some (s + i).
Proof.
  intros n. induction n as [|n IH]; intros s i H; [lia|]. destruct i; cbn; [f_equal; lia|].
  rewrite IH by lia. f_equal. lia.
Qed.

Lemma pieces_addr : forall fields src tds h h' ps i p, rewrap_all fields h src tds = ROk h' ps -> nth_error ps i = Some p ->
  i_nt p = List.length (h_nt h) + i /\ i < List.length tds.
Proof.
  intros fields src tds h h' ps i p R Hn. apply rewrap_all_spec in R. destruct R as [_ [_ [M1 [M2 _]]]].
  assert (i < List.length ps) as L by (eapply nth_error_Some_lt; exact Hn).
  assert (List.length ps = List.length tds) as Lp by (rewrite <- M1; rewrite map_length; reflexivity).
  pose proof (map_nth_error i_nt i ps Hn) as X. rewrite M2 in X. rewrite seq_nth_error in X by lia. inversion X. split; [reflexivity | lia].
Qed.

(* ------------------------------------------------------------------------------------------------ frame of an in-place edit *)
Lemma write_back_nt_other : forall h p s a, a <> i_nt p -> nth_error (h_nt (write_back h p s)) a = nth_error (h_nt h) a.
Proof. intros. unfold write_back. cbn. apply nth_error_hset_other. congruence. Qed.
Lemma write_back_td_other : forall h p s a, a <> i_td p -> nth_error (h_td (write_back h p s)) a = nth_error (h_td h) a.
Proof. intros. unfold write_back. cbn. apply nth_error_hset_other. congruence. Qed.

Lemma write_back_view_other : forall h p s q, i_nt q <> i_nt p -> i_td q <> i_td p -> view (write_back h p s) q = view h q.
Proof. intros h p s q N1 N2. unfold view. rewrite write_back_nt_other by exact N1. rewrite write_back_td_other by exact N2. reflexivity. Qed.

Lemma write_back_view_self : forall h p s s0, view h p = Some s0 -> view (write_back h p s) p = Some s.
Proof.
  intros h p s s0 V. unfold view in *.
  destruct (nth_error (h_td h) (i_td p)) eqn:E1; [|discriminate]. destruct (nth_error (h_nt h) (i_nt p)) eqn:E2; [|discriminate].
  unfold write_back. cbn [h_td h_nt].
  rewrite nth_error_hset_same by (eapply nth_error_Some_lt; exact E1).
  rewrite nth_error_hset_same by (eapply nth_error_Some_lt; exact E2). destruct s. reflexivity.
Qed.

(* an operation that edits the two dicts of ONE instance in place *)
Definition edits (h : heap) (p : inst) (h'' : heap) : Prop := exists s0 s', view h p = Some s0 /\ h'' = write_back h p s'.

Lemma set_field_h_edits : forall fields lk o hn h p k v id h'', set_field_h fields lk o hn h p k v id = HOk h'' -> edits h p h''.
Proof.
  intros fields lk o hn h p k v id h'' H. unfold set_field_h in H. destruct (view h p) as [s0|] eqn:V; [|discriminate].
  destruct (set_field fields lk o hn s0 k v id) as [s'|e]; [|discriminate]. inversion H. exists s0, s'. auto.
Qed.
Lemma del_field_h_edits : forall h p k h'', del_field_h h p k = HOk h'' -> edits h p h''.
Proof.
  intros h p k h'' H. unfold del_field_h in H. destruct (view h p) as [s0|] eqn:V; [|discriminate].
  destruct (del_field s0 k) as [s'|e]; [|discriminate]. inversion H. exists s0, s'. auto.
Qed.

(* THE FRAME THEOREM.  The results of one call own pairwise distinct, fresh non-tensor stores: an in-place edit of result i
   (assignment of any kind of value to any field, deletion) leaves the store of every sibling j <> i and of the source as it
   was; what sibling j / the source READ is unchanged whenever they do not also share the tensordict object with result i
   (members of a lazy stack reached twice do); and every sibling keeps "every field in exactly one store". *)
Theorem edit_piece_frame : forall fields src tds h h' ps i j pi pj h'',
  rewrap_all fields h src tds = ROk h' ps -> nth_error ps i = Some pi -> nth_error ps j = Some pj -> i <> j ->
  edits h' pi h'' ->
  nth_error (h_nt h'') (i_nt pj) = nth_error (h_nt h') (i_nt pj)
  /\ nth_error (h_nt h'') (i_nt src) = nth_error (h_nt h) (i_nt src)
  /\ (i_td pj <> i_td pi -> forall f, get_field_h fields h'' pj f = get_field_h fields h' pj f)
  /\ (i_td pj <> i_td pi -> wf_h fields h'' pj = true)
  /\ (i_td src <> i_td pi -> forall f, get_field_h fields h'' src f = get_field_h fields h src f).
Proof.
  intros fields src tds h h' ps i j pi pj h'' R Hi Hj N [s0 [s' [V E]]]. subst h''.
  destruct (pieces_addr _ _ _ _ _ _ _ _ R Hi) as [Ai Li]. destruct (pieces_addr _ _ _ _ _ _ _ _ R Hj) as [Aj Lj].
  pose proof (rewrap_all_spec _ _ _ _ _ _ R) as [T1 [[ext [T2 T2l]] [_ [_ [W L]]]]].
  assert (tds <> []) as NE by (destruct tds; [cbn in Li; lia | congruence]).
  specialize (L NE).
  assert (i_nt pj <> i_nt pi) as Nij by lia.
  assert (i_nt src <> i_nt pi) as Nsi by lia.
  split; [apply write_back_nt_other; exact Nij|]. split; [|split; [|split]].
  - rewrite write_back_nt_other by exact Nsi. rewrite T2. apply nth_error_app_old. exact L.
  - intros Ntd f. unfold get_field_h. rewrite write_back_view_other by assumption. reflexivity.
  - intros Ntd. unfold wf_h. rewrite write_back_view_other by assumption. apply (W pj). eapply nth_error_In. exact Hj.
  - intros Ntd f. unfold get_field_h. rewrite write_back_view_other by assumption.
    unfold view. rewrite T1. rewrite T2. rewrite nth_error_app_old by exact L. reflexivity.
Qed.

(* the edited result itself: an assignment keeps its invariant, and reads back what was assigned *)
Theorem set_piece_self : forall fields src tds h h' ps i pi o hn k v id h'',
  rewrap_all fields h src tds = ROk h' ps -> nth_error ps i = Some pi ->
  set_field_h fields false o hn h' pi k v id = HOk h'' ->
  wf_h fields h'' pi = true /\ get_field_h fields h'' pi k = Some (readback o hn v id).
Proof.
  intros fields src tds h h' ps i pi o hn k v id h'' R Hi S.
  pose proof (rewrap_all_spec _ _ _ _ _ _ R) as [_ [_ [_ [_ [W _]]]]].
  assert (wf_h fields h' pi = true) as Wp by (apply W; eapply nth_error_In; exact Hi).
  unfold set_field_h in S. unfold wf_h in Wp. destruct (view h' pi) as [s0|] eqn:V; [|discriminate].
  destruct (set_field fields false o hn s0 k v id) as [s'|e] eqn:Sf; [|discriminate]. inversion S. subst h''.
  unfold wf_h, get_field_h. rewrite (write_back_view_self _ _ _ _ V). cbn. split.
  - eapply set_wf; eassumption.
  - f_equal. eapply set_then_get. exact Sf.
Qed.

(* the unbind itself changes nothing the source reads *)
Theorem rewrap_keeps_source : forall fields src tds h h' ps, rewrap_all fields h src tds = ROk h' ps -> tds <> [] ->
  view h' src = view h src.
Proof.
  intros fields src tds h h' ps R NE. pose proof (rewrap_all_spec _ _ _ _ _ _ R) as [T1 [[ext [T2 _]] [_ [_ [_ L]]]]].
  unfold view. rewrite T1, T2. rewrite nth_error_app_old by (apply L; exact NE). reflexivity.
Qed.

(* ------------------------------------------------------------------------------------------------ python values *)
Definition val_eq (a b : pyobj) : Prop := ocls a = ocls b.
Definition item_objs (it : ntitem) : list pyobj := match it with INtd _ v => [v] | INts vs => vs | ITensor _ => [] end.
(* identity determines the object *)
Definition ident_ok (objs : list pyobj) : Prop := forall a b, In a objs -> In b objs -> oid a = oid b -> a = b.

Lemma py_eq_true : forall a b, py_eq a b = EqT -> ocls a = ocls b.
Proof.
  intros a b H. unfold py_eq in H. destruct (oraises a || oraises b); [discriminate|].
  destruct (Nat.eqb (ocls a) (ocls b)) eqn:E; [apply Nat.eqb_eq; exact E | discriminate].
Qed.

Definition is_data_of_class (first : pyobj) (it : ntitem) : Prop := exists n v, it = INtd n v /\ ocls v = ocls first.

Lemma same_loop_sound : forall first rest, ident_ok (first :: flat_map item_objs rest) -> same_loop first rest = true ->
  Forall (is_data_of_class first) rest.
Proof.
  intros first rest. induction rest as [|it r IH]; intros Id H; [constructor|].
  assert (ident_ok (first :: flat_map item_objs r)) as Id'.
  { intros a b Ha Hb. apply Id; cbn in *; (destruct Ha as [Ha|Ha]; [left; exact Ha | right; apply in_or_app; right; exact Ha])
                                      || (destruct Hb as [Hb|Hb]; [left; exact Hb | right; apply in_or_app; right; exact Hb]). }
  destruct it as [n v|vs|n]; cbn in H; try discriminate.
  destruct (py_is v first) eqn:Is.
  - constructor; [|apply IH; assumption]. exists n, v. split; [reflexivity|].
    unfold py_is in Is. apply Nat.eqb_eq in Is.
    assert (v = first) as X by (apply Id; [right; cbn; left; reflexivity | left; reflexivity | exact Is]). subst. reflexivity.
  - destruct (py_eq v first) eqn:E; try discriminate.
    constructor; [|apply IH; assumption]. exists n, v. split; [reflexivity | apply py_eq_true; exact E].
Qed.

Lemma Forall2_repeat_l : forall (v : pyobj) l, Forall (fun b => ocls v = ocls b) l -> Forall2 val_eq (repeat v (List.length l)) l.
Proof. intros v l H. induction H as [|b r Hb Hr IH]; cbn; constructor; assumption. Qed.

Lemma rows_of_class : forall first r, Forall (is_data_of_class first) r ->
  Forall (fun b => ocls first = ocls b) (flat_map item_rows r)
  /\ List.length (flat_map item_rows r) = fold_right (fun it n => item_nrows it + n) 0 r.
Proof.
  intros first r H. induction H as [|it r [n [v [E C]]] Hr [IH1 IH2]]; cbn; [split; [constructor | reflexivity]|].
  subst it. cbn. split.
  - apply Forall_app. split; [|exact IH1]. apply Forall_forall. intros x Hx. apply repeat_spec in Hx. subst. symmetry. exact C.
  - rewrite app_length, repeat_length, IH2. reflexivity.
Qed.

Lemma Forall2_val_eq_refl : forall l, Forall2 val_eq l l.
Proof. intros l. induction l; constructor; [reflexivity | assumption]. Qed.

(* ROW PROVENANCE for torch.cat, any number of operands: the rows of the result under a non-tensor key carry, position by
   position, the python value (equality class) of the rows of the operands laid side by side *)
Theorem cat_rows_provenance : forall items, forallb is_nt items = true -> ident_ok (flat_map item_objs items) ->
  Forall2 val_eq (res_rows (cat_nt items)) (flat_map item_rows items).
Proof.
  intros items Hnt Id. unfold cat_nt, cat_key. rewrite Hnt. destruct (same_non_tensor items) eqn:S; cbn [negb andb].
  - unfold same_non_tensor in S. destruct (forallb is_ntd items) eqn:A; cbn in S; [|discriminate].
    destruct items as [|[n v|vs|n] r]; try discriminate.
    cbn [res_rows flat_map item_rows fold_right item_nrows].
    assert (ident_ok (v :: flat_map item_objs r)) as Id' by exact Id.
    pose proof (same_loop_sound v r Id' S) as F. apply rows_of_class in F. destruct F as [F1 F2].
    rewrite <- F2. rewrite repeat_app. apply Forall2_app.
    + clear. induction n; cbn; constructor; [reflexivity | assumption].
    + apply Forall2_repeat_l. exact F1.
  - cbn. apply Forall2_val_eq_refl.
Qed.

(* the same statement by row number: the value at row r is the value of the operand that owns row r *)
Fixpoint owner_row (items : list ntitem) (r : nat) : option pyobj :=
  match items with
  | [] => None
  | it :: rest => if Nat.ltb r (List.length (item_rows it)) then nth_error (item_rows it) r
                  else owner_row rest (r - List.length (item_rows it))
  end.

Lemma owner_row_flat : forall items r, owner_row items r = nth_error (flat_map item_rows items) r.
Proof.
  intros items. induction items as [|it rest IH]; intros r; [destruct r; reflexivity|].
  cbn [owner_row flat_map]. destruct (Nat.ltb r (List.length (item_rows it))) eqn:E.
  - apply Nat.ltb_lt in E. rewrite nth_error_app1 by exact E. reflexivity.
  - apply Nat.ltb_ge in E. rewrite nth_error_app2 by exact E. apply IH.
Qed.

Lemma Forall2_nth_error_r : forall A B (P : A -> B -> Prop) l m r x, Forall2 P l m -> nth_error m r = Some x ->
  exists y, nth_error l r = Some y /\ P y x.
Proof.
  intros A B P l m r x H. revert r. induction H as [|a b l m Hab Hlm IH]; intros r Hn; [destruct r; discriminate|].
  destruct r; cbn in *; [inversion Hn; subst; eauto | apply IH; exact Hn].
Qed.

Theorem cat_row_owner : forall items r x, forallb is_nt items = true -> ident_ok (flat_map item_objs items) ->
  owner_row items r = Some x -> exists y, nth_error (res_rows (cat_nt items)) r = Some y /\ ocls y = ocls x.
Proof.
  intros items r x Hnt Id Ho. rewrite owner_row_flat in Ho.
  exact (Forall2_nth_error_r _ _ val_eq _ _ r x (cat_rows_provenance items Hnt Id) Ho).
Qed.

(* ------------------------------------------------------------------------------------------------ stack *)
Lemma two_in_short : forall (l : list nat) a b, List.length l <= 1 -> In a l -> In b l -> a = b.
Proof.
  intros l a b L Ha Hb. destruct l as [|x [|y r]]; cbn in *; [contradiction | | lia].
  destruct Ha as [Ha|[]]; destruct Hb as [Hb|[]]; congruence.
Qed.

Lemma stack_loop_sound : forall first rest ids, In (oid first) ids -> ident_ok (first :: flat_map item_objs rest) ->
  stack_loop first ids rest = true -> Forall (is_data_of_class first) rest.
Proof.
  intros first rest. induction rest as [|it r IH]; intros ids Hin Id H; [constructor|].
  assert (ident_ok (first :: flat_map item_objs r)) as Id'.
  { intros a b Ha Hb. apply Id; cbn in *; (destruct Ha as [Ha|Ha]; [left; exact Ha | right; apply in_or_app; right; exact Ha])
                                      || (destruct Hb as [Hb|Hb]; [left; exact Hb | right; apply in_or_app; right; exact Hb]). }
  destruct it as [n v|vs|n]; cbn [stack_loop] in H; try discriminate.
  set (ids' := if existsb (Nat.eqb (oid v)) ids then ids else oid v :: ids) in *.
  assert (In (oid first) ids') as Hin'.
  { unfold ids'. destruct (existsb (Nat.eqb (oid v)) ids); [exact Hin | right; exact Hin]. }
  assert (In (oid v) ids') as Hv.
  { unfold ids'. destruct (existsb (Nat.eqb (oid v)) ids) eqn:E; [|left; reflexivity].
    apply existsb_exists in E. destruct E as [x [Hx Ex]]. apply Nat.eqb_eq in Ex. subst. exact Hx. }
  destruct (Nat.ltb 1 (List.length ids')) eqn:L.
  - destruct (check_equal v first) eqn:C; [|discriminate].
    constructor; [|eapply IH; eassumption]. exists n, v. split; [reflexivity|].
    unfold check_equal in C. destruct (py_eq v first) eqn:E; try discriminate. apply py_eq_true. exact E.
  - apply Nat.ltb_ge in L. constructor; [|eapply IH; eassumption]. exists n, v. split; [reflexivity|].
    assert (oid v = oid first) as X by (eapply two_in_short; eassumption).
    assert (v = first) as Y by (apply Id; [right; cbn; left; reflexivity | left; reflexivity | exact X]). subst. reflexivity.
Qed.

Lemma objs_of_class : forall first r, Forall (is_data_of_class first) r ->
  Forall (fun b => ocls first = ocls b) (flat_map item_objs r) /\ List.length (flat_map item_objs r) = List.length r.
Proof.
  intros first r H. induction H as [|it r [n [v [E C]]] Hr [IH1 IH2]]; cbn; [split; [constructor | reflexivity]|].
  subst it. cbn. split; [constructor; [symmetry; exact C | exact IH1] | rewrite IH2; reflexivity].
Qed.

Lemma flat_map_value_objs : forall items, forallb is_ntd items = true ->
  flat_map (fun it => match item_value it with Some v => [v] | None => [] end) items = flat_map item_objs items.
Proof.
  intros items. induction items as [|[n v|vs|n] r IH]; intros H; cbn in *; try discriminate; [reflexivity|]. rewrite IH by exact H. reflexivity.
Qed.

(* ROW PROVENANCE for torch.stack (NonTensorData operands, any number): entry k of the result along the new dimension carries
   the python value of operand k *)
Theorem stack_rows_provenance : forall items, forallb is_ntd items = true -> items <> [] -> ident_ok (flat_map item_objs items) ->
  Forall2 val_eq (res_rows (stack_nt items)) (flat_map item_objs items).
Proof.
  intros items A NE Id. destruct items as [|[n v|vs|n] r]; try congruence; try (cbn in A; discriminate).
  unfold stack_nt. destruct (stack_loop v [] (INtd n v :: r)) eqn:S.
  - change (stack_loop v [oid v] r = true) in S.
    assert (Forall (is_data_of_class v) r) as F.
    { apply (stack_loop_sound v r [oid v]); [left; reflexivity | exact Id | exact S]. }
    apply objs_of_class in F. destruct F as [F1 F2].
    cbn [res_rows List.length flat_map item_objs List.app]. rewrite <- F2. cbn [repeat].
    constructor; [reflexivity|]. apply Forall2_repeat_l. exact F1.
  - rewrite A. cbn [res_rows]. rewrite flat_map_value_objs by exact A. apply Forall2_val_eq_refl.
Qed.

(* ------------------------------------------------------------------------------------------------ the store of an n-ary result *)
Theorem nary_store_agreeing : forall stores s k sk f, nary_store stores = Some s -> nth_error stores k = Some sk ->
  (forall a b, In a stores -> In b stores -> lookup f a = lookup f b) -> lookup f s = lookup f sk.
Proof.
  intros stores s k sk f H Hk Ag. destruct stores as [|s0 r]; [discriminate|]. inversion H. subst.
  apply Ag; [left; reflexivity | eapply nth_error_In; exact Hk].
Qed.
