From Coq Require Import List Bool Permutation.
Import ListNotations.
From TD Require Import Model.C18_SeqKeys.

Section SeqKeysP.
  Context {K : Type} (keqb : K -> K -> bool).
  Hypothesis keqb_eq : forall a b, keqb a b = true <-> a = b.

  Lemma mem_In k l : mem keqb k l = true <-> In k l.
  Proof.
    unfold mem. rewrite existsb_exists. split.
    - intros [x [Hx E]]. apply keqb_eq in E. now subst.
    - intros H. exists k. split; [exact H|]. now apply keqb_eq.
  Qed.

  Lemma to_set_In l : forall k, In k (to_set keqb l) <-> In k l.
  Proof.
    induction l as [|x r IH]; intros k; cbn; [tauto|].
    destruct (mem keqb x (to_set keqb r)) eqn:E.
    - rewrite IH. split; [now right|]. intros [<-|H]; [|exact H]. apply IH. now apply mem_In.
    - cbn. rewrite IH. tauto.
  Qed.

  Lemma to_set_NoDup l : NoDup (to_set keqb l).
  Proof.
    induction l as [|x r IH]; cbn; [constructor|].
    destruct (mem keqb x (to_set keqb r)) eqn:E; [exact IH|].
    constructor; [|exact IH]. intros H. apply mem_In in H. congruence.
  Qed.

  Lemma union_In a b k : In k (union keqb a b) <-> In k a \/ In k b.
  Proof.
    unfold union. rewrite in_app_iff, filter_In. split.
    - intros [H|[H _]]; tauto.
    - intros [H|H]; [now left|]. destruct (mem keqb k a) eqn:E; [left; now apply mem_In|right].
      split; [exact H|reflexivity].
  Qed.

  Lemma NoDup_app_disjoint (a b : list K) : NoDup a -> NoDup b -> (forall x, In x a -> ~ In x b) -> NoDup (a ++ b).
  Proof.
    induction a as [|x a IH]; intros Ha Hb Hd; cbn; [exact Hb|].
    inversion Ha as [|? ? Hx Ha']; subst. constructor.
    - rewrite in_app_iff. intros [H|H]; [contradiction|]. apply (Hd x); [now left|exact H].
    - apply IH; [exact Ha'|exact Hb|]. intros y Hy. apply Hd. now right.
  Qed.

  Lemma union_NoDup a b : NoDup a -> NoDup b -> NoDup (union keqb a b).
  Proof.
    intros Ha Hb. unfold union. apply NoDup_app_disjoint; [exact Ha|now apply NoDup_filter|].
    intros x Hx Hf. apply filter_In in Hf. destruct Hf as [_ Hf].
    apply mem_In in Hx. cbv beta in Hf. rewrite Hx in Hf. discriminate.
  Qed.

  (* both arms build the same SET: same members, no duplicates -- the two lists are permutations of each other *)
  Theorem seq_keys_same_members o t k : In k (keys_compile keqb o t) <-> In k (keys_eager keqb o t).
  Proof.
    unfold keys_compile, keys_eager. rewrite union_In, !to_set_In, in_app_iff. tauto.
  Qed.

  Theorem seq_keys_dual o t : Permutation (keys_compile keqb o t) (keys_eager keqb o t).
  Proof.
    apply NoDup_Permutation.
    - apply union_NoDup; apply to_set_NoDup.
    - apply to_set_NoDup.
    - apply seq_keys_same_members.
  Qed.
End SeqKeysP.
