From Coq Require Import ZArith List Bool Lia Arith.
Import ListNotations.
From TD Require Import Model.C12_Chunk.
Open Scope nat_scope.

(* ------------------------------------------------------------------ python's -(n // -k) is the ceiling *)
Lemma pyceil_bounds n k : k > 0 -> n <= pyceil n k * k /\ pyceil n k * k < n + k.
Proof.
  intro Hk. unfold pyceil.
  set (N := Z.of_nat n). set (K := Z.of_nat k).
  assert (HK : (0 < K)%Z) by (unfold K; lia).
  assert (HN : (0 <= N)%Z) by (unfold N; lia).
  pose proof (Z_div_mod_eq_full N (- K)) as Hdm.
  assert (Hr : (- K < N mod - K <= 0)%Z) by (apply Z.mod_neg_bound; lia).
  set (q := (N / - K)%Z) in *. set (r := (N mod - K)%Z) in *.
  assert (Hq : (0 <= - q)%Z) by nia.
  assert (Hc : Z.of_nat (Z.to_nat (- q)) = (- q)%Z) by (apply Z2Nat.id; exact Hq).
  split.
  - apply Nat2Z.inj_le. rewrite Nat2Z.inj_mul, Hc. fold N K. nia.
  - apply Nat2Z.inj_lt. rewrite Nat2Z.inj_mul, Nat2Z.inj_add, Hc. fold N K. nia.
Qed.

Lemma pyceil_pos n k : n > 0 -> k > 0 -> pyceil n k >= 1.
Proof.
  intros Hn Hk. destruct (pyceil_bounds n k Hk) as [H1 _].
  destruct (pyceil n k); [simpl in H1; lia|lia].
Qed.

Lemma pyceil_closed n k : k > 0 -> pyceil n k = (n + k - 1) / k.
Proof.
  intro Hk. destruct (pyceil_bounds n k Hk) as [H1 H2].
  apply Nat.div_unique with (r := n + k - 1 - pyceil n k * k); [lia|rewrite (Nat.mul_comm k); lia].
Qed.

(* ------------------------------------------------------------------ tiles *)
Lemma tilesb_iff lo hi bs : tilesb lo hi bs = true <-> tiles lo hi bs.
Proof.
  revert lo. induction bs as [|[a b] r IH]; intro lo; cbn [tilesb tiles].
  - rewrite Nat.eqb_eq. tauto.
  - rewrite !andb_true_iff, Nat.eqb_eq, Nat.ltb_lt, IH. tauto.
Qed.

Lemma tiles_le lo hi bs : tiles lo hi bs -> lo <= hi.
Proof.
  revert lo. induction bs as [|[a b] r IH]; intro lo; cbn [tiles]; [lia|].
  intros (-> & Hab & Hr). apply IH in Hr. lia.
Qed.

Lemma tiles_app lo mid hi l1 l2 : tiles lo mid l1 -> tiles mid hi l2 -> tiles lo hi (l1 ++ l2).
Proof.
  revert lo. induction l1 as [|[a b] r IH]; intro lo; cbn [tiles app].
  - intros ->. auto.
  - intros (-> & Hab & Hr) H2. repeat split; auto.
Qed.

Lemma tiles_nonempty lo hi bs : tiles lo hi bs -> lo < hi -> bs <> [].
Proof. destruct bs; cbn [tiles]; [lia|discriminate]. Qed.

(* every position of [lo, hi) lies in exactly one piece, pieces are in increasing order *)
Lemma tiles_cover lo hi bs : tiles lo hi bs ->
  forall i, lo <= i < hi -> exists a b, In (a, b) bs /\ a <= i < b.
Proof.
  revert lo. induction bs as [|[a b] r IH]; intro lo; cbn [tiles].
  - intros -> i Hi. lia.
  - intros (-> & Hab & Hr) i Hi. destruct (Nat.lt_ge_cases i b) as [Hlt|Hge].
    + exists lo, b. split; [now left|lia].
    + destruct (IH _ Hr i) as (a' & b' & Hin & Hi'); [lia|]. exists a', b'. split; [now right|exact Hi'].
Qed.

Lemma tiles_in lo hi bs : tiles lo hi bs -> forall c d, In (c, d) bs -> lo <= c /\ c < d /\ d <= hi.
Proof.
  revert lo. induction bs as [|[a b] r IH]; intro lo; cbn [tiles In]; [tauto|].
  intros (-> & Hab & Hr) c d [Heq|Hin].
  - injection Heq as <- <-. pose proof (tiles_le _ _ _ Hr). lia.
  - destruct (IH _ Hr c d Hin) as (H1 & H2 & H3). lia.
Qed.

(* pieces are pairwise disjoint and in increasing order *)
Lemma tiles_disjoint lo hi bs : tiles lo hi bs ->
  forall i j a b c d, nth_error bs i = Some (a, b) -> nth_error bs j = Some (c, d) -> i < j -> lo <= a /\ b <= c /\ d <= hi.
Proof.
  revert lo. induction bs as [|[a0 b0] r IH]; intro lo; cbn [tiles].
  - intros _ i j a b c d H. destruct i; discriminate.
  - intros (-> & Hab & Hr) i j a b c d Hi Hj Hij.
    destruct j as [|j]; [lia|]. cbn [nth_error] in Hj.
    destruct i as [|i]; cbn [nth_error] in Hi.
    + injection Hi as <- <-. apply nth_error_In in Hj.
      destruct (tiles_in _ _ _ Hr c d Hj) as (H1 & H2 & H3). lia.
    + assert (Hij' : i < j) by lia.
      destruct (IH _ Hr i j a b c d Hi Hj Hij') as (H1 & H2 & H3). lia.
Qed.

(* ------------------------------------------------------------------ TensorDict.split / chunk *)
Lemma split_loop_tiles : forall fuel n ss idx1,
  ss >= 1 -> idx1 <= n -> n - idx1 <= fuel ->
  exists l, split_loop fuel n ss idx1 = Ok l /\ tiles idx1 n l.
Proof.
  induction fuel as [|f IH]; intros n ss idx1 Hss Hle Hfuel; cbn [split_loop].
  - destruct (idx1 <? n) eqn:E; [apply Nat.ltb_lt in E; lia|].
    apply Nat.ltb_ge in E. exists []. split; [reflexivity|cbn; lia].
  - destruct (idx1 <? n) eqn:E.
    + apply Nat.ltb_lt in E.
      destruct (IH n ss (min n (idx1 + ss))) as (l & Hl & Ht); [lia|lia|lia|].
      rewrite Hl. cbn [rmap]. eexists. split; [reflexivity|]. cbn [tiles]. repeat split; [lia|exact Ht].
    + apply Nat.ltb_ge in E. exists []. split; [reflexivity|cbn; lia].
Qed.

Lemma td_split_tiles n ss : n > 0 -> ss >= 1 -> exists l, td_split n ss = Ok l /\ tiles 0 n l.
Proof.
  intros Hn Hss. unfold td_split.
  destruct (split_loop_tiles n n ss (min n ss)) as (l & Hl & Ht); [lia|lia|lia|].
  rewrite Hl. cbn [rmap]. eexists. split; [reflexivity|]. cbn [tiles]. repeat split; [lia|exact Ht].
Qed.

Lemma td_chunk_tiles n k : n > 0 -> k >= 1 -> exists l, td_chunk n k = Ok l /\ tiles 0 n l.
Proof.
  intros Hn Hk. unfold td_chunk. destruct (k <? 1) eqn:E; [apply Nat.ltb_lt in E; lia|].
  assert (Hc : pyceil n k >= 1) by (apply pyceil_pos; lia).
  replace (pyceil n k =? 0) with false by (symmetry; apply Nat.eqb_neq; lia).
  apply td_split_tiles; [lia|]. exact Hc.
Qed.

(* the loop = the closed form: pieces of size ss, the last one ragged *)
Lemma split_loop_closed : forall m n ss j,
  ss >= 1 -> j * ss <= n -> (n - j * ss + ss - 1) / ss = m ->
  forall fuel, n - j * ss <= fuel ->
  split_loop fuel n ss (j * ss) = Ok (map (fun i => (i * ss, min n ((i + 1) * ss))) (seq j m)).
Proof.
  induction m as [|m IH]; intros n ss j Hss Hj Hm fuel Hfuel.
  - assert (n - j * ss = 0).
    { destruct (Nat.eq_dec (n - j * ss) 0) as [|Hne]; [assumption|].
      assert (1 <= (n - j * ss + ss - 1) / ss); [|lia].
      apply Nat.div_le_lower_bound; lia. }
    destruct fuel; cbn [split_loop]; (destruct (j * ss <? n) eqn:E; [apply Nat.ltb_lt in E; lia|reflexivity]).
  - assert (Hlt : j * ss < n).
    { destruct (Nat.lt_ge_cases (j * ss) n) as [|Hge]; [assumption|].
      assert (n - j * ss + ss - 1 < ss) by lia.
      rewrite Nat.div_small in Hm by assumption. discriminate. }
    destruct fuel as [|f]; [lia|]. cbn [split_loop]. rewrite (proj2 (Nat.ltb_lt _ _) Hlt).
    cbn [seq map].
    destruct (Nat.le_gt_cases (j * ss + ss) n) as [Hfit|Hrag].
    + rewrite (Nat.min_r n (j * ss + ss)) by lia.
      replace (j * ss + ss) with ((S j) * ss) by lia.
      rewrite (IH n ss (S j)); [| lia | lia | | lia].
      * cbn [rmap]. do 3 f_equal. all: lia.
      * assert (Heq : n - j * ss + ss - 1 = (n - S j * ss + ss - 1) + 1 * ss) by lia.
        rewrite Heq, Nat.div_add in Hm by lia. lia.
    + rewrite (Nat.min_l n (j * ss + ss)) by lia.
      assert (Hm1 : m = 0).
      { assert ((n - j * ss + ss - 1) / ss < 2); [|lia].
        apply Nat.div_lt_upper_bound; lia. }
      subst m. cbn [seq map].
      destruct f; cbn [split_loop]; rewrite Nat.ltb_irrefl; cbn [rmap];
        (do 3 f_equal; replace ((j + 1) * ss) with (j * ss + ss) by lia; lia).
Qed.

Lemma td_split_closed n ss : n > 0 -> ss >= 1 -> td_split n ss = Ok (spec_bounds n ss).
Proof.
  intros Hn Hss. unfold td_split, spec_bounds.
  remember ((n + ss - 1) / ss) as c eqn:Hc.
  assert (Hc1 : c >= 1).
  { subst c. apply Nat.div_le_lower_bound; lia. }
  destruct c as [|m]; [lia|]. cbn [seq map].
  destruct (Nat.le_gt_cases ss n) as [Hfit|Hbig].
  - rewrite (Nat.min_r n ss) by lia.
    pose proof (split_loop_closed m n ss 1 Hss) as H. rewrite Nat.mul_1_l in H.
    rewrite H; [| lia | | lia].
    + cbn [rmap]. do 3 f_equal; lia.
    + assert (Heq : n + ss - 1 = (n - ss + ss - 1) + 1 * ss) by lia.
      rewrite Heq, Nat.div_add in Hc by lia. lia.
  - rewrite (Nat.min_l n ss) by lia.
    assert (m = 0).
    { assert ((n + ss - 1) / ss < 2); [|lia]. apply Nat.div_lt_upper_bound; lia. }
    subst m. cbn [seq map].
    destruct n; [lia|]. cbn [split_loop]. rewrite Nat.ltb_irrefl. cbn [rmap].
    do 3 f_equal; lia.
Qed.

(* ------------------------------------------------------------------ generator mode = chunk / split *)
Lemma gen_loop_split_loop : forall fuel n ss i,
  ss >= 1 -> i <= n ->
  rmap (map (bounds n)) (gen_loop fuel n ss i (i + ss)) = split_loop fuel n ss i.
Proof.
  induction fuel as [|f IH]; intros n ss i Hss Hi; cbn [gen_loop split_loop].
  - destruct (i <? n); reflexivity.
  - destruct (i <? n) eqn:E; [|reflexivity]. apply Nat.ltb_lt in E.
    destruct (Nat.le_gt_cases (i + ss) n) as [Hfit|Hrag].
    + rewrite (Nat.min_r n (i + ss)) by lia.
      rewrite <- (IH n ss (i + ss)) by lia.
      destruct (gen_loop f n ss (i + ss) (i + ss + ss)); cbn [rmap map bounds]; [|reflexivity].
      do 3 f_equal; lia.
    + rewrite (Nat.min_l n (i + ss)) by lia.
      destruct f; cbn [gen_loop split_loop]; rewrite Nat.ltb_irrefl;
        (destruct (i + ss <? n) eqn:E2; [apply Nat.ltb_lt in E2; lia|]);
        cbn [rmap map bounds]; do 3 f_equal; lia.
Qed.

Lemma split_loop_mono : forall f n ss i l, split_loop f n ss i = Ok l -> split_loop (S f) n ss i = Ok l.
Proof.
  induction f as [|f IH]; intros n ss i l; cbn [split_loop].
  - destruct (i <? n); [discriminate|]. auto.
  - destruct (i <? n) eqn:E; [|auto].
    destruct (split_loop f n ss (min n (i + ss))) eqn:G; cbn [rmap]; [|discriminate].
    intro H. injection H as <-. apply IH in G. cbn [split_loop] in G. rewrite G. reflexivity.
Qed.

Lemma gen_slices_td_split n ss : n > 0 -> ss >= 1 ->
  rmap (map (bounds n)) (gen_slices n ss) = td_split n ss.
Proof.
  intros Hn Hss. unfold gen_slices.
  pose proof (gen_loop_split_loop n n ss 0 Hss ltac:(lia)) as H. rewrite Nat.add_0_l in H. rewrite H.
  unfold td_split. destruct n as [|n']; [lia|]. set (n := S n') in *.
  change (split_loop n n ss 0) with (split_loop (S n') n ss 0).
  cbn [split_loop]. change (0 <? n) with true. cbn match. rewrite ?Nat.add_0_l.
  destruct (split_loop_tiles n' n ss (min n ss)) as (l & Hl & _); [lia|lia|lia|].
  rewrite Hl. apply split_loop_mono in Hl. fold n in Hl. rewrite Hl. reflexivity.
Qed.

(* td.split(k) with k >= n is one piece; this is why clamping chunksize (non-generator mode) changes nothing *)
Lemma td_split_min n ss : n > 0 -> ss >= 1 -> td_split n (min n ss) = td_split n ss.
Proof.
  intros Hn Hss. destruct (Nat.le_gt_cases ss n); [now rewrite Nat.min_r by lia|].
  rewrite Nat.min_l by lia. rewrite !td_split_closed by lia. unfold spec_bounds.
  replace ((n + n - 1) / n) with 1.
  2:{ apply Nat.div_unique with (r := n - 1); lia. }
  replace ((n + ss - 1) / ss) with 1.
  2:{ apply Nat.div_unique with (r := n - 1); lia. }
  cbn [seq map]. do 3 f_equal; lia.
Qed.

(* ------------------------------------------------------------------ _split_tensordict: the partition theorem *)
Lemma map_bounds_psl n l :
  map (bounds n) (map (fun p : nat * nat => PSl (fst p) (snd p)) l) = map (fun p => (min (fst p) n, min (snd p) n)) l.
Proof. rewrite map_map. reflexivity. Qed.

Lemma tiles_clamp_id lo n l : tiles lo n l -> map (fun p : nat * nat => (min (fst p) n, min (snd p) n)) l = l.
Proof.
  revert lo. induction l as [|[a b] r IH]; intro lo; cbn [tiles map]; [reflexivity|].
  intros (-> & Hab & Hr). pose proof (tiles_le _ _ _ Hr). rewrite (IH _ Hr). cbn [fst snd].
  do 2 f_equal; lia.
Qed.

Lemma tiles_seq_ix n : forall lo, tiles lo (lo + n) (map (bounds (lo + n)) (map PIx (seq lo n))).
Proof.
  induction n as [|n IH]; intro lo; cbn [seq map bounds tiles]; [lia|].
  repeat split; [lia|]. replace (lo + S n) with (S lo + n) by lia. apply IH.
Qed.

Definition split_sizes_ok (n : nat) (cs nc : option nat) (nw : nat) : Prop :=
  match cs, nc with
  | Some _, Some _ => False
  | None, None => nw >= 1
  | None, Some k => k >= 1
  | Some _, None => True
  end.

Theorem chunks_partition : forall n cs nc nw gen sh l,
  n > 0 -> split_pieces n cs nc nw gen sh = Ok l -> tiles 0 n (map (bounds n) l).
Proof.
  intros n cs nc nw gen sh l Hn. unfold split_pieces, split_call_of.
  destruct (sh && negb gen); [discriminate|].
  assert (Hnum : forall k l, rbind (num_chunks_mode n k gen) (pieces_of_call n) = Ok l -> tiles 0 n (map (bounds n) l)).
  { clear l. intros k l. unfold num_chunks_mode.
    destruct gen.
    - destruct (min n k =? 0) eqn:E; [discriminate|]. apply Nat.eqb_neq in E.
      assert (Hc : pyceil n (min n k) >= 1) by (apply pyceil_pos; lia).
      try replace (pyceil n (min n k) =? 0) with false in * by (symmetry; apply Nat.eqb_neq; lia).
      pose proof (gen_slices_td_split n (pyceil n (min n k)) Hn Hc) as G.
      destruct (gen_slices n (pyceil n (min n k))) as [a|e]; cbn [rmap rbind pieces_of_call] in *; [|discriminate].
      intro H. injection H as <-.
      destruct (td_split_tiles n (pyceil n (min n k)) Hn Hc) as (l' & Hl' & Ht). rewrite Hl' in G.
      injection G as ->. exact Ht.
    - cbn [rbind pieces_of_call]. unfold td_chunk.
      destruct (min n k <? 1) eqn:E; [discriminate|]. apply Nat.ltb_ge in E.
      assert (Hc : pyceil n (min n k) >= 1) by (apply pyceil_pos; lia).
      try replace (pyceil n (min n k) =? 0) with false in * by (symmetry; apply Nat.eqb_neq; lia).
      destruct (td_split_tiles n (pyceil n (min n k)) Hn Hc) as (l' & Hl' & Ht). rewrite Hl'. cbn [rmap].
      intro H. injection H as <-. rewrite map_bounds_psl, (tiles_clamp_id 0); assumption. }
  destruct cs as [[|c']|], nc as [k|]; try (cbn [rbind]; intro Hx; discriminate Hx); try (apply Hnum).
  - destruct gen; cbn [rbind pieces_of_call]; intro H; injection H as <-; apply (tiles_seq_ix n 0).
  - set (c := S c') in *. destruct gen.
    + pose proof (gen_slices_td_split n c Hn ltac:(lia)) as G.
      destruct (gen_slices n c) as [a|e]; cbn [rmap rbind pieces_of_call] in *; [|discriminate].
      intro H. injection H as <-.
      destruct (td_split_tiles n c Hn ltac:(lia)) as (l' & Hl' & Ht). rewrite Hl' in G.
      injection G as ->. exact Ht.
    + cbn [rbind pieces_of_call].
      destruct (td_split_tiles n (min n c) Hn ltac:(lia)) as (l' & Hl' & Ht). rewrite Hl'. cbn [rmap].
      intro H. injection H as <-. rewrite map_bounds_psl, (tiles_clamp_id 0); assumption.
Qed.

(* when does it return at all *)
Theorem split_ok : forall n cs nc nw gen sh,
  n > 0 -> (sh = true -> gen = true) -> split_sizes_ok n cs nc nw ->
  exists l, split_pieces n cs nc nw gen sh = Ok l.
Proof.
  intros n cs nc nw gen sh Hn Hsh Hok. unfold split_pieces, split_call_of.
  assert (Hs : sh && negb gen = false).
  { destruct sh, gen; try reflexivity. specialize (Hsh eq_refl). discriminate. }
  rewrite Hs.
  assert (Hnum : forall k, k >= 1 -> exists l, rbind (num_chunks_mode n k gen) (pieces_of_call n) = Ok l).
  { intros k Hk. unfold num_chunks_mode. destruct gen.
    - destruct (min n k =? 0) eqn:E; [apply Nat.eqb_eq in E; lia|].
      assert (Hc : pyceil n (min n k) >= 1) by (apply pyceil_pos; lia).
      try replace (pyceil n (min n k) =? 0) with false in * by (symmetry; apply Nat.eqb_neq; lia).
      pose proof (gen_slices_td_split n (pyceil n (min n k)) Hn Hc) as G.
      destruct (td_split_tiles n (pyceil n (min n k)) Hn ltac:(lia)) as (l' & Hl' & _). rewrite Hl' in G.
      destruct (gen_slices n (pyceil n (min n k))); cbn [rmap] in G; [|discriminate]. cbn. eauto.
    - cbn [rbind pieces_of_call]. destruct (td_chunk_tiles n (min n k) Hn ltac:(lia)) as (l' & Hl' & _).
      rewrite Hl'. cbn. eauto. }
  destruct cs as [[|c']|], nc as [k|]; cbn [split_sizes_ok] in Hok; try contradiction; try (apply Hnum; assumption).
  1: destruct gen; cbn; eauto.
  set (c := S c') in *. destruct gen.
  - pose proof (gen_slices_td_split n c Hn ltac:(lia)) as G.
    destruct (td_split_tiles n c Hn ltac:(lia)) as (l' & Hl' & _). rewrite Hl' in G.
    destruct (gen_slices n c); cbn [rmap] in G; [|discriminate]. cbn. eauto.
  - cbn [rbind pieces_of_call]. destruct (td_split_tiles n (min n c) Hn ltac:(lia)) as (l' & Hl' & _).
    rewrite Hl'. cbn. eauto.
Qed.


(* generator mode and chunk / split mode produce the same pieces *)
Theorem gen_eq_nogen : forall n cs nc nw,
  n > 0 -> split_sizes_ok n cs nc nw ->
  rmap (map (bounds n)) (split_pieces n cs nc nw true false) = rmap (map (bounds n)) (split_pieces n cs nc nw false false).
Proof.
  intros n cs nc nw Hn Hok. unfold split_pieces, split_call_of. cbn [andb negb].
  assert (Hnum : forall k, k >= 1 ->
            rmap (map (bounds n)) (rbind (num_chunks_mode n k true) (pieces_of_call n))
          = rmap (map (bounds n)) (rbind (num_chunks_mode n k false) (pieces_of_call n))).
  { intros k Hk. unfold num_chunks_mode. cbn [rbind pieces_of_call]. unfold td_chunk.
    destruct (min n k =? 0) eqn:E; [apply Nat.eqb_eq in E; lia|].
    destruct (min n k <? 1) eqn:E1; [apply Nat.ltb_lt in E1; lia|].
    assert (Hc : pyceil n (min n k) >= 1) by (apply pyceil_pos; lia).
      try replace (pyceil n (min n k) =? 0) with false in * by (symmetry; apply Nat.eqb_neq; lia).
    pose proof (gen_slices_td_split n _ Hn Hc) as G.
    destruct (td_split_tiles n _ Hn Hc) as (l' & Hl' & Ht). rewrite Hl' in *.
    destruct (gen_slices n (pyceil n (min n k))); cbn [rmap rbind pieces_of_call] in *; [|discriminate].
    injection G as ->. rewrite map_bounds_psl, (tiles_clamp_id 0) by assumption. reflexivity. }
  destruct cs as [[|c']|], nc as [k|]; cbn [split_sizes_ok] in Hok; try contradiction; try (apply Hnum; assumption).
  - reflexivity.
  - set (c := S c') in *. cbn [rbind pieces_of_call].
    pose proof (gen_slices_td_split n c Hn ltac:(lia)) as G.
    rewrite td_split_min by lia.
    destruct (td_split_tiles n c Hn ltac:(lia)) as (l' & Hl' & Ht). rewrite Hl' in *.
    destruct (gen_slices n c); cbn [rmap rbind pieces_of_call] in *; [|discriminate].
    injection G as ->. rewrite map_bounds_psl, (tiles_clamp_id 0) by assumption. reflexivity.
Qed.

(* the pieces are the closed form: size s, last piece ragged *)
Definition eff_size (n : nat) (cs nc : option nat) (nw : nat) : option nat :=
  match cs, nc with
  | None, None => Some (pyceil n (min n nw))
  | None, Some k => Some (pyceil n (min n k))
  | Some 0, None => Some 1
  | Some c, None => Some c
  | Some _, Some _ => None
  end.

Lemma spec_bounds_one n : spec_bounds n 1 = map (fun i => (i, S i)) (seq 0 n).
Proof.
  unfold spec_bounds. rewrite Nat.add_sub, Nat.div_1_r.
  apply map_ext_in. intros i Hi. apply in_seq in Hi. f_equal; lia.
Qed.

Theorem pieces_closed_form : forall n cs nc nw gen sh l s,
  n > 0 -> split_pieces n cs nc nw gen sh = Ok l -> eff_size n cs nc nw = Some s ->
  map (bounds n) l = spec_bounds n s.
Proof.
  intros n cs nc nw gen sh l s Hn. unfold split_pieces, split_call_of.
  destruct (sh && negb gen); [discriminate|].
  assert (Hnum : forall k l, rbind (num_chunks_mode n k gen) (pieces_of_call n) = Ok l ->
                             map (bounds n) l = spec_bounds n (pyceil n (min n k))).
  { clear l. intros k l. unfold num_chunks_mode. destruct gen.
    - destruct (min n k =? 0) eqn:E; [discriminate|]. apply Nat.eqb_neq in E.
      assert (Hc : pyceil n (min n k) >= 1) by (apply pyceil_pos; lia).
      try replace (pyceil n (min n k) =? 0) with false in * by (symmetry; apply Nat.eqb_neq; lia).
      pose proof (gen_slices_td_split n _ Hn Hc) as G. rewrite td_split_closed in G by lia.
      destruct (gen_slices n (pyceil n (min n k))); cbn [rmap rbind pieces_of_call] in *; [|discriminate].
      intro H. injection H as <-. now injection G.
    - cbn [rbind pieces_of_call]. unfold td_chunk.
      destruct (min n k <? 1) eqn:E; [discriminate|]. apply Nat.ltb_ge in E.
      assert (Hc : pyceil n (min n k) >= 1) by (apply pyceil_pos; lia).
      try replace (pyceil n (min n k) =? 0) with false in * by (symmetry; apply Nat.eqb_neq; lia).
      destruct (td_split_tiles n _ Hn Hc) as (l' & Hl' & Ht).
      rewrite Hl'. cbn [rmap]. intro H. injection H as <-.
      rewrite map_bounds_psl, (tiles_clamp_id 0) by assumption.
      rewrite td_split_closed in Hl' by lia. now injection Hl'. }
  destruct cs as [[|c']|], nc as [k|]; cbn [eff_size]; try (cbn [rbind]; intro Hx; discriminate Hx).
  - destruct gen; cbn [rbind pieces_of_call]; intros H E; injection H as <-; injection E as <-;
      rewrite spec_bounds_one, map_map; apply map_ext; intro i; reflexivity.
  - set (c := S c') in *. intros H E. injection E as <-. destruct gen.
    + pose proof (gen_slices_td_split n c Hn ltac:(lia)) as G. rewrite td_split_closed in G by lia.
      destruct (gen_slices n c); cbn [rmap rbind pieces_of_call] in *; [|discriminate].
      injection H as <-. now injection G.
    + cbn [rbind pieces_of_call] in H. rewrite td_split_min in H by lia.
      destruct (td_split_tiles n c Hn ltac:(lia)) as (l' & Hl' & Ht). rewrite Hl' in H. cbn [rmap] in H.
      injection H as <-. rewrite map_bounds_psl, (tiles_clamp_id 0) by assumption.
      rewrite td_split_closed in Hl' by lia. now injection Hl'.
  - intros H E. injection E as <-. eapply Hnum; eassumption.
  - intros H E. injection E as <-. eapply Hnum; eassumption.
Qed.

(* num_chunks is an upper bound on the number of pieces *)
Lemma spec_bounds_length n s : List.length (spec_bounds n s) = (n + s - 1) / s.
Proof. unfold spec_bounds. now rewrite map_length, seq_length. Qed.

Theorem num_chunks_bound : forall n k nw gen sh l,
  n > 0 -> split_pieces n None (Some k) nw gen sh = Ok l -> List.length l <= k.
Proof.
  intros n k nw gen sh l Hn H.
  assert (Hk : min n k >= 1).
  { destruct (Nat.eq_dec (min n k) 0) as [E|]; [|lia]. exfalso.
    revert H. unfold split_pieces, split_call_of. destruct (sh && negb gen); [discriminate|].
    unfold num_chunks_mode. rewrite E. destruct gen; cbn; discriminate. }
  pose proof (pieces_closed_form n None (Some k) nw gen sh l _ Hn H eq_refl) as Hc.
  apply (f_equal (@List.length _)) in Hc. rewrite map_length, spec_bounds_length in Hc. rewrite Hc.
  destruct (pyceil_bounds n (min n k) ltac:(lia)) as [H1 H2].
  assert (Hs : pyceil n (min n k) >= 1) by (apply pyceil_pos; lia).
  set (s := pyceil n (min n k)) in *.
  assert ((n + s - 1) / s < S (min n k)); [|lia].
  apply Nat.div_lt_upper_bound; [lia|]. nia.
Qed.

(* ------------------------------------------------------------------ concatenating the pieces gives the whole *)
Lemma firstn_add {A} p q (l : list A) : firstn (p + q) l = firstn p l ++ firstn q (skipn p l).
Proof.
  revert l. induction p as [|p IH]; intro l; [reflexivity|].
  destruct l as [|x l]; cbn [Nat.add firstn skipn app]; [now rewrite firstn_nil|]. now rewrite IH.
Qed.

Lemma skipn_skipn' {A} p q (l : list A) : skipn q (skipn p l) = skipn (p + q) l.
Proof.
  revert l. induction p as [|p IH]; intro l; [reflexivity|].
  destruct l as [|x l]; cbn [Nat.add skipn]; [now rewrite skipn_nil|]. apply IH.
Qed.

Lemma take_tiles {A} (rows : list A) : forall bs lo hi,
  tiles lo hi bs -> concat (map (take rows) bs) = firstn (hi - lo) (skipn lo rows).
Proof.
  induction bs as [|[a b] r IH]; intros lo hi; cbn [tiles map concat].
  - intros ->. now rewrite Nat.sub_diag.
  - intros (-> & Hab & Hr). pose proof (tiles_le _ _ _ Hr).
    rewrite (IH _ _ Hr). unfold take at 1. cbn [fst snd].
    replace (hi - lo) with ((b - lo) + (hi - b)) by lia.
    rewrite firstn_add, skipn_skipn'. do 3 f_equal. lia.
Qed.

Theorem pieces_concat {A} : forall n cs nc nw gen sh l (rows : list A),
  n > 0 -> List.length rows = n -> split_pieces n cs nc nw gen sh = Ok l ->
  concat (map (take rows) (map (bounds n) l)) = rows.
Proof.
  intros n cs nc nw gen sh l rows Hn Hlen H.
  rewrite (take_tiles rows _ 0 n (chunks_partition _ _ _ _ _ _ _ Hn H)).
  cbn [skipn]. rewrite Nat.sub_0_r, <- Hlen. apply firstn_all.
Qed.

(* shuffle: the chunks are the consecutive pieces of the random permutation, hence each row exactly once *)
Theorem shuffle_partition : forall rp cs nc nw l,
  rp <> [] -> split_pieces (List.length rp) cs nc nw true true = Ok l ->
  concat (shuffle_pieces rp l) = rp.
Proof.
  intros rp cs nc nw l Hne H. unfold shuffle_pieces. rewrite <- map_map.
  apply (pieces_concat (List.length rp) cs nc nw true true); [destruct rp; [congruence|cbn; lia]|reflexivity|exact H].
Qed.

(* ------------------------------------------------------------------ reassembly with out= *)
Lemma firstn_len_app {A} (a b : list A) : firstn (List.length a) (a ++ b) = a.
Proof. induction a as [|x a IH]; cbn [List.length firstn app]; [now destruct b|now rewrite IH]. Qed.
Lemma skipn_len_app {A} (a b : list A) : skipn (List.length a) (a ++ b) = b.
Proof. induction a as [|x a IH]; cbn [List.length skipn app]; [reflexivity|exact IH]. Qed.

Lemma write_at_ok {B} (out rows : list B) a :
  a + List.length rows <= List.length out ->
  write_at out a rows = Ok (firstn a out ++ rows ++ skipn (a + List.length rows) out)
  /\ List.length (firstn a out ++ rows ++ skipn (a + List.length rows) out) = List.length out.
Proof.
  intro H. unfold write_at. rewrite (proj2 (Nat.leb_le _ _) H). split; [reflexivity|].
  rewrite !app_length, firstn_length, skipn_length. lia.
Qed.

(* a result is None or has the length of its chunk *)
Definition fitsn {B} (ab : nat * nat) (it : option (list B)) : Prop :=
  match it with Some rows => List.length rows = snd ab - fst ab | None => True end.
(* a result is present and has the length of its chunk *)
Definition fits {B} (ab : nat * nat) (it : option (list B)) : Prop :=
  exists rows, it = Some rows /\ List.length rows = snd ab - fst ab.

Lemma fits_fitsn {B} bs (items : list (option (list B))) : Forall2 fits bs items -> Forall2 fitsn bs items.
Proof. induction 1 as [|ab it bs' its (rows & -> & Hl) _ IH]; constructor; [exact Hl|exact IH]. Qed.

(* with out=: chunk k of the results is written at slice k of out; None leaves the slice as it was — for ALL result lists *)
Theorem reassembly_offsets {B} : forall bs (items : list (option (list B))) out lo hi,
  tiles lo hi bs -> hi <= List.length out -> Forall2 fitsn bs items ->
  reassemble_out out bs items = Ok (seq_out out bs items)
  /\ shared_out out bs items = Ok (seq_out out bs items).
Proof.
  induction bs as [|[a b] r IH]; intros items out lo hi Ht Hhi HF; inversion HF as [|? it ? its Hfit HF']; subst; cbn [tiles] in Ht.
  - split; reflexivity.
  - destruct Ht as (-> & Hab & Hr). pose proof (tiles_le _ _ _ Hr) as Hle.
    destruct it as [rows|]; cbn [fitsn fst snd] in Hfit; cbn [reassemble_out shared_out seq_out].
    + rewrite (proj2 (Nat.eqb_eq _ _) Hfit).
      destruct (write_at_ok out rows lo ltac:(lia)) as [Hw Hlen]. rewrite Hw. cbn [rbind].
      apply (IH its _ b hi Hr); [lia|exact HF'].
    + apply (IH its out b hi Hr); assumption.
Qed.

Lemma store_mid {B} (pre mid suf rows : list B) :
  List.length rows <= List.length mid ->
  firstn (List.length pre) (pre ++ mid ++ suf) ++ rows ++ skipn (List.length pre + List.length rows) (pre ++ mid ++ suf)
  = (pre ++ rows) ++ skipn (List.length rows) mid ++ suf.
Proof.
  intro Hl. rewrite firstn_len_app, <- skipn_skipn', skipn_len_app, skipn_app.
  replace (List.length rows - List.length mid) with 0 by lia. cbn [skipn]. now rewrite <- app_assoc.
Qed.

(* when every chunk has a result the buffer is the concatenation of the results *)
Lemma seq_out_mid {B} : forall bs (items : list (option (list B))) pre mid suf lo hi,
  tiles lo hi bs -> lo = List.length pre -> List.length mid = hi - lo -> Forall2 fits bs items ->
  seq_out (pre ++ mid ++ suf) bs items = pre ++ concat (somes items) ++ suf.
Proof.
  induction bs as [|[a b] r IH]; intros items pre mid suf lo hi Ht Hlo Hm HF; inversion HF; subst; cbn [tiles] in Ht.
  - cbn [seq_out somes concat]. subst hi. rewrite Nat.sub_diag in Hm. destruct mid; [reflexivity|discriminate].
  - destruct Ht as (-> & Hab & Hr). pose proof (tiles_le _ _ _ Hr).
    match goal with H : fits _ _ |- _ => destruct H as (rows & -> & Hrl) end. cbn [fst snd] in Hrl.
    cbn [seq_out somes concat].
    rewrite store_mid by lia.
    rewrite (IH _ (pre ++ rows) _ suf b hi); try assumption.
    + now rewrite <- !app_assoc.
    + rewrite app_length. lia.
    + rewrite skipn_length. lia.
Qed.

Lemma fits_somes_length {B} : forall bs (items : list (option (list B))) lo hi,
  tiles lo hi bs -> Forall2 fits bs items -> List.length (concat (somes items)) = hi - lo.
Proof.
  induction bs as [|[a b] r IH]; intros items lo hi Ht HF; inversion HF; subst; cbn [tiles] in Ht.
  - subst. cbn. lia.
  - destruct Ht as (-> & Hab & Hr). pose proof (tiles_le _ _ _ Hr).
    match goal with H : fits _ _ |- _ => destruct H as (rows & -> & Hrl) end. cbn [fst snd] in Hrl.
    cbn [somes concat]. rewrite app_length, (IH _ b hi) by assumption. lia.
Qed.

Lemma seq_out_all_some {B} : forall n bs (items : list (option (list B))) out,
  tiles 0 n bs -> List.length out = n -> Forall2 fits bs items -> seq_out out bs items = concat (somes items).
Proof.
  intros n bs items out Ht Hn HF.
  pose proof (seq_out_mid bs items [] out [] 0 n Ht eq_refl ltac:(lia) HF) as H.
  cbn [app] in H. now rewrite !app_nil_r in H.
Qed.

Lemma Forall2_len {X Y} (R : X -> Y -> Prop) l1 l2 : Forall2 R l1 l2 -> List.length l1 = List.length l2.
Proof. induction 1; cbn; congruence. Qed.

(* ------------------------------------------------------------------ map = the sequential form *)
Lemma take_length {A} (rows : list A) a b : b <= List.length rows -> List.length (take rows (a, b)) = b - a.
Proof. intro H. unfold take. cbn [fst snd]. rewrite firstn_length, skipn_length. lia. Qed.

(* any function whose results (when not None) have the length of their chunk: out= regular and out= shared both end up
   holding the sequential form, for every chunking *)
Theorem map_out_sequential {A B} : forall (f : list A -> option (list B)) (rows : list A) out cs nc nw gen l,
  List.length rows > 0 -> List.length out = List.length rows ->
  split_pieces (List.length rows) cs nc nw gen false = Ok l ->
  (forall ab, In ab (map (bounds (List.length rows)) l) -> fitsn ab (f (take rows ab))) ->
  let bs := map (bounds (List.length rows)) l in
  let items := trusted_imap (fun ab => f (take rows ab)) bs in
  map_model f rows ORegular out cs nc nw gen = Ok (RetOut (seq_out out bs items)) /\
  map_model f rows OShared out cs nc nw gen = Ok (RetNoneOut (seq_out out bs items)).
Proof.
  intros f rows out cs nc nw gen l Hn Ho Hs Hf bs items. unfold map_model. rewrite Hs. cbn [rbind].
  rewrite Ho, Hs. cbn [rbind]. rewrite Nat.eqb_refl.
  pose proof (chunks_partition _ _ _ _ _ _ _ Hn Hs) as Ht. fold bs in Ht |- *. fold items.
  assert (HF : Forall2 fitsn bs items).
  { unfold items, trusted_imap. clear Ht. revert Hf. fold bs. generalize bs. intro l0. induction l0 as [|ab r IH]; intro Hf; cbn [map]; constructor.
    - apply Hf. now left.
    - apply IH. intros ab' Hin. apply Hf. now right. }
  destruct (reassembly_offsets bs items out 0 _ Ht ltac:(lia) HF) as [H1 H2].
  rewrite H1, H2. split; reflexivity.
Qed.

Section RowWise.
Context {A B : Type} (g : A -> B).
Let f (rows : list A) : option (list B) := Some (map g rows).

Lemma rowwise_items (rows : list A) bs :
  somes (trusted_imap (fun ab => f (take rows ab)) bs) = map (fun ab => map g (take rows ab)) bs.
Proof. unfold trusted_imap, f. induction bs as [|ab r IH]; cbn [map somes]; [reflexivity|now rewrite IH]. Qed.

Lemma rowwise_concat (rows : list A) bs n :
  tiles 0 n bs -> List.length rows = n ->
  concat (somes (trusted_imap (fun ab => f (take rows ab)) bs)) = map g rows.
Proof.
  intros Ht Hn. rewrite rowwise_items, <- map_map, <- concat_map, (take_tiles rows bs 0 n Ht).
  cbn [skipn]. rewrite Nat.sub_0_r, <- Hn, firstn_all. reflexivity.
Qed.

Lemma rowwise_fits (rows : list A) : forall bs lo n,
  tiles lo n bs -> n <= List.length rows -> Forall2 fits bs (trusted_imap (fun ab => f (take rows ab)) bs).
Proof.
  induction bs as [|[a b] r IH]; intros lo n Ht Hn; cbn [tiles] in Ht; cbn [trusted_imap map]; constructor.
  - destruct Ht as (-> & Hab & Hr). pose proof (tiles_le _ _ _ Hr).
    eexists. split; [reflexivity|]. rewrite map_length, take_length by lia. reflexivity.
  - destruct Ht as (-> & Hab & Hr). apply (IH b n); assumption.
Qed.

(* no out=: the cat / stack of the per-chunk results is the function applied to the whole *)
Theorem map_rowwise_cat : forall (rows : list A) out cs nc nw gen l,
  List.length rows > 0 -> split_pieces (List.length rows) cs nc nw gen false = Ok l ->
  map_model f rows ONone out cs nc nw gen = Ok (RetCat (map g rows)).
Proof.
  intros rows out cs nc nw gen l Hn Hs. unfold map_model. rewrite Hs. cbn [rbind].
  pose proof (chunks_partition _ _ _ _ _ _ _ Hn Hs) as Ht.
  unfold cat_results.
  pose proof (rowwise_concat rows _ _ Ht eq_refl) as Hc.
  destruct (somes _) eqn:E.
  - exfalso. rewrite rowwise_items in E. apply (tiles_nonempty _ _ _ Ht Hn). now destruct (map (bounds _) l).
  - rewrite Hc. reflexivity.
Qed.

(* out= regular / shared: the buffer ends up holding the function applied to the whole *)
Theorem map_rowwise_out : forall (rows : list A) out cs nc nw gen l,
  List.length rows > 0 -> List.length out = List.length rows ->
  split_pieces (List.length rows) cs nc nw gen false = Ok l ->
  map_model f rows ORegular out cs nc nw gen = Ok (RetOut (map g rows)) /\
  map_model f rows OShared out cs nc nw gen = Ok (RetNoneOut (map g rows)).
Proof.
  intros rows out cs nc nw gen l Hn Ho Hs.
  pose proof (chunks_partition _ _ _ _ _ _ _ Hn Hs) as Ht.
  pose proof (rowwise_fits rows _ _ _ Ht (Nat.le_refl _)) as HF.
  assert (Hf : forall ab, In ab (map (bounds (List.length rows)) l) -> fitsn ab (f (take rows ab))).
  { intros [a b] Hin. destruct (tiles_in _ _ _ Ht a b Hin) as (_ & _ & Hb).
    cbn [fitsn f fst snd]. rewrite map_length, take_length by lia. reflexivity. }
  destruct (map_out_sequential f rows out cs nc nw gen l Hn Ho Hs Hf) as [H1 H2].
  rewrite H1, H2, (seq_out_all_some _ _ _ out Ht Ho HF), (rowwise_concat rows _ _ Ht eq_refl). split; reflexivity.
Qed.
End RowWise.
