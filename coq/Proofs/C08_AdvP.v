(* C08: ONE advanced index BEFORE the stack dim: an integer tensor of any rank >= 1 (num_single -= ndim - 1) or a boolean
   mask of any rank >= 1 that does not reach the stack dim (num_squash += ndim - 1); flat stack of plain members. *)
From Coq Require Import ZArith List Bool Lia ZifyBool.
Import ListNotations.
From TD Require Import Spec.PySlice Spec.C08_Dense Model.C08_Lazy Proofs.C08_CoordP Proofs.C08_IndexP.
Open Scope Z_scope.

Inductive adv_before : item -> Prop :=
  | ab_ten t0 tsh vals : adv_before (ITen (t0 :: tsh) vals)
  | ab_mask m0 msh bits : adv_before (IMask (m0 :: msh) bits).

(* what the advanced item contributes to num_single / num_squash *)
Definition adv_single (it : item) : Z := match it with ITen sh _ => - (lenZ sh - 1) | _ => 0 end.
Definition adv_squash (it : item) : Z := match it with IMask sh _ => lenZ sh - 1 | _ => 0 end.

Section LoopAdv.
  Variables (sd n : nat) (shape : list Z).

  Lemma step_adv_before A s i : adv_before A -> (st_cursor s + consumes A <= sd)%nat -> st_enc s = false ->
    exists s', split_step sd n shape i A s = Ok s' /\
      st_out s' = st_out s ++ [OI A] /\ st_sel s' = st_sel s /\ st_num_single s' = st_num_single s + adv_single A /\
      st_num_none s' = st_num_none s /\ st_num_squash s' = st_num_squash s + adv_squash A /\ st_isint s' = st_isint s /\
      st_has_bool s' = st_has_bool s /\ st_nd s' = st_nd s /\ st_cursor s' = (st_cursor s + consumes A)%nat /\
      st_split_dim s' = st_split_dim s /\ st_mask_loc s' = st_mask_loc s /\ st_masks s' = st_masks s.
  Proof.
    intros HA HC He. destruct HA as [t0 tsh vals|m0 msh bits]; cbn [consumes] in HC.
    - unfold split_step. cbn [as_number].
      assert (E : Nat.eqb (st_cursor s) sd = false) by (apply Nat.eqb_neq; lia). rewrite E.
      assert (E2 : (st_cursor s <? sd)%nat = true) by (apply Nat.ltb_lt; lia). rewrite E2, He.
      eexists. split; [reflexivity|]. cbn. repeat split; try reflexivity; lia.
    - unfold split_step. cbn [as_number].
      assert (E : Nat.eqb (st_cursor s) sd = false) by (apply Nat.eqb_neq; cbn in HC; lia). rewrite E.
      assert (E2 : (st_cursor s <? sd)%nat = true) by (apply Nat.ltb_lt; cbn in HC; lia). rewrite E2.
      cbn [andb].
      assert (E3 : (sd <? st_cursor s + List.length (m0 :: msh))%nat = false) by (apply Nat.ltb_ge; lia). rewrite E3.
      eexists. split; [reflexivity|]. cbn -[lenZ]. repeat split; try reflexivity. unfold lenZ. cbn [List.length]. lia.
  Qed.
End LoopAdv.

Lemma rdims_l_app a b : rdims_l (a ++ b) = (rdims_l a + rdims_l b)%nat.
Proof. induction a as [|x a IH]; [reflexivity|]. cbn [app]. rewrite !rdims_l_cons, IH. lia. Qed.
Lemma consumed_app a b : consumed (a ++ b) = (consumed a + consumed b)%nat.
Proof. induction a as [|x a IH]; [reflexivity|]. cbn [app]. rewrite !consumed_cons, IH. lia. Qed.

Lemma adv_noell A : adv_before A -> is_ell A = false. Proof. destruct 1; reflexivity. Qed.
Lemma adv_pre_noell p1 A p2 : basic p1 -> adv_before A -> basic p2 -> noell (p1 ++ A :: p2).
Proof. intros H1 HA H2. apply noell_app; [apply basic_noell; exact H1|constructor; [apply adv_noell; exact HA|apply basic_noell; exact H2]]. Qed.

(* new stack dim = result dims produced before it, with the advanced item's corrections *)
Lemma nsd_adv p1 A p2 : basic p1 -> adv_before A -> basic p2 ->
  Z.of_nat (consumed (p1 ++ A :: p2)) - (count_int p1 + count_int p2 + adv_single A) + (count_none p1 + count_none p2) - adv_squash A
  = Z.of_nat (rdims_l (p1 ++ A :: p2)).
Proof.
  intros H1 HA H2. rewrite consumed_app, rdims_l_app, consumed_cons, rdims_l_cons.
  pose proof (nsd_basic p1 H1). pose proof (nsd_basic p2 H2).
  destruct HA; cbn [consumes rdims adv_single adv_squash]; unfold lenZ; cbn [List.length]; lia.
Qed.

Section SplitAdv.
  Variables (sd n : nat) (shape : list Z).

  (* the state after p1 ++ A :: p2, all before the stack dim *)
  Lemma loop_adv_prefix p1 A p2 rest i : basic p1 -> adv_before A -> basic p2 ->
    consumed (p1 ++ A :: p2) = sd ->
    exists s', split_loop sd n shape i ((p1 ++ A :: p2) ++ rest) (s0 n) =
               split_loop sd n shape (i + List.length (p1 ++ A :: p2)) rest s' /\
      st_out s' = map OI (p1 ++ A :: p2) /\ st_sel s' = SAll n /\
      st_num_single s' = count_int p1 + count_int p2 + adv_single A /\
      st_num_none s' = count_none p1 + count_none p2 /\ st_num_squash s' = adv_squash A /\ st_isint s' = false /\
      st_has_bool s' = false /\ st_nd s' = false /\ st_cursor s' = sd /\
      st_split_dim s' = 0 /\ st_mask_loc s' = 0%nat /\ st_masks s' = [].
  Proof.
    intros H1 HA H2 HC. rewrite consumed_app, consumed_cons in HC.
    rewrite <- app_assoc. cbn [app].
    rewrite (loop_pre sd n shape p1 H1 (s0 n) i (A :: p2 ++ rest)) by (cbn; lia).
    cbn [split_loop].
    set (s1 := st_upd (s0 n) (map OI p1) (count_int p1) (count_none p1) (consumed p1)).
    destruct (step_adv_before sd n shape A s1 (i + List.length p1) HA ltac:(subst s1; cbn; lia) ltac:(reflexivity))
      as [s2 [E2 [Ho [Hsel [Hns [Hnn [Hsq [Hii [Hhb [Hnd [Hcur [Hsp [Hml Hmk]]]]]]]]]]]]].
    rewrite E2. cbn [rbind].
    rewrite (loop_pre sd n shape p2 H2 s2 (S (i + List.length p1)) rest) by (rewrite Hcur; subst s1; cbn; lia).
    eexists. split.
    - rewrite app_length. cbn [List.length]. replace (i + (List.length p1 + S (List.length p2)))%nat with (S (i + List.length p1) + List.length p2)%nat by lia.
      reflexivity.
    - cbn [st_upd st_out st_sel st_num_single st_num_none st_num_squash st_isint st_has_bool st_nd st_cursor st_split_dim st_mask_loc st_masks].
      rewrite Ho, Hsel, Hns, Hnn, Hsq, Hii, Hhb, Hnd, Hcur, Hsp, Hml, Hmk. subst s1. cbn.
      rewrite map_app. cbn [map]. rewrite <- app_assoc. cbn [app].
      repeat split; try reflexivity; lia.
  Qed.

  Theorem split_index_adv_slice p1 A p2 a b c post :
    basic p1 -> adv_before A -> basic p2 -> consumed (p1 ++ A :: p2) = sd -> Forall post_item post ->
    one_adv ((p1 ++ A :: p2) ++ ISl a b c :: post) -> (step_of c =? 0) = false ->
    split_index sd n shape ((p1 ++ A :: p2) ++ ISl a b c :: post) =
    Ok (mk_split2 (KDict (map (fun j => (j, (p1 ++ A :: p2) ++ post)) (range_elems (py_indices a b (step_of c) (Z.of_nat n)))))
                  (count_int p1 + count_int p2 + adv_single A) (count_none p1 + count_none p2) (adv_squash A) false).
  Proof.
    intros H1 HA H2 HC HP Hone Hst. unfold split_index.
    rewrite convert_ellipsis_noell by (apply noell_app; [apply adv_pre_noell; assumption|constructor; [reflexivity|apply post_noell; exact HP]]).
    cbn [rbind]. unfold one_adv in Hone. rewrite Hone.
    change {| st_out := []; st_sel := SAll n; st_num_single := 0; st_num_none := 0; st_num_squash := 0;
              st_isint := false; st_has_bool := false; st_nd := false; st_enc := false; st_cursor := 0%nat;
              st_split_dim := 0; st_mask_loc := 0%nat; st_masks := [] |} with (s0 n).
    destruct (loop_adv_prefix p1 A p2 (ISl a b c :: post) 0 H1 HA H2 HC)
      as [s' [E [Ho [Hsel [Hns [Hnn [Hsq [Hii [Hhb [Hnd [Hcur [Hsp [Hml Hmk]]]]]]]]]]]]].
    rewrite E. cbn [split_loop]. unfold split_step at 1. cbn [as_number]. rewrite Hcur, Nat.eqb_refl, Hst. cbn [rbind].
    rewrite loop_post by (assumption || (cbn; lia)). cbn [rbind].
    unfold st_upd. cbn [st_has_bool st_nd st_out st_sel st_num_single st_num_none st_num_squash st_isint st_split_dim st_mask_loc st_masks].
    rewrite Hhb, Hnd, Ho, <- map_app, rmap_osub_item. cbn [rbind]. unfold mk_split2.
    rewrite Hns, Hnn, Hsq, Hii, Hsp, Hml, Hmk, !Z.add_0_r. reflexivity.
  Qed.

  Theorem split_index_adv_int p1 A p2 j j' post :
    basic p1 -> adv_before A -> basic p2 -> consumed (p1 ++ A :: p2) = sd -> Forall post_item post ->
    one_adv ((p1 ++ A :: p2) ++ IInt j :: post) -> norm_i j (Z.of_nat n) = Some j' ->
    split_index sd n shape ((p1 ++ A :: p2) ++ IInt j :: post) =
    Ok (mk_split2 (KDict [(j', (p1 ++ A :: p2) ++ post)])
                  (count_int p1 + count_int p2 + adv_single A) (count_none p1 + count_none p2) (adv_squash A) true).
  Proof.
    intros H1 HA H2 HC HP Hone Hj. unfold split_index.
    rewrite convert_ellipsis_noell by (apply noell_app; [apply adv_pre_noell; assumption|constructor; [reflexivity|apply post_noell; exact HP]]).
    cbn [rbind]. unfold one_adv in Hone. rewrite Hone.
    change {| st_out := []; st_sel := SAll n; st_num_single := 0; st_num_none := 0; st_num_squash := 0;
              st_isint := false; st_has_bool := false; st_nd := false; st_enc := false; st_cursor := 0%nat;
              st_split_dim := 0; st_mask_loc := 0%nat; st_masks := [] |} with (s0 n).
    destruct (loop_adv_prefix p1 A p2 (IInt j :: post) 0 H1 HA H2 HC)
      as [s' [E [Ho [Hsel [Hns [Hnn [Hsq [Hii [Hhb [Hnd [Hcur [Hsp [Hml Hmk]]]]]]]]]]]]].
    rewrite E. cbn [split_loop]. unfold split_step at 1. cbn [as_number]. rewrite Hcur, Nat.eqb_refl, Hj. cbn [rbind].
    rewrite loop_post by (assumption || (cbn; lia)). cbn [rbind].
    unfold st_upd. cbn [st_has_bool st_nd st_out st_sel st_num_single st_num_none st_num_squash st_isint st_split_dim st_mask_loc st_masks].
    rewrite Hhb, Hnd, Ho, <- map_app, rmap_osub_item. cbn [rbind]. unfold mk_split2.
    rewrite Hns, Hnn, Hsq, Hsp, Hml, Hmk, !Z.add_0_r. reflexivity.
  Qed.
End SplitAdv.

(* split_index_one_adv, BEFORE the stack dim: lazy[p1, A, p2, x, post] denotes dense[...] on a flat stack of plain members *)
Theorem getitem_adv_before : forall fuel sd bs0 parts bs p1 A p2 x post a' rsd,
  parts <> [] -> Forall (fun p => wf_tree p bs /\ is_stack p = false) parts -> (sd <= List.length bs)%nat ->
  basic p1 -> adv_before A -> basic p2 -> consumed (p1 ++ A :: p2) = sd ->
  ((exists j, x = IInt j) \/ (exists a b c, x = ISl a b c)) -> basic post ->
  res_shape ((p1 ++ A :: p2) ++ x :: post) (insert_at sd (lenZ parts) bs) = Some rsd ->
  lz_getitem (S fuel) (Stack sd bs0 parts) ((p1 ++ A :: p2) ++ x :: post) = Ok a' ->
  equiv a' (Index ((p1 ++ A :: p2) ++ x :: post) (Stack sd bs0 parts)).
Proof.
  intros fuel sd bs0 parts bs p1 A p2 x post a' rsd Hne Hparts Hsd H1 HA H2 HC Hx HBpost Hlegal H.
  assert (HP : Forall post_item post) by (apply basic_post; exact HBpost).
  assert (Hsh : Forall (fun p => shape_of p = Some bs) parts).
  { eapply Forall_impl; [|exact Hparts]. intros p [Hw _]. apply wf_shape. exact Hw. }
  assert (Hso : Forall (fun p => sound p bs) parts).
  { eapply Forall_impl; [|exact Hparts]. intros p [Hw _] r e. apply at_sound. exact Hw. }
  assert (Hnn : Forall (fun s => 0 <= s) bs).
  { destruct parts as [|p0 ps]; [congruence|]. inversion Hparts as [|? ? [Hw _] _]; subst. eapply wf_nonneg; eauto. }
  cbn [lz_getitem] in H. rewrite (shape_of_stack sd bs0 parts bs Hne Hsh Hsd) in H.
  destruct (split_at sd bs Hsd) as [S1 [S2 [Ebs LS1]]]. subst bs.
  assert (Eins : insert_at sd (lenZ parts) (S1 ++ S2) = S1 ++ lenZ parts :: S2) by (rewrite <- LS1; apply insert_at_app).
  rewrite Eins in H, Hlegal.
  assert (HGm : forall m sub y rs, In m parts -> is_stack m = true -> True -> res_shape sub (S1 ++ S2) = Some rs ->
                                  lz_getitem fuel m sub = Ok y -> equiv y (Index sub m)).
  { intros m sub y rs Hin Hst. exfalso. destruct (proj1 (Forall_forall _ _) Hparts m Hin) as [_ Hf]. congruence. }
  set (pre := p1 ++ A :: p2) in *.
  assert (HNpre : noell pre) by (apply adv_pre_noell; assumption).
  assert (Hone : forall y, basic_item y -> one_adv (pre ++ y :: post)).
  { intros y Hy. unfold one_adv, pre.
    assert (E : forall l, basic l -> filter is_adv l = []).
    { intros l Hl. induction Hl as [|it l Hit _ IH]; [reflexivity|]. cbn. destruct it; cbn in Hit; try contradiction; cbn; exact IH. }
    rewrite !filter_app. cbn [filter]. rewrite (E p1 H1), (E p2 H2), (E post HBpost).
    destruct HA; destruct y; cbn in Hy; try contradiction; cbn; reflexivity. }
  destruct Hx as [[j Ej]|[a [b [c Ec]]]]; subst x.
  - eapply (getitem_int_core (lz_getitem fuel) sd bs0 parts S1 S2 LS1 Hne Hsh Hso Hnn (fun _ => True) HGm pre j post a' rsd
              (count_int p1 + count_int p2 + adv_single A) (count_none p1 + count_none p2) (adv_squash A)); eauto.
    intros j' Ej. apply (split_index_adv_int sd (List.length parts) _ p1 A p2 j j' post H1 HA H2 HC HP (Hone (IInt j) I) Ej).
  - destruct (step_of c =? 0) eqn:Hst.
    { exfalso. rewrite (res_shape_app pre HNpre S1 _ _ ltac:(lia)) in Hlegal.
      destruct (res_shape pre S1); [|discriminate]. cbn [res_shape] in Hlegal.
      replace (step_of c <=? 0) with true in Hlegal by lia. discriminate. }
    eapply (getitem_slice_core (lz_getitem fuel) sd bs0 parts S1 S2 LS1 Hne Hsh Hso Hnn (fun _ => True) HGm pre a b c post a' rsd
              (count_int p1 + count_int p2 + adv_single A) (count_none p1 + count_none p2) (adv_squash A)); eauto.
    + apply (split_index_adv_slice sd (List.length parts) _ p1 A p2 a b c post H1 HA H2 HC HP (Hone (ISl a b c) I) Hst).
    + rewrite <- HC. unfold pre. apply nsd_adv; assumption.
Qed.
