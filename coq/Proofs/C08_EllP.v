(* C08: indices with an Ellipsis.  utils.convert_ellipsis_to_idx produces the numpy/torch expansion, and __getitem__
   with such an index denotes the dense result. *)
From Coq Require Import ZArith List Bool Lia ZifyBool.
Import ListNotations.
From TD Require Import Spec.PySlice Spec.C08_Dense Model.C08_Lazy Proofs.C08_CoordP Proofs.C08_IndexP.
Open Scope Z_scope.

Definition ell_basic_item (it : item) : Prop := match it with IInt _ | ISl _ _ _ | INone | IEll => True | _ => False end.
Definition ell_basic (idx : list item) : Prop := Forall ell_basic_item idx.

Lemma ell_basic_counts idx : ell_basic idx ->
  List.length idx = (List.length (filter is_ell idx) + List.length (filter is_none idx) + consumed idx)%nat /\ extra_dims idx = 0%nat.
Proof.
  induction 1 as [|it idx Hit _ [IH1 IH2]]; [split; reflexivity|].
  rewrite consumed_cons. destruct it; cbn in Hit; try contradiction; cbn [filter is_ell is_none List.length consumes extra_dims fold_right];
    fold (extra_dims idx); split; lia.
Qed.

Lemma find_ell_some idx : forall k, (0 < List.length (filter is_ell idx))%nat -> exists start, find_ell idx k = Some start.
Proof.
  induction idx as [|it idx IH]; intros k H; cbn in H; [lia|]. cbn [find_ell].
  destruct (is_ell it) eqn:E; [eauto|]. apply IH. exact H.
Qed.

Lemma expand_find fill idx : forall k start, find_ell idx k = Some start ->
  (k <= start)%nat /\ (start - k < List.length idx)%nat /\
  expand_ell idx fill = firstn (start - k) idx ++ repeat (ISl None None None) fill ++ skipn (S (start - k)) idx.
Proof.
  induction idx as [|it idx IH]; intros k start H; cbn [find_ell] in H; [discriminate|].
  destruct (is_ell it) eqn:E.
  - inversion H; subst. rewrite Nat.sub_diag. destruct it; cbn in E; try discriminate. cbn. repeat split; lia || reflexivity.
  - destruct (IH (S k) start H) as [H1 [H2 H3]].
    replace (start - k)%nat with (S (start - S k)) by lia. cbn [List.length firstn skipn].
    split; [lia|]. split; [lia|].
    destruct it; cbn in E; try discriminate; cbn [expand_ell app]; rewrite H3; reflexivity.
Qed.

Lemma expand_ell_noell fill idx : filter is_ell idx = [] -> expand_ell idx fill = idx.
Proof.
  induction idx as [|it idx IH]; intros H; [reflexivity|]. cbn in H. destruct (is_ell it) eqn:E; [discriminate|].
  destruct it; cbn in E; try discriminate; cbn; rewrite IH by exact H; reflexivity.
Qed.

(* the code's expansion IS the numpy/torch expansion, for every index of ints / slices / None / Ellipsis *)
Theorem convert_ellipsis_spec idx rank l :
  ell_basic idx -> spec_expand idx rank = Some l -> convert_ellipsis idx rank = Ok l.
Proof.
  intros HB H. unfold spec_expand in H.
  destruct ((1 <? List.length (filter is_ell idx))%nat) eqn:E1; [discriminate|]. apply Nat.ltb_ge in E1.
  destruct ((rank <? consumed idx)%nat) eqn:E2; [discriminate|]. apply Nat.ltb_ge in E2.
  inversion H; subst l. clear H.
  destruct (ell_basic_counts idx HB) as [HL HX].
  unfold convert_ellipsis. rewrite HX.
  destruct (Nat.eqb (List.length (filter is_ell idx)) 0) eqn:E0.
  - apply Nat.eqb_eq in E0. rewrite expand_ell_noell; [reflexivity|]. destruct (filter is_ell idx); [reflexivity|discriminate].
  - apply Nat.eqb_neq in E0.
    assert (En : List.length (filter is_ell idx) = 1%nat) by lia.
    replace ((rank <? List.length idx + 0 - List.length (filter is_ell idx) - List.length (filter is_none idx))%nat) with false
      by (symmetry; apply Nat.ltb_ge; lia).
    replace ((1 <? List.length (filter is_ell idx))%nat) with false by (symmetry; apply Nat.ltb_ge; lia).
    destruct (find_ell_some idx 0 ltac:(lia)) as [start Es]. rewrite Es.
    destruct (expand_find (rank - consumed idx) idx 0 start Es) as [_ [Hs Hexp]]. rewrite Nat.sub_0_r in Hs, Hexp.
    replace (rank + List.length (filter is_none idx) - (List.length idx - start - 1) - start - 0)%nat with (rank - consumed idx)%nat by lia.
    rewrite <- Hexp.
    assert (Hlen : List.length (expand_ell idx (rank - consumed idx)) = (rank + List.length (filter is_none idx))%nat).
    { rewrite Hexp, !app_length, firstn_length, repeat_length, skipn_length. lia. }
    rewrite Hlen, Nat.add_0_r, Nat.eqb_refl. reflexivity.
Qed.

(* the expansion of an ell_basic index is basic *)
Lemma expand_ell_basic fill idx : ell_basic idx -> (List.length (filter is_ell idx) <= 1)%nat -> basic (expand_ell idx fill).
Proof.
  induction 1 as [|it idx Hit HB IH]; intros Hn; [constructor|].
  destruct it; cbn in Hit; try contradiction; cbn [expand_ell filter is_ell List.length] in *.
  - constructor; [exact I|apply IH; exact Hn].
  - constructor; [exact I|apply IH; exact Hn].
  - constructor; [exact I|apply IH; exact Hn].
  - apply Forall_app. split.
    + apply Forall_forall. intros x Hx. apply repeat_spec in Hx. subst. exact I.
    + assert (E : filter is_ell idx = []) by (destruct (filter is_ell idx); [reflexivity|cbn in Hn; lia]).
      clear -HB E. induction HB as [|it idx Hit _ IH]; [constructor|]. cbn in E. destruct (is_ell it) eqn:Ei; [discriminate|].
      constructor; [destruct it; cbn in *; try contradiction; try discriminate; exact I|apply IH; exact E].
Qed.

(* has_bool is never set for a basic index *)
Lemma split_basic_no_bool sd n shape : forall l, basic l -> forall sp, split_index sd n shape l = Ok sp -> sp_has_bool sp = false.
Proof.
  intros l HB sp H.
  destruct (basic_cases l HB sd) as [Hs|[pre [x [post [E [Hp [Hc [Hpo Hx]]]]]]]].
  - rewrite (split_index_short sd n shape l HB Hs) in H. inversion H. reflexivity.
  - subst l. assert (HA : one_adv (pre ++ x :: post)).
    { unfold one_adv. assert (E : filter is_adv (pre ++ x :: post) = []).
      { clear -HB. induction HB as [|it idx Hit _ IH]; [reflexivity|]. cbn. destruct it; cbn in Hit; try contradiction; cbn; exact IH. }
      rewrite E. reflexivity. }
    destruct Hx as [[j Ej]|[a [b [c Ec]]]]; subst x.
    + destruct (norm_i j (Z.of_nat n)) as [j'|] eqn:Ej.
      * rewrite (split_index_int sd n shape pre j j' post Hp Hc (basic_post _ Hpo) HA Ej) in H. inversion H. reflexivity.
      * exfalso. unfold split_index in H.
        rewrite convert_ellipsis_noell in H by (apply basic_noell; exact HB). cbn [rbind] in H.
        unfold one_adv in HA. rewrite HA in H.
        rewrite loop_pre in H by (assumption || (cbn; lia)).
        cbn [split_loop] in H. unfold split_step at 1 in H. cbn [as_number st_cursor st_upd] in H.
        replace (0 + consumed pre)%nat with sd in H by lia. rewrite Nat.eqb_refl, Ej in H. cbn in H. discriminate.
    + destruct (step_of c =? 0) eqn:Est.
      * exfalso. unfold split_index in H.
        rewrite convert_ellipsis_noell in H by (apply basic_noell; exact HB). cbn [rbind] in H.
        unfold one_adv in HA. rewrite HA in H.
        rewrite loop_pre in H by (assumption || (cbn; lia)).
        cbn [split_loop] in H. unfold split_step at 1 in H. cbn [as_number st_cursor st_upd] in H.
        replace (0 + consumed pre)%nat with sd in H by lia. rewrite Nat.eqb_refl, Est in H. cbn in H. discriminate.
      * rewrite (split_index_slice sd n shape pre a b c post Hp Hc (basic_post _ Hpo) HA Est) in H. inversion H. reflexivity.
Qed.

Lemma split_index_convert sd n shape idx l :
  convert_ellipsis idx (List.length shape) = Ok l -> noell l -> split_index sd n shape idx = split_index sd n shape l.
Proof.
  intros Hc Hn. unfold split_index. rewrite Hc, (convert_ellipsis_noell l _ Hn). reflexivity.
Qed.

(* split_index_basic with Ellipsis [full]: lazy[idx] for idx made of ints / slices / None / one Ellipsis, any nesting depth *)
Theorem getitem_ellipsis : forall fuel sd bs0 parts bs idx l a' rsd,
  wf_tree (Stack sd bs0 parts) bs -> ell_basic idx -> spec_expand idx (List.length bs) = Some l -> res_shape l bs = Some rsd ->
  lz_getitem fuel (Stack sd bs0 parts) idx = Ok a' -> equiv a' (Index l (Stack sd bs0 parts)).
Proof.
  intros fuel sd bs0 parts bs idx l a' rsd Hwf HB Hspec Hlegal H.
  assert (Hl : basic l).
  { unfold spec_expand in Hspec. destruct ((1 <? List.length (filter is_ell idx))%nat) eqn:E1; [discriminate|].
    destruct ((List.length bs <? consumed idx)%nat); [discriminate|]. inversion Hspec. apply expand_ell_basic; [exact HB|].
    apply Nat.ltb_ge in E1. exact E1. }
  apply (getitem_basic fuel _ bs l a' rsd Hwf Hl Hlegal).
  destruct fuel as [|f]; [discriminate|]. cbn [lz_getitem] in H |- *.
  rewrite (wf_shape _ _ Hwf) in H |- *.
  pose proof (convert_ellipsis_spec idx (List.length bs) l HB Hspec) as Hc.
  pose proof (split_index_convert sd (List.length parts) bs idx l Hc (basic_noell _ Hl)) as Hs.
  unfold getitem_body in H |- *. rewrite Hs in H.
  destruct (split_index sd (List.length parts) bs l) as [sp| | |] eqn:Esp; cbn [rbind] in H |- *; try discriminate.
  rewrite (split_basic_no_bool sd (List.length parts) bs l Hl sp Esp) in H |- *. exact H.
Qed.
