(* C13 — from_module captures exactly the named parameters/buffers (spec: torch's named_members), and TensorDictParams
   registration after update sequences. *)
From Coq Require Import ZArith List String Bool Lia.
Import ListNotations.
From TD Require Import Model.C13_Swap Model.C13_Scope Model.C13_Params Proofs.C13_SwapP.
Open Scope string_scope.
Open Scope list_scope.

(* ------------------------------------------------------------------ spec: torch's named_parameters / named_buffers
   (remove_duplicate=False): the module's own non-None entries under prefix+name, then the children, depth first *)
Definition own_named (sel : mnode -> list (string * option obj)) (pfx : string) (n : mnode) : list (string * obj) :=
  flat_map (fun e => match snd e with Some o => [((pfx ++ fst e)%string, o)] | None => [] end) (sel n).

Fixpoint named_members (sel : mnode -> list (string * option obj)) (fuel : nat) (h : heap) (m : Z) (pfx : string)
  : option (list (string * obj)) :=
  match fuel with
  | O => None
  | S f =>
      match h_get h m with
      | None => None
      | Some n =>
          option_map (app (own_named sel pfx n))
            (fold_right (fun e acc =>
                           match snd e with
                           | None => acc
                           | Some c =>
                               match named_members sel f h c (pfx ++ fst e ++ ".")%string, acc with
                               | Some l, Some a => Some (l ++ a)
                               | _, _ => None
                               end
                           end) (Some []) (m_subs n))
      end
  end.

(* names of one module are pairwise different across _parameters, _buffers and _modules (torch enforces it) *)
Definition names_ok (n : mnode) : Prop := NoDup (map fst (m_params n) ++ map fst (m_bufs n) ++ map fst (m_subs n)).

Lemma d_set_fresh {V} (d : list (string * V)) k v : ~ In k (map fst d) -> d_set d k v = d ++ [(k, v)].
Proof.
  induction d as [|[k' v'] r IH]; cbn; [reflexivity|]. intros H.
  destruct (String.eqb k k') eqn:E; [apply String.eqb_eq in E; subst; tauto|]. rewrite IH by tauto. reflexivity.
Qed.

Lemma dict_fold_fresh {V} (l acc : list (string * V)) :
  NoDup (map fst (acc ++ l)) -> fold_left (fun d e => d_set d (fst e) (snd e)) l acc = acc ++ l.
Proof.
  revert acc. induction l as [|[k v] r IH]; intros acc H; cbn; [now rewrite app_nil_r|].
  rewrite d_set_fresh.
  - rewrite IH; rewrite <- app_assoc; [reflexivity|exact H].
  - rewrite map_app in H. cbn in H. apply NoDup_remove_2 in H. intros Hi. apply H. apply in_or_app. now left.
Qed.

Definition flatL (prefix : string) := fix go (l : list (string * pent)) : list (string * obj) :=
  match l with
  | [] => []
  | (k, PLeaf (Some o)) :: r => (prefix ++ k, o)%string :: go r
  | (k, PLeaf None) :: r => go r
  | (k, PSub t') :: r => flat_leaves (prefix ++ k ++ ".")%string t' ++ go r
  end.
Lemma flat_leaves_PTD pfx ents : flat_leaves pfx (PTD ents) = flatL pfx ents.
Proof. reflexivity. Qed.
Lemma flatL_app pfx a b : flatL pfx (a ++ b) = flatL pfx a ++ flatL pfx b.
Proof.
  induction a as [|[k [[o|]|t']] r IH]; cbn; [reflexivity| | |]; rewrite IH; [reflexivity|reflexivity|now rewrite app_assoc].
Qed.

Definition leaf_ents (l : list (string * option obj)) : list (string * pent) :=
  flat_map (fun e => match snd e with Some o => [(fst e, PLeaf (Some o))] | None => [] end) l.
Lemma own_leaves_eq n : own_leaves n = leaf_ents (m_params n) ++ leaf_ents (m_bufs n).
Proof. reflexivity. Qed.
Lemma leaf_ents_keys l k : In k (map fst (leaf_ents l)) -> In k (map fst l).
Proof.
  induction l as [|[k' [o|]] r IH]; cbn; [tauto| |]; intros H; [destruct H; auto|auto].
Qed.
Lemma leaf_ents_nodup l : NoDup (map fst l) -> NoDup (map fst (leaf_ents l)).
Proof.
  induction l as [|[k' [o|]] r IH]; cbn; intros H; [constructor| |]; inversion H; subst; auto.
  constructor; auto. intros Hi. apply leaf_ents_keys in Hi. tauto.
Qed.
Lemma flatL_leaf_ents pfx l :
  flatL pfx (leaf_ents l) = flat_map (fun e => match snd e with Some o => [((pfx ++ fst e)%string, o)] | None => [] end) l.
Proof.
  induction l as [|[k' [o|]] r IH]; [reflexivity| |].
  - change (leaf_ents ((k', Some o) :: r)) with ([(k', PLeaf (Some o))] ++ leaf_ents r). rewrite flatL_app, IH. reflexivity.
  - change (leaf_ents ((k', None) :: r)) with (leaf_ents r). exact IH.
Qed.

(* entries contributed by the children *)
Definition sub_ents (f : nat) (h : heap) (subs : list (string * option Z)) : list (string * pent) :=
  flat_map (fun e => match snd e with
                     | Some c => match from_module f h c with FmTd t => [(fst e, PSub t)] | _ => [] end
                     | None => []
                     end) subs.
Lemma sub_ents_keys f h subs k : In k (map fst (sub_ents f h subs)) -> In k (map fst subs).
Proof.
  induction subs as [|[k' [c|]] r IH]; cbn; [tauto| |auto].
  destruct (from_module f h c); cbn; intros H; auto. destruct H; auto.
Qed.

Definition sub_step (f : nat) (h : heap) :=
  fun (acc : option (list (string * pent))) (e : string * option Z) =>
    match acc, snd e with
    | None, _ => None
    | Some d, None => Some d
    | Some d, Some c =>
        match from_module f h c with
        | FmOutOfFuel => None
        | FmNone => Some d
        | FmTd t => Some (d_set d (fst e) (PSub t))
        end
    end.

Lemma from_module_S f h m :
  from_module (S f) h m =
  match h_get h m with
  | None => FmOutOfFuel
  | Some n =>
      match fold_left (sub_step f h) (m_subs n) (Some (dict_of (own_leaves n))) with
      | None => FmOutOfFuel
      | Some [] => FmNone
      | Some d => FmTd (PTD d)
      end
  end.
Proof. reflexivity. Qed.

Lemma sub_fold_none f h subs : fold_left (sub_step f h) subs None = None.
Proof. induction subs as [|e r IH]; cbn; auto. Qed.

Lemma sub_fold_spec f h subs : forall d0 d,
  fold_left (sub_step f h) subs (Some d0) = Some d ->
  NoDup (map fst d0 ++ map fst subs) ->
  d = d0 ++ sub_ents f h subs
  /\ Forall (fun e => forall c, snd e = Some c -> from_module f h c <> FmOutOfFuel) subs.
Proof.
  induction subs as [|[k [c|]] r IH]; intros d0 d Hf Hnd.
  - cbn in Hf. inversion Hf. cbn. now rewrite app_nil_r.
  - cbn [fold_left sub_step snd fst] in Hf. cbn [sub_ents flat_map snd fst].
    assert (Hk : ~ In k (map fst d0)).
    { intros Hi. apply NoDup_remove_2 in Hnd. apply Hnd. apply in_or_app. now left. }
    assert (Hnd' : NoDup (map fst d0 ++ map fst r)) by (now apply NoDup_remove_1 in Hnd).
    destruct (from_module f h c) as [|t|] eqn:Ef.
    + destruct (IH d0 d Hf Hnd') as (E & F). split; [exact E|]. constructor; auto. cbn. intros c' Hc'. inversion Hc'; subst. congruence.
    + rewrite d_set_fresh in Hf by exact Hk.
      destruct (IH (d0 ++ [(k, PSub t)]) d Hf) as (E & F).
      { rewrite map_app. cbn. rewrite <- app_assoc. cbn.
        exact Hnd. }
      split; [rewrite E, <- app_assoc; reflexivity|]. constructor; auto. cbn. intros c' Hc'. inversion Hc'; subst. congruence.
    + rewrite sub_fold_none in Hf. discriminate.
  - cbn [fold_left sub_step snd fst] in Hf. cbn [sub_ents flat_map snd].
    assert (Hnd' : NoDup (map fst d0 ++ map fst r)) by (now apply NoDup_remove_1 in Hnd).
    destruct (IH d0 d Hf Hnd') as (E & F). split; [exact E|]. constructor; auto. cbn. intros c' Hc'. discriminate.
Qed.

Lemma NoDup_app_inv {A} (a b : list A) : NoDup (a ++ b) -> NoDup a /\ NoDup b /\ forall x, In x a -> ~ In x b.
Proof.
  induction a as [|x r IH]; cbn; intros H.
  - repeat split; auto. constructor.
  - inversion H as [|? ? Hx Hr]; subst. destruct (IH Hr) as (A1 & A2 & A3). repeat split; auto.
    + constructor; auto. intros Hi. apply Hx. apply in_or_app. now left.
    + intros y [<-|Hy]; [intros Hi; apply Hx; apply in_or_app; now right|now apply A3].
Qed.
Lemma NoDup_app_intro {A} (a b : list A) : NoDup a -> NoDup b -> (forall x, In x a -> ~ In x b) -> NoDup (a ++ b).
Proof.
  induction a as [|x r IH]; cbn; intros Ha Hb Hd; [exact Hb|].
  inversion Ha; subst. constructor.
  - intros Hi. apply in_app_or in Hi. destruct Hi; [tauto|]. apply (Hd x); auto.
  - apply IH; auto.
Qed.
Lemma nil_of_no_elements {A} (l : list A) : (forall x, ~ In x l) -> l = [].
Proof. destruct l as [|a r]; [reflexivity|]. intros H. exfalso. apply (H a). now left. Qed.

Definition child_fold (sel : mnode -> list (string * option obj)) (f : nat) (h : heap) (pfx : string) (subs : list (string * option Z)) :=
  fold_right (fun e acc =>
                match snd e with
                | None => acc
                | Some c =>
                    match named_members sel f h c (pfx ++ fst e ++ ".")%string, acc with
                    | Some l, Some a => Some (l ++ a)
                    | _, _ => None
                    end
                end) (Some []) subs.

Lemma named_members_S sel f h m pfx :
  named_members sel (S f) h m pfx =
  match h_get h m with
  | None => None
  | Some n => option_map (app (own_named sel pfx n)) (child_fold sel f h pfx (m_subs n))
  end.
Proof. reflexivity. Qed.

Definition fm_exact_stmt (fuel : nat) (h : heap) : Prop :=
  forall m pfx,
    match from_module fuel h m with
    | FmOutOfFuel => True
    | FmNone => named_members m_params fuel h m pfx = Some [] /\ named_members m_bufs fuel h m pfx = Some []
    | FmTd t =>
        exists ps bs, named_members m_params fuel h m pfx = Some ps /\ named_members m_bufs fuel h m pfx = Some bs
          /\ forall name o, In (name, o) (flat_leaves pfx t) <-> In (name, o) ps \/ In (name, o) bs
    end.

Lemma children_spec f h pfx subs :
  fm_exact_stmt f h ->
  Forall (fun e => forall c, snd e = Some c -> from_module f h c <> FmOutOfFuel) subs ->
  exists cps cbs, child_fold m_params f h pfx subs = Some cps /\ child_fold m_bufs f h pfx subs = Some cbs
    /\ forall name o, In (name, o) (flatL pfx (sub_ents f h subs)) <-> In (name, o) cps \/ In (name, o) cbs.
Proof.
  intros IHf. induction subs as [|[k [c|]] r IH]; intros HF.
  - exists [], []. cbn. repeat split; tauto.
  - destruct (IH (Forall_inv_tail HF)) as (cps & cbs & E1 & E2 & E3).
    pose proof (Forall_inv HF c eq_refl) as Hne. cbn in Hne.
    specialize (IHf c (pfx ++ k ++ ".")%string).
    unfold child_fold in *. cbn [fold_right snd fst]. rewrite E1, E2.
    unfold sub_ents. cbn [flat_map snd fst]. fold (sub_ents f h r).
    destruct (from_module f h c) as [|t|]; [| |congruence].
    + destruct IHf as (N1 & N2). rewrite N1, N2. exists cps, cbs. cbn. repeat split; auto; apply E3.
    + destruct IHf as (ps & bs & N1 & N2 & N3). rewrite N1, N2. exists (ps ++ cps), (bs ++ cbs).
      split; [reflexivity|]. split; [reflexivity|]. intros name o.
      change (flatL pfx ([(k, PSub t)] ++ sub_ents f h r)) with (flat_leaves (pfx ++ k ++ ".")%string t ++ flatL pfx (sub_ents f h r)).
      rewrite !in_app_iff, N3, E3. tauto.
  - destruct (IH (Forall_inv_tail HF)) as (cps & cbs & E1 & E2 & E3).
    exists cps, cbs. unfold child_fold in *. cbn [fold_right snd]. repeat split; auto; apply E3.
Qed.

Theorem from_module_exact_lemma h :
  (forall c n, h_get h c = Some n -> names_ok n) -> forall fuel, fm_exact_stmt fuel h.
Proof.
  intros Hnames. induction fuel as [|f IHf]; intros m pfx; [exact I|].
  rewrite from_module_S, !named_members_S.
  destruct (h_get h m) as [n|] eqn:En; [|exact I].
  destruct (fold_left (sub_step f h) (m_subs n) (Some (dict_of (own_leaves n)))) as [d|] eqn:Ef; [|exact I].
  pose proof (Hnames m n En) as Hn. unfold names_ok in Hn.
  destruct (NoDup_app_inv _ _ Hn) as (Np & Nbs & Dp).
  destruct (NoDup_app_inv _ _ Nbs) as (Nb & Ns & Db).
  assert (Nown : NoDup (map fst (own_leaves n))).
  { rewrite own_leaves_eq, map_app. apply NoDup_app_intro; try now apply leaf_ents_nodup.
    intros x Hx Hy. apply leaf_ents_keys in Hx, Hy. apply (Dp x Hx). apply in_or_app. now left. }
  assert (Hdict : dict_of (own_leaves n) = own_leaves n).
  { unfold dict_of. rewrite dict_fold_fresh; [reflexivity|exact Nown]. }
  rewrite Hdict in Ef.
  destruct (sub_fold_spec f h (m_subs n) (own_leaves n) d Ef) as (Ed & HF).
  { apply NoDup_app_intro; auto. intros x Hx Hy. rewrite own_leaves_eq, map_app in Hx. apply in_app_or in Hx.
    destruct Hx as [Hx|Hx]; apply leaf_ents_keys in Hx.
    - apply (Dp x Hx). apply in_or_app. now right.
    - now apply (Db x Hx). }
  destruct (children_spec f h pfx (m_subs n) IHf HF) as (cps & cbs & C1 & C2 & C3).
  rewrite C1, C2. cbn [option_map].
  assert (Hflat : forall name o, In (name, o) (flatL pfx d) <->
            In (name, o) (own_named m_params pfx n ++ cps) \/ In (name, o) (own_named m_bufs pfx n ++ cbs)).
  { intros name o. rewrite Ed, own_leaves_eq, !flatL_app, !flatL_leaf_ents, !in_app_iff, C3.
    unfold own_named. tauto. }
  destruct d as [|e d'].
  - assert (H1 : own_named m_params pfx n ++ cps = []).
    { apply nil_of_no_elements. intros [name o] Hi. exact (proj2 (Hflat name o) (or_introl Hi)). }
    assert (H2 : own_named m_bufs pfx n ++ cbs = []).
    { apply nil_of_no_elements. intros [name o] Hi. exact (proj2 (Hflat name o) (or_intror Hi)). }
    rewrite H1, H2. split; reflexivity.
  - exists (own_named m_params pfx n ++ cps), (own_named m_bufs pfx n ++ cbs).
    split; [reflexivity|]. split; [reflexivity|]. intros name o. rewrite flat_leaves_PTD. apply Hflat.
Qed.

(* ------------------------------------------------------------------ TensorDictParams registration *)
Definition names_unique (s : tdparams) : Prop := NoDup (map fst (flat_leaves "" (tp_td s))).

Lemma filter_keys_nodup {V} (f : string * V -> bool) (l : list (string * V)) :
  NoDup (map fst l) -> NoDup (map fst (filter f l)).
Proof.
  induction l as [|[k v] r IH]; cbn; intros H; [constructor|]. inversion H; subst.
  destruct (f (k, v)); cbn; auto. constructor; auto.
  intros Hi. apply in_map_iff in Hi. destruct Hi as ([k' v'] & E & Hi). cbn in E. subst k'.
  apply filter_In in Hi. destruct Hi as (Hi & _). apply H2. apply in_map_iff. exists (k, v'). auto.
Qed.

Lemma dict_of_objs_nodup (l : list (string * obj)) : NoDup (map fst l) -> dict_of_objs l = l.
Proof. intros H. unfold dict_of_objs. rewrite dict_fold_fresh; [reflexivity|exact H]. Qed.

Lemma reset_registered s : names_unique s -> registered_exactly (reset_params s).
Proof.
  intros Hu name o. unfold reset_params. cbn [tp_params tp_bufs tp_td].
  rewrite !dict_of_objs_nodup by (apply filter_keys_nodup; exact Hu).
  rewrite !filter_In. cbn. destruct (is_param o); cbn; intuition congruence.
Qed.

Lemma step_registered s o :
  top_level o = true -> registered_exactly s -> names_unique (fst (step s o)) -> registered_exactly (fst (step s o)).
Proof.
  intros Ht Hr Hu. destruct o as [path x isf conv|path|k k'|path k x|path k]; try discriminate; cbn [step] in *.
  - destruct (if conv then convert s x isf else (x, tp_next s)) as [x' nxt].
    destruct (set_path (tp_td s) path (PLeaf (Some x'))) as [t'|]; cbn [fst] in *.
    + apply reset_registered. exact Hu.
    + exact Hr.
  - destruct (del_path (tp_td s) path) as [t'|]; cbn [fst] in *; [apply reset_registered; exact Hu|exact Hr].
  - destruct (p_get (tp_td s) k) as [v|]; [|exact Hr]. destruct (p_get (tp_td s) k'); [exact Hr|].
    cbn [fst] in *. apply reset_registered. exact Hu.
Qed.

Theorem params_registration_lemma : forall ops s,
  registered_exactly s -> Forall (fun o => top_level o = true) ops ->
  (forall n, names_unique (run_ops s (firstn n ops))) ->
  registered_exactly (run_ops s ops).
Proof.
  induction ops as [|o r IH]; intros s Hr Ht Hu; [exact Hr|].
  cbn [run_ops fold_left]. change (registered_exactly (run_ops (fst (step s o)) r)).
  apply IH.
  - apply step_registered; [exact (Forall_inv Ht)|exact Hr|]. exact (Hu 1%nat).
  - exact (Forall_inv_tail Ht).
  - intros n. exact (Hu (S n)).
Qed.

(* a write through a nested handle: the new leaf is not registered (D135) *)
Definition ex_tdp : tdparams := reset_params (mkTdp (PTD [("n", PSub (PTD [("b", PLeaf (Some (oP 1)))]))]) [] [] false FRESH_BASE).
Lemma ex_D135 :
  registered_exactly ex_tdp /\ names_unique (run_ops ex_tdp [ONestedSet ["n"] "z" (oP 2)])
  /\ ~ registered_exactly (run_ops ex_tdp [ONestedSet ["n"] "z" (oP 2)]).
Proof.
  split; [apply reset_registered; vm_compute; repeat constructor; cbn; tauto|].
  split; [vm_compute; repeat constructor; cbn; intuition discriminate|].
  intros H. specialize (H "n.z" (oP 2)). vm_compute in H. destruct H as (_ & H).
  destruct H as [[H|[]]|[]]; [right; left; reflexivity|discriminate].
Qed.

(* ------------------------------------------------------------------ statements used by Props/C13.v *)
Theorem from_module_exact h fuel m t :
  (forall c n, h_get h c = Some n -> names_ok n) -> from_module fuel h m = FmTd t ->
  exists ps bs, named_members m_params fuel h m "" = Some ps /\ named_members m_bufs fuel h m "" = Some bs
    /\ forall name o, In (name, o) (flat_leaves "" t) <-> In (name, o) ps \/ In (name, o) bs.
Proof.
  intros Hn Hf. pose proof (from_module_exact_lemma h Hn fuel m "") as H. rewrite Hf in H. exact H.
Qed.

Theorem from_module_none h fuel m :
  (forall c n, h_get h c = Some n -> names_ok n) -> from_module fuel h m = FmNone ->
  named_members m_params fuel h m "" = Some [] /\ named_members m_bufs fuel h m "" = Some [].
Proof.
  intros Hn Hf. pose proof (from_module_exact_lemma h Hn fuel m "") as H. rewrite Hf in H. exact H.
Qed.

Lemma names_okb_ok h : names_okb h = true -> forall c n, h_get h c = Some n -> names_ok n.
Proof.
  intros H c n Hn. unfold names_okb in H. rewrite forallb_forall in H.
  apply nodupb_ok. exact (H (c, n) (z_get_In _ _ _ Hn)).
Qed.

Lemma ex_from_module :
  (forall c n, h_get ex_heap c = Some n -> names_ok n)
  /\ exists t, from_module 4 ex_heap 0 = FmTd t /\ List.length (flat_leaves "" t) = 5%nat.
Proof.
  split; [apply names_okb_ok; reflexivity|]. eexists. split; [vm_compute; reflexivity|reflexivity].
Qed.
