(* C10 — failing writer tasks: the threaded call raises exactly when the sequential call does, provided every spawned
   task's future is in the list the entry point inspects.  Lemmas. *)
From Coq Require Import ZArith List String Bool Permutation Lia.
Import ListNotations.
From TD Require Import Model.C10_Meta Model.C10_Sched Model.C10_Fault Proofs.C10_MetaP Proofs.C10_SchedP Proofs.C10_TasksP.
Open Scope string_scope.
Open Scope list_scope.

(* ------------------------------------------------------------------ the loops of [submitted], named *)
Definition sub_ents (h : bool -> bool) (o : opts) (ip : bool) (p : path) := fix go (es : list (string * td)) : list (task * bool) :=
  match es with
  | [] => []
  | (k, Leaf l) :: r => (TPopulate p k (o, l), true) :: go r
  | (k, c) :: r => submitted h o ip c (p ++ [k]) ++ go r
  end.
Definition sub_members (h : bool -> bool) (o : opts) (ip : bool) (p : path) := fix go (ms : list td) (i : nat) : list (task * bool) :=
  match ms with [] => [] | m :: r => submitted h o ip m (p ++ [string_of_nat i]) ++ go r (S i) end.

Lemma submitted_node : forall h o ip bs ents p,
  submitted h o ip (Node bs ents) p
  = sub_ents h o ip p ents ++ [(TWrite p (Ok [(FMeta, CJson (JObj (node_meta bs ents)))]) [], true)].
Proof. reflexivity. Qed.
Lemma submitted_lazy : forall h o ip sd ms p,
  submitted h o ip (Lazy sd ms) p
  = (TWrite p (Ok [(FMeta, CJson (JObj (lazy_meta sd (List.length ms))))]) [], true) :: sub_members h o ip p ms 0.
Proof. reflexivity. Qed.
Lemma submitted_tc : forall h o ip c nt inner p,
  submitted h o ip (TCls c nt inner) p
  = (TWrite p (tc_files c nt []) (tc_removes nt), true)
    :: map (fun tb => (fst tb, snd tb && h ip)) (submitted h o ip inner (p ++ ["_tensordict"])).
Proof. reflexivity. Qed.

(* ------------------------------------------------------------------ the walk with flags submits the tasks of [tasks_of] *)
Lemma submitted_fst : forall h o ip t p, map fst (submitted h o ip t p) = tasks_of o t p.
Proof.
  intros h o ip t. induction t using td_ind'; intro p.
  - reflexivity.
  - rewrite submitted_node, tasks_of_node, map_app. f_equal.
    induction ents as [|[k x] ents IH]; [reflexivity|]. inversion H as [|? ? H2 H3]; subst. cbn [snd] in H2. cbn [sub_ents tasks_ents].
    destruct x; try (rewrite map_app, (H2 (p ++ [k])), (IH H3); reflexivity).
    cbn [map fst]. f_equal. apply IH; auto.
  - rewrite submitted_lazy, tasks_of_lazy. cbn [map fst]. f_equal. generalize 0.
    induction ms as [|m ms IH]; intro i; [reflexivity|]. inversion H as [|? ? H2 H3]; subst. cbn [sub_members tasks_members].
    rewrite map_app, (H2 (p ++ [string_of_nat i])), (IH H3). reflexivity.
  - rewrite submitted_tc. cbn [tasks_of map fst]. f_equal. rewrite map_map. cbn [fst]. apply IHt.
  - reflexivity.
  - reflexivity.
Qed.

(* ... and, when the tensorclass hands its fields' futures over, every one of them is collected *)
Lemma submitted_all_collected : forall h, (forall b, h b = true) ->
  forall o ip t p, forallb snd (submitted h o ip t p) = true.
Proof.
  intros h Hh o ip t. induction t using td_ind'; intro p.
  - reflexivity.
  - rewrite submitted_node, forallb_app. apply andb_true_iff. split; [|reflexivity].
    induction ents as [|[k x] ents IH]; [reflexivity|]. inversion H as [|? ? H2 H3]; subst. cbn [snd] in H2. cbn [sub_ents].
    destruct x; try (rewrite forallb_app, (H2 (p ++ [k])), (IH H3); reflexivity).
    cbn [forallb snd andb]. apply IH; auto.
  - rewrite submitted_lazy. cbn [forallb snd andb]. generalize 0.
    induction ms as [|m ms IH]; intro i; [reflexivity|]. inversion H as [|? ? H2 H3]; subst. cbn [sub_members].
    rewrite forallb_app, (H2 (p ++ [string_of_nat i])), (IH H3). reflexivity.
  - rewrite submitted_tc. cbn [forallb snd andb]. apply forallb_forall. intros x Hin.
    apply in_map_iff in Hin as (y & E & Hin). subst x. cbn [snd]. rewrite Hh, andb_true_r.
    specialize (IHt (p ++ ["_tensordict"])). rewrite forallb_forall in IHt. now apply IHt.
  - reflexivity.
  - reflexivity.
Qed.

(* ------------------------------------------------------------------ collected = spawned *)
Lemma collected_all : forall sub, forallb snd sub = true -> collected sub = spawned sub.
Proof.
  unfold collected, spawned. induction sub as [|[t b] sub IH]; cbn; intro H; auto.
  apply andb_true_iff in H as [Hb H]. subst b. cbn. now rewrite IH.
Qed.

Lemma spawned_inject : forall fl sub, spawned (inject_sub fl sub) = map (inject fl) (spawned sub).
Proof. intros fl sub. unfold spawned, inject_sub. rewrite !map_map. reflexivity. Qed.

Lemma flags_inject : forall fl sub, forallb snd (inject_sub fl sub) = forallb snd sub.
Proof. intros fl sub. unfold inject_sub. induction sub as [|[t b] sub IH]; cbn; auto. now rewrite IH. Qed.

(* ------------------------------------------------------------------ the theorem, for every task list *)
(* for EVERY list of submitted tasks (whatever they do, whichever fail), every completion order ts', every state the
   calling thread left: if every spawned task is collected, the pool call raises iff the inline run raises — and the
   same exception class *)
Lemma threaded_raises_iff_sequential_raises_lemma : forall (sub : list (task * bool)) (s : state) (ts' : list task),
  forallb snd sub = true -> Permutation (spawned sub) ts' ->
  res_err (call_result true sub s ts') = res_err (run_tasks_strict (spawned sub) s).
Proof.
  intros sub s ts' Hall _. unfold call_result. rewrite (collected_all sub Hall), strict_outcome.
  destruct (first_error (spawned sub)); reflexivity.
Qed.

(* ... and when neither raises they end in the same mapping, files and directories *)
Lemma threaded_succeeds_like_sequential_lemma : forall (sub : list (task * bool)) (s st : state) (ts' : list task),
  forallb snd sub = true -> independent (spawned sub) = true -> Permutation (spawned sub) ts' ->
  run_tasks_strict (spawned sub) s = Ok st ->
  exists st', call_result true sub s ts' = Ok st' /\ state_equiv st st'.
Proof.
  intros sub s st ts' Hall Hind Hperm Hseq.
  pose proof (strict_outcome (spawned sub) s) as Ho. rewrite Hseq in Ho. cbn in Ho.
  unfold call_result. rewrite (collected_all sub Hall), <- Ho.
  eexists. split; [reflexivity|]. rewrite (strict_ok_is_pool _ _ _ Hseq). now apply any_order_lemma.
Qed.

(* the hypothesis is needed: a failing task whose future is not collected is swallowed *)
Lemma uncollected_failure_is_swallowed : forall (sub : list (task * bool)) (s : state) (ts' : list task) e,
  first_error (collected sub) = None -> first_error (spawned sub) = Some e ->
  call_result true sub s ts' = Ok (run_tasks ts' s) /\ run_tasks_strict (spawned sub) s = Raised e.
Proof.
  intros sub s ts' e Hc Hs. unfold call_result. rewrite Hc. split; auto.
  pose proof (strict_outcome (spawned sub) s) as Ho. rewrite Hs in Ho.
  destruct (run_tasks_strict (spawned sub) s); cbn in Ho; congruence.
Qed.

(* a call that does not inspect its futures (TensorDictFuture.result: wait only) never raises for a task's sake *)
Lemma uninspected_never_raises : forall sub s ts', call_result false sub s ts' = Ok (run_tasks ts' s).
Proof. reflexivity. Qed.

(* ------------------------------------------------------------------ obstacles keep the tasks independent *)
Lemma disjointb_nil_r : forall {A} (eqb : A -> A -> bool) (a : list A), disjointb eqb a [] = true.
Proof. intros A eqb a. unfold disjointb. induction a; cbn; auto. Qed.

Lemma independent2_failing_l : forall p e b, independent2 (failing p e) b = true.
Proof. reflexivity. Qed.
Lemma independent2_failing_r : forall p e a, independent2 a (failing p e) = true.
Proof. intros p e a. unfold independent2, failing. cbn [dest_targets file_targets]. now rewrite !disjointb_nil_r. Qed.

Lemma independent2_inject : forall fl a b, independent2 a b = true -> independent2 (inject fl a) (inject fl b) = true.
Proof.
  intros fl a b H. unfold inject. destruct (mget floc_eqb (target a) fl), (mget floc_eqb (target b) fl); auto.
  - apply independent2_failing_r.
Qed.

Lemma independent_inject : forall fl ts, independent ts = true -> independent (map (inject fl) ts) = true.
Proof.
  intros fl. induction ts as [|t ts IH]; cbn; intro H; auto.
  apply andb_true_iff in H as [H1 H2]. apply andb_true_iff. split; auto.
  rewrite forallb_forall in *. intros x Hx. apply in_map_iff in Hx as (y & E & Hy). subst x.
  apply independent2_inject. now apply H1.
Qed.

(* ------------------------------------------------------------------ memmap_ / memmap / memmap_like / save under obstacles *)
Lemma repo_collects_everything : forall fl o ip t,
  collected (inject_sub fl (submitted repo_hands_over o ip t [])) = map (inject fl) (tasks_of o t []).
Proof.
  intros fl o ip t. rewrite collected_all.
  - now rewrite spawned_inject, <- (submitted_fst repo_hands_over o ip t []).
  - rewrite flags_inject. now apply submitted_all_collected.
Qed.

Lemma memmap_fault_threads_lemma : forall fx fl o ip t ts',
  res_err (pool_call_f_gen repo_hands_over fx fl false o ip t ts') = res_err (run_sequential_f fl o ip t).
Proof.
  intros fx fl o ip t ts'. unfold pool_call_f_gen, run_sequential_f. destruct (has_reserved t); auto.
  unfold call_result. rewrite repo_collects_everything, strict_outcome.
  destruct (first_error (map (inject fl) (tasks_of o t []))); reflexivity.
Qed.

Lemma memmap_fault_threads_state_lemma : forall fx fl o ip t ts' st,
  keys_distinct t = true -> Permutation (map (inject fl) (tasks_of o t [])) ts' ->
  run_sequential_f fl o ip t = Ok st ->
  exists st', pool_call_f_gen repo_hands_over fx fl false o ip t ts' = Ok st' /\ state_equiv st st'.
Proof.
  intros fx fl o ip t ts' st Hk Hperm Hseq. unfold pool_call_f_gen, run_sequential_f in *.
  destruct (has_reserved t); [discriminate|].
  assert (Hsp : spawned (inject_sub fl (submitted repo_hands_over o ip t [])) = map (inject fl) (tasks_of o t [])).
  { now rewrite spawned_inject, <- (submitted_fst repo_hands_over o ip t []). }
  apply threaded_succeeds_like_sequential_lemma.
  - rewrite flags_inject. now apply submitted_all_collected.
  - rewrite Hsp. apply independent_inject. now apply tasks_independent_lemma.
  - now rewrite Hsp.
  - now rewrite Hsp.
Qed.

(* return_early: with the repair the TensorDictFuture behaves like the entry points; without it, it agrees with the
   sequential call exactly when no task fails *)
Lemma return_early_repaired_lemma : forall fl o ip t ts',
  res_err (pool_call_f_gen repo_hands_over true fl true o ip t ts') = res_err (run_sequential_f fl o ip t).
Proof.
  intros fl o ip t ts'. unfold pool_call_f_gen, run_sequential_f. destruct (has_reserved t); auto.
  unfold call_result. rewrite repo_collects_everything, strict_outcome.
  destruct (first_error (map (inject fl) (tasks_of o t []))); reflexivity.
Qed.

Lemma return_early_partial_lemma : forall fl o ip t ts',
  first_error (map (inject fl) (tasks_of o t [])) = None ->
  res_err (pool_call_f_gen repo_hands_over false fl true o ip t ts') = res_err (run_sequential_f fl o ip t).
Proof.
  intros fl o ip t ts' Hno. unfold pool_call_f_gen, run_sequential_f. destruct (has_reserved t); auto.
  rewrite strict_outcome, Hno. reflexivity.
Qed.
