(* C02 proofs, part 11: illegal arguments of the operations with several results.  unbind and chunk validate their
   arguments themselves: rejected on EVERY tree (even without entries).  split(list): rejected whenever the sizes do
   not sum beyond the dim (the complement is finding D4: truncation).  Plus the refutation witnesses of the two
   "accepted although torch rejects" findings of this round (C02-o, C02-p). *)
From Coq Require Import ZArith List Bool Lia ZifyBool String.
Import ListNotations.
From TD Require Import Spec.PySlice Spec.C02_TorchShape Model.C02_ShapeOps Proofs.C02_FrameP Proofs.C02_OpsP Proofs.C02_MultiP
                       Proofs.C02_RejectP Proofs.C02_RejLiftP Proofs.C02_RejOpsP.
Open Scope Z_scope.
Ltac Zify.zify_post_hook ::= Z.to_euclidean_division_equations.

Theorem unbind_illegal_rejected : forall bs nm ents d,
  t_unbind bs d = Reject -> exists e, td_unbind (Node bs nm ents) d = Raised e.
Proof.
  intros bs nm ents d Ht. exists EIndex. cbn [td_unbind]. unfold t_unbind in Ht.
  destruct bs as [|b0 bs0] eqn:Eb.
  - unfold correct_neg_dim. cbn [List.length Z.of_nat]. destruct (d <? 0); destruct ((_ <? 0) || (0 <=? _)) eqn:E; try reflexivity; lia.
  - rewrite <- Eb in *. destruct (wrap_dim d (List.length bs)) as [i|] eqn:Ei; [discriminate|].
    rewrite (correct_neg_dim_reject _ _ Ei). reflexivity.
Qed.

Theorem chunk_illegal_rejected : forall bs nm ents c d,
  t_chunk bs c d = Reject -> exists e, td_chunk (Node bs nm ents) c d = Raised e.
Proof.
  intros bs nm ents c d Ht. cbn [td_chunk]. destruct (c <? 1) eqn:Ec; [exists EValue; reflexivity|].
  unfold len. destruct ((d <? - Z.of_nat (List.length bs)) || (Z.of_nat (List.length bs) <=? d)) eqn:Ed; [exists EIndex; reflexivity|].
  exfalso. unfold t_chunk in Ht. destruct bs as [|b0 bs0] eqn:Eb; [cbn in Ed; lia|]. rewrite <- Eb in *.
  unfold wrap_dim in Ht. rewrite Ed in Ht. cbn [bind] in Ht. destruct (c <=? 0) eqn:E0; [lia|].
  destruct (_ =? 0); discriminate.
Qed.

Theorem split_list_illegal_rejected_partial : forall bs nm ents l d,
  t_split_list bs l d = Reject ->
  (forall i, wrap_dim d (List.length bs) = Ok i -> sumZ l <= nthZ bs i) ->
  exists e, td_split (Node bs nm ents) (inr l) d = Raised e.
Proof.
  intros bs nm ents l d Ht Hs. cbn [td_split]. unfold t_split_list in Ht.
  destruct bs as [|b0 bs0] eqn:Eb.
  { exists EIndex. unfold correct_neg_dim. cbn [List.length Z.of_nat]. destruct (d <? 0); destruct ((_ <? 0) || (0 <=? _)) eqn:E; try reflexivity; lia. }
  rewrite <- Eb in *. destruct (wrap_dim d (List.length bs)) as [i|] eqn:Ei.
  - rewrite (correct_neg_dim_wrap _ _ _ Ei). cbn [bindo bind] in *. specialize (Hs i eq_refl). exists ERuntime.
    unfold split_list_segments. destruct l as [|x r]; [reflexivity|]. change fixed_D4 with true. cbn [andb].
    destruct (forallb (fun y => 0 <=? y) (x :: r)) eqn:Ef; cbn [negb]; [|reflexivity].
    cbn [andb] in Ht. apply forallb_nonneg in Ef. apply nonneg_cons in Ef. destruct Ef as [Hx Hr].
    pose proof (sumZ_nonneg r Hr) as Hsr. unfold sumZ in Hs, Ht. cbn [fold_right] in Hs, Ht. fold (sumZ r) in Hs, Ht.
    rewrite Z.min_r by lia. rewrite split_list_loop_legal by (try assumption; lia).
    destruct (x + sumZ r <? nthZ bs i) eqn:E; [reflexivity|].
    destruct (x + sumZ r =? nthZ bs i) eqn:E2; [discriminate|lia].
  - exists EIndex. rewrite (correct_neg_dim_reject _ _ Ei). reflexivity.
Qed.

(* ------------------------------------------------------------------ the two findings of this round, in the model *)
Local Open Scope string_scope.
Open Scope Z_scope.

(* C02-o: every entry has zero elements beyond the batch dims: the per-entry view is legal although the batch shapes
   have different numbers of elements *)
Lemma C02o_zero_numel_entries_accept :
  t_view [3; 3] [3] = Reject /\
  apply (Node [3; 3] None [("a", Leaf [3; 3; 0])]) (OView [3]) = Done (Node [3] None [("a", Leaf [3; 0])]) /\
  apply (Node [3; 3] None [("a", Leaf [3; 3; 0])]) (OReshape [3]) = Done (Node [3] None [("a", Leaf [3; 0])]).
Proof. repeat split; vm_compute; reflexivity. Qed.

(* C02-p: torch.cat compares the entries, not the batch sizes: operands of different batch rank whose entries agree *)
Lemma C02p_cat_batch_rank_accept :
  t_cat [[2; 3]; [2]] 0 = Reject /\
  td_cat [Node [2; 3] None [("a", Leaf [2; 3])]; Node [2] None [("a", Leaf [2; 3])]] 0
    = Done (Node [4; 3] None [("a", Leaf [4; 3])]) /\
  t_cat [[2]; [2; 3]] 0 = Reject /\
  td_cat [Node [2] None [("a", Leaf [2; 3])]; Node [2; 3] None [("a", Leaf [2; 3])]] 0
    = Done (Node [4] None [("a", Leaf [4; 3])]).
Proof. repeat split; vm_compute; reflexivity. Qed.

(* non-vacuity of the rejection theorem: a three-level tree, a tensor two levels down *)
Lemma ex_hasleaf_view : hasleaf (leaf_ok (OView [7])) 3 ex_tree_P.
Proof.
  eapply hl_node; [right; right; left; reflexivity|]. eapply hl_node; [left; reflexivity|]. apply hl_leaf. cbn. lia.
Qed.
