(* C16 proofs, part 2: maybe_to_stack / from_nontensordata, unbind (select), _stack_non_tensor. *)
From Coq Require Import ZArith List Bool Lia.
Import ListNotations.
From TD Require Import Spec.PySlice Spec.C16_ObjArray Model.C16_NonTensor Proofs.C16_BasicsP.
Open Scope nat_scope.

(* ---------------- insert_at / remove_at, cons-wise *)
Lemma insert_at_0 {A} (x : A) l : insert_at 0 x l = x :: l.
Proof. reflexivity. Qed.
Lemma insert_at_S {A} i (x y : A) l : insert_at (S i) x (y :: l) = y :: insert_at i x l.
Proof. reflexivity. Qed.
Lemma remove_at_0 {A} (y : A) l : remove_at 0 (y :: l) = l.
Proof. reflexivity. Qed.
Lemma remove_at_S {A} j (y : A) l : remove_at (S j) (y :: l) = y :: remove_at j l.
Proof. reflexivity. Qed.

Lemma nth_insert_lt {A} (l : list A) : forall i j x, j < i -> i <= length l -> nth_error (insert_at i x l) j = nth_error l j.
Proof.
  induction l as [|y l IH]; intros i j x Hj Hi; cbn [length] in Hi; [lia|].
  destruct i as [|i]; [lia|]. rewrite insert_at_S. destruct j as [|j]; [reflexivity|]. cbn [nth_error]. apply IH; lia.
Qed.
Lemma nth_insert_gt {A} (l : list A) : forall i j x, i < j -> i <= length l -> nth_error (insert_at i x l) j = nth_error l (j - 1).
Proof.
  induction l as [|y l IH]; intros i j x Hj Hi; cbn [length] in Hi.
  - assert (i = 0) by lia. subst. rewrite insert_at_0. destruct j as [|j]; [lia|]. cbn [nth_error].
    replace (S j - 1) with j by lia. reflexivity.
  - destruct i as [|i].
    + rewrite insert_at_0. destruct j as [|j]; [lia|]. cbn [nth_error]. replace (S j - 1) with j by lia. reflexivity.
    + rewrite insert_at_S. destruct j as [|j]; [lia|]. cbn [nth_error]. rewrite IH by lia.
      replace (S j - 1) with j by lia. destruct j as [|j]; [lia|]. replace (S j - 1) with j by lia. reflexivity.
Qed.
Lemma remove_insert_lt {A} (l : list A) : forall i j x,
  i <= j -> j < length l -> remove_at (S j) (insert_at i x l) = insert_at i x (remove_at j l).
Proof.
  induction l as [|y l IH]; intros i j x Hi Hj; cbn [length] in Hj; [lia|].
  destruct i as [|i].
  - rewrite !insert_at_0, remove_at_S. reflexivity.
  - destruct j as [|j]; [lia|]. rewrite insert_at_S, !remove_at_S, insert_at_S. f_equal. apply IH; lia.
Qed.
Lemma remove_insert_lt' {A} (l : list A) i d x :
  i < d -> d <= length l -> remove_at d (insert_at i x l) = insert_at i x (remove_at (d - 1) l).
Proof.
  intros Hi Hd. destruct d as [|d]; [lia|]. replace (S d - 1) with d by lia. apply remove_insert_lt; lia.
Qed.
Lemma remove_insert_gt {A} (l : list A) : forall i j x,
  j < i -> i <= length l -> remove_at j (insert_at i x l) = insert_at (i - 1) x (remove_at j l).
Proof.
  induction l as [|y l IH]; intros i j x Hj Hi; cbn [length] in Hi; [lia|].
  destruct i as [|i]; [lia|]. rewrite insert_at_S. replace (S i - 1) with i by lia. destruct j as [|j].
  - rewrite !remove_at_0. reflexivity.
  - rewrite !remove_at_S. destruct i as [|i]; [lia|]. rewrite insert_at_S. f_equal.
    rewrite IH by lia. replace (S i - 1) with i by lia. reflexivity.
Qed.

Lemma nth_error_repeat {A} (x : A) n k : k < n -> nth_error (repeat x n) k = Some x.
Proof. revert k. induction n as [|n IH]; intros [|k] H; cbn; try lia; [reflexivity|apply IH; lia]. Qed.
Lemma nth_error_repeat_ge {A} (x : A) n k : n <= k -> nth_error (repeat x n) k = None.
Proof. intros H. apply nth_error_None. now rewrite repeat_length. Qed.

(* ---------------- maybe_to_stack / from_nontensordata keep the meaning *)
Lemma expand_shared_denote p sh : forall y, expand_shared p sh = Ok y -> forall I, denote y I = denote (Shared p sh) I.
Proof.
  induction sh as [|n sh IH]; intros y H I; cbn [expand_shared] in H.
  - now injection H as <-.
  - destruct n as [|n]; [discriminate|]. destruct (expand_shared p sh) as [m| |]; cbn [rbind] in H; try discriminate.
    injection H as <-. rewrite denote_stack. cbn [denote in_range].
    destruct I as [|k I]; [reflexivity|]. cbn [nth_error]. rewrite remove_at_0.
    change (m :: repeat m n) with (repeat m (S n)).
    destruct (k <? S n) eqn:Ek.
    + apply Nat.ltb_lt in Ek. rewrite nth_error_repeat by assumption. rewrite (IH m eq_refl). reflexivity.
    + apply Nat.ltb_ge in Ek. now rewrite nth_error_repeat_ge.
Qed.

Lemma expand_shared_shape p sh : forall y, expand_shared p sh = Ok y -> shape y = Some sh.
Proof.
  induction sh as [|n sh IH]; intros y H; cbn [expand_shared] in H.
  - now injection H as <-.
  - destruct n as [|n]; [discriminate|]. destruct (expand_shared p sh) as [m| |]; cbn [rbind] in H; try discriminate.
    injection H as <-. cbn [repeat]. rewrite (shape_stack 0 m (repeat m n) sh (IH m eq_refl)) by lia.
    now rewrite repeat_length.
Qed.

Theorem to_stack_same x : forall y, maybe_to_stack x = Ok y -> forall I, denote y I = denote x I.
Proof.
  induction x as [p sh|d l IH] using nt_ind'; intros y H I; cbn [maybe_to_stack] in H.
  - eapply expand_shared_denote; eauto.
  - rewrite to_stack_mp in H. destruct (rmap maybe_to_stack l) as [ys| |] eqn:E; cbn [rbind] in H; try discriminate.
    injection H as <-. rewrite !denote_stack. destruct (nth_error I d) as [k|]; [|reflexivity].
    destruct (nth_error l k) as [m|] eqn:Em.
    + destruct (rmap_ok_nth _ _ _ _ _ E Em) as (y & Ey & Hy). rewrite Ey.
      eapply (Forall_nth_error _ _ _ _ IH Em); eauto.
    + destruct (nth_error ys k) as [y|] eqn:Ey; [|reflexivity].
      destruct (rmap_ok_nth_inv _ _ _ _ _ E Ey) as (x & Ex & _). congruence.
Qed.

Theorem from_nontensordata_same x y : from_nontensordata x = Ok y -> forall I, denote y I = denote x I.
Proof. destruct x as [p sh|d l]; cbn [from_nontensordata]; [apply expand_shared_denote|discriminate]. Qed.

Lemma to_stack_shape x : forall y, wf x = true -> maybe_to_stack x = Ok y -> shape y = shape x /\ wf y = true.
Proof.
  induction x as [p sh|d l IH] using nt_ind'; intros y Hw H; cbn [maybe_to_stack] in H.
  - split; [cbn [shape]; eapply expand_shared_shape; eauto|].
    clear Hw. revert y H. induction sh as [|n sh IHs]; intros y H; cbn [expand_shared] in H.
    + now injection H as <-.
    + destruct n as [|n]; [discriminate|]. destruct (expand_shared p sh) as [m| |] eqn:Em; cbn [rbind] in H; try discriminate.
      injection H as <-. apply wf_stack. exists m, (repeat m n), sh. repeat split; [| |lia].
      * apply Forall_forall. intros z Hz. change (m :: repeat m n) with (repeat m (S n)) in Hz.
        apply repeat_spec in Hz. subst. now apply IHs.
      * apply Forall_forall. intros z Hz. change (m :: repeat m n) with (repeat m (S n)) in Hz.
        apply repeat_spec in Hz. subst. eapply expand_shared_shape; eauto.
  - rewrite to_stack_mp in H. destruct (rmap maybe_to_stack l) as [ys| |] eqn:E; cbn [rbind] in H; try discriminate.
    injection H as <-. apply wf_stack in Hw as (m & r & s & -> & Hwf & Hsh & Hd).
    assert (Hall : Forall (fun y => shape y = Some s /\ wf y = true) ys).
    { apply Forall_forall. intros y Hy. apply In_nth_error in Hy as [k Hk].
      destruct (rmap_ok_nth_inv _ _ _ _ _ E Hk) as (x & Ex & Hx).
      destruct (Forall_nth_error _ _ _ _ IH Ex y (Forall_nth_error _ _ _ _ Hwf Ex) Hx) as [A B].
      split; [|assumption]. rewrite A. exact (Forall_nth_error _ _ _ _ Hsh Ex). }
    pose proof (rmap_ok_length _ _ _ E) as Hlen.
    destruct ys as [|y0 ys]; [discriminate|]. cbn [length] in Hlen.
    inversion Hall as [|? ? [Hy0 Hw0] Hrest]; subst.
    split.
    + rewrite (shape_stack d y0 ys s Hy0 Hd). inversion Hsh; subst.
      rewrite (shape_stack d m r s) by assumption. f_equal. f_equal. lia.
    + apply wf_stack. exists y0, ys, s. repeat split; auto.
      * constructor; [assumption|]. eapply Forall_impl; [|exact Hrest]. now intros ? [_ ?].
      * constructor; [assumption|]. eapply Forall_impl; [|exact Hrest]. now intros ? [? _].
Qed.

(* ---------------- unbind: member k along dim = the array with that coordinate fixed *)
Lemma in_range_insert_coord sh : forall dim n k I,
  nth_error sh dim = Some n -> dim <= length I ->
  in_range sh (insert_at dim k I) = (k <? n) && in_range (remove_at dim sh) I.
Proof.
  intros dim n k I Hn HI.
  assert (Hd : dim < length sh) by (apply nth_error_Some; congruence).
  rewrite <- (insert_remove_at sh dim n Hn) at 1.
  rewrite in_range_insert by (rewrite length_remove_at; lia).
  rewrite nth_error_insert_at by assumption. now rewrite remove_insert_at.
Qed.

Theorem select_denote x : forall k dim y,
  wf x = true -> select k dim x = Ok y ->
  forall I, dim <= length I -> denote y I = denote x (insert_at dim k I).
Proof.
  induction x as [p sh|d l IH] using nt_ind'; intros k dim y Hw H I HI; cbn [select] in H.
  - destruct (nth_error sh dim) as [n|] eqn:En; [|discriminate].
    destruct (k <? n) eqn:Ek; [|discriminate]. injection H as <-. cbn [denote].
    rewrite (in_range_insert_coord sh dim n k I En HI), Ek. reflexivity.
  - apply wf_stack in Hw as (m0 & r0 & s & El & Hwf & Hsh & Hd).
    destruct (dim =? d) eqn:Edd.
    + apply Nat.eqb_eq in Edd. subst dim. rewrite denote_stack, nth_error_insert_at, remove_insert_at by assumption.
      destruct (nth_error l k) as [m|]; cbn [of_opt] in H; [|discriminate]. now injection H as <-.
    + apply Nat.eqb_neq in Edd. rewrite select_stack_mp in H.
      destruct (rmap (select k (if dim <? d then dim else dim - 1)) l) as [ys| |] eqn:E; cbn [rbind] in H; try discriminate.
      injection H as <-. rewrite !denote_stack.
      destruct (dim <? d) eqn:Elt.
      * apply Nat.ltb_lt in Elt.
        destruct (Nat.le_gt_cases d (length I)) as [HdI|HdI].
        -- rewrite nth_insert_gt by lia.
           destruct (nth_error I (d - 1)) as [j|] eqn:Ej; [|reflexivity].
           assert (d - 1 < length I) by (apply nth_error_Some; congruence).
           rewrite remove_insert_lt' by lia.
           destruct (nth_error l j) as [m|] eqn:Em.
           ++ destruct (rmap_ok_nth _ _ _ _ _ E Em) as (y & Ey & Hy). rewrite Ey.
              apply (Forall_nth_error _ _ _ _ IH Em k dim y (Forall_nth_error _ _ _ _ Hwf Em) Hy).
              rewrite length_remove_at; lia.
           ++ destruct (nth_error ys j) as [y|] eqn:Ey; [|reflexivity].
              destruct (rmap_ok_nth_inv _ _ _ _ _ E Ey) as (x & Ex & _). congruence.
        -- rewrite (proj2 (nth_error_None I (d - 1))) by lia.
           rewrite (proj2 (nth_error_None (insert_at dim k I) d)); [reflexivity|]. rewrite length_insert_at. lia.
      * apply Nat.ltb_ge in Elt. assert (d < dim) by lia.
        rewrite nth_insert_lt by lia.
        destruct (nth_error I d) as [j|] eqn:Ej; [|reflexivity].
        assert (d < length I) by (apply nth_error_Some; congruence).
        rewrite remove_insert_gt by lia.
        destruct (nth_error l j) as [m|] eqn:Em.
        -- destruct (rmap_ok_nth _ _ _ _ _ E Em) as (y & Ey & Hy). rewrite Ey.
           apply (Forall_nth_error _ _ _ _ IH Em k (dim - 1) y (Forall_nth_error _ _ _ _ Hwf Em) Hy).
           rewrite length_remove_at; lia.
        -- destruct (nth_error ys j) as [y|] eqn:Ey; [|reflexivity].
           destruct (rmap_ok_nth_inv _ _ _ _ _ E Ey) as (x & Ex & _). congruence.
Qed.

(* ---------------- _stack_non_tensor: the result denotes the dense stack (= coordinate insertion) *)
Lemma all_same_shared_spec p l : all_same_shared p l = true -> Forall (fun y => exists sh, y = Shared p sh) l.
Proof.
  induction l as [|y l IH]; cbn [all_same_shared]; intros H; [constructor|].
  destruct y as [q sh|]; [|discriminate]. apply andb_true_iff in H as [E H]. apply Z.eqb_eq in E. subst.
  constructor; eauto.
Qed.

Theorem stack_denote l dim y s :
  Forall (fun m => shape m = Some s) l -> dim <= length s ->
  stack_nt l dim = Ok y -> forall I, denote y I = denote (Stack dim l) I.
Proof.
  intros Hs Hd H I. unfold stack_nt in H. destruct l as [|m r]; [discriminate|].
  destruct m as [p sh|d' l']; [|now injection H as <-].
  destruct (all_same_shared p r) eqn:Ea; [|now injection H as <-].
  inversion Hs as [|? ? Hm Hr]; subst. cbn [shape] in Hm. injection Hm as ->.
  destruct (dim <=? length s) eqn:El; [|discriminate]. injection H as <-.
  rewrite denote_stack. cbn [denote].
  rewrite in_range_insert by assumption.
  destruct (nth_error I dim) as [k|]; [|reflexivity].
  destruct (k <? S (length r)) eqn:Ek.
  - apply Nat.ltb_lt in Ek. destruct (nth_error (Shared p s :: r) k) as [m|] eqn:Em.
    + assert (Hm : exists sh, m = Shared p sh).
      { destruct k; cbn [nth_error] in Em; [injection Em as <-; eauto|].
        exact (Forall_nth_error _ _ _ _ (all_same_shared_spec p r Ea) Em). }
      destruct Hm as [sh ->]. pose proof (Forall_nth_error _ _ _ _ Hs Em) as Hsh. cbn [shape] in Hsh.
      injection Hsh as ->. cbn [andb denote]. reflexivity.
    + apply nth_error_None in Em. cbn [length] in Em. lia.
  - apply Nat.ltb_ge in Ek. cbn [andb]. now rewrite (proj2 (nth_error_None (Shared p s :: r) k) Ek).
Qed.

(* the representation rule of the property: one shared object when all positions agree, else a per-position stack *)
Theorem stack_repr l dim y :
  stack_nt l dim = Ok y ->
  (exists p sh, y = Shared p sh /\ Forall (fun m => exists sh', m = Shared p sh') l) \/ y = Stack dim l.
Proof.
  unfold stack_nt. destruct l as [|m r]; [discriminate|].
  destruct m as [p sh|d' l']; [|intros H; right; now injection H as <-].
  destruct (all_same_shared p r) eqn:Ea; [|intros H; right; now injection H as <-].
  destruct (dim <=? length sh); [|discriminate]. intros H; injection H as <-. left.
  exists p, (insert_at dim (length (Shared p sh :: r)) sh). split; [reflexivity|].
  constructor; eauto. now apply all_same_shared_spec.
Qed.
