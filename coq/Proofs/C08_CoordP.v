(* C08: list / coordinate lemmas and the basic facts about the semantics of array expressions. *)
From Coq Require Import ZArith List Bool Lia ZifyBool.
Import ListNotations.
From TD Require Import Spec.PySlice Spec.C08_Dense.
Open Scope Z_scope.
Ltac Zify.zify_post_hook ::= Z.to_euclidean_division_equations.

(* ---------- insert_at / remove_at *)
Lemma insert_at_length {A} k (x : A) l : (k <= List.length l)%nat -> List.length (insert_at k x l) = S (List.length l).
Proof.
  intros H. unfold insert_at. rewrite app_length. cbn [List.length]. rewrite firstn_length, skipn_length. lia.
Qed.

Lemma remove_insert {A} k (x : A) l : (k <= List.length l)%nat -> remove_at k (insert_at k x l) = l.
Proof.
  intros H. unfold remove_at, insert_at.
  rewrite firstn_app, firstn_firstn, Nat.min_id, firstn_length, Nat.min_l by lia.
  replace (k - k)%nat with 0%nat by lia. cbn [firstn]. rewrite app_nil_r.
  replace (S k) with (List.length (firstn k l) + 1)%nat by (rewrite firstn_length; lia).
  rewrite skipn_app, skipn_all2 by (rewrite firstn_length; lia).
  replace (List.length (firstn k l) + 1 - List.length (firstn k l))%nat with 1%nat by lia.
  cbn [skipn app]. apply firstn_skipn.
Qed.

Lemma nth_insert {A} k (x : A) l : (k <= List.length l)%nat -> nth_error (insert_at k x l) k = Some x.
Proof.
  intros H. unfold insert_at. rewrite nth_error_app2 by (rewrite firstn_length; lia).
  rewrite firstn_length, Nat.min_l by lia. replace (k - k)%nat with 0%nat by lia. reflexivity.
Qed.

Lemma insert_at_app {A} (a b : list A) x : insert_at (List.length a) x (a ++ b) = a ++ x :: b.
Proof.
  unfold insert_at. rewrite firstn_app, firstn_all, Nat.sub_diag. cbn [firstn]. rewrite app_nil_r.
  rewrite skipn_app, skipn_all, Nat.sub_diag. reflexivity.
Qed.

Lemma remove_at_app {A} (a b : list A) x : remove_at (List.length a) (a ++ x :: b) = a ++ b.
Proof.
  unfold remove_at. rewrite firstn_app, firstn_all, Nat.sub_diag. cbn [firstn]. rewrite app_nil_r.
  replace (S (List.length a)) with (List.length a + 1)%nat by lia.
  rewrite skipn_app, skipn_all2 by lia.
  replace (List.length a + 1 - List.length a)%nat with 1%nat by lia. reflexivity.
Qed.

Lemma nth_error_app_mid {A} (a b : list A) x : nth_error (a ++ x :: b) (List.length a) = Some x.
Proof. rewrite nth_error_app2 by lia. rewrite Nat.sub_diag. reflexivity. Qed.

Lemma split_at {A} k (l : list A) : (k <= List.length l)%nat ->
  exists a b, l = a ++ b /\ List.length a = k.
Proof.
  intros H. exists (firstn k l), (skipn k l). split; [symmetry; apply firstn_skipn|].
  rewrite firstn_length. lia.
Qed.

(* ---------- in_range *)
Lemma in_range_app sh1 : forall sh2 r1 r2, List.length r1 = List.length sh1 ->
  in_range (sh1 ++ sh2) (r1 ++ r2) = in_range sh1 r1 && in_range sh2 r2.
Proof.
  induction sh1 as [|s sh1 IH]; intros sh2 r1 r2 HL; destruct r1 as [|x r1]; cbn in HL; try discriminate.
  - cbn. reflexivity.
  - cbn [app in_range]. rewrite IH by lia. rewrite andb_assoc. reflexivity.
Qed.

Lemma in_range_length sh : forall r, in_range sh r = true -> List.length r = List.length sh.
Proof.
  induction sh as [|s sh IH]; intros [|x r] H; cbn in *; try discriminate; try reflexivity.
  apply andb_prop in H. destruct H as [_ H]. rewrite (IH r H). reflexivity.
Qed.

Lemma in_range_split sh1 sh2 r : in_range (sh1 ++ sh2) r = true ->
  exists r1 r2, r = r1 ++ r2 /\ List.length r1 = List.length sh1 /\ in_range sh1 r1 = true /\ in_range sh2 r2 = true.
Proof.
  intros H. pose proof (in_range_length _ _ H) as HL. rewrite app_length in HL.
  exists (firstn (List.length sh1) r), (skipn (List.length sh1) r).
  assert (L1 : List.length (firstn (List.length sh1) r) = List.length sh1) by (rewrite firstn_length; lia).
  rewrite <- (firstn_skipn (List.length sh1) r) in H at 1. rewrite in_range_app in H by exact L1.
  apply andb_prop in H. destruct H as [H1 H2].
  repeat split; auto. symmetry. apply firstn_skipn.
Qed.

Lemma in_range_nth sh : forall r k s x, in_range sh r = true -> nth_error sh k = Some s -> nth_error r k = Some x -> in_dim x s = true.
Proof.
  induction sh as [|s0 sh IH]; intros [|x0 r] k s x H Hs Hx; cbn in H; try discriminate.
  - destruct k; discriminate.
  - apply andb_prop in H. destruct H as [H0 H]. destruct k as [|k]; cbn in Hs, Hx.
    + inversion Hs; inversion Hx; subst. exact H0.
    + eapply IH; eauto.
Qed.

(* ---------- the pick loops of Stack *)
Definition pick_stack (sd : nat) (I : list Z) :=
  fix pick (l : list arr) (k : Z) : option (nat * list Z) :=
    match l with
    | [] => None
    | x :: r => if k =? 0 then at_ x (remove_at sd I) else if k <? 0 then None else pick r (k - 1)
    end.

Lemma pick_stack_nth sd I : forall l k, pick_stack sd I l k = match nthZ l k with Some x => at_ x (remove_at sd I) | None => None end.
Proof.
  induction l as [|x l IH]; intros k; unfold nthZ; cbn [pick_stack].
  - destruct (k <? 0); [reflexivity|]. destruct (Z.to_nat k); reflexivity.
  - destruct (k =? 0) eqn:E0.
    + assert (k = 0) by lia. subst. reflexivity.
    + destruct (k <? 0) eqn:E1; [reflexivity|].
      rewrite IH. unfold nthZ. assert (Hk : (k - 1 <? 0) = false) by lia. rewrite Hk.
      replace (Z.to_nat k) with (S (Z.to_nat (k - 1))) by lia. reflexivity.
Qed.

(* the dense stack IS coordinate insertion: element I of the stack is element (I without coordinate sd) of part I[sd] *)
Theorem at_stack sd bs0 parts I :
  at_ (Stack sd bs0 parts) I =
  match nth_error I sd with
  | Some k => match nthZ parts k with Some x => at_ x (remove_at sd I) | None => None end
  | None => None
  end.
Proof.
  cbn [at_]. destruct (nth_error I sd) as [k|]; [|reflexivity].
  exact (pick_stack_nth sd I parts k).
Qed.

(* ---------- shapes of stacks *)
Lemma list_eqb_refl a : list_eqb a a = true.
Proof.
  unfold list_eqb. rewrite Nat.eqb_refl. cbn [andb]. induction a as [|x a IH]; cbn; [reflexivity|].
  rewrite Z.eqb_refl. exact IH.
Qed.

Lemma list_eqb_eq a : forall b, list_eqb a b = true -> a = b.
Proof.
  unfold list_eqb. induction a as [|x a IH]; intros [|y b] H; cbn in H; try discriminate; try reflexivity.
  apply andb_prop in H. destruct H as [HL H]. cbn in H. apply andb_prop in H. destruct H as [Hx H].
  f_equal; [lia|]. apply IH. rewrite HL. exact H.
Qed.

Lemma all_same_const (bs : list Z) : forall l, l <> [] -> Forall (fun x => x = bs) l -> all_same l = Some bs.
Proof.
  induction l as [|x l IH]; intros Hne HF; [congruence|].
  inversion HF as [|? ? Hx HF']; subst. destruct l as [|y l].
  - reflexivity.
  - change (all_same (bs :: y :: l)) with
      (match all_same (y :: l) with Some y0 => if list_eqb bs y0 then Some bs else None | None => None end).
    rewrite IH by (congruence || assumption). rewrite list_eqb_refl. reflexivity.
Qed.

Definition shapes_of :=
  fix shapes (l : list arr) : option (list (list Z)) :=
    match l with
    | [] => Some []
    | x :: r => match shape_of x, shapes r with Some s, Some ss => Some (s :: ss) | _, _ => None end
    end.

Lemma shapes_of_const bs : forall parts, Forall (fun p => shape_of p = Some bs) parts ->
  shapes_of parts = Some (map (fun _ => bs) parts).
Proof.
  induction parts as [|p parts IH]; intros HF; [reflexivity|].
  inversion HF as [|? ? Hp HF']; subst. cbn [shapes_of map]. rewrite Hp, IH by assumption. reflexivity.
Qed.

(* _compute_batch_size is the shape of the dense stack *)
Theorem shape_of_stack sd bs0 parts bs :
  parts <> [] -> Forall (fun p => shape_of p = Some bs) parts -> (sd <= List.length bs)%nat ->
  shape_of (Stack sd bs0 parts) = Some (insert_at sd (lenZ parts) bs).
Proof.
  intros Hne HF Hsd. cbn [shape_of]. fold shapes_of.
  destruct parts as [|p parts]; [congruence|].
  rewrite (shapes_of_const bs) by assumption.
  rewrite (all_same_const bs).
  - assert (E : (sd <=? List.length bs)%nat = true) by (apply Nat.leb_le; lia). rewrite E. reflexivity.
  - cbn. congruence.
  - apply Forall_forall. intros x Hx. apply in_map_iff in Hx. destruct Hx as [? [? ?]]. congruence.
Qed.

(* ---------- well-formed trees: what the harness builds (members of equal batch size, any nesting) *)
Inductive wf_tree : arr -> list Z -> Prop :=
  | wf_leaf j bs : Forall (fun s => 0 <= s) bs -> wf_tree (Leaf j bs) bs
  | wf_stack sd bs0 parts bs :
      parts <> [] -> wf_forall parts bs -> (sd <= List.length bs)%nat ->
      wf_tree (Stack sd bs0 parts) (insert_at sd (lenZ parts) bs)
with wf_forall : list arr -> list Z -> Prop :=
  | wf_nil bs : wf_forall [] bs
  | wf_cons p parts bs : wf_tree p bs -> wf_forall parts bs -> wf_forall (p :: parts) bs.

Scheme wf_tree_ind2 := Induction for wf_tree Sort Prop
  with wf_forall_ind2 := Induction for wf_forall Sort Prop.

Lemma wf_forall_Forall parts bs : wf_forall parts bs -> Forall (fun p => wf_tree p bs) parts.
Proof. induction 1; constructor; assumption. Qed.

Lemma wf_forall_In parts bs p : wf_forall parts bs -> In p parts -> wf_tree p bs.
Proof. intros H. apply (proj1 (Forall_forall _ _) (wf_forall_Forall _ _ H)). Qed.

Lemma wf_shape a bs : wf_tree a bs -> shape_of a = Some bs.
Proof.
  revert a bs.
  apply (wf_tree_ind2 (fun a bs _ => shape_of a = Some bs)
                      (fun parts bs _ => Forall (fun p => shape_of p = Some bs) parts)).
  - reflexivity.
  - intros sd bs0 parts bs Hne _ IH Hsd. apply shape_of_stack; assumption.
  - constructor.
  - intros. constructor; assumption.
Qed.

Lemma nthZ_In {A} (l : list A) k x : nthZ l k = Some x -> In x l.
Proof. unfold nthZ. destruct (k <? 0); [discriminate|]. apply nth_error_In. Qed.

Lemma nthZ_range {A} (l : list A) k x : nthZ l k = Some x -> in_dim k (lenZ l) = true.
Proof.
  unfold nthZ, in_dim, lenZ. destruct (k <? 0) eqn:E; [discriminate|]. intros H.
  assert (Z.to_nat k < List.length l)%nat by (apply nth_error_Some; congruence). lia.
Qed.

(* soundness of [at_] w.r.t. the shape, on well-formed trees: only positions of the array have an element *)
Lemma at_sound a bs : wf_tree a bs -> forall I e, at_ a I = Some e -> in_range bs I = true.
Proof.
  revert a bs.
  apply (wf_tree_ind2 (fun a bs _ => forall I e, at_ a I = Some e -> in_range bs I = true)
                      (fun parts bs _ => forall p, In p parts -> forall I e, at_ p I = Some e -> in_range bs I = true)).
  - intros j bs _ I e H. cbn [at_] in H. destruct (in_range bs I); [reflexivity|discriminate].
  - intros sd bs0 parts bs Hne _ IH Hsd I e H. rewrite at_stack in H.
    destruct (nth_error I sd) as [k|] eqn:Ek; [|discriminate].
    destruct (nthZ parts k) as [x|] eqn:Ex; [|discriminate].
    pose proof (IH x (nthZ_In _ _ _ Ex) _ _ H) as Hr.
    pose proof (nthZ_range _ _ _ Ex) as Hk.
    (* I = a ++ k :: b with |a| = sd *)
    assert (HI : (sd < List.length I)%nat) by (apply nth_error_Some; congruence).
    destruct (split_at sd I ltac:(lia)) as [a [b [EI La]]]. subst I.
    destruct b as [|k' b]; [rewrite app_nil_r in HI; lia|].
    rewrite <- La in Ek. rewrite nth_error_app_mid in Ek. inversion Ek; subst k'.
    rewrite <- La in Hr. rewrite remove_at_app in Hr.
    destruct (split_at sd bs Hsd) as [s1 [s2 [Ebs Ls1]]]. subst bs.
    rewrite <- Ls1. rewrite insert_at_app.
    pose proof (in_range_length _ _ Hr) as HL. rewrite !app_length in HL.
    assert (Lab : List.length a = List.length s1) by lia.
    rewrite in_range_app in Hr by exact Lab. apply andb_prop in Hr. destruct Hr as [Hr1 Hr2].
    rewrite in_range_app by exact Lab. cbn [in_range]. rewrite Hr1, Hk, Hr2. reflexivity.
  - intros bs p [].
  - intros p parts bs _ IHp _ IHps q [Hq|Hq]; [subst; exact IHp| apply IHps; exact Hq].
Qed.

(* sizes are non-negative in a well-formed tree *)
Lemma Forall_insert_at {A} (P : A -> Prop) k x l : P x -> Forall P l -> Forall P (insert_at k x l).
Proof.
  intros Hx Hl. unfold insert_at. apply Forall_app. split.
  - apply Forall_forall. intros y Hy. apply (proj1 (Forall_forall _ _) Hl).
    rewrite <- (firstn_skipn k l). apply in_or_app. left. exact Hy.
  - constructor; [exact Hx|]. apply Forall_forall. intros y Hy. apply (proj1 (Forall_forall _ _) Hl).
    rewrite <- (firstn_skipn k l). apply in_or_app. right. exact Hy.
Qed.

Lemma wf_nonneg a bs : wf_tree a bs -> Forall (fun s => 0 <= s) bs.
Proof.
  revert a bs.
  apply (wf_tree_ind2 (fun a bs _ => Forall (fun s => 0 <= s) bs)
                      (fun parts bs _ => parts <> [] -> Forall (fun s => 0 <= s) bs)).
  - intros j bs H. exact H.
  - intros sd bs0 parts bs Hne _ IH Hsd. apply Forall_insert_at; [unfold lenZ; lia|apply IH; exact Hne].
  - intros bs H. congruence.
  - intros p parts bs _ IHp _ _ _. exact IHp.
Qed.

Ltac wf_lit := repeat first [apply wf_leaf | apply wf_cons | apply wf_nil | apply Forall_cons | apply Forall_nil | lia].
