From Coq Require Import ZArith List Bool Lia ZifyBool.
Import ListNotations.
From TD Require Import Model.C19_Vmap Model.C19_Content Proofs.C19_VmapP.
Open Scope nat_scope.

Lemma torch_wrap_nonneg o n1 : o < n1 -> torch_wrap (Z.of_nat o) n1 = Some o.
Proof.
  intros H. unfold torch_wrap.
  destruct ((Z.of_nat o <? - Z.of_nat n1)%Z || (Z.of_nat o >=? Z.of_nat n1)%Z) eqn:E; [lia|].
  destruct (Z.of_nat o <? 0)%Z eqn:E2; [lia|]. now rewrite Nat2Z.id.
Qed.

Lemma torch_wrap_spec o n1 p : torch_wrap o n1 = Some p ->
  p < n1 /\ ((0 <= o)%Z -> Z.of_nat p = o) /\ ((o < 0)%Z -> Z.of_nat p = (o + Z.of_nat n1)%Z).
Proof.
  unfold torch_wrap. destruct ((o <? - Z.of_nat n1)%Z || (o >=? Z.of_nat n1)%Z) eqn:E; [discriminate|].
  intros H. injection H as <-. destruct (o <? 0)%Z eqn:E2; lia.
Qed.

Lemma list_eqb_refl a : list_eqb a a = true.
Proof. induction a as [|x a IH]; cbn; [reflexivity|]. now rewrite Nat.eqb_refl, IH. Qed.

Lemma list_eqb_eq a : forall b, list_eqb a b = true -> a = b.
Proof.
  induction a as [|x a IH]; intros [|y b] H; cbn in H; try discriminate; [reflexivity|].
  apply andb_true_iff in H. destruct H as [H1 H2]. apply Nat.eqb_eq in H1. f_equal; auto.
Qed.

Lemma firstn_insert_app (b feat : list nat) o B : o <= length b ->
  firstn (S (length b)) (insert_at (b ++ feat) o B) = insert_at b o B.
Proof.
  intros H. rewrite insert_at_app by assumption.
  assert (L : S (length b) = length (insert_at b o B)) by (now rewrite length_insert_at).
  rewrite L, firstn_app, Nat.sub_diag, firstn_all, firstn_O, app_nil_r. reflexivity.
Qed.

Lemma skipn_insert_app (b feat : list nat) o B : o <= length b ->
  skipn (S (length b)) (insert_at (b ++ feat) o B) = feat.
Proof.
  intros H. rewrite insert_at_app by assumption.
  assert (L : S (length b) = length (insert_at b o B)) by (now rewrite length_insert_at).
  rewrite L, skipn_app, Nat.sub_diag, skipn_all. reflexivity.
Qed.

Lemma all_some_map_some {A B} (g : A -> B) (h : A -> option B) l :
  (forall x, In x l -> h x = Some (g x)) -> all_some (map h l) = Some (map g l).
Proof.
  induction l as [|x l IH]; intros H; cbn; [reflexivity|].
  rewrite (H x (or_introl eq_refl)). rewrite IH by (intros y Hy; apply H; now right). reflexivity.
Qed.

Lemma map_combine_id {A B} (g : A -> B) (h : A * B -> A) (l : list A) :
  (forall x, h (x, g x) = x) -> map h (combine l (map g l)) = l.
Proof. intros H. induction l as [|x l IH]; cbn; [reflexivity|]. now rewrite H, IH. Qed.

Lemma remove_insert_at {A} (l : list A) o x : o <= length l -> remove_nth (insert_at l o x) o = l.
Proof.
  revert l; induction o as [|o IH]; intros l H; [reflexivity|].
  destruct l as [|y r]; [cbn in H; lia|]. cbn. f_equal. apply IH. cbn in H. lia.
Qed.

Lemma nth_insert_at_same {A} (l : list A) o x d : o <= length l -> nth o (insert_at l o x) d = x.
Proof. intros H. rewrite nth_insert_at by assumption. rewrite Nat.ltb_irrefl, Nat.eqb_refl. reflexivity. Qed.

Section ContentP.
Variable V : Type.
Notation td := (tdict V).

(* what _add_batch_dim shows to the function, sample by sample, IS the slice (same in_dim for batch size, names and every
   leaf) *)
Lemma sample_add_is_slice (t : td) d j : sample (td_add_c t d) j = slice t d j.
Proof. reflexivity. Qed.

(* the steps after the normalisation of out_dim: accepted by the constructor (every leaf shape starts with
   the new batch size), batch size, names, schema, and EVERY element of every leaf; any rank, any d, any 0 <= o <= rank of
   the per-sample result, any f *)
Lemma raw_eq_loop (f : td -> td) (t : td) d o :
  o <= length (bs (f (slice t d 0))) ->
  exists R, td_remove_raw (lift f (td_add_c t d)) (Z.of_nat o) = Ok R
    /\ bs R = insert_at (bs (f (slice t d 0))) o (nth d (bs t) 0)
    /\ nms R = names_remove (nms (f (slice t d 0))) (Z.of_nat o)
    /\ schema R = schema (f (slice t d 0))
    /\ forall k I, val R k I = stack_val (fun j => f (slice t d j)) o k I.
Proof.
  intros Ho. unfold td_remove_raw.
  set (bt := lift f (td_add_c t d)).
  assert (Hb : bbs bt = bs (f (slice t d 0))) by reflexivity.
  assert (HB : hidB bt = nth d (bs t) 0) by reflexivity.
  assert (Hs : bschema bt = schema (f (slice t d 0))) by reflexivity.
  set (g := fun kf : nat * list nat => insert_at (bbs bt ++ snd kf) o (hidB bt)).
  rewrite (all_some_map_some g).
  2:{ intros kf _. unfold leaf_new_shape. rewrite torch_wrap_nonneg by (rewrite Hb; lia). reflexivity. }
  rewrite py_insert_nonneg. rewrite length_insert_at.
  replace (forallb _ (map g (bschema bt))) with true.
  2:{ symmetry. apply forallb_forall. intros sh Hin. apply in_map_iff in Hin. destruct Hin as [kf [<- _]].
      unfold g. rewrite firstn_insert_app by (rewrite Hb; lia). apply list_eqb_refl. }
  eexists. split; [reflexivity|]. cbn [bs nms schema val].
  split; [now rewrite Hb, HB|]. split; [reflexivity|]. split.
  - rewrite <- Hs. apply map_combine_id. intros [k feat]. cbn [fst snd]. unfold g. cbn [snd].
    rewrite skipn_insert_app by (rewrite Hb; lia). reflexivity.
  - intros k I. unfold leaf_pos.
    destruct (find_feat k (bschema bt)); rewrite torch_wrap_nonneg by (rewrite Hb; lia); reflexivity.
Qed.

(* vmap(f, in_dims = d, out_dims = o) = stack([f(slice_j)], o) for EVERY out_dim that names a position of the result, the
   negative ones included (p = the position o names, torch's rule): accepted, batch size, names, schema, and every element
   of every leaf; any rank, any d, any f *)
Theorem vmap1_eq_loop (f : td -> td) (t : td) d (o : Z) p :
  torch_wrap o (length (bs (f (slice t d 0))) + 1) = Some p ->
  exists R, vmap1 f d o t = Ok R
    /\ bs R = insert_at (bs (f (slice t d 0))) p (nth d (bs t) 0)
    /\ nms R = names_remove (nms (f (slice t d 0))) (Z.of_nat p)
    /\ schema R = schema (f (slice t d 0))
    /\ forall k I, val R k I = stack_val (fun j => f (slice t d j)) p k I.
Proof.
  intros Hw. unfold vmap1, td_remove_c.
  change (bbs (lift f (td_add_c t d))) with (bs (f (slice t d 0))). rewrite Hw.
  apply raw_eq_loop. apply torch_wrap_spec in Hw. lia.
Qed.

(* an out_dim that names no position of the result is refused, whatever the sizes *)
Theorem out_of_range_out_dim_raises (f : td -> td) (t : td) d (o : Z) :
  torch_wrap o (length (bs (f (slice t d 0))) + 1) = None -> vmap1 f d o t = Raise IndexErr.
Proof.
  intros Hw. unfold vmap1, td_remove_c.
  change (bbs (lift f (td_add_c t d))) with (bs (f (slice t d 0))). now rewrite Hw.
Qed.

Corollary vmap1_eq_loop_nat (f : td -> td) (t : td) d o :
  o <= length (bs (f (slice t d 0))) ->
  exists R, vmap1 f d (Z.of_nat o) t = Ok R
    /\ bs R = insert_at (bs (f (slice t d 0))) o (nth d (bs t) 0)
    /\ nms R = names_remove (nms (f (slice t d 0))) (Z.of_nat o)
    /\ schema R = schema (f (slice t d 0))
    /\ forall k I, val R k I = stack_val (fun j => f (slice t d j)) o k I.
Proof. intros Ho. apply vmap1_eq_loop. apply torch_wrap_nonneg. lia. Qed.

(* the same, addressed by (sample j, element r of the per-sample result) *)
Corollary vmap1_elements (f : td -> td) (t : td) d (o : Z) p :
  torch_wrap o (length (bs (f (slice t d 0))) + 1) = Some p ->
  exists R, vmap1 f d o t = Ok R /\
    forall k j r, p <= length r -> val R k (insert_at r p j) = val (f (slice t d j)) k r.
Proof.
  intros Ho. destruct (vmap1_eq_loop f t d o p Ho) as [R [E [_ [_ [_ Hv]]]]].
  exists R. split; [exact E|]. intros k j r Hr. rewrite Hv. unfold stack_val.
  rewrite nth_insert_at_same by assumption. rewrite remove_insert_at by assumption. reflexivity.
Qed.

(* names of the result for the identity function: the names of the untouched dims in their order, None at out_dim; a
   tensordict with a single (named) batch dim comes back WITHOUT names (the vmapped view has no dim left to name) *)
Theorem names_identity (l : list (option nat)) d o :
  d < length l ->
  names_remove (names_add (Some l) d) (Z.of_nat o) =
  if length l =? 1 then None else Some (insert_at (remove_nth l d) o None).
Proof.
  intros Hd. unfold names_add, names_remove.
  destruct (remove_nth l d) as [|x r] eqn:E.
  - assert (length (remove_nth l d) = length l - 1) by (apply length_remove_nth; lia).
    rewrite E in H. cbn in H. destruct (Nat.eqb_spec (length l) 1); [reflexivity|lia].
  - assert (length (remove_nth l d) = length l - 1) by (apply length_remove_nth; lia).
    rewrite E in H. cbn in H. destruct (Nat.eqb_spec (length l) 1); [lia|].
    now rewrite py_insert_nonneg.
Qed.

(* nested vmap of depth 2: for every (d1, o1, d2, o2) the result is the doubly stacked per-sample results *)
Theorem vmap2_eq_loop (f : td -> td) (t : td) d1 o1 d2 o2 :
  (forall j1, o2 <= length (bs (f (slice (slice t d1 j1) d2 0)))) ->
  o1 <= S (length (bs (f (slice (slice t d1 0) d2 0)))) ->
  exists R, vmap1 (vmap1_total f d2 (Z.of_nat o2)) d1 (Z.of_nat o1) t = Ok R
    /\ bs R = insert_at (insert_at (bs (f (slice (slice t d1 0) d2 0))) o2 (nth d2 (remove_nth (bs t) d1) 0)) o1 (nth d1 (bs t) 0)
    /\ forall k I, val R k I =
         val (f (slice (slice t d1 (nth o1 I 0)) d2 (nth o2 (remove_nth I o1) 0))) k (remove_nth (remove_nth I o1) o2).
Proof.
  intros H2 H1.
  assert (Hin : forall j1, exists R', vmap1_total f d2 (Z.of_nat o2) (slice t d1 j1) = R'
     /\ bs R' = insert_at (bs (f (slice (slice t d1 j1) d2 0))) o2 (nth d2 (remove_nth (bs t) d1) 0)
     /\ forall k I, val R' k I = stack_val (fun j => f (slice (slice t d1 j1) d2 j)) o2 k I).
  { intros j1. destruct (vmap1_eq_loop_nat f (slice t d1 j1) d2 o2 (H2 j1)) as [R' [E [Hb [_ [_ Hv]]]]].
    exists R'. unfold vmap1_total. rewrite E. split; [reflexivity|]. split; [exact Hb|exact Hv]. }
  destruct (Hin 0) as [R0 [E0 [Hb0 _]]].
  destruct (vmap1_eq_loop_nat (vmap1_total f d2 (Z.of_nat o2)) t d1 o1) as [R [E [Hb [_ [_ Hv]]]]].
  { rewrite E0, Hb0, length_insert_at. exact H1. }
  exists R. split; [exact E|]. split.
  - rewrite Hb, E0, Hb0. reflexivity.
  - intros k I. rewrite Hv. unfold stack_val at 1.
    destruct (Hin (nth o1 I 0)) as [R' [E' [_ Hv']]]. rewrite E', Hv'. reflexivity.
Qed.

End ContentP.

(* ---- the former witnesses of D190 / D191 (S8), now on the right side ---- *)
Definition w_td : tdict (list nat) := addr_td [3; 3] None [(0, [3])].

Example negative_out_dim_right :
  exists R, vmap1 (fun s => s) 0 (-1) w_td = Ok R /\ bs R = [3; 3] /\
    val R 0 [0; 1; 2] = stack_val (fun j => slice w_td 0 j) 1 0 [0; 1; 2]
  /\ exists R', vmap1 (fun s => s) 0 (-1) (addr_td [2; 3] None [(0, [4])]) = Ok R' /\ bs R' = [3; 2].
Proof. eexists. split; [vm_compute; reflexivity|]. split; [reflexivity|]. split; [reflexivity|].
  eexists. split; [vm_compute; reflexivity|reflexivity]. Qed.

Example too_large_out_dim_refused :
  vmap1 (fun s => s) 0 2 (addr_td [2; 3] None [(0, [2])]) = Raise IndexErr.
Proof. reflexivity. Qed.
