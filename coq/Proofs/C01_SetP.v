(* C01 — _validate_value, dict conversion, _set_str / _set_tuple and update keep a tree coherent. *)
From Coq Require Import List String Bool Arith Lia.
Import ListNotations.
From TD Require Import Model.C01_Tree Model.C01_Ops Model.C01_Scope Proofs.C01_TreeP Proofs.C01_NamesP Proofs.C01_BatchP.
Open Scope string_scope.
Open Scope list_scope.

(* ---- induction over values ---- *)
Section value_ind2.
  Variable P : value -> Prop.
  Hypothesis HT : forall t, P (VTree t).
  Hypothesis HS : P VStr.
  Hypothesis HD : forall items, Forall (fun kv => P (snd kv)) items -> P (VDict items).
  Fixpoint value_ind2 (v : value) : P v :=
    match v with
    | VTree t => HT t
    | VStr => HS
    | VDict items =>
        HD items ((fix go (l : list (string * value)) : Forall (fun kv => P (snd kv)) l :=
                     match l with [] => Forall_nil _ | kv :: r => Forall_cons kv (value_ind2 (snd kv)) (go r) end) items)
    end.
End value_ind2.

(* ---- header of a node: kind, batch size, device ---- *)
Definition thdr (t : tree) : option (nkind * list nat * option dev) :=
  match t with Node k bs dv _ _ => Some (k, bs, dv) | Leaf _ _ => None end.

Lemma set_names_hdr : forall t v, thdr (fst (set_names t v)) = thdr t.
Proof.
  intros [sh d|k bs dv nm es] v; [reflexivity|]. cbn [set_names].
  destruct v as [l|]; [|reflexivity].
  destruct (Nat.eqb (count_none l) (List.length bs)); [reflexivity|].
  destruct (names_unique l); cbn [negb]; [|reflexivity].
  destruct (Nat.eqb (List.length l) (List.length bs)); cbn [negb]; [|reflexivity].
  destruct (seq_children _ es) as [es' ok]. destruct ok; reflexivity.
Qed.

Lemma store_coh : forall self p d k bs dv key t,
  coh p d self = true -> thdr self = Some (k, bs, dv) -> coh bs dv t = true -> coh p d (store self key t) = true.
Proof.
  intros [sh dd|k0 bs0 dv0 nm es] p d k bs dv key t H Hh Ht; [discriminate|].
  cbn in Hh. injection Hh as -> -> ->. cbn [store].
  apply coh_node_iff in H as (H1 & H2 & H3 & H4). apply coh_node_iff. repeat split; auto using coh_ents_aset.
Qed.

Lemma store_hdr : forall self key t, thdr (store self key t) = thdr self.
Proof. intros [|] ? ?; reflexivity. Qed.

(* ---- device cast ---- *)
Lemma to_dev_coh : forall t p d, coh p None t = true -> coh p (Some d) (to_dev d t) = true.
Proof.
  induction t as [sh dd|k bs dv nm es IH] using tree_ind2; intros p d H.
  - apply coh_leaf_iff in H as [H _]. cbn [to_dev]. apply coh_leaf_iff. split; [exact H|]. cbn. now apply dev_eqb_eq.
  - apply coh_node_iff in H as (H1 & _ & H3 & H4). cbn [to_dev]. apply coh_node_iff. repeat split; auto.
    + destruct k; cbn; now apply dev_eqb_eq.
    + apply coh_ents_forall. rewrite Forall_map. apply coh_ents_forall in H4.
      rewrite Forall_forall in *. intros kv Hin. cbn [snd]. apply (IH _ Hin). eapply coh_nodev. apply (H4 _ Hin).
Qed.

Lemma coh_dev_match : forall t p d, coh p None t = true -> tdev t = Some d -> coh p (Some d) t = true.
Proof.
  intros [sh dd|k bs dv nm es] p d H Hd; cbn in Hd.
  - injection Hd as ->. apply coh_leaf_iff in H as [H _]. apply coh_leaf_iff. split; [exact H|]. cbn. now apply dev_eqb_eq.
  - subst dv. apply coh_node_iff in H as (H1 & _ & H3 & H4). apply coh_node_iff. repeat split; auto.
    destruct k; cbn; now apply dev_eqb_eq.
Qed.

(* ---- _validate_value ---- *)
Lemma validate_tree_coh : forall sk sbs sdv snm ses v p d self' r,
  coh p d (Node sk sbs sdv snm ses) = true ->
  coh [] None v = true ->
  validate_tree (Node sk sbs sdv snm ses) v = (self', r) ->
  coh p d self' = true /\ thdr self' = Some (sk, sbs, sdv) /\ (forall t, r = Ok t -> coh sbs sdv t = true).
Proof.
  intros sk sbs sdv snm ses v p d self' r Hself Hv Hval.
  assert (Htriv : coh p d (Node sk sbs sdv snm ses) = true /\ thdr (Node sk sbs sdv snm ses) = Some (sk, sbs, sdv)) by (split; [exact Hself|reflexivity]).
  unfold validate_tree in Hval. cbv beta iota zeta in Hval.
  (* stage 1: shape *)
  assert (Hr1 : forall v1,
     (if negb (Nat.eqb (List.length sbs) 0) && negb (prefixb sbs (tshape v))
      then match v with Leaf _ _ => Err | Node _ _ _ _ _ => let '(v', ok) := set_bs true v sbs in if ok then Ok v' else Err end
      else Ok v) = Ok v1 -> coh sbs None v1 = true).
  { intros v1 E. destruct (negb (Nat.eqb (List.length sbs) 0) && negb (prefixb sbs (tshape v))) eqn:Ec.
    - apply andb_true_iff in Ec as [Ec1 Ec2]. apply negb_true_iff in Ec1, Ec2.
      destruct v as [sh dd|vk vbs vdv vnm ves]; [discriminate|].
      destruct (set_bs true (Node vk vbs vdv vnm ves) sbs) as [v' ok] eqn:Es. destruct ok; [|discriminate]. injection E as <-.
      pose proof (set_bs_ok_shape _ _ _ _ Es eq_refl) as Hsh.
      eapply coh_reprefix; [|rewrite Hsh; apply prefixb_refl].
      eapply set_bs_ok_coh; [exact Hv|exact Es|apply prefixb_nil].
    - injection E as <-. apply andb_false_iff in Ec as [Ec|Ec].
      + apply negb_false_iff, Nat.eqb_eq, length_zero_iff_nil in Ec. subst. exact Hv.
      + apply negb_false_iff in Ec. eapply coh_reprefix; eauto. }
  destruct (if negb (Nat.eqb (List.length sbs) 0) && negb (prefixb sbs (tshape v))
            then match v with Leaf _ _ => Err | Node _ _ _ _ _ => let '(v', ok) := set_bs true v sbs in if ok then Ok v' else Err end
            else Ok v) as [v1| |] eqn:E1.
  2: { cbv beta iota in Hval. injection Hval as <- <-. destruct Htriv. repeat split; auto. discriminate. }
  2: { cbv beta iota in Hval. injection Hval as <- <-. destruct Htriv. repeat split; auto. discriminate. }
  cbv beta iota in Hval. specialize (Hr1 v1 eq_refl).
  destruct (match sdv with Some CPU => negb (odev_eqb (tdev v1) (Some CPU)) && has_meta v1 | _ => false end).
  { injection Hval as <- <-. destruct Htriv. repeat split; auto. discriminate. }
  (* stage 2: device *)
  set (v2 := match sdv with Some d0 => if odev_eqb (tdev v1) (Some d0) then v1 else to_dev d0 v1 | None => v1 end) in *.
  assert (H2 : coh sbs sdv v2 = true).
  { subst v2. destruct sdv as [d0|]; [|exact Hr1].
    destruct (odev_eqb (tdev v1) (Some d0)) eqn:Ed; [apply odev_eqb_eq in Ed; now apply coh_dev_match|now apply to_dev_coh]. }
  (* stage 3: names *)
  destruct (negb (Nat.eqb (List.length sbs) 0) && is_node v2).
  2: { injection Hval as <- <-. destruct Htriv. repeat split; auto. intros t [= <-]. exact H2. }
  destruct snm as [sn|].
  - destruct (onames_eqb (firstn (List.length sbs) (names_of v2)) sn).
    + injection Hval as <- <-. destruct Htriv. repeat split; auto. intros t [= <-]. exact H2.
    + destruct (refine v2 (map RN sn)) as [v3 ok] eqn:Er. destruct ok; injection Hval as <- <-; destruct Htriv; repeat split; auto.
      * intros t [= <-]. replace v3 with (fst (refine v2 (map RN sn))) by now rewrite Er. now apply refine_coh.
      * discriminate.
  - destruct (has_names v2).
    + destruct (set_names (Node sk sbs sdv None ses) (Some (firstn (List.length sbs) (names_of v2)))) as [self1 ok] eqn:Es.
      assert (Hs1 : coh p d self1 = true /\ thdr self1 = Some (sk, sbs, sdv)).
      { replace self1 with (fst (set_names (Node sk sbs sdv None ses) (Some (firstn (List.length sbs) (names_of v2))))) by now rewrite Es.
        split; [now apply set_names_coh|now rewrite set_names_hdr]. }
      destruct ok; injection Hval as <- <-; destruct Hs1; repeat split; auto.
      * intros t [= <-]. exact H2.
      * discriminate.
    + injection Hval as <- <-. destruct Htriv. repeat split; auto. intros t [= <-]. exact H2.
Qed.

(* ---- dict conversion ---- *)
Definition conv_go (self0 : tree) :=
  fix go (items : list (string * value)) (acc : tree) : res tree :=
    match items with
    | [] => Ok acc
    | (k, vi) :: r =>
        match vi with
        | VStr => go r (store acc k (nt_like acc))
        | VTree t =>
            let '(acc', rt) := validate_tree acc t in
            match rt with Ok t' => go r (store acc' k t') | Err => Err | Unm => Unm end
        | VDict _ =>
            match conv vi acc with
            | Ok t =>
                let '(acc', rt) := validate_tree acc t in
                match rt with Ok t' => go r (store acc' k t') | Err => Err | Unm => Unm end
            | Err => Err
            | Unm => Unm
            end
        end
    end.

Lemma conv_dict : forall items self, conv (VDict items) self = conv_go self items (empty_like self).
Proof. reflexivity. Qed.

(* a node that is a coherent entry of a container with its own batch size and device *)
Definition self_coh (bs : list nat) (dv : option dev) (t : tree) : Prop :=
  coh bs dv t = true /\ thdr t = Some (KTd, bs, dv).

Lemma self_coh_nt : forall bs dv acc, self_coh bs dv acc -> coh bs dv (nt_like acc) = true.
Proof.
  intros bs dv [sh d|k bs0 dv0 nm es] [H Hh]; [discriminate|]. cbn in Hh. injection Hh as -> -> ->.
  cbn [nt_like]. apply coh_node_iff in H as (H1 & H2 & H3 & _). apply coh_node_iff. repeat split; auto.
  destruct dv; cbn in *; auto.
Qed.

Lemma conv_coh : forall v self bs dv t,
  value_okb v = true -> self_coh bs dv self -> conv v self = Ok t -> match v with VDict _ => self_coh bs dv t | _ => True end.
Proof.
  induction v as [t0| |items IH] using value_ind2; intros self bs dv t Hok Hs Hc; [exact I|exact I|].
  rewrite conv_dict in Hc.
  assert (Hacc : self_coh bs dv (empty_like self)).
  { destruct Hs as [H Hh]. destruct self as [|k bs0 dv0 nm es]; [discriminate|]. cbn in Hh. injection Hh as -> -> ->.
    cbn [empty_like]. split; [|reflexivity]. apply coh_node_iff in H as (H1 & H2 & H3 & _). apply coh_node_iff. repeat split; auto. }
  cbn [value_okb] in Hok. rewrite forallb_forall in Hok.
  revert Hc Hacc. generalize (empty_like self) as acc.
  induction items as [|[k vi] r IHr]; intros acc Hc Hacc.
  - cbn in Hc. injection Hc as <-. exact Hacc.
  - inversion IH as [|? ? IHvi IHrest]; subst. cbn [snd] in IHvi.
    assert (Hokr : forall x, In x r -> value_okb (snd x) = true) by (intros x Hx; apply Hok; now right).
    pose proof (Hok (k, vi) (or_introl eq_refl)) as Hokv. cbn [snd] in Hokv.
    assert (Hstep : forall t1, coh [] None t1 = true ->
              (let '(acc', rt) := validate_tree acc t1 in
               match rt with Ok t' => conv_go self r (store acc' k t') | Err => Err | Unm => Unm end) = Ok t ->
              self_coh bs dv t).
    { intros t1 Ht1 Hgo. destruct Hacc as [Ha Hh]. destruct acc as [|ak abs adv anm aes]; [discriminate|].
      cbn in Hh. injection Hh as -> -> ->.
      destruct (validate_tree (Node KTd bs dv anm aes) t1) as [acc' rt] eqn:Ev.
      destruct (validate_tree_coh _ _ _ _ _ _ _ _ _ _ Ha Ht1 Ev) as (Hc1 & Hh1 & Hr1).
      destruct rt as [t'| |]; try discriminate.
      apply (IHr IHrest Hokr _ Hgo). split; [|now rewrite store_hdr].
      eapply store_coh; eauto. }
    cbn [conv_go] in Hc. destruct vi as [t1|sub|].
    + cbn [value_okb] in Hokv. apply (Hstep t1); auto.
    + destruct (conv (VDict sub) acc) as [t1| |] eqn:Ec; try discriminate.
      pose proof (IHvi acc bs dv t1 Hokv Hacc Ec) as [Hc1 Hh1]. cbn beta iota in Hc1, Hh1.
      apply (Hstep t1); auto.
      eapply coh_nodev. eapply coh_weaken; [exact Hc1|apply prefixb_nil].
    + apply (IHr IHrest Hokr _ Hc). destruct Hacc as [Ha Hh]. split; [|now rewrite store_hdr].
      eapply store_coh; eauto. apply self_coh_nt. now split.
Qed.

(* ---- prep: the value as validated by the node that stores it ---- *)
Lemma prep_coh : forall self v bs dv p d self' r,
  coh p d self = true -> thdr self = Some (KTd, bs, dv) -> value_okb v = true -> prep self v = (self', r) ->
  coh p d self' = true /\ thdr self' = Some (KTd, bs, dv) /\ (forall t, r = Ok t -> coh bs dv t = true).
Proof.
  intros self v bs dv p d self' r Hc Hh Hok Hp.
  destruct self as [|k bs0 dv0 nm es]; [discriminate|]. cbn in Hh. injection Hh as -> -> ->.
  assert (Hself : self_coh bs dv (Node KTd bs dv nm es)).
  { split; [|reflexivity]. apply coh_node_iff in Hc as (_ & _ & H3 & H4). apply coh_node_iff. repeat split; auto using prefixb_refl, dev_ok_self. }
  destruct v as [t0|items|]; cbn [prep] in Hp.
  - cbn [value_okb] in Hok. eapply validate_tree_coh; eauto.
  - destruct (conv (VDict items) (Node KTd bs dv nm es)) as [t1| |] eqn:Ec.
    + pose proof (conv_coh _ _ _ _ _ Hok Hself Ec) as [Hc1 Hh1].
      eapply validate_tree_coh; eauto.
      eapply coh_nodev. eapply coh_weaken; [exact Hc1|apply prefixb_nil].
    + injection Hp as <- <-. repeat split; auto. discriminate.
    + injection Hp as <- <-. repeat split; auto. discriminate.
  - injection Hp as <- <-. repeat split; auto. intros t [= <-]. apply (self_coh_nt bs dv (Node KTd bs dv nm es) Hself).
Qed.

(* ---- _set_str / _set_tuple ---- *)
Lemma set_str_coh : forall self k v ip p d,
  coh p d self = true -> value_okb v = true -> coh p d (fst (set_str self k v ip)) = true.
Proof.
  intros self k v ip p d Hc Hok. unfold set_str.
  destruct self as [|[] bs dv nm es]; [exact Hc| |exact Hc].
  assert (Hmain : coh p d (fst (let '(self1, rv) := prep (Node KTd bs dv nm es) v in
       match rv with
       | Ok t =>
           if negb match ip with INo => false | _ => amem k es end then (store self1 k t, Done)
           else match aget k es, t with
                | Some (Leaf dsh dd), Leaf ssh sd => (self1, if copy_ok dsh dd ssh sd then Done else Raised)
                | Some (Leaf _ _), Node _ _ _ _ _ => (self1, Raised)
                | Some (Node KTd _ _ _ _), Leaf _ _ => (self1, match ip with IBest => Raised | _ => Unmodelled end)
                | _, _ => (self1, Unmodelled)
                end
       | Err => (self1, Raised)
       | Unm => (self1, Unmodelled)
       end)) = true).
  { destruct (prep (Node KTd bs dv nm es) v) as [self1 rv] eqn:Ep.
    destruct (prep_coh _ _ _ _ _ _ _ _ Hc eq_refl Hok Ep) as (H1 & H2 & H3).
    destruct rv as [t| |]; [|exact H1|exact H1].
    destruct (negb match ip with INo => false | _ => amem k es end).
    - cbn [fst]. eapply store_coh; eauto.
    - destruct (aget k es) as [[dsh dd|[] ? ? ? ?]|]; destruct t; exact H1. }
  destruct ip; destruct (amem k es); try exact Hmain. exact Hc.
Qed.

Lemma set_tuple_coh : forall path v ip self p d,
  coh p d self = true -> value_okb v = true -> coh p d (fst (set_tuple path v ip self)) = true.
Proof.
  induction path as [|k rest IH]; intros v ip self p d Hc Hok.
  - destruct self as [|[] ? ? ? ?]; exact Hc.
  - destruct self as [|[] bs dv nm es]; [exact Hc| |exact Hc]. cbn [set_tuple].
    destruct rest as [|k2 rest'].
    + now apply set_str_coh.
    + pose proof Hc as Hall. apply coh_node_iff in Hc as (H1 & H2 & H3 & H4).
      destruct (aget k es) as [[|[] cbs cdv cnm ces]|] eqn:Eg; try exact Hall.
      * (* existing nested node *)
        pose proof (coh_ents_aget _ _ _ _ _ H4 Eg) as Hcc.
        specialize (IH v ip (Node KTd cbs cdv cnm ces) bs dv Hcc Hok).
        destruct (set_tuple (k2 :: rest') v ip (Node KTd cbs cdv cnm ces)) as [c' o]. cbn [fst] in *.
        apply coh_node_iff. repeat split; auto using coh_ents_aset.
      * (* missing: created empty first (set_ raises instead) *)
        destruct ip; try exact Hall;
        specialize (IH v INo (Node KTd bs dv nm []) bs dv (coh_fresh _ _ _ _ H3) Hok);
        destruct (set_tuple (k2 :: rest') v INo (Node KTd bs dv nm [])) as [c' o]; cbn [fst] in *;
        apply coh_node_iff; repeat split; auto using coh_ents_aset.
Qed.
